(** Proofs about the compressed trie of aries/trie.go (model: Radix.v):
    the structural invariant is preserved by [add], [add] never panics,
    and [find] on the trie built by ANY sequence of insertions returns the
    longest registered prefix. *)
From Coq Require Import List NArith Bool Lia Arith PeanoNat Permutation.
From Verif Require Import Aries.Str Aries.Radix.
Import ListNotations.

(** * Induction over nodes (children nested in a list) *)
Section NodeInd.
  Variable P : node -> Prop.
  Hypothesis H : forall br pre hit ch,
    Forall (fun kc => P (snd kc)) ch -> P (Node br pre hit ch).
  Fixpoint node_ind2 (t : node) : P t :=
    match t with
    | Node br pre hit ch =>
        H br pre hit ch
          ((fix go l : Forall (fun kc => P (snd kc)) l :=
              match l with
              | [] => Forall_nil _
              | kc :: r => Forall_cons kc (node_ind2 (snd kc)) (go r)
              end) ch)
    end.
End NodeInd.

(** * What a trie denotes, and its invariant *)

(** Words registered below [t], relative to [t]. *)
Fixpoint contents (t : node) : list str :=
  match t with
  | Node _ _ hit ch =>
      (if hit then [[]] else []) ++
      (fix go l := match l with
                   | [] => []
                   | kc :: r => map (app (n_branch (snd kc))) (contents (snd kc)) ++ go r
                   end) ch
  end.

Definition child_words (kc : N * node) : list str :=
  map (app (n_branch (snd kc))) (contents (snd kc)).

Lemma contents_eq br pre hit ch :
  contents (Node br pre hit ch) = (if hit then [[]] else []) ++ flat_map child_words ch.
Proof.
  reflexivity.
Qed.

(** [wf path t]: [t.prefix] is the concatenation of the branches from the
    root ([path]); keys of the child map are distinct; every child sits under
    the first byte of its non-empty branch. *)
Fixpoint wf (path : str) (t : node) : Prop :=
  match t with
  | Node _ pre _ ch =>
      pre = path /\ NoDup (map fst ch) /\
      (fix all l := match l with
                    | [] => True
                    | kc :: r =>
                        ((exists b', n_branch (snd kc) = fst kc :: b') /\
                         wf (path ++ n_branch (snd kc)) (snd kc)) /\ all r
                    end) ch
  end.

Definition child_ok (path : str) (kc : N * node) : Prop :=
  (exists b', n_branch (snd kc) = fst kc :: b') /\ wf (path ++ n_branch (snd kc)) (snd kc).

Lemma wf_eq path br pre hit ch :
  wf path (Node br pre hit ch) <->
  pre = path /\ NoDup (map fst ch) /\ Forall (child_ok path) ch.
Proof.
  simpl. split; intros (A & B & C); repeat split; auto.
  - induction ch as [|kc r IH]; constructor.
    + apply C.
    + apply IH; [inversion B; auto | apply C].
  - induction ch as [|kc r IH]; auto. inversion C; subst. split; auto.
    apply IH; auto. inversion B; auto.
Qed.

Lemma wf_set_branch path b t : wf path t -> wf path (set_branch b t).
Proof. destruct t; auto. Qed.

Lemma wf_set_hit path h t : wf path t -> wf path (set_hit h t).
Proof. destruct t; auto. Qed.

Lemma wf_prefix path t : wf path t -> n_prefix t = path.
Proof. destruct t; simpl; tauto. Qed.

Lemma contents_set_branch b t : contents (set_branch b t) = contents t.
Proof. destruct t; auto. Qed.

(** * Association-list facts *)

Lemma on_child_lookup {A} key (f : node -> A) l :
  on_child key f l = option_map f (lookup key l).
Proof.
  induction l as [|[k c] r IH]; simpl; auto. destruct (k =? key)%N; auto.
Qed.

Lemma lookup_None k l : lookup k l = None <-> ~ In k (map fst l).
Proof.
  induction l as [|[k' c] r IH]; simpl; [tauto|].
  destruct (N.eqb_spec k' k).
  - split; [discriminate | intros H; exfalso; auto].
  - rewrite IH. tauto.
Qed.

Lemma lookup_split k l c :
  lookup k l = Some c -> exists l1 l2, l = l1 ++ (k, c) :: l2 /\ ~ In k (map fst l1).
Proof.
  induction l as [|[k' c'] r IH]; simpl; [discriminate|].
  destruct (N.eqb_spec k' k) as [->|ne].
  - intros [= ->]. exists [], r. simpl. auto.
  - intros H. destruct (IH H) as (l1 & l2 & -> & NI).
    exists ((k', c') :: l1), l2. simpl. split; auto. intros [E|I]; auto.
Qed.

Lemma set_child_split k c c' l1 l2 :
  ~ In k (map fst l1) -> set_child k c' (l1 ++ (k, c) :: l2) = l1 ++ (k, c') :: l2.
Proof.
  induction l1 as [|[k1 c1] r IH]; simpl; intros NI.
  - rewrite N.eqb_refl. auto.
  - destruct (N.eqb_spec k1 k) as [->|ne]; [exfalso; auto|]. rewrite IH; auto.
Qed.

Lemma set_child_new k c l : ~ In k (map fst l) -> set_child k c l = l ++ [(k, c)].
Proof.
  induction l as [|[k1 c1] r IH]; simpl; intros NI; auto.
  destruct (N.eqb_spec k1 k) as [->|ne]; [exfalso; auto|]. rewrite IH; auto.
Qed.

(** * Words and their first byte *)

Lemma child_words_head path kc w :
  child_ok path kc -> In w (child_words kc) -> exists w', w = fst kc :: w'.
Proof.
  intros [[b' Hb] _] I. unfold child_words in I. apply in_map_iff in I as (x & <- & _).
  rewrite Hb. simpl. eauto.
Qed.

Lemma flat_words_head path l w :
  Forall (child_ok path) l -> In w (flat_map child_words l) ->
  exists k w', In k (map fst l) /\ w = k :: w'.
Proof.
  intros F I. apply in_flat_map in I as (kc & Ikc & Iw).
  rewrite Forall_forall in F. destruct (child_words_head path kc w (F _ Ikc) Iw) as (w' & ->).
  exists (fst kc), w'. split; auto. apply in_map; auto.
Qed.

Lemma nil_in_contents path t : wf path t -> (In [] (contents t) <-> n_hit t = true).
Proof.
  destruct t as [br pre hit ch]. rewrite wf_eq, contents_eq. intros (_ & _ & F). simpl.
  rewrite in_app_iff. split.
  - intros [I|I].
    + destruct hit; [auto | destruct I].
    + destruct (flat_words_head _ _ _ F I) as (k & w' & _ & E). discriminate.
  - intros ->. left. simpl. auto.
Qed.

(** Words of [t] that start with [key] all come from the child at [key]. *)
Lemma words_with_key path br pre hit l1 k c l2 w' :
  wf path (Node br pre hit (l1 ++ (k, c) :: l2)) ->
  (In (k :: w') (contents (Node br pre hit (l1 ++ (k, c) :: l2))) <->
   In (k :: w') (child_words (k, c))).
Proof.
  rewrite wf_eq, contents_eq. intros (_ & ND & F).
  rewrite flat_map_app. simpl. rewrite !in_app_iff.
  rewrite map_app in ND. simpl in ND. apply NoDup_remove_2 in ND.
  rewrite Forall_app in F. destruct F as [F1 F2]. inversion F2 as [|? ? _ F2']; subst.
  split; [|tauto].
  intros [I|[I|[I|I]]]; auto; exfalso.
  - destruct hit; simpl in I; [destruct I as [I|[]]; discriminate | destruct I].
  - destruct (flat_words_head _ _ _ F1 I) as (k' & w'' & Ik & [= <- _]).
    apply ND. apply in_or_app. auto.
  - destruct (flat_words_head _ _ _ F2' I) as (k' & w'' & Ik & [= <- _]).
    apply ND. apply in_or_app. auto.
Qed.

Lemma words_without_key path br pre hit ch k w' :
  wf path (Node br pre hit ch) -> lookup k ch = None ->
  ~ In (k :: w') (contents (Node br pre hit ch)).
Proof.
  rewrite wf_eq, contents_eq. intros (_ & _ & F) L. rewrite in_app_iff. intros [I|I].
  - destruct hit; simpl in I; [destruct I as [I|[]]; discriminate | destruct I].
  - destruct (flat_words_head _ _ _ F I) as (k' & w'' & Ik & [= <- _]).
    apply lookup_None in L. auto.
Qed.

Lemma in_child_words k c w : In w (child_words (k, c)) <-> exists x, w = n_branch c ++ x /\ In x (contents c).
Proof.
  unfold child_words. simpl. rewrite in_map_iff. split; intros (x & A & B); eauto.
Qed.

(** * [find] returns the longest registered prefix *)

Lemma find_eq br pre hit ch key s0 res :
  find (Node br pre hit ch) (key :: s0) res =
  match lookup key ch with
  | None => (res, false)
  | Some c => find_step (find c) c (key :: s0) res
  end.
Proof.
  cbn [find]. rewrite on_child_lookup. destruct (lookup key ch); auto.
Qed.

Definition find_post (path : str) (t : node) (s res : str) (out : str * bool) : Prop :=
  (snd out = true <-> In s (contents t)) /\
  ((fst out = res /\ forall w, In w (contents t) -> w <> [] -> ~ is_prefix w s) \/
   (exists w, w <> [] /\ In w (contents t) /\ is_prefix w s /\ fst out = path ++ w /\
              forall w', In w' (contents t) -> is_prefix w' s -> length w' <= length w)).

Lemma find_correct t : forall path s res, wf path t -> find_post path t s res (find t s res).
Proof.
  induction t as [br pre hit ch IH] using node_ind2. intros path s res W.
  destruct s as [|key s0].
  - (* len(s) == 0 *)
    cbn [find n_hit]. split; simpl.
    + rewrite (nil_in_contents path _ W). simpl. tauto.
    + left. split; auto. intros w _ Hne Hp. apply is_prefix_of_nil in Hp. auto.
  - rewrite find_eq. destruct (lookup key ch) as [c|] eqn:L.
    + destruct (lookup_split _ _ _ L) as (l1 & l2 & -> & NI).
      pose proof W as W0. rewrite wf_eq in W. destruct W as (-> & ND & F).
      rewrite Forall_app in F. destruct F as [F1 F2]. inversion F2 as [|? ? [[b' Hb] Wc] F2']; subst.
      simpl in Hb, Wc.
      rewrite Forall_app in IH. destruct IH as [_ IH]. inversion IH as [|? ? IHc _]; subst. simpl in IHc.
      unfold find_step. destruct (strip_prefix (n_branch c) (key :: s0)) as [s'|] eqn:SP.
      * apply strip_prefix_Some in SP.
        specialize (IHc (path ++ n_branch c) s' (if n_hit c then n_prefix c else res) Wc).
        destruct (find c s' (if n_hit c then n_prefix c else res)) as [r b].
        destruct IHc as [Hb1 Hr]. simpl in Hb1, Hr.
        assert (KEYW : forall w, In w (contents (Node br path hit (l1 ++ (key, c) :: l2))) ->
                 w <> [] -> is_prefix w (key :: s0) ->
                 exists x, w = n_branch c ++ x /\ In x (contents c) /\ is_prefix x s').
        { intros w I Hne Hp. destruct w as [|k w]; [congruence|].
          destruct (is_prefix_cons_inv _ _ _ _ Hp) as [-> _].
          apply (words_with_key _ _ _ _ _ _ _ _ _ W0) in I. apply in_child_words in I as (x & E & Ix).
          exists x. split; auto. split; auto. rewrite E, SP in Hp. apply (proj1 (is_prefix_app_inv _ _ _)) in Hp. auto. }
        split; simpl.
        -- rewrite Hb1. rewrite (words_with_key _ _ _ _ _ _ _ _ _ W0), in_child_words.
           split.
           ++ intros I. exists s'. auto.
           ++ intros (x & E & Ix). rewrite SP in E. apply app_inv_head in E. subst; auto.
        -- destruct Hr as [[-> NoW]|(w & Wne & Iw & Pw & -> & Mx)].
           ++ destruct (n_hit c) eqn:Hc.
              ** right. exists (n_branch c). rewrite Hb. split; [discriminate|].
                 rewrite <- Hb. split; [|split; [|split]].
                 --- rewrite Hb at 1. apply (words_with_key _ _ _ _ _ _ _ _ _ W0).
                     rewrite <- Hb. apply in_child_words. exists []. rewrite app_nil_r. split; auto.
                     apply (nil_in_contents _ _ Wc); auto.
                 --- exists s'; auto.
                 --- rewrite (wf_prefix _ _ Wc). auto.
                 --- intros w' I' P'. destruct w' as [|k' w']; [simpl; lia|].
                     destruct (KEYW _ I' ltac:(discriminate) P') as (x & -> & Ix & Px).
                     destruct x as [|x0 x]; [rewrite app_nil_r; lia|].
                     exfalso. apply (NoW (x0 :: x)); auto. discriminate.
              ** left. split; auto. intros w I Hne Hp.
                 destruct (KEYW _ I Hne Hp) as (x & -> & Ix & Px).
                 destruct x as [|x0 x].
                 --- apply (nil_in_contents _ _ Wc) in Ix. congruence.
                 --- apply (NoW (x0 :: x)); auto. discriminate.
           ++ right. exists (n_branch c ++ w). split; [rewrite Hb; discriminate|].
              split; [|split; [|split]].
              ** rewrite Hb. simpl. apply (words_with_key _ _ _ _ _ _ _ _ _ W0).
                 apply in_child_words. exists w. rewrite Hb. auto.
              ** rewrite SP. apply is_prefix_app_inv. auto.
              ** rewrite app_assoc. auto.
              ** intros w' I' P'. destruct w' as [|k' w']; [simpl; lia|].
                 destruct (KEYW _ I' ltac:(discriminate) P') as (x & -> & Ix & Px).
                 rewrite !app_length. specialize (Mx _ Ix Px). lia.
      * (* the branch of the child is not a prefix of s *)
        apply strip_prefix_None in SP. split; simpl.
        -- split; [discriminate|]. intros I. exfalso.
           apply (words_with_key _ _ _ _ _ _ _ _ _ W0) in I. apply in_child_words in I as (x & E & _).
           apply SP. exists x; auto.
        -- left. split; auto. intros w I Hne Hp. destruct w as [|k w]; [congruence|].
           destruct (is_prefix_cons_inv _ _ _ _ Hp) as [-> _].
           apply (words_with_key _ _ _ _ _ _ _ _ _ W0) in I. apply in_child_words in I as (x & E & _).
           apply SP. rewrite E in Hp. destruct Hp as [r Hr]. exists (x ++ r). rewrite Hr, app_assoc. auto.
    + (* t.child[key] == nil *)
      split; simpl.
      * split; [discriminate|]. intros I. exfalso. eapply words_without_key; eauto.
      * left. split; auto. intros w I Hne Hp. destruct w as [|k w]; [congruence|].
        destruct (is_prefix_cons_inv _ _ _ _ Hp) as [-> _]. eapply words_without_key; eauto.
Qed.

(** * [add] keeps the invariant, never panics, and registers exactly [s] *)

Lemma add_eq br pre hit ch key s0 :
  add (Node br pre hit ch) (key :: s0) =
  match lookup key ch with
  | None =>
      match add_child (Node br pre hit ch) (new_node (key :: s0) (pre ++ key :: s0)) with
      | Some t' => Some (t', true)
      | None => None
      end
  | Some c =>
      match add_step (add c) pre c (key :: s0) with
      | None => None
      | Some (c', b) => Some (Node br pre hit (set_child key c' ch), b)
      end
  end.
Proof.
  cbn [add]. rewrite on_child_lookup. destruct (lookup key ch); reflexivity.
Qed.

Definition add_post (path : str) (t : node) (s : str) (t' : node) (b : bool) : Prop :=
  wf path t' /\ n_branch t' = n_branch t /\
  (forall w, In w (contents t') <-> (w = s /\ s <> []) \/ In w (contents t)) /\
  (b = true <-> s <> [] /\ ~ In s (contents t)) /\
  (b = false -> t' = t).

Lemma replace_child_contents br pre hit l1 k c c' l2 s :
  (forall w, In w (child_words (k, c')) <-> w = s \/ In w (child_words (k, c))) ->
  forall w, In w (contents (Node br pre hit (l1 ++ (k, c') :: l2))) <->
            w = s \/ In w (contents (Node br pre hit (l1 ++ (k, c) :: l2))).
Proof.
  intros H w. rewrite !contents_eq, !flat_map_app. simpl. rewrite !in_app_iff, H. tauto.
Qed.

Lemma replace_child_wf path br pre hit l1 k c c' l2 :
  wf path (Node br pre hit (l1 ++ (k, c) :: l2)) -> child_ok path (k, c') ->
  wf path (Node br pre hit (l1 ++ (k, c') :: l2)).
Proof.
  rewrite !wf_eq. intros (A & B & C) K. split; auto. split.
  - rewrite map_app in *. simpl in *. auto.
  - rewrite Forall_app in *. destruct C as [C1 C2]. split; auto.
    inversion C2; subst. constructor; auto.
Qed.

Lemma contents_set_hit_true c : n_hit c = false -> contents (set_hit true c) = [] :: contents c.
Proof. destruct c as [b p h ch]. simpl. intros ->. auto. Qed.

Lemma child_words_map k c : child_words (k, c) = map (app (n_branch c)) (contents c).
Proof. auto. Qed.

Lemma in_contents b p h ch x :
  In x (contents (Node b p h ch)) <->
  (h = true /\ x = []) \/
  exists kc, In kc ch /\ exists x', x = n_branch (snd kc) ++ x' /\ In x' (contents (snd kc)).
Proof.
  rewrite contents_eq, in_app_iff, in_flat_map. split.
  - intros [I|(kc & Ik & Iw)].
    + destruct h; simpl in I; [destruct I as [<-|[]]; auto | destruct I].
    + right. exists kc. split; auto. destruct kc. apply in_child_words in Iw. auto.
  - intros [[-> ->]|(kc & Ik & x' & E & Ix)]; [left; simpl; auto|].
    right. exists kc. split; auto. destruct kc. apply in_child_words. eauto.
Qed.

Lemma set_branch_branch b c : n_branch (set_branch b c) = b.
Proof. destruct c; auto. Qed.

Lemma add_step_correct path c key b' s0 rec :
  n_branch c = key :: b' -> wf (path ++ n_branch c) c ->
  (forall rs, exists c' b, rec rs = Some (c', b) /\ add_post (path ++ n_branch c) c rs c' b) ->
  exists c' b, add_step rec path c (key :: s0) = Some (c', b) /\
    child_ok path (key, c') /\
    (forall w, In w (child_words (key, c')) <-> w = key :: s0 \/ In w (child_words (key, c))) /\
    (b = true <-> ~ In (key :: s0) (child_words (key, c))) /\
    (b = false -> c' = c).
Proof.
  intros Hb Wc IH. unfold add_step.
  destruct (lcp_head key b' s0) as (com0 & rb & rs & L). rewrite Hb, L.
  apply lcp_spec in L. destruct L as (Eb & Es & HD).
  rewrite <- Hb in Eb.
  assert (Hkey : exists s1, key :: s0 = key :: s1) by eauto.
  assert (Hcom : exists c1, key :: com0 = key :: c1) by eauto.
  remember (key :: s0) as s eqn:Heqs. remember (key :: com0) as com eqn:Heqcom.
  clear Heqs Heqcom s0 com0.
  assert (NIL : In [] (contents c) <-> n_hit c = true) by (apply (nil_in_contents _ _ Wc)).
  destruct rs as [|z rs'], rb as [|y rb'].
  - (* s equals the branch *)
    rewrite app_nil_r in Eb, Es. subst com. 
    destruct (n_hit c) eqn:Hc.
    + exists c, false. split; auto. split; [split; simpl; eauto|]. split; [|split]; auto.
      * intros w. split; auto. intros [->|]; auto. apply in_child_words. exists [].
        rewrite app_nil_r. split; auto. apply NIL; auto.
      * split; [discriminate|]. intros NI. exfalso. apply NI. apply in_child_words. exists [].
        rewrite app_nil_r. split; auto. apply NIL; auto.
    + exists (set_hit true c), true.
      assert (Ebr : n_branch (set_hit true c) = n_branch c) by (destruct c; auto).
      split; auto. split; [|split; [|split]].
      * split; simpl; rewrite Ebr; eauto. apply wf_set_hit; auto.
      * intros w. rewrite !in_child_words, Ebr. rewrite contents_set_hit_true by auto. split.
        -- intros (x & -> & [<-|Ix]); [left; rewrite app_nil_r; auto | right; eauto].
        -- intros [->|(x & -> & Ix)]; [exists []; rewrite app_nil_r; simpl; auto | exists x; simpl; auto].
      * split; auto. intros _ I. apply in_child_words in I as (x & E & Ix).
        rewrite <- Es in E. replace s with (s ++ []) in E at 1 by apply app_nil_r.
        apply app_inv_head in E. subst x. apply NIL in Ix. congruence.
      * discriminate.
  - (* s is a proper prefix of the branch: new node above the child *)
    rewrite app_nil_r in Es. subst com.
    unfold add_child. rewrite set_branch_branch.
    cbn [n_child new_node lookup set_children set_child].
    eexists _, true. split; [reflexivity|]. split; [|split; [|split]].
    + destruct Hkey as [s1 Hs1]. split; cbn [fst snd n_branch]; [eauto|].
      apply wf_eq. split; auto. split; [repeat constructor; simpl; tauto|].
      repeat constructor; cbn [fst snd]; rewrite set_branch_branch; [eauto|].
      apply wf_set_branch. rewrite <- app_assoc, <- Eb. auto.
    + intros w. rewrite !in_child_words. cbn [n_branch]. split.
      * intros (x & -> & Ix). apply in_contents in Ix as [[_ ->]|(kc & [<-|[]] & x' & -> & Ix')].
        -- left. apply app_nil_r.
        -- right. cbn [snd] in *. rewrite set_branch_branch. rewrite contents_set_branch in Ix'.
           exists x'. split; auto. rewrite Eb, app_assoc. auto.
      * intros [->|(x & -> & Ix)].
        -- exists []. split; [symmetry; apply app_nil_r|]. apply in_contents. auto.
        -- exists ((y :: rb') ++ x). split; [rewrite Eb, app_assoc; auto|].
           apply in_contents. right. eexists. split; [left; reflexivity|]. cbn [snd].
           rewrite set_branch_branch, contents_set_branch. eauto.
    + split; auto. intros _ I. apply in_child_words in I as (x & E & _).
      rewrite Eb in E. rewrite <- app_assoc in E.
      replace s with (s ++ []) in E at 1 by apply app_nil_r.
      apply app_inv_head in E. discriminate.
    + discriminate.
  - (* the branch is a proper prefix of s: descend *)
    rewrite app_nil_r in Eb. subst com.
    destruct (IH (z :: rs')) as (c' & b & -> & W' & Ebr & Hc & Hbb & Hsame).
    exists c', b. split; auto. split; [|split; [|split]].
    + split; simpl; rewrite Ebr; eauto.
    + intros w. rewrite !in_child_words, Ebr. split.
      * intros (x & -> & Ix). apply Hc in Ix as [[-> _]|Ix]; [left; auto | right; eauto].
      * intros [->|(x & -> & Ix)].
        -- exists (z :: rs'). split; auto. apply Hc. left. split; auto. discriminate.
        -- exists x. split; auto. apply Hc. auto.
    + rewrite Hbb, in_child_words. split.
      * intros [_ NI] (x & E & Ix). apply NI. rewrite Es in E. apply app_inv_head in E. subst; auto.
      * intros NI. split; [discriminate|]. intros I. apply NI. exists (z :: rs'). auto.
    + auto.
  - (* split *)
    simpl in HD.
    unfold add_child. rewrite set_branch_branch.
    cbn [n_child set_hit new_node lookup set_children set_child n_branch].
    destruct (N.eqb_spec y z) as [E|_]; [congruence|].
    eexists _, true. split; [reflexivity|]. split; [|split; [|split]].
    + destruct Hcom as [c1 Hc1]. split; cbn [fst snd n_branch]; [eauto|].
      apply wf_eq. split; auto. split.
      { repeat constructor; simpl; intuition congruence. }
      constructor; [|constructor; [|constructor]].
      * split; cbn [fst snd]; rewrite set_branch_branch; [eauto|].
        apply wf_set_branch. rewrite <- app_assoc, <- Eb. auto.
      * split; unfold new_node; cbn [fst snd n_branch]; [eauto|].
        apply wf_eq. split; [rewrite <- app_assoc, <- Es; auto|]. split; constructor.
    + intros w. rewrite !in_child_words. cbn [n_branch]. split.
      * intros (x & -> & Ix). apply in_contents in Ix as [[D _]|(kc & [<-|[<-|[]]] & x' & -> & Ix')];
          [discriminate| |]; cbn [snd n_branch] in *.
        -- right. rewrite set_branch_branch. rewrite contents_set_branch in Ix'.
           exists x'. split; auto. rewrite Eb, app_assoc. auto.
        -- left. simpl in Ix'. destruct Ix' as [<-|[]]. rewrite app_nil_r. auto.
      * intros [->|(x & -> & Ix)].
        -- exists (z :: rs'). split; auto. apply in_contents. right. eexists. split; [right; left; reflexivity|].
           cbn [snd n_branch]. exists []. rewrite app_nil_r. simpl. auto.
        -- exists ((y :: rb') ++ x). split; [rewrite Eb, app_assoc; auto|].
           apply in_contents. right. eexists. split; [left; reflexivity|]. cbn [snd].
           rewrite set_branch_branch, contents_set_branch. eauto.
    + split; auto. intros _ I. apply in_child_words in I as (x & E & _).
      rewrite Eb, Es, <- app_assoc in E.
      apply app_inv_head in E. simpl in E. congruence.
    + discriminate.
Qed.

Lemma NoDup_app_one {A} (l : list A) k : NoDup l -> ~ In k l -> NoDup (l ++ [k]).
Proof.
  induction l as [|x l IH]; simpl; intros ND NI.
  - constructor; auto.
  - inversion ND; subst. constructor.
    + rewrite in_app_iff. simpl. intuition.
    + apply IH; auto.
Qed.

Lemma add_correct t : forall path s, wf path t ->
  exists t' b, add t s = Some (t', b) /\ add_post path t s t' b.
Proof.
  induction t as [br pre hit ch IH] using node_ind2. intros path s W.
  destruct s as [|key s0].
  - exists (Node br pre hit ch), false. split; auto. split; auto. split; auto. split; [|split]; auto.
    + intros w. split; auto. intros [[_ C]|]; auto. congruence.
    + split; [discriminate | intros [C _]; congruence].
  - rewrite add_eq. destruct (lookup key ch) as [c|] eqn:L.
    + destruct (lookup_split _ _ _ L) as (l1 & l2 & -> & NI).
      pose proof W as W0. rewrite wf_eq in W. destruct W as (-> & ND & F).
      rewrite Forall_app in F. destruct F as [F1 F2]. inversion F2 as [|? ? [[b' Hb] Wc] F2']; subst.
      cbn [fst snd] in Hb, Wc.
      rewrite Forall_app in IH. destruct IH as [_ IH]. inversion IH as [|? ? IHc _]; subst. cbn [snd] in IHc.
      destruct (add_step_correct path c key b' s0 (add c) Hb Wc) as (c' & b & -> & OK & CW & HB & SAME).
      { intros rs. apply IHc; auto. }
      rewrite set_child_split by auto.
      exists (Node br path hit (l1 ++ (key, c') :: l2)), b. split; auto.
      split; [eapply replace_child_wf; eauto|]. split; auto. split; [|split].
      * intros w. rewrite (replace_child_contents br path hit l1 key c c' l2 (key :: s0) CW).
        split; [intros [E|I]; auto; left; split; [tauto | discriminate] | intros [[E _]|I]; auto].
      * rewrite HB, (words_with_key _ _ _ _ _ _ _ _ _ W0). split; [split; [discriminate|auto] | tauto].
      * intros E. rewrite (SAME E). auto.
    + unfold add_child, new_node. cbn [n_branch n_child set_children]. rewrite L.
      pose proof L as NI. apply lookup_None in NI. rewrite set_child_new by auto.
      pose proof W as W0. rewrite wf_eq in W. destruct W as (-> & ND & F).
      eexists _, true. split; [reflexivity|]. split; [|split; [|split; [|split]]]; auto.
      * apply wf_eq. split; auto. split.
        -- rewrite map_app. simpl. apply NoDup_app_one; auto.
        -- apply Forall_app. split; auto. constructor; [|constructor].
           split; cbn [fst snd n_branch]; [eauto|]. apply wf_eq. split; auto. split; constructor.
      * intros w. rewrite !contents_eq, flat_map_app, !in_app_iff. simpl. rewrite app_nil_r.
        split.
        -- intros [I|[I|[<-|[]]]]; auto. left. split; [auto | discriminate].
        -- intros [[-> _]|[I|I]]; auto.
      * split; auto. intros _. split; [discriminate|]. eapply words_without_key; eauto.
      * discriminate.
Qed.

Lemma add_total t path s : wf path t -> add t s <> None.
Proof. intros W. destruct (add_correct t path s W) as (t' & b & -> & _). discriminate. Qed.

Lemma add_hit path t s t' b : wf path t -> add t s = Some (t', b) -> n_hit t' = n_hit t.
Proof.
  intros W E. destruct (add_correct t path s W) as (t2 & b2 & E2 & W' & _ & C & _).
  rewrite E in E2. injection E2 as <- <-.
  apply eq_true_iff_eq. rewrite <- (nil_in_contents _ _ W), <- (nil_in_contents _ _ W'), C.
  split; auto. intros [[X Y]|]; auto. subst s. congruence.
Qed.

(** * Any sequence of insertions *)

(** What [add] answers along a sequence: [true] exactly for a non-empty
    string not seen before. *)
Fixpoint fresh_flags (seen ss : list str) : list bool :=
  match ss with
  | [] => []
  | s :: r =>
      let b := negb (str_eqb s []) && negb (existsb (str_eqb s) seen) in
      b :: fresh_flags (if b then s :: seen else seen) r
  end.

Lemma existsb_str s l : existsb (str_eqb s) l = true <-> In s l.
Proof.
  rewrite existsb_exists. split.
  - intros (x & I & E). apply str_eqb_eq in E. subst; auto.
  - intros I. exists s. split; auto. apply str_eqb_refl.
Qed.

Lemma add_all_correct ss : forall t seen,
  wf [] t -> (forall w, In w (contents t) <-> w = [] \/ In w seen) ->
  exists t' bs, add_all t ss = Some (t', bs) /\ wf [] t' /\ bs = fresh_flags seen ss /\
    (forall w, In w (contents t') <-> w = [] \/ In w seen \/ In w ss).
Proof.
  induction ss as [|s r IH]; intros t seen W C.
  - exists t, []. simpl. split; auto. split; auto. split; auto. intros w. rewrite C. tauto.
  - simpl. destruct (add_correct t [] s W) as (t1 & b & -> & W1 & _ & C1 & HB & _).
    set (b0 := negb (str_eqb s []) && negb (existsb (str_eqb s) seen)).
    assert (Eb : b = b0).
    { apply eq_true_iff_eq. rewrite HB. unfold b0.
      rewrite andb_true_iff, !negb_true_iff, str_eqb_neq, <- not_true_iff_false, existsb_str, C.
      split; intros [A B]; split; auto. intros [E|I]; auto. }
    destruct (IH t1 (if b0 then s :: seen else seen) W1) as (t2 & bs & -> & W2 & -> & C2).
    { intros w. rewrite C1, C. destruct b0 eqn:E0.
      - simpl. unfold b0 in E0. apply andb_true_iff in E0 as [E0 _].
        apply negb_true_iff, str_eqb_neq in E0. intuition (subst; auto).
      - unfold b0 in E0. apply andb_false_iff in E0 as [E0|E0].
        + apply negb_false_iff, str_eqb_eq in E0. subst s. intuition.
        + apply negb_false_iff, existsb_str in E0. intuition (subst; auto). }
    exists t2, (b :: fresh_flags (if b0 then s :: seen else seen) r). split; auto. split; auto.
    split; [rewrite Eb; auto|].
    intros w. rewrite C2. destruct b0 eqn:E0; simpl; [intuition|].
    unfold b0 in E0. apply andb_false_iff in E0 as [E0|E0].
    + apply negb_false_iff, str_eqb_eq in E0. subst s. intuition.
    + apply negb_false_iff, existsb_str in E0. intuition (subst; auto).
Qed.

Lemma wf_root : wf [] root.
Proof. simpl. split; auto. split; [constructor | auto]. Qed.

Lemma find_best t s :
  wf [] t -> best (contents t) s (fst (trie_find t s)).
Proof.
  intros W. unfold trie_find. destruct (find_correct t [] s [] W) as [_ [[-> NoW]|(w & Wne & Iw & Pw & -> & Mx)]].
  - split; [apply is_prefix_nil|]. split; auto. intros w I P.
    destruct w as [|x w]; [simpl; lia|]. exfalso. apply (NoW _ I); auto. discriminate.
  - simpl. split; auto.
Qed.

(** The trie built from [ss] in the given order answers every lookup with
    the longest element of [ss] that is a prefix of [s] (the empty string
    when there is none), and reports an exact hit exactly for the elements
    of [ss] (and for the empty string, as [newTrieRoot] sets [hit]). *)
Theorem radix_find_longest ss :
  exists t bs, build ss = Some (t, bs) /\ bs = fresh_flags [] ss /\
    forall s, trie_find t s = (longest_prefix ss s, existsb (str_eqb s) ([] :: ss)).
Proof.
  destruct (add_all_correct ss root [] wf_root) as (t & bs & E & W & Hbs & C).
  { intros w. simpl. intuition congruence. }
  exists t, bs. split; auto. split; auto. intros s.
  rewrite (surjective_pairing (trie_find t s)). f_equal.
  - apply (best_unique ss s); [|apply longest_prefix_best].
    apply (best_ext (contents t)); [|apply find_best; auto].
    intros w Hne. rewrite C. simpl. tauto.
  - apply eq_true_iff_eq. rewrite existsb_str.
    destruct (find_correct t [] s [] W) as [Hb _]. unfold trie_find. rewrite Hb, C. simpl.
    intuition.
Qed.

Theorem radix_never_panics ss : build ss <> None.
Proof. destruct (radix_find_longest ss) as (t & bs & -> & _). discriminate. Qed.

(** The answer depends only on the SET of registered strings. *)
Theorem radix_order_irrelevant ss ss' t t' bs bs' :
  (forall w, In w ss <-> In w ss') ->
  build ss = Some (t, bs) -> build ss' = Some (t', bs') ->
  forall s, trie_find t s = trie_find t' s.
Proof.
  intros Hset E E' s.
  destruct (radix_find_longest ss) as (t1 & bs1 & E1 & _ & F1).
  destruct (radix_find_longest ss') as (t2 & bs2 & E2 & _ & F2).
  rewrite E in E1. rewrite E' in E2. injection E1 as <- <-. injection E2 as <- <-.
  rewrite F1, F2. f_equal.
  - apply (best_unique ss' s); [|apply longest_prefix_best].
    apply (best_ext ss); [intros; apply Hset | apply longest_prefix_best].
  - apply eq_true_iff_eq. rewrite !existsb_str. simpl. rewrite Hset. tauto.
Qed.

Corollary radix_permutation ss ss' t t' bs bs' :
  Permutation ss ss' -> build ss = Some (t, bs) -> build ss' = Some (t', bs') ->
  forall s, trie_find t s = trie_find t' s.
Proof.
  intros P. apply radix_order_irrelevant. intros w. split; apply Permutation_in; auto.
  apply Permutation_sym; auto.
Qed.
