(** What the translator extracts from pisces/mem_entry.go (Gen/KvMemOwn.v):
    per function the statements that decide whether bytes are copied or a
    reference is kept, in source order; and how that skeleton determines the
    [copies] parameter of Kv/Own.v. *)
From Coq Require Import List String Bool.
From Verif Require Import Kv.Own.
Import ListNotations.

Inductive mact :=
| MNewBuffer              (* buf: new(bytes.Buffer)                      *)
| MWrapArg                (* bytes.NewBuffer(bs): the argument IS the buffer *)
| MCallSetBytes           (* x.setBytes(bs)                              *)
| MTruncate               (* buf.Truncate(0) / buf.Reset()               *)
| MWrite                  (* buf.Write(bs): copies bs to the end         *)
| MView                   (* bs := buf.Bytes(): the buffer's own storage *)
| MNilIfEmpty             (* if len(bs) == 0 { return nil }              *)
| MMake                   (* ret := make([]byte, len(bs))                *)
| MCopy                   (* copy(ret, bs)                               *)
| MReturnFresh            (* return ret                                  *)
| MReturnView             (* return bs                                   *)
| MReturn                 (* return of the entry under construction      *)
| MUnknown (text : string).

Definition mact_eqb (a b : mact) : bool :=
  match a, b with
  | MNewBuffer, MNewBuffer | MWrapArg, MWrapArg | MCallSetBytes, MCallSetBytes
  | MTruncate, MTruncate | MWrite, MWrite | MView, MView | MNilIfEmpty, MNilIfEmpty
  | MMake, MMake | MCopy, MCopy | MReturnFresh, MReturnFresh | MReturnView, MReturnView
  | MReturn, MReturn => true
  | _, _ => false
  end.

Fixpoint macts_eqb (a b : list mact) : bool :=
  match a, b with
  | [], [] => true
  | x :: a', y :: b' => mact_eqb x y && macts_eqb a' b'
  | _, _ => false
  end.

Fixpoint skel_of (tbl : list (string * list mact)) (name : string) : list mact :=
  match tbl with
  | [] => [MUnknown "function not found"]
  | (n, l) :: t => if String.eqb n name then l else skel_of t name
  end.

(** The copying shapes.  Anything else - a wrapped argument, a returned view,
    a statement the translator does not know - counts as "keeps a reference". *)
Definition copies_of (tbl : list (string * list mact)) : copies :=
  mkCopies
    (macts_eqb (skel_of tbl "newMemEntry") [MNewBuffer; MCallSetBytes; MReturn])
    (macts_eqb (skel_of tbl "setBytes") [MTruncate; MWrite])
    (macts_eqb (skel_of tbl "appendBytes") [MWrite])
    (macts_eqb (skel_of tbl "bytes") [MView; MNilIfEmpty; MMake; MCopy; MReturnFresh]).
