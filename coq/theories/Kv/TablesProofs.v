(** Proofs about Kv/Tables.v: several handles over table slots refine the
    per-table reference maps, handles on different tables do not influence
    each other, a table used through several handles behaves as one store,
    and the life cycle calls do what their names say. *)
From Coq Require Import List Arith NArith Bool Lia.
From Verif Require Import Kv.KeyOrd Kv.AList Kv.Spec Kv.Refine Kv.Tables.
Import ListNotations.

(** ** Slots *)

Lemma set_nth_length {A} n (x : A) l : length (set_nth n x l) = length l.
Proof.
  revert n. induction l as [|y t IH]; intros [|n]; cbn [set_nth length]; auto.
Qed.

Lemma slot_get_set_same (s : tstate) n x :
  (n < length s)%nat -> slot_get (set_nth n x s) n = x.
Proof.
  unfold slot_get. revert n. induction s as [|y t IH]; intros [|n] H; cbn [set_nth nth length] in *;
    try lia; [reflexivity|]. apply IH. lia.
Qed.

Lemma slot_get_set_other (s : tstate) n m x :
  n <> m -> slot_get (set_nth n x s) m = slot_get s m.
Proof.
  unfold slot_get. revert n m. induction s as [|y t IH]; intros [|n] [|m] H; cbn [set_nth nth];
    try reflexivity; try congruence. apply IH. congruence.
Qed.

Lemma slot_get_some_lt (s : tstate) n t : slot_get s n = Some t -> (n < length s)%nat.
Proof.
  unfold slot_get. revert n. induction s as [|y r IH]; intros [|n]; cbn [nth length];
    try discriminate; try lia. intros H. specialize (IH _ H). lia.
Qed.

(** ** Refinement of the per-table reference maps *)

Definition orel (a b : option table) : Prop :=
  match a, b with
  | Some t, Some s => nodupk t /\ abs t = s
  | None, None => True
  | _, _ => False
  end.

Definition srel (a b : tstate) : Prop := Forall2 orel a b.

Lemma srel_get a b n : srel a b -> orel (slot_get a n) (slot_get b n).
Proof.
  intros H. revert n. induction H as [|x y a b Hxy H IH]; intros [|n]; unfold slot_get in *;
    cbn [nth]; auto; exact I.
Qed.

Lemma srel_set a b n x y : srel a b -> orel x y -> srel (set_nth n x a) (set_nth n y b).
Proof.
  intros H Hxy. revert n. unfold srel in *.
  induction H as [|x0 y0 a b H0 H IH]; intros [|n]; cbn [set_nth].
  - constructor.
  - constructor.
  - constructor; assumption.
  - constructor; [assumption|apply IH].
Qed.

Lemma srel_init p n : srel (init_state p n) (init_state p n).
Proof.
  unfold init_state. induction n as [|n IH]; cbn [repeat]; constructor; auto.
  destruct p; cbn [orel]; auto. split; [exact I|reflexivity].
Qed.

Definition lop_okb (o : lop) : bool :=
  match o with
  | LOp _ u => uop_okb u
  | _ => true
  end.

Section Sim.
  Variable maxlen : N.
  Variable hk : key -> key.
  Variable jv : bytes -> bool.
  Variable bstep : table -> bop -> table * result.
  Variable persistent : bool.
  Variable hs : list hdesc.
  Hypothesis Hs : step_refines bstep.

  Notation lA := (l_step maxlen hk jv bstep persistent hs).
  Notation lS := (l_step maxlen hk jv spec_step persistent hs).

  Lemma lc_one_sim a b slot k :
    srel a b ->
    srel (fst (lc_one persistent a slot k)) (fst (lc_one persistent b slot k)) /\
    snd (lc_one persistent a slot k) = snd (lc_one persistent b slot k).
  Proof.
    intros H. unfold lc_one. destruct persistent; [|now auto].
    pose proof (srel_get a b slot H) as Hg.
    assert (orel (Some []) (Some [])) as He by (cbn [orel]; split; [exact I|reflexivity]).
    assert (orel None None) as Hn by exact I.
    destruct (slot_get a slot) as [t|], (slot_get b slot) as [s|]; cbn [orel] in Hg; try tauto;
      destruct k; cbn [fst snd]; (split; [|reflexivity]); auto using srel_set.
  Qed.

  Lemma lc_all_sim slots k : forall a b,
    srel a b ->
    srel (fst (lc_all persistent a slots k)) (fst (lc_all persistent b slots k)) /\
    snd (lc_all persistent a slots k) = snd (lc_all persistent b slots k).
  Proof.
    induction slots as [|x t IH]; intros a b H; cbn [lc_all]; [now auto|].
    destruct (lc_one_sim a b x k H) as [H1 H2].
    destruct (lc_one persistent a x k) as [a1 r1], (lc_one persistent b x k) as [b1 r2].
    cbn [fst snd] in *. subst r2.
    destruct r1; cbn [fst snd]; auto.
  Qed.

  Lemma l_step_sim a b o :
    srel a b -> lop_okb o = true ->
    srel (fst (lA a o)) (fst (lS b o)) /\ snd (lA a o) = snd (lS b o).
  Proof.
    intros H Hok. destruct o as [h u|h k|k]; cbn [l_step lop_okb] in *.
    - destruct (nth_error hs h) as [[slot ordered]|]; [|now auto].
      pose proof (srel_get a b slot H) as Hg.
      destruct (slot_get a slot) as [t|], (slot_get b slot) as [s|]; cbn [orel] in Hg;
        try (exfalso; exact Hg); [|cbn [fst snd]; now auto].
      destruct Hg as [Hn Habs]. subst s.
      destruct (kv_step_sim maxlen ordered hk jv bstep Hs t u Hn Hok) as (H1 & H2 & H3).
      destruct (kv_step maxlen ordered hk jv bstep t u) as [t' r].
      destruct (kv_step maxlen ordered hk jv spec_step (abs t) u) as [s' r'].
      cbn [fst snd] in *. subst. split; [|reflexivity].
      apply srel_set; auto. cbn [orel]. auto.
    - destruct (nth_error hs h) as [[slot ordered]|]; [|now auto].
      apply lc_one_sim. exact H.
    - destruct hs; [now auto|]. apply lc_all_sim. exact H.
  Qed.

  Lemma l_run_sim ops : forall a b,
    srel a b -> forallb lop_okb ops = true ->
    srel (fst (run lA a ops)) (fst (run lS b ops)) /\ snd (run lA a ops) = snd (run lS b ops).
  Proof.
    induction ops as [|o ops IH]; intros a b H Hok; cbn [run forallb] in *; [now auto|].
    apply andb_prop in Hok. destruct Hok as [Ho Hops].
    destruct (l_step_sim a b o H Ho) as [H1 H2].
    destruct (lA a o) as [a1 r1], (lS b o) as [b1 r2]. cbn [fst snd] in *. subst r2.
    destruct (IH a1 b1 H1 Hops) as [H3 H4].
    destruct (run lA a1 ops) as [a2 rs], (run lS b1 ops) as [b2 rs']. cbn [fst snd] in *.
    subst. auto.
  Qed.
End Sim.

(** any number of handles over any number of tables, from the state in which
    the database file is new (or the memory stores are empty) *)
Theorem tables_refine_spec maxlen hk jv bstep persistent hs slots ops :
  step_refines bstep ->
  forallb lop_okb ops = true ->
  snd (run (l_step maxlen hk jv bstep persistent hs) (init_state persistent slots) ops)
  = snd (run (l_step maxlen hk jv spec_step persistent hs) (init_state persistent slots) ops) /\
  srel (fst (run (l_step maxlen hk jv bstep persistent hs) (init_state persistent slots) ops))
       (fst (run (l_step maxlen hk jv spec_step persistent hs) (init_state persistent slots) ops)).
Proof.
  intros Hs Hok.
  destruct (l_run_sim maxlen hk jv bstep persistent hs Hs ops _ _ (srel_init persistent slots) Hok)
    as [H1 H2].
  auto.
Qed.

(** ** Isolation *)

Section Facts.
  Variable maxlen : N.
  Variable hk : key -> key.
  Variable jv : bytes -> bool.
  Variable bstep : table -> bop -> table * result.
  Variable persistent : bool.
  Variable hs : list hdesc.

  Notation lstep := (l_step maxlen hk jv bstep persistent hs).

  (** a call through one handle leaves every other table as it was *)
  Lemma op_touches_own_slot s h u slot ordered x :
    nth_error hs h = Some (slot, ordered) -> x <> slot ->
    slot_get (fst (lstep s (LOp h u))) x = slot_get s x.
  Proof.
    intros Hh Hx. cbn [l_step]. rewrite Hh.
    destruct (slot_get s slot) as [t|]; [|reflexivity].
    destruct (kv_step maxlen ordered hk jv bstep t u) as [t' r]. cbn [fst].
    apply slot_get_set_other. congruence.
  Qed.

  Lemma lc_one_other s slot k x :
    x <> slot -> slot_get (fst (lc_one persistent s slot k)) x = slot_get s x.
  Proof.
    intros Hx. unfold lc_one. destruct persistent; [|reflexivity].
    destruct k, (slot_get s slot); cbn [fst]; try reflexivity;
      apply slot_get_set_other; congruence.
  Qed.

  Lemma life_touches_own_slot s h k slot ordered x :
    nth_error hs h = Some (slot, ordered) -> x <> slot ->
    slot_get (fst (lstep s (LLife h k))) x = slot_get s x.
  Proof. intros Hh Hx. cbn [l_step]. rewrite Hh. now apply lc_one_other. Qed.

  (** what a call on an existing table returns and leaves is what the single
      store does on that table's contents *)
  Lemma op_on_existing s h u slot ordered t :
    nth_error hs h = Some (slot, ordered) -> slot_get s slot = Some t ->
    snd (lstep s (LOp h u)) = snd (kv_step maxlen ordered hk jv bstep t u) /\
    slot_get (fst (lstep s (LOp h u))) slot = Some (fst (kv_step maxlen ordered hk jv bstep t u)).
  Proof.
    intros Hh Hg. cbn [l_step]. rewrite Hh, Hg.
    destruct (kv_step maxlen ordered hk jv bstep t u) as [t' r]. cbn [fst snd]. split; [reflexivity|].
    apply slot_get_set_same. eapply slot_get_some_lt; eauto.
  Qed.

  (** a call on a table that does not exist changes nothing and reports an
      error: the key / ordered-store refusal of the wrapper, else the
      backend's *)
  Lemma op_on_dropped s h u slot ordered :
    nth_error hs h = Some (slot, ordered) -> slot_get s slot = None ->
    fst (lstep s (LOp h u)) = s /\ exists e, snd (lstep s (LOp h u)) = RErr e.
  Proof.
    intros Hh Hg. cbn [l_step]. rewrite Hh, Hg. cbn [fst snd]. split; [reflexivity|].
    unfold dropped_result, early_error.
    destruct (snd (kv_step maxlen ordered hk jv spec_step [] u)) as [| e | | | |]; eauto.
    destruct e; eauto.
  Qed.

  (** CreateMissing on a table that exists: nothing changes *)
  Lemma create_missing_keeps s h slot ordered t :
    nth_error hs h = Some (slot, ordered) -> slot_get s slot = Some t ->
    lstep s (LLife h KMissing) = (s, RUnit).
  Proof.
    intros Hh Hg. cbn [l_step]. rewrite Hh. unfold lc_one. destruct persistent; [|reflexivity].
    now rewrite Hg.
  Qed.

  (** Create on a table that exists is refused and changes nothing *)
  Lemma create_existing_refused s h slot ordered t :
    persistent = true ->
    nth_error hs h = Some (slot, ordered) -> slot_get s slot = Some t ->
    lstep s (LLife h KCreate) = (s, RErr EOther).
  Proof.
    intros Hp Hh Hg. cbn [l_step]. rewrite Hh. unfold lc_one. rewrite Hp. now rewrite Hg.
  Qed.

  (** Destroy then Create: the table exists and is empty *)
  Lemma destroy_create_empties s h slot ordered t :
    persistent = true ->
    nth_error hs h = Some (slot, ordered) -> slot_get s slot = Some t ->
    let s1 := fst (lstep s (LLife h KDestroy)) in
    snd (lstep s (LLife h KDestroy)) = RUnit /\
    slot_get s1 slot = None /\
    snd (lstep s1 (LLife h KCreate)) = RUnit /\
    slot_get (fst (lstep s1 (LLife h KCreate))) slot = Some [].
  Proof.
    intros Hp Hh Hg. cbn [l_step]. rewrite Hh. unfold lc_one. rewrite Hp, Hg. cbn [fst snd].
    pose proof (slot_get_some_lt _ _ _ Hg) as Hlt.
    rewrite (slot_get_set_same s slot None Hlt). cbn [fst snd].
    repeat split; auto.
    apply slot_get_set_same. now rewrite set_nth_length.
  Qed.
End Facts.

(** ** A table used through several handles is one store *)

Section Proj.
  Variable maxlen : N.
  Variable hk : key -> key.
  Variable jv : bytes -> bool.
  Variable bstep : table -> bop -> table * result.
  Variable persistent : bool.
  Variable hs : list hdesc.

  Notation lstep := (l_step maxlen hk jv bstep persistent hs).

  (** In a history of KV calls (no life cycle calls) on existing tables, the
      calls that go to table [x] - through whichever handles, ordered or
      hashing - return what one store holding that table's contents returns
      for them alone, and leave in [x] what it is left with: the calls on
      other tables are invisible. *)
  Theorem slot_projection x : forall ops s t,
    forallb (is_lop hs) ops = true ->
    (forall y, (y < length s)%nat -> slot_get s y <> None) ->
    slot_get s x = Some t ->
    proj_results hs x ops (snd (run lstep s ops))
    = snd (run (flag_step maxlen hk jv bstep) t (proj_slot hs x ops)) /\
    slot_get (fst (run lstep s ops)) x
    = Some (fst (run (flag_step maxlen hk jv bstep) t (proj_slot hs x ops))).
  Proof.
    induction ops as [|o ops IH]; intros s t Hl Hall Hx; cbn [run proj_slot proj_results forallb] in *.
    - auto.
    - apply andb_prop in Hl. destruct Hl as [Ho Hl].
      destruct o as [h u|h k|k]; cbn [is_lop] in Ho; try discriminate.
      destruct (nth_error hs h) as [[slot ordered]|] eqn:Hh; [|discriminate].
      assert (forall y, (y < length (fst (lstep s (LOp h u))))%nat ->
                        slot_get (fst (lstep s (LOp h u))) y <> None) as Hall'.
      { intros y Hy. cbn [l_step] in *. rewrite Hh in *.
        destruct (slot_get s slot) as [t0|] eqn:Hg; [|now apply Hall].
        destruct (kv_step maxlen ordered hk jv bstep t0 u) as [t' r]. cbn [fst] in *.
        rewrite set_nth_length in Hy.
        destruct (Nat.eq_dec slot y) as [->|Hne].
        - rewrite slot_get_set_same by exact Hy. discriminate.
        - rewrite slot_get_set_other by exact Hne. now apply Hall. }
      destruct (Nat.eqb slot x) eqn:Hsx.
      + apply Nat.eqb_eq in Hsx. subst slot.
        destruct (op_on_existing maxlen hk jv bstep persistent hs s h u x ordered t Hh Hx) as [Hr Hs'].
        destruct (lstep s (LOp h u)) as [s1 r1] eqn:E1. cbn [fst snd] in *.
        specialize (IH s1 _ Hl Hall' Hs').
        destruct (run lstep s1 ops) as [s2 rs]. cbn [fst snd proj_results] in *.
        cbn [run]. unfold flag_step at 1 3. cbn [fst snd].
        destruct (kv_step maxlen ordered hk jv bstep t u) as [t1 r]. cbn [fst snd] in *. subst r1.
        destruct IH as [IH1 IH2].
        destruct (run (flag_step maxlen hk jv bstep) t1 (proj_slot hs x ops)) as [t2 rs'].
        cbn [fst snd] in *.
        split; [now f_equal|exact IH2].
      + apply Nat.eqb_neq in Hsx.
        assert (slot_get (fst (lstep s (LOp h u))) x = Some t) as Hs'.
        { rewrite (op_touches_own_slot maxlen hk jv bstep persistent hs s h u slot ordered x Hh);
            [exact Hx|congruence]. }
        destruct (lstep s (LOp h u)) as [s1 r1] eqn:E1. cbn [fst snd] in *.
        specialize (IH s1 _ Hl Hall' Hs').
        destruct (run lstep s1 ops) as [s2 rs]. cbn [fst snd proj_results] in *.
        exact IH.
  Qed.
End Proj.
