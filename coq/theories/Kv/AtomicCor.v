(** C06: the concurrency theorems against the reference map, and the
    accounting corollaries in the words of the statement, for both backends
    and every schedule. *)
From Coq Require Import List Arith NArith Bool Lia.
From Verif Require Import Lib.Sched Kv.KeyOrd Kv.AList Kv.Spec Kv.Mem Kv.Sql Kv.Refine Kv.Facts
  Kv.SeqFacts Kv.Atomic Kv.AtomicSql.
Import ListNotations.

Notation D := deployed_methods.

(** * SQL: returned operations are the programs', in program order *)

Definition qpending (t : qthread) : list bop :=
  match t with
  | QIdle todo => todo
  | QRead k f _ todo | QWritten k f _ todo => BMutate k f :: todo
  end.

Definition qthread_done (i : tid) (d : list (tid * bop * result)) : list bop :=
  qops (filter (fun x => Nat.eqb (fst (fst x)) i) d).

Lemma qthread_done_snoc i j o r d :
  qthread_done i (d ++ [(j, o, r)]) = qthread_done i d ++ (if Nat.eqb j i then [o] else []).
Proof.
  unfold qthread_done, qops. rewrite filter_app, map_app. cbn [filter fst].
  destruct (Nat.eqb j i); reflexivity.
Qed.

Lemma qprogram_order tbl bprog db0 cfg :
  qreachable tbl (qinit bprog db0) cfg ->
  forall i, bprog i = qthread_done i (qdone cfg) ++ qpending (qths cfg i).
Proof.
  intros Hr. induction Hr as [|c1 c2 _ IH Hs]; intros i'; [reflexivity|].
  specialize (IH i').
  assert (forall cfg i todo o r db,
             qpending (qths cfg i) = o :: todo ->
             bprog i' = qthread_done i' (qdone cfg) ++ qpending (qths cfg i') ->
             bprog i' = qthread_done i' (qdone (qret cfg db i todo o r))
                        ++ qpending (qths (qret cfg db i todo o r) i')) as Hret.
  { intros cfg i todo o r db Hp Hb. cbn [qret qdone qths]. rewrite qthread_done_snoc.
    destruct (Nat.eq_dec i' i) as [->|Hne].
    - rewrite qset_same, Nat.eqb_refl. cbn [qpending]. rewrite Hp in Hb.
      rewrite <- app_assoc. exact Hb.
    - rewrite qset_other by exact Hne.
      assert (Nat.eqb i i' = false) as E by (apply Nat.eqb_neq; congruence).
      rewrite E, app_nil_r. exact Hb. }
  assert (forall cfg i x,
             qpending x = qpending (qths cfg i) ->
             bprog i' = qthread_done i' (qdone cfg) ++ qpending (qths cfg i') ->
             bprog i' = qthread_done i' (qdone cfg) ++ qpending (qset (qths cfg) i x i')) as Hstay.
  { intros cfg i x Hp Hb. destruct (Nat.eq_dec i' i) as [->|Hne].
    - rewrite qset_same, Hp. exact Hb.
    - rewrite qset_other by exact Hne. exact Hb. }
  destruct Hs; try (apply Hret; [|exact IH]; match goal with H : qths _ _ = _ |- _ => rewrite H end;
                    reflexivity);
    cbn [qdone qths]; apply Hstay; try exact IH;
    match goal with H : qths _ _ = _ |- _ => rewrite H end; reflexivity.
Qed.

Lemma qdone_in_prog tbl bprog db0 cfg :
  qreachable tbl (qinit bprog db0) cfg ->
  Forall (in_prog bprog) (qops (qdone cfg)).
Proof.
  intros Hr. apply Forall_forall. intros o Ho. unfold qops in Ho.
  apply in_map_iff in Ho. destruct Ho as [[[i o'] r] [Ho Hin]]. cbn [fst snd] in Ho. subst o'.
  exists i. rewrite (qprogram_order tbl bprog db0 cfg Hr i). apply in_or_app. left.
  unfold qthread_done, qops. apply in_map_iff. exists (i, o, r). split; [reflexivity|].
  apply filter_In. split; [exact Hin|]. cbn [fst]. apply Nat.eqb_refl.
Qed.

Lemma applied_in_prog tbl bprog db0 cfg :
  qreachable tbl (qinit bprog db0) cfg ->
  Forall (in_prog bprog) (qops (applied (qdone cfg))).
Proof.
  intros Hr. pose proof (qdone_in_prog tbl bprog db0 cfg Hr) as H.
  rewrite Forall_forall in *. intros o Ho. apply H. unfold qops, applied in *.
  apply in_map_iff in Ho. destruct Ho as [x [Hx Hin]]. apply filter_In in Hin.
  apply in_map_iff. exists x. tauto.
Qed.

(** * Both backends against the reference map *)

Theorem sql_serializable_spec bprog db0 cfg :
  qreachable D (qinit bprog db0) cfg ->
  nodupk db0 ->
  (forall i, forallb bop_okb (bprog i) = true) ->
  Forall (in_prog bprog) (qops (applied (qdone cfg))) /\
  run spec_step (abs db0) (qops (applied (qdone cfg)))
  = (abs (qdb cfg), qresults (applied (qdone cfg))).
Proof.
  intros Hr Hn Hok. pose proof (applied_in_prog D bprog db0 cfg Hr) as Hin.
  split; [exact Hin|].
  assert (forallb bop_okb (qops (applied (qdone cfg))) = true) as Hops.
  { apply forallb_forall. intros o Ho. rewrite Forall_forall in Hin.
    destruct (Hin o Ho) as [i Hi]. exact (proj1 (forallb_forall _ _) (Hok i) o Hi). }
  pose proof (sql_serializable bprog db0 cfg Hr) as Hs.
  destruct (run_refines _ sql_step_refines _ db0 Hn Hops) as (_ & H4 & H5).
  rewrite Hs in H4, H5. cbn [fst snd] in H4, H5.
  rewrite (surjective_pairing (run spec_step (abs db0) (qops (applied (qdone cfg))))).
  now rewrite <- H4, <- H5.
Qed.

Lemma forall_in_prog {P : bop -> Prop} bprog ops :
  (forall i, Forall P (bprog i)) -> Forall (in_prog bprog) ops -> Forall P ops.
Proof.
  intros Hp Hin. rewrite Forall_forall in *. intros o Ho. destruct (Hin o Ho) as [i Hi].
  specialize (Hp i). rewrite Forall_forall in Hp. auto.
Qed.

Notation mreachable := (Sched.reachable table loc result).
Notation minit := (Sched.init table loc result).
Notation mdone := (Sched.done table loc result).
Notation mcalls := (Sched.calls_of table loc result).
Notation mresults := (Sched.results_of table loc result).
Notation msh := (Sched.sh table loc result).
Notation mths := (Sched.ths table loc result).
Notation mholds := (Sched.holds table loc result).

Definition mem_quiet (cfg : config table loc result) : Prop := forall j, ~ mholds MW (mths cfg j).

(** * no successful update is lost *)

(** memory: every goroutine only increments [k] (or leaves it alone); then
    with [n] increments returned so far the value is the n-fold increment. *)
Theorem mem_no_lost_update bprog m0 cfg k g c v0 :
  mreachable (minit (mem_prog bprog) m0) cfg -> nodupk m0 ->
  (forall i, forallb bop_okb (bprog i) = true) ->
  (forall i, Forall (incr_or_other k g) (bprog i)) ->
  @lookup entry k m0 = Some (c, v0) -> mem_quiet cfg ->
  exists ops,
    mcalls (mdone cfg) = map mem_call ops /\
    lookup k (msh cfg) = Some (c, Nat.iter (length (key_ops k ops)) g v0) /\
    key_results k ops (mresults (mdone cfg)) = repeat RUnit (length (key_ops k ops)).
Proof.
  intros Hr Hn Hok Hp Hl Hq.
  destruct (mem_atomic_spec bprog m0 cfg Hr Hn Hok) as (ops & H0 & H1 & H2 & H3).
  destruct (H3 Hq) as [Hnd Habs].
  exists ops. split; [exact H1|].
  assert (lookup k (abs m0) = Some (c, v0)) as Hl' by (now rewrite lookup_abs).
  destruct (seq_no_lost_update k g ops (abs m0) c v0 (forall_in_prog bprog ops Hp H0) Hl') as [A B].
  rewrite <- Habs in A. rewrite H2 in B. split; [|exact B].
  rewrite <- A. symmetry. now apply lookup_abs.
Qed.

(** sqlite: the same, counting the increments that did not report BUSY. *)
Theorem sql_no_lost_update bprog db0 cfg k g c v0 :
  qreachable D (qinit bprog db0) cfg -> nodupk db0 ->
  (forall i, forallb bop_okb (bprog i) = true) ->
  (forall i, Forall (incr_or_other k g) (bprog i)) ->
  @lookup entry k db0 = Some (c, v0) ->
  let ops := qops (applied (qdone cfg)) in
  lookup k (abs (qdb cfg)) = Some (c, Nat.iter (length (key_ops k ops)) g v0) /\
  key_results k ops (qresults (applied (qdone cfg))) = repeat RUnit (length (key_ops k ops)).
Proof.
  intros Hr Hn Hok Hp Hl ops.
  destruct (sql_serializable_spec bprog db0 cfg Hr Hn Hok) as [H0 H1].
  assert (lookup k (abs db0) = Some (c, v0)) as Hl' by (now rewrite lookup_abs).
  destruct (seq_no_lost_update k g ops (abs db0) c v0 (forall_in_prog bprog ops Hp H0) Hl') as [A B].
  unfold ops in *. rewrite H1 in A, B. cbn [fst snd] in A, B. auto.
Qed.

(** * concurrent Adds of one key succeed at most once, and the key then
      holds that value *)

Theorem mem_add_once bprog m0 cfg k :
  mreachable (minit (mem_prog bprog) m0) cfg -> nodupk m0 ->
  (forall i, forallb bop_okb (bprog i) = true) ->
  (forall i, Forall (add_or_other k) (bprog i)) ->
  @lookup entry k m0 = None -> mem_quiet cfg ->
  exists ops,
    mcalls (mdone cfg) = map mem_call ops /\
    match key_ops k ops with
    | [] => lookup k (msh cfg) = None
    | BAdd _ c v :: rest =>
        lookup k (msh cfg) = Some (c, v) /\
        key_results k ops (mresults (mdone cfg)) = RUnit :: repeat (RErr EExists) (length rest)
    | _ => False
    end.
Proof.
  intros Hr Hn Hok Hp Hl Hq.
  destruct (mem_atomic_spec bprog m0 cfg Hr Hn Hok) as (ops & H0 & H1 & H2 & H3).
  destruct (H3 Hq) as [Hnd Habs].
  exists ops. split; [exact H1|].
  assert (lookup k (abs m0) = None) as Hl' by (now rewrite lookup_abs).
  pose proof (seq_add_once k ops (abs m0) (forall_in_prog bprog ops Hp H0) Hl') as A.
  rewrite <- Habs, H2 in A. rewrite lookup_abs in A by exact Hnd. exact A.
Qed.

Theorem sql_add_once bprog db0 cfg k :
  qreachable D (qinit bprog db0) cfg -> nodupk db0 ->
  (forall i, forallb bop_okb (bprog i) = true) ->
  (forall i, Forall (add_or_other k) (bprog i)) ->
  @lookup entry k db0 = None ->
  let ops := qops (applied (qdone cfg)) in
  match key_ops k ops with
  | [] => lookup k (abs (qdb cfg)) = None
  | BAdd _ c v :: rest =>
      lookup k (abs (qdb cfg)) = Some (c, v) /\
      key_results k ops (qresults (applied (qdone cfg))) = RUnit :: repeat (RErr EExists) (length rest)
  | _ => False
  end.
Proof.
  intros Hr Hn Hok Hp Hl ops.
  destruct (sql_serializable_spec bprog db0 cfg Hr Hn Hok) as [H0 H1].
  assert (lookup k (abs db0) = None) as Hl' by (now rewrite lookup_abs).
  pose proof (seq_add_once k ops (abs db0) (forall_in_prog bprog ops Hp H0) Hl') as A.
  unfold ops in *. rewrite H1 in A. cbn [fst snd] in A. exact A.
Qed.

(** * concurrent Removes of one key: exactly one succeeds, the others report
      not-found, and the key is gone *)

Theorem mem_remove_once bprog m0 cfg k e :
  mreachable (minit (mem_prog bprog) m0) cfg -> nodupk m0 ->
  (forall i, forallb bop_okb (bprog i) = true) ->
  (forall i, Forall (remove_or_other k) (bprog i)) ->
  @lookup entry k m0 = Some e -> mem_quiet cfg ->
  exists ops,
    mcalls (mdone cfg) = map mem_call ops /\
    match key_ops k ops with
    | [] => lookup k (msh cfg) = Some e
    | _ :: rest =>
        lookup k (msh cfg) = None /\
        key_results k ops (mresults (mdone cfg)) = RUnit :: repeat (RErr ENotFound) (length rest)
    end.
Proof.
  intros Hr Hn Hok Hp Hl Hq.
  destruct (mem_atomic_spec bprog m0 cfg Hr Hn Hok) as (ops & H0 & H1 & H2 & H3).
  destruct (H3 Hq) as [Hnd Habs].
  exists ops. split; [exact H1|].
  assert (lookup k (abs m0) = Some e) as Hl' by (now rewrite lookup_abs).
  pose proof (seq_remove_once k ops (abs m0) e (forall_in_prog bprog ops Hp H0) Hl') as A.
  rewrite <- Habs, H2 in A. rewrite lookup_abs in A by exact Hnd. exact A.
Qed.

Theorem sql_remove_once bprog db0 cfg k e :
  qreachable D (qinit bprog db0) cfg -> nodupk db0 ->
  (forall i, forallb bop_okb (bprog i) = true) ->
  (forall i, Forall (remove_or_other k) (bprog i)) ->
  @lookup entry k db0 = Some e ->
  let ops := qops (applied (qdone cfg)) in
  match key_ops k ops with
  | [] => lookup k (abs (qdb cfg)) = Some e
  | _ :: rest =>
      lookup k (abs (qdb cfg)) = None /\
      key_results k ops (qresults (applied (qdone cfg))) = RUnit :: repeat (RErr ENotFound) (length rest)
  end.
Proof.
  intros Hr Hn Hok Hp Hl ops.
  destruct (sql_serializable_spec bprog db0 cfg Hr Hn Hok) as [H0 H1].
  assert (lookup k (abs db0) = Some e) as Hl' by (now rewrite lookup_abs).
  pose proof (seq_remove_once k ops (abs db0) e (forall_in_prog bprog ops Hp H0) Hl') as A.
  unfold ops in *. rewrite H1 in A. cbn [fst snd] in A. exact A.
Qed.

(** * Emplace keeps the first value *)

Theorem mem_emplace_keeps_first bprog m0 cfg k :
  mreachable (minit (mem_prog bprog) m0) cfg -> nodupk m0 ->
  (forall i, forallb bop_okb (bprog i) = true) ->
  (forall i, Forall (emplace_or_other k) (bprog i)) ->
  @lookup entry k m0 = None -> mem_quiet cfg ->
  exists ops,
    mcalls (mdone cfg) = map mem_call ops /\
    match key_ops k ops with
    | [] => lookup k (msh cfg) = None
    | BEmplace _ c v :: _ => lookup k (msh cfg) = Some (c, v)
    | _ => False
    end.
Proof.
  intros Hr Hn Hok Hp Hl Hq.
  destruct (mem_atomic_spec bprog m0 cfg Hr Hn Hok) as (ops & H0 & H1 & H2 & H3).
  destruct (H3 Hq) as [Hnd Habs].
  exists ops. split; [exact H1|].
  assert (lookup k (abs m0) = None) as Hl' by (now rewrite lookup_abs).
  pose proof (seq_emplace_keeps_first k ops (abs m0) (forall_in_prog bprog ops Hp H0) Hl') as A.
  rewrite <- Habs in A. rewrite lookup_abs in A by exact Hnd. exact A.
Qed.

Theorem sql_emplace_keeps_first bprog db0 cfg k :
  qreachable D (qinit bprog db0) cfg -> nodupk db0 ->
  (forall i, forallb bop_okb (bprog i) = true) ->
  (forall i, Forall (emplace_or_other k) (bprog i)) ->
  @lookup entry k db0 = None ->
  match key_ops k (qops (applied (qdone cfg))) with
  | [] => lookup k (abs (qdb cfg)) = None
  | BEmplace _ c v :: _ => lookup k (abs (qdb cfg)) = Some (c, v)
  | _ => False
  end.
Proof.
  intros Hr Hn Hok Hp Hl.
  destruct (sql_serializable_spec bprog db0 cfg Hr Hn Hok) as [H0 H1].
  assert (lookup k (abs db0) = None) as Hl' by (now rewrite lookup_abs).
  pose proof (seq_emplace_keeps_first k _ (abs db0) (forall_in_prog bprog _ Hp H0) Hl') as A.
  rewrite H1 in A. cbn [fst] in A. exact A.
Qed.

(** * every successful Append lands exactly once *)

Theorem mem_append_all_once bprog m0 cfg k :
  mreachable (minit (mem_prog bprog) m0) cfg -> nodupk m0 ->
  (forall i, forallb bop_okb (bprog i) = true) ->
  (forall i, Forall (append_or_other k) (bprog i)) ->
  mem_quiet cfg ->
  exists ops,
    mcalls (mdone cfg) = map mem_call ops /\
    lookup k (msh cfg)
    = match lookup k m0, key_ops k ops with
      | None, [] => None
      | None, _ => Some ([], concat (map appended (key_ops k ops)))
      | Some (c, v0), _ => Some (c, v0 ++ concat (map appended (key_ops k ops)))
      end.
Proof.
  intros Hr Hn Hok Hp Hq.
  destruct (mem_atomic_spec bprog m0 cfg Hr Hn Hok) as (ops & H0 & H1 & H2 & H3).
  destruct (H3 Hq) as [Hnd Habs].
  exists ops. split; [exact H1|].
  pose proof (seq_append_all_once k ops (abs m0) (forall_in_prog bprog ops Hp H0)) as A.
  rewrite <- Habs in A. rewrite !lookup_abs in A by assumption. exact A.
Qed.

Theorem sql_append_all_once bprog db0 cfg k :
  qreachable D (qinit bprog db0) cfg -> nodupk db0 ->
  (forall i, forallb bop_okb (bprog i) = true) ->
  (forall i, Forall (append_or_other k) (bprog i)) ->
  let ops := qops (applied (qdone cfg)) in
  lookup k (abs (qdb cfg))
  = match lookup k db0, key_ops k ops with
    | None, [] => None
    | None, _ => Some ([], concat (map appended (key_ops k ops)))
    | Some (c, v0), _ => Some (c, v0 ++ concat (map appended (key_ops k ops)))
    end.
Proof.
  intros Hr Hn Hok Hp ops.
  destruct (sql_serializable_spec bprog db0 cfg Hr Hn Hok) as [H0 H1].
  pose proof (seq_append_all_once k ops (abs db0) (forall_in_prog bprog ops Hp H0)) as A.
  unfold ops in *. rewrite H1 in A. cbn [fst] in A. rewrite (lookup_abs db0 k Hn) in A. exact A.
Qed.
