(** Proofs about Kv/Own.v: when mem_entry.go copies at every boundary
    ([all_copy]), the contents of the memory backend and the results of its
    calls are a function of the history of calls alone - whatever the caller
    writes, between any two calls, into the buffers it passed in or was given;
    and the store never writes into a buffer of the caller.  With one copy
    missing the statement fails ([adopting_new_entry_refuted]). *)
From Coq Require Import List Arith NArith Bool Lia.
From Verif Require Import Kv.KeyOrd Kv.AList Kv.Spec Kv.Mem Kv.Own.
Import ListNotations.

(** ** Heap *)

Lemma hget_app_lt h x b : b < length h -> hget (h ++ x) b = hget h b.
Proof. intros H. unfold hget. now apply app_nth1. Qed.

Lemma hget_app_len h v : hget (h ++ [v]) (length h) = v.
Proof. unfold hget. rewrite app_nth2 by lia. now rewrite Nat.sub_diag. Qed.

Lemma hset_length h b v : length (hset h b v) = length h.
Proof. revert b. induction h as [|x t IH]; intros [|b]; cbn [hset length]; auto. Qed.

Lemma hget_hset_same h b v : b < length h -> hget (hset h b v) b = v.
Proof.
  unfold hget. revert b. induction h as [|x t IH]; intros [|b] H; cbn [hset nth length] in *;
    try lia; [reflexivity|]. apply IH. lia.
Qed.

Lemma hget_hset_other h b b' v : b <> b' -> hget (hset h b v) b' = hget h b'.
Proof.
  unfold hget. revert b b'. induction h as [|x t IH]; intros [|b] [|b'] H; cbn [hset nth];
    try reflexivity; try congruence. apply IH. congruence.
Qed.

(** ** Contents *)

Definition bufs (st : ostore) : list buf := map (fun p => snd (snd p)) st.

Lemma lookup_contents k st h :
  lookup k (contents st h)
  = match lookup k st with Some e => Some (fst e, hget h (snd e)) | None => None end.
Proof.
  induction st as [|[k0 e0] t IH]; cbn [contents map lookup fst snd]; [reflexivity|].
  destruct (keqb k k0); [reflexivity|exact IH].
Qed.

Lemma contents_upd k e st h :
  contents (upd k e st) h = upd k (fst e, hget h (snd e)) (contents st h).
Proof.
  induction st as [|[k0 e0] t IH]; cbn [contents map upd fst snd]; [reflexivity|].
  destruct (keqb k k0); cbn [map fst snd]; [reflexivity|].
  f_equal. exact IH.
Qed.

Lemma contents_del k st h : contents (del k st) h = del k (contents st h).
Proof.
  induction st as [|[k0 e0] t IH]; cbn [contents map del fst snd]; [reflexivity|].
  destruct (keqb k k0); cbn [map fst snd]; [exact IH|]. f_equal. exact IH.
Qed.

Lemma lenN_contents st h : lenN (contents st h) = lenN st.
Proof. unfold lenN, contents. now rewrite map_length. Qed.

Lemma contents_frame st h h1 :
  (forall b, In b (bufs st) -> hget h1 b = hget h b) -> contents st h1 = contents st h.
Proof.
  intros H. unfold contents. apply map_ext_in. intros [k [c b]] Hin. cbn [fst snd].
  rewrite H; [reflexivity|]. unfold bufs. apply in_map_iff. exists (k, (c, b)). auto.
Qed.

Lemma upd_same {V} k (e : V) st : lookup k st = Some e -> upd k e st = st.
Proof.
  induction st as [|[k0 e0] t IH]; cbn [lookup upd]; [discriminate|].
  destruct (keqb k k0) eqn:E.
  - intros [= ->]. apply keqb_eq in E. now subst.
  - intros H. f_equal. now apply IH.
Qed.

Lemma lookup_in_bufs k st e : lookup k st = Some e -> In (snd e) (bufs st).
Proof.
  induction st as [|[k0 e0] t IH]; cbn [lookup bufs map fst snd]; [discriminate|].
  destruct (keqb k k0); [intros [= ->]; now left|intros H; right; now apply IH].
Qed.

(** one entry's buffer changes in place, all others keep their bytes *)
Lemma contents_one_changed k c be v st h h1 :
  NoDup (bufs st) -> lookup k st = Some (c, be) ->
  hget h1 be = v ->
  (forall b, In b (bufs st) -> b <> be -> hget h1 b = hget h b) ->
  contents st h1 = upd k (c, v) (contents st h).
Proof.
  induction st as [|[k0 [c0 b0]] t IH]; cbn [lookup bufs map fst snd]; [discriminate|].
  intros Hnd Hl Hv Hfr. inversion Hnd as [|x l Hnin Hnd' Heq]. subst x l.
  cbn [contents map upd fst snd].
  destruct (keqb k k0) eqn:E.
  - injection Hl as -> ->. apply keqb_eq in E. subst k0. f_equal; [now rewrite Hv|].
    apply contents_frame. intros b Hb. apply Hfr; [now right|].
    intros ->. apply Hnin. exact Hb.
  - f_equal.
    + f_equal. f_equal. apply Hfr; [now left|].
      intros E2. apply Hnin. rewrite E2. exact (lookup_in_bufs k t (c, be) Hl).
    + apply IH; auto. intros b Hb. apply Hfr. now right.
Qed.

Lemma in_bufs_upd b k e st : In b (bufs (upd k e st)) -> b = snd e \/ In b (bufs st).
Proof.
  induction st as [|[k0 e0] t IH]; cbn [upd bufs map fst snd In].
  - intros [H|[]]. now left.
  - destruct (keqb k k0); cbn [map fst snd In].
    + intros [H|H]; auto.
    + intros [H|H]; auto. destruct (IH H); auto.
Qed.

Lemma nodup_bufs_upd_fresh k e st :
  ~ In (snd e) (bufs st) -> NoDup (bufs st) -> NoDup (bufs (upd k e st)).
Proof.
  induction st as [|[k0 e0] t IH]; cbn [upd bufs map fst snd]; intros Hn Hnd.
  - constructor; [intros []|constructor].
  - inversion Hnd as [|x l Hnin Hnd' Heq]. subst x l.
    destruct (keqb k k0); cbn [map fst snd].
    + constructor; [|exact Hnd']. intros H. apply Hn. now right.
    + constructor.
      * intros H. destruct (in_bufs_upd _ _ _ _ H) as [E|H']; [apply Hn; left; exact E|now apply Hnin].
      * apply IH; [|exact Hnd']. intros H. apply Hn. now right.
Qed.

Lemma bufs_upd_same k e e0 st :
  lookup k st = Some e0 -> snd e = snd e0 -> bufs (upd k e st) = bufs st.
Proof.
  induction st as [|[k1 e1] t IH]; cbn [lookup upd bufs map fst snd]; [discriminate|].
  destruct (keqb k k1); cbn [map fst snd].
  - intros [= ->] H. now rewrite H.
  - intros H1 H2. f_equal. now apply IH.
Qed.

Lemma in_bufs_del b k st : In b (bufs (del k st)) -> In b (bufs st).
Proof.
  induction st as [|[k0 e0] t IH]; cbn [del bufs map fst snd In]; [auto|].
  destruct (keqb k k0); cbn [map fst snd In]; [auto|]. intros [H|H]; auto.
Qed.

Lemma nodup_bufs_del k st : NoDup (bufs st) -> NoDup (bufs (del k st)).
Proof.
  induction st as [|[k0 e0] t IH]; cbn [del bufs map fst snd]; intros Hnd; [constructor|].
  inversion Hnd as [|x l Hnin Hnd' Heq]. subst x l.
  destruct (keqb k k0); cbn [map fst snd]; [auto|].
  constructor; [|auto]. intros H. apply Hnin. eapply in_bufs_del; eauto.
Qed.

Lemma memb_in b l : memb b l = true -> In b l.
Proof.
  unfold memb. intros H. apply existsb_exists in H. destruct H as (x & Hx & E).
  apply Nat.eqb_eq in E. now subst.
Qed.

(** ** The invariant: the store's buffers are its own *)

Definition inv (s : ostate) : Prop :=
  let '(st, h, kn) := s in
  nodupk st /\ NoDup (bufs st) /\
  (forall b, In b (bufs st) -> b < length h /\ ~ In b kn) /\
  (forall b, In b kn -> b < length h).

Definition cont (s : ostate) : table := let '(st, h, _) := s in contents st h.

Lemma out_all_spec es : forall h kn,
  exists xs, fst (out_all all_copy h kn es) = h ++ xs /\
    forall b, In b (snd (out_all all_copy h kn es)) -> In b kn \/ (length h <= b < length (h ++ xs)).
Proof.
  induction es as [|[k e] t IH]; intros h kn; cbn [out_all].
  - exists []. rewrite app_nil_r. cbn [fst snd]. auto.
  - unfold out_entry. cbn [cp_out all_copy].
    destruct (IH (h ++ [hget h (snd e)]) (length h :: kn)) as (xs & H1 & H2).
    exists (hget h (snd e) :: xs). rewrite H1. rewrite <- app_assoc. cbn [app]. split; [reflexivity|].
    intros b Hb. destruct (H2 b Hb) as [[<-|Hin]|Hr].
    + right. rewrite app_length. cbn [length]. lia.
    + now left.
    + right. rewrite !app_length in *. cbn [length] in *. lia.
Qed.

(** what one call does, seen through [contents] *)
Definition step_ok (s : ostate) (o : hop) : Prop :=
  let s' := fst (own_step all_copy s o) in
  inv s' /\
  match erase s o with
  | Some b => cont s' = fst (mem_step (cont s) b) /\
              snd (own_step all_copy s o) = Some (snd (mem_step (cont s) b))
  | None => cont s' = cont s /\ snd (own_step all_copy s o) = None
  end.

Ltac inv_intro :=
  match goal with
  | H : inv (?st, ?h, ?kn) |- _ => destruct H as (Hnk & Hnd & Hb & Hk)
  end.

(** a fresh entry for a caller's buffer *)
Lemma new_entry_ok st h kn k c a :
  inv (st, h, kn) -> In a kn -> lookup k st = None ->
  let '(h1, e) := new_entry all_copy h c a in
  inv (upd k e st, h1, kn) /\
  contents (upd k e st) h1 = upd k (c, hget h a) (contents st h).
Proof.
  intros Hi Ha Hl. inv_intro. unfold new_entry, set_entry. cbn [cp_new cp_set all_copy fst snd].
  pose proof (Hk a Ha) as Halt.
  assert (length (h ++ [[]]) = S (length h)) as Hlen by (rewrite app_length; cbn; lia).
  set (h1 := hset (h ++ [[]]) (length h) (hget (h ++ [[]]) a)).
  assert (length h1 = S (length h)) as Hlen1 by (unfold h1; now rewrite hset_length).
  assert (hget h1 (length h) = hget h a) as Hnew.
  { unfold h1. rewrite hget_hset_same by lia. now apply hget_app_lt. }
  assert (forall b, b < length h -> hget h1 b = hget h b) as Hold.
  { intros b Hlt. unfold h1. rewrite hget_hset_other by lia. now apply hget_app_lt. }
  split.
  - repeat split.
    + now apply nodupk_upd.
    + apply nodup_bufs_upd_fresh; [|exact Hnd]. cbn [snd]. intros H. destruct (Hb _ H). lia.
    + destruct (in_bufs_upd _ _ _ _ H) as [->|H']; cbn [snd]; [lia|]. destruct (Hb _ H'). lia.
    + destruct (in_bufs_upd _ _ _ _ H) as [->|H']; cbn [snd].
      * intros Hin. specialize (Hk _ Hin). lia.
      * now destruct (Hb _ H').
    + intros b Hin. specialize (Hk _ Hin). lia.
  - rewrite contents_upd. cbn [fst snd]. rewrite Hnew. f_equal.
    apply contents_frame. intros b Hin. apply Hold. now destruct (Hb _ Hin).
Qed.

(** an existing entry overwritten from a caller's buffer *)
Lemma set_entry_ok st h kn k c be a :
  inv (st, h, kn) -> In a kn -> lookup k st = Some (c, be) ->
  let '(h1, e1) := set_entry all_copy h (c, be) a in
  inv (upd k e1 st, h1, kn) /\
  contents (upd k e1 st) h1 = upd k (c, hget h a) (contents st h).
Proof.
  intros Hi Ha Hl. inv_intro. unfold set_entry. cbn [cp_set all_copy fst snd].
  pose proof (lookup_in_bufs _ _ _ Hl) as Hin. cbn [snd] in Hin.
  destruct (Hb _ Hin) as [Hlt Hnk'].
  rewrite (upd_same k (c, be) st Hl).
  split.
  - repeat split; auto.
    + rewrite hset_length. now destruct (Hb _ H).
    + now destruct (Hb _ H).
    + intros b Hbk. rewrite hset_length. auto.
  - apply (contents_one_changed k c be); auto.
    + now apply hget_hset_same.
    + intros b _ Hne. apply hget_hset_other. congruence.
Qed.

Lemma own_step_ok s o : inv s -> op_okb s o = true -> step_ok s o.
Proof.
  destruct s as [[st h] kn]. intros Hi Hok. unfold step_ok.
  destruct o; cbn [own_step erase op_okb cont fst snd] in *.
  - (* CAlloc *)
    inv_intro. split.
    + repeat split; auto.
      * rewrite app_length. destruct (Hb _ H). cbn. lia.
      * destruct (Hb _ H) as [Hlt Hn]. intros [<-|Hin]; [lia|auto].
      * intros b [<-|Hin]; rewrite app_length; cbn; [lia|]. specialize (Hk _ Hin). lia.
    + split; [|reflexivity]. apply contents_frame. intros b0 Hin. apply hget_app_lt. now destruct (Hb _ Hin).
  - (* CWrite *)
    apply memb_in in Hok. inv_intro. split.
    + repeat split; auto.
      * rewrite hset_length. now destruct (Hb _ H).
      * now destruct (Hb _ H).
      * intros b0 Hin. rewrite hset_length. auto.
    + split; [|reflexivity]. apply contents_frame. intros b0 Hin. apply hget_hset_other.
      intros ->. destruct (Hb _ Hin). auto.
  - (* HClear *)
    inv_intro. split; [|split; reflexivity].
    cbn [inv bufs map nodupk]. split; [exact I|]. split; [constructor|].
    split; [intros b []|exact Hk].
  - (* HAdd *)
    apply memb_in in Hok. cbn [mem_step]. rewrite lookup_contents.
    destruct (lookup k st) as [e0|] eqn:Hl.
    + cbn [fst snd]. auto.
    + pose proof (new_entry_ok st h kn k c a Hi Hok Hl) as H.
      destruct (new_entry all_copy h c a) as [h1 e]. cbn [fst snd]. destruct H as [H1 H2]. auto.
  - (* HGet *)
    cbn [mem_step]. rewrite lookup_contents.
    destruct (lookup k st) as [[c be]|] eqn:Hl; [|cbn [fst snd]; now auto].
    unfold out_entry. cbn [cp_out all_copy fst snd].
    inv_intro. pose proof (lookup_in_bufs _ _ _ Hl) as Hin. cbn [snd] in Hin.
    destruct (Hb _ Hin) as [Hlt _].
    split; [|split].
    + repeat split; auto.
      * rewrite app_length. destruct (Hb _ H). cbn. lia.
      * destruct (Hb _ H) as [Hl2 Hn]. intros [<-|Hi2]; [lia|auto].
      * intros b [<-|Hi2]; rewrite app_length; cbn; [lia|]. specialize (Hk _ Hi2). lia.
    + apply contents_frame. intros b0 Hi0. apply hget_app_lt. now destruct (Hb _ Hi0).
    + now rewrite hget_app_len.
  - (* HHas *)
    cbn [mem_step]. rewrite lookup_contents. split; [exact Hi|].
    destruct (lookup k st); cbn [fst snd]; auto.
  - (* HSet *)
    apply memb_in in Hok. cbn [mem_step]. rewrite lookup_contents.
    destruct (lookup k st) as [[c be]|] eqn:Hl; [|cbn [fst snd]; now auto].
    pose proof (set_entry_ok st h kn k c be a Hi Hok Hl) as H.
    destruct (set_entry all_copy h (c, be) a) as [h1 e1]. cbn [fst snd]. destruct H as [H1 H2]. auto.
  - (* HSetClass *)
    cbn [mem_step]. rewrite lookup_contents.
    destruct (lookup k st) as [[c0 be]|] eqn:Hl; [|cbn [fst snd]; now auto].
    cbn [fst snd]. inv_intro. split; [|split; [|reflexivity]].
    + repeat split; auto using nodupk_upd.
      * now rewrite (bufs_upd_same k (c, be) (c0, be) st Hl eq_refl).
      * rewrite (bufs_upd_same k (c, be) (c0, be) st Hl eq_refl) in H. now destruct (Hb _ H).
      * rewrite (bufs_upd_same k (c, be) (c0, be) st Hl eq_refl) in H. now destruct (Hb _ H).
    + cbn [cont]. now rewrite contents_upd.
  - (* HMutate *)
    cbn [mem_step]. rewrite lookup_contents.
    destruct (lookup k st) as [[c be]|] eqn:Hl; [|cbn [fst snd]; now auto].
    unfold out_entry. cbn [cp_out all_copy fst snd].
    inv_intro. pose proof (lookup_in_bufs _ _ _ Hl) as Hin. cbn [snd] in Hin.
    destruct (Hb _ Hin) as [Hlt Hnkn].
    rewrite hget_app_len.
    destruct (f (hget h be)) as [v'|] eqn:Hf; cbn [fst snd].
    + unfold set_entry. cbn [cp_set all_copy fst snd].
      rewrite (upd_same k (c, be) st Hl).
      set (h1 := h ++ [hget h be]). set (h2 := h1 ++ [v']).
      assert (length h1 = S (length h)) as L1 by (unfold h1; rewrite app_length; cbn; lia).
      assert (length h2 = S (S (length h))) as L2 by (unfold h2; rewrite app_length; cbn; lia).
      assert (hget h2 (length h1) = v') as Hv by (unfold h2; apply hget_app_len).
      rewrite Hv.
      split; [|split; [|reflexivity]].
      * repeat split; auto.
        -- rewrite hset_length. destruct (Hb _ H). lia.
        -- destruct (Hb _ H) as [Hl2 Hn]. intros [<-|[<-|Hi2]]; [lia|lia|auto].
        -- intros b [<-|[<-|Hi2]]; rewrite hset_length; [lia|lia|]. specialize (Hk _ Hi2). lia.
      * apply (contents_one_changed k c be); auto.
        -- apply hget_hset_same. lia.
        -- intros b Hi0 Hne. rewrite hget_hset_other by congruence.
           destruct (Hb _ Hi0) as [Hl0 _]. unfold h2, h1.
           rewrite hget_app_lt by (rewrite app_length; cbn; lia). now apply hget_app_lt.
    + split; [|split; [|reflexivity]].
      * repeat split; auto.
        -- rewrite app_length. destruct (Hb _ H). cbn. lia.
        -- destruct (Hb _ H) as [Hl2 Hn]. intros [<-|Hi2]; [lia|auto].
        -- intros b [<-|Hi2]; rewrite app_length; cbn; [lia|]. specialize (Hk _ Hi2). lia.
      * apply contents_frame. intros b0 Hi0. apply hget_app_lt. now destruct (Hb _ Hi0).
  - (* HRemove *)
    cbn [mem_step]. rewrite lookup_contents.
    destruct (lookup k st) as [e0|] eqn:Hl; [|cbn [fst snd]; now auto].
    cbn [fst snd]. inv_intro. split; [|split; [|reflexivity]].
    + repeat split; auto using nodupk_del, nodup_bufs_del.
      * apply in_bufs_del in H. now destruct (Hb _ H).
      * apply in_bufs_del in H. now destruct (Hb _ H).
    + apply contents_del.
  - (* HEmplace *)
    apply memb_in in Hok. cbn [mem_step]. rewrite lookup_contents.
    destruct (lookup k st) as [e0|] eqn:Hl.
    + cbn [fst snd]. auto.
    + pose proof (new_entry_ok st h kn k c a Hi Hok Hl) as H.
      destruct (new_entry all_copy h c a) as [h1 e]. cbn [fst snd]. destruct H as [H1 H2]. auto.
  - (* HReplace *)
    apply memb_in in Hok. cbn [mem_step]. rewrite lookup_contents.
    destruct (lookup k st) as [[c0 be]|] eqn:Hl.
    + pose proof (set_entry_ok st h kn k c0 be a Hi Hok Hl) as H.
      destruct (set_entry all_copy h (c0, be) a) as [h1 e1]. cbn [fst snd]. destruct H as [H1 H2]. auto.
    + pose proof (new_entry_ok st h kn k c a Hi Hok Hl) as H.
      destruct (new_entry all_copy h c a) as [h1 e]. cbn [fst snd]. destruct H as [H1 H2]. auto.
  - (* HAppend *)
    apply memb_in in Hok. cbn [mem_step]. rewrite lookup_contents.
    destruct (lookup k st) as [[c0 be]|] eqn:Hl.
    + unfold app_entry. cbn [cp_app all_copy fst snd].
      inv_intro. pose proof (lookup_in_bufs _ _ _ Hl) as Hin. cbn [snd] in Hin.
      destruct (Hb _ Hin) as [Hlt Hnkn].
      split; [|split; [|reflexivity]].
      * repeat split; auto.
        -- rewrite hset_length. now destruct (Hb _ H).
        -- now destruct (Hb _ H).
        -- intros b Hi2. rewrite hset_length. auto.
      * apply (contents_one_changed k c0 be); auto.
        -- now apply hget_hset_same.
        -- intros b _ Hne. apply hget_hset_other. congruence.
    + pose proof (new_entry_ok st h kn k [] a Hi Hok Hl) as H.
      destruct (new_entry all_copy h [] a) as [h1 e]. cbn [fst snd]. destruct H as [H1 H2]. auto.
  - (* HWalk *)
    destruct (out_all_spec st h kn) as (xs & H1 & H2).
    destruct (out_all all_copy h kn st) as [h1 kn1]. cbn [fst snd] in *. subst h1.
    inv_intro. split; [|split; [|reflexivity]].
    + repeat split; auto.
      * rewrite app_length. destruct (Hb _ H). lia.
      * destruct (Hb _ H) as [Hl2 Hn]. intros Hi2. destruct (H2 _ Hi2) as [Hi3|Hr]; [auto|lia].
      * intros b Hi2. destruct (H2 _ Hi2) as [Hi3|Hr]; [|lia].
        specialize (Hk _ Hi3). rewrite app_length. lia.
    + cbn [mem_step fst]. apply contents_frame. intros b0 Hi0. apply hget_app_lt. now destruct (Hb _ Hi0).
  - (* HCount *)
    cbn [mem_step fst snd]. rewrite lenN_contents. auto.
Qed.

Lemma own_run_ok ops : forall s,
  inv s -> run_okb all_copy s ops = true ->
  inv (fst (own_run all_copy s ops)) /\
  cont (fst (own_run all_copy s ops)) = fst (run mem_step (cont s) (erase_run all_copy s ops)) /\
  snd (own_run all_copy s ops) = snd (run mem_step (cont s) (erase_run all_copy s ops)).
Proof.
  induction ops as [|o ops IH]; intros s Hi Hok; cbn [own_run erase_run run_okb run] in *.
  - auto.
  - apply andb_prop in Hok. destruct Hok as [Ho Hops].
    destruct (own_step_ok s o Hi Ho) as [Hi1 Hst].
    destruct (own_step all_copy s o) as [s1 r] eqn:E1. cbn [fst snd] in *.
    destruct (IH s1 Hi1 Hops) as (Hi2 & Hc2 & Hr2).
    destruct (own_run all_copy s1 ops) as [s2 rs] eqn:E2. cbn [fst snd] in *.
    destruct (erase s o) as [b|].
    + destruct Hst as [Hc1 Hr1]. subst r. cbn [run].
      destruct (mem_step (cont s) b) as [m1 r1] eqn:E3. cbn [fst snd] in *. rewrite Hc1 in *.
      destruct (run mem_step m1 (erase_run all_copy s1 ops)) as [m2 rs'] eqn:E4. cbn [fst snd] in *.
      subst. auto.
    + destruct Hst as [Hc1 Hr1]. subst r. rewrite Hc1 in *. auto.
Qed.

(** The store's contents and the results of its calls are a function of the
    history of calls alone: [erase_run] drops every write of the caller into
    its own buffers and reads the arguments off those buffers at call time. *)
Theorem contents_history_only ops :
  run_okb all_copy own_init ops = true ->
  cont (fst (own_run all_copy own_init ops))
  = fst (run mem_step [] (erase_run all_copy own_init ops)) /\
  snd (own_run all_copy own_init ops)
  = snd (run mem_step [] (erase_run all_copy own_init ops)).
Proof.
  intros Hok.
  assert (inv own_init) as Hi.
  { cbn [inv own_init bufs map nodupk]. split; [exact I|]. split; [constructor|].
    split; intros b []. }
  destruct (own_run_ok ops own_init Hi Hok) as (_ & H1 & H2). auto.
Qed.

(** ... and it never touches a buffer of the caller: whatever the caller may
    write is outside the store's buffers, in every reachable state *)
Theorem store_buffers_private ops :
  run_okb all_copy own_init ops = true ->
  let '(st, h, kn) := fst (own_run all_copy own_init ops) in
  forall b, In b (bufs st) -> ~ In b kn.
Proof.
  intros Hok.
  assert (inv own_init) as Hi.
  { cbn [inv own_init bufs map nodupk]. split; [exact I|]. split; [constructor|].
    split; intros b []. }
  destruct (own_run_ok ops own_init Hi Hok) as (H & _ & _).
  destruct (fst (own_run all_copy own_init ops)) as [[st h] kn].
  destruct H as (_ & _ & Hb & _). intros b Hin. now destruct (Hb _ Hin).
Qed.

(** ** Without one of the copies the statement fails *)

Local Open Scope N_scope.

Definition adopt_new : copies := mkCopies false true true true.
Definition hand_out : copies := mkCopies true true true false.

(** newMemEntry adopting its argument (bytes.NewBuffer(bs)): the caller
    appends from its scratch buffer to a new key and then recycles the buffer *)
Example adopting_new_entry_refuted :
  let ops := [CAlloc [49; 50]; HAppend [107] 0%nat; CWrite 0%nat [238; 238]; HGet [107]] in
  run_okb adopt_new own_init ops = true /\
  snd (own_run adopt_new own_init ops) = [RUnit; RBytes [238; 238]] /\
  snd (run mem_step [] (erase_run adopt_new own_init ops)) = [RUnit; RBytes [49; 50]].
Proof. vm_compute. repeat split. Qed.

(** bytes() handing out the buffer's own storage: the caller overwrites what
    GetBytes returned *)
Example handing_out_storage_refuted :
  let ops := [CAlloc [49]; HAdd [107] [] 0%nat; HGet [107]; CWrite 1%nat [238]; HGet [107]] in
  run_okb hand_out own_init ops = true /\
  snd (own_run hand_out own_init ops) = [RUnit; RBytes [49]; RBytes [238]] /\
  snd (run mem_step [] (erase_run hand_out own_init ops)) = [RUnit; RBytes [49]; RBytes [49]].
Proof. vm_compute. repeat split. Qed.
