(** C06, part B: the SQL backends under concurrency.

    Every connection issues statements that are atomic with respect to each
    other.  All methods but [mutate] are a single statement in autocommit
    mode; [mutate] is a transaction: Begin (deferred), SELECT (takes SHARED),
    the user callback, UPDATE (takes RESERVED, the change stays in the
    connection's page cache), Commit (takes EXCLUSIVE and publishes the
    cache), with a deferred Rollback.  SQLite's lock ladder is modelled by
    what it *grants*: RESERVED only if no other connection holds it, a commit
    (of a transaction or of an autocommit write) only if no other connection
    is inside a transaction (holds SHARED).  Every request may instead be
    refused: the operation then returns SQLITE_BUSY and has no effect. *)
From Coq Require Import List Arith NArith Bool String Lia.
From Verif Require Import Lib.Sched Kv.KeyOrd Kv.AList Kv.Spec Kv.Mem Kv.Sql Kv.Refine.
Import ListNotations.
Local Open Scope string_scope.

Definition is_busy (r : result) : bool :=
  match r with RErr EBusy => true | _ => false end.

Definition is_mutate (o : bop) : bool :=
  match o with BMutate _ _ => true | _ => false end.

Definition writes (o : bop) : bool :=
  match o with
  | BClear | BAdd _ _ _ | BSet _ _ | BSetClass _ _ | BRemove _ | BEmplace _ _ _
  | BReplace _ _ _ | BAppend _ _ | BMutate _ _ => true
  | _ => false
  end.

Definition kenv (k : key) : env := mkEnv k [] [] [] 0 0 false.
Definition uenv (k : key) (v' : bytes) : env := mkEnv k [] [] v' 0 0 false.

Inductive qthread :=
| QIdle (todo : list bop)
| QRead (k : key) (f : bytes -> mres) (v : bytes) (todo : list bop)
    (* inside mutate, SELECT done: SHARED held, [v] is what it returned *)
| QWritten (k : key) (f : bytes -> mres) (img : table) (todo : list bop).
    (* UPDATE done: RESERVED held, [img] is the table image in the page cache *)

Record qconfig := mkQ {
  qdb : table;                               (* the committed database *)
  qths : tid -> qthread;
  qdone : list (tid * bop * result)          (* returns, oldest first *)
}.

Definition in_tx (t : qthread) : Prop := match t with QIdle _ => False | _ => True end.
Definition has_reserved (t : qthread) : Prop :=
  match t with QWritten _ _ _ _ => True | _ => False end.

Definition qset (f : tid -> qthread) (i : tid) (x : qthread) : tid -> qthread :=
  fun j => if Nat.eqb j i then x else f j.

Definition qret (cfg : qconfig) (db : table) (i : tid) (todo : list bop) (o : bop) (r : result)
  : qconfig :=
  mkQ db (qset (qths cfg) i (QIdle todo)) (qdone cfg ++ [(i, o, r)]).

Section SqlConc.
  Variable tbl : methods.

  Inductive qstep : qconfig -> qconfig -> Prop :=
  (* a refused lock request, at any point: SQLITE_BUSY, nothing applied *)
  | QBusyIdle i o todo cfg :
      qths cfg i = QIdle (o :: todo) ->
      qstep cfg (qret cfg (qdb cfg) i todo o (RErr EBusy))
  | QBusyRead i k f v todo cfg :
      qths cfg i = QRead k f v todo ->
      qstep cfg (qret cfg (qdb cfg) i todo (BMutate k f) (RErr EBusy))
  | QBusyWritten i k f img todo cfg :
      qths cfg i = QWritten k f img todo ->
      qstep cfg (qret cfg (qdb cfg) i todo (BMutate k f) (RErr EBusy))
  (* a single statement in autocommit mode *)
  | QStmt i o todo cfg :
      qths cfg i = QIdle (o :: todo) -> is_mutate o = false ->
      (writes o = true -> forall j, j <> i -> ~ in_tx (qths cfg j)) ->
      qstep cfg (qret cfg (fst (sql_step tbl (qdb cfg) o)) i todo o
                      (snd (sql_step tbl (qdb cfg) o)))
  (* mutate: Begin; SELECT *)
  | QSelectMissing i k f todo cfg :
      qths cfg i = QIdle (BMutate k f :: todo) ->
      run_method_call tbl "mutate" 0 (kenv k) (qdb cfg) = XVals [] ->
      qstep cfg (qret cfg (qdb cfg) i todo (BMutate k f) (RErr ENotFound))
  | QSelect i k f v vs todo cfg :
      qths cfg i = QIdle (BMutate k f :: todo) ->
      run_method_call tbl "mutate" 0 (kenv k) (qdb cfg) = XVals (v :: vs) ->
      qstep cfg (mkQ (qdb cfg) (qset (qths cfg) i (QRead k f v todo)) (qdone cfg))
  | QSelectErr i k f todo cfg :
      qths cfg i = QIdle (BMutate k f :: todo) ->
      (forall vs, run_method_call tbl "mutate" 0 (kenv k) (qdb cfg) <> XVals vs) ->
      qstep cfg (qret cfg (qdb cfg) i todo (BMutate k f) (RErr EOther))
  (* mutate: the callback; UPDATE *)
  | QCallbackFail i k f v e todo cfg :
      qths cfg i = QRead k f v todo -> f v = MFail e ->
      qstep cfg (qret cfg (qdb cfg) i todo (BMutate k f) (RErr e))
  | QUpdate i k f v v' img todo cfg :
      qths cfg i = QRead k f v todo -> f v = MSet v' ->
      (forall j, j <> i -> ~ has_reserved (qths cfg j)) ->
      run_method_call tbl "mutate" 1 (uenv k v') (qdb cfg) = XAffected img 1 ->
      qstep cfg (mkQ (qdb cfg) (qset (qths cfg) i (QWritten k f img todo)) (qdone cfg))
  | QUpdateNotOne i k f v v' img n todo cfg :
      qths cfg i = QRead k f v todo -> f v = MSet v' ->
      run_method_call tbl "mutate" 1 (uenv k v') (qdb cfg) = XAffected img n -> n <> 1%N ->
      qstep cfg (qret cfg (qdb cfg) i todo (BMutate k f) (res_error n))
  | QUpdateErr i k f v v' todo cfg :
      qths cfg i = QRead k f v todo -> f v = MSet v' ->
      (forall img n, run_method_call tbl "mutate" 1 (uenv k v') (qdb cfg) <> XAffected img n) ->
      qstep cfg (qret cfg (qdb cfg) i todo (BMutate k f) (RErr EOther))
  (* mutate: Commit publishes the page cache *)
  | QCommit i k f img todo cfg :
      qths cfg i = QWritten k f img todo ->
      (forall j, j <> i -> ~ in_tx (qths cfg j)) ->
      qstep cfg (qret cfg img i todo (BMutate k f) RUnit).

  Inductive qreachable (c0 : qconfig) : qconfig -> Prop :=
  | QReachRefl : qreachable c0 c0
  | QReachStep c1 c2 : qreachable c0 c1 -> qstep c1 c2 -> qreachable c0 c2.
End SqlConc.

Definition qinit (bprog : tid -> list bop) (db0 : table) : qconfig :=
  mkQ db0 (fun i => QIdle (bprog i)) [].

(** The operations that were applied: those that did not report BUSY. *)
Definition applied (d : list (tid * bop * result)) : list (tid * bop * result) :=
  filter (fun x => negb (is_busy (snd x))) d.
Definition qops (d : list (tid * bop * result)) : list bop := map (fun x => snd (fst x)) d.
Definition qresults (d : list (tid * bop * result)) : list result := map snd d.

Local Close Scope string_scope.

(** * Serializability for the deployed statement table *)

Notation D := deployed_methods.

Lemma run_snoc {S O : Type} (step : S -> O -> S * result) s ops o :
  run step s (ops ++ [o]) =
  (fst (step (fst (run step s ops)) o),
   snd (run step s ops) ++ [snd (step (fst (run step s ops)) o)]).
Proof.
  revert s. induction ops as [|o0 t IH]; intros s; cbn [app run].
  - cbn [fst snd app]. destruct (step s o) as [s1 r]. reflexivity.
  - destruct (step s o0) as [s1 r0]. rewrite IH.
    destruct (run step s1 t) as [s2 rs]. cbn [fst snd app]. reflexivity.
Qed.

Lemma select_deployed k db :
  run_method_call D "mutate" 0 (kenv k) db
  = XVals (match lookup k db with Some (_, v) => [v] | None => [] end).
Proof. reflexivity. Qed.

Lemma update_deployed k v' db :
  run_method_call D "mutate" 1 (uenv k v') db
  = match lookup k db with
    | Some (c0, _) => XAffected (upd k (c0, v') db) 1
    | None => XAffected db 0
    end.
Proof. cbn. destruct (lookup k db) as [[c0 v0]|]; reflexivity. Qed.

Lemma mutate_deployed k f db :
  sql_step D db (BMutate k f)
  = match lookup k db with
    | None => (db, RErr ENotFound)
    | Some (c, v) =>
        match f v with
        | MSet v' => (upd k (c, v') db, RUnit)
        | MFail e => (db, RErr e)
        end
    end.
Proof. rewrite sql_canon_eq. reflexivity. Qed.

Lemma nonwrite_same o db : writes o = false -> fst (sql_step D db o) = db.
Proof.
  intros H. rewrite sql_canon_eq. destruct o; try discriminate; cbn -[sql_window];
    try (destruct (lookup k db) as [[c0 v0]|]); try (destruct (sql_window _ _ _)); reflexivity.
Qed.

Lemma stmt_not_busy o db : is_mutate o = false -> is_busy (snd (sql_step D db o)) = false.
Proof.
  intros H. rewrite sql_canon_eq. destruct o; try discriminate; cbn -[sql_window];
    try (destruct (lookup k db) as [[c0 v0]|]); try reflexivity;
    try (destruct (sql_window _ _ _); [|reflexivity]);
    unfold walk_result; destruct (visit _ _); reflexivity.
Qed.

Record qinv (db0 : table) (cfg : qconfig) : Prop := mkQInv {
  qi_run : run (sql_step D) db0 (qops (applied (qdone cfg)))
           = (qdb cfg, qresults (applied (qdone cfg)));
  qi_read : forall i k f v todo, qths cfg i = QRead k f v todo ->
            exists c, lookup k (qdb cfg) = Some (c, v);
  qi_written : forall i k f img todo, qths cfg i = QWritten k f img todo ->
            exists c v v', lookup k (qdb cfg) = Some (c, v) /\ f v = MSet v' /\
                           img = upd k (c, v') (qdb cfg)
}.

Lemma qset_same f i x : qset f i x i = x.
Proof. unfold qset. now rewrite Nat.eqb_refl. Qed.

Lemma qset_other f i x j : j <> i -> qset f i x j = f j.
Proof. unfold qset. intros H. apply Nat.eqb_neq in H. now rewrite H. Qed.

(** returning without touching the database keeps the invariant, whether
    the result is BUSY (dropped) or the sequential result on the current
    database *)
Lemma qinv_ret_same db0 cfg i todo o r :
  qinv db0 cfg ->
  (is_busy r = true \/ sql_step D (qdb cfg) o = (qdb cfg, r)) ->
  qinv db0 (qret cfg (qdb cfg) i todo o r).
Proof.
  intros [H1 H2 H3] Hr. constructor; cbn [qret qdb qths qdone].
  - unfold applied. rewrite filter_app. cbn [filter snd].
    destruct Hr as [Hb|Hs].
    + rewrite Hb. cbn [negb]. now rewrite app_nil_r.
    + destruct (is_busy r) eqn:Hb; cbn [negb]; [now rewrite app_nil_r|].
      unfold qops, qresults. rewrite !map_app. cbn [map fst snd].
      rewrite run_snoc. unfold applied, qops, qresults in H1. rewrite H1. cbn [fst snd].
      now rewrite Hs.
  - intros j k f v td Hj. destruct (Nat.eq_dec j i) as [->|Hne].
    + rewrite qset_same in Hj. discriminate.
    + rewrite qset_other in Hj by exact Hne. eauto.
  - intros j k f img td Hj. destruct (Nat.eq_dec j i) as [->|Hne].
    + rewrite qset_same in Hj. discriminate.
    + rewrite qset_other in Hj by exact Hne. eauto.
Qed.

(** publishing a new database is allowed only when no other connection is in
    a transaction *)
Lemma qinv_ret_new db0 cfg i todo o r db' :
  qinv db0 cfg ->
  (forall j, j <> i -> ~ in_tx (qths cfg j)) ->
  is_busy r = false -> sql_step D (qdb cfg) o = (db', r) ->
  qinv db0 (qret cfg db' i todo o r).
Proof.
  intros [H1 H2 H3] Hg Hb Hs. constructor; cbn [qret qdb qths qdone].
  - unfold applied. rewrite filter_app. cbn [filter snd]. rewrite Hb. cbn [negb].
    unfold qops, qresults. rewrite !map_app. cbn [map fst snd].
    rewrite run_snoc. unfold applied, qops, qresults in H1. rewrite H1. cbn [fst snd].
    now rewrite Hs.
  - intros j k f v td Hj. destruct (Nat.eq_dec j i) as [->|Hne].
    + rewrite qset_same in Hj. discriminate.
    + rewrite qset_other in Hj by exact Hne. exfalso. apply (Hg j Hne). now rewrite Hj.
  - intros j k f img td Hj. destruct (Nat.eq_dec j i) as [->|Hne].
    + rewrite qset_same in Hj. discriminate.
    + rewrite qset_other in Hj by exact Hne. exfalso. apply (Hg j Hne). now rewrite Hj.
Qed.

Lemma qinv_step db0 c1 c2 : qinv db0 c1 -> qstep D c1 c2 -> qinv db0 c2.
Proof.
  intros Hinv Hs. pose proof Hinv as [H1 H2 H3].
  destruct Hs as [i o todo cfg Hi | i k f v todo cfg Hi | i k f img todo cfg Hi
                 | i o todo cfg Hi Hm Hg
                 | i k f todo cfg Hi Hsel | i k f v vs todo cfg Hi Hsel | i k f todo cfg Hi Hsel
                 | i k f v e todo cfg Hi Hf
                 | i k f v v' img todo cfg Hi Hf Hg Hu
                 | i k f v v' img n todo cfg Hi Hf Hu Hn
                 | i k f v v' todo cfg Hi Hf Hu
                 | i k f img todo cfg Hi Hg].
  - apply qinv_ret_same; auto.
  - apply qinv_ret_same; auto.
  - apply qinv_ret_same; auto.
  - (* single statement *)
    destruct (writes o) eqn:Hw.
    + apply qinv_ret_new; auto using stmt_not_busy. apply surjective_pairing.
    + rewrite (nonwrite_same o (qdb cfg) Hw). apply qinv_ret_same; auto. right.
      rewrite (surjective_pairing (sql_step D (qdb cfg) o)). now rewrite (nonwrite_same o _ Hw).
  - (* key missing *)
    apply qinv_ret_same; auto. right. rewrite mutate_deployed.
    rewrite select_deployed in Hsel. destruct (lookup k (qdb cfg)) as [[c v]|]; [discriminate|reflexivity].
  - (* SELECT returned v *)
    rewrite select_deployed in Hsel.
    constructor; cbn [qdb qths qdone]; [exact H1| |].
    + intros j k' f' v'' td Hj. destruct (Nat.eq_dec j i) as [->|Hne].
      * rewrite qset_same in Hj. injection Hj as <- <- <- <-.
        destruct (lookup k (qdb cfg)) as [[c v0]|]; [|discriminate].
        injection Hsel as <- _. eauto.
      * rewrite qset_other in Hj by exact Hne. eauto.
    + intros j k' f' img td Hj. destruct (Nat.eq_dec j i) as [->|Hne].
      * rewrite qset_same in Hj. discriminate.
      * rewrite qset_other in Hj by exact Hne. eauto.
  - exfalso. rewrite select_deployed in Hsel. eapply Hsel. reflexivity.
  - (* callback failed or cancelled *)
    apply qinv_ret_same; auto. right. rewrite mutate_deployed.
    destruct (H2 i k f v todo Hi) as [c ->]. now rewrite Hf.
  - (* UPDATE *)
    rewrite update_deployed in Hu. destruct (H2 i k f v todo Hi) as [c Hl]. rewrite Hl in Hu.
    injection Hu as <-.
    constructor; cbn [qdb qths qdone]; [exact H1| |].
    + intros j k' f' v'' td Hj. destruct (Nat.eq_dec j i) as [->|Hne].
      * rewrite qset_same in Hj. discriminate.
      * rewrite qset_other in Hj by exact Hne. eauto.
    + intros j k' f' img td Hj. destruct (Nat.eq_dec j i) as [->|Hne].
      * rewrite qset_same in Hj. injection Hj as <- <- <- <-. eauto 6.
      * rewrite qset_other in Hj by exact Hne. eauto.
  - exfalso. rewrite update_deployed in Hu. destruct (H2 i k f v todo Hi) as [c Hl]. rewrite Hl in Hu.
    injection Hu as _ <-. now apply Hn.
  - exfalso. rewrite update_deployed in Hu. destruct (H2 i k f v todo Hi) as [c Hl]. rewrite Hl in Hu.
    eapply Hu. reflexivity.
  - (* Commit *)
    destruct (H3 i k f img todo Hi) as (c & v & v' & Hl & Hf & ->).
    apply qinv_ret_new; auto. rewrite mutate_deployed, Hl, Hf. reflexivity.
Qed.

Lemma qinv_init bprog db0 : qinv db0 (qinit bprog db0).
Proof. constructor; cbn; [reflexivity| |]; intros; discriminate. Qed.

(** Any number of connections, any programs, any interleaving, any pattern
    of BUSY refusals: the committed database and the results of the calls
    that did not report BUSY are those of running exactly these calls one
    after the other, in the order of their returns (for mutate: of its
    commit).  A call that reported BUSY changed nothing. *)
Theorem sql_serializable bprog db0 cfg :
  qreachable D (qinit bprog db0) cfg ->
  run (sql_step D) db0 (qops (applied (qdone cfg)))
  = (qdb cfg, qresults (applied (qdone cfg))).
Proof.
  intros Hr. assert (qinv db0 cfg) as [H _ _]; [|exact H].
  induction Hr as [|c1 c2 _ IH Hs]; [apply qinv_init|]. eapply qinv_step; eauto.
Qed.

(** Inside a mutate transaction the value read is still the committed one:
    nobody else committed since the SELECT. *)
Theorem sql_snapshot_stable bprog db0 cfg i k f v todo :
  qreachable D (qinit bprog db0) cfg ->
  qths cfg i = QRead k f v todo -> exists c, lookup k (qdb cfg) = Some (c, v).
Proof.
  intros Hr. assert (qinv db0 cfg) as [_ H _]; [|eauto].
  induction Hr as [|c1 c2 _ IH Hs]; [apply qinv_init|]. eapply qinv_step; eauto.
Qed.

(** The statement-shape facts the model rests on, decidable on the event
    list of a method (checked on the generated tables in Kv/AtomicGen.v). *)
Definition is_call (e : ev) : bool := match e with ECall _ _ _ _ _ => true | _ => false end.
Definition call_on (h : handle) (e : ev) : bool :=
  match e, h with
  | ECall HDb _ _ _ _, HDb | ECall HTx _ _ _ _, HTx => true
  | ECall _ _ _ _ _, _ => false
  | _, _ => true
  end.
Definition tx_event (e : ev) : bool :=
  match e with EBegin | EDeferRollback | ECommit => true | _ => false end.

(** mutate: Begin first, Rollback deferred at once, both statements on the
    transaction handle, the callback between them, Commit last. *)
Definition mutate_in_txb (evs : list ev) : bool :=
  match evs with
  | EBegin :: EDeferRollback :: rest =>
      forallb (call_on HTx) rest &&
      Nat.eqb (List.length (filter is_call rest)) 2 &&
      match rev rest with ECommit :: _ => true | _ => false end &&
      match filter (fun e => is_call e || match e with ECallUser => true | _ => false end) rest with
      | [ECall _ FQ1 _ _ _; ECallUser; ECall _ FX _ _ _] => true
      | _ => false
      end
  | _ => false
  end.

(** every other method: one statement, on the database handle, outside any
    transaction (autocommit). *)
Definition single_statementb (evs : list ev) : bool :=
  forallb (call_on HDb) evs && Nat.eqb (List.length (filter is_call evs)) 1 &&
  negb (existsb tx_event evs).

(** ** What the lock ladder excludes (the forced schedules of the harness)

    While a connection is inside a mutate transaction, the committed database
    can only change by that transaction's own commit: every write another
    connection attempts in the meantime can only be refused (BUSY). *)
Theorem sql_tx_excludes_writes cfg cfg' j :
  qstep D cfg cfg' -> in_tx (qths cfg j) ->
  qdb cfg' = qdb cfg \/
  (exists k f img todo, qths cfg j = QWritten k f img todo /\ qdb cfg' = img).
Proof.
  intros Hs Hj.
  destruct Hs as [i o todo cfg Hi | i k f v todo cfg Hi | i k f img todo cfg Hi
                 | i o todo cfg Hi Hm Hg
                 | i k f todo cfg Hi Hsel | i k f v vs todo cfg Hi Hsel | i k f todo cfg Hi Hsel
                 | i k f v e todo cfg Hi Hf
                 | i k f v v' img todo cfg Hi Hf Hg Hu
                 | i k f v v' img n todo cfg Hi Hf Hu Hn
                 | i k f v v' todo cfg Hi Hf Hu
                 | i k f img todo cfg Hi Hg]; cbn [qret qdb]; auto.
  - (* an autocommit statement *)
    destruct (writes o) eqn:Hw; [|left; now apply nonwrite_same].
    exfalso. destruct (Nat.eq_dec j i) as [->|Hne].
    + rewrite Hi in Hj. exact Hj.
    + exact (Hg eq_refl j Hne Hj).
  - (* a commit: only the transaction's own *)
    destruct (Nat.eq_dec j i) as [->|Hne].
    + right. exists k, f, img, todo. split; [exact Hi|reflexivity].
    + exfalso. exact (Hg j Hne Hj).
Qed.

(** Two connections cannot both hold a pending write (RESERVED). *)
Definition reserved_unique (cfg : qconfig) : Prop :=
  forall i j, has_reserved (qths cfg i) -> has_reserved (qths cfg j) -> i = j.

Theorem sql_reserved_unique bprog db0 cfg :
  qreachable D (qinit bprog db0) cfg -> reserved_unique cfg.
Proof.
  intros Hr. induction Hr as [|c1 c2 _ IH Hs].
  - intros i j Hi. cbn in Hi. contradiction.
  - assert (forall cfg i todo db o r, reserved_unique cfg ->
              reserved_unique (qret cfg db i todo o r)) as Hret.
    { intros cfg i todo db o r Hu a b Ha Hb. cbn [qret qths] in *.
      destruct (Nat.eq_dec a i) as [->|Ha']; [rewrite qset_same in Ha; contradiction|].
      destruct (Nat.eq_dec b i) as [->|Hb']; [rewrite qset_same in Hb; contradiction|].
      rewrite qset_other in Ha, Hb by assumption. now apply Hu. }
    destruct Hs; try (now apply Hret).
    + (* SELECT: the new state holds no RESERVED *)
      intros a b Ha Hb. cbn [qths] in *.
      destruct (Nat.eq_dec a i) as [->|Ha']; [rewrite qset_same in Ha; contradiction|].
      destruct (Nat.eq_dec b i) as [->|Hb']; [rewrite qset_same in Hb; contradiction|].
      rewrite qset_other in Ha, Hb by assumption. now apply IH.
    + (* UPDATE: granted only if nobody else holds RESERVED *)
      intros a b Ha Hb. cbn [qths] in *.
      destruct (Nat.eq_dec a i) as [->|Ha']; destruct (Nat.eq_dec b i) as [->|Hb']; auto.
      * rewrite qset_other in Hb by assumption. exfalso. eapply H1; eauto.
      * rewrite qset_other in Ha by assumption. exfalso. eapply H1; eauto.
      * rewrite qset_other in Ha, Hb by assumption. now apply IH.
Qed.
