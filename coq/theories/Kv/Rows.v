(** The lifetime of a walk's result set (sqlite3_kv.go / psql_kv.go walk*,
    sql_util.go sqlIterRows).

    A walk of a SQL backend opens a result set on a pooled connection; from
    its first row until it is closed that connection holds SQLite's SHARED
    lock, and no other connection can commit (Kv/AtomicSql.v: EXCLUSIVE is
    refused while another connection holds SHARED).  While the walk runs this
    is the read lock the concurrency model speaks about.  It has to end with
    the call: a result set that survives the call keeps the lock for ever,
    and every later write on that database is refused with SQLITE_BUSY - the
    store freezes while the reference map goes on.

    Kv/Sql.v runs walks as one step and says nothing about this.  Here the
    sequential SQL model carries the number of result sets left open; a walk
    leaves one behind exactly when the way it ended is not covered by a Close
    ([released]); a write that has something to commit is refused while one is
    open.  Which exits are covered is read off the source by the translator
    (Gen/KvRows.v): whether each walk* method defers rows.Close, and the
    statement skeleton of sqlIterRows.  Facts about database/sql used: Rows.Next
    closes the result set itself when the rows are exhausted; deferred calls
    run on return and on panic.  Definitions and the (short) proofs. *)
From Coq Require Import List NArith Bool String.
From Verif Require Import Kv.KeyOrd Kv.AList Kv.Spec Kv.Sql.
Import ListNotations.
Local Open Scope string_scope.

(** statements of sqlIterRows, in source order *)
Inductive ract :=
| RDeferClose               (* defer rows.Close()                                  *)
| RNext                     (* for rows.Next() {                                   *)
| RScanRetErr               (*   if err := rows.Scan(...); err != nil { return err } *)
| RCallRetErr               (*   if err := f(k, cls, bs); err != nil { return err } *)
| RLoopEnd                  (* }                                                   *)
| RReturnClose              (* return rows.Close()                                 *)
| RUnknown (text : string).

Definition ract_eqb (a b : ract) : bool :=
  match a, b with
  | RDeferClose, RDeferClose | RNext, RNext | RScanRetErr, RScanRetErr
  | RCallRetErr, RCallRetErr | RLoopEnd, RLoopEnd | RReturnClose, RReturnClose => true
  | _, _ => false
  end.

Fixpoint racts_eqb (a b : list ract) : bool :=
  match a, b with
  | [], [] => true
  | x :: a', y :: b' => ract_eqb x y && racts_eqb a' b'
  | _, _ => false
  end.

(** how a walk can end *)
Inductive wexit :=
| XEnd        (* the rows are exhausted (or the query itself failed: nothing was opened) *)
| XErr        (* Scan or the callback returned an error (ErrCancel included): return from inside the loop *)
| XPanic.     (* the callback panicked *)

Record walk_shape := mkShape {
  ws_method_defer : bool;   (* the walk* method defers rows.Close() before iterating *)
  ws_iter_defer : bool;     (* sqlIterRows defers rows.Close() *)
  ws_iter_known : bool }.   (* sqlIterRows is one of the two loops the model knows *)

Definition loop_skel : list ract := [RNext; RScanRetErr; RCallRetErr; RLoopEnd; RReturnClose].

Fixpoint lookup_defer (tbl : list (string * bool)) (name : string) : bool :=
  match tbl with
  | [] => false
  | (n, b) :: t => if String.eqb n name then b else lookup_defer t name
  end.

Definition shape_from (defers : list (string * bool)) (iter : list ract) (name : string) : walk_shape :=
  mkShape (lookup_defer defers name)
          (racts_eqb iter (RDeferClose :: loop_skel))
          (racts_eqb iter loop_skel || racts_eqb iter (RDeferClose :: loop_skel)).

(** is the result set closed when the walk has ended this way? *)
Definition released (s : walk_shape) (x : wexit) : bool :=
  ws_iter_known s &&
  match x with
  | XEnd => true                                    (* Rows.Next closed it *)
  | XErr | XPanic => ws_method_defer s || ws_iter_defer s
  end.

Definition all_release (shape_of : string -> walk_shape) : bool :=
  forallb (fun m => released (shape_of m) XEnd && released (shape_of m) XErr && released (shape_of m) XPanic)
          ["walk"; "walkClass"; "walkPartial"; "walkPartialClass"].

Definition walk_method (o : bop) : option string :=
  match o with
  | BWalk _ => Some "walk"
  | BWalkClass _ _ => Some "walkClass"
  | BWalkPartial _ _ _ _ => Some "walkPartial"
  | BWalkPartialClass _ _ _ _ _ => Some "walkPartialClass"
  | _ => None
  end.

Definition exit_of (r : result) : wexit :=
  match r with
  | RWalk _ (Some EPanic) => XPanic
  | RWalk _ (Some _) => XErr
  | _ => XEnd
  end.

Definition is_write (o : bop) : bool :=
  match o with
  | BClear | BAdd _ _ _ | BSet _ _ | BSetClass _ _ | BMutate _ _ | BRemove _
  | BEmplace _ _ _ | BReplace _ _ _ | BAppend _ _ => true
  | _ => false
  end.

Section Rows.
  Variable shape_of : string -> walk_shape.
  Variable tbl : methods.

  (** table, result sets left open *)
  Definition rstate := (table * nat)%type.

  Definition rows_step (s : rstate) (o : bop) : rstate * result :=
    let '(t, leaked) := s in
    let '(t', r) := sql_step tbl t o in
    match walk_method o with
    | Some m =>
        ((t, if released (shape_of m) (exit_of r) then leaked else S leaked), r)
    | None =>
        match leaked, is_write o, r with
        | S _, true, RUnit => ((t, leaked), RErr EBusy)   (* the commit is refused: nothing changes *)
        | _, _, _ => ((t', leaked), r)
        end
    end.

  Hypothesis Hrel : all_release shape_of = true.

  Lemma released_all m o x : walk_method o = Some m -> released (shape_of m) x = true.
  Proof.
    intros Hm. unfold all_release in Hrel. rewrite forallb_forall in Hrel.
    assert (In m ["walk"; "walkClass"; "walkPartial"; "walkPartialClass"]) as Hin.
    { destruct o; cbn [walk_method] in Hm; try discriminate; injection Hm as <-; cbn; auto. }
    specialize (Hrel m Hin). apply andb_prop in Hrel. destruct Hrel as [H12 H3].
    apply andb_prop in H12. destruct H12 as [H1 H2]. destruct x; assumption.
  Qed.

  Lemma walk_keeps_table t o m : walk_method o = Some m -> fst (sql_step tbl t o) = t.
  Proof.
    destruct o; cbn [walk_method]; try discriminate; intros _; cbn [sql_step]; unfold rows_method;
      destruct (run_method_call _ _ _ _ _); reflexivity.
  Qed.

  (** with every exit covered no result set is ever left open, and the model
      is the plain sequential one *)
  Lemma rows_step_clean t o :
    rows_step (t, O) o = ((fst (sql_step tbl t o), O), snd (sql_step tbl t o)).
  Proof.
    unfold rows_step. destruct (sql_step tbl t o) as [t' r] eqn:E. cbn [fst snd].
    destruct (walk_method o) as [m|] eqn:Hm.
    - rewrite (released_all m o (exit_of r) Hm).
      pose proof (walk_keeps_table t o m Hm) as Hk. rewrite E in Hk. cbn [fst] in Hk. now subst.
    - reflexivity.
  Qed.

  Theorem walk_releases_on_every_exit ops : forall t,
    run rows_step (t, O) ops
    = ((fst (run (sql_step tbl) t ops), O), snd (run (sql_step tbl) t ops)).
  Proof.
    induction ops as [|o ops IH]; intros t; cbn [run]; [reflexivity|].
    rewrite rows_step_clean. destruct (sql_step tbl t o) as [t1 r1]. cbn [fst snd].
    rewrite IH. destruct (run (sql_step tbl) t1 ops) as [t2 rs]. reflexivity.
  Qed.
End Rows.

(** A close only at the end of the loop (no deferred Close anywhere): a walk
    stopped by its callback leaves its result set open and the next write is
    refused - the reference map accepts it. *)
Definition loop_end_only : string -> walk_shape := fun _ => mkShape false false true.

Local Open Scope N_scope.

Example close_at_loop_end_only_refuted :
  let stop : walkfn := fun _ _ _ => Some ECancel in
  let ops := [BAdd [97] [] [49]; BWalk stop; BAdd [98] [] [50]; BGet [97]; BCount] in
  all_release loop_end_only = false /\
  snd (run (rows_step loop_end_only deployed_methods) ([], O) ops)
  = [RUnit; RWalk [] (Some ECancel); RErr EBusy; RBytes [49]; RCount 1] /\
  snd (run (sql_step deployed_methods) [] ops)
  = [RUnit; RWalk [] (Some ECancel); RUnit; RBytes [49]; RCount 2].
Proof. vm_compute. repeat split. Qed.
