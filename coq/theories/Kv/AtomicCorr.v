(** Correspondence evaluators for C06: a decision procedure for recorded
    concurrent histories (is there an order of the calls that did not report
    BUSY, consistent with real time, that the reference map reproduces,
    ending in the observed contents?) and the accounting checks for long
    runs.  [lin_sound] shows that acceptance really exhibits such an order. *)
From Coq Require Import List Arith NArith Bool Permutation Lia.
From Verif Require Import Kv.KeyOrd Kv.AList Kv.Spec Kv.KvCorr Gen.KvSql.
Import ListNotations.
Local Open Scope N_scope.

Record hcall := mkH { h_inv : N; h_ret : N; h_op : uop; h_res : result }.

(** the ordered KV wrapper over the reference map *)
Definition hstep : table -> uop -> table * result :=
  kv_step gen_max_key_len true (fun k => k) json_ok spec_step.

Fixpoint picks {A} (l : list A) : list (A * list A) :=
  match l with
  | [] => []
  | x :: t => (x, t) :: map (fun p => (fst p, x :: snd p)) (picks t)
  end.

(** no call of [rest] returned before [c] was invoked *)
Definition minimal (c : hcall) (rest : list hcall) : bool :=
  forallb (fun d => negb (h_ret d <? h_inv c)) rest.

(** vm_compute is call-by-value: [&&], [||] and [existsb] would evaluate the
    whole search tree; branches of [if] are evaluated on demand. *)
Fixpoint lin (fuel : nat) (pending : list hcall) (s : table) (final : table -> bool) : bool :=
  match fuel with
  | O => false
  | S n =>
      match pending with
      | [] => final s
      | _ =>
          (fix try (ps : list (hcall * list hcall)) : bool :=
             match ps with
             | [] => false
             | p :: ps' =>
                 if (if minimal (fst p) (snd p) then
                       if result_eqb (snd (hstep s (h_op (fst p)))) (h_res (fst p)) then
                         lin n (snd p) (fst (hstep s (h_op (fst p)))) final
                       else false
                     else false)
                 then true else try ps'
             end) (picks pending)
      end
  end.

Definition final_ok (obs : list (key * option bytes)) (s : table) : bool :=
  forallb (fun kb =>
    match lookup (fst kb) s, snd kb with
    | Some (_, v), Some b => bytes_eqb v b
    | None, None => true
    | _, _ => false
    end) obs.

Definition not_busy (c : hcall) : bool :=
  match h_res c with RErr EBusy => false | _ => true end.

Definition accepts_history (init : list uop) (calls : list hcall)
  (final : list (key * option bytes)) : bool :=
  let s0 := fst (run hstep [] init) in
  let applied := filter not_busy calls in
  lin (S (List.length applied)) applied s0 (final_ok final).

(** ** Soundness of the decision procedure *)

Fixpoint rt_ordered (order : list hcall) : Prop :=
  match order with
  | [] => True
  | c :: rest => minimal c rest = true /\ rt_ordered rest
  end.

Fixpoint seq_ok (order : list hcall) (s : table) (final : table -> bool) : Prop :=
  match order with
  | [] => final s = true
  | c :: rest =>
      result_eqb (snd (hstep s (h_op c))) (h_res c) = true /\
      seq_ok rest (fst (hstep s (h_op c))) final
  end.

Lemma picks_perm {A} (l : list A) x rest : In (x, rest) (picks l) -> Permutation (x :: rest) l.
Proof.
  revert x rest. induction l as [|y t IH]; intros x rest; cbn [picks In]; [tauto|].
  intros [H|H].
  - injection H as <- <-. reflexivity.
  - apply in_map_iff in H. destruct H as [[x' r'] [Heq Hin]]. cbn [fst snd] in Heq.
    injection Heq as <- <-. specialize (IH _ _ Hin).
    rewrite perm_swap. now constructor.
Qed.

Lemma minimal_perm c a b : Permutation a b -> minimal c a = true -> minimal c b = true.
Proof.
  intros Hp H. unfold minimal in *. rewrite forallb_forall in *.
  intros d Hd. apply H. eapply Permutation_in; [symmetry; exact Hp|exact Hd].
Qed.

Theorem lin_sound fuel : forall pending s final,
  lin fuel pending s final = true ->
  exists order, Permutation order pending /\ rt_ordered order /\ seq_ok order s final.
Proof.
  induction fuel as [|n IH]; intros pending s final H; cbn [lin] in H; [discriminate|].
  destruct pending as [|c0 p0].
  - exists []. cbn. auto.
  - remember (picks (c0 :: p0)) as ps eqn:Eps.
    assert (forall x, In x ps -> In x (picks (c0 :: p0))) as Hsub by (intros; now subst).
    clear Eps. induction ps as [|[c rest] ps IHps]; [discriminate|].
    cbn [fst snd] in H.
    destruct (minimal c rest) eqn:Hm; [|apply IHps; [exact H|intros; apply Hsub; now right]].
    destruct (result_eqb (snd (hstep s (h_op c))) (h_res c)) eqn:Hr;
      [|apply IHps; [exact H|intros; apply Hsub; now right]].
    destruct (lin n rest (fst (hstep s (h_op c))) final) eqn:Hl;
      [|apply IHps; [exact H|intros; apply Hsub; now right]].
    assert (In (c, rest) (picks (c0 :: p0))) as Hin by (apply Hsub; now left).
    destruct (IH _ _ _ Hl) as (order & Hp & Hrt & Hseq).
    exists (c :: order). split; [|split].
    + rewrite <- (picks_perm _ _ _ Hin). now constructor.
    + cbn [rt_ordered]. split; [|exact Hrt]. eapply minimal_perm; [symmetry; exact Hp|exact Hm].
    + cbn [seq_ok]. auto.
Qed.

(** ** Accounting checks for long runs *)

Fixpoint uint_bytes (u : Decimal.uint) : bytes :=
  match u with
  | Decimal.Nil => []
  | Decimal.D0 r => 48 :: uint_bytes r | Decimal.D1 r => 49 :: uint_bytes r
  | Decimal.D2 r => 50 :: uint_bytes r | Decimal.D3 r => 51 :: uint_bytes r
  | Decimal.D4 r => 52 :: uint_bytes r | Decimal.D5 r => 53 :: uint_bytes r
  | Decimal.D6 r => 54 :: uint_bytes r | Decimal.D7 r => 55 :: uint_bytes r
  | Decimal.D8 r => 56 :: uint_bytes r | Decimal.D9 r => 57 :: uint_bytes r
  end.

Definition dec_of_N (n : N) : bytes :=
  match n with 0 => [48] | _ => uint_bytes (N.to_uint n) end.

Fixpoint chunks_fuel (fuel : nat) (w : nat) (l : bytes) : list bytes :=
  match fuel with
  | O => []
  | S f => match l with [] => [] | _ => firstn w l :: chunks_fuel f w (skipn w l) end
  end.
Definition chunks (w : nat) (l : bytes) : list bytes := chunks_fuel (S (List.length l)) w l.

Definition opt_bytes_eqb (a b : option bytes) : bool :=
  match a, b with
  | Some x, Some y => bytes_eqb x y
  | None, None => true
  | _, _ => false
  end.

Inductive acase :=
| CLin (init : list uop) (calls : list hcall) (final : list (key * option bytes))
| CCounter (ok : N) (final : option bytes)
    (* a counter added as "0", then only increments: [ok] of them succeeded *)
| CAppend (width : N) (oks : list bytes) (final : bytes)
    (* unique tokens of one width appended to an empty key *)
| CAddRace (attempts : list (bytes * N)) (final : option bytes)
    (* Adds of one absent key: value, 0 ok / 1 exists / 2 busy *)
| CEmplaceRace (attempts : list (bytes * bool)) (final : option bytes)
    (* Emplaces of one absent key: value, reported busy? *)
| CReadsFinal (reads : list bytes) (final : option bytes)
    (* reads of a key made after an Emplace of it had returned, nothing but
       Emplaces writing it: each shows the value the key holds in the end *)
| COwnSet (lasts : list (N * bool)) (final : option bytes)
    (* one set-valued entry; every goroutine adds and removes only its own
       letter: (letter, was its last successful Mutate an add?) - the letters
       in the set in the end are exactly those whose last success was an add *)
| CRemoveRace (attempts : list N) (init : bytes) (final : option bytes)
    (* Removes of one existing key holding [init]: 0 ok / 1 not found / 2 busy *)
| CBlocked (writer : bool) (mid hret : N) (calls : list hcall).
    (* memory backend, forced schedule: a call was held inside its critical
       section (a Mutate in its function: [writer], a Walk in its Do: not)
       from stamp [mid] until stamp [hret] (taken on leaving the callback,
       the lock still held); the calls invoked in between that the lock
       excludes must have returned after [hret] *)

Definition is_write (u : uop) : bool :=
  match u with
  | UAdd _ _ | UAddClass _ _ _ | USetClass _ _ | URemove _ | UEmplace _ _ | UReplace _ _
  | UAppendBytes _ _ | USetBytes _ _ | USet _ _ | UMutate _ _ | UClear | UCount => true
      (* memKV.count takes the exclusive lock *)
  | _ => false
  end.

Definition blocked_ok (writer : bool) (mid hret : N) (calls : list hcall) : bool :=
  forallb (fun c =>
    if (mid <? h_inv c) && (h_inv c <? hret) && (writer || is_write (h_op c))
    then hret <? h_ret c else true) calls.

Definition check_acase (c : acase) : bool :=
  match c with
  | CLin init calls final => accepts_history init calls final
  | CCounter ok final => opt_bytes_eqb final (Some (dec_of_N ok))
  | CAppend w oks final =>
      list_eqb bytes_eqb (ksort kltb (chunks (N.to_nat w) final)) (ksort kltb oks)
  | CAddRace attempts final =>
      let oks := filter (fun a => snd a =? 0) attempts in
      let exs := filter (fun a => snd a =? 1) attempts in
      match oks with
      | [] => opt_bytes_eqb final None && match exs with [] => true | _ => false end
      | [a] => opt_bytes_eqb final (Some (fst a))
      | _ => false
      end
  | CEmplaceRace attempts final =>
      let applied := filter (fun a => negb (snd a)) attempts in
      match final with
      | None => match applied with [] => true | _ => false end
      | Some v => existsb (fun a => bytes_eqb (fst a) v) applied
      end
  | CReadsFinal reads final =>
      forallb (fun r => opt_bytes_eqb (Some r) final) reads
  | COwnSet lasts final =>
      match final with
      | Some b =>
          match set_parse b with
          | Some l =>
              forallb (fun p => Bool.eqb (existsb (fun x => x =? fst p) l) (snd p)) lasts &&
              forallb (fun x => existsb (fun p => fst p =? x) lasts) l
          | None => false
          end
      | None => false
      end
  | CRemoveRace attempts init final =>
      let oks := filter (fun a => a =? 0) attempts in
      let nfs := filter (fun a => a =? 1) attempts in
      match oks with
      | [] => opt_bytes_eqb final (Some init) && match nfs with [] => true | _ => false end
      | [_] => opt_bytes_eqb final None
      | _ => false
      end
  | CBlocked writer mid hret calls => blocked_ok writer mid hret calls
  end.

Fixpoint amismatches_from (i : nat) (cs : list acase) : list nat :=
  match cs with
  | [] => []
  | c :: r => if check_acase c then amismatches_from (S i) r
              else i :: amismatches_from (S i) r
  end.

Definition amismatches (cs : list acase) : list nat := amismatches_from 0 cs.
