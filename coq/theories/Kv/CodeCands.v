(** Candidate inputs for the counterexample search of the pisces code
    refinement (Kv/CodeRefine.v).  Requires only the generated file and the
    model. *)
From Coq Require Import List NArith ZArith Bool.
From Verif Require Import Lib.Path Lib.GoLib Kv.KeyOrd Kv.AList Kv.Spec Kv.Mem Gen.CodeKv.
Import ListNotations.
Local Open Scope N_scope.

(** [kvMapKey] returns [(string, error)]; the model says which key the
    backend is called with, or that the call is refused. *)
Definition kv_key_res (r : list N * go_error) : option key :=
  match snd r with None => Some (fst r) | Some _ => None end.

(** The stand-in for the hash in the search: it marks its argument. *)
Definition cand_hash (k : key) : key := 35 :: k.

Definition cands_kvMapKey : list (key * bool) :=
  pairs (map (fun n => repeat 97 n) [0; 1; 2; 100; 254; 255; 256; 257; 300; 1000]%nat) [true; false].

Definition cex_kvMapKey :=
  cex_search (opt_eqb str_eqb)
             (fun x => kv_key_res (gen_pisces_kvMapKey cand_hash (fst x) (snd x)))
             (fun x => map_key 255 (snd x) cand_hash (fst x)) cands_kvMapKey.

(** [partialKeys]: offsets and counts around 0, the length and the uint64
    wrap, on key lists of 0..4 keys. *)
Definition cand_keys (n : nat) : list key := map (fun i => [97; N.of_nat i]) (seq 0 n).
Definition cand_u64 : list N :=
  [0; 1; 2; 3; 4; 5; 9223372036854775808; 18446744073709551613; 18446744073709551614; 18446744073709551615].

Definition cands_partialKeys : list (N * (N * list key)) :=
  pairs cand_u64 (pairs cand_u64 (map cand_keys [0; 1; 3; 4]%nat)).

Definition cex_partialKeys :=
  cex_search (opt_eqb (list_eqb str_eqb))
             (fun x => gen_pisces_partialKeys (Z.of_N (fst x)) (Z.of_N (fst (snd x))) (snd (snd x)))
             (fun x => partial_keys (fst x) (fst (snd x)) (snd (snd x))) cands_partialKeys.
