(** Actions of the lock / shared-data skeleton the translator extracts from
    pisces/mem_kv.go (Gen/KvMemSkel.v), in source order. *)
From Coq Require Import String.

Inductive act :=
| ALock | ARLock | AUnlock | ARUnlock
| ADeferUnlock | ADeferRUnlock
| AReadMap | AWriteMap
| AReadEntry | AWriteEntry
| ACallUser
| AUnknown (text : string).
