(** C06, PostgreSQL (not runnable here; nothing below is exercised against a
    server).  psqlKV.mutate is: Begin (database/sql default options, i.e. the
    server's default isolation level, READ COMMITTED unless configured
    otherwise); [select v from T where k=$1]; the user's function;
    [update T set v=$1 where k=$2]; Commit.

    PostgreSQL documentation, 13.2.1 "Read Committed Isolation Level": a
    SELECT sees the data committed before the query began and takes no row
    lock; an UPDATE locks the row it changes, waits for a concurrent
    transaction that has updated the row to finish, and then operates on the
    updated version of the row.  The value written by mutate's UPDATE is a
    parameter computed from the earlier SELECT, so operating on the updated
    row simply overwrites it.

    The model below has exactly these rules for transactions that are
    mutates, with one switch: whether the SELECT locks the row (SELECT ... FOR
    UPDATE).  Without the lock two increments can both succeed and add one
    ([pg_rc_lost_update]); with it every schedule is serializable
    ([pg_for_update_serializable]). *)
From Coq Require Import List Arith NArith Bool Lia.
From Verif Require Import Lib.Sched Kv.KeyOrd Kv.AList Kv.Spec Kv.Mem Kv.KvCorr Kv.AtomicSql.
Import ListNotations.

Definition pcall := (key * (bytes -> mres))%type.

Inductive pthread :=
| PIdle (todo : list pcall)
| PRead (k : key) (f : bytes -> mres) (v : bytes) (todo : list pcall)
| PWritten (k : key) (f : bytes -> mres) (v' : bytes) (todo : list pcall).

Record pconfig := mkP {
  pdb : table;
  pths : tid -> pthread;
  pdone : list (tid * pcall * result)
}.

Definition pset (f : tid -> pthread) (i : tid) (x : pthread) : tid -> pthread :=
  fun j => if Nat.eqb j i then x else f j.

Definition pret (cfg : pconfig) (db : table) (i : tid) (todo : list pcall) (c : pcall) (r : result) :=
  mkP db (pset (pths cfg) i (PIdle todo)) (pdone cfg ++ [(i, c, r)]).

Section Pg.
  Variable select_locks : bool.       (* SELECT ... FOR UPDATE *)

  Definition holds_row (k : key) (t : pthread) : Prop :=
    match t with
    | PWritten k' _ _ _ => k' = k
    | PRead k' _ _ _ => select_locks = true /\ k' = k
    | PIdle _ => False
    end.

  Inductive pstep : pconfig -> pconfig -> Prop :=
  | PSelectMissing i k f todo cfg :
      pths cfg i = PIdle ((k, f) :: todo) -> lookup k (pdb cfg) = None ->
      pstep cfg (pret cfg (pdb cfg) i todo (k, f) (RErr ENotFound))
  | PSelect i k f c v todo cfg :
      pths cfg i = PIdle ((k, f) :: todo) -> lookup k (pdb cfg) = Some (c, v) ->
      (select_locks = true -> forall j, j <> i -> ~ holds_row k (pths cfg j)) ->
      pstep cfg (mkP (pdb cfg) (pset (pths cfg) i (PRead k f v todo)) (pdone cfg))
  | PCallbackFail i k f v e todo cfg :
      pths cfg i = PRead k f v todo -> f v = MFail e ->
      pstep cfg (pret cfg (pdb cfg) i todo (k, f) (RErr e))
  | PUpdate i k f v v' todo cfg :
      pths cfg i = PRead k f v todo -> f v = MSet v' ->
      (forall j, j <> i -> ~ holds_row k (pths cfg j)) ->     (* otherwise the UPDATE waits *)
      pstep cfg (mkP (pdb cfg) (pset (pths cfg) i (PWritten k f v' todo)) (pdone cfg))
  | PCommit i k f v' todo cfg :
      pths cfg i = PWritten k f v' todo ->
      pstep cfg (pret cfg
                  (match lookup k (pdb cfg) with
                   | Some (c, _) => upd k (c, v') (pdb cfg)
                   | None => pdb cfg
                   end) i todo (k, f) RUnit).

  Inductive preachable (c0 : pconfig) : pconfig -> Prop :=
  | PReachRefl : preachable c0 c0
  | PReachStep c1 c2 : preachable c0 c1 -> pstep c1 c2 -> preachable c0 c2.
End Pg.

Definition pinit (prog : tid -> list pcall) (db0 : table) : pconfig :=
  mkP db0 (fun i => PIdle (prog i)) [].

Definition pops (d : list (tid * pcall * result)) : list bop :=
  map (fun x => BMutate (fst (snd (fst x))) (snd (snd (fst x)))) d.
Definition presults (d : list (tid * pcall * result)) : list result := map snd d.

(** ** READ COMMITTED without a row lock in the SELECT: a lost update *)

Definition pg_key : key := [107%N].
Definition pg_db0 : table := [(pg_key, ([], [48%N]))].
Definition pg_prog (i : tid) : list pcall :=
  match i with 0 | 1 => [(pg_key, mf_incr)] | _ => [] end.

Ltac pfwd R tac :=
  eapply PReachStep in R; [|tac];
  cbn [pret pdb pths pdone] in R.

(** Both transactions SELECT "0"; the first UPDATEs to "1" and commits; the
    second UPDATEs (no wait needed any more) to its own "1" and commits.  Both
    Mutates report success, the counter holds 1; run one after the other they
    give 2. *)
Example pg_rc_lost_update :
  exists cfg,
    preachable false (pinit pg_prog pg_db0) cfg /\
    presults (pdone cfg) = [RUnit; RUnit] /\
    pdb cfg = [(pg_key, ([], [49%N]))] /\
    fst (run mem_step pg_db0 (pops (pdone cfg))) = [(pg_key, ([], [50%N]))].
Proof.
  pose proof (PReachRefl false (pinit pg_prog pg_db0)) as R.
  unfold pinit in R at 2.
  pfwd R ltac:(eapply PSelect with (i := 0); [reflexivity|reflexivity|discriminate]).
  pfwd R ltac:(eapply PSelect with (i := 1); [reflexivity|reflexivity|discriminate]).
  pfwd R ltac:(eapply PUpdate with (i := 0); [reflexivity|reflexivity|];
               intros j Hj; destruct j as [|[|j]]; cbn; intuition congruence).
  pfwd R ltac:(eapply PCommit with (i := 0); reflexivity).
  pfwd R ltac:(eapply PUpdate with (i := 1); [reflexivity|reflexivity|];
               intros j Hj; destruct j as [|[|j]]; cbn; intuition congruence).
  pfwd R ltac:(eapply PCommit with (i := 1); reflexivity).
  eexists. split; [exact R|]. repeat split; vm_compute; reflexivity.
Qed.

(** ** With SELECT ... FOR UPDATE every schedule is serializable *)

Lemma pset_same f i x : pset f i x i = x.
Proof. unfold pset. now rewrite Nat.eqb_refl. Qed.

Lemma pset_other f i x j : j <> i -> pset f i x j = f j.
Proof. unfold pset. intros H. apply Nat.eqb_neq in H. now rewrite H. Qed.

Record pinv (db0 : table) (cfg : pconfig) : Prop := mkPInv {
  pi_run : run mem_step db0 (pops (pdone cfg)) = (pdb cfg, presults (pdone cfg));
  pi_unique : forall i j k, holds_row true k (pths cfg i) -> holds_row true k (pths cfg j) -> i = j;
  pi_read : forall i k f v todo, pths cfg i = PRead k f v todo ->
            exists c, lookup k (pdb cfg) = Some (c, v);
  pi_written : forall i k f v' todo, pths cfg i = PWritten k f v' todo ->
            exists c v, lookup k (pdb cfg) = Some (c, v) /\ f v = MSet v'
}.

Lemma mutate_mem_step db k f :
  mem_step db (BMutate k f)
  = match lookup k db with
    | None => (db, RErr ENotFound)
    | Some (c, v) =>
        match f v with
        | MSet v' => (upd k (c, v') db, RUnit)
        | MFail e => (db, RErr e)
        end
    end.
Proof. reflexivity. Qed.

Lemma pinv_ret_same db0 cfg i todo k f r :
  pinv db0 cfg -> mem_step (pdb cfg) (BMutate k f) = (pdb cfg, r) ->
  pinv db0 (pret cfg (pdb cfg) i todo (k, f) r).
Proof.
  intros [H1 H2 H3 H4] Hs. constructor; cbn [pret pdb pths pdone].
  - unfold pops, presults, pcall in *. rewrite !map_app. cbn [map].
    rewrite run_snoc, H1. cbn [fst snd]. now rewrite Hs.
  - intros a b k' Ha Hb.
    destruct (Nat.eq_dec a i) as [->|Ha']; [rewrite pset_same in Ha; contradiction|].
    destruct (Nat.eq_dec b i) as [->|Hb']; [rewrite pset_same in Hb; contradiction|].
    rewrite pset_other in Ha, Hb by assumption. eauto.
  - intros j k' f' v td Hj. destruct (Nat.eq_dec j i) as [->|Hne].
    + rewrite pset_same in Hj. discriminate.
    + rewrite pset_other in Hj by exact Hne. eauto.
  - intros j k' f' v td Hj. destruct (Nat.eq_dec j i) as [->|Hne].
    + rewrite pset_same in Hj. discriminate.
    + rewrite pset_other in Hj by exact Hne. eauto.
Qed.

Lemma pinv_step db0 c1 c2 : pinv db0 c1 -> pstep true c1 c2 -> pinv db0 c2.
Proof.
  intros Hinv Hs. pose proof Hinv as [H1 H2 H3 H4].
  destruct Hs as [i k f todo cfg Hi Hl | i k f c v todo cfg Hi Hl Hg
                 | i k f v e todo cfg Hi Hf | i k f v v' todo cfg Hi Hf Hg
                 | i k f v' todo cfg Hi].
  - apply pinv_ret_same; auto. rewrite mutate_mem_step. now rewrite Hl.
  - (* SELECT ... FOR UPDATE *)
    constructor; cbn [pdb pths pdone]; [exact H1| | |].
    + intros a b k' Ha Hb.
      destruct (Nat.eq_dec a i) as [->|Ha']; destruct (Nat.eq_dec b i) as [->|Hb']; auto.
      * rewrite pset_same in Ha. rewrite pset_other in Hb by assumption.
        destruct Ha as [_ <-]. exfalso. exact (Hg eq_refl b Hb' Hb).
      * rewrite pset_same in Hb. rewrite pset_other in Ha by assumption.
        destruct Hb as [_ <-]. exfalso. exact (Hg eq_refl a Ha' Ha).
      * rewrite pset_other in Ha, Hb by assumption. eauto.
    + intros j k' f' v0 td Hj. destruct (Nat.eq_dec j i) as [->|Hne].
      * rewrite pset_same in Hj. injection Hj as <- <- <- <-. eauto.
      * rewrite pset_other in Hj by exact Hne. eauto.
    + intros j k' f' v0 td Hj. destruct (Nat.eq_dec j i) as [->|Hne].
      * rewrite pset_same in Hj. discriminate.
      * rewrite pset_other in Hj by exact Hne. eauto.
  - apply pinv_ret_same; auto. rewrite mutate_mem_step.
    destruct (H3 i k f v todo Hi) as [c ->]. now rewrite Hf.
  - (* UPDATE *)
    constructor; cbn [pdb pths pdone]; [exact H1| | |].
    + intros a b k' Ha Hb.
      destruct (Nat.eq_dec a i) as [->|Ha']; destruct (Nat.eq_dec b i) as [->|Hb']; auto.
      * rewrite pset_same in Ha. rewrite pset_other in Hb by assumption.
        cbn [holds_row] in Ha. subst k'. exfalso. exact (Hg b Hb' Hb).
      * rewrite pset_same in Hb. rewrite pset_other in Ha by assumption.
        cbn [holds_row] in Hb. subst k'. exfalso. exact (Hg a Ha' Ha).
      * rewrite pset_other in Ha, Hb by assumption. eauto.
    + intros j k' f' v0 td Hj. destruct (Nat.eq_dec j i) as [->|Hne].
      * rewrite pset_same in Hj. discriminate.
      * rewrite pset_other in Hj by exact Hne. eauto.
    + intros j k' f' v0 td Hj. destruct (Nat.eq_dec j i) as [->|Hne].
      * rewrite pset_same in Hj. injection Hj as <- <- <- <-.
        destruct (H3 i k f v todo Hi) as [c Hc]. eauto.
      * rewrite pset_other in Hj by exact Hne. eauto.
  - (* COMMIT: nobody else holds this row, so the rows others have read are untouched *)
    destruct (H4 i k f v' todo Hi) as (c & v & Hl & Hf). rewrite Hl.
    assert (forall j, j <> i -> ~ holds_row true k (pths cfg j)) as Hothers.
    { intros j Hne Hj. apply Hne. apply (H2 j i k Hj). rewrite Hi. reflexivity. }
    constructor; cbn [pret pdb pths pdone].
    + unfold pops, presults, pcall in *. rewrite !map_app. cbn [map].
      rewrite run_snoc, H1. cbn [fst snd]. rewrite mutate_mem_step, Hl, Hf. reflexivity.
    + intros a b k' Ha Hb.
      destruct (Nat.eq_dec a i) as [->|Ha']; [rewrite pset_same in Ha; contradiction|].
      destruct (Nat.eq_dec b i) as [->|Hb']; [rewrite pset_same in Hb; contradiction|].
      rewrite pset_other in Ha, Hb by assumption. eauto.
    + intros j k' f' v0 td Hj. destruct (Nat.eq_dec j i) as [->|Hne].
      * rewrite pset_same in Hj. discriminate.
      * rewrite pset_other in Hj by exact Hne. destruct (H3 j k' f' v0 td Hj) as [c' Hc'].
        rewrite lookup_upd. destruct (keqb k' k) eqn:E; [|eauto].
        apply keqb_eq in E. subst k'. exfalso. apply (Hothers j Hne). rewrite Hj. cbn. auto.
    + intros j k' f' v0 td Hj. destruct (Nat.eq_dec j i) as [->|Hne].
      * rewrite pset_same in Hj. discriminate.
      * rewrite pset_other in Hj by exact Hne. destruct (H4 j k' f' v0 td Hj) as (c' & v1 & Hc' & Hf').
        rewrite lookup_upd. destruct (keqb k' k) eqn:E; [|eauto].
        apply keqb_eq in E. subst k'. exfalso. apply (Hothers j Hne). rewrite Hj. reflexivity.
Qed.

Theorem pg_for_update_serializable prog db0 cfg :
  preachable true (pinit prog db0) cfg ->
  run mem_step db0 (pops (pdone cfg)) = (pdb cfg, presults (pdone cfg)).
Proof.
  intros Hr. assert (pinv db0 cfg) as [H _ _ _]; [|exact H].
  induction Hr as [|c1 c2 _ IH Hs].
  - constructor; cbn; [reflexivity|intros; contradiction|intros; discriminate|intros; discriminate].
  - eapply pinv_step; eauto.
Qed.
