(** AppendBytes on the SQL backends, statement by statement.

    Kv/AtomicSql.v runs every method other than mutate as ONE atomic step;
    that is justified only while the method issues one autocommit statement
    (obligation [gen_single_statements]).  This file says what the
    assumption buys for AppendBytes and what is lost without it.  The
    statements work on the entry of one key ([None]: no row):

      upsert v    insert ... on conflict (k) do update set v = v || excluded.v
      update v    update ... set v = v || ? where k=?        (rows affected)
      emplace v   insert ... on conflict (k) do nothing

    Every statement is atomic; a method that issues several lets other
    callers' statements in between.  Schedules are lists of thread numbers:
    each occurrence lets that thread run its next statement. *)
From Coq Require Import List Arith NArith Bool Permutation Lia.
From Verif Require Import Kv.KeyOrd.
Import ListNotations.

Definition cell := option bytes.

Definition upsert (v : bytes) (s : cell) : cell :=
  match s with None => Some v | Some x => Some (x ++ v) end.

(** new cell, rows affected *)
Definition update (v : bytes) (s : cell) : cell * bool :=
  match s with None => (None, false) | Some x => (Some (x ++ v), true) end.

Definition emplace (v : bytes) (s : cell) : cell :=
  match s with None => Some v | Some x => Some x end.

(** ** One statement per call: the upsert *)

(** every caller runs its single statement once, in the order of the
    schedule: the interleavings of one-step threads are the orders of the calls *)
Definition run_upserts (tokens : list bytes) (s : cell) : cell := fold_left (fun s v => upsert v s) tokens s.

Lemma run_upserts_some tokens x : run_upserts tokens (Some x) = Some (x ++ concat tokens).
Proof.
  unfold run_upserts. revert x. induction tokens as [|v t IH]; intros x; cbn [fold_left concat upsert].
  - now rewrite app_nil_r.
  - rewrite IH. now rewrite app_assoc.
Qed.

(** Whatever the order in which the calls take effect, the value holds every
    appended token exactly once, after what was there: the tokens of the
    value are a permutation of the tokens of the calls.  From an absent key
    the same with nothing in front. *)
Theorem single_statement_append_atomic (tokens order : list bytes) (s : cell) :
  Permutation order tokens ->
  run_upserts order s
  = match s, order with
    | None, [] => None                               (* nobody appended to an absent key *)
    | _, _ => Some (match s with Some x => x | None => [] end ++ concat order)
    end /\
  Permutation order tokens.
Proof.
  intros Hp. split; [|exact Hp].
  destruct s as [x|].
  - destruct order; apply run_upserts_some.
  - destruct order as [|v t]; [reflexivity|].
    unfold run_upserts. cbn [fold_left upsert concat app].
    exact (run_upserts_some t v).
Qed.

(** ** Two statements per call: update, and emplace when no row was there *)

Inductive pc := PStart | PEmplace | PDone.

(** thread states; [step i] lets thread [i] run its next statement *)
Fixpoint set_pc (i : nat) (p : pc) (l : list pc) : list pc :=
  match i, l with
  | O, _ :: t => p :: t
  | S i', x :: t => x :: set_pc i' p t
  | _, [] => []
  end.

Definition step2 (tokens : list bytes) (st : list pc * cell) (i : nat) : list pc * cell :=
  let '(pcs, s) := st in
  match nth_error pcs i, nth_error tokens i with
  | Some PStart, Some v =>
      let '(s', hit) := update v s in
      (set_pc i (if hit then PDone else PEmplace) pcs, s')
  | Some PEmplace, Some v => (set_pc i PDone pcs, emplace v s)
  | _, _ => st
  end.

Definition run2 (tokens : list bytes) (sched : list nat) (s : cell) : list pc * cell :=
  fold_left (step2 tokens) sched (map (fun _ => PStart) tokens, s).

Definition all_done (pcs : list pc) : bool :=
  forallb (fun p => match p with PDone => true | _ => false end) pcs.

Local Open Scope N_scope.

(** Two callers append to an absent key; both updates run before either
    emplace: both updates find no row, the first emplace inserts, the second
    does nothing and reports no error.  Both calls have returned nil, one
    token is gone. *)
Example update_then_emplace_refuted :
  let tokens := [[49]; [50]] in
  let '(pcs, s) := run2 tokens [0; 1; 0; 1]%nat None in
  all_done pcs = true /\ s = Some [49] /\
  (* while every schedule of the single-statement version keeps both *)
  run_upserts [[49]; [50]] None = Some [49; 50] /\ run_upserts [[50]; [49]] None = Some [50; 49].
Proof. vm_compute. repeat split. Qed.

(** on a key that exists the two-statement version is harmless: every update
    hits (this is why appends to existing keys do not show the defect) *)
Example update_then_emplace_existing_ok :
  let tokens := [[49]; [50]] in
  snd (run2 tokens [0; 1; 0; 1]%nat (Some [48])) = Some [48; 49; 50].
Proof. vm_compute. reflexivity. Qed.
