(** What the function of a Mutate is shown (kv.go KV.Mutate, the backends'
    mutate).

    The models (Kv/Spec.v [kv_step], Kv/Atomic*.v) give the function of a
    Mutate the stored bytes: what it is shown, and therefore what is written,
    is a function of the value stored when the call takes effect.  In the
    code the wrapper decodes the stored bytes with json.Unmarshal(bs, v) into
    the CALLER's v, a variable that lives outside the closure the backend
    invokes - and json.Unmarshal merges: map keys and struct fields the JSON
    does not mention stay as they are.  With one invocation per call that is
    the same thing (the caller hands in a fresh target).  If a backend
    invokes the closure again (a retry after SQLITE_BUSY), the second
    invocation decodes into what the first one left behind: the function is
    shown a mixture of the stored value and a stale one, and the mixture is
    written.  Hence the condition the translator checks on the source
    (Gen/KvRetry.v): every backend's mutate invokes its function at most once
    per call, or the wrapper decodes into a target that is fresh per
    invocation.

    Executable model over set-valued entries (a map of keys, a struct of
    fields that may be omitted): decoding into a target is a union. *)
From Coq Require Import List Arith NArith Bool Lia.
Import ListNotations.
Local Open Scope N_scope.

Definition tset := list N.

Fixpoint tins (c : N) (l : tset) : tset :=
  match l with
  | [] => [c]
  | x :: t => if c =? x then l else if c <? x then c :: l else x :: tins c t
  end.

(** json.Unmarshal(stored, &target): what the JSON mentions is set, the rest stays *)
Definition unmarshal_into (target stored : tset) : tset := fold_right tins target stored.

Record mshape := mkMShape {
  ms_once : bool;     (* every backend's mutate invokes its function at most once per call *)
  ms_fresh : bool }.  (* the wrapper decodes into a target created for that invocation *)

Definition mshape_ok (s : mshape) : bool := ms_once s || ms_fresh s.

(** One call: the attempts of the backend, each with the value it read; the
    user's function [g]; the target the caller handed in.  Result: what each
    attempt showed to the function, and what the last attempt wrote. *)
Fixpoint attempts (s : mshape) (g : tset -> tset) (target : tset) (reads : list tset)
  : list tset * tset :=
  match reads with
  | [] => ([], target)
  | r :: rest =>
      let shown := unmarshal_into (if ms_fresh s then [] else target) r in
      let after := g shown in
      match rest with
      | [] => ([shown], after)
      | _ => let '(sh, w) := attempts s g after rest in (shown :: sh, w)
      end
  end.

(** the set a JSON object denotes: keys in order, each once *)
Definition canon (l : tset) : tset := fold_right tins [] l.

Lemma unmarshal_fresh r : unmarshal_into [] r = canon r.
Proof. reflexivity. Qed.

(** the number of attempts a call may make *)
Definition attempts_allowed (s : mshape) (reads : list tset) : Prop :=
  ms_once s = true -> (length reads <= 1)%nat.

(** With the condition met, the function is shown the value read by that
    attempt and nothing else, and what is written is the function's result on
    the value read last - whatever the caller's target held before. *)
Theorem mutate_sees_stored_value_only s g target reads :
  mshape_ok s = true -> attempts_allowed s reads -> target = [] ->
  fst (attempts s g target reads) = map canon reads /\
  match rev reads with
  | [] => snd (attempts s g target reads) = target
  | r :: _ => snd (attempts s g target reads) = g (canon r)
  end.
Proof.
  intros Hok Hall Ht. subst target. unfold mshape_ok in Hok.
  destruct (ms_fresh s) eqn:Hf.
  - (* fresh target per invocation: any number of attempts *)
    clear Hok Hall. split.
    + generalize (@nil N) as t. induction reads as [|r rest IH]; intros t; cbn [attempts map]; [reflexivity|].
      rewrite Hf. destruct rest as [|r2 rest'].
      * reflexivity.
      * specialize (IH (g (unmarshal_into [] r))).
        destruct (attempts s g (g (unmarshal_into [] r)) (r2 :: rest')) as [sh w]. cbn [fst] in *.
        now rewrite IH.
    + generalize (@nil N) as t. induction reads as [|r rest IH]; intros t; [reflexivity|].
      cbn [attempts]. rewrite Hf. destruct rest as [|r2 rest'].
      * reflexivity.
      * specialize (IH (g (unmarshal_into [] r))).
        destruct (attempts s g (g (unmarshal_into [] r)) (r2 :: rest')) as [sh w]. cbn [snd] in *.
        change (rev (r :: r2 :: rest')) with (rev (r2 :: rest') ++ [r]).
        destruct (rev (r2 :: rest')) as [|x xs] eqn:E.
        -- exfalso. apply (f_equal (@length tset)) in E. rewrite rev_length in E. discriminate.
        -- cbn [app]. exact IH.
  - (* the caller's target is reused: at most one attempt *)
    rewrite orb_false_r in Hok. specialize (Hall Hok).
    destruct reads as [|r [|r2 rest]]; cbn [length] in Hall.
    + cbn. auto.
    + cbn [attempts map fst snd rev app]. rewrite Hf. auto.
    + exfalso. lia.
Qed.

(** The shape of the code today: the caller's target, one invocation. *)
Definition deployed_shape : mshape := mkMShape true false.
(** ... and with a backend that tries again: *)
Definition retrying_shape : mshape := mkMShape false false.

(** Stored {a,b}; the function adds c; the first attempt is refused; meanwhile
    another Mutate removed b; the second attempt reads {a} - and shows the
    function {a,b,c}, which is written: the removal is undone. *)
Example reused_target_refuted :
  let g := tins 99 in
  attempts retrying_shape g [] [[97; 98]; [97]] = ([[97; 98]; [97; 98; 99]], [97; 98; 99]) /\
  attempts (mkMShape false true) g [] [[97; 98]; [97]] = ([[97; 98]; [97]], [97; 99]).
Proof. vm_compute. split; reflexivity. Qed.
