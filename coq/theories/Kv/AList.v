(** Association lists keyed by byte strings: the unsorted form used by the
    backend models (Go map, SQL table in row order), the strictly sorted form
    used by the reference map, and insertion sort connecting the two.  The
    central fact is [sorted_ext]: a strictly sorted list is determined by its
    lookup function. *)
From Coq Require Import List NArith Bool Lia.
From Verif Require Import Kv.KeyOrd.
Import ListNotations.

Section AList.
  Context {V : Type}.
  Notation al := (list (key * V)).

  Fixpoint lookup (k : key) (l : al) : option V :=
    match l with
    | [] => None
    | (k', v) :: t => if keqb k k' then Some v else lookup k t
    end.

  (** [m[k] = v]: replace in place, else add a new row at the end. *)
  Fixpoint upd (k : key) (v : V) (l : al) : al :=
    match l with
    | [] => [(k, v)]
    | (k', v') :: t => if keqb k k' then (k, v) :: t else (k', v') :: upd k v t
    end.

  Fixpoint del (k : key) (l : al) : al :=
    match l with
    | [] => []
    | (k', v') :: t => if keqb k k' then del k t else (k', v') :: del k t
    end.

  Fixpoint nodupk (l : al) : Prop :=
    match l with
    | [] => True
    | (k, _) :: t => lookup k t = None /\ nodupk t
    end.

  Lemma lookup_upd k v l k' :
    lookup k' (upd k v l) = if keqb k' k then Some v else lookup k' l.
  Proof.
    induction l as [|[k0 v0] t IH]; cbn [upd lookup].
    - reflexivity.
    - destruct (keqb k k0) eqn:E; cbn [lookup].
      + apply keqb_eq in E. subst k0. destruct (keqb k' k); reflexivity.
      + rewrite IH. destruct (keqb k' k0) eqn:E0; [|reflexivity].
        apply keqb_eq in E0. subst k0. rewrite keqb_sym, E. reflexivity.
  Qed.

  Lemma lookup_del k l k' :
    lookup k' (del k l) = if keqb k' k then None else lookup k' l.
  Proof.
    induction l as [|[k0 v0] t IH]; cbn [del lookup].
    - destruct (keqb k' k); reflexivity.
    - destruct (keqb k k0) eqn:E; cbn [lookup].
      + apply keqb_eq in E. subst k0. rewrite IH. destruct (keqb k' k); reflexivity.
      + rewrite IH. destruct (keqb k' k0) eqn:E0; [|reflexivity].
        apply keqb_eq in E0. subst k0. rewrite keqb_sym, E. reflexivity.
  Qed.

  Lemma nodupk_upd k v l : nodupk l -> nodupk (upd k v l).
  Proof.
    induction l as [|[k0 v0] t IH]; cbn [upd nodupk]; [auto|].
    intros [H1 H2]. destruct (keqb k k0) eqn:E; cbn [nodupk].
    - apply keqb_eq in E. subst. auto.
    - split; [|auto]. rewrite lookup_upd, keqb_sym, E. exact H1.
  Qed.

  Lemma nodupk_del k l : nodupk l -> nodupk (del k l).
  Proof.
    induction l as [|[k0 v0] t IH]; cbn [del nodupk]; [auto|].
    intros [H1 H2]. destruct (keqb k k0) eqn:E; cbn [nodupk]; [auto|].
    split; [|auto]. rewrite lookup_del, keqb_sym, E. exact H1.
  Qed.

  Lemma lookup_app k a b :
    lookup k (a ++ b) = match lookup k a with Some v => Some v | None => lookup k b end.
  Proof.
    induction a as [|[k0 v0] t IH]; cbn [app lookup]; [reflexivity|].
    destruct (keqb k k0); auto.
  Qed.

  Lemma lookup_none_notin k l : lookup k l = None <-> ~ In k (map fst l).
  Proof.
    induction l as [|[k0 v0] t IH]; cbn [lookup map fst In].
    - tauto.
    - destruct (keqb k k0) eqn:E.
      + apply keqb_eq in E. subst. split; [discriminate|]. intros H. exfalso. apply H. now left.
      + apply keqb_neq in E. rewrite IH. split.
        * intros H [H'|H']; [congruence|tauto].
        * tauto.
  Qed.

  Lemma lookup_in k v l : lookup k l = Some v -> In (k, v) l.
  Proof.
    induction l as [|[k0 v0] t IH]; cbn [lookup In]; [discriminate|].
    destruct (keqb k k0) eqn:E.
    - apply keqb_eq in E. intros [= ->]. subst. now left.
    - intros H. right. auto.
  Qed.

  Lemma in_lookup_nodup k v l : nodupk l -> In (k, v) l -> lookup k l = Some v.
  Proof.
    induction l as [|[k0 v0] t IH]; cbn [nodupk lookup In]; [tauto|].
    intros [H1 H2] [H|H].
    - injection H as -> ->. now rewrite keqb_refl.
    - destruct (keqb k k0) eqn:E.
      + apply keqb_eq in E. subst k0. rewrite (IH H2 H) in H1. discriminate.
      + auto.
  Qed.

  Lemma nodupk_app a b :
    nodupk a -> nodupk b -> (forall k, lookup k a <> None -> lookup k b = None) ->
    nodupk (a ++ b).
  Proof.
    induction a as [|[k0 v0] t IH]; cbn [app nodupk]; [auto|].
    intros [H1 H2] Hb Hd. split.
    - rewrite lookup_app, H1. apply Hd. cbn [lookup]. rewrite keqb_refl. discriminate.
    - apply IH; auto. intros k Hk. apply Hd. cbn [lookup].
      destruct (keqb k k0); [discriminate|auto].
  Qed.

  Lemma lookup_rev k l : nodupk l -> lookup k (rev l) = lookup k l.
  Proof.
    induction l as [|[k0 v0] t IH]; cbn [rev nodupk lookup]; [reflexivity|].
    intros [H1 H2]. rewrite lookup_app, (IH H2). cbn [lookup].
    destruct (keqb k k0) eqn:E.
    - apply keqb_eq in E. subst. now rewrite H1.
    - destruct (lookup k t); reflexivity.
  Qed.

  Lemma nodupk_rev l : nodupk l -> nodupk (rev l).
  Proof.
    induction l as [|[k0 v0] t IH]; cbn [rev nodupk]; [auto|].
    intros [H1 H2]. apply nodupk_app; cbn [nodupk lookup]; auto.
    intros k Hk. destruct (keqb k k0) eqn:E; [|reflexivity].
    apply keqb_eq in E. subst. rewrite (lookup_rev _ _ H2), H1 in Hk. congruence.
  Qed.

  (** ** Filtering *)

  Lemma lookup_filter p k l :
    nodupk l ->
    lookup k (filter p l) =
    match lookup k l with Some v => if p (k, v) then Some v else None | None => None end.
  Proof.
    induction l as [|[k0 v0] t IH]; cbn [filter nodupk lookup]; [reflexivity|].
    intros [H1 H2]. destruct (p (k0, v0)) eqn:Ep; cbn [lookup].
    - destruct (keqb k k0) eqn:E.
      + apply keqb_eq in E. subst. now rewrite Ep.
      + auto.
    - rewrite (IH H2). destruct (keqb k k0) eqn:E.
      + apply keqb_eq in E. subst. now rewrite H1, Ep.
      + reflexivity.
  Qed.

  Lemma nodupk_filter p l : nodupk l -> nodupk (filter p l).
  Proof.
    induction l as [|[k0 v0] t IH]; cbn [filter nodupk]; [auto|].
    intros [H1 H2]. destruct (p (k0, v0)); cbn [nodupk]; auto.
    split; auto. rewrite (lookup_filter _ _ _ H2), H1. reflexivity.
  Qed.

  (** ** Sorted lists, generically in a strict total order *)

  Section Order.
    Variable ltb : key -> key -> bool.
    Hypothesis lt_irrefl : forall a, ltb a a = false.
    Hypothesis lt_trans : forall a b c, ltb a b = true -> ltb b c = true -> ltb a c = true.
    Hypothesis lt_total : forall a b, ltb a b = false -> ltb b a = false -> a = b.
    (* every lemma of this section takes the three order laws, in this order *)
    Set Default Proof Using "lt_irrefl lt_trans lt_total".

    Definition below (k : key) (l : al) : Prop := Forall (fun p => ltb k (fst p) = true) l.

    Fixpoint sorted (l : al) : Prop :=
      match l with
      | [] => True
      | (k, _) :: t => below k t /\ sorted t
      end.

    Lemma below_lookup_none k l : below k l -> lookup k l = None.
    Proof.
      induction l as [|[k0 v0] t IH]; cbn [lookup]; [reflexivity|].
      intros H. inversion H as [|? ? Hh Ht]; subst. cbn [fst] in Hh.
      destruct (keqb k k0) eqn:E.
      - apply keqb_eq in E. subst. rewrite lt_irrefl in Hh. discriminate.
      - auto.
    Qed.

    Lemma below_trans k k' l : ltb k k' = true -> below k' l -> below k l.
    Proof.
      intros Hk H. unfold below in *. rewrite Forall_forall in *. intros p Hp.
      eapply lt_trans; eauto.
    Qed.

    Lemma sorted_nodupk l : sorted l -> nodupk l.
    Proof.
      induction l as [|[k0 v0] t IH]; cbn [sorted nodupk]; [auto|].
      intros [H1 H2]. split; auto using below_lookup_none.
    Qed.

    Lemma below_lookup_lt k l k' v : below k l -> lookup k' l = Some v -> ltb k k' = true.
    Proof.
      intros Hb Hl. apply lookup_in in Hl. unfold below in Hb. rewrite Forall_forall in Hb.
      exact (Hb _ Hl).
    Qed.

    (** A strictly sorted list is determined by its lookup function. *)
    Lemma sorted_ext a b :
      sorted a -> sorted b -> (forall k, lookup k a = lookup k b) -> a = b.
    Proof.
      revert b. induction a as [|[k1 v1] ta IH]; intros [|[k2 v2] tb]; cbn [sorted].
      - reflexivity.
      - intros _ _ H. specialize (H k2). cbn [lookup] in H. rewrite keqb_refl in H. discriminate.
      - intros _ _ H. specialize (H k1). cbn [lookup] in H. rewrite keqb_refl in H. discriminate.
      - intros [Ha1 Ha2] [Hb1 Hb2] H.
        assert (k1 = k2) as ->.
        { apply lt_total.
          - destruct (ltb k1 k2) eqn:E; [|reflexivity]. exfalso.
            pose proof (H k1) as H1. cbn [lookup] in H1. rewrite keqb_refl in H1.
            destruct (keqb k1 k2) eqn:E2.
            + apply keqb_eq in E2. subst. rewrite lt_irrefl in E. discriminate.
            + symmetry in H1. pose proof (below_lookup_lt _ _ _ _ Hb1 H1) as H3.
              assert (ltb k1 k1 = true) as X by (eapply lt_trans; eauto).
              rewrite lt_irrefl in X. discriminate.
          - destruct (ltb k2 k1) eqn:E; [|reflexivity]. exfalso.
            pose proof (H k2) as H1. cbn [lookup] in H1. rewrite keqb_refl in H1.
            destruct (keqb k2 k1) eqn:E2.
            + apply keqb_eq in E2. subst. rewrite lt_irrefl in E. discriminate.
            + pose proof (below_lookup_lt _ _ _ _ Ha1 H1) as H3.
              assert (ltb k2 k2 = true) as X by (eapply lt_trans; eauto).
              rewrite lt_irrefl in X. discriminate. }
        pose proof (H k2) as H1. cbn [lookup] in H1. rewrite keqb_refl in H1.
        injection H1 as ->. f_equal. apply IH; auto.
        intros k. specialize (H k). cbn [lookup] in H.
        destruct (keqb k k2) eqn:E; [|exact H].
        apply keqb_eq in E. subst.
        rewrite (below_lookup_none _ _ Ha1), (below_lookup_none _ _ Hb1). reflexivity.
    Qed.

    (** Sorted insertion of a new entry, and insertion sort. *)
    Fixpoint ins (x : key * V) (s : al) : al :=
      match s with
      | [] => [x]
      | y :: t => if ltb (fst x) (fst y) then x :: s else y :: ins x t
      end.

    Definition isort (l : al) : al := fold_right ins [] l.

    Lemma lookup_ins x s k :
      lookup (fst x) s = None ->
      lookup k (ins x s) = if keqb k (fst x) then Some (snd x) else lookup k s.
    Proof.
      destruct x as [kx vx]. cbn [fst snd].
      induction s as [|[k0 v0] t IH]; cbn [ins lookup fst]; [reflexivity|].
      destruct (keqb kx k0) eqn:E0; [discriminate|]. intros Hn.
      destruct (ltb kx k0); cbn [lookup].
      - reflexivity.
      - rewrite (IH Hn). destruct (keqb k k0) eqn:E; [|reflexivity].
        apply keqb_eq in E. subst. rewrite keqb_sym, E0. reflexivity.
    Qed.

    Lemma below_ins k x s : ltb k (fst x) = true -> below k s -> below k (ins x s).
    Proof.
      intros Hx. induction s as [|y t IH]; cbn [ins]; intros H.
      - constructor; auto.
      - inversion H as [|? ? Hy Ht]; subst. destruct (ltb (fst x) (fst y)).
        + constructor; [exact Hx|exact H].
        + constructor; [exact Hy|exact (IH Ht)].
    Qed.

    Lemma sorted_ins x s : sorted s -> lookup (fst x) s = None -> sorted (ins x s).
    Proof.
      destruct x as [kx vx]. cbn [fst].
      induction s as [|[k0 v0] t IH]; cbn [ins sorted lookup fst].
      - intros _ _. split; [constructor|exact I].
      - intros [H1 H2]. destruct (keqb kx k0) eqn:E0; [discriminate|]. intros Hn.
        destruct (ltb kx k0) eqn:E; cbn [sorted].
        + split; [|auto]. constructor; [exact E|]. eapply below_trans; eauto.
        + split; [|auto]. apply below_ins; [|exact H1]. cbn [fst].
          destruct (ltb k0 kx) eqn:E'; [reflexivity|].
          apply keqb_neq in E0. exfalso. apply E0. now apply lt_total.
    Qed.

    Lemma length_ins x s : length (ins x s) = S (length s).
    Proof.
      induction s as [|y t IH]; cbn [ins length]; [reflexivity|].
      destruct (ltb (fst x) (fst y)); cbn [length]; auto.
    Qed.

    Lemma length_isort l : length (isort l) = length l.
    Proof.
      induction l as [|x t IH]; cbn [isort fold_right length]; [reflexivity|].
      fold (isort t). now rewrite length_ins, IH.
    Qed.

    Lemma isort_spec l :
      nodupk l -> sorted (isort l) /\ forall k, lookup k (isort l) = lookup k l.
    Proof.
      induction l as [|[k0 v0] t IH]; cbn [isort fold_right nodupk].
      - intros _. split; [exact I|reflexivity].
      - fold (isort t). intros [H1 H2]. destruct (IH H2) as [Hs Hl].
        assert (lookup (fst (k0, v0)) (isort t) = None) as Hn by (cbn [fst]; now rewrite Hl).
        split.
        + apply sorted_ins; auto.
        + intros k. rewrite (lookup_ins _ _ _ Hn). cbn [fst snd lookup].
          destruct (keqb k k0); auto.
    Qed.

    Lemma sorted_isort l : nodupk l -> sorted (isort l).
    Proof. intros H. exact (proj1 (isort_spec l H)). Qed.

    Lemma lookup_isort l k : nodupk l -> lookup k (isort l) = lookup k l.
    Proof. intros H. exact (proj2 (isort_spec l H) k). Qed.

    Lemma isort_sorted_id s : sorted s -> isort s = s.
    Proof.
      intros H. apply sorted_ext; auto.
      - apply sorted_isort. now apply sorted_nodupk.
      - intros k. apply lookup_isort. now apply sorted_nodupk.
    Qed.

    (** Reference-map update: replace, or insert at the sorted position. *)
    Fixpoint sput (k : key) (v : V) (s : al) : al :=
      match s with
      | [] => [(k, v)]
      | (k', v') :: t =>
          if keqb k k' then (k, v) :: t
          else if ltb k k' then (k, v) :: s
          else (k', v') :: sput k v t
      end.

    Lemma lookup_sput k v s k' :
      lookup k' (sput k v s) = if keqb k' k then Some v else lookup k' s.
    Proof.
      induction s as [|[k0 v0] t IH]; cbn [sput lookup]; [reflexivity|].
      destruct (keqb k k0) eqn:E; cbn [lookup].
      - apply keqb_eq in E. subst k0. destruct (keqb k' k); reflexivity.
      - destruct (ltb k k0); cbn [lookup].
        + reflexivity.
        + rewrite IH. destruct (keqb k' k0) eqn:E0; [|reflexivity].
          apply keqb_eq in E0. subst. rewrite keqb_sym, E. reflexivity.
    Qed.

    Lemma below_sput k0 k v s : ltb k0 k = true -> below k0 s -> below k0 (sput k v s).
    Proof.
      intros Hk. induction s as [|[k1 v1] t IH]; cbn [sput]; intros H.
      - repeat constructor; auto.
      - inversion H as [|? ? Hy Ht]; subst. destruct (keqb k k1); [|destruct (ltb k k1)].
        + constructor; [exact Hk|exact Ht].
        + constructor; [exact Hk|exact H].
        + constructor; [exact Hy|exact (IH Ht)].
    Qed.

    Lemma sorted_sput k v s : sorted s -> sorted (sput k v s).
    Proof.
      induction s as [|[k0 v0] t IH]; cbn [sput sorted].
      - intros _. split; [constructor|exact I].
      - intros [H1 H2]. destruct (keqb k k0) eqn:E.
        + apply keqb_eq in E. subst. cbn [sorted]. auto.
        + destruct (ltb k k0) eqn:El; cbn [sorted].
          * split; [|auto]. constructor; [exact El|]. eapply below_trans; eauto.
          * split; [|auto]. apply below_sput; auto.
            destruct (ltb k0 k) eqn:E'; [reflexivity|].
            apply keqb_neq in E. exfalso. apply E. now apply lt_total.
    Qed.

    Lemma below_del k0 k s : below k0 s -> below k0 (del k s).
    Proof.
      induction s as [|[k1 v1] t IH]; cbn [del]; intros H; [constructor|].
      inversion H as [|? ? Hy Ht]; subst. destruct (keqb k k1); [exact (IH Ht)|].
      constructor; [exact Hy|exact (IH Ht)].
    Qed.

    Lemma sorted_del k s : sorted s -> sorted (del k s).
    Proof.
      induction s as [|[k0 v0] t IH]; cbn [del sorted]; [auto|].
      intros [H1 H2]. destruct (keqb k k0); cbn [sorted]; auto using below_del.
    Qed.

    Lemma below_filter p k0 s : below k0 s -> below k0 (filter p s).
    Proof. unfold below. rewrite !Forall_forall. intros H x Hx. apply filter_In in Hx. apply H, Hx. Qed.

    Lemma sorted_filter p s : sorted s -> sorted (filter p s).
    Proof.
      induction s as [|[k0 v0] t IH]; cbn [filter sorted]; [auto|].
      intros [H1 H2]. destruct (p (k0, v0)); cbn [sorted]; auto using below_filter.
    Qed.

    (** The three commutation facts the refinement proofs use. *)
    Lemma isort_upd k v l : nodupk l -> isort (upd k v l) = sput k v (isort l).
    Proof.
      intros H. apply sorted_ext.
      - apply sorted_isort, nodupk_upd, H.
      - apply sorted_sput, sorted_isort, H.
      - intros k'. rewrite lookup_isort by (apply nodupk_upd, H).
        rewrite lookup_upd, lookup_sput, lookup_isort by exact H. reflexivity.
    Qed.

    Lemma isort_del k l : nodupk l -> isort (del k l) = del k (isort l).
    Proof.
      intros H. apply sorted_ext.
      - apply sorted_isort, nodupk_del, H.
      - apply sorted_del, sorted_isort, H.
      - intros k'. rewrite lookup_isort by (apply nodupk_del, H).
        rewrite !lookup_del, lookup_isort by exact H. reflexivity.
    Qed.

    Lemma isort_filter p l : nodupk l -> isort (filter p l) = filter p (isort l).
    Proof.
      intros H. apply sorted_ext.
      - apply sorted_isort, nodupk_filter, H.
      - apply sorted_filter, sorted_isort, H.
      - intros k'. rewrite lookup_isort by (apply nodupk_filter, H).
        rewrite !lookup_filter by (auto using sorted_nodupk, sorted_isort).
        rewrite lookup_isort by exact H. reflexivity.
    Qed.

    (** Sorting keys alone (what the Go code does) agrees with sorting entries. *)
    Fixpoint kins (x : key) (s : list key) : list key :=
      match s with
      | [] => [x]
      | y :: t => if ltb x y then x :: s else y :: kins x t
      end.
    Definition ksort (l : list key) : list key := fold_right kins [] l.

    Lemma map_fst_ins x s : map fst (ins x s) = kins (fst x) (map fst s).
    Proof.
      induction s as [|y t IH]; cbn [ins kins map]; [reflexivity|].
      destruct (ltb (fst x) (fst y)); cbn [map]; congruence.
    Qed.

    Lemma map_fst_isort l : map fst (isort l) = ksort (map fst l).
    Proof.
      induction l as [|x t IH]; cbn [isort ksort fold_right map]; [reflexivity|].
      fold (isort t). fold (ksort (map fst t)). now rewrite map_fst_ins, IH.
    Qed.
  End Order.
  Unset Default Proof Using.
End AList.

(** Descending sort is the reverse of ascending sort (distinct keys). *)
Section Desc.
  Context {V : Type}.

  Lemma sorted_app_last (ltb : key -> key -> bool) (a : list (key * V)) k v :
    sorted ltb a -> Forall (fun p => ltb (fst p) k = true) a -> sorted ltb (a ++ [(k, v)]).
  Proof.
    induction a as [|[k0 v0] t IH]; cbn [app sorted].
    - intros _ _. split; [constructor|exact I].
    - intros [H1 H2] H. inversion H as [|? ? Hh Ht]; subst. split; auto.
      apply Forall_app. split; [exact H1|]. constructor; [exact Hh|constructor].
  Qed.

  Lemma sorted_rev_gt (s : list (key * V)) : sorted kltb s -> sorted kgtb (rev s).
  Proof.
    induction s as [|[k0 v0] t IH]; cbn [rev sorted]; [auto|].
    intros [H1 H2]. apply sorted_app_last; auto.
    apply Forall_rev. unfold below in H1. rewrite Forall_forall in *.
    intros p Hp. unfold kgtb. auto.
  Qed.

  Lemma isort_desc (l : list (key * V)) :
    nodupk l -> isort kgtb l = rev (isort kltb l).
  Proof.
    intros H.
    pose proof (sorted_isort kltb kltb_irrefl kltb_trans kltb_total l H) as Hs.
    apply (sorted_ext kgtb kgtb_irrefl kgtb_trans kgtb_total).
    - apply (sorted_isort kgtb kgtb_irrefl kgtb_trans kgtb_total), H.
    - apply sorted_rev_gt, Hs.
    - intros k. rewrite (lookup_isort kgtb kgtb_irrefl kgtb_trans kgtb_total) by exact H.
      rewrite lookup_rev by (exact (sorted_nodupk kltb kltb_irrefl kltb_trans kltb_total _ Hs)).
      now rewrite (lookup_isort kltb kltb_irrefl kltb_trans kltb_total).
  Qed.
End Desc.
