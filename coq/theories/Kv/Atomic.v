(** C06: the pisces backends under concurrency.

    Part A - memory backend: every memKV method as a call of Lib/Sched.v made
    of micro-steps (one per access to the shared map / entry / user callback,
    in the order of the source), under the lock the source takes.  Executed
    alone, a call is exactly [mem_step] of C05 ([mem_call_seq]); the
    reduction theorem of Sched.v then gives atomicity for all schedules.

    Part B - SQL backends: statements are atomic; [mutate] is a transaction
    (select; callback; update; commit) under SQLite's lock ladder, where any
    lock request may be refused with SQLITE_BUSY. *)
From Coq Require Import List Arith NArith Bool String Lia.
From Verif Require Import Lib.Sched Kv.KeyOrd Kv.AList Kv.Spec Kv.Mem Kv.Sql Kv.Skel Kv.Refine.
Import ListNotations.

(** * Part A: memKV *)

Record loc := mkLoc {
  l_ent : option entry;            (* entry := b.m[k] *)
  l_new : option mres;             (* result of the user callback *)
  l_keys : option (list key);      (* keys collected by a walk (None: slice panic) *)
  l_res : result
}.

Definition loc0 : loc := mkLoc None None None RUnit.

Definition set_ent (l : loc) e := mkLoc e (l_new l) (l_keys l) (l_res l).
Definition set_new (l : loc) n := mkLoc (l_ent l) n (l_keys l) (l_res l).
Definition set_keys (l : loc) ks := mkLoc (l_ent l) (l_new l) ks (l_res l).
Definition set_res (l : loc) r := mkLoc (l_ent l) (l_new l) (l_keys l) r.

Notation wst := (wstep table loc).
Notation rst := (rstep table loc).

(** entry := b.m[k] *)
Definition read_map (k : key) : rst := fun l m => set_ent l (lookup k m).

(** Micro-steps of the writer methods, each tagged with the source actions
    it stands for. *)
Definition mem_wsteps (o : bop) : list (list act * wst) :=
  match o with
  | BClear => [([AWriteMap], fun l _ => (l, []))]
  | BAdd k c v =>
      [([AReadMap], lift _ _ (read_map k));
       ([AWriteMap], fun l m =>
          match l_ent l with
          | Some _ => (set_res l (RErr EExists), m)
          | None => (l, upd k (c, v) m)
          end)]
  | BSet k v =>
      [([AReadMap], lift _ _ (read_map k));
       ([AWriteEntry], fun l m =>
          match l_ent l with
          | Some (c, _) => (l, upd k (c, v) m)
          | None => (set_res l (RErr ENotFound), m)
          end)]
  | BSetClass k c =>
      [([AReadMap], lift _ _ (read_map k));
       ([AWriteEntry], fun l m =>
          match l_ent l with
          | Some (_, v) => (l, upd k (c, v) m)
          | None => (set_res l (RErr ENotFound), m)
          end)]
  | BRemove k =>
      [([AReadMap], lift _ _ (read_map k));
       ([AWriteMap], fun l m =>
          match l_ent l with
          | Some _ => (l, del k m)
          | None => (set_res l (RErr ENotFound), m)
          end)]
  | BEmplace k c v =>
      [([AReadMap], lift _ _ (read_map k));
       ([AWriteMap], fun l m =>
          match l_ent l with
          | Some _ => (l, m)
          | None => (l, upd k (c, v) m)
          end)]
  | BReplace k c v =>
      [([AReadMap], lift _ _ (read_map k));
       ([AWriteMap], fun l m =>
          match l_ent l with Some _ => (l, m) | None => (l, upd k (c, v) m) end);
       ([AWriteEntry], fun l m =>
          match l_ent l with Some (c0, _) => (l, upd k (c0, v) m) | None => (l, m) end)]
  | BAppend k v =>
      [([AReadMap], lift _ _ (read_map k));
       ([AWriteMap], fun l m =>
          match l_ent l with Some _ => (l, m) | None => (l, upd k ([], v) m) end);
       ([AWriteEntry], fun l m =>
          match l_ent l with Some (c0, v0) => (l, upd k (c0, v0 ++ v) m) | None => (l, m) end)]
  | BMutate k f =>
      [([AReadMap], lift _ _ (read_map k));
       ([AReadEntry; ACallUser], fun l m =>
          match l_ent l with
          | Some (_, v) => (set_new l (Some (f v)), m)
          | None => (set_res l (RErr ENotFound), m)
          end);
       ([AWriteEntry], fun l m =>
          match l_ent l, l_new l with
          | Some (c, _), Some (MSet v') => (l, upd k (c, v') m)
          | Some _, Some (MFail e) => (set_res l (RErr e), m)
          | _, _ => (l, m)
          end)]
  | BCount => [([AReadMap], fun l m => (set_res l (RCount (lenN m)), m))]
  | _ => []
  end.

(** Micro-steps of the reader methods. *)
Definition mem_rsteps (o : bop) : list (list act * rst) :=
  match o with
  | BGet k =>
      [([AReadMap], read_map k);
       ([AReadEntry], fun l _ =>
          match l_ent l with
          | Some (_, v) => set_res l (RBytes v)
          | None => set_res l (RErr ENotFound)
          end)]
  | BHas k =>
      [([AReadMap], fun l m =>
          set_res l (RBool (match lookup k m with Some _ => true | None => false end)))]
  | BWalk f =>
      [([AReadMap], fun l m => set_keys l (Some (sort_keys false (mem_keys m))));
       ([AReadMap; AReadEntry; AReadEntry; ACallUser], fun l m => set_res l (mem_walk f m (l_keys l)))]
  | BWalkClass c f =>
      [([AReadMap; AReadEntry], fun l m => set_keys l (Some (sort_keys false (mem_class_keys c m))));
       ([AReadMap; AReadEntry; AReadEntry; ACallUser], fun l m => set_res l (mem_walk f m (l_keys l)))]
  | BWalkPartial off n desc f =>
      [([AReadMap], fun l m => set_keys l (partial_keys off n (sort_keys desc (mem_keys m))));
       ([AReadMap; AReadEntry; AReadEntry; ACallUser], fun l m => set_res l (mem_walk f m (l_keys l)))]
  | BWalkPartialClass c off n desc f =>
      [([AReadMap; AReadEntry],
        fun l m => set_keys l (partial_keys off n (sort_keys desc (mem_class_keys c m))));
       ([AReadMap; AReadEntry; AReadEntry; ACallUser], fun l m => set_res l (mem_walk f m (l_keys l)))]
  | _ => []
  end.

(** Which lock the method takes: RLock for these, Lock for all others
    (including count). *)
Definition mem_is_reader (o : bop) : bool :=
  match o with
  | BGet _ | BHas _ | BWalk _ | BWalkClass _ _ | BWalkPartial _ _ _ _
  | BWalkPartialClass _ _ _ _ _ => true
  | _ => false
  end.

Definition mcall := Sched.call table loc result.

Definition mem_call (o : bop) : mcall :=
  if mem_is_reader o then RCall (map snd (mem_rsteps o)) loc0 l_res
  else WCall (map snd (mem_wsteps o)) loc0 l_res.

(** The call executed alone is the sequential model of C05. *)
Lemma mem_call_seq o m : seq_call _ _ _ (mem_call o) m = mem_step m o.
Proof.
  destruct o; unfold seq_call, mem_call; cbn; unfold read_map, lift; cbn;
    try (destruct (lookup k m) as [[c0 v0]|] eqn:E; cbn; rewrite ?E; cbn); try reflexivity.
  destruct (f v0); cbn; rewrite ?E; reflexivity.
Qed.

Lemma mem_call_locked o : call_mode _ _ _ (mem_call o) <> MU.
Proof. unfold mem_call. destruct (mem_is_reader o); cbn; discriminate. Qed.

(** ** Tie to the source: the skeleton of every method *)

Local Open Scope string_scope.

Definition method_of (o : bop) : string :=
  match o with
  | BClear => "clear" | BAdd _ _ _ => "add" | BGet _ => "get" | BHas _ => "has"
  | BSet _ _ => "set" | BSetClass _ _ => "setClass" | BMutate _ _ => "mutate"
  | BRemove _ => "remove" | BEmplace _ _ _ => "emplace" | BReplace _ _ _ => "replace"
  | BAppend _ _ => "appendBytes" | BWalk _ => "walk" | BWalkClass _ _ => "walkClass"
  | BWalkPartial _ _ _ _ => "walkPartial" | BWalkPartialClass _ _ _ _ _ => "walkPartialClass"
  | BCount => "count"
  end.

(** lock prefix + data actions the model gives to a method *)
Definition model_skeleton (o : bop) : list act :=
  if mem_is_reader o then ARLock :: ADeferRUnlock :: List.concat (map fst (mem_rsteps o))
  else ALock :: ADeferUnlock :: List.concat (map fst (mem_wsteps o)).

Definition act_eqb (a b : act) : bool :=
  match a, b with
  | ALock, ALock | ARLock, ARLock | AUnlock, AUnlock | ARUnlock, ARUnlock
  | ADeferUnlock, ADeferUnlock | ADeferRUnlock, ADeferRUnlock
  | AReadMap, AReadMap | AWriteMap, AWriteMap | AReadEntry, AReadEntry
  | AWriteEntry, AWriteEntry | ACallUser, ACallUser => true
  | _, _ => false
  end.

Fixpoint acts_eqb (a b : list act) : bool :=
  match a, b with
  | [], [] => true
  | x :: a', y :: b' => act_eqb x y && acts_eqb a' b'
  | _, _ => false
  end.

Fixpoint assoc_skel (name : string) (l : list (string * list act)) : option (list act) :=
  match l with
  | [] => None
  | (n, s) :: t => if String.eqb n name then Some s else assoc_skel name t
  end.

(** One representative call per method (the skeleton does not depend on the
    arguments: [model_skeleton_args]). *)
Definition noop_walk : walkfn := fun _ _ _ => None.
Definition sample_ops : list bop :=
  [BClear; BAdd [] [] []; BGet []; BHas []; BSet [] []; BSetClass [] [];
   BMutate [] (fun _ => MFail EUser); BRemove []; BEmplace [] [] []; BReplace [] [] [];
   BAppend [] []; BWalk noop_walk; BWalkClass [] noop_walk; BWalkPartial 0 0 false noop_walk;
   BWalkPartialClass [] 0 0 false noop_walk; BCount].

Lemma model_skeleton_args o :
  exists s, In s sample_ops /\ method_of s = method_of o /\ model_skeleton s = model_skeleton o.
Proof.
  destruct o;
    match goal with
    | |- exists s, _ /\ method_of s = ?m /\ _ =>
        first
          [ exists BClear; split; [cbn; tauto|split; reflexivity]
          | exists (BAdd [] [] []); split; [cbn; tauto|split; reflexivity]
          | exists (BGet []); split; [cbn; tauto|split; reflexivity]
          | exists (BHas []); split; [cbn; tauto|split; reflexivity]
          | exists (BSet [] []); split; [cbn; tauto|split; reflexivity]
          | exists (BSetClass [] []); split; [cbn; tauto|split; reflexivity]
          | exists (BMutate [] (fun _ => MFail EUser)); split; [cbn; tauto|split; reflexivity]
          | exists (BRemove []); split; [cbn; tauto|split; reflexivity]
          | exists (BEmplace [] [] []); split; [cbn; tauto|split; reflexivity]
          | exists (BReplace [] [] []); split; [cbn; tauto|split; reflexivity]
          | exists (BAppend [] []); split; [cbn; tauto|split; reflexivity]
          | exists (BWalk noop_walk); split; [cbn; tauto|split; reflexivity]
          | exists (BWalkClass [] noop_walk); split; [cbn; tauto|split; reflexivity]
          | exists (BWalkPartial 0 0 false noop_walk); split; [cbn; tauto|split; reflexivity]
          | exists (BWalkPartialClass [] 0 0 false noop_walk); split; [cbn; tauto|split; reflexivity]
          | exists BCount; split; [cbn; tauto|split; reflexivity] ]
    end.
Qed.

(** The generated skeletons are the ones the model executes. *)
Definition skeletons_matchb (gen : list (string * list act)) : bool :=
  forallb (fun o =>
    match assoc_skel (method_of o) gen with
    | Some s => acts_eqb s (model_skeleton o)
    | None => false
    end) sample_ops.

(** Independent of the model: the locking discipline of a skeleton.  The
    lock is taken first and released by a defer; nothing else touches the
    lock; a method under the shared lock writes neither map nor entries. *)
Definition data_onlyb (reader : bool) (a : act) : bool :=
  match a with
  | AReadMap | AReadEntry | ACallUser => true
  | AWriteMap | AWriteEntry => negb reader
  | _ => false
  end.

Definition well_lockedb (s : list act) : bool :=
  match s with
  | ALock :: ADeferUnlock :: rest => forallb (data_onlyb false) rest
  | ARLock :: ADeferRUnlock :: rest => forallb (data_onlyb true) rest
  | _ => false
  end.

Definition all_well_lockedb (gen : list (string * list act)) : bool :=
  forallb (fun ns => well_lockedb (snd ns)) gen.

Local Close Scope string_scope.

(** ** Atomicity of the memory backend, for all schedules *)

Lemma seq_run_mem ops m : seq_run _ _ _ m (map mem_call ops) = run mem_step m ops.
Proof.
  revert m. induction ops as [|o t IH]; intros m; cbn [map seq_run run]; [reflexivity|].
  rewrite mem_call_seq. destruct (mem_step m o) as [m1 r]. cbn [fst snd].
  rewrite IH. destruct (run mem_step m1 t). reflexivity.
Qed.

Lemma forall_exists_map {A B} (P : A -> Prop) (f : A -> B) (l : list B) :
  Forall (fun b => exists a, P a /\ b = f a) l -> exists la, Forall P la /\ l = map f la.
Proof.
  induction 1 as [|b l [a [Ha ->]] _ [la [Hla ->]]]; [now exists []|].
  exists (a :: la). split; [now constructor|reflexivity].
Qed.

Definition mem_prog (bprog : tid -> list bop) : tid -> list mcall :=
  fun i => map mem_call (bprog i).

Notation mreachable := (Sched.reachable table loc result).
Notation minit := (Sched.init table loc result).
Notation mdone := (Sched.done table loc result).
Notation mcalls := (Sched.calls_of table loc result).
Notation mresults := (Sched.results_of table loc result).
Notation msh := (Sched.sh table loc result).
Notation mths := (Sched.ths table loc result).
Notation mholds := (Sched.holds table loc result).

Lemma mem_prog_locked bprog j c : In c (mem_prog bprog j) -> call_mode _ _ _ c <> MU.
Proof.
  unfold mem_prog. intros H. apply in_map_iff in H. destruct H as [o [<- _]]. apply mem_call_locked.
Qed.

Definition in_prog (bprog : tid -> list bop) (o : bop) : Prop := exists i, In o (bprog i).

Lemma done_calls_from_prog bprog m0 cfg :
  mreachable (minit (mem_prog bprog) m0) cfg ->
  exists ops, Forall (in_prog bprog) ops /\ mcalls (mdone cfg) = map mem_call ops.
Proof.
  intros Hr. apply forall_exists_map. apply Forall_forall. intros c Hc.
  unfold Sched.calls_of in Hc. apply in_map_iff in Hc. destruct Hc as [[[i c'] r] [Hc Hin]].
  cbn [fst snd] in Hc. subst c'.
  pose proof (program_order _ _ _ _ _ _ Hr i) as Hp.
  assert (In c (mem_prog bprog i)) as Hi.
  { rewrite Hp. apply in_or_app. left. unfold thread_done, Sched.calls_of.
    apply in_map_iff. exists (i, c, r). split; [reflexivity|].
    apply filter_In. split; [exact Hin|]. cbn [fst]. apply Nat.eqb_refl. }
  unfold mem_prog in Hi. apply in_map_iff in Hi. destruct Hi as [o [<- Ho]].
  exists o. split; [now exists i|reflexivity].
Qed.

(** Any number of goroutines, any programs, any interleaving: the calls that
    have returned are, in return order, the calls of operations of the
    programs whose sequential run from the initial map yields exactly the
    returned results and (no writer inside its critical section) the current
    map. *)
Theorem mem_atomic bprog m0 cfg :
  mreachable (minit (mem_prog bprog) m0) cfg ->
  exists ops,
    Forall (in_prog bprog) ops /\
    mcalls (mdone cfg) = map mem_call ops /\
    snd (run mem_step m0 ops) = mresults (mdone cfg) /\
    ((forall j, ~ mholds MW (mths cfg j)) -> msh cfg = fst (run mem_step m0 ops)).
Proof.
  intros Hr. destruct (done_calls_from_prog bprog m0 cfg Hr) as [ops [Hin Hops]].
  exists ops. split; [exact Hin|]. split; [exact Hops|].
  destruct (rw_linearizable _ _ _ _ m0 cfg (mem_prog_locked bprog) Hr) as [H1 H2].
  rewrite Hops, seq_run_mem in H1, H2. auto.
Qed.

(** ... and hence of the reference map of C05. *)
Theorem mem_atomic_spec bprog m0 cfg :
  mreachable (minit (mem_prog bprog) m0) cfg ->
  nodupk m0 ->
  (forall i, forallb bop_okb (bprog i) = true) ->
  exists ops,
    Forall (in_prog bprog) ops /\
    mcalls (mdone cfg) = map mem_call ops /\
    snd (run spec_step (abs m0) ops) = mresults (mdone cfg) /\
    ((forall j, ~ mholds MW (mths cfg j)) ->
     nodupk (msh cfg) /\ abs (msh cfg) = fst (run spec_step (abs m0) ops)).
Proof.
  intros Hr Hn Hok. destruct (mem_atomic bprog m0 cfg Hr) as (ops & H0 & H1 & H2 & H3).
  exists ops. split; [exact H0|]. split; [exact H1|].
  assert (forallb bop_okb ops = true) as Hops.
  { apply forallb_forall. intros o Ho. rewrite Forall_forall in H0.
    destruct (H0 o Ho) as [i Hi]. exact (proj1 (forallb_forall _ _) (Hok i) o Hi). }
  destruct (run_refines mem_step mem_step_refines ops m0 Hn Hops) as (H6 & H4 & H5).
  split; [congruence|]. intros Hq. rewrite (H3 Hq). split; [exact H6|exact H4].
Qed.
