(** Correspondence evaluator for C05: the histories the harness ran on the
    real backends are replayed on the backend model (Mem.v / Sql.v with the
    generated statement table) and on the reference map, through the KV
    wrapper model, and compared with the observed results. *)
From Coq Require Import List NArith Bool String.
From Verif Require Import Kv.KeyOrd Kv.AList Kv.Spec Kv.Mem Kv.Sql Kv.Tables Gen.KvSql.
Import ListNotations.
Local Open Scope N_scope.

(** ** Executable instance of the JSON-validity predicate
    (encoding/json without white space, escapes, fractions and exponents:
    the alphabet the harness generates).  The theorems are parametric in it. *)

Definition is_digit (c : N) : bool := (48 <=? c) && (c <=? 57).

Fixpoint skip_digits (s : bytes) : bytes :=
  match s with
  | c :: r => if is_digit c then skip_digits r else s
  | [] => []
  end.

(** after an optional '-' *)
Definition jint (s : bytes) : option bytes :=
  match s with
  | 48 :: r => Some r
  | c :: r => if is_digit c then Some (skip_digits r) else None
  | [] => None
  end.

(** after the opening quote *)
Fixpoint jstr (s : bytes) : option bytes :=
  match s with
  | [] => None
  | 34 :: r => Some r
  | c :: r => if (c <? 32) || (c =? 92) then None else jstr r
  end.

Fixpoint jval (fuel : nat) (s : bytes) : option bytes :=
  match fuel with
  | O => None
  | S n =>
      match s with
      | 34 :: r => jstr r
      | 116 :: 114 :: 117 :: 101 :: r => Some r
      | 102 :: 97 :: 108 :: 115 :: 101 :: r => Some r
      | 110 :: 117 :: 108 :: 108 :: r => Some r
      | 91 :: 93 :: r => Some r
      | 91 :: r =>
          (fix elems (m : nat) (s : bytes) : option bytes :=
             match m with
             | O => None
             | S m' =>
                 match jval n s with
                 | Some (44 :: r') => elems m' r'
                 | Some (93 :: r') => Some r'
                 | _ => None
                 end
             end) n r
      | 123 :: 125 :: r => Some r
      | 123 :: r =>
          (fix members (m : nat) (s : bytes) : option bytes :=
             match m with
             | O => None
             | S m' =>
                 match s with
                 | 34 :: s1 =>
                     match jstr s1 with
                     | Some (58 :: s2) =>
                         match jval n s2 with
                         | Some (44 :: r') => members m' r'
                         | Some (125 :: r') => Some r'
                         | _ => None
                         end
                     | _ => None
                     end
                 | _ => None
                 end
             end) n r
      | 45 :: r => jint r
      | _ => jint s
      end
  end.

Definition json_ok (s : bytes) : bool :=
  match jval (S (List.length s)) s with
  | Some [] => true
  | _ => false
  end.

(** ** Mutate callbacks used by the harness *)

Fixpoint inc_rev (l : bytes) : bytes :=
  match l with
  | [] => [49]
  | d :: t => if d =? 57 then 48 :: inc_rev t else (d + 1) :: t
  end.

Definition incr_dec (bs : bytes) : option bytes :=
  match bs with
  | [] => None
  | _ => if forallb is_digit bs
         then Some (rev_append (inc_rev (rev_append bs [])) [])   (* linear; [rev] is quadratic *)
         else None
  end.

Definition mf_ok (v : bytes) : bytes -> mres := fun _ => MSet v.
Definition mf_err : bytes -> mres := fun _ => MFail EUser.
Definition mf_cancel : bytes -> mres := fun _ => MFail ECancel.
Definition mf_incr : bytes -> mres :=
  fun bs => match incr_dec bs with Some b => MSet b | None => MFail EUser end.
(** the function changed its argument and then returned an error / ErrCancel:
    what it did to the argument is dropped ([mf_err], [mf_cancel]); it left a
    value json.Marshal refuses; it panicked (the harness recovers its own
    panic value and records it as such) *)
Definition mf_bad : bytes -> mres := fun _ => MFail EDecode.
Definition mf_panic : bytes -> mres := fun _ => MFail EPanic.

(** Set-valued entries: the JSON object {"a":1,"c":1} over one-letter keys,
    as json.Marshal prints a map[string]int or a struct of omitempty int
    fields (keys sorted).  A Mutate that adds or removes an element, as a
    function of the stored bytes: what the function is shown is the stored
    value and nothing else. *)
Fixpoint set_members (fuel : nat) (s : bytes) : option (list N) :=
  match fuel with
  | O => None
  | S n =>
      match s with
      | [34; c; 34; 58; 49; 125] => Some [c]
      | 34 :: c :: 34 :: 58 :: 49 :: 44 :: r =>
          match set_members n r with Some l => Some (c :: l) | None => None end
      | _ => None
      end
  end.

Definition set_parse (s : bytes) : option (list N) :=
  match s with
  | [123; 125] => Some []
  | 123 :: r => set_members (List.length r) r
  | _ => None
  end.

Fixpoint set_print_members (l : list N) : bytes :=
  match l with
  | [] => [125]
  | [c] => [34; c; 34; 58; 49; 125]
  | c :: t => [34; c; 34; 58; 49; 44] ++ set_print_members t
  end.

Definition set_print (l : list N) : bytes := 123 :: set_print_members l.

Fixpoint set_ins (c : N) (l : list N) : list N :=
  match l with
  | [] => [c]
  | x :: t => if c =? x then l else if c <? x then c :: l else x :: set_ins c t
  end.

Definition set_rem (c : N) (l : list N) : list N := filter (fun x => negb (x =? c)) l.

Definition mf_sadd (c : N) : bytes -> mres :=
  fun bs => match set_parse bs with Some l => MSet (set_print (set_ins c l)) | None => MFail EOther end.
Definition mf_sdel (c : N) : bytes -> mres :=
  fun bs => match set_parse bs with Some l => MSet (set_print (set_rem c l)) | None => MFail EOther end.

(** ** Comparison *)

Definition bytes_eqb (a b : bytes) : bool := keqb a b.

Fixpoint list_eqb {A} (eqb : A -> A -> bool) (a b : list A) : bool :=
  match a, b with
  | [], [] => true
  | x :: a', y :: b' => eqb x y && list_eqb eqb a' b'
  | _, _ => false
  end.

Definition entry_eqb (a b : entry) : bool :=
  bytes_eqb (fst a) (fst b) && bytes_eqb (snd a) (snd b).

Definition oerr_eqb (a b : option err) : bool :=
  match a, b with
  | None, None => true
  | Some x, Some y => err_eqb x y
  | _, _ => false
  end.

Definition result_eqb (a b : result) : bool :=
  match a, b with
  | RUnit, RUnit => true
  | RErr x, RErr y => err_eqb x y
  | RBytes x, RBytes y => bytes_eqb x y
  | RBool x, RBool y => Bool.eqb x y
  | RCount x, RCount y => x =? y
  | RWalk i x, RWalk j y => list_eqb entry_eqb i j && oerr_eqb x y
  | _, _ => false
  end.

Fixpoint repN (b : N) (n : nat) : bytes :=
  match n with O => [] | S n' => b :: repN b n' end.
Definition rep (b n : N) : bytes := repN b (N.to_nat n).

(** hashutil.HashStr as the table the harness computed with the real code *)
Fixpoint hk_fun (tbl : list (key * key)) (k : key) : key :=
  match tbl with
  | [] => [0]      (* not a hex digest: any use shows up as a mismatch *)
  | (a, h) :: t => if keqb k a then h else hk_fun t k
  end.

Inductive store := StMem | StSql.

Inductive ccase :=
| CHist (st : store) (ordered : bool) (hk : list (key * key)) (ops : list uop)
        (expect : list result)
    (* histories inside the statement: the backend model and the reference map *)
| CModel (st : store) (ordered : bool) (hk : list (key * key)) (ops : list uop)
         (expect : list result)
    (* observations outside the statement (offsets / limits >= 2^63): the backend model only *)
| CMulti (st : store) (hs : list hdesc) (slots : nat) (hk : list (key * key)) (ops : list lop)
         (expect : list result).
    (* several handles over table slots (pisces.Tables), with the table life
       cycle: the backend model and the reference maps, lifted by Kv/Tables.v *)

Definition backend_step (st : store) : table -> bop -> table * result :=
  match st with
  | StMem => mem_step
  | StSql => sql_step gen_sqlite_methods
  end.

Definition model_results (st : store) (ordered : bool) hk (ops : list uop) : list result :=
  snd (run (kv_step gen_max_key_len ordered (hk_fun hk) json_ok (backend_step st)) [] ops).

Definition spec_results (ordered : bool) hk (ops : list uop) : list result :=
  snd (run (kv_step gen_max_key_len ordered (hk_fun hk) json_ok spec_step) [] ops).

Definition persistent_of (st : store) : bool :=
  match st with StMem => false | StSql => true end.

Definition multi_results (bstep : table -> bop -> table * result) (st : store) hs slots hk
  (ops : list lop) : list result :=
  snd (run (l_step gen_max_key_len (hk_fun hk) json_ok bstep (persistent_of st) hs)
           (init_state (persistent_of st) slots) ops).

Definition check_case (c : ccase) : bool :=
  match c with
  | CHist st ordered hk ops expect =>
      list_eqb result_eqb (model_results st ordered hk ops) expect &&
      list_eqb result_eqb (spec_results ordered hk ops) expect
  | CModel st ordered hk ops expect =>
      list_eqb result_eqb (model_results st ordered hk ops) expect
  | CMulti st hs slots hk ops expect =>
      list_eqb result_eqb (multi_results (backend_step st) st hs slots hk ops) expect &&
      list_eqb result_eqb (multi_results spec_step st hs slots hk ops) expect
  end.

Fixpoint mismatches_from (i : nat) (cs : list ccase) : list nat :=
  match cs with
  | [] => []
  | c :: r => if check_case c then mismatches_from (S i) r
              else i :: mismatches_from (S i) r
  end.

Definition mismatches (cs : list ccase) : list nat := mismatches_from 0 cs.

(** Index of the first disagreeing call of a case (for the replay report). *)
Fixpoint first_diff (i : nat) (a b : list result) : option nat :=
  match a, b with
  | [], [] => None
  | x :: a', y :: b' => if result_eqb x y then first_diff (S i) a' b' else Some i
  | _, _ => Some i
  end.
