(** Who owns the bytes: the memory backend over a heap of buffers.

    Kv/Mem.v treats values as mathematical byte strings.  In Go a []byte is a
    reference: the slice a caller passes to SetBytes / AppendBytes, the slice
    GetBytes returns, the slice a Mutate function is shown or returns are
    memory that the caller goes on using (a recycled scratch buffer, a page it
    sub-slices).  The statement of the property - results and contents are
    those of a reference map - only holds if the store's contents depend on
    the history of calls alone, i.e. if mem_entry.go copies at every point
    where bytes cross the boundary.  This file models the memory backend with
    explicit buffers, parameterised by what each of those points does
    ([copies]; the translator reads them off mem_entry.go, Gen/KvMemOwn.v),
    and lets the caller overwrite any buffer it passed in or was given
    between any two calls.  Definitions only; the theorems are in
    Kv/OwnProofs.v. *)
From Coq Require Import List NArith Bool.
From Verif Require Import Kv.KeyOrd Kv.AList Kv.Spec Kv.Mem.
Import ListNotations.

Notation buf := nat (only parsing).
Definition heap := list bytes.             (* buffer id = position *)

Definition hget (h : heap) (b : buf) : bytes := nth b h [].

Fixpoint hset (h : heap) (b : buf) (v : bytes) : heap :=
  match b, h with
  | O, _ :: t => v :: t
  | S b', x :: t => x :: hset t b' v
  | _, [] => []
  end.

(** What the four functions of mem_entry.go do with the slices they are
    given / give out. *)
Record copies := mkCopies {
  cp_new : bool;   (* newMemEntry: a buffer of its own, filled through setBytes
                      (false: the entry's buffer is the argument itself) *)
  cp_set : bool;   (* setBytes: Truncate + Write into the entry's buffer
                      (false: the entry's buffer becomes the argument) *)
  cp_app : bool;   (* appendBytes: Write to the end of the entry's buffer
                      (false: the appended bytes are lost - no other shape is known) *)
  cp_out : bool }. (* bytes(): a fresh copy (false: the buffer's own storage) *)

Definition all_copy : copies := mkCopies true true true true.

Notation oentry := (cls * nat)%type (only parsing).
Definition ostore := list (key * oentry).

(** store, heap, the buffers the caller may write: those it created and those
    it was given *)
Definition ostate := (ostore * heap * list buf)%type.

Definition contents (st : ostore) (h : heap) : table :=
  map (fun p => (fst p, (fst (snd p), hget h (snd (snd p))))) st.

Inductive hop :=
| CAlloc (v : bytes)                 (* the caller creates a buffer holding [v] *)
| CWrite (b : buf) (v : bytes)       (* the caller overwrites one of its buffers *)
| HClear
| HAdd (k : key) (c : cls) (a : buf)
| HGet (k : key)
| HHas (k : key)
| HSet (k : key) (a : buf)
| HSetClass (k : key) (c : cls)
| HMutate (k : key) (f : bytes -> option bytes)
    (* the function is shown the value in a buffer it may keep, and returns
       its result in a buffer of its own, or fails *)
| HRemove (k : key)
| HEmplace (k : key) (c : cls) (a : buf)
| HReplace (k : key) (c : cls) (a : buf)
| HAppend (k : key) (a : buf)
| HWalk                              (* every value is shown to the callback *)
| HCount.

Section Own.
  Variable cp : copies.

  (** entry.setBytes(a) *)
  Definition set_entry (h : heap) (e : oentry) (a : buf) : heap * oentry :=
    if cp_set cp then (hset h (snd e) (hget h a), e) else (h, (fst e, a)).

  (** newMemEntry(c, a) *)
  Definition new_entry (h : heap) (c : cls) (a : buf) : heap * oentry :=
    if cp_new cp then set_entry (h ++ [[]]) (c, length h) a else (h, (c, a)).

  (** entry.appendBytes(a) *)
  Definition app_entry (h : heap) (e : oentry) (a : buf) : heap :=
    if cp_app cp then hset h (snd e) (hget h (snd e) ++ hget h a) else h.

  (** entry.bytes() *)
  Definition out_entry (h : heap) (e : oentry) : heap * buf :=
    if cp_out cp then (h ++ [hget h (snd e)], length h) else (h, snd e).

  (** walkKeys: bytes() of every entry goes to the callback *)
  Fixpoint out_all (h : heap) (kn : list buf) (es : ostore) : heap * list buf :=
    match es with
    | [] => (h, kn)
    | (_, e) :: t => let '(h1, b) := out_entry h e in out_all h1 (b :: kn) t
    end.

  Definition never_stops : walkfn := fun _ _ _ => None.

  (** [None] as result: an action of the caller, not a call *)
  Definition own_step (s : ostate) (o : hop) : ostate * option result :=
    let '(st, h, kn) := s in
    match o with
    | CAlloc v => ((st, h ++ [v], length h :: kn), None)
    | CWrite b v => ((st, hset h b v, kn), None)
    | HClear => (([], h, kn), Some RUnit)
    | HAdd k c a =>
        match lookup k st with
        | Some _ => (s, Some (RErr EExists))
        | None => let '(h1, e) := new_entry h c a in ((upd k e st, h1, kn), Some RUnit)
        end
    | HGet k =>
        match lookup k st with
        | None => (s, Some (RErr ENotFound))
        | Some e => let '(h1, b) := out_entry h e in
                    ((st, h1, b :: kn), Some (RBytes (hget h1 b)))
        end
    | HHas k => (s, Some (RBool (match lookup k st with Some _ => true | None => false end)))
    | HSet k a =>
        match lookup k st with
        | None => (s, Some (RErr ENotFound))
        | Some e => let '(h1, e1) := set_entry h e a in ((upd k e1 st, h1, kn), Some RUnit)
        end
    | HSetClass k c =>
        match lookup k st with
        | None => (s, Some (RErr ENotFound))
        | Some e => ((upd k (c, snd e) st, h, kn), Some RUnit)
        end
    | HMutate k f =>
        match lookup k st with
        | None => (s, Some (RErr ENotFound))
        | Some e =>
            let '(h1, b) := out_entry h e in
            match f (hget h1 b) with
            | None => ((st, h1, b :: kn), Some (RErr EUser))
            | Some v' =>
                let a := length h1 in                (* the function's own result buffer *)
                let '(h3, e1) := set_entry (h1 ++ [v']) e a in
                ((upd k e1 st, h3, a :: b :: kn), Some RUnit)
            end
        end
    | HRemove k =>
        match lookup k st with
        | None => (s, Some (RErr ENotFound))
        | Some _ => ((del k st, h, kn), Some RUnit)
        end
    | HEmplace k c a =>
        match lookup k st with
        | Some _ => (s, Some RUnit)
        | None => let '(h1, e) := new_entry h c a in ((upd k e st, h1, kn), Some RUnit)
        end
    | HReplace k c a =>
        match lookup k st with
        | Some e => let '(h1, e1) := set_entry h e a in ((upd k e1 st, h1, kn), Some RUnit)
        | None => let '(h1, e) := new_entry h c a in ((upd k e st, h1, kn), Some RUnit)
        end
    | HAppend k a =>
        match lookup k st with
        | Some e => ((st, app_entry h e a, kn), Some RUnit)
        | None => let '(h1, e) := new_entry h [] a in ((upd k e st, h1, kn), Some RUnit)
        end
    | HWalk =>
        let '(h1, kn1) := out_all h kn st in
        ((st, h1, kn1), Some (snd (mem_step (contents st h) (BWalk never_stops))))
    | HCount => (s, Some (RCount (lenN st)))
    end.

  (** The same call as the memory model of Kv/Mem.v sees it: the values are
      what the caller's buffers hold when the call is made. *)
  Definition erase (s : ostate) (o : hop) : option bop :=
    let '(_, h, _) := s in
    match o with
    | CAlloc _ | CWrite _ _ => None
    | HClear => Some BClear
    | HAdd k c a => Some (BAdd k c (hget h a))
    | HGet k => Some (BGet k)
    | HHas k => Some (BHas k)
    | HSet k a => Some (BSet k (hget h a))
    | HSetClass k c => Some (BSetClass k c)
    | HMutate k f => Some (BMutate k (fun v => match f v with Some v' => MSet v' | None => MFail EUser end))
    | HRemove k => Some (BRemove k)
    | HEmplace k c a => Some (BEmplace k c (hget h a))
    | HReplace k c a => Some (BReplace k c (hget h a))
    | HAppend k a => Some (BAppend k (hget h a))
    | HWalk => Some (BWalk never_stops)
    | HCount => Some BCount
    end.

  (** the caller only uses buffers it created or was given *)
  Definition memb (b : buf) (l : list buf) : bool := existsb (Nat.eqb b) l.

  Definition op_okb (s : ostate) (o : hop) : bool :=
    let '(_, _, kn) := s in
    match o with
    | CWrite b _ => memb b kn
    | HAdd _ _ a | HSet _ a | HEmplace _ _ a | HReplace _ _ a | HAppend _ a => memb a kn
    | _ => true
    end.

  Fixpoint own_run (s : ostate) (ops : list hop) : ostate * list result :=
    match ops with
    | [] => (s, [])
    | o :: t =>
        let '(s1, r) := own_step s o in
        let '(s2, rs) := own_run s1 t in
        (s2, match r with Some x => x :: rs | None => rs end)
    end.

  Fixpoint erase_run (s : ostate) (ops : list hop) : list bop :=
    match ops with
    | [] => []
    | o :: t =>
        let rest := erase_run (fst (own_step s o)) t in
        match erase s o with Some b => b :: rest | None => rest end
    end.

  Fixpoint run_okb (s : ostate) (ops : list hop) : bool :=
    match ops with
    | [] => true
    | o :: t => op_okb s o && run_okb (fst (own_step s o)) t
    end.
End Own.

Definition own_init : ostate := ([], [], []).
