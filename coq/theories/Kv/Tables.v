(** pisces/tables.go and the table life cycle (KV.Create / CreateMissing /
    Destroy, Tables.Create / CreateMissing / Destroy): several KV handles,
    each bound to a table slot, over one database file or one set of memory
    stores.  Definitions only.

    A slot is [None] while its table does not exist.  On the SQL backends a
    handle is nothing but (db, table name, ordered flag): two handles with the
    same table name share one slot, also when one is ordered and the other
    hashes its keys.  The memory backend has one private map per handle and
    its create / createMissing / destroy do nothing ([persistent = false]:
    every slot exists from the start and the life cycle calls are no-ops). *)
From Coq Require Import List NArith Bool.
From Verif Require Import Kv.KeyOrd Kv.AList Kv.Spec.
Import ListNotations.
Local Open Scope N_scope.

Inductive lkind := KCreate | KMissing | KDestroy.

Inductive lop :=
| LOp (h : nat) (u : uop)       (* a KV method of handle [h] *)
| LLife (h : nat) (k : lkind)   (* KV.Create / CreateMissing / Destroy of handle [h] *)
| LAll (k : lkind).             (* Tables.Create / CreateMissing / Destroy *)

(** slot (table) of the handle, ordered? *)
Definition hdesc := (nat * bool)%type.

Definition tstate := list (option table).

Fixpoint set_nth {A} (n : nat) (x : A) (l : list A) : list A :=
  match n, l with
  | O, _ :: t => x :: t
  | S n', y :: t => y :: set_nth n' x t
  | _, [] => []
  end.

Definition slot_get (s : tstate) (n : nat) : option table := nth n s None.

Definition init_state (persistent : bool) (slots : nat) : tstate :=
  repeat (if persistent then None else Some []) slots.

Section Tables.
  Variable maxlen : N.
  Variable hk : key -> key.
  Variable jv : bytes -> bool.
  Variable bstep : table -> bop -> table * result.
  Variable persistent : bool.
  Variable hs : list hdesc.

  (** create table T (fails when it exists) / create table if not exists T /
      drop table T (fails when it does not exist) *)
  Definition lc_one (s : tstate) (slot : nat) (k : lkind) : tstate * result :=
    if persistent then
      match k, slot_get s slot with
      | KCreate, None => (set_nth slot (Some []) s, RUnit)
      | KMissing, None => (set_nth slot (Some []) s, RUnit)
      | KCreate, Some _ => (s, RErr EOther)
      | KMissing, Some _ => (s, RUnit)
      | KDestroy, Some _ => (set_nth slot None s, RUnit)
      | KDestroy, None => (s, RErr EOther)
      end
    else (s, RUnit).

  (** Tables.runOnAll: in registration order, stops at the first error (what
      was done before stays done) *)
  Fixpoint lc_all (s : tstate) (slots : list nat) (k : lkind) : tstate * result :=
    match slots with
    | [] => (s, RUnit)
    | x :: t =>
        let '(s1, r) := lc_one s x k in
        match r with
        | RUnit => lc_all s1 t k
        | _ => (s1, r)
        end
    end.

  (** The errors the wrapper raises before it reaches the backend: the key
      check of ordered stores, the ordered guard of partial walks. *)
  Definition early_error (ordered : bool) (u : uop) : option result :=
    match snd (kv_step maxlen ordered hk jv spec_step [] u) with
    | RErr EKeyTooLong => Some (RErr EKeyTooLong)
    | RErr EUnordered => Some (RErr EUnordered)
    | _ => None
    end.

  (** every statement on a table that does not exist is refused *)
  Definition dropped_result (ordered : bool) (u : uop) : result :=
    match early_error ordered u with
    | Some r => r
    | None => RErr EOther
    end.

  Definition l_step (s : tstate) (o : lop) : tstate * result :=
    match o with
    | LOp h u =>
        match nth_error hs h with
        | None => (s, RErr EOther)
        | Some (slot, ordered) =>
            match slot_get s slot with
            | Some t =>
                let '(t', r) := kv_step maxlen ordered hk jv bstep t u in
                (set_nth slot (Some t') s, r)
            | None => (s, dropped_result ordered u)
            end
        end
    | LLife h k =>
        match nth_error hs h with
        | None => (s, RErr EOther)
        | Some (slot, _) => lc_one s slot k
        end
    | LAll k =>
        match hs with
        | [] => (s, RErr EOther)          (* "no table" *)
        | _ => lc_all s (map fst hs) k
        end
    end.
End Tables.

(** The calls of a history that go to table slot [x], with the ordered flag of
    the handle each of them went through. *)
Fixpoint proj_slot (hs : list hdesc) (x : nat) (ops : list lop) : list (bool * uop) :=
  match ops with
  | [] => []
  | LOp h u :: t =>
      match nth_error hs h with
      | Some (slot, ordered) =>
          if Nat.eqb slot x then (ordered, u) :: proj_slot hs x t else proj_slot hs x t
      | None => proj_slot hs x t
      end
  | _ :: t => proj_slot hs x t
  end.

(** ... and their results, picked out of the results of the whole history *)
Fixpoint proj_results (hs : list hdesc) (x : nat) (ops : list lop) (rs : list result) : list result :=
  match ops, rs with
  | LOp h _ :: t, r :: rt =>
      match nth_error hs h with
      | Some (slot, _) =>
          if Nat.eqb slot x then r :: proj_results hs x t rt else proj_results hs x t rt
      | None => proj_results hs x t rt
      end
  | _ :: t, _ :: rt => proj_results hs x t rt
  | _, _ => []
  end.

Definition is_lop (hs : list hdesc) (o : lop) : bool :=
  match o with
  | LOp h _ => match nth_error hs h with Some _ => true | None => false end
  | _ => false
  end.

(** one table used through handles of either kind *)
Definition flag_step maxlen hk jv (bstep : table -> bop -> table * result)
  (t : table) (ou : bool * uop) : table * result :=
  kv_step maxlen (fst ou) hk jv bstep t (snd ou).
