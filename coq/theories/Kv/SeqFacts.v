(** Accounting facts about sequential runs of the reference map, in the words
    of C06: k successful increments add k, concurrent Adds of one key succeed
    at most once, Emplace keeps the first value, every Append lands exactly
    once.  The concurrency theorems reduce every schedule to such a run. *)
From Coq Require Import List Arith NArith Bool Lia.
From Verif Require Import Kv.KeyOrd Kv.AList Kv.Spec Kv.Refine Kv.Facts.
Import ListNotations.

(** Can the operation change the entry of key [k]? *)
Definition changes_key (k : key) (o : bop) : bool :=
  match o with
  | BClear => true
  | BAdd k' _ _ | BSet k' _ | BSetClass k' _ | BMutate k' _ | BRemove k'
  | BEmplace k' _ _ | BReplace k' _ _ | BAppend k' _ => keqb k' k
  | _ => false
  end.

Lemma lookup_sset_other k k' e s : keqb k' k = false -> lookup k (sset k' e s) = lookup k s.
Proof. intros H. rewrite lookup_sset. now rewrite keqb_sym, H. Qed.

Lemma spec_step_untouched k s o :
  changes_key k o = false -> lookup k (fst (spec_step s o)) = lookup k s.
Proof.
  intros H. destruct o; cbn [changes_key] in H; try discriminate; cbn [spec_step];
    try reflexivity;
    try (destruct (lookup k0 s) as [[c0 v0]|]; cbn [fst]; try reflexivity;
         try (apply lookup_sset_other; exact H)).
  - destruct (f v0); cbn [fst]; [now apply lookup_sset_other|reflexivity].
  - rewrite lookup_del. now rewrite keqb_sym, H.
Qed.

(** results of the operations that can change [k], in order *)
Fixpoint key_results (k : key) (ops : list bop) (rs : list result) : list result :=
  match ops, rs with
  | o :: ops', r :: rs' =>
      if changes_key k o then r :: key_results k ops' rs' else key_results k ops' rs'
  | _, _ => []
  end.

Definition key_ops (k : key) (ops : list bop) : list bop := filter (changes_key k) ops.

Lemma run_cons {S O} (step : S -> O -> S * result) s o ops :
  run step s (o :: ops) =
  (fst (run step (fst (step s o)) ops), snd (step s o) :: snd (run step (fst (step s o)) ops)).
Proof.
  cbn [run]. destruct (step s o) as [s1 r]. cbn [fst snd].
  destruct (run step s1 ops) as [s2 rs]. reflexivity.
Qed.

(** ** no lost update *)

Lemma iter_succ_r {A} n (g : A -> A) x : Nat.iter (S n) g x = Nat.iter n g (g x).
Proof.
  induction n as [|n IH]; [reflexivity|].
  change (Nat.iter (S (S n)) g x) with (g (Nat.iter (S n) g x)). rewrite IH. reflexivity.
Qed.

Definition incr_of (g : bytes -> bytes) : bytes -> mres := fun v => MSet (g v).

Definition incr_or_other (k : key) (g : bytes -> bytes) (o : bop) : Prop :=
  o = BMutate k (incr_of g) \/ changes_key k o = false.

Lemma seq_no_lost_update k g ops : forall s c v0,
  Forall (incr_or_other k g) ops ->
  @lookup entry k s = Some (c, v0) ->
  lookup k (fst (run spec_step s ops)) = Some (c, Nat.iter (length (key_ops k ops)) g v0) /\
  key_results k ops (snd (run spec_step s ops)) = repeat RUnit (length (key_ops k ops)).
Proof.
  induction ops as [|o ops IH]; intros s c v0 Hall Hl.
  - cbn. auto.
  - inversion Hall as [|? ? Ho Hops]; subst. rewrite run_cons. cbn [fst snd key_results key_ops filter].
    destruct Ho as [->|Hu].
    + cbn [changes_key]. rewrite keqb_refl. cbn [length repeat].
      assert (spec_step s (BMutate k (incr_of g)) = (sset k (c, g v0) s, RUnit)) as E.
      { cbn [spec_step]. now rewrite Hl. }
      rewrite E. cbn [fst snd].
      destruct (IH (sset k (c, g v0) s) c (g v0) Hops) as [H1 H2].
      { rewrite lookup_sset. now rewrite keqb_refl. }
      fold (key_ops k ops). rewrite H1, H2. split; [|reflexivity].
      now rewrite iter_succ_r.
    + rewrite Hu. fold (key_ops k ops). apply IH; [exact Hops|].
      now rewrite spec_step_untouched.
Qed.

(** ** add: at most one success *)

Definition add_or_other (k : key) (o : bop) : Prop :=
  (exists c v, o = BAdd k c v) \/ changes_key k o = false.

Lemma seq_add_existing k ops : forall s e,
  Forall (add_or_other k) ops -> lookup k s = Some e ->
  lookup k (fst (run spec_step s ops)) = Some e /\
  key_results k ops (snd (run spec_step s ops)) = repeat (RErr EExists) (length (key_ops k ops)).
Proof.
  induction ops as [|o ops IH]; intros s e Hall Hl.
  - cbn. auto.
  - inversion Hall as [|? ? Ho Hops]; subst. rewrite run_cons. cbn [fst snd key_results key_ops filter].
    destruct Ho as [(c & v & ->)|Hu].
    + cbn [changes_key]. rewrite keqb_refl. cbn [length repeat].
      rewrite (add_existing_fails s k c v e Hl). cbn [fst snd].
      destruct (IH s e Hops Hl) as [H1 H2]. fold (key_ops k ops). now rewrite H1, H2.
    + rewrite Hu. fold (key_ops k ops). apply IH; [exact Hops|]. now rewrite spec_step_untouched.
Qed.

(** From a map without [k]: the first Add of [k] succeeds and fixes the
    value; every later one reports "exists". *)
Lemma seq_add_once k ops : forall s,
  Forall (add_or_other k) ops -> lookup k s = None ->
  match key_ops k ops with
  | [] => lookup k (fst (run spec_step s ops)) = None
  | BAdd _ c v :: rest =>
      lookup k (fst (run spec_step s ops)) = Some (c, v) /\
      key_results k ops (snd (run spec_step s ops)) = RUnit :: repeat (RErr EExists) (length rest)
  | _ => False
  end.
Proof.
  induction ops as [|o ops IH]; intros s Hall Hl.
  - cbn. exact Hl.
  - inversion Hall as [|? ? Ho Hops]; subst. rewrite run_cons. cbn [fst snd key_results key_ops filter].
    destruct Ho as [(c & v & ->)|Hu].
    + cbn [changes_key]. rewrite keqb_refl.
      destruct (add_missing_inserts s k c v Hl) as [Hr Hlk]. rewrite Hr.
      destruct (seq_add_existing k ops (fst (spec_step s (BAdd k c v))) (c, v) Hops) as [H1 H2].
      { rewrite Hlk. now rewrite keqb_refl. }
      fold (key_ops k ops). now rewrite H1, H2.
    + rewrite Hu. fold (key_ops k ops). apply IH; [exact Hops|]. now rewrite spec_step_untouched.
Qed.

(** ** emplace keeps the first value *)

Definition emplace_or_other (k : key) (o : bop) : Prop :=
  (exists c v, o = BEmplace k c v) \/ changes_key k o = false.

Lemma seq_emplace_existing k ops : forall s e,
  Forall (emplace_or_other k) ops -> lookup k s = Some e ->
  lookup k (fst (run spec_step s ops)) = Some e /\
  key_results k ops (snd (run spec_step s ops)) = repeat RUnit (length (key_ops k ops)).
Proof.
  induction ops as [|o ops IH]; intros s e Hall Hl.
  - cbn. auto.
  - inversion Hall as [|? ? Ho Hops]; subst. rewrite run_cons. cbn [fst snd key_results key_ops filter].
    destruct Ho as [(c & v & ->)|Hu].
    + cbn [changes_key]. rewrite keqb_refl. cbn [length repeat].
      rewrite (emplace_never_overwrites s k c v e Hl). cbn [fst snd].
      destruct (IH s e Hops Hl) as [H1 H2]. fold (key_ops k ops). now rewrite H1, H2.
    + rewrite Hu. fold (key_ops k ops). apply IH; [exact Hops|]. now rewrite spec_step_untouched.
Qed.

Lemma seq_emplace_keeps_first k ops : forall s,
  Forall (emplace_or_other k) ops -> lookup k s = None ->
  match key_ops k ops with
  | [] => lookup k (fst (run spec_step s ops)) = None
  | BEmplace _ c v :: _ => lookup k (fst (run spec_step s ops)) = Some (c, v)
  | _ => False
  end.
Proof.
  induction ops as [|o ops IH]; intros s Hall Hl.
  - cbn. exact Hl.
  - inversion Hall as [|? ? Ho Hops]; subst. rewrite run_cons. cbn [fst snd key_ops filter].
    destruct Ho as [(c & v & ->)|Hu].
    + cbn [changes_key]. rewrite keqb_refl.
      destruct (seq_emplace_existing k ops (fst (spec_step s (BEmplace k c v))) (c, v) Hops) as [H1 _].
      { cbn [spec_step]. rewrite Hl. cbn [fst]. rewrite lookup_sset. now rewrite keqb_refl. }
      exact H1.
    + rewrite Hu. fold (key_ops k ops). apply IH; [exact Hops|]. now rewrite spec_step_untouched.
Qed.

(** ** every append lands exactly once, in linearization order *)

Definition append_or_other (k : key) (o : bop) : Prop :=
  (exists v, o = BAppend k v) \/ changes_key k o = false.

Definition appended (o : bop) : bytes := match o with BAppend _ v => v | _ => [] end.

Lemma seq_append_all_once k ops : forall s,
  Forall (append_or_other k) ops ->
  lookup k (fst (run spec_step s ops))
  = match lookup k s, key_ops k ops with
    | None, [] => None
    | None, _ => Some ([], concat (map appended (key_ops k ops)))
    | Some (c, v0), _ => Some (c, v0 ++ concat (map appended (key_ops k ops)))
    end.
Proof.
  induction ops as [|o ops IH]; intros s Hall.
  - cbn. destruct (lookup k s) as [[c v0]|]; [now rewrite app_nil_r|reflexivity].
  - inversion Hall as [|? ? Ho Hops]; subst. rewrite run_cons. cbn [fst snd key_ops filter].
    destruct Ho as [(v & ->)|Hu].
    + cbn [changes_key]. rewrite keqb_refl. fold (key_ops k ops).
      rewrite (IH _ Hops). destruct (append_upserts s k v) as (_ & Hlk & _). rewrite Hlk.
      cbn [map appended concat]. destruct (lookup k s) as [[c v0]|].
      * now rewrite app_assoc.
      * reflexivity.
    + rewrite Hu. fold (key_ops k ops). rewrite (IH _ Hops). now rewrite spec_step_untouched.
Qed.

(** ** concurrent Removes of one key: exactly the first succeeds *)

Definition remove_or_other (k : key) (o : bop) : Prop :=
  o = BRemove k \/ changes_key k o = false.

Lemma seq_remove_missing k ops : forall s,
  Forall (remove_or_other k) ops -> @lookup entry k s = None ->
  lookup k (fst (run spec_step s ops)) = None /\
  key_results k ops (snd (run spec_step s ops)) = repeat (RErr ENotFound) (length (key_ops k ops)).
Proof.
  induction ops as [|o ops IH]; intros s Hall Hl.
  - cbn. auto.
  - inversion Hall as [|? ? Ho Hops]; subst. rewrite run_cons. cbn [fst snd key_results key_ops filter].
    destruct Ho as [->|Hu].
    + cbn [changes_key]. rewrite keqb_refl. cbn [length repeat spec_step]. rewrite Hl. cbn [fst snd].
      destruct (IH s Hops Hl) as [H1 H2]. fold (key_ops k ops). now rewrite H1, H2.
    + rewrite Hu. fold (key_ops k ops). apply IH; [exact Hops|]. now rewrite spec_step_untouched.
Qed.

Lemma seq_remove_once k ops : forall s e,
  Forall (remove_or_other k) ops -> @lookup entry k s = Some e ->
  match key_ops k ops with
  | [] => lookup k (fst (run spec_step s ops)) = Some e
  | _ :: rest =>
      lookup k (fst (run spec_step s ops)) = None /\
      key_results k ops (snd (run spec_step s ops)) = RUnit :: repeat (RErr ENotFound) (length rest)
  end.
Proof.
  induction ops as [|o ops IH]; intros s e Hall Hl.
  - cbn. exact Hl.
  - inversion Hall as [|? ? Ho Hops]; subst. rewrite run_cons. cbn [fst snd key_results key_ops filter].
    destruct Ho as [->|Hu].
    + cbn [changes_key]. rewrite keqb_refl. cbn [spec_step]. rewrite Hl. cbn [fst snd].
      destruct (seq_remove_missing k ops (del k s) Hops) as [H1 H2].
      { rewrite lookup_del. now rewrite keqb_refl. }
      fold (key_ops k ops). now rewrite H1, H2.
    + rewrite Hu. fold (key_ops k ops). apply IH; [exact Hops|]. now rewrite spec_step_untouched.
Qed.
