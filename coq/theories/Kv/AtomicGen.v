(** C06: obligations on the objects regenerated from the source on every run
    (Gen/KvMemSkel.v, Gen/KvSql.v), and the concurrency theorems instantiated
    with them. *)
From Coq Require Import List Arith NArith Bool String.
From Verif Require Import Lib.Sched Kv.KeyOrd Kv.AList Kv.Spec Kv.Mem Kv.Sql Kv.Skel Kv.Refine
  Kv.SeqFacts Kv.KvGen Kv.Atomic Kv.AtomicSql Kv.AtomicCor Gen.KvSql Gen.KvMemSkel.
From Verif Require Import Kv.Retry Gen.KvRetry Kv.AppendStmts.
Import ListNotations.
Local Open Scope string_scope.

(** ** memKV: locking discipline and the skeleton the model executes *)

(** every method takes the lock first, releases it by defer, touches the
    lock nowhere else, contains no statement the translator could not
    classify, and writes only under the exclusive lock *)
Lemma gen_mem_well_locked : all_well_lockedb gen_mem_skeletons = true.
Proof. vm_compute. reflexivity. Qed.

(** the lock taken and the order of accesses to the map, the entries and the
    user callback are those of the micro-step model (Kv/Atomic.v) *)
Lemma gen_mem_skeletons_match : skeletons_matchb gen_mem_skeletons = true.
Proof. vm_compute. reflexivity. Qed.

Lemma gen_mem_ops_frozen : gen_mem_ops = deployed_ops.
Proof. reflexivity. Qed.

(** ** SQL: transaction shape *)

Definition other_methods : list string :=
  ["clear"; "add"; "get"; "has"; "set"; "setClass"; "remove"; "emplace"; "replace";
   "appendBytes"; "count"; "walk"; "walkClass"; "walkPartial"; "walkPartialClass"].

Lemma gen_mutate_in_tx :
  mutate_in_txb (method_evs gen_sqlite_methods "mutate") = true /\
  mutate_in_txb (method_evs gen_psql_methods "mutate") = true.
Proof. vm_compute. split; reflexivity. Qed.

Lemma gen_single_statements :
  forallb (fun n => single_statementb (method_evs gen_sqlite_methods n)) other_methods = true /\
  forallb (fun n => single_statementb (method_evs gen_psql_methods n)) other_methods = true.
Proof. vm_compute. split; reflexivity. Qed.

(** A commit that sqlite refuses is rolled back on the connection: mutate
    commits through the helper that issues COMMIT as a statement (so that a
    refusal leaves a transaction database/sql can still roll back).  This is
    the [QBusyWritten] step of the model: BUSY at commit => nothing applied
    and no lock kept. *)
Lemma gen_sqlite_commit_rolls_back :
  gen_sqlite_commit = "sqlite3CommitTx(tx)" /\
  gen_sqlite_commit_helper
  = "if _, err := tx.X(`commit`); err != nil { return err } ;; tx.Rollback() ;; return nil".
Proof. split; reflexivity. Qed.

Lemma gen_psql_commit_frozen : gen_psql_commit = "tx.Commit()".
Proof. reflexivity. Qed.

(** psqlKV.mutate as it is in the source: default transaction options, a
    SELECT that takes no row lock.  Under PostgreSQL's READ COMMITTED this is
    the shape of Kv/AtomicPg.v with [select_locks = false], which loses
    updates ([pg_rc_lost_update]); open finding of C06.  A repair (SELECT ...
    FOR UPDATE, or a stricter isolation level with a retry) changes these
    strings and this lemma has to follow. *)
Lemma gen_psql_mutate_shape :
  gen_psql_mutate_begin = "b.db.Begin()" /\
  gen_psql_mutate_select = "select v from %s where k=$1" /\
  gen_psql_mutate_select_locks_row = false.
Proof. repeat split. Qed.

(** What the function of a Mutate is shown: every backend's mutate invokes
    its function at most once per call (one call site, outside every loop,
    handed to nobody else), or KV.Mutate decodes into a target created for
    that invocation.  Today the first holds and the second does not (the
    closure decodes into the caller's [v]); a retry loop around the
    transaction needs the second (Kv/Retry.v [reused_target_refuted]). *)
Definition gen_mutate_shape : mshape :=
  mkMShape (forallb (fun r => snd (fst r)) gen_mutate_once) gen_wrapper_target_fresh.

Lemma gen_mutate_target_ok : mshape_ok gen_mutate_shape = true.
Proof. vm_compute. reflexivity. Qed.

(** AppendBytes is one autocommit statement, the upsert, on both SQL backends
    (and returns that statement's error): what Kv/AppendStmts.v
    [single_statement_append_atomic] is about.  An update followed by an
    emplace loses appends to an absent key ([update_then_emplace_refuted]). *)
Definition append_statements (tbl : methods) : list stmt :=
  map c_stmt (calls_of (method_evs tbl "appendBytes")).

Lemma gen_sqlite_append_statements :
  append_statements gen_sqlite_methods = [SInsert [CK; CV; CC] OcAppendV] /\
  append_statements gen_psql_methods = [SInsert [CK; CV; CC] OcAppendV] /\
  method_evs gen_sqlite_methods "appendBytes"
  = [ECall HDb FX (SInsert [CK; CV; CC] OcAppendV) [GTable; GTable] [GK; GBs; GEmpty]; ERet "err"] /\
  method_evs gen_psql_methods "appendBytes"
  = [ECall HDb FX (SInsert [CK; CV; CC] OcAppendV) [GTable; GTable] [GK; GBs; GEmpty]; ERet "err"].
Proof. vm_compute. repeat split. Qed.

Local Close Scope string_scope.

(** ** The theorems for the statement table generated from sqlite3_kv.go

    (psql_kv.go has the same statement sequences, but the lock ladder of
    Kv/AtomicSql.v is SQLite's: PostgreSQL's MVCC isolation levels are not
    modelled and nothing is claimed here about psqlKV under concurrency.) *)

Lemma gen_sql_serializable bprog db0 cfg :
  qreachable gen_sqlite_methods (qinit bprog db0) cfg ->
  run (sql_step gen_sqlite_methods) db0 (qops (applied (qdone cfg)))
  = (qdb cfg, qresults (applied (qdone cfg))).
Proof. rewrite gen_sqlite_methods_frozen. exact (sql_serializable bprog db0 cfg). Qed.

Lemma gen_sql_serializable_spec bprog db0 cfg :
  qreachable gen_sqlite_methods (qinit bprog db0) cfg ->
  nodupk db0 ->
  (forall i, forallb bop_okb (bprog i) = true) ->
  Forall (in_prog bprog) (qops (applied (qdone cfg))) /\
  run spec_step (abs db0) (qops (applied (qdone cfg)))
  = (abs (qdb cfg), qresults (applied (qdone cfg))).
Proof. rewrite gen_sqlite_methods_frozen. exact (sql_serializable_spec bprog db0 cfg). Qed.

Lemma gen_sql_no_lost_update bprog db0 cfg k g c v0 :
  qreachable gen_sqlite_methods (qinit bprog db0) cfg -> nodupk db0 ->
  (forall i, forallb bop_okb (bprog i) = true) ->
  (forall i, Forall (SeqFacts.incr_or_other k g) (bprog i)) ->
  @lookup entry k db0 = Some (c, v0) ->
  let ops := qops (applied (qdone cfg)) in
  lookup k (abs (qdb cfg)) = Some (c, Nat.iter (List.length (SeqFacts.key_ops k ops)) g v0) /\
  SeqFacts.key_results k ops (qresults (applied (qdone cfg)))
  = repeat RUnit (List.length (SeqFacts.key_ops k ops)).
Proof. rewrite gen_sqlite_methods_frozen. exact (sql_no_lost_update bprog db0 cfg k g c v0). Qed.

Lemma gen_sql_add_once bprog db0 cfg k :
  qreachable gen_sqlite_methods (qinit bprog db0) cfg -> nodupk db0 ->
  (forall i, forallb bop_okb (bprog i) = true) ->
  (forall i, Forall (SeqFacts.add_or_other k) (bprog i)) ->
  @lookup entry k db0 = None ->
  let ops := qops (applied (qdone cfg)) in
  match SeqFacts.key_ops k ops with
  | [] => lookup k (abs (qdb cfg)) = None
  | BAdd _ c v :: rest =>
      lookup k (abs (qdb cfg)) = Some (c, v) /\
      SeqFacts.key_results k ops (qresults (applied (qdone cfg)))
      = RUnit :: repeat (RErr EExists) (List.length rest)
  | _ => False
  end.
Proof. rewrite gen_sqlite_methods_frozen. exact (sql_add_once bprog db0 cfg k). Qed.

Lemma gen_sql_remove_once bprog db0 cfg k e :
  qreachable gen_sqlite_methods (qinit bprog db0) cfg -> nodupk db0 ->
  (forall i, forallb bop_okb (bprog i) = true) ->
  (forall i, Forall (SeqFacts.remove_or_other k) (bprog i)) ->
  @lookup entry k db0 = Some e ->
  let ops := qops (applied (qdone cfg)) in
  match SeqFacts.key_ops k ops with
  | [] => lookup k (abs (qdb cfg)) = Some e
  | _ :: rest =>
      lookup k (abs (qdb cfg)) = None /\
      SeqFacts.key_results k ops (qresults (applied (qdone cfg)))
      = RUnit :: repeat (RErr ENotFound) (List.length rest)
  end.
Proof. rewrite gen_sqlite_methods_frozen. exact (sql_remove_once bprog db0 cfg k e). Qed.

Lemma gen_sql_emplace_keeps_first bprog db0 cfg k :
  qreachable gen_sqlite_methods (qinit bprog db0) cfg -> nodupk db0 ->
  (forall i, forallb bop_okb (bprog i) = true) ->
  (forall i, Forall (SeqFacts.emplace_or_other k) (bprog i)) ->
  @lookup entry k db0 = None ->
  match SeqFacts.key_ops k (qops (applied (qdone cfg))) with
  | [] => lookup k (abs (qdb cfg)) = None
  | BEmplace _ c v :: _ => lookup k (abs (qdb cfg)) = Some (c, v)
  | _ => False
  end.
Proof. rewrite gen_sqlite_methods_frozen. exact (sql_emplace_keeps_first bprog db0 cfg k). Qed.

Lemma gen_sql_append_all_once bprog db0 cfg k :
  qreachable gen_sqlite_methods (qinit bprog db0) cfg -> nodupk db0 ->
  (forall i, forallb bop_okb (bprog i) = true) ->
  (forall i, Forall (SeqFacts.append_or_other k) (bprog i)) ->
  let ops := qops (applied (qdone cfg)) in
  lookup k (abs (qdb cfg))
  = match lookup k db0, SeqFacts.key_ops k ops with
    | None, [] => None
    | None, _ => Some ([], List.concat (map SeqFacts.appended (SeqFacts.key_ops k ops)))
    | Some (c, v0), _ => Some (c, v0 ++ List.concat (map SeqFacts.appended (SeqFacts.key_ops k ops)))
    end.
Proof. rewrite gen_sqlite_methods_frozen. exact (sql_append_all_once bprog db0 cfg k). Qed.

Lemma gen_sql_snapshot_stable bprog db0 cfg i k f v todo :
  qreachable gen_sqlite_methods (qinit bprog db0) cfg ->
  qths cfg i = QRead k f v todo -> exists c, lookup k (qdb cfg) = Some (c, v).
Proof. rewrite gen_sqlite_methods_frozen. exact (sql_snapshot_stable bprog db0 cfg i k f v todo). Qed.

Lemma gen_sql_tx_excludes_writes cfg cfg' j :
  qstep gen_sqlite_methods cfg cfg' -> in_tx (qths cfg j) ->
  qdb cfg' = qdb cfg \/
  (exists k f img todo, qths cfg j = QWritten k f img todo /\ qdb cfg' = img).
Proof. rewrite gen_sqlite_methods_frozen. exact (sql_tx_excludes_writes cfg cfg' j). Qed.

Lemma gen_sql_reserved_unique bprog db0 cfg :
  qreachable gen_sqlite_methods (qinit bprog db0) cfg -> reserved_unique cfg.
Proof. rewrite gen_sqlite_methods_frozen. exact (sql_reserved_unique bprog db0 cfg). Qed.
