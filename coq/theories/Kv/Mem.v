(** Transcription of pisces/mem_kv.go + mem_entry.go.  The Go map is an
    association list with distinct keys in arbitrary order; walks collect keys,
    sort them (sort.Strings / sort.Reverse), cut the window with uint64
    arithmetic and then fetch each entry again, exactly as the code does.
    The two places where the Go code could panic (slice bounds in
    partialKeys, nil entry in walkKeys) are visible as [EPanic]. *)
From Coq Require Import List NArith Bool.
From Verif Require Import Kv.KeyOrd Kv.AList Kv.Spec.
Import ListNotations.
Local Open Scope N_scope.

Definition two64 : N := 18446744073709551616.

Definition mem_keys (m : table) : list key := map fst m.

Definition mem_class_keys (c : cls) (m : table) : list key :=
  map fst (filter (has_class c) m).

(** sortKeys *)
Definition sort_keys (desc : bool) (ks : list key) : list key :=
  if desc then ksort kgtb ks else ksort kltb ks.

(** partialKeys: [None] is the slice-bounds panic of [keys[start:end]]. *)
Definition partial_keys (off n : N) (ks : list key) : option (list key) :=
  let len := lenN ks in
  let start := off in
  let end_ := (start + n) mod two64 in
  let start := if len <? start then len else start in
  let end_ := if len <? end_ then len else end_ in
  if end_ <? start then None
  else Some (skipn (N.to_nat start) (firstn (N.to_nat end_) ks)).

(** walkKeys up to the callback: [None] is the nil-pointer dereference of
    [entry.cls] for a key that is not in the map. *)
Fixpoint fetch_keys (m : table) (ks : list key) : option table :=
  match ks with
  | [] => Some []
  | k :: t =>
      match lookup k m, fetch_keys m t with
      | Some e, Some r => Some ((k, e) :: r)
      | _, _ => None
      end
  end.

Definition mem_walk (f : walkfn) (m : table) (ks : option (list key)) : result :=
  match ks with
  | None => RErr EPanic
  | Some ks =>
      match fetch_keys m ks with
      | None => RErr EPanic
      | Some items => walk_result f items
      end
  end.

Definition mem_step (m : table) (o : bop) : table * result :=
  match o with
  | BClear => ([], RUnit)
  | BAdd k c v =>
      match lookup k m with
      | Some _ => (m, RErr EExists)
      | None => (upd k (c, v) m, RUnit)
      end
  | BGet k =>
      match lookup k m with
      | Some (_, v) => (m, RBytes v)
      | None => (m, RErr ENotFound)
      end
  | BHas k => (m, RBool (match lookup k m with Some _ => true | None => false end))
  | BSet k v =>
      match lookup k m with
      | Some (c, _) => (upd k (c, v) m, RUnit)
      | None => (m, RErr ENotFound)
      end
  | BSetClass k c =>
      match lookup k m with
      | Some (_, v) => (upd k (c, v) m, RUnit)
      | None => (m, RErr ENotFound)
      end
  | BMutate k f =>
      match lookup k m with
      | None => (m, RErr ENotFound)
      | Some (c, v) =>
          match f v with
          | MSet v' => (upd k (c, v') m, RUnit)
          | MFail e => (m, RErr e)
          end
      end
  | BRemove k =>
      match lookup k m with
      | Some _ => (del k m, RUnit)
      | None => (m, RErr ENotFound)
      end
  | BEmplace k c v =>
      match lookup k m with
      | Some _ => (m, RUnit)
      | None => (upd k (c, v) m, RUnit)
      end
  | BReplace k c v =>
      (* after the fix: an existing entry only has its bytes set *)
      match lookup k m with
      | Some (c0, _) => (upd k (c0, v) m, RUnit)
      | None => (upd k (c, v) m, RUnit)
      end
  | BAppend k v =>
      match lookup k m with
      | Some (c0, v0) => (upd k (c0, v0 ++ v) m, RUnit)
      | None => (upd k ([], v) m, RUnit)
      end
  | BWalk f => (m, mem_walk f m (Some (sort_keys false (mem_keys m))))
  | BWalkClass c f => (m, mem_walk f m (Some (sort_keys false (mem_class_keys c m))))
  | BWalkPartial off n desc f =>
      (m, mem_walk f m (partial_keys off n (sort_keys desc (mem_keys m))))
  | BWalkPartialClass c off n desc f =>
      (m, mem_walk f m (partial_keys off n (sort_keys desc (mem_class_keys c m))))
  | BCount => (m, RCount (lenN m))
  end.

(** The code before the repair of [replace]: a fresh entry every time, which
    drops the class of an existing entry.  Kept to show (Props/C05.v) that the
    defect is visible to the refinement statement. *)
Definition mem_step_legacy (m : table) (o : bop) : table * result :=
  match o with
  | BReplace k c v => (upd k (c, v) m, RUnit)
  | o => mem_step m o
  end.
