(** The SQL backends (sqlite3_kv.go, psql_kv.go): a table of rows (k, c, v)
    with [k] unique, an interpreter for the statement shapes the two files
    use, and each backend method as its statement sequence with the Go
    control flow around it (Scan/has, sqlResError, the transaction of
    mutate).  The statements, their bound arguments and the order of events
    of every method are not written here: they come from the table the
    translator extracts from the Go source (Gen/KvSql.v); [deployed_methods]
    is the frozen copy the proofs are about.  Definitions only. *)
From Coq Require Import List NArith Bool String.
From Verif Require Import Kv.KeyOrd Kv.AList Kv.Spec.
Import ListNotations.
Local Open Scope N_scope.

Inductive col := CK | CC | CV.

Inductive onconf :=
| OcNone                      (* plain insert *)
| OcNothing                   (* on conflict (k) do nothing *)
| OcSetV                      (* on conflict (k) do update set v=excluded.v *)
| OcAppendV                   (* on conflict (k) do update set v = T.v || excluded.v *)
| OcUnknown (text : string).

Inductive sel := SelV | SelOne | SelCount | SelKCV.

Inductive ord :=
| OrdNone
| OrdAsc                      (* order by k *)
| OrdDesc
| OrdDyn.                     (* order by k %s with sqlOrderStr(p.Desc) *)

Inductive stmt :=
| SDeleteAll                                        (* delete from T / truncate table T *)
| SInsert (cols : list col) (oc : onconf)           (* insert into T (cols) values (?..) *)
| SSelect (what : sel) (wh : option col) (o : ord) (lim : bool)
| SUpdate (setc wh : col)                           (* update T set c=? where k=? *)
| SDelete (wh : col)                                (* delete from T where k=? *)
| SUnknown (text : string).

(** Go expressions bound to placeholders / Sprintf verbs. *)
Inductive garg :=
| GK | GCls | GBs | GNew | GEmpty
| GTable | GOrder | GN | GOff
| GArgUnknown (text : string).

Inductive handle := HDb | HTx.
Inductive qfn := FX | FQ1 | FQ.

(** Source-order events of a backend method. *)
Inductive ev :=
| EBegin | EDeferRollback | ECommit
| ECall (h : handle) (f : qfn) (s : stmt) (fmt : list garg) (args : list garg)
| EResErr
| EScan (missing : string)
| ECallUser
| EDeferClose | EIterRows
| ERet (text : string)
| EUnknownEv (text : string).

Definition methods := list (string * list ev).

Record call := mkCall {
  c_handle : handle; c_fn : qfn; c_stmt : stmt; c_fmt : list garg; c_args : list garg }.

Fixpoint calls_of (evs : list ev) : list call :=
  match evs with
  | [] => []
  | ECall h f s fm a :: t => mkCall h f s fm a :: calls_of t
  | _ :: t => calls_of t
  end.

Fixpoint has_reserr (evs : list ev) : bool :=
  match evs with
  | [] => false
  | EResErr :: _ => true
  | _ :: t => has_reserr t
  end.

Fixpoint method_evs (tbl : methods) (name : string) : list ev :=
  match tbl with
  | [] => []
  | (n, evs) :: t => if String.eqb n name then evs else method_evs t name
  end.

Definition call_of (tbl : methods) (name : string) (i : nat) : option call :=
  nth_error (calls_of (method_evs tbl name)) i.

(** * Statement semantics *)

Inductive xres :=
| XAffected (t : table) (n : N)     (* Exec: new table, rows affected *)
| XVals (vs : list bytes)           (* single-column result set *)
| XCount (n : N)
| XRows (rows : table)
| XConstraint                       (* unique constraint failed *)
| XBad.                             (* statement / argument shape outside the model *)

Fixpoint assoc_col (c : col) (cols : list col) (args : list bytes) : option bytes :=
  match cols, args with
  | c' :: cols', a :: args' =>
      match c, c' with
      | CK, CK | CC, CC | CV, CV => Some a
      | _, _ => assoc_col c cols' args'
      end
  | _, _ => None
  end.

Definition row_of (cols : list col) (args : list bytes) : option (key * entry) :=
  if Nat.eqb (List.length cols) 3 && Nat.eqb (List.length args) 3 then
    match assoc_col CK cols args, assoc_col CC cols args, assoc_col CV cols args with
    | Some k, Some c, Some v => Some (k, (c, v))
    | _, _, _ => None          (* a column without a value is NULL: NOT NULL fails *)
    end
  else None.

Definition order_rows (o : ord) (desc : bool) (rows : table) : option table :=
  match o with
  | OrdNone => None              (* row order unspecified *)
  | OrdAsc => Some (isort kltb rows)
  | OrdDesc => Some (isort kgtb rows)
  | OrdDyn => Some (if desc then isort kgtb rows else isort kltb rows)
  end.

(** [limit %d offset %d] is printed from uint64 values.  An integer literal of
    2^63 or more is a REAL to SQLite, which LIMIT and OFFSET refuse ("datatype
    mismatch"); LIMIT 0 returns no row before OFFSET is looked at.  (Observed
    on the real backend by the overflow stream of the C05 harness; outside the
    range of the statement.) *)
Definition int64_end : N := 9223372036854775808.

Definition sql_window (off n : N) (rows : table) : option table :=
  if int64_end <=? n then None
  else if n =? 0 then Some []
  else if int64_end <=? off then None
  else Some (window off n rows).

Definition exec (st : stmt) (desc : bool) (n off : N) (args : list bytes) (t : table) : xres :=
  match st, args with
  | SDeleteAll, [] => XAffected [] (lenN t)
  | SInsert cols oc, _ =>
      match row_of cols args with
      | None => XBad
      | Some (k, (c, v)) =>
          match lookup k t with
          | None => XAffected (upd k (c, v) t) 1
          | Some (c0, v0) =>
              match oc with
              | OcNone => XConstraint
              | OcNothing => XAffected t 0
              | OcSetV => XAffected (upd k (c0, v) t) 1
              | OcAppendV => XAffected (upd k (c0, v0 ++ v) t) 1
              | OcUnknown _ => XBad
              end
          end
      end
  | SUpdate setc CK, [val; k] =>
      match lookup k t with
      | None => XAffected t 0
      | Some (c0, v0) =>
          match setc with
          | CV => XAffected (upd k (c0, val) t) 1
          | CC => XAffected (upd k (val, v0) t) 1
          | CK => XBad
          end
      end
  | SDelete CK, [k] =>
      match lookup k t with
      | None => XAffected t 0
      | Some _ => XAffected (del k t) 1
      end
  | SSelect SelV (Some CK) OrdNone false, [k] =>
      XVals (match lookup k t with Some (_, v) => [v] | None => [] end)
  | SSelect SelOne (Some CK) OrdNone false, [k] =>
      XVals (match lookup k t with Some _ => [[49]] | None => [] end)
  | SSelect SelCount None OrdNone false, [] => XCount (lenN t)
  | SSelect SelKCV wh o lim, _ =>
      match (match wh, args with
             | None, [] => Some t
             | Some CC, [c] => Some (filter (has_class c) t)
             | _, _ => None
             end) with
      | None => XBad
      | Some rows =>
          match order_rows o desc rows with
          | None => XBad
          | Some srt =>
              match (if lim then sql_window off n srt else Some srt) with
              | Some rows => XRows rows
              | None => XBad
              end
          end
      end
  | _, _ => XBad
  end.

(** * Binding Go values to a call *)

Record env := mkEnv {
  e_k : bytes; e_cls : bytes; e_bs : bytes; e_new : bytes;
  e_n : N; e_off : N; e_desc : bool }.

Definition env0 : env := mkEnv [] [] [] [] 0 0 false.

Definition arg_val (e : env) (g : garg) : option bytes :=
  match g with
  | GK => Some (e_k e) | GCls => Some (e_cls e) | GBs => Some (e_bs e)
  | GNew => Some (e_new e) | GEmpty => Some []
  | _ => None
  end.

Fixpoint map_opt {A B} (f : A -> option B) (l : list A) : option (list B) :=
  match l with
  | [] => Some []
  | x :: t => match f x, map_opt f t with Some y, Some r => Some (y :: r) | _, _ => None end
  end.

Definition garg_is (g : garg) (tag : N) : bool :=
  match g, tag with
  | GTable, 0 | GOrder, 1 | GN, 2 | GOff, 3 => true
  | _, _ => false
  end.

(** The Sprintf arguments expected by each statement shape: the table name,
    and for windows the direction, then the limit, then the offset. *)
Definition fmt_okb (st : stmt) (fm : list garg) : bool :=
  match st, fm with
  | SInsert _ OcAppendV, [a; b] => garg_is a 0 && garg_is b 0
  | SSelect _ _ OrdDyn true, [a; b; c; d] =>
      garg_is a 0 && garg_is b 1 && garg_is c 2 && garg_is d 3
  | SSelect _ _ OrdDyn _, _ => false
  | SSelect _ _ _ true, _ => false
  | SInsert _ OcAppendV, _ => false
  | _, [a] => garg_is a 0
  | _, _ => false
  end.

Definition run_call (c : call) (e : env) (t : table) : xres :=
  if fmt_okb (c_stmt c) (c_fmt c) then
    match map_opt (arg_val e) (c_args c) with
    | Some args => exec (c_stmt c) (e_desc e) (e_n e) (e_off e) args t
    | None => XBad
    end
  else XBad.

Definition run_method_call (tbl : methods) (name : string) (i : nat) (e : env) (t : table) : xres :=
  match call_of tbl name i with
  | Some c => run_call c e t
  | None => XBad
  end.

(** sqlResError *)
Definition res_error (n : N) : result :=
  if n =? 0 then RErr ENotFound else if n =? 1 then RUnit else RErr EOther.

(** A method of the shape [res, err := X(q, ...); (return sqlResError(res))]. *)
Definition exec_method (tbl : methods) (name : string) (e : env) (t : table) : table * result :=
  match run_method_call tbl name 0 e t with
  | XAffected t' n =>
      if has_reserr (method_evs tbl name) then (t', res_error n) else (t', RUnit)
  | XConstraint => (t, RErr EExists)
  | _ => (t, RErr EOther)
  end.

Definition rows_method (tbl : methods) (name : string) (e : env) (f : walkfn) (t : table)
  : table * result :=
  match run_method_call tbl name 0 e t with
  | XRows rows => (t, walk_result f rows)
  | _ => (t, RErr EOther)
  end.

Definition sql_step (tbl : methods) (t : table) (o : bop) : table * result :=
  match o with
  | BClear => exec_method tbl "clear" env0 t
  | BAdd k c v => exec_method tbl "add" (mkEnv k c v [] 0 0 false) t
  | BGet k =>
      match run_method_call tbl "get" 0 (mkEnv k [] [] [] 0 0 false) t with
      | XVals [] => (t, RErr ENotFound)
      | XVals (v :: _) => (t, RBytes v)
      | _ => (t, RErr EOther)
      end
  | BHas k =>
      match run_method_call tbl "has" 0 (mkEnv k [] [] [] 0 0 false) t with
      | XVals [] => (t, RBool false)
      | XVals (_ :: _) => (t, RBool true)
      | _ => (t, RErr EOther)
      end
  | BSet k v => exec_method tbl "set" (mkEnv k [] v [] 0 0 false) t
  | BSetClass k c => exec_method tbl "setClass" (mkEnv k c [] [] 0 0 false) t
  | BRemove k => exec_method tbl "remove" (mkEnv k [] [] [] 0 0 false) t
  | BEmplace k c v => exec_method tbl "emplace" (mkEnv k c v [] 0 0 false) t
  | BReplace k c v => exec_method tbl "replace" (mkEnv k c v [] 0 0 false) t
  | BAppend k v => exec_method tbl "appendBytes" (mkEnv k [] v [] 0 0 false) t
  | BMutate k f =>
      (* Begin; select; f; update; sqlResError; Commit -- a return before
         Commit runs the deferred Rollback, which restores [t] *)
      match run_method_call tbl "mutate" 0 (mkEnv k [] [] [] 0 0 false) t with
      | XVals [] => (t, RErr ENotFound)
      | XVals (v :: _) =>
          match f v with
          | MFail e => (t, RErr e)
          | MSet v' =>
              match run_method_call tbl "mutate" 1 (mkEnv k [] [] v' 0 0 false) t with
              | XAffected t' n =>
                  match res_error n with
                  | RUnit => (t', RUnit)
                  | r => (t, r)
                  end
              | _ => (t, RErr EOther)
              end
          end
      | _ => (t, RErr EOther)
      end
  | BCount =>
      match run_method_call tbl "count" 0 env0 t with
      | XCount n => (t, RCount n)
      | _ => (t, RErr EOther)
      end
  | BWalk f => rows_method tbl "walk" env0 f t
  | BWalkClass c f => rows_method tbl "walkClass" (mkEnv [] c [] [] 0 0 false) f t
  | BWalkPartial off n desc f =>
      rows_method tbl "walkPartial" (mkEnv [] [] [] [] n off desc) f t
  | BWalkPartialClass c off n desc f =>
      rows_method tbl "walkPartialClass" (mkEnv [] c [] [] n off desc) f t
  end.

(** * The deployed statement table (both SQL backends) *)

Local Open Scope string_scope.

Definition sel_where_k (w : sel) : stmt := SSelect w (Some CK) OrdNone false.

Definition deployed_methods : methods := [
  ("clear", [ ECall HDb FX SDeleteAll [GTable] []; ERet "err" ]);
  ("add", [ ECall HDb FX (SInsert [CK; CC; CV] OcNone) [GTable] [GK; GCls; GBs]; ERet "err" ]);
  ("get", [ ECall HDb FQ1 (sel_where_k SelV) [GTable] [GK]; EScan "nil, notFound"; ERet "bs, nil" ]);
  ("has", [ ECall HDb FQ1 (sel_where_k SelOne) [GTable] [GK]; EScan "false, nil"; ERet "true, nil" ]);
  ("set", [ ECall HDb FX (SUpdate CV CK) [GTable] [GBs; GK]; EResErr ]);
  ("setClass", [ ECall HDb FX (SUpdate CC CK) [GTable] [GCls; GK]; EResErr ]);
  ("remove", [ ECall HDb FX (SDelete CK) [GTable] [GK]; EResErr ]);
  ("emplace", [ ECall HDb FX (SInsert [CK; CV; CC] OcNothing) [GTable] [GK; GBs; GCls]; ERet "err" ]);
  ("replace", [ ECall HDb FX (SInsert [CK; CV; CC] OcSetV) [GTable] [GK; GBs; GCls]; ERet "err" ]);
  ("appendBytes", [ ECall HDb FX (SInsert [CK; CV; CC] OcAppendV) [GTable; GTable] [GK; GBs; GEmpty];
                    ERet "err" ]);
  ("mutate", [ EBegin; EDeferRollback;
               ECall HTx FQ1 (sel_where_k SelV) [GTable] [GK]; EScan "notFound";
               ECallUser;
               ECall HTx FX (SUpdate CV CK) [GTable] [GNew; GK]; EResErr;
               ECommit ]);
  ("count", [ ECall HDb FQ1 (SSelect SelCount None OrdNone false) [GTable] [];
              EScan "0, errcode.Internalf(""count returns nothing"")"; ERet "v, nil" ]);
  ("walk", [ ECall HDb FQ (SSelect SelKCV None OrdAsc false) [GTable] []; EDeferClose; EIterRows ]);
  ("walkClass", [ ECall HDb FQ (SSelect SelKCV (Some CC) OrdAsc false) [GTable] [GCls];
                  EDeferClose; EIterRows ]);
  ("walkPartial", [ ECall HDb FQ (SSelect SelKCV None OrdDyn true) [GTable; GOrder; GN; GOff] [];
                    EDeferClose; EIterRows ]);
  ("walkPartialClass", [ ECall HDb FQ (SSelect SelKCV (Some CC) OrdDyn true)
                           [GTable; GOrder; GN; GOff] [GCls];
                         EDeferClose; EIterRows ])
].
