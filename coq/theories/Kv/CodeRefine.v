(** pisces' key mapping as it is written NOW (Gen/CodeKv.v, translated from
    kv_key.go by gen/gotrans.go on every run) computes the model [map_key] of
    Kv/Spec.v, for every hash function, key and mode.  Candidates for the
    counterexample search: CodeCands.v. *)
From Coq Require Import List NArith ZArith Bool Lia.
From Coq Require Import ZifyN ZifyNat ZifyBool.
From Verif Require Import Lib.Path Lib.GoLib Kv.KeyOrd Kv.AList Kv.Spec Kv.Mem Kv.Facts Kv.Refine Gen.CodeKv Kv.CodeCands.
Import ListNotations.
Local Open Scope N_scope.

Lemma gen_kvMapKey_is_model : forall (hk : key -> key) (k : key) (ordered : bool),
  kv_key_res (gen_pisces_kvMapKey hk k ordered) = map_key 255 ordered hk k.
Proof.
  intros. unfold gen_pisces_kvMapKey, gen_pisces_keyHash, gen_pisces_MaxKeyLen, map_key, kv_key_res, lenN.
  rewrite ?go_len_N.
  go_cases; cbn [fst snd]; try reflexivity; go_arith; lia.
Qed.

(** Read over the code: an ordered store accepts exactly the keys of at most
    255 bytes and uses them unchanged; an unordered store hashes. *)
Lemma code_map_key_ordered : forall hk k,
  (lenN k <= 255 -> gen_pisces_kvMapKey hk k true = (k, None)) /\
  (255 < lenN k -> go_isnil (snd (gen_pisces_kvMapKey hk k true)) = false).
Proof.
  intros. unfold gen_pisces_kvMapKey, gen_pisces_MaxKeyLen, lenN. rewrite ?go_len_N.
  split; intros; go_cases; cbn [fst snd go_isnil]; try reflexivity; go_arith; lia.
Qed.

Lemma code_map_key_hashed : forall hk k, gen_pisces_kvMapKey hk k false = (hk k, None).
Proof. intros. unfold gen_pisces_kvMapKey, gen_pisces_keyHash. go_cases; reflexivity. Qed.

(** [partialKeys] (mem_kv.go), in the translator's checked mode: [None] is
    the slice-bounds panic of [keys[start:end]] — the same [None] as the
    model's, for all offsets and counts (the sum wraps at 2^64 on both
    sides).  A slice holds fewer than 2^64 keys. *)
Lemma gen_partialKeys_is_model : forall (off n : N) (ks : list (list N)),
  lenN ks < two64 ->
  gen_pisces_partialKeys (Z.of_N off) (Z.of_N n) ks = partial_keys off n ks.
Proof.
  intros off n ks Hl.
  unfold gen_pisces_partialKeys, partial_keys, go_slice_ok, lenN, two64 in *.
  rewrite (wrap_u64_len ks Hl), <- N2Z.inj_add, wrap_u64_of_N, ?go_len_N.
  generalize ((off + n) mod 18446744073709551616); intros e0.
  cbv zeta. unfold key, bytes in *.
  go_cases; go_arith; try (exfalso; lia); rewrite ?go_slice_N by lia; reflexivity.
Qed.

(** Read over the code: without wrap the window is rows [off, off+n). *)
Lemma code_partial_keys_window : forall (off n : N) (ks : list (list N)),
  lenN ks < two64 -> off + n < two64 ->
  gen_pisces_partialKeys (Z.of_N off) (Z.of_N n) ks = Some (window off n ks).
Proof.
  intros off n ks Hl Hw. rewrite gen_partialKeys_is_model by exact Hl.
  now apply partial_keys_nowrap.
Qed.

Lemma cex_kv_none : cex_kvMapKey = [] /\ cex_partialKeys = [].
Proof. vm_compute. split; reflexivity. Qed.
