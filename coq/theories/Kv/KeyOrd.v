(** Byte-wise lexicographic order on keys (Go string comparison; SQLite's
    BINARY collation on text).  Keys, classes and values are byte strings. *)
From Coq Require Import List NArith Bool Lia.
Import ListNotations.
Local Open Scope N_scope.

Definition bytes := list N.
Definition key := bytes.

Fixpoint kcmp (a b : key) : comparison :=
  match a, b with
  | [], [] => Eq
  | [], _ :: _ => Lt
  | _ :: _, [] => Gt
  | x :: a', y :: b' =>
      match N.compare x y with
      | Eq => kcmp a' b'
      | c => c
      end
  end.

Definition kltb (a b : key) : bool := match kcmp a b with Lt => true | _ => false end.
Definition kgtb (a b : key) : bool := kltb b a.
Definition keqb (a b : key) : bool := match kcmp a b with Eq => true | _ => false end.

Lemma kcmp_eq a b : kcmp a b = Eq <-> a = b.
Proof.
  revert b. induction a as [|x a IH]; intros [|y b]; cbn [kcmp]; split; intros H;
    try reflexivity; try discriminate.
  - destruct (N.compare_spec x y) as [E|E|E]; try discriminate.
    subst. f_equal. now apply IH.
  - injection H as -> ->. rewrite N.compare_refl. now apply IH.
Qed.

Lemma kcmp_refl a : kcmp a a = Eq.
Proof. now apply kcmp_eq. Qed.

Lemma kcmp_opp a b : kcmp b a = CompOpp (kcmp a b).
Proof.
  revert b. induction a as [|x a IH]; intros [|y b]; cbn [kcmp CompOpp]; try reflexivity.
  rewrite (N.compare_antisym x y).
  destruct (N.compare x y); cbn [CompOpp]; auto.
Qed.

Lemma kcmp_lt_trans a b c : kcmp a b = Lt -> kcmp b c = Lt -> kcmp a c = Lt.
Proof.
  revert b c. induction a as [|x a IH]; intros [|y b] [|z c]; cbn [kcmp];
    try discriminate; try reflexivity.
  destruct (N.compare_spec x y) as [E1|E1|E1]; try discriminate;
  destruct (N.compare_spec y z) as [E2|E2|E2]; try discriminate; intros H1 H2.
  - subst. rewrite N.compare_refl. eauto.
  - subst. apply N.compare_lt_iff in E2. now rewrite E2.
  - subst. apply N.compare_lt_iff in E1. now rewrite E1.
  - assert (x < z) as E by lia. apply N.compare_lt_iff in E. now rewrite E.
Qed.

Lemma keqb_eq a b : keqb a b = true <-> a = b.
Proof.
  unfold keqb. rewrite <- kcmp_eq. destruct (kcmp a b); split; intros; congruence.
Qed.

Lemma keqb_refl a : keqb a a = true.
Proof. now apply keqb_eq. Qed.

Lemma keqb_neq a b : keqb a b = false <-> a <> b.
Proof.
  rewrite <- keqb_eq. destruct (keqb a b); split; intros; congruence.
Qed.

Lemma keqb_sym a b : keqb a b = keqb b a.
Proof.
  destruct (keqb a b) eqn:E.
  - apply keqb_eq in E. subst. now rewrite keqb_refl.
  - symmetry. apply keqb_neq. apply keqb_neq in E. congruence.
Qed.

Lemma kltb_irrefl a : kltb a a = false.
Proof. unfold kltb. now rewrite kcmp_refl. Qed.

Lemma kltb_trans a b c : kltb a b = true -> kltb b c = true -> kltb a c = true.
Proof.
  unfold kltb. destruct (kcmp a b) eqn:E1; try discriminate.
  destruct (kcmp b c) eqn:E2; try discriminate.
  now rewrite (kcmp_lt_trans _ _ _ E1 E2).
Qed.

Lemma kltb_total a b : kltb a b = false -> kltb b a = false -> a = b.
Proof.
  unfold kltb. rewrite (kcmp_opp a b).
  destruct (kcmp a b) eqn:E; cbn [CompOpp]; try discriminate.
  intros _ _. now apply kcmp_eq.
Qed.

Lemma kgtb_irrefl a : kgtb a a = false.
Proof. apply kltb_irrefl. Qed.

Lemma kgtb_trans a b c : kgtb a b = true -> kgtb b c = true -> kgtb a c = true.
Proof. unfold kgtb. intros. eapply kltb_trans; eauto. Qed.

Lemma kgtb_total a b : kgtb a b = false -> kgtb b a = false -> a = b.
Proof. unfold kgtb. intros. now apply kltb_total. Qed.
