(** Unordered (key-hashing) stores as a map from the user's keys.

    The wrapper of an unordered store hands [hk k] (hashutil.HashStr) to the
    backend; the refinement theorems therefore speak about a reference map
    keyed by hashed keys.  The statement of the property speaks about "a
    simple reference map from key to (class, value)" that "accepts any key".
    The two coincide exactly when the hash does not identify two keys that
    are used: for every history whose keys lie in a set on which [hk] is
    injective, every call other than a full walk returns what the map keyed
    by the user's own keys returns (full walks visit the same entries, in the
    order of the hashed keys, which the user cannot relate to his keys; the
    statement asks for "the store's key order").  Without injectivity the
    statement is false ([colliding_keys_refuted]). *)
From Coq Require Import List Arith NArith Bool Lia.
From Verif Require Import Kv.KeyOrd Kv.AList Kv.Spec Kv.Refine Kv.Facts.
Import ListNotations.

Lemma del_absent {V} k (s : list (key * V)) : lookup k s = None -> del k s = s.
Proof.
  induction s as [|[k0 v0] t IH]; cbn [lookup del]; [reflexivity|].
  destruct (keqb k k0); [discriminate|]. intros H. f_equal. now apply IH.
Qed.

Lemma length_del {V} k (s : list (key * V)) :
  nodupk s ->
  length (del k s) = match lookup k s with Some _ => pred (length s) | None => length s end.
Proof.
  induction s as [|[k0 v0] t IH]; cbn [nodupk lookup del length]; [reflexivity|].
  intros [Hn Hnd]. destruct (keqb k k0) eqn:E.
  - apply keqb_eq in E. subst k0. now rewrite (del_absent k t Hn).
  - cbn [length]. rewrite (IH Hnd). destruct (lookup k t) eqn:El; [|reflexivity].
    destruct t; [discriminate|]. reflexivity.
Qed.

Lemma length_sset k e (s : table) :
  sortedA s ->
  length (sset k e s) = match lookup k s with Some _ => length s | None => S (length s) end.
Proof.
  unfold sset. induction s as [|[k0 e0] t IH]; cbn [sput lookup length sorted]; [reflexivity|].
  intros [Hb Hs]. destruct (keqb k k0) eqn:E; [reflexivity|].
  destruct (kltb k k0) eqn:El.
  - cbn [length].
    rewrite (below_lookup_none kltb kltb_irrefl kltb_trans kltb_total k t
               (below_trans kltb kltb_irrefl kltb_trans kltb_total k k0 t El Hb)).
    reflexivity.
  - cbn [length]. rewrite (IH Hs). destruct (lookup k t); reflexivity.
Qed.

Section Hashed.
  Variable maxlen : N.
  Variable hk : key -> key.
  Variable jv : bytes -> bool.
  Variable K : list key.
  Hypothesis hk_inj : forall a b, In a K -> In b K -> hk a = hk b -> a = b.

  Notation stepH := (kv_step maxlen false hk jv spec_step).
  Notation stepU := (kv_step maxlen false (fun k => k) jv spec_step).

  Definition rel (sH sU : table) : Prop :=
    sortedA sH /\ sortedA sU /\
    (forall k, In k K -> lookup (hk k) sH = lookup k sU) /\
    (forall k', lookup k' sH <> None -> exists k, In k K /\ k' = hk k) /\
    (forall k, lookup k sU <> None -> In k K) /\
    length sH = length sU.

  Lemma keqb_hk a b : In a K -> In b K -> keqb (hk a) (hk b) = keqb a b.
  Proof.
    intros Ha Hb. destruct (keqb a b) eqn:E.
    - apply keqb_eq in E. subst. apply keqb_refl.
    - apply keqb_neq. intros H. apply keqb_neq in E. apply E. now apply hk_inj.
  Qed.

  Lemma rel_nil : rel [] [].
  Proof.
    repeat split; cbn; auto; intros ? H; now elim H.
  Qed.

  Lemma rel_sset sH sU k e : rel sH sU -> In k K -> rel (sset (hk k) e sH) (sset k e sU).
  Proof.
    intros (H1 & H2 & H3 & H4 & H5 & H6) Hk. repeat split.
    - now apply sorted_sset.
    - now apply sorted_sset.
    - intros k2 Hk2. rewrite !lookup_sset. rewrite keqb_hk by assumption.
      destruct (keqb k2 k); [reflexivity|now apply H3].
    - intros k' Hl. rewrite lookup_sset in Hl. destruct (keqb k' (hk k)) eqn:E.
      + apply keqb_eq in E. eauto.
      + now apply H4.
    - intros k2 Hl. rewrite lookup_sset in Hl. destruct (keqb k2 k) eqn:E.
      + apply keqb_eq in E. now subst.
      + now apply H5.
    - rewrite !length_sset by assumption. rewrite (H3 k Hk), H6. reflexivity.
  Qed.

  Lemma rel_del sH sU k : rel sH sU -> In k K -> rel (del (hk k) sH) (del k sU).
  Proof.
    intros (H1 & H2 & H3 & H4 & H5 & H6) Hk. repeat split.
    - now apply sorted_sdel.
    - now apply sorted_sdel.
    - intros k2 Hk2. rewrite !lookup_del. rewrite keqb_hk by assumption.
      destruct (keqb k2 k); [reflexivity|now apply H3].
    - intros k' Hl. rewrite lookup_del in Hl. destruct (keqb k' (hk k)); [now elim Hl|now apply H4].
    - intros k2 Hl. rewrite lookup_del in Hl. destruct (keqb k2 k); [now elim Hl|now apply H5].
    - rewrite !length_del by (apply (sorted_nodupk kltb kltb_irrefl kltb_trans kltb_total); assumption).
      rewrite (H3 k Hk), H6. reflexivity.
  Qed.

  (** the calls of the statement on one key, Count and Clear; partial walks
      are refused by an unordered store; full walks are excluded (their order
      is that of the hashed keys) *)
  Definition uop_in (u : uop) : Prop :=
    match u with
    | UAdd k _ | UAddClass k _ _ | USetClass k _ | URemove k | UGet k | UGetBytes k | UHas k
    | UEmplace k _ | UReplace k _ | UAppendBytes k _ | USetBytes k _ | USet k _ | UMutate k _ => In k K
    | UWalk _ | UWalkClass _ _ => False
    | _ => True
    end.

  Lemma lenN_eq (a b : table) : length a = length b -> lenN a = lenN b.
  Proof. unfold lenN. now intros ->. Qed.

  Lemma step_hashed sH sU u :
    rel sH sU -> uop_in u ->
    rel (fst (stepH sH u)) (fst (stepU sU u)) /\ snd (stepH sH u) = snd (stepU sU u).
  Proof.
    intros HR Hu. pose proof HR as (H1 & H2 & H3 & H4 & H5 & H6).
    assert (forall k, In k K ->
              forall P : option entry -> option entry -> Prop,
              (forall o, P o o) -> P (lookup (hk k) sH) (lookup k sU)) as Hlk.
    { intros k Hk P HP. rewrite (H3 k Hk). apply HP. }
    destruct u; cbn [uop_in] in Hu; try (now elim Hu);
      cbn [kv_step]; unfold with_key, map_key, post; cbn [fst snd spec_step].
    - (* UAdd *) rewrite (H3 k Hu). destruct (lookup k sU); cbn [fst snd]; auto using rel_sset.
    - (* UAddClass *) rewrite (H3 k Hu). destruct (lookup k sU); cbn [fst snd]; auto using rel_sset.
    - (* USetClass *) rewrite (H3 k Hu). destruct (lookup k sU) as [[c0 v0]|]; cbn [fst snd]; auto using rel_sset.
    - (* URemove *) rewrite (H3 k Hu). destruct (lookup k sU); cbn [fst snd]; auto using rel_del.
    - (* UGet *) rewrite (H3 k Hu). destruct (lookup k sU) as [[c0 v0]|]; cbn [fst snd]; auto.
    - (* UGetBytes *) rewrite (H3 k Hu). destruct (lookup k sU) as [[c0 v0]|]; cbn [fst snd]; auto.
    - (* UHas *) rewrite (H3 k Hu). auto.
    - (* UEmplace *) rewrite (H3 k Hu). destruct (lookup k sU); cbn [fst snd]; auto using rel_sset.
    - (* UReplace *) rewrite (H3 k Hu). destruct (lookup k sU) as [[c0 v0]|]; cbn [fst snd]; auto using rel_sset.
    - (* UAppendBytes *) rewrite (H3 k Hu). destruct (lookup k sU) as [[c0 v0]|]; cbn [fst snd]; auto using rel_sset.
    - (* USetBytes *) rewrite (H3 k Hu). destruct (lookup k sU) as [[c0 v0]|]; cbn [fst snd]; auto using rel_sset.
    - (* USet *) rewrite (H3 k Hu). destruct (lookup k sU) as [[c0 v0]|]; cbn [fst snd]; auto using rel_sset.
    - (* UMutate *) rewrite (H3 k Hu). destruct (lookup k sU) as [[c0 v0]|]; cbn [fst snd]; [|now auto].
      destruct (jv v0); cbn [fst snd]; [|now auto].
      destruct (f v0); cbn [fst snd]; auto using rel_sset.
    - (* UCount *) split; [exact HR|]. f_equal. now apply lenN_eq.
  Qed.

  Theorem run_hashed uops : forall sH sU,
    rel sH sU -> Forall uop_in uops ->
    rel (fst (run stepH sH uops)) (fst (run stepU sU uops)) /\
    snd (run stepH sH uops) = snd (run stepU sU uops).
  Proof.
    induction uops as [|u uops IH]; intros sH sU HR Hall; cbn [run]; [now auto|].
    inversion Hall as [|? ? Hu Hus]; subst.
    destruct (step_hashed sH sU u HR Hu) as [HR1 Hr1].
    destruct (stepH sH u) as [sH1 r1], (stepU sU u) as [sU1 r1']. cbn [fst snd] in *. subst r1'.
    destruct (IH sH1 sU1 HR1 Hus) as [HR2 Hr2].
    destruct (run stepH sH1 uops) as [sH2 rs], (run stepU sU1 uops) as [sU2 rs']. cbn [fst snd] in *.
    subst. auto.
  Qed.
End Hashed.

(** An unordered store returns, for every history of keyed calls, Count and
    Clear whose keys the hash keeps apart, what the map keyed by the user's
    own keys returns - and that map accepts every key. *)
Theorem unordered_is_user_key_map maxlen hk jv K uops :
  (forall a b, In a K -> In b K -> hk a = hk b -> a = b) ->
  Forall (uop_in K) uops ->
  snd (run (kv_step maxlen false hk jv spec_step) [] uops)
  = snd (run (kv_step maxlen false (fun k => k) jv spec_step) [] uops).
Proof.
  intros Hinj Hall.
  exact (proj2 (run_hashed maxlen hk jv K Hinj uops [] [] (rel_nil hk K) Hall)).
Qed.

Local Open Scope N_scope.

(** two keys with one hash are one entry: the second Add fails *)
Example colliding_keys_refuted :
  let hk := fun _ : key => [0] in
  let uops := [UAdd [97] [49]; UAdd [98] [50]; UCount] in
  snd (run (kv_step 255 false hk (fun _ => true) spec_step) [] uops) = [RUnit; RErr EExists; RCount 1] /\
  snd (run (kv_step 255 false (fun k => k) (fun _ => true) spec_step) [] uops) = [RUnit; RUnit; RCount 2].
Proof. vm_compute. split; reflexivity. Qed.
