(** The clauses of the statement, read off the reference map, and the key
    mapping of the wrapper.  Through the refinement theorems (Refine.v) every
    clause holds of the memory and SQL backends on every history. *)
From Coq Require Import List Arith NArith Bool Lia.
From Verif Require Import Kv.KeyOrd Kv.AList Kv.Spec Kv.Mem Kv.Sql Kv.Refine.
Import ListNotations.
Local Open Scope N_scope.

Lemma lookup_sset k e s k' :
  lookup k' (sset k e s) = if keqb k' k then Some e else lookup k' s.
Proof. exact (lookup_sput kltb kltb_irrefl kltb_trans kltb_total k e s k'). Qed.

(** add fails on an existing key and changes nothing *)
Lemma add_existing_fails s k c v e :
  lookup k s = Some e -> spec_step s (BAdd k c v) = (s, RErr EExists).
Proof. intros H. cbn [spec_step]. now rewrite H. Qed.

Lemma add_missing_inserts s k c v :
  lookup k s = None ->
  snd (spec_step s (BAdd k c v)) = RUnit /\
  forall k', lookup k' (fst (spec_step s (BAdd k c v)))
             = if keqb k' k then Some (c, v) else lookup k' s.
Proof.
  intros H. cbn [spec_step]. rewrite H. cbn [fst snd]. split; [reflexivity|].
  intros k'. apply lookup_sset.
Qed.

(** set / set-class / remove / mutate / get report not-found on a missing key
    and change nothing *)
Lemma missing_not_found s k :
  lookup k s = None ->
  (forall v, spec_step s (BSet k v) = (s, RErr ENotFound)) /\
  (forall c, spec_step s (BSetClass k c) = (s, RErr ENotFound)) /\
  spec_step s (BRemove k) = (s, RErr ENotFound) /\
  (forall f, spec_step s (BMutate k f) = (s, RErr ENotFound)) /\
  spec_step s (BGet k) = (s, RErr ENotFound) /\
  spec_step s (BHas k) = (s, RBool false).
Proof. intros H. cbn [spec_step]. rewrite H. repeat split. Qed.

(** emplace never overwrites *)
Lemma emplace_never_overwrites s k c v e :
  lookup k s = Some e -> spec_step s (BEmplace k c v) = (s, RUnit).
Proof. intros H. cbn [spec_step]. now rewrite H. Qed.

(** replace and append upsert; an existing entry keeps its class; no other
    key is touched *)
Lemma replace_upserts s k c v :
  let s' := fst (spec_step s (BReplace k c v)) in
  snd (spec_step s (BReplace k c v)) = RUnit /\
  lookup k s' = Some (match lookup k s with Some (c0, _) => c0 | None => c end, v) /\
  forall k', k' <> k -> lookup k' s' = lookup k' s.
Proof.
  cbn [spec_step]. destruct (lookup k s) as [[c0 v0]|]; cbn [fst snd];
    (split; [reflexivity|split]).
  all: try (rewrite lookup_sset, keqb_refl; reflexivity).
  all: intros k' Hk; rewrite lookup_sset; apply keqb_neq in Hk; now rewrite Hk.
Qed.

Lemma append_upserts s k v :
  let s' := fst (spec_step s (BAppend k v)) in
  snd (spec_step s (BAppend k v)) = RUnit /\
  lookup k s' = Some (match lookup k s with Some (c0, v0) => (c0, v0 ++ v) | None => ([], v) end) /\
  forall k', k' <> k -> lookup k' s' = lookup k' s.
Proof.
  cbn [spec_step]. destruct (lookup k s) as [[c0 v0]|]; cbn [fst snd];
    (split; [reflexivity|split]).
  all: try (rewrite lookup_sset, keqb_refl; reflexivity).
  all: intros k' Hk; rewrite lookup_sset; apply keqb_neq in Hk; now rewrite Hk.
Qed.

(** a failed or cancelled mutate changes nothing *)
Lemma failed_mutate_noop s k f c v e :
  @lookup entry k s = Some (c, v) -> f v = MFail e -> spec_step s (BMutate k f) = (s, RErr e).
Proof. intros H Hf. cbn [spec_step]. now rewrite H, Hf. Qed.

Lemma successful_mutate s k f c v v' :
  @lookup entry k s = Some (c, v) -> f v = MSet v' ->
  snd (spec_step s (BMutate k f)) = RUnit /\
  forall k', lookup k' (fst (spec_step s (BMutate k f)))
             = if keqb k' k then Some (c, v') else lookup k' s.
Proof.
  intros H Hf. cbn [spec_step]. rewrite H, Hf. cbn [fst snd]. split; [reflexivity|].
  intros k'. apply lookup_sset.
Qed.

(** ... also through the wrapper, where a cancelled mutate returns nil *)
Lemma kv_cancelled_mutate_noop maxlen ordered hk jv s k mk c v f :
  map_key maxlen ordered hk k = Some mk -> @lookup entry mk s = Some (c, v) ->
  jv v = true -> f v = MFail ECancel ->
  kv_step maxlen ordered hk jv spec_step s (UMutate k f) = (s, RUnit).
Proof.
  intros Hk Hl Hj Hf. cbn [kv_step]. unfold with_key, post. rewrite Hk.
  cbn [spec_step]. rewrite Hl, Hj, Hf. reflexivity.
Qed.

Lemma kv_undecodable_mutate_noop maxlen ordered hk jv s k mk c v f :
  map_key maxlen ordered hk k = Some mk -> @lookup entry mk s = Some (c, v) ->
  jv v = false ->
  kv_step maxlen ordered hk jv spec_step s (UMutate k f) = (s, RErr EDecode).
Proof.
  intros Hk Hl Hj. cbn [kv_step]. unfold with_key, post. rewrite Hk.
  cbn [spec_step]. rewrite Hl, Hj. reflexivity.
Qed.

(** count / has / get agree with the map *)
Lemma count_has_get s k :
  spec_step s BCount = (s, RCount (lenN s)) /\
  spec_step s (BHas k) = (s, RBool (match lookup k s with Some _ => true | None => false end)) /\
  spec_step s (BGet k) = (s, match lookup k s with Some (_, v) => RBytes v | None => RErr ENotFound end).
Proof. cbn [spec_step]. destruct (lookup k s) as [[c v]|]; auto. Qed.

(** walks: the items handed to the callback are exactly the live entries
    (of the class), in ascending key order, reversed when descending, cut to
    rows [off, off+n) *)
Lemma sorted_in_lookup (s : table) k e : sortedA s -> (In (k, e) s <-> lookup k s = Some e).
Proof.
  intros Hs. split.
  - apply in_lookup_nodup. exact (sorted_nodupk kltb kltb_irrefl kltb_trans kltb_total s Hs).
  - apply lookup_in.
Qed.

Lemma walk_items_exact (s : table) c :
  sortedA s ->
  sortedA (filter (has_class c) s) /\
  forall k e, In (k, e) (filter (has_class c) s) <-> (lookup k s = Some e /\ fst e = c).
Proof.
  intros Hs. split.
  - exact (sorted_filter kltb kltb_irrefl kltb_trans kltb_total _ s Hs).
  - intros k e. rewrite filter_In, (sorted_in_lookup s k e Hs). unfold has_class. cbn [snd].
    rewrite keqb_eq. tauto.
Qed.

Lemma walk_desc_sorted (s : table) : sortedA s -> sorted kgtb (rev s).
Proof. apply sorted_rev_gt. Qed.

Lemma walk_exact s f c off n desc :
  spec_step s (BWalk f) = (s, walk_result f s) /\
  spec_step s (BWalkClass c f) = (s, walk_result f (filter (has_class c) s)) /\
  spec_step s (BWalkPartial off n desc f) = (s, walk_result f (window off n (dir desc s))) /\
  spec_step s (BWalkPartialClass c off n desc f)
  = (s, walk_result f (window off n (dir desc (filter (has_class c) s)))).
Proof. repeat split. Qed.

Lemma nth_error_firstn_lt {A} (l : list A) n i :
  (i < n)%nat -> nth_error (firstn n l) i = nth_error l i.
Proof.
  revert l i. induction n as [|n IH]; intros [|x l] [|i] H; cbn [firstn nth_error];
    try lia; auto. apply IH. lia.
Qed.

Lemma nth_error_skipn_add {A} (l : list A) n i :
  nth_error (skipn n l) i = nth_error l (n + i).
Proof.
  revert l. induction n as [|n IH]; intros [|x l]; cbn [skipn nth_error Nat.add]; auto.
  destruct i; reflexivity.
Qed.

(** the window is rows off .. off+n-1: its i-th element is element off+i *)
Lemma window_nth {A} (l : list A) off n i :
  (i < N.to_nat n)%nat ->
  nth_error (window off n l) i = nth_error l (N.to_nat off + i).
Proof.
  intros Hi. unfold window, lenN.
  set (L := length l).
  destruct (N.le_gt_cases (N.of_nat L) off) as [H|H].
  - rewrite (N.min_r off) by lia. rewrite Nnat.Nat2N.id.
    rewrite skipn_all2 by (fold L; lia). rewrite firstn_nil.
    symmetry. destruct i; cbn [nth_error]; [|].
    + apply nth_error_None. fold L. lia.
    + apply nth_error_None. fold L. lia.
  - rewrite (N.min_l off) by lia.
    destruct (Nat.lt_ge_cases i (N.to_nat (N.min n (N.of_nat L)))) as [H2|H2].
    + rewrite nth_error_firstn_lt by exact H2. now rewrite nth_error_skipn_add.
    + assert (N.min n (N.of_nat L) = N.of_nat L) as E by lia.
      rewrite E, Nnat.Nat2N.id in *.
      transitivity (@None A).
      * apply nth_error_None. rewrite firstn_length, skipn_length. fold L. lia.
      * symmetry. apply nth_error_None. fold L. lia.
Qed.

Lemma window_length {A} (l : list A) off n :
  length (window off n l) = Nat.min (N.to_nat (N.min n (lenN l))) (length l - N.to_nat (N.min off (lenN l))).
Proof. unfold window. now rewrite firstn_length, skipn_length. Qed.

(** ** Keys *)

(** ordered stores preserve keys verbatim ... *)
Lemma ordered_keys_verbatim maxlen hk k :
  lenN k <= maxlen -> map_key maxlen true hk k = Some k.
Proof. intros H. unfold map_key. apply N.leb_le in H. now rewrite H. Qed.

(** ... and reject over-long keys: every keyed operation fails without
    reaching the backend *)
Definition uop_key (u : uop) : option key :=
  match u with
  | UAdd k _ | UAddClass k _ _ | USetClass k _ | URemove k | UGet k | UGetBytes k | UHas k
  | UEmplace k _ | UReplace k _ | UAppendBytes k _ | USetBytes k _ | USet k _ | UMutate k _ => Some k
  | _ => None
  end.

Lemma long_keys_rejected maxlen hk jv (S : Type) (step : S -> bop -> S * result) s u k :
  uop_key u = Some k -> maxlen < lenN k ->
  kv_step maxlen true hk jv step s u = (s, RErr EKeyTooLong).
Proof.
  intros Hu Hk.
  assert (map_key maxlen true hk k = None) as Hm.
  { unfold map_key. apply N.leb_gt in Hk. now rewrite Hk. }
  destruct u; cbn [uop_key] in Hu; try discriminate; injection Hu as ->;
    cbn [kv_step]; unfold with_key; now rewrite Hm.
Qed.

(** unordered stores accept any key *)
Lemma unordered_any_key maxlen hk k : map_key maxlen false hk k = Some (hk k).
Proof. reflexivity. Qed.

(** partial walks need an ordered store *)
Lemma unordered_partial_rejected maxlen hk jv (S : Type) (step : S -> bop -> S * result) s c off n desc d :
  kv_step maxlen false hk jv step s (UWalkPartial off n desc d) = (s, RErr EUnordered) /\
  kv_step maxlen false hk jv step s (UWalkPartialClass c off n desc d) = (s, RErr EUnordered).
Proof. split; reflexivity. Qed.

(** ** The memory backend's two panic sites are unreachable *)
Lemma mem_never_panics t o :
  nodupk t -> bop_okb o = true ->
  (forall k f c v, o = BMutate k f -> lookup k t = Some (c, v) -> f v <> MFail EPanic) ->
  snd (mem_step t o) <> RErr EPanic.
Proof.
  intros Hn Hok Hf. destruct (mem_step_refines t o Hn Hok) as (_ & _ & ->).
  destruct o; cbn [spec_step]; try (destruct (lookup k (abs t)) as [[c0 v0]|] eqn:E; cbn [snd]);
    try discriminate; unfold walk_result; try (destruct (visit _ _); discriminate).
  destruct (f v0) eqn:Ef; cbn [snd]; try discriminate.
  intros [= ->]. rewrite lookup_abs in E by exact Hn. exact (Hf k f c0 v0 eq_refl E Ef).
Qed.

(** ** The window arithmetic of the memory backend on the whole uint64 range *)

Definition bop_nowrapb (o : bop) : bool :=
  match o with
  | BWalkPartial off n _ _ | BWalkPartialClass _ off n _ _ => off + n <? two64
  | _ => true
  end.

(** the range of the statement lies inside the no-wrap range *)
Lemma bop_ok_nowrap o : bop_okb o = true -> bop_nowrapb o = true.
Proof.
  destruct o; cbn [bop_okb bop_nowrapb]; auto; intros H; apply bop_ok_partial in H;
    destruct H; apply N.ltb_lt; now apply range_nowrap.
Qed.

(** no panic whenever offset + limit does not wrap around *)
Lemma mem_never_panics_nowrap t o :
  nodupk t -> bop_nowrapb o = true ->
  (forall k f c v, o = BMutate k f -> lookup k t = Some (c, v) -> f v <> MFail EPanic) ->
  snd (mem_step t o) <> RErr EPanic.
Proof.
  intros Hn Hw Hf. destruct o; try (apply mem_never_panics; auto; reflexivity);
    cbn [bop_nowrapb] in Hw; apply N.ltb_lt in Hw; cbn [mem_step snd].
  - rewrite mem_walk_partial_nowrap by assumption. unfold walk_result.
    destruct (visit _ _). discriminate.
  - rewrite mem_walk_partial_class_nowrap by assumption. unfold walk_result.
    destruct (visit _ _). discriminate.
Qed.

Lemma lenN_sort_keys desc ks : lenN (sort_keys desc ks) = lenN ks.
Proof.
  unfold sort_keys, lenN. f_equal.
  assert (forall ltb x s, length (kins ltb x s) = S (length s)) as Hk.
  { intros ltb x s. induction s as [|y s IH]; cbn [kins length]; [reflexivity|].
    destruct (ltb x y); cbn [length]; auto. }
  assert (forall ltb l, length (ksort ltb l) = length l) as Hs.
  { intros ltb l. induction l as [|x l IH]; cbn [ksort fold_right length]; [reflexivity|].
    fold (ksort ltb l). now rewrite Hk, IH. }
  destruct desc; apply Hs.
Qed.

(** ... and exactly when it does wrap around (an offset or a limit of 2^63 or
    more) with the wrapped end below the start, the slice expression of
    partialKeys panics *)
Lemma mem_partial_panics_exactly t off n desc f :
  off < two64 -> n < two64 -> nodupk t ->
  (snd (mem_step t (BWalkPartial off n desc f)) = RErr EPanic <->
   two64 <= off + n /\ N.min (off + n - two64) (lenN t) < N.min off (lenN t)).
Proof.
  intros Ho Hl Hn. cbn [mem_step snd].
  destruct (N.lt_ge_cases (off + n) two64) as [Hw|Hw].
  - rewrite mem_walk_partial_nowrap by assumption. unfold walk_result.
    destruct (visit _ _). split; [discriminate|]. intros [H _]. lia.
  - rewrite (mem_walk_wrap f t off n _ Ho Hl Hw), lenN_sort_keys.
    unfold mem_keys, lenN. rewrite map_length. fold (lenN t).
    destruct (N.ltb_spec (N.min (off + n - two64) (lenN t)) (N.min off (lenN t))) as [H|H].
    + split; auto.
    + split; [discriminate|]. intros [_ H']. lia.
Qed.

(** ** Keys: the limit is on bytes; classes and values are unconstrained *)

Lemma ordered_key_accepted_iff maxlen hk k :
  map_key maxlen true hk k = Some k <-> lenN k <= maxlen.
Proof.
  unfold map_key. destruct (N.leb_spec (lenN k) maxlen) as [H|H]; split; intros; auto; try lia.
  discriminate.
Qed.

(** a key of [m] runes of [w] bytes each is accepted by an ordered store iff
    m * w <= limit: the count of runes plays no role *)
Lemma repeated_rune_key maxlen hk (rune : bytes) (m : nat) :
  map_key maxlen true hk (List.concat (repeat rune m))
  = if N.of_nat m * lenN rune <=? maxlen then Some (List.concat (repeat rune m)) else None.
Proof.
  unfold map_key. replace (lenN (List.concat (repeat rune m))) with (N.of_nat m * lenN rune); [reflexivity|].
  unfold lenN. induction m as [|m IH]; cbn [repeat List.concat length]; [reflexivity|].
  rewrite app_length. lia.
Qed.

(** Add is AddClass with the empty class *)
Lemma add_is_addclass_empty maxlen ordered hk jv (S : Type) (step : S -> bop -> S * result) s k v :
  kv_step maxlen ordered hk jv step s (UAdd k v) = kv_step maxlen ordered hk jv step s (UAddClass k [] v).
Proof. reflexivity. Qed.

(** a class of any length is stored as given *)
Lemma class_stored_verbatim s k c v :
  lookup k s = None -> lookup k (fst (spec_step s (BAdd k c v))) = Some (c, v).
Proof.
  intros H. destruct (add_missing_inserts s k c v H) as [_ Hl]. rewrite Hl. now rewrite keqb_refl.
Qed.

(** ** Values that are not JSON: stored and returned as bytes, refused by the
    decoding readers, which leave the store unchanged *)

Lemma kv_get_undecodable maxlen ordered hk jv s k mk c v :
  map_key maxlen ordered hk k = Some mk -> @lookup entry mk s = Some (c, v) -> jv v = false ->
  kv_step maxlen ordered hk jv spec_step s (UGet k) = (s, RErr EDecode) /\
  kv_step maxlen ordered hk jv spec_step s (UGetBytes k) = (s, RBytes v).
Proof.
  intros Hk Hl Hj. cbn [kv_step]. unfold with_key, post. rewrite Hk. cbn [spec_step].
  rewrite Hl. cbn [fst snd]. now rewrite Hj.
Qed.

Lemma kv_setbytes_any_value maxlen ordered hk jv s k mk c v0 v :
  map_key maxlen ordered hk k = Some mk -> @lookup entry mk s = Some (c, v0) ->
  snd (kv_step maxlen ordered hk jv spec_step s (USetBytes k v)) = RUnit /\
  lookup mk (fst (kv_step maxlen ordered hk jv spec_step s (USetBytes k v))) = Some (c, v).
Proof.
  intros Hk Hl. cbn [kv_step]. unfold with_key. rewrite Hk. cbn [spec_step]. rewrite Hl.
  cbn [fst snd]. split; [reflexivity|]. rewrite lookup_sset. now rewrite keqb_refl.
Qed.

(** a walk hands over the entries before the first undecodable value and
    then fails with the decode error *)
Lemma visit_stops_at_undecodable jv (a b : table) k c v :
  Forall (fun p => jv (snd (snd p)) = true) a -> jv v = false ->
  visit (do_walk jv WAll) (a ++ (k, (c, v)) :: b) = (map snd a, Some EDecode).
Proof.
  intros Ha Hv. induction Ha as [|[k0 [c0 v0]] a Hx _ IH]; cbn [app visit map snd].
  - unfold do_walk. now rewrite Hv.
  - cbn [snd] in Hx. unfold do_walk at 1. rewrite Hx. now rewrite IH.
Qed.

Lemma visit_all_decodable jv (a : table) :
  Forall (fun p => jv (snd (snd p)) = true) a ->
  visit (do_walk jv WAll) a = (map snd a, None).
Proof.
  intros Ha. induction Ha as [|[k0 [c0 v0]] a Hx _ IH]; cbn [visit map snd]; [reflexivity|].
  cbn [snd] in Hx. unfold do_walk at 1. rewrite Hx. now rewrite IH.
Qed.

(** ** What a walk shows is the same whatever the callback does

    Callbacks are modelled as functions of the entry they are shown.  The
    list of entries a backend shows does not depend on the callback: it is the
    list the reference map determines (all live entries / those of the class,
    in key order, the window cut out), so a callback that keeps state between
    entries (stop after the third, ...) sees the same sequence on every
    backend. *)
Lemma backend_walks_exact step t f c off n desc :
  step_refines step -> nodupk t -> off < two63 -> n < two63 ->
  snd (step t (BWalk f)) = walk_result f (abs t) /\
  snd (step t (BWalkClass c f)) = walk_result f (filter (has_class c) (abs t)) /\
  snd (step t (BWalkPartial off n desc f)) = walk_result f (window off n (dir desc (abs t))) /\
  snd (step t (BWalkPartialClass c off n desc f))
  = walk_result f (window off n (dir desc (filter (has_class c) (abs t)))).
Proof.
  intros Hs Hn Ho Hlim.
  assert ((off <? two63) && (n <? two63) = true) as Hok.
  { apply andb_true_intro. split; now apply N.ltb_lt. }
  repeat split.
  - destruct (Hs t (BWalk f) Hn eq_refl) as (_ & _ & H). now rewrite H.
  - destruct (Hs t (BWalkClass c f) Hn eq_refl) as (_ & _ & H). now rewrite H.
  - destruct (Hs t (BWalkPartial off n desc f) Hn Hok) as (_ & _ & H). now rewrite H.
  - destruct (Hs t (BWalkPartialClass c off n desc f) Hn Hok) as (_ & _ & H). now rewrite H.
Qed.
