(** pisces KV: operations, results, the reference map (a strictly key-sorted
    association list from key to (class, value)), and the model of the KV
    wrapper of kv.go that sits on top of every backend.  Definitions only. *)
From Coq Require Import List NArith Bool.
From Verif Require Import Kv.KeyOrd Kv.AList.
Import ListNotations.
Local Open Scope N_scope.

Definition cls := bytes.
Definition entry := (cls * bytes)%type.
Definition table := list (key * entry).

Definition lenN {A} (l : list A) : N := N.of_nat (length l).

(** Projected errors (the harness projects Go errors onto the same enum). *)
Inductive err :=
| ENotFound | EExists | EKeyTooLong | EDecode | EUser | EUnordered | ECancel
| EBusy | EOther | EPanic.

Definition err_eqb (a b : err) : bool :=
  match a, b with
  | ENotFound, ENotFound | EExists, EExists | EKeyTooLong, EKeyTooLong
  | EDecode, EDecode | EUser, EUser | EUnordered, EUnordered | ECancel, ECancel
  | EBusy, EBusy | EOther, EOther | EPanic, EPanic => true
  | _, _ => false
  end.

(** What a mutate callback does with the current value. *)
Inductive mres := MSet (v : bytes) | MFail (e : err).

Inductive result :=
| RUnit
| RErr (e : err)
| RBytes (b : bytes)
| RBool (b : bool)
| RCount (n : N)
| RWalk (items : list entry) (e : option err).

(** pisces.WalkFunc: [Some e] stops the walk with error [e]. *)
Definition walkfn := key -> cls -> bytes -> option err.

(** The function table KVOps (kv_ops.go), keys already mapped. *)
Inductive bop :=
| BClear
| BAdd (k : key) (c : cls) (v : bytes)
| BGet (k : key)
| BHas (k : key)
| BSet (k : key) (v : bytes)
| BSetClass (k : key) (c : cls)
| BMutate (k : key) (f : bytes -> mres)
| BRemove (k : key)
| BEmplace (k : key) (c : cls) (v : bytes)
| BReplace (k : key) (c : cls) (v : bytes)
| BAppend (k : key) (v : bytes)
| BWalk (f : walkfn)
| BWalkClass (c : cls) (f : walkfn)
| BWalkPartial (off n : N) (desc : bool) (f : walkfn)
| BWalkPartialClass (c : cls) (off n : N) (desc : bool) (f : walkfn)
| BCount.

Definition has_class (c : cls) (p : key * entry) : bool := keqb (fst (snd p)) c.

(** Calls [f] on the items in order; the visited items are those on which it
    returned nil. *)
Fixpoint visit (f : walkfn) (items : table) : list entry * option err :=
  match items with
  | [] => ([], None)
  | (k, (c, v)) :: t =>
      match f k c v with
      | Some e => ([], Some e)
      | None => let '(r, e) := visit f t in ((c, v) :: r, e)
      end
  end.

Definition walk_result (f : walkfn) (items : table) : result :=
  let '(r, e) := visit f items in RWalk r e.

Definition dir (desc : bool) (l : table) : table := if desc then rev l else l.

(** Rows [off, off+n) of [l]. *)
Definition window {A} (off n : N) (l : list A) : list A :=
  firstn (N.to_nat (N.min n (lenN l))) (skipn (N.to_nat (N.min off (lenN l))) l).

(** * The reference map *)

Definition sset := @sput entry kltb.

Definition spec_step (s : table) (o : bop) : table * result :=
  match o with
  | BClear => ([], RUnit)
  | BAdd k c v =>
      match lookup k s with
      | Some _ => (s, RErr EExists)
      | None => (sset k (c, v) s, RUnit)
      end
  | BGet k =>
      match lookup k s with
      | Some (_, v) => (s, RBytes v)
      | None => (s, RErr ENotFound)
      end
  | BHas k => (s, RBool (match lookup k s with Some _ => true | None => false end))
  | BSet k v =>
      match lookup k s with
      | Some (c, _) => (sset k (c, v) s, RUnit)
      | None => (s, RErr ENotFound)
      end
  | BSetClass k c =>
      match lookup k s with
      | Some (_, v) => (sset k (c, v) s, RUnit)
      | None => (s, RErr ENotFound)
      end
  | BMutate k f =>
      match lookup k s with
      | None => (s, RErr ENotFound)
      | Some (c, v) =>
          match f v with
          | MSet v' => (sset k (c, v') s, RUnit)
          | MFail e => (s, RErr e)
          end
      end
  | BRemove k =>
      match lookup k s with
      | Some _ => (del k s, RUnit)
      | None => (s, RErr ENotFound)
      end
  | BEmplace k c v =>
      match lookup k s with
      | Some _ => (s, RUnit)
      | None => (sset k (c, v) s, RUnit)
      end
  | BReplace k c v =>
      match lookup k s with
      | Some (c0, _) => (sset k (c0, v) s, RUnit)
      | None => (sset k (c, v) s, RUnit)
      end
  | BAppend k v =>
      match lookup k s with
      | Some (c0, v0) => (sset k (c0, v0 ++ v) s, RUnit)
      | None => (sset k ([], v) s, RUnit)
      end
  | BWalk f => (s, walk_result f s)
  | BWalkClass c f => (s, walk_result f (filter (has_class c) s))
  | BWalkPartial off n desc f => (s, walk_result f (window off n (dir desc s)))
  | BWalkPartialClass c off n desc f =>
      (s, walk_result f (window off n (dir desc (filter (has_class c) s))))
  | BCount => (s, RCount (lenN s))
  end.

(** * Running histories *)

Fixpoint run {S O : Type} (step : S -> O -> S * result) (s : S) (ops : list O)
  : S * list result :=
  match ops with
  | [] => (s, [])
  | o :: t =>
      let '(s1, r) := step s o in
      let '(s2, rs) := run step s1 t in
      (s2, r :: rs)
  end.

(** * The KV wrapper (kv.go, kv_key.go, iter.go) over any backend *)

(** What the user's [Iter.Do] does: succeed on every entry, or return error
    [e] (ErrCancel, a user error) on the first entry whose value is [v]. *)
Inductive wdo := WAll | WStopAt (v : bytes) (e : err).

Inductive uop :=
| UAdd (k : key) (v : bytes)
| UAddClass (k : key) (c : cls) (v : bytes)
| USetClass (k : key) (c : cls)
| URemove (k : key)
| UGet (k : key)
| UGetBytes (k : key)
| UHas (k : key)
| UEmplace (k : key) (v : bytes)
| UReplace (k : key) (v : bytes)
| UAppendBytes (k : key) (v : bytes)
| USetBytes (k : key) (v : bytes)
| USet (k : key) (v : bytes)
| UMutate (k : key) (f : bytes -> mres)
| UCount
| UClear
| UWalk (d : wdo)
| UWalkClass (c : cls) (d : wdo)
| UWalkPartial (off n : N) (desc : bool) (d : wdo)
| UWalkPartialClass (c : cls) (off n : N) (desc : bool) (d : wdo).

Section Wrapper.
  Variable maxlen : N.            (* MaxKeyLen of kv_key.go *)
  Variable ordered : bool.
  Variable hk : key -> key.       (* hashutil.HashStr *)
  Variable jv : bytes -> bool.    (* encoding/json accepts exactly these bytes *)
  Context {S : Type}.
  Variable bstep : S -> bop -> S * result.

  (** kvMapKey *)
  Definition map_key (k : key) : option key :=
    if ordered then (if lenN k <=? maxlen then Some k else None) else Some (hk k).

  Definition with_key (s : S) (k : key) (cont : key -> S * result) : S * result :=
    match map_key k with
    | None => (s, RErr EKeyTooLong)
    | Some mk => cont mk
    end.

  (** Iter.doWalk: decode the value, then call [Do]. *)
  Definition do_walk (d : wdo) : walkfn :=
    fun _ _ v =>
      if jv v then
        match d with
        | WAll => None
        | WStopAt sv e => if keqb v sv then Some e else None
        end
      else Some EDecode.

  (** [if err == ErrCancel { return nil }] *)
  Definition uncancel (r : result) : result :=
    match r with
    | RErr ECancel => RUnit
    | RWalk items (Some ECancel) => RWalk items None
    | r => r
    end.

  Definition post (sr : S * result) (f : result -> result) : S * result :=
    (fst sr, f (snd sr)).

  Definition kv_step (s : S) (u : uop) : S * result :=
    match u with
    | UAdd k v => with_key s k (fun mk => bstep s (BAdd mk [] v))
    | UAddClass k c v => with_key s k (fun mk => bstep s (BAdd mk c v))
    | USetClass k c => with_key s k (fun mk => bstep s (BSetClass mk c))
    | URemove k => with_key s k (fun mk => bstep s (BRemove mk))
    | UGetBytes k => with_key s k (fun mk => bstep s (BGet mk))
    | UGet k =>
        with_key s k (fun mk =>
          post (bstep s (BGet mk)) (fun r =>
            match r with
            | RBytes b => if jv b then RBytes b else RErr EDecode
            | r => r
            end))
    | UHas k => with_key s k (fun mk => bstep s (BHas mk))
    | UEmplace k v => with_key s k (fun mk => bstep s (BEmplace mk [] v))
    | UReplace k v => with_key s k (fun mk => bstep s (BReplace mk [] v))
    | UAppendBytes k v => with_key s k (fun mk => bstep s (BAppend mk v))
    | USetBytes k v => with_key s k (fun mk => bstep s (BSet mk v))
    | USet k v => with_key s k (fun mk => bstep s (BSet mk v))
    | UMutate k f =>
        with_key s k (fun mk =>
          post (bstep s (BMutate mk (fun bs => if jv bs then f bs else MFail EDecode)))
               uncancel)
    | UCount => bstep s BCount
    | UClear => bstep s BClear
    | UWalk d => post (bstep s (BWalk (do_walk d))) uncancel
    | UWalkClass c d => post (bstep s (BWalkClass c (do_walk d))) uncancel
    | UWalkPartial off n desc d =>
        if ordered then post (bstep s (BWalkPartial off n desc (do_walk d))) uncancel
        else (s, RErr EUnordered)
    | UWalkPartialClass c off n desc d =>
        if ordered then post (bstep s (BWalkPartialClass c off n desc (do_walk d))) uncancel
        else (s, RErr EUnordered)
    end.
End Wrapper.
