(** Obligations on the objects regenerated from pisces' source on every run
    (Gen/KvSql.v): the statement sequences of both SQL backends are the
    deployed ones the refinement proof is about, every KVOps field is bound to
    the method of the same name, the key-length limit and the table scheme are
    the deployed ones.  Each is decided by computation; a source change that
    alters a statement, an argument order, the Scan / sqlResError handling or
    the transaction shape makes the corresponding [Lemma] stop checking. *)
From Coq Require Import List NArith Bool String.
From Verif Require Import Kv.KeyOrd Kv.AList Kv.Spec Kv.Mem Kv.Sql Kv.Refine Gen.KvSql.
From Verif Require Import Kv.Own Kv.OwnSkel Kv.OwnProofs Kv.Tables Kv.TablesProofs Gen.KvMemOwn.
From Verif Require Import Kv.Rows Gen.KvRows.
Import ListNotations.
Local Open Scope string_scope.

Lemma gen_sqlite_methods_frozen : gen_sqlite_methods = deployed_methods.
Proof. reflexivity. Qed.

(** PostgreSQL cannot run in the verification environment; psql_kv.go is
    covered by this equation only: placeholders $1..$n in order and
    [truncate table] aside, it issues the statement sequences of sqlite3_kv.go. *)
Lemma gen_psql_methods_frozen : gen_psql_methods = deployed_methods.
Proof. reflexivity. Qed.

Definition deployed_ops : list (string * string) := [
  ("Clear", "b.clear"); ("Add", "b.add"); ("Get", "b.get"); ("Has", "b.has");
  ("Set", "b.set"); ("SetClass", "b.setClass"); ("Mutate", "b.mutate");
  ("Remove", "b.remove"); ("Emplace", "b.emplace"); ("Replace", "b.replace");
  ("Append", "b.appendBytes"); ("Walk", "b.walk"); ("WalkClass", "b.walkClass");
  ("WalkPartial", "b.walkPartial"); ("WalkPartialClass", "b.walkPartialClass");
  ("Count", "b.count"); ("Create", "b.create"); ("CreateMissing", "b.createMissing");
  ("Destroy", "b.destroy") ].

Lemma gen_sqlite_ops_frozen : gen_sqlite_ops = deployed_ops.
Proof. reflexivity. Qed.

Lemma gen_psql_ops_frozen : gen_psql_ops = deployed_ops.
Proof. reflexivity. Qed.

Lemma gen_max_key_len_frozen : gen_max_key_len = 255%N.
Proof. reflexivity. Qed.

(** [k] unique, all three columns not null (sqlite3.go): what the SQL model
    (Kv/Sql.v) needs of the table, as a decidable
    condition on the parsed scheme rather than on its text: columns k, c, v;
    k text, unique (or primary key) and not null; c text not null; v blob not
    null; no other clause (collation, default, check). *)
Fixpoint has_word (w : string) (l : list string) : bool :=
  match l with
  | [] => false
  | x :: t => String.eqb x w || has_word w t
  end.

Definition known_words (l : list string) : bool :=
  forallb (fun w => String.eqb w "not null" || String.eqb w "unique" || String.eqb w "primary key") l.

Definition scheme_okb (cols : list (string * string * list string)) : bool :=
  match cols with
  | [(k, tk, ck); (c, tc, cc); (v, tv, cv)] =>
      String.eqb k "k" && String.eqb c "c" && String.eqb v "v" &&
      String.eqb tk "text" && String.eqb tc "text" && String.eqb tv "blob" &&
      known_words ck && known_words cc && known_words cv &&
      has_word "not null" ck && (has_word "unique" ck || has_word "primary key" ck) &&
      has_word "not null" cc && negb (has_word "unique" cc) && negb (has_word "primary key" cc) &&
      has_word "not null" cv && negb (has_word "unique" cv) && negb (has_word "primary key" cv)
  | _ => false
  end.

Lemma gen_sqlite_scheme_ok : scheme_okb gen_sqlite_columns = true.
Proof. vm_compute. reflexivity. Qed.

(** The refinement theorems, for the statement tables of the current source. *)
Lemma gen_sqlite_step_refines : step_refines (sql_step gen_sqlite_methods).
Proof. rewrite gen_sqlite_methods_frozen. exact sql_step_refines. Qed.

Lemma gen_psql_step_refines : step_refines (sql_step gen_psql_methods).
Proof. rewrite gen_psql_methods_frozen. exact sql_step_refines. Qed.

Lemma gen_sqlite_refines_spec ops :
  forallb bop_okb ops = true ->
  snd (run (sql_step gen_sqlite_methods) [] ops) = snd (run spec_step [] ops) /\
  abs (fst (run (sql_step gen_sqlite_methods) [] ops)) = fst (run spec_step [] ops).
Proof. rewrite gen_sqlite_methods_frozen. exact (sql_refines_spec ops). Qed.

Lemma gen_psql_refines_spec ops :
  forallb bop_okb ops = true ->
  snd (run (sql_step gen_psql_methods) [] ops) = snd (run spec_step [] ops) /\
  abs (fst (run (sql_step gen_psql_methods) [] ops)) = fst (run spec_step [] ops).
Proof. rewrite gen_psql_methods_frozen. exact (sql_refines_spec ops). Qed.

Lemma gen_backends_agree ops :
  forallb bop_okb ops = true ->
  snd (run mem_step [] ops) = snd (run (sql_step gen_sqlite_methods) [] ops) /\
  abs (fst (run mem_step [] ops)) = abs (fst (run (sql_step gen_sqlite_methods) [] ops)).
Proof. rewrite gen_sqlite_methods_frozen. exact (backends_agree ops). Qed.

(** ** Who owns the bytes (mem_entry.go)

    The four functions through which bytes enter and leave an entry have the
    copying shapes (Kv/OwnSkel.v [copies_of]); nothing else in the package
    touches an entry's buffer.  A function that keeps the caller's slice
    (bytes.NewBuffer(bs)), hands out the buffer's storage, or contains a
    statement the translator does not know makes [gen_mem_entry_copies] stop
    checking. *)
Lemma gen_mem_entry_copies : copies_of gen_mem_entry_skel = all_copy.
Proof. reflexivity. Qed.

Lemma gen_mem_buf_private : gen_mem_buf_outside = [].
Proof. reflexivity. Qed.

Lemma gen_mem_contents_history_only ops :
  run_okb (copies_of gen_mem_entry_skel) own_init ops = true ->
  cont (fst (own_run (copies_of gen_mem_entry_skel) own_init ops))
  = fst (run mem_step [] (erase_run (copies_of gen_mem_entry_skel) own_init ops)) /\
  snd (own_run (copies_of gen_mem_entry_skel) own_init ops)
  = snd (run mem_step [] (erase_run (copies_of gen_mem_entry_skel) own_init ops)).
Proof. rewrite gen_mem_entry_copies. exact (contents_history_only ops). Qed.

Lemma gen_mem_store_buffers_private ops :
  run_okb (copies_of gen_mem_entry_skel) own_init ops = true ->
  let '(st, h, kn) := fst (own_run (copies_of gen_mem_entry_skel) own_init ops) in
  forall b, In b (bufs st) -> ~ In b kn.
Proof. rewrite gen_mem_entry_copies. exact (store_buffers_private ops). Qed.

(** ** Several handles over the tables of one database (tables.go) *)
Lemma gen_sqlite_tables_refine maxlen hk jv hs slots ops :
  forallb lop_okb ops = true ->
  snd (run (l_step maxlen hk jv (sql_step gen_sqlite_methods) true hs) (init_state true slots) ops)
  = snd (run (l_step maxlen hk jv spec_step true hs) (init_state true slots) ops) /\
  srel (fst (run (l_step maxlen hk jv (sql_step gen_sqlite_methods) true hs) (init_state true slots) ops))
       (fst (run (l_step maxlen hk jv spec_step true hs) (init_state true slots) ops)).
Proof. exact (tables_refine_spec maxlen hk jv _ true hs slots ops gen_sqlite_step_refines). Qed.

(** ** The result set of a walk ends with the walk (sqlite3_kv.go, psql_kv.go,
    sql_util.go): every walk* method defers rows.Close() (or sqlIterRows
    does), so the result set - and with it the connection's read lock - is
    released however the walk ends: rows exhausted, an error or ErrCancel from
    Scan or the callback, a panic of the callback. *)
Lemma gen_walks_release :
  all_release (shape_from gen_sqlite_walk_defer gen_iter_rows_skel) = true /\
  all_release (shape_from gen_psql_walk_defer gen_iter_rows_skel) = true.
Proof. vm_compute. split; reflexivity. Qed.

Lemma gen_sqlite_walk_releases_on_every_exit ops t :
  run (rows_step (shape_from gen_sqlite_walk_defer gen_iter_rows_skel) gen_sqlite_methods) (t, O) ops
  = ((fst (run (sql_step gen_sqlite_methods) t ops), O), snd (run (sql_step gen_sqlite_methods) t ops)).
Proof. exact (walk_releases_on_every_exit _ gen_sqlite_methods (proj1 gen_walks_release) ops t). Qed.
