(** Obligations on the objects regenerated from pisces' source on every run
    (Gen/KvSql.v): the statement sequences of both SQL backends are the
    deployed ones the refinement proof is about, every KVOps field is bound to
    the method of the same name, the key-length limit and the table scheme are
    the deployed ones.  Each is decided by computation; a source change that
    alters a statement, an argument order, the Scan / sqlResError handling or
    the transaction shape makes the corresponding [Lemma] stop checking. *)
From Coq Require Import List NArith Bool String.
From Verif Require Import Kv.KeyOrd Kv.AList Kv.Spec Kv.Mem Kv.Sql Kv.Refine Gen.KvSql.
Import ListNotations.
Local Open Scope string_scope.

Lemma gen_sqlite_methods_frozen : gen_sqlite_methods = deployed_methods.
Proof. reflexivity. Qed.

(** PostgreSQL cannot run in the verification environment; psql_kv.go is
    covered by this equation only: placeholders $1..$n in order and
    [truncate table] aside, it issues the statement sequences of sqlite3_kv.go. *)
Lemma gen_psql_methods_frozen : gen_psql_methods = deployed_methods.
Proof. reflexivity. Qed.

Definition deployed_ops : list (string * string) := [
  ("Clear", "b.clear"); ("Add", "b.add"); ("Get", "b.get"); ("Has", "b.has");
  ("Set", "b.set"); ("SetClass", "b.setClass"); ("Mutate", "b.mutate");
  ("Remove", "b.remove"); ("Emplace", "b.emplace"); ("Replace", "b.replace");
  ("Append", "b.appendBytes"); ("Walk", "b.walk"); ("WalkClass", "b.walkClass");
  ("WalkPartial", "b.walkPartial"); ("WalkPartialClass", "b.walkPartialClass");
  ("Count", "b.count"); ("Create", "b.create"); ("CreateMissing", "b.createMissing");
  ("Destroy", "b.destroy") ].

Lemma gen_sqlite_ops_frozen : gen_sqlite_ops = deployed_ops.
Proof. reflexivity. Qed.

Lemma gen_psql_ops_frozen : gen_psql_ops = deployed_ops.
Proof. reflexivity. Qed.

Lemma gen_max_key_len_frozen : gen_max_key_len = 255%N.
Proof. reflexivity. Qed.

(** [k] unique, all three columns not null (sqlite3.go). *)
Lemma gen_sqlite_scheme_frozen :
  gen_sqlite_scheme = "( k text not null unique, c text not null, v blob not null )".
Proof. reflexivity. Qed.

(** The refinement theorems, for the statement tables of the current source. *)
Lemma gen_sqlite_step_refines : step_refines (sql_step gen_sqlite_methods).
Proof. rewrite gen_sqlite_methods_frozen. exact sql_step_refines. Qed.

Lemma gen_psql_step_refines : step_refines (sql_step gen_psql_methods).
Proof. rewrite gen_psql_methods_frozen. exact sql_step_refines. Qed.

Lemma gen_sqlite_refines_spec ops :
  forallb bop_okb ops = true ->
  snd (run (sql_step gen_sqlite_methods) [] ops) = snd (run spec_step [] ops) /\
  abs (fst (run (sql_step gen_sqlite_methods) [] ops)) = fst (run spec_step [] ops).
Proof. rewrite gen_sqlite_methods_frozen. exact (sql_refines_spec ops). Qed.

Lemma gen_psql_refines_spec ops :
  forallb bop_okb ops = true ->
  snd (run (sql_step gen_psql_methods) [] ops) = snd (run spec_step [] ops) /\
  abs (fst (run (sql_step gen_psql_methods) [] ops)) = fst (run spec_step [] ops).
Proof. rewrite gen_psql_methods_frozen. exact (sql_refines_spec ops). Qed.

Lemma gen_backends_agree ops :
  forallb bop_okb ops = true ->
  snd (run mem_step [] ops) = snd (run (sql_step gen_sqlite_methods) [] ops) /\
  abs (fst (run mem_step [] ops)) = abs (fst (run (sql_step gen_sqlite_methods) [] ops)).
Proof. rewrite gen_sqlite_methods_frozen. exact (backends_agree ops). Qed.
