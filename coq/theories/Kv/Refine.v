(** Refinement: the memory backend (Mem.v) and the SQL backends running the
    deployed statement table (Sql.v) return, on every history of KVOps calls,
    the same results as the reference map (Spec.v) and stay related to it by
    the abstraction "sort the rows by key". *)
From Coq Require Import List Arith NArith Bool Lia.
From Verif Require Import Kv.KeyOrd Kv.AList Kv.Spec Kv.Mem Kv.Sql.
Import ListNotations.
Local Open Scope N_scope.

Definition two63 : N := 9223372036854775808.

(** Offsets and limits within the range of the statement (and of SQL's
    signed 64-bit integers). *)
Definition bop_okb (o : bop) : bool :=
  match o with
  | BWalkPartial off n _ _ | BWalkPartialClass _ off n _ _ => (off <? two63) && (n <? two63)
  | _ => true
  end.

Definition abs (t : table) : table := isort kltb t.

Notation sortedA := (@sorted entry kltb).

Lemma sorted_abs t : nodupk t -> sortedA (abs t).
Proof. exact (sorted_isort kltb kltb_irrefl kltb_trans kltb_total t). Qed.

Lemma lookup_abs t k : nodupk t -> lookup k (abs t) = lookup k t.
Proof. exact (lookup_isort kltb kltb_irrefl kltb_trans kltb_total t k). Qed.

Lemma abs_upd k e t : nodupk t -> abs (upd k e t) = sset k e (abs t).
Proof. exact (isort_upd kltb kltb_irrefl kltb_trans kltb_total k e t). Qed.

Lemma abs_del k t : nodupk t -> abs (del k t) = del k (abs t).
Proof. exact (isort_del kltb kltb_irrefl kltb_trans kltb_total k t). Qed.

Lemma abs_filter p t : nodupk t -> abs (filter p t) = filter p (abs t).
Proof. exact (isort_filter kltb kltb_irrefl kltb_trans kltb_total p t). Qed.

Lemma abs_desc t : nodupk t -> isort kgtb t = rev (abs t).
Proof. apply isort_desc. Qed.

Lemma lenN_abs t : lenN (abs t) = lenN t.
Proof. unfold lenN, abs. now rewrite (length_isort kltb kltb_irrefl kltb_trans kltb_total). Qed.

Lemma nodupk_abs t : nodupk t -> nodupk (abs t).
Proof. intros H. exact (sorted_nodupk kltb kltb_irrefl kltb_trans kltb_total _ (sorted_abs t H)). Qed.

Lemma sorted_sset k e (s : table) : sortedA s -> sortedA (sset k e s).
Proof. exact (sorted_sput kltb kltb_irrefl kltb_trans kltb_total k e s). Qed.

Lemma sorted_sdel k (s : table) : sortedA s -> sortedA (del k s).
Proof. exact (sorted_del kltb kltb_irrefl kltb_trans kltb_total k s). Qed.

(** ** Windows *)

Lemma window_map {A B} (f : A -> B) off n l : window off n (map f l) = map f (window off n l).
Proof. unfold window, lenN. now rewrite map_length, skipn_map, firstn_map. Qed.

Lemma window_incl {A} off n (l : list A) x : In x (window off n l) -> In x l.
Proof.
  unfold window. intros H.
  assert (forall m (l' : list A) y, In y (firstn m l') -> In y l') as Hf.
  { intros m l' y Hy. rewrite <- (firstn_skipn m l'). apply in_or_app. now left. }
  assert (forall m (l' : list A) y, In y (skipn m l') -> In y l') as Hs.
  { intros m l' y Hy. rewrite <- (firstn_skipn m l'). apply in_or_app. now right. }
  eauto.
Qed.

(** The uint64 arithmetic of partialKeys, on the whole uint64 range.
    As long as [off + n] does not wrap around it computes the window ... *)
Lemma partial_keys_nowrap off n ks :
  off + n < two64 -> partial_keys off n ks = Some (window off n ks).
Proof.
  intros Hw. unfold partial_keys, window, lenN.
  set (L := length ks).
  assert ((off + n) mod two64 = off + n) as -> by (now apply N.mod_small).
  destruct (N.ltb_spec (N.of_nat L) off) as [H1|H1];
  destruct (N.ltb_spec (N.of_nat L) (off + n)) as [H2|H2].
  - (* offset beyond the end *)
    rewrite N.ltb_irrefl. f_equal.
    rewrite (N.min_r off) by lia. rewrite Nnat.Nat2N.id.
    rewrite skipn_firstn_comm, Nat.sub_diag. cbn [firstn].
    rewrite skipn_all2 by (fold L; lia). now rewrite firstn_nil.
  - lia.
  - (* window cut by the end *)
    destruct (N.ltb_spec (N.of_nat L) off) as [H3|H3]; [lia|]. f_equal.
    rewrite (N.min_l off) by lia. rewrite Nnat.Nat2N.id.
    rewrite skipn_firstn_comm.
    assert (length (skipn (N.to_nat off) ks) = (L - N.to_nat off)%nat) as Hl by (now rewrite skipn_length).
    rewrite !firstn_all2; auto; rewrite Hl; lia.
  - destruct (N.ltb_spec (off + n) off) as [H3|H3]; [lia|]. f_equal.
    rewrite (N.min_l off) by lia. rewrite (N.min_l n) by lia.
    rewrite skipn_firstn_comm. f_equal. lia.
Qed.

(** ... in particular on the range of the statement (offsets and limits up to
    2^63 - 1) ... *)
Lemma partial_keys_window off n ks :
  off < two63 -> n < two63 -> partial_keys off n ks = Some (window off n ks).
Proof.
  intros Ho Hn. apply partial_keys_nowrap. unfold two63, two64 in *. lia.
Qed.

(** ... and when [off + n] wraps around (only possible with an offset or a
    limit of 2^63 or more, outside the statement) the end index falls below
    the start index: the slice expression panics unless both are clamped to
    the same value, in which case nothing is visited. *)
Lemma partial_keys_wrap off n ks :
  off < two64 -> n < two64 -> two64 <= off + n ->
  partial_keys off n ks =
  if N.min (off + n - two64) (lenN ks) <? N.min off (lenN ks) then None else Some [].
Proof.
  intros Ho Hn Hw. unfold partial_keys, lenN.
  set (L := N.of_nat (length ks)).
  assert ((off + n) mod two64 = off + n - two64) as ->.
  { assert (off + n = (off + n - two64) + 1 * two64) as E by lia.
    rewrite E at 1. rewrite N.mod_add by (unfold two64; lia).
    apply N.mod_small. lia. }
  set (e := off + n - two64).
  assert (e < off) as He by (unfold e; lia).
  assert ((if L <? off then L else off) = N.min off L) as ->.
  { destruct (N.ltb_spec L off); lia. }
  assert ((if L <? e then L else e) = N.min e L) as ->.
  { destruct (N.ltb_spec L e); lia. }
  destruct (N.ltb_spec (N.min e L) (N.min off L)) as [H|H]; [reflexivity|].
  assert (N.min e L = N.min off L) as -> by lia.
  f_equal. rewrite skipn_firstn_comm, Nat.sub_diag. reflexivity.
Qed.

(** ** Fetching the entries of sorted keys again (walkKeys) *)

Lemma fetch_keys_items m (s : table) :
  (forall k e, In (k, e) s -> lookup k m = Some e) -> fetch_keys m (map fst s) = Some s.
Proof.
  induction s as [|[k e] t IH]; cbn [map fst fetch_keys]; [reflexivity|].
  intros H. rewrite (H k e) by now left. rewrite IH; [reflexivity|].
  intros k' e' Hin. apply H. now right.
Qed.

Lemma abs_items m k e : nodupk m -> In (k, e) (abs m) -> lookup k m = Some e.
Proof.
  intros Hn Hin. rewrite <- (lookup_abs m k Hn). apply in_lookup_nodup; auto using nodupk_abs.
Qed.

Lemma sort_keys_abs desc m :
  nodupk m -> sort_keys desc (map fst m) = map fst (dir desc (abs m)).
Proof.
  intros Hn. unfold sort_keys, dir. destruct desc.
  - rewrite <- abs_desc by exact Hn.
    symmetry. exact (map_fst_isort kgtb kgtb_irrefl kgtb_trans kgtb_total m).
  - symmetry. exact (map_fst_isort kltb kltb_irrefl kltb_trans kltb_total m).
Qed.

Lemma dir_items desc m k e : nodupk m -> In (k, e) (dir desc (abs m)) -> lookup k m = Some e.
Proof.
  intros Hn. unfold dir. destruct desc; [rewrite <- in_rev|]; now apply abs_items.
Qed.

Lemma nodupk_filter_class c m : nodupk m -> nodupk (filter (has_class c) m).
Proof. apply nodupk_filter. Qed.

Lemma filter_items c m k e :
  nodupk m -> In (k, e) (filter (has_class c) m) -> lookup k m = Some e.
Proof.
  intros Hn Hin. apply filter_In in Hin. apply in_lookup_nodup; tauto.
Qed.

Lemma dir_filter desc p (s : table) : dir desc (filter p s) = filter p (dir desc s).
Proof.
  unfold dir. destruct desc; [|reflexivity].
  induction s as [|x t IH]; cbn [filter rev]; [reflexivity|].
  rewrite filter_app. cbn [filter]. destruct (p x); cbn [rev]; rewrite IH; [reflexivity|].
  now rewrite app_nil_r.
Qed.

(** The four walks of the memory backend produce the items of the
    reference map. *)
Lemma mem_walk_all f m :
  nodupk m ->
  mem_walk f m (Some (sort_keys false (mem_keys m))) = walk_result f (abs m).
Proof.
  intros Hn. unfold mem_walk, mem_keys. rewrite sort_keys_abs by exact Hn. cbn [dir].
  rewrite fetch_keys_items; [reflexivity|]. intros k e. now apply abs_items.
Qed.

Lemma mem_walk_class f c m :
  nodupk m ->
  mem_walk f m (Some (sort_keys false (mem_class_keys c m)))
  = walk_result f (filter (has_class c) (abs m)).
Proof.
  intros Hn. unfold mem_walk, mem_class_keys.
  rewrite sort_keys_abs by (now apply nodupk_filter_class). cbn [dir].
  rewrite abs_filter by exact Hn.
  rewrite fetch_keys_items; [reflexivity|].
  intros k e Hin. apply filter_In in Hin. apply abs_items; tauto.
Qed.

Lemma mem_walk_partial_nowrap f off n desc m :
  nodupk m -> off + n < two64 ->
  mem_walk f m (partial_keys off n (sort_keys desc (mem_keys m)))
  = walk_result f (window off n (dir desc (abs m))).
Proof.
  intros Hn Hw. unfold mem_walk, mem_keys.
  rewrite sort_keys_abs, partial_keys_nowrap, window_map by assumption.
  rewrite fetch_keys_items; [reflexivity|].
  intros k e Hin. apply window_incl in Hin. now apply (dir_items desc).
Qed.

Lemma mem_walk_partial_class_nowrap f c off n desc m :
  nodupk m -> off + n < two64 ->
  mem_walk f m (partial_keys off n (sort_keys desc (mem_class_keys c m)))
  = walk_result f (window off n (dir desc (filter (has_class c) (abs m)))).
Proof.
  intros Hn Hw. unfold mem_walk, mem_class_keys.
  rewrite sort_keys_abs by (now apply nodupk_filter_class).
  rewrite partial_keys_nowrap, window_map by assumption.
  rewrite abs_filter by exact Hn.
  rewrite fetch_keys_items; [reflexivity|].
  intros k e Hin. apply window_incl in Hin. rewrite dir_filter in Hin.
  apply filter_In in Hin. apply (dir_items desc); tauto.
Qed.

Lemma range_nowrap off n : off < two63 -> n < two63 -> off + n < two64.
Proof. unfold two63, two64. lia. Qed.

Lemma mem_walk_partial f off n desc m :
  nodupk m -> off < two63 -> n < two63 ->
  mem_walk f m (partial_keys off n (sort_keys desc (mem_keys m)))
  = walk_result f (window off n (dir desc (abs m))).
Proof. intros. apply mem_walk_partial_nowrap; auto using range_nowrap. Qed.

Lemma mem_walk_partial_class f c off n desc m :
  nodupk m -> off < two63 -> n < two63 ->
  mem_walk f m (partial_keys off n (sort_keys desc (mem_class_keys c m)))
  = walk_result f (window off n (dir desc (filter (has_class c) (abs m)))).
Proof. intros. apply mem_walk_partial_class_nowrap; auto using range_nowrap. Qed.

(** When [off + n] wraps around, the memory walk panics or visits nothing. *)
Lemma mem_walk_wrap f m off n ks :
  off < two64 -> n < two64 -> two64 <= off + n ->
  mem_walk f m (partial_keys off n ks) =
  if N.min (off + n - two64) (lenN ks) <? N.min off (lenN ks) then RErr EPanic else RWalk [] None.
Proof.
  intros Ho Hn Hw. rewrite (partial_keys_wrap off n ks Ho Hn Hw).
  destruct (_ <? _); reflexivity.
Qed.

(** ** One step *)

Definition step_refines (step : table -> bop -> table * result) : Prop :=
  forall t o, nodupk t -> bop_okb o = true ->
    nodupk (fst (step t o)) /\
    abs (fst (step t o)) = fst (spec_step (abs t) o) /\
    snd (step t o) = snd (spec_step (abs t) o).

Ltac look k t Hn :=
  rewrite (lookup_abs t k Hn); destruct (lookup k t) as [[? ?]|] eqn:?; cbn [fst snd].

Ltac fin Hn :=
  repeat split; auto using nodupk_upd, nodupk_del, abs_upd, abs_del.

Lemma bop_ok_partial off n : (off <? two63) && (n <? two63) = true -> off < two63 /\ n < two63.
Proof. intros H. apply andb_prop in H. destruct H as [H1 H2]. split; now apply N.ltb_lt. Qed.

Lemma mem_step_refines : step_refines mem_step.
Proof.
  intros t o Hn Hok. destruct o; cbn [mem_step spec_step bop_okb] in *.
  - (* clear *) cbn. auto.
  - look k t Hn; fin Hn.
  - look k t Hn; fin Hn.
  - look k t Hn; fin Hn.
  - look k t Hn; fin Hn.
  - look k t Hn; fin Hn.
  - look k t Hn; [destruct (f b); cbn [fst snd]|]; fin Hn.
  - look k t Hn; fin Hn.
  - look k t Hn; fin Hn.
  - look k t Hn; fin Hn.
  - look k t Hn; fin Hn.
  - cbn [fst snd]. fin Hn. now apply mem_walk_all.
  - cbn [fst snd]. fin Hn. now apply mem_walk_class.
  - cbn [fst snd]. apply bop_ok_partial in Hok. fin Hn. now apply mem_walk_partial.
  - cbn [fst snd]. apply bop_ok_partial in Hok. fin Hn. now apply mem_walk_partial_class.
  - cbn [fst snd]. fin Hn. now rewrite lenN_abs.
Qed.

(** ** The SQL backends with the deployed statement table *)

(** What the statement sequences of [deployed_methods] compute, method by
    method, once the interpreter has run: identical to the memory backend
    except that walks sort rows (order by k) instead of keys. *)
Definition sql_canon (t : table) (o : bop) : table * result :=
  match o with
  | BWalk f => (t, walk_result f (abs t))
  | BWalkClass c f => (t, walk_result f (abs (filter (has_class c) t)))
  | BWalkPartial off n desc f =>
      match sql_window off n (if desc then isort kgtb t else abs t) with
      | Some rows => (t, walk_result f rows)
      | None => (t, RErr EOther)
      end
  | BWalkPartialClass c off n desc f =>
      match sql_window off n (if desc then isort kgtb (filter (has_class c) t)
                              else abs (filter (has_class c) t)) with
      | Some rows => (t, walk_result f rows)
      | None => (t, RErr EOther)
      end
  | o => mem_step t o
  end.

Lemma sql_window_ok off n (rows : table) :
  off < two63 -> n < two63 -> sql_window off n rows = Some (window off n rows).
Proof.
  intros Ho Hn. unfold sql_window, int64_end, two63 in *.
  destruct (N.leb_spec 9223372036854775808 n); [lia|].
  destruct (N.eqb_spec n 0) as [->|Hz].
  - unfold window. now rewrite N.min_0_l.
  - destruct (N.leb_spec 9223372036854775808 off); [lia|reflexivity].
Qed.

Lemma sql_canon_eq t o : sql_step deployed_methods t o = sql_canon t o.
Proof.
  destruct o; unfold sql_step, exec_method, rows_method, sql_canon, mem_step; cbn -[sql_window];
    try reflexivity;
    try (destruct (lookup k t) as [[c0 v0]|]; cbn; try reflexivity).
  all: try (destruct (f v0); reflexivity).
  all: destruct desc; destruct (sql_window _ _ _); reflexivity.
Qed.

Lemma sql_step_refines : step_refines (sql_step deployed_methods).
Proof.
  intros t o Hn Hok. rewrite !sql_canon_eq.
  destruct o; try exact (mem_step_refines t _ Hn Hok);
    cbn [sql_canon spec_step fst snd bop_okb] in *;
    try (apply bop_ok_partial in Hok; destruct Hok as [Ho Hl];
         rewrite sql_window_ok by assumption);
    cbn [fst snd]; (split; [exact Hn|split; [reflexivity|]]).
  - reflexivity.
  - now rewrite abs_filter.
  - destruct desc; cbn [dir]; [rewrite abs_desc by exact Hn|]; reflexivity.
  - destruct desc; cbn [dir].
    + rewrite abs_desc by (now apply nodupk_filter_class). now rewrite abs_filter.
    + now rewrite abs_filter.
Qed.

(** ** Whole histories *)

Definition sim {O : Type} (okb : O -> bool)
  (stepA stepB : table -> O -> table * result) : Prop :=
  forall t o, nodupk t -> okb o = true ->
    nodupk (fst (stepA t o)) /\
    abs (fst (stepA t o)) = fst (stepB (abs t) o) /\
    snd (stepA t o) = snd (stepB (abs t) o).

Lemma run_sim {O : Type} (okb : O -> bool) stepA stepB :
  sim okb stepA stepB ->
  forall ops t, nodupk t -> forallb okb ops = true ->
    nodupk (fst (run stepA t ops)) /\
    abs (fst (run stepA t ops)) = fst (run stepB (abs t) ops) /\
    snd (run stepA t ops) = snd (run stepB (abs t) ops).
Proof.
  intros Hs. induction ops as [|o ops IH]; intros t Hn Hok; cbn [run forallb] in *.
  - auto.
  - apply andb_prop in Hok. destruct Hok as [Ho Hops].
    destruct (Hs t o Hn Ho) as (H1 & H2 & H3).
    destruct (stepA t o) as [t1 r1]. destruct (stepB (abs t) o) as [s1 r1'].
    cbn [fst snd] in *. subst.
    destruct (IH t1 H1 Hops) as (H4 & H5 & H6).
    destruct (run stepA t1 ops) as [t2 rs]. destruct (run stepB (abs t1) ops) as [s2 rs'].
    cbn [fst snd] in *. subst. auto.
Qed.

Lemma run_refines step :
  step_refines step ->
  forall ops t, nodupk t -> forallb bop_okb ops = true ->
    nodupk (fst (run step t ops)) /\
    abs (fst (run step t ops)) = fst (run spec_step (abs t) ops) /\
    snd (run step t ops) = snd (run spec_step (abs t) ops).
Proof. intros Hs. exact (run_sim bop_okb step spec_step Hs). Qed.

(** ** Through the KV wrapper *)

Definition uop_okb (u : uop) : bool :=
  match u with
  | UWalkPartial off n _ _ | UWalkPartialClass _ off n _ _ => (off <? two63) && (n <? two63)
  | _ => true
  end.

Lemma kv_step_sim maxlen ordered hk jv step :
  step_refines step ->
  sim uop_okb (kv_step maxlen ordered hk jv step) (kv_step maxlen ordered hk jv spec_step).
Proof.
  intros Hs t u Hn Hok.
  assert (forall o, bop_okb o = true ->
            nodupk (fst (step t o)) /\ abs (fst (step t o)) = fst (spec_step (abs t) o) /\
            snd (step t o) = snd (spec_step (abs t) o)) as H by (intros; now apply Hs).
  assert (forall o g, bop_okb o = true ->
            nodupk (fst (post (step t o) g)) /\
            abs (fst (post (step t o) g)) = fst (post (spec_step (abs t) o) g) /\
            snd (post (step t o) g) = snd (post (spec_step (abs t) o) g)) as Hp.
  { intros o g Ho. destruct (H o Ho) as (H1 & H2 & H3). unfold post. cbn [fst snd].
    rewrite H3. auto. }
  destruct u; cbn [kv_step uop_okb] in *; unfold with_key;
    try (destruct (map_key maxlen ordered hk k); cbn [fst snd]; [|now auto]);
    try (destruct ordered; cbn [fst snd]; [|now auto]);
    try (apply Hp; exact Hok); try (apply H; exact Hok);
    try (apply Hp; reflexivity); try (apply H; reflexivity).
Qed.

(** The reference map stays strictly sorted (it is a canonical form: equal
    contents means equal lists). *)
Lemma spec_step_sorted s o : sortedA s -> sortedA (fst (spec_step s o)).
Proof.
  intros Hs. destruct o; cbn [spec_step];
    try (destruct (lookup k s) as [[c0 v0]|]; cbn [fst]); auto using sorted_sset, sorted_sdel.
  - exact I.
  - destruct (f v0); cbn [fst]; auto using sorted_sset.
Qed.

Lemma run_spec_sorted ops s : sortedA s -> sortedA (fst (run spec_step s ops)).
Proof.
  revert s. induction ops as [|o ops IH]; intros s Hs; cbn [run]; [exact Hs|].
  pose proof (spec_step_sorted s o Hs) as H1.
  destruct (spec_step s o) as [s1 r1]. cbn [fst] in H1.
  specialize (IH s1 H1). destruct (run spec_step s1 ops) as [s2 rs]. exact IH.
Qed.

(** * Statement-level corollaries *)

Theorem mem_refines_spec ops :
  forallb bop_okb ops = true ->
  snd (run mem_step [] ops) = snd (run spec_step [] ops) /\
  abs (fst (run mem_step [] ops)) = fst (run spec_step [] ops).
Proof.
  intros Hok. destruct (run_refines mem_step mem_step_refines ops [] I Hok) as (_ & H2 & H3).
  split; [exact H3|exact H2].
Qed.

Theorem sql_refines_spec ops :
  forallb bop_okb ops = true ->
  snd (run (sql_step deployed_methods) [] ops) = snd (run spec_step [] ops) /\
  abs (fst (run (sql_step deployed_methods) [] ops)) = fst (run spec_step [] ops).
Proof.
  intros Hok.
  destruct (run_refines _ sql_step_refines ops [] I Hok) as (_ & H2 & H3).
  split; [exact H3|exact H2].
Qed.

Theorem backends_agree ops :
  forallb bop_okb ops = true ->
  snd (run mem_step [] ops) = snd (run (sql_step deployed_methods) [] ops) /\
  abs (fst (run mem_step [] ops)) = abs (fst (run (sql_step deployed_methods) [] ops)).
Proof.
  intros Hok. destruct (mem_refines_spec ops Hok) as [H1 H2].
  destruct (sql_refines_spec ops Hok) as [H3 H4]. split; congruence.
Qed.

Theorem kv_refines_spec maxlen ordered hk jv step uops :
  step_refines step ->
  forallb uop_okb uops = true ->
  snd (run (kv_step maxlen ordered hk jv step) [] uops)
  = snd (run (kv_step maxlen ordered hk jv spec_step) [] uops) /\
  abs (fst (run (kv_step maxlen ordered hk jv step) [] uops))
  = fst (run (kv_step maxlen ordered hk jv spec_step) [] uops).
Proof.
  intros Hs Hok.
  destruct (run_sim uop_okb _ _ (kv_step_sim maxlen ordered hk jv step Hs) uops [] I Hok)
    as (_ & H2 & H3).
  split; [exact H3|exact H2].
Qed.
