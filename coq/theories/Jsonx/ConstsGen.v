(** Obligations on Gen/JsonxConsts.v: the constants, tables and conditions
    read from the CURRENT source of lexing/, jsonx/ and strtoken/ are the ones
    the hand-written model (Jsonx/Lex.v, Tok.v, Parse.v) is built on.  Each
    lemma is decided by computation and stops checking when the source
    changes. *)
From Coq Require Import List NArith ZArith String Bool.
From Verif Require Import Lib.Utf8 Jsonx.GenTypes Gen.JsonxConsts Gen.JsonxOwn Jsonx.Own Jsonx.FileModel Jsonx.Lex Jsonx.Tok Jsonx.Parse.
Import ListNotations.
Local Open Scope string_scope.

Definition code_eqb (a b : string * option Z) : bool :=
  String.eqb (fst a) (fst b) &&
  match snd a, snd b with
  | Some x, Some y => Z.eqb x y
  | _, _ => false
  end.

Fixpoint all2 {A} (f : A -> A -> bool) (a b : list A) : bool :=
  match a, b with
  | [], [] => true
  | x :: a', y :: b' => f x y && all2 f a' b'
  | _, _ => false
  end.

(** Token type codes (lexing/token.go, jsonx/token.go, strtoken/token.go):
    all distinct, so that the type tests of the filters and of the parser
    separate the kinds the model separates. *)
Definition all_codes : list (string * option Z) :=
  gen_lexing_codes ++ gen_jsonx_codes.

Fixpoint distinct_codes (l : list (string * option Z)) : bool :=
  match l with
  | [] => true
  | (_, None) :: _ => false
  | (_, Some v) :: r =>
      negb (existsb (fun x => match snd x with Some w => Z.eqb v w | None => true end) r)
      && distinct_codes r
  end.

Lemma gen_token_codes_distinct :
  distinct_codes all_codes = true /\ distinct_codes gen_strtoken_codes = true /\
  List.length gen_lexing_codes = 3%nat /\ List.length gen_jsonx_codes = 8%nat.
Proof. vm_compute. repeat split. Qed.

(** The keyword set. *)
Definition gkeyword_eqb (g : gkeyword) (k : list N) : bool :=
  match g with GK r => list_N_eqb r k | GKUnknown _ => false end.

Lemma gen_keywords_agree :
  (fix go (g : list gkeyword) (k : list (list N)) : bool :=
     match g, k with
     | [], [] => true
     | x :: g', y :: k' => gkeyword_eqb x y && go g' k'
     | _, _ => false
     end) gen_keywords keywords = true.
Proof. vm_compute. reflexivity. Qed.

(** ErrorList: cap of 20, enforced by the early return of Add. *)
Lemma gen_max_errs_agree : gen_max_errs = Some (N.of_nat max_errs).
Proof. vm_compute. reflexivity. Qed.

Lemma gen_add_cap_agree :
  gexpr_eqb gen_add_cap_cond (GSee "len(lst.errs) >= lst.Max") = true.
Proof. vm_compute. reflexivity. Qed.

(** ErrorList.Add, statement order: the model's [p_add] sets the jail flag
    on every call, also when the list already holds [max_errs] errors and the
    error is dropped (Jsonx/Parse.v [p_add], Jsonx/ParseProofs.v
    [p_add_always_jails]); every recovery loop of the parser relies on it.
    The source must set [inJail] before the early return of a full list. *)
Lemma gen_add_sets_jail_before_cap_return : sets_jail_always gen_add_skeleton = true.
Proof. vm_compute. reflexivity. Qed.

Lemma gen_add_capped : capped_append gen_add_skeleton = true.
Proof. vm_compute. reflexivity. Qed.

(** The error state.  Every write to the jail flag and to an error list in
    lexing/ and jsonx/ is one the model has: the flag is raised in Add,
    lowered in BailOut, the list grows in Add, the lists are made at
    construction, nothing else writes them or takes their address
    ([writes_ok]).  The helpers the lexer and the parser actually go through
    are one-statement delegations with the parameters passed on in order. *)
Lemma gen_error_state_writes_ok : writes_ok gen_error_state_writes = true.
Proof. vm_compute. reflexivity. Qed.

Definition deleg_ok (name : string) (d : edeleg) : bool :=
  match List.find (fun nd => String.eqb (fst nd) name) gen_error_state_delegations with
  | Some (_, d') => edeleg_eqb d d'
  | None => false
  end.

Lemma gen_error_state_delegations_ok :
  deleg_ok "ErrorList.InJail" (DReturnField "inJail") = true /\
  deleg_ok "ErrorList.BailOut" (DSetField "inJail" false) = true /\
  deleg_ok "ErrorList.CodeErrorf" (DCallSelf "Add" ["&Error{p, fmt.Errorf(f, args...), c}"]) = true /\
  deleg_ok "Parser.InError" (DCallField "errs" "InJail" []) = true /\
  deleg_ok "Parser.BailOut" (DCallField "errs" "BailOut" []) = true /\
  deleg_ok "Parser.CodeErrorf" (DCallField "errs" "CodeErrorf" ["$pos"; "$c"; "$f"; "$args..."]) = true /\
  deleg_ok "Parser.CodeErrorfHere" (DCallSelf "CodeErrorf" ["p.t.Pos"; "$c"; "$f"; "$args..."]) = true /\
  deleg_ok "Lexer.Errorf" (DCallField "errs" "CodeErrorf" ["x.s.startPos()"; """"""; "$f"; "$args..."]) = true /\
  deleg_ok "Lexer.CodeErrorf" (DCallField "errs" "CodeErrorf" ["x.s.startPos()"; "$c"; "$f"; "$args..."]) = true.
Proof. vm_compute. repeat split. Qed.

(** The places that test the error state are the ones the model has:
    Expect, ExpectLit, SkipErrStmt, expectOp, the two entry loops, and the
    per-entry check of DecodeSeries. *)
Lemma gen_error_state_tests_agree :
  gen_error_state_tests =
  [ ("Parser.InError", 1%N); ("Parser.ExpectLit", 1%N); ("Parser.Expect", 1%N);
    ("Parser.SkipErrStmt", 1%N); ("Decoder.DecodeSeries", 1%N);
    ("parseObjectEntries", 1%N); ("parseListEntries", 1%N); ("parser.expectOp", 1%N) ].
Proof. vm_compute. reflexivity. Qed.

(** SkipErrStmt: the loop runs exactly while the current token is neither the
    separator nor EOF (all four valuations), and its body is [p.Next()]. *)
Definition skip_cond_ok (e : gexpr) : bool :=
  forallb (fun se : bool * bool =>
             match eval_see (fst se) (snd se) e with
             | Some v => Bool.eqb v (negb (fst se) && negb (snd se))
             | None => false
             end)
          [(false, false); (false, true); (true, false); (true, true)].

Lemma gen_skip_cond_terminates : skip_cond_ok gen_skip_cond = true.
Proof. vm_compute. reflexivity. Qed.

Lemma gen_skip_body_agree : gen_skip_body = ["p.Next()"].
Proof. vm_compute. reflexivity. Qed.

(** Rune classes. *)
Lemma gen_is_white_agree :
  same_set (disjuncts gen_is_white) [GRuneIs 32; GRuneIs 9; GRuneIs 13] = true.
Proof. vm_compute. reflexivity. Qed.

Lemma gen_exp_sign_agree :
  same_set (disjuncts gen_exp_sign_cond)
           (GCall "IsDigit" :: map GRuneIs exp_signs) = true.
Proof. vm_compute. reflexivity. Qed.

Lemma gen_is_bare_agree :
  match gen_is_bare with
  | GNot e => same_set (disjuncts e) [GRuneIs 32; GRuneIs 10; GRuneIs 13]
  | _ => false
  end = true.
Proof. vm_compute. reflexivity. Qed.

(** lexOperator: the runes that make an operator token, the comment and the
    semicolon cases, and the default. *)
Definition sorted_insert (x : N) (l : list N) : list N :=
  (fix go (l : list N) : list N :=
     match l with
     | [] => [x]
     | y :: r => if N.leb x y then x :: l else y :: go r
     end) l.
Definition sortN (l : list N) : list N := fold_right sorted_insert [] l.

Lemma gen_lex_operator_agree :
  match gen_lex_operator with
  | [ ("case", ops, ""); ("case", [47%N], _); ("case", [59%N], semi); ("default", [], "return nil") ] =>
      list_N_eqb (sortN ops) (sortN op_runes) && String.eqb semi "return x.MakeToken(tokSemi)"
  | _ => false
  end = true.
Proof. vm_compute. reflexivity. Qed.

(** semiInserter: "}" and "]" switch semicolon insertion on, every other
    operator switches it off. *)
Lemma gen_semi_operator_agree :
  match gen_semi_operator_cases with
  | [ ([125%N], ""); ([93%N], on); ([], off) ] =>
      String.eqb on "si.insertSemi = true" && String.eqb off "si.insertSemi = false"
  | [ ([125%N], on); ([93%N], on'); ([], off) ] =>
      String.eqb on "si.insertSemi = true" && String.eqb on' "si.insertSemi = true"
      && String.eqb off "si.insertSemi = false"
  | _ => false
  end = true.
Proof. vm_compute. reflexivity. Qed.

(** Ownership of results (gen/jsonx_own.go, Gen/JsonxOwn.v): every function
    of jsonx / lexing / strtoken with a []byte result returns nil, a buffer
    made in that very call, or what another such function returns; and no
    package-level variable is or holds a buffer (sync.Pool, bytes.Buffer,
    []byte, strings.Builder).  So the allocation policy of Jsonx/Own.v is
    [Fresh], and the caller of Marshal / ToJSON owns what it was handed. *)
Lemma gen_results_fresh : results_fresh gen_result_origins gen_pkg_buffers = true.
Proof. vm_compute. reflexivity. Qed.

Lemma gen_policy_fresh : policy_of gen_result_origins gen_pkg_buffers = Fresh.
Proof. unfold policy_of. now rewrite gen_results_fresh. Qed.

Lemma gen_result_functions_present :
  forallb (fun f => existsb (fun fo => String.eqb (fst fo) f) gen_result_origins)
          ["jsonx.Marshal"; "jsonx.ToJSON"; "jsonx.marshalValue"] = true.
Proof. vm_compute. reflexivity. Qed.

Lemma gen_results_owned (F : list N -> list N) h k :
  read (run F (policy_of gen_result_origins gen_pkg_buffers) h) k = nth_error (spec F h) k.
Proof. rewrite gen_policy_fresh. apply fresh_is_spec. Qed.

Lemma gen_result_stable (F : list N -> list N) h1 i h2 :
  forallb (fun e => negb (writes_to (ncalls h1) e)) h2 = true ->
  read (run F (policy_of gen_result_origins gen_pkg_buffers) (h1 ++ ECall i :: h2)) (ncalls h1) = Some (F i).
Proof. rewrite gen_policy_fresh. apply fresh_result_stable. Qed.

(** Files (gen/jsonx_own.go [gen_writefile_opens]): every place of jsonx/
    that creates or opens a file for writing replaces the whole content -
    os.WriteFile, os.Create, or os.OpenFile with O_TRUNC and without
    O_APPEND - and WriteFile is one of them.  So the write policy of
    Jsonx/FileModel.v is [Replace]. *)
Lemma gen_writefile_replaces : writes_replace gen_writefile_opens = true.
Proof. vm_compute. reflexivity. Qed.

Lemma gen_wpolicy_replace : wpolicy_of gen_writefile_opens = Replace.
Proof. unfold wpolicy_of. now rewrite gen_writefile_replaces. Qed.

Lemma gen_file_last_write h f p :
  read_file (run_writes (wpolicy_of gen_writefile_opens) h f) p = last_write p h (f p).
Proof. rewrite gen_wpolicy_replace. apply replace_last_write. Qed.

(** Size bounds (gen/jsonx_own.go [gen_int_literals]): every integer of at
    least 256 that lexing/, jsonx/ and strtoken/ name - literal, constant or
    constant expression.  The known ones are no bounds on the input: 420 is
    the mode 0644 of WriteFile, 55296 and 57344 are the ends of the surrogate
    range in lexEscape.  The model has no length bound anywhere; an integer
    that is not in this list is a candidate for one, and the bigtoken stream
    of the C07 check tries tokens of every listed size. *)
Lemma gen_int_literals_known : gen_int_literals = [420%N; 55296%N; 57344%N].
Proof. vm_compute. reflexivity. Qed.

(** The file readers are stateless (gen/jsonx_own.go [gen_reader_state]):
    ReadFile, ReadFileMaybeJSON, ReadSeriesFile, unmarshalFile and the Decoder
    constructors mention no package-level variable and make no file-status
    call (os.Stat, ModTime): nothing a cache could be kept in or validated by. *)
Lemma gen_readfile_stateless : gen_reader_state = [].
Proof. vm_compute. reflexivity. Qed.
