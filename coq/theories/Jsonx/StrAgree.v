(** C09: a string literal that both JSON and Go accept denotes the same
    string in both: if the reference JSON parser reads the literal as [v] and
    strconv.Unquote reads it as the bytes [bs], then [bs] is the UTF-8
    encoding of [v]. *)
From Coq Require Import List NArith Bool Lia.
From Verif Require Import Lib.Utf8 Jsonx.Lex Jsonx.GoStr Jsonx.Json.
Import ListNotations.
Local Open Scope N_scope.

(** States in which both readers are, after the same prefix. *)
Inductive sync : jstate -> ustate -> Prop :=
| S_normal : sync JN UNormal
| S_esc : sync JE UEsc
| S_hex k v : sync (JU (S k) v None) (UHex (S k) KU v).

Lemma jhex_unhex c : jhex c = unhex c.
Proof. reflexivity. Qed.

Lemma simple_escapes_agree c b :
  simple_json_escape c = Some b -> c <> 47 -> simple_escape_val c = Some b.
Proof.
  unfold simple_json_escape, simple_escape_val. intros H Hc.
  destruct (N.eqb_spec c 34) as [->|]; [exact H|].
  destruct (N.eqb_spec c 92) as [->|]; [exact H|].
  destruct (N.eqb_spec c 47) as [->|]; [contradiction|].
  destruct (N.eqb_spec c 98) as [->|]; [exact H|].
  destruct (N.eqb_spec c 102) as [->|]; [exact H|].
  destruct (N.eqb_spec c 110) as [->|]; [exact H|].
  destruct (N.eqb_spec c 114) as [->|]; [exact H|].
  destruct (N.eqb_spec c 116) as [->|]; [exact H|]. discriminate.
Qed.

Theorem strings_agree : forall s js us v bs,
  sync js us -> forallb valid_rune s = true ->
  jstr_go js s = Some (v, []) -> unq_go us s = Some bs ->
  utf8_decode bs = v.
Proof.
  induction s as [|c r IH]; intros js us v bs Hs Hv Hj Hu; [discriminate|].
  cbn [forallb] in Hv. apply andb_true_iff in Hv as [Hc Hr].
  cbn [jstr_go] in Hj. destruct Hs as [| |k w].
  - (* ordinary *)
    cbn [unq_go] in Hu. cbn [jstr_act] in Hj. unfold jn_act in Hj.
    destruct (N.eqb_spec c 34) as [->|H34].
    { injection Hj as <- ->. injection Hu as <-. reflexivity. }
    destruct (N.eqb_spec c 10) as [->|H10]; [discriminate|].
    destruct (N.eqb_spec c 92) as [->|H92].
    { destruct (jstr_go JE r) as [[v' rest]|] eqn:E; [|discriminate]. injection Hj as <- ->.
      exact (IH _ _ _ _ S_esc Hr E Hu). }
    destruct (c <? 32); [discriminate|].
    destruct (jstr_go JN r) as [[v' rest]|] eqn:E; [|discriminate]. injection Hj as <- ->.
    destruct (unq_go UNormal r) as [bs'|] eqn:Eu; [|discriminate]. injection Hu as <-.
    cbn [app]. rewrite decode_encode_rune by exact Hc. f_equal. exact (IH _ _ _ _ S_normal Hr E Eu).
  - (* after a backslash *)
    cbn [unq_go] in Hu. cbn [jstr_act] in Hj. unfold je_act in Hj.
    destruct (simple_json_escape c) as [b|] eqn:Ese.
    + destruct (N.eqb_spec c 47) as [->|H47].
      { (* \/ is not a Go escape *) cbn in Hu. discriminate. }
      rewrite (simple_escapes_agree c b Ese H47) in Hu.
      destruct (jstr_go JN r) as [[v' rest]|] eqn:E; [|discriminate]. injection Hj as <- ->.
      destruct (unq_go UNormal r) as [bs'|] eqn:Eu; [|discriminate]. injection Hu as <-.
      assert (Hb : b < 128).
      { unfold simple_json_escape in Ese.
        repeat match type of Ese with
        | (if ?x then _ else _) = _ => destruct x; [injection Ese as <-; lia|]
        end. discriminate. }
      cbn [app]. rewrite (decode_1 _ b _ Hb). f_equal. exact (IH _ _ _ _ S_normal Hr E Eu).
    + destruct (N.eqb_spec c 117) as [->|H117]; [|discriminate].
      cbn [simple_escape_val N.eqb Pos.eqb] in Hu.
      destruct (jstr_go (JU 4 0 None) r) as [[v' rest]|] eqn:E; [|discriminate]. injection Hj as <- ->.
      exact (IH _ _ _ _ (S_hex 3 0) Hr E Hu).
  - (* in \uXXXX *)
    cbn [unq_go] in Hu. cbn [jstr_act] in Hj. rewrite jhex_unhex in Hj.
    destruct (unhex c) as [d|]; [|discriminate].
    destruct k as [|k'].
    + (* last digit *)
      cbn [hex_final] in Hu. destruct (valid_rune (w * 16 + d)) eqn:Ev; [|discriminate].
      cbn [ju_final] in Hj.
      assert (Hsur : is_surrogate (w * 16 + d) = false).
      { apply valid_rune_spec in Ev. unfold is_surrogate, in_range. lia. }
      rewrite Hsur in Hj.
      destruct (jstr_go JN r) as [[v' rest]|] eqn:E; [|discriminate]. injection Hj as <- ->.
      destruct (unq_go UNormal r) as [bs'|] eqn:Eu; [|discriminate]. injection Hu as <-.
      cbn [app]. rewrite decode_encode_rune by exact Ev. f_equal. exact (IH _ _ _ _ S_normal Hr E Eu).
    + destruct (jstr_go (JU (S k') (w * 16 + d) None) r) as [[v' rest]|] eqn:E; [|discriminate].
      injection Hj as <- ->. exact (IH _ _ _ _ (S_hex k' _) Hr E Hu).
Qed.

(** For a whole literal: the opening quote followed by [body]. *)
Theorem plain_json_strings_agree body v bs :
  forallb valid_rune body = true ->
  jstr_go JN body = Some (v, []) -> go_unquote (34 :: body) = Some bs ->
  utf8_decode bs = v.
Proof. intros Hv Hj Hu. exact (strings_agree body JN UNormal v bs S_normal Hv Hj Hu). Qed.
