(** Types of the objects gen/jsonx.go emits into Gen/JsonxConsts.v. *)
From Coq Require Import List NArith String Ascii Bool.
Import ListNotations.

(** A Go boolean expression over the lexer's current rune ([GRuneIs],
    [GCall "IsDigit"]) or the parser's current token ([GSee "sep"]).
    Anything the translator does not recognise is [GUnknown]. *)
Inductive gexpr :=
| GOr (a b : gexpr)
| GAnd (a b : gexpr)
| GNot (a : gexpr)
| GRuneIs (r : N)
| GCall (f : string)
| GSee (what : string)
| GUnknown (src : string).

Inductive gkeyword := GK (runes : list N) | GKUnknown (src : string).

(** A statement of [ErrorList.Add]: the nil check, setting the jail flag, the
    early return of a full list, the append; anything else is [AUnknown]. *)
Inductive add_stmt := ANilPanic | ASetJail | ACapReturn | AAppend | AUnknown (src : string).

(** The jail flag is set on EVERY call that returns: going through the
    statements in order, [ASetJail] is met before any statement that may
    return or is not understood. *)
Fixpoint sets_jail_always (l : list add_stmt) : bool :=
  match l with
  | [] => false
  | ANilPanic :: r => sets_jail_always r          (* does not return: panics *)
  | ASetJail :: _ => true
  | _ => false
  end.

(** At most [Max] errors are kept: a cap check stands before the append. *)
Fixpoint capped_append (l : list add_stmt) : bool :=
  match l with
  | [] => false
  | ACapReturn :: r => existsb (fun s => match s with AAppend => true | _ => false end) r
  | AAppend :: _ => false
  | AUnknown _ :: _ => false
  | _ :: r => capped_append r
  end.

Fixpoint gexpr_eqb (a b : gexpr) : bool :=
  match a, b with
  | GOr a1 a2, GOr b1 b2 | GAnd a1 a2, GAnd b1 b2 => gexpr_eqb a1 b1 && gexpr_eqb a2 b2
  | GNot a1, GNot b1 => gexpr_eqb a1 b1
  | GRuneIs x, GRuneIs y => N.eqb x y
  | GCall f, GCall g => String.eqb f g
  | GSee f, GSee g => String.eqb f g
  | _, _ => false
  end.

(** The disjuncts of [a || b || ...]. *)
Fixpoint disjuncts (e : gexpr) : list gexpr :=
  match e with
  | GOr a b => disjuncts a ++ disjuncts b
  | _ => [e]
  end.

Definition same_set (a b : list gexpr) : bool :=
  forallb (fun x => existsb (gexpr_eqb x) b) a && forallb (fun x => existsb (gexpr_eqb x) a) b.

(** Evaluation of a condition over the two token tests of SkipErrStmt;
    [None] if the condition mentions anything else. *)
Fixpoint eval_see (sep eof : bool) (e : gexpr) : option bool :=
  match e with
  | GOr a b => match eval_see sep eof a, eval_see sep eof b with
               | Some x, Some y => Some (x || y) | _, _ => None end
  | GAnd a b => match eval_see sep eof a, eval_see sep eof b with
                | Some x, Some y => Some (x && y) | _, _ => None end
  | GNot a => option_map negb (eval_see sep eof a)
  | GSee w => if String.eqb w "sep" then Some sep
              else if String.eqb w "EOF" then Some eof else None
  | _ => None
  end.

(** Where the []byte an entry point returns comes from (gen/jsonx_own.go).
    [RFresh]: a buffer made in that very call (new(bytes.Buffer), make,
    a conversion that copies); [RNil]; [RCall f]: the result of function [f]
    of the same table; everything else is memory that outlives the call or
    that the translator cannot place: the buffer of something that is not
    fresh ([RBufferOf]), a value taken out of an interface - a pool -
    ([RPooled]), a package-level variable, a field, a parameter, the result
    of a function outside the table. *)
Inductive rorigin :=
| RNil
| RFresh
| RCall (f : string)
| RBufferOf (o : rorigin)
| RPooled (src : string)
| RGlobal (name : string)
| RField (src : string)
| RParam (name : string)
| RForeign (src : string)
| RUnknown (src : string).

Definition origin_fresh (table : list string) (pkg : string) (o : rorigin) : bool :=
  match o with
  | RNil | RFresh => true
  | RCall f => existsb (String.eqb (pkg ++ "." ++ f)) table
  | _ => false
  end.

(** The package part of "pkg.Func". *)
Fixpoint pkg_of (s : string) : string :=
  match s with
  | EmptyString => EmptyString
  | String c r => if Ascii.eqb c "."%char then EmptyString else String c (pkg_of r)
  end.

(** Every function of the table returns nil, a buffer of its own, or what
    another function of the table returns (which, the table being closed
    under this, is again one of the three); no package-level variable is or
    holds a buffer. *)
Definition results_fresh (t : list (string * list rorigin)) (vars : list (string * string)) : bool :=
  forallb (fun fo => forallb (origin_fresh (map fst t) (pkg_of (fst fo))) (snd fo)) t
  && match vars with [] => true | _ => false end.

Local Open Scope string_scope.

(** A write to the error state of lexing (gen/jsonx.go: every assignment to a
    selector .inJail or .errs in lexing/ and jsonx/, every address taken of
    one). *)
Inductive ewrite :=
| WSetJail (fn : string) (v : bool)
| WAppendErr (fn : string)
| WNewList (fn : string)
| WOther (fn : string) (src : string).

Definition str_in (s : string) (l : list string) : bool := existsb (String.eqb s) l.

(** The flag is raised only by Add (and the unused Jail), lowered only by
    BailOut; the list grows only in Add; the lexer's and the parser's lists
    are made once, at construction; nothing else touches them. *)
Definition write_ok (w : ewrite) : bool :=
  match w with
  | WSetJail f true => str_in f ["ErrorList.Add"; "ErrorList.Jail"]
  | WSetJail f false => str_in f ["ErrorList.BailOut"]
  | WAppendErr f => str_in f ["ErrorList.Add"]
  | WNewList f => str_in f ["NewLexer"; "NewParser"]
  | WOther _ _ => false
  end.

Definition has_write (w : ewrite) (l : list ewrite) : bool :=
  existsb (fun x => match x, w with
                    | WSetJail f a, WSetJail g b => String.eqb f g && Bool.eqb a b
                    | WAppendErr f, WAppendErr g => String.eqb f g
                    | WNewList f, WNewList g => String.eqb f g
                    | _, _ => false
                    end) l.

Definition writes_ok (l : list ewrite) : bool :=
  forallb write_ok l
  && has_write (WSetJail "ErrorList.Add" true) l && has_write (WSetJail "ErrorList.BailOut" false) l
  && has_write (WAppendErr "ErrorList.Add") l
  && has_write (WNewList "NewLexer") l && has_write (WNewList "NewParser") l.

(** A one-statement helper: returns a field of the receiver, sets one to a
    constant, calls a method of the receiver or of one of its fields with the
    listed arguments ("$x" = its own parameter x). *)
Inductive edeleg :=
| DReturnField (field : string)
| DSetField (field : string) (v : bool)
| DCallSelf (meth : string) (args : list string)
| DCallField (field meth : string) (args : list string)
| DOther (src : string).

Fixpoint strs_eqb (a b : list string) : bool :=
  match a, b with
  | [], [] => true
  | x :: a', y :: b' => String.eqb x y && strs_eqb a' b'
  | _, _ => false
  end.

Definition edeleg_eqb (a b : edeleg) : bool :=
  match a, b with
  | DReturnField f, DReturnField g => String.eqb f g
  | DSetField f x, DSetField g y => String.eqb f g && Bool.eqb x y
  | DCallSelf m a1, DCallSelf n a2 => String.eqb m n && strs_eqb a1 a2
  | DCallField f m a1, DCallField g n a2 => String.eqb f g && String.eqb m n && strs_eqb a1 a2
  | _, _ => false
  end.

(** How a function creates or opens a file for writing (gen/jsonx_own.go:
    every call of os.WriteFile / ioutil.WriteFile / os.Create / os.OpenFile
    in jsonx/, with the flag names of OpenFile). *)
Inductive wopen :=
| WOWriteFile                         (* os.WriteFile: creates or truncates *)
| WOCreate                            (* os.Create: O_RDWR|O_CREATE|O_TRUNC *)
| WOOpenFile (flags : list string)    (* os.OpenFile with these os.O_* flags *)
| WOUnknown (src : string).

Definition wopen_replaces (w : wopen) : bool :=
  match w with
  | WOWriteFile | WOCreate => true
  | WOOpenFile flags =>
      str_in "O_TRUNC" flags && negb (str_in "O_APPEND" flags)
      && (str_in "O_WRONLY" flags || str_in "O_RDWR" flags)
  | WOUnknown _ => false
  end.

(** Every place that opens a file for writing replaces its whole content,
    and WriteFile is among them. *)
Definition writes_replace (opens : list (string * wopen)) : bool :=
  forallb (fun fw => wopen_replaces (snd fw)) opens
  && existsb (fun fw => String.eqb (fst fw) "jsonx.WriteFile") opens.
