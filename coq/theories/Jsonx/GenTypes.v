(** Types of the objects gen/jsonx.go emits into Gen/JsonxConsts.v. *)
From Coq Require Import List NArith String Bool.
Import ListNotations.

(** A Go boolean expression over the lexer's current rune ([GRuneIs],
    [GCall "IsDigit"]) or the parser's current token ([GSee "sep"]).
    Anything the translator does not recognise is [GUnknown]. *)
Inductive gexpr :=
| GOr (a b : gexpr)
| GAnd (a b : gexpr)
| GNot (a : gexpr)
| GRuneIs (r : N)
| GCall (f : string)
| GSee (what : string)
| GUnknown (src : string).

Inductive gkeyword := GK (runes : list N) | GKUnknown (src : string).

(** A statement of [ErrorList.Add]: the nil check, setting the jail flag, the
    early return of a full list, the append; anything else is [AUnknown]. *)
Inductive add_stmt := ANilPanic | ASetJail | ACapReturn | AAppend | AUnknown (src : string).

(** The jail flag is set on EVERY call that returns: going through the
    statements in order, [ASetJail] is met before any statement that may
    return or is not understood. *)
Fixpoint sets_jail_always (l : list add_stmt) : bool :=
  match l with
  | [] => false
  | ANilPanic :: r => sets_jail_always r          (* does not return: panics *)
  | ASetJail :: _ => true
  | _ => false
  end.

(** At most [Max] errors are kept: a cap check stands before the append. *)
Fixpoint capped_append (l : list add_stmt) : bool :=
  match l with
  | [] => false
  | ACapReturn :: r => existsb (fun s => match s with AAppend => true | _ => false end) r
  | AAppend :: _ => false
  | AUnknown _ :: _ => false
  | _ :: r => capped_append r
  end.

Fixpoint gexpr_eqb (a b : gexpr) : bool :=
  match a, b with
  | GOr a1 a2, GOr b1 b2 | GAnd a1 a2, GAnd b1 b2 => gexpr_eqb a1 b1 && gexpr_eqb a2 b2
  | GNot a1, GNot b1 => gexpr_eqb a1 b1
  | GRuneIs x, GRuneIs y => N.eqb x y
  | GCall f, GCall g => String.eqb f g
  | GSee f, GSee g => String.eqb f g
  | _, _ => false
  end.

(** The disjuncts of [a || b || ...]. *)
Fixpoint disjuncts (e : gexpr) : list gexpr :=
  match e with
  | GOr a b => disjuncts a ++ disjuncts b
  | _ => [e]
  end.

Definition same_set (a b : list gexpr) : bool :=
  forallb (fun x => existsb (gexpr_eqb x) b) a && forallb (fun x => existsb (gexpr_eqb x) a) b.

(** Evaluation of a condition over the two token tests of SkipErrStmt;
    [None] if the condition mentions anything else. *)
Fixpoint eval_see (sep eof : bool) (e : gexpr) : option bool :=
  match e with
  | GOr a b => match eval_see sep eof a, eval_see sep eof b with
               | Some x, Some y => Some (x || y) | _, _ => None end
  | GAnd a b => match eval_see sep eof a, eval_see sep eof b with
                | Some x, Some y => Some (x && y) | _, _ => None end
  | GNot a => option_map negb (eval_see sep eof a)
  | GSee w => if String.eqb w "sep" then Some sep
              else if String.eqb w "EOF" then Some eof else None
  | _ => None
  end.
