(** C08 at the level of the entry points: ToJSON, Unmarshal, DecodeSeries and
    strtoken.Parse return on every input, without panic and without running
    out of fuel, with a value or at least one error; an input with a lexing
    error anywhere (an unterminated string, raw string or block comment in
    particular) is rejected by the whole-document entry points. *)
From Coq Require Import List NArith Bool Lia Arith.
From Verif Require Import Lib.Utf8 Jsonx.Lex Jsonx.Tok Jsonx.GoStr Jsonx.Num Jsonx.Parse
  Jsonx.Json Jsonx.Encode Jsonx.LexProofs Jsonx.ParseProofs.
Import ListNotations.

(** ** Every state the parser reaches is obtained by Next / Add / BailOut *)

Inductive reach : pstate -> pstate -> Prop :=
| R_refl st : reach st st
| R_next st st' : reach (p_next st) st' -> reach st st'
| R_add e st st' : reach (p_add e st) st' -> reach st st'
| R_bail st st' : reach (p_bail st) st' -> reach st st'.

Lemma reach_trans a b c : reach a b -> reach b c -> reach a c.
Proof.
  induction 1; intros H2; [exact H2| | |].
  - apply R_next; auto.
  - apply R_add with (e := e); auto.
  - apply R_bail; auto.
Qed.

Lemma reach_next st : reach st (p_next st).
Proof. apply R_next, R_refl. Qed.

Lemma reach_add e st : reach st (p_add e st).
Proof. apply R_add with (e := e), R_refl. Qed.

Lemma reach_expect_op op st : reach st (snd (expect_op op st)).
Proof.
  unfold expect_op. destruct (jail st); [apply R_refl|].
  destruct (see_op [op] st); [apply reach_next|apply reach_add].
Qed.

Lemma reach_p_expect t st : reach st (snd (p_expect t st)).
Proof.
  unfold p_expect. destruct (jail st); [apply R_refl|].
  destruct (p_see t st); [apply reach_next|apply reach_add].
Qed.

Lemma skip_loop_reach fin pe j : forall r c,
  reach (mkSt c r fin pe j)
        (mkSt (fst (skip_loop c r fin)) (snd (skip_loop c r fin)) fin pe j).
Proof.
  induction r as [|t r IH]; intros c; cbn [skip_loop].
  - destruct (ttype_eqb (pty c) TSemi || ttype_eqb (pty c) TEOF); cbn [fst snd].
    + apply R_refl.
    + apply R_next. cbn. apply R_refl.
  - destruct (ttype_eqb (pty c) TSemi || ttype_eqb (pty c) TEOF); cbn [fst snd].
    + apply R_refl.
    + apply R_next. cbn. apply IH.
Qed.

Lemma reach_skip st : reach st (snd (skip_err_stmt st)).
Proof.
  unfold skip_err_stmt. destruct (negb (jail st)); [apply R_refl|].
  pose proof (skip_loop_reach (fin st) (perrs st) (jail st) (rest st) (cur st)) as H.
  destruct (skip_loop (cur st) (rest st) (fin st)) as [c r]. cbn [fst snd] in *.
  assert (E : st = mkSt (cur st) (rest st) (fin st) (perrs st) (jail st)) by (destruct st; reflexivity).
  rewrite <- E in H. eapply reach_trans; [exact H|].
  destruct (p_see TSemi _).
  - apply R_next, R_bail, R_refl.
  - apply R_bail, R_refl.
Qed.

Section WithFloat.
Context {F : Type}.
Variable pf : list N -> option F.
Variable ff : F -> list N.

Lemma reach_psv t st : reach st (snd (parse_string_value t st)).
Proof. unfold parse_string_value. destruct (go_unquote (plit t)); [apply R_refl|apply reach_add]. Qed.

Lemma reach_pfv t st : reach st (snd (parse_float_value pf t st)).
Proof. unfold parse_float_value. destruct (pf (plit t)); [apply R_refl|apply reach_add]. Qed.

Lemma parse_ident_list_reach f : forall st acc v st',
  @parse_ident_list F f st acc = Some (v, st') -> reach st st'.
Proof.
  induction f as [|f IH]; intros st acc v st' H; [discriminate|].
  cbn [parse_ident_list] in H.
  pose proof (reach_p_expect TIdent st) as Hr.
  destruct (p_expect TIdent st) as [ok st1]. cbn [snd] in Hr.
  destruct ok; cbn [negb] in H.
  - destruct (see_op [[46%N]] st1).
    + eapply reach_trans; [exact Hr|]. eapply reach_trans; [apply reach_next|]. eapply IH; eauto.
    + injection H as _ <-. exact Hr.
  - injection H as _ <-. exact Hr.
Qed.

Lemma parse_all_reach f :
  (forall st v st', parse_value pf f st = Some (v, st') -> reach st st') /\
  (forall st acc es st', parse_object_entries pf f st acc = Some (es, st') -> reach st st') /\
  (forall st acc es st', parse_list_entries pf f st acc = Some (es, st') -> reach st st').
Proof.
  induction f as [|f (IH1 & IH2 & IH3)]; [repeat split; intros; discriminate|].
  split; [|split].
  - intros st v st' H. rewrite parse_value_S in H. unfold pv_body in H.
    destruct (pty (cur st)).
    + destruct (list_N_eqb _ lit_true); [injection H as _ <-; apply reach_next|].
      destruct (list_N_eqb _ lit_false); [injection H as _ <-; apply reach_next|].
      destruct (list_N_eqb _ _); injection H as _ <-; [apply reach_next|].
      eapply reach_trans; [apply reach_next|apply reach_add].
    + eapply parse_ident_list_reach; eauto.
    + pose proof (reach_psv (cur st) (p_next st)) as Hr.
      destruct (parse_string_value (cur st) (p_next st)) as [bv st2]. injection H as _ <-.
      eapply reach_trans; [apply reach_next|exact Hr].
    + injection H as _ <-. apply reach_next.
    + pose proof (reach_pfv (cur st) (p_next st)) as Hr.
      destruct (parse_float_value pf (cur st) (p_next st)) as [bv st2]. injection H as _ <-.
      eapply reach_trans; [apply reach_next|exact Hr].
    + destruct (_ || _).
      { destruct (pty (cur (p_next st)));
          try (injection H as _ <-; eapply reach_trans; [apply reach_next|apply reach_add]).
        - injection H as _ <-. eapply reach_trans; apply reach_next.
        - pose proof (reach_pfv (cur (p_next st)) (p_next (p_next st))) as Hr.
          destruct (parse_float_value pf (cur (p_next st)) (p_next (p_next st))) as [bv st2].
          injection H as _ <-.
          eapply reach_trans; [apply reach_next|]. eapply reach_trans; [apply reach_next|exact Hr]. }
      destruct (lit_is (cur st) [123%N]).
      { destruct (parse_object_entries pf f (p_next st) []) as [[es st2]|] eqn:E; [|discriminate].
        injection H as _ <-. eapply reach_trans; [apply reach_next|].
        eapply reach_trans; [eapply IH2; eauto|apply reach_expect_op]. }
      destruct (lit_is (cur st) [91%N]).
      { destruct (parse_list_entries pf f (p_next st) []) as [[es st2]|] eqn:E; [|discriminate].
        injection H as _ <-. eapply reach_trans; [apply reach_next|].
        eapply reach_trans; [eapply IH3; eauto|apply reach_expect_op]. }
      injection H as _ <-. apply reach_add.
    + injection H as _ <-. apply reach_add.
    + injection H as _ <-. apply reach_add.
    + injection H as _ <-. apply reach_add.
    + injection H as _ <-. apply reach_add.
    + injection H as _ <-. apply reach_add.
    + injection H as _ <-. apply reach_add.
  - intros st acc es st' H. rewrite parse_object_entries_S in H. unfold poe_body in H.
    destruct (see_op [[125%N]] st); [injection H as _ <-; apply R_refl|].
    destruct (negb _); [injection H as _ <-; apply reach_add|].
    set (kvst := if ttype_eqb (pty (cur st)) TString
                 then let '(bs, st2) := parse_string_value (cur st) (p_next st) in
                      (KStr (plit (cur st)) bs, st2)
                 else (KIdent (plit (cur st)), p_next st)) in *.
    assert (Hk : reach (p_next st) (snd kvst)).
    { subst kvst. destruct (ttype_eqb _ _); [|apply R_refl].
      pose proof (reach_psv (cur st) (p_next st)) as Hr.
      destruct (parse_string_value (cur st) (p_next st)). exact Hr. }
    destruct kvst as [kv st2]. cbn [snd] in Hk.
    destruct (parse_value pf f (snd (expect_op [58%N] st2))) as [[v st4]|] eqn:E; [|discriminate].
    assert (H4 : reach st st4).
    { eapply reach_trans; [apply reach_next|]. eapply reach_trans; [exact Hk|].
      eapply reach_trans; [apply reach_expect_op|]. eapply IH1; eauto. }
    set (st5 := if see_op [[44%N]] st4 then p_next st4
                else if negb (see_op [[125%N]] st4) then snd (expect_op [44%N] st4) else st4) in *.
    assert (H5 : reach st4 st5).
    { subst st5. destruct (see_op [[44%N]] st4); [apply reach_next|].
      destruct (negb _); [apply reach_expect_op|apply R_refl]. }
    destruct (jail st5).
    + injection H as _ <-. eapply reach_trans; eauto.
    + eapply reach_trans; [exact H4|]. eapply reach_trans; [exact H5|]. eapply IH2; eauto.
  - intros st acc es st' H. rewrite parse_list_entries_S in H. unfold ple_body in H.
    destruct (see_op [[93%N]] st); [injection H as _ <-; apply R_refl|].
    destruct (parse_value pf f st) as [[v st1]|] eqn:E; [|discriminate].
    pose proof (IH1 _ _ _ E) as H1.
    set (st2 := if see_op [[44%N]] st1 then p_next st1
                else if negb (see_op [[93%N]] st1) then snd (expect_op [44%N] st1) else st1) in *.
    assert (H2 : reach st1 st2).
    { subst st2. destruct (see_op [[44%N]] st1); [apply reach_next|].
      destruct (negb _); [apply reach_expect_op|apply R_refl]. }
    destruct (jail st2).
    + injection H as _ <-. eapply reach_trans; eauto.
    + eapply reach_trans; [exact H1|]. eapply reach_trans; [exact H2|]. eapply IH3; eauto.
Qed.

Lemma parse_value_reach f st v st' : parse_value pf f st = Some (v, st') -> reach st st'.
Proof. apply (proj1 (parse_all_reach f)). Qed.

Lemma parse_type_name_reach st : reach st (snd (parse_type_name st)).
Proof.
  unfold parse_type_name. destruct (pty (cur st)); try apply reach_add.
  - apply reach_next.
  - pose proof (reach_psv (cur st) (p_next st)) as Hr.
    destruct (parse_string_value (cur st) (p_next st)) as [bv st1]. cbn [snd] in *.
    eapply reach_trans; [apply reach_next|exact Hr].
Qed.

Lemma parse_series_reach f : forall st acc es st',
  parse_series pf f st acc = Some (es, st') -> reach st st'.
Proof.
  induction f as [|f IH]; intros st acc es st' H; [discriminate|].
  cbn [parse_series] in H. destruct (p_see TEOF st); [injection H as _ <-; apply R_refl|].
  pose proof (parse_type_name_reach st) as Hn.
  destruct (parse_type_name st) as [[nm|] st1]; cbn [snd] in Hn.
  - destruct (parse_value pf f st1) as [[v st2]|] eqn:E; [|discriminate].
    pose proof (parse_value_reach _ _ _ _ E) as H2.
    pose proof (reach_skip st2) as H3.
    destruct (skip_err_stmt st2) as [skipped st3]. cbn [snd] in H3.
    assert (H03 : reach st st3) by (eapply reach_trans; [exact Hn|]; eapply reach_trans; eauto).
    destruct skipped.
    + eapply reach_trans; [exact H03|]. eapply IH; eauto.
    + eapply reach_trans; [exact H03|].
      eapply reach_trans; [apply (reach_p_expect TSemi)|].
      eapply reach_trans; [apply reach_skip|]. eapply IH; eauto.
  - eapply reach_trans; [exact Hn|]. eapply reach_trans; [apply reach_skip|]. eapply IH; eauto.
Qed.

(** ** Invariants along [reach] *)

(** [wf st]: no token still to come is an EOF token, and if the current token
    is one it is the final EOF, which carries the lexer's complete error
    list. *)
Definition wf (st : pstate) : Prop :=
  Forall (fun t => is_eof t = false) (rest st) /\
  (is_eof (cur st) = true -> rest st = [] /\ cur st = eof_tok (fin st)).

Lemma wf_reach st st' : reach st st' -> wf st -> wf st'.
Proof.
  induction 1; intros Hw; auto; apply IHreach; destruct Hw as [Hr Hc]; split; auto.
  - unfold p_next. destruct (rest st) as [|t r]; cbn [rest cur fin].
    + constructor.
    + now inversion Hr.
  - unfold p_next. destruct (rest st) as [|t r]; cbn [rest cur fin]; [auto|].
    inversion Hr; subst. intros E. congruence.
Qed.

Lemma fin_reach st st' : reach st st' -> fin st' = fin st.
Proof.
  induction 1; auto. rewrite IHreach.
  unfold p_next. destruct (rest st); reflexivity.
Qed.

Lemma perrs_reach st st' : reach st st' -> perrs st <> [] -> perrs st' <> [].
Proof.
  induction 1; intros Hn; [exact Hn| | |]; apply IHreach.
  - unfold p_next. destruct (rest st); exact Hn.
  - cbn [p_add perrs]. unfold add_err. destruct (Nat.ltb _ _); [|exact Hn].
    destruct (perrs st); [contradiction|discriminate].
  - exact Hn.
Qed.

(** At the final EOF with no reported error, the lexer saw no error at all. *)
Lemma eof_no_errors st :
  wf st -> p_see TEOF st = true -> p_errs st = [] -> fin st = [].
Proof.
  intros [_ Hc] He Hp. destruct (Hc He) as [_ Hcur]. unfold p_errs in Hp. rewrite Hcur in Hp.
  cbn [pcum eof_tok] in Hp. destruct (fin st); [reflexivity|discriminate].
Qed.

(** ** The streams the tokenizer builds are well-formed *)

Lemma with_cum_spec : forall raw acc,
  Forall (fun te => tty (fst te) <> TEOF) raw ->
  Forall (fun t => is_eof t = false) (fst (with_cum acc raw)) /\
  snd (with_cum acc raw) = fold_left (fun a te => add_errs a (snd te)) raw acc.
Proof.
  induction raw as [|[t e] raw IH]; intros acc H; cbn [with_cum fold_left].
  - split; [constructor|reflexivity].
  - inversion H as [|? ? Ht Hr]; subst. specialize (IH (add_errs acc e) Hr).
    destruct (with_cum (add_errs acc e) raw) as [ps fn]. cbn [fst snd] in *.
    destruct IH as [IHa IHb]. split; [|exact IHb].
    constructor; [|exact IHa]. unfold is_eof. cbn [pty]. cbn [fst] in Ht.
    destruct (tty t); try reflexivity. contradiction.
Qed.

Lemma semi_ins_not_eof fn : forall ts flag,
  Forall (fun t => is_eof t = false) ts ->
  Forall (fun t => is_eof t = false) (semi_ins flag fn ts).
Proof.
  induction ts as [|t r IH]; intros flag H; cbn [semi_ins].
  - destruct flag; repeat constructor.
  - inversion H as [|? ? Ht Hr]; subst.
    destruct (pty t) eqn:E; try (constructor; [exact Ht|apply IH; exact Hr]).
    destruct flag; [constructor; [reflexivity|]|]; apply IH; exact Hr.
Qed.

Lemma parser_stream_spec raw :
  Forall (fun te => tty (fst te) <> TEOF) raw ->
  Forall (fun t => is_eof t = false) (sbody (parser_stream raw)) /\
  sfin (parser_stream raw) = all_lex_errs raw.
Proof.
  intros H. unfold parser_stream, filtered.
  destruct (with_cum_spec raw [] H) as [Ha Hb].
  destruct (with_cum [] raw) as [ps fn]. cbn [fst snd] in *. cbn [sbody sfin].
  split; [|exact Hb].
  assert (Hk : Forall (fun t => is_eof t = false) (map keyword_tok (semi_ins false fn ps))).
  { apply Forall_map. eapply Forall_impl; [|apply semi_ins_not_eof; exact Ha].
    intros t Ht. unfold keyword_tok. destruct (pty t) eqn:E; try exact Ht.
    destruct (is_keyword (plit t)); [reflexivity|exact Ht]. }
  clear -Hk. induction Hk; cbn [filter]; [constructor|].
  destruct (not_comment x); [constructor|]; auto.
Qed.

Lemma p_init_wf s :
  Forall (fun t => is_eof t = false) (sbody s) -> wf (p_init s) /\ fin (p_init s) = sfin s.
Proof.
  intros H. unfold p_init, p_next. cbn [rest fin perrs jail].
  destruct (sbody s) as [|t r]; cbn [rest cur fin].
  - split; [split; [constructor|auto]|reflexivity].
  - inversion H as [|? ? Ht Hr]; subst.
    split; [split; [exact Hr|intros E; cbn [cur] in E; congruence]|reflexivity].
Qed.

(** ** Fuel *)

Lemma parse_fuel_enough st : 2 * msr st + 3 <= parse_fuel st.
Proof. unfold parse_fuel, msr. destruct (is_eof (cur st)); lia. Qed.

Theorem parse_value_fuel_suffices st :
  exists v st', parse_value pf (parse_fuel st) st = Some (v, st').
Proof.
  destruct (parse_value_ok pf (parse_fuel st) st) as (v & st' & E & _).
  { pose proof (parse_fuel_enough st). lia. }
  eauto.
Qed.

(** ** The entry points on token streams *)

Definition value_or_error {A} (r : option A * list ecode) : Prop :=
  (exists a, r = (Some a, [])) \/ (exists e es, r = (None, e :: es)).

Theorem to_json_stream_total s :
  exists r, to_json_stream pf ff s = Some r /\ value_or_error r.
Proof.
  unfold to_json_stream.
  destruct (parse_value_ok pf (parse_fuel (p_init s)) (p_init s)) as (v & st1 & E & _).
  { pose proof (parse_fuel_enough (p_init s)). lia. }
  rewrite E. destruct (p_errs st1) as [|e es] eqn:Ep.
  - eexists. split; [reflexivity|]. unfold marshal_value.
    destruct (encode_value ff v); [left|right]; eauto.
  - eexists. split; [reflexivity|]. right. eauto.
Qed.

Theorem unmarshal_stream_total s : exists r, unmarshal_stream pf ff s = Some r.
Proof.
  unfold unmarshal_stream.
  destruct (parse_value_ok pf (parse_fuel (p_init s)) (p_init s)) as (v & st1 & E & _).
  { pose proof (parse_fuel_enough (p_init s)). lia. }
  rewrite E. destruct (p_errs st1); [|eauto].
  destruct (marshal_value ff v) as [[t|] es]; [|eauto].
  destruct (json_valid t); [|eauto].
  destruct (p_see TEOF _); [|eauto]. destruct (p_errs _); eauto.
Qed.

Theorem decode_series_stream_total tm s :
  exists r, decode_series_stream pf ff tm s = Some r /\ value_or_error r.
Proof.
  unfold decode_series_stream.
  destruct (parse_series_ok pf (parse_fuel (p_init s)) (p_init s) [] (parse_fuel_enough _))
    as (es & st1 & E & _).
  rewrite E. destruct (p_errs st1) as [|e l].
  - destruct (fold_left _ es ([], [])) as [[|e l] res]; eexists; (split; [reflexivity|]);
      [left|right]; eauto.
  - eexists. split; [reflexivity|]. right. eauto.
Qed.

(** A document accepted by Unmarshal / DecodeSeries had no lexing error. *)
Theorem unmarshal_stream_ok_no_lex_errors s t :
  Forall (fun t => is_eof t = false) (sbody s) ->
  unmarshal_stream pf ff s = Some (UOk t) -> sfin s = [].
Proof.
  intros Hb H. unfold unmarshal_stream in H.
  destruct (p_init_wf s Hb) as [Hw Hf].
  destruct (parse_value pf _ (p_init s)) as [[v st1]|] eqn:E; [|discriminate].
  pose proof (parse_value_reach _ _ _ _ E) as Hr.
  destruct (p_errs st1); [|discriminate].
  destruct (marshal_value ff v) as [[t'|] es]; [|discriminate].
  destruct (json_valid t'); [|discriminate].
  set (st2 := if p_see TSemi st1 then p_next st1 else st1) in *.
  assert (Hr2 : reach (p_init s) st2).
  { subst st2. destruct (p_see TSemi st1); [eapply reach_trans; [exact Hr|apply reach_next]|exact Hr]. }
  destruct (p_see TEOF st2) eqn:Ee; [|discriminate].
  destruct (p_errs st2) eqn:Ep; [|discriminate].
  rewrite <- Hf, <- (fin_reach _ _ Hr2).
  apply eof_no_errors; auto. eapply wf_reach; eauto.
Qed.

(** Trailing content: an accepted document has nothing after the value and
    at most one separator: the cursor is the final EOF. *)
Theorem unmarshal_stream_ok_consumed s t :
  Forall (fun t => is_eof t = false) (sbody s) ->
  unmarshal_stream pf ff s = Some (UOk t) ->
  exists v st1,
    parse_value pf (parse_fuel (p_init s)) (p_init s) = Some (v, st1) /\
    let st2 := if p_see TSemi st1 then p_next st1 else st1 in
    rest st2 = [] /\ cur st2 = eof_tok (sfin s).
Proof.
  intros Hb H. unfold unmarshal_stream in H.
  destruct (p_init_wf s Hb) as [Hw Hf].
  destruct (parse_value pf _ (p_init s)) as [[v st1]|] eqn:E; [|discriminate].
  pose proof (parse_value_reach _ _ _ _ E) as Hr.
  destruct (p_errs st1); [|discriminate].
  destruct (marshal_value ff v) as [[t'|] es]; [|discriminate].
  destruct (json_valid t'); [|discriminate].
  exists v, st1. split; [reflexivity|].
  set (st2 := if p_see TSemi st1 then p_next st1 else st1) in *.
  assert (Hr2 : reach (p_init s) st2).
  { subst st2. destruct (p_see TSemi st1); [eapply reach_trans; [exact Hr|apply reach_next]|exact Hr]. }
  destruct (p_see TEOF st2) eqn:Ee; [|discriminate].
  destruct (wf_reach _ _ Hr2 Hw) as [_ Hc]. destruct (Hc Ee) as [H1 H2].
  split; [exact H1|]. now rewrite H2, (fin_reach _ _ Hr2), Hf.
Qed.

Theorem decode_series_stream_ok_no_lex_errors tm s res :
  Forall (fun t => is_eof t = false) (sbody s) ->
  decode_series_stream pf ff tm s = Some (Some res, []) -> sfin s = [].
Proof.
  intros Hb H. unfold decode_series_stream in H.
  destruct (p_init_wf s Hb) as [Hw Hf].
  destruct (parse_series_ok pf (parse_fuel (p_init s)) (p_init s) [] (parse_fuel_enough _))
    as (es & st1 & E & Hee).
  rewrite E in H. pose proof (parse_series_reach _ _ _ _ _ E) as Hr.
  destruct (p_errs st1) eqn:Ep; [|discriminate].
  rewrite <- Hf, <- (fin_reach _ _ Hr).
  apply eof_no_errors; auto. eapply wf_reach; eauto.
Qed.

(** ** The entry points on inputs *)

Theorem to_json_total input :
  exists r, to_json pf ff input = Ok r /\ value_or_error r.
Proof.
  unfold to_json, jsonx_stream. destruct (jsonx_raw_tokens_total input) as [raw ->].
  destruct (to_json_stream_total (parser_stream raw)) as (r & -> & Hv). eauto.
Qed.

Theorem unmarshal_total input : exists r, unmarshal pf ff input = Ok r.
Proof.
  unfold unmarshal, jsonx_stream. destruct (jsonx_raw_tokens_total input) as [raw ->].
  destruct (unmarshal_stream_total (parser_stream raw)) as (r & ->). eauto.
Qed.

Theorem decode_series_total tm input :
  exists r, decode_series pf ff tm input = Ok r /\ value_or_error r.
Proof.
  unfold decode_series, jsonx_stream. destruct (jsonx_raw_tokens_total input) as [raw ->].
  destruct (decode_series_stream_total tm (parser_stream raw)) as (r & -> & Hv). eauto.
Qed.

Lemma raw_not_eof input raw :
  jsonx_raw_tokens input = Ok raw -> Forall (fun te => tty (fst te) <> TEOF) raw.
Proof. apply lex_all_not_eof. exact lex_jsonx_not_eof. Qed.

Lemma all_lex_errs_nonempty : forall raw t e,
  In (t, e) raw -> e <> [] -> all_lex_errs raw <> [].
Proof.
  unfold all_lex_errs.
  assert (Hmono : forall (raw : list (token * list ecode)) acc, acc <> [] ->
            fold_left (fun a te => add_errs a (snd te)) raw acc <> []).
  { induction raw as [|[t e] raw IH]; intros acc Ha; cbn [fold_left]; [exact Ha|].
    apply IH. cbn [snd]. clear -Ha. revert acc Ha. unfold add_errs.
    induction e as [|x e IHe]; intros acc Ha; cbn [fold_left]; [exact Ha|].
    apply IHe. unfold add_err. destruct (Nat.ltb _ _); [|exact Ha].
    destruct acc; [contradiction|discriminate]. }
  assert (Hadd : forall e acc, e <> [] -> add_errs acc e <> []).
  { intros e acc He. destruct e as [|x e]; [contradiction|]. unfold add_errs. cbn [fold_left].
    assert (add_err acc x <> []).
    { unfold add_err. destruct (Nat.ltb (length acc) max_errs) eqn:El.
      - destruct acc; discriminate.
      - destruct acc; [discriminate|discriminate]. }
    clear -H. revert H. generalize (add_err acc x). induction e as [|y e IHe]; intros a Ha;
      cbn [fold_left]; [exact Ha|]. apply IHe. unfold add_err.
    destruct (Nat.ltb _ _); [|exact Ha]. destruct a; [contradiction|discriminate]. }
  assert (Hgen : forall (raw : list (token * list ecode)) acc t e, In (t, e) raw -> e <> [] ->
            fold_left (fun a te => add_errs a (snd te)) raw acc <> []).
  { induction raw as [|[t0 e0] raw IH]; intros acc t e Hin He; [contradiction|].
    cbn [fold_left snd]. destruct Hin as [Heq|Hin].
    - injection Heq as -> ->. apply Hmono, Hadd, He.
    - eapply IH; eauto. }
  intros raw t e. apply Hgen.
Qed.

(** An input with a lexing error in any token is not accepted by Unmarshal
    nor by DecodeSeries. *)
Theorem lex_error_rejected_unmarshal input raw t e txt :
  jsonx_raw_tokens input = Ok raw -> In (t, e) raw -> e <> [] ->
  unmarshal pf ff input <> Ok (UOk txt).
Proof.
  intros Hraw Hin He H. unfold unmarshal, jsonx_stream in H. rewrite Hraw in H.
  destruct (unmarshal_stream pf ff (parser_stream raw)) as [r|] eqn:E; [|discriminate].
  injection H as ->.
  destruct (parser_stream_spec raw (raw_not_eof _ _ Hraw)) as [Hb Hf].
  pose proof (unmarshal_stream_ok_no_lex_errors _ _ Hb E) as H0. rewrite Hf in H0.
  exact (all_lex_errs_nonempty _ _ _ Hin He H0).
Qed.

Theorem lex_error_rejected_series tm input raw t e res :
  jsonx_raw_tokens input = Ok raw -> In (t, e) raw -> e <> [] ->
  decode_series pf ff tm input <> Ok (Some res, []).
Proof.
  intros Hraw Hin He H. unfold decode_series, jsonx_stream in H. rewrite Hraw in H.
  destruct (decode_series_stream pf ff tm (parser_stream raw)) as [r|] eqn:E; [|discriminate].
  injection H as ->.
  destruct (parser_stream_spec raw (raw_not_eof _ _ Hraw)) as [Hb Hf].
  pose proof (decode_series_stream_ok_no_lex_errors _ _ _ Hb E) as H0. rewrite Hf in H0.
  exact (all_lex_errs_nonempty _ _ _ Hin He H0).
Qed.

End WithFloat.

(** ** strtoken.Parse *)

Theorem shell_parse_total input :
  exists r, shell_parse input = Ok r /\ value_or_error r.
Proof.
  unfold shell_parse. destruct (shell_raw_tokens_total input) as [raw ->].
  destruct (all_lex_errs raw) as [|e es].
  - match goal with |- context [fold_left ?f raw ?a] => destruct (fold_left f raw a) as [res [|e es]] end;
      eexists; (split; [reflexivity|]); [left|right]; eauto.
  - eexists. split; [reflexivity|]. right. eauto.
Qed.
