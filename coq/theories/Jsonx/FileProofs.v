(** WriteFile ... WriteFile, ReadFile: after any history of WriteFile calls,
    on any paths and over whatever was there before, ReadFile of a path
    returns the LAST value written to it (Jsonx/FileModel.v with the write
    policy read from the source, and the round trip of Jsonx/Roundtrip.v). *)
From Coq Require Import String List NArith Bool Arith Lia.
From Verif Require Import Lib.Utf8 Jsonx.Lex Jsonx.Tok Jsonx.GoStr Jsonx.Num Jsonx.Parse Jsonx.Json
  Jsonx.Encode Jsonx.Print Jsonx.Roundtrip Jsonx.GenTypes Gen.JsonxOwn Jsonx.FileModel Jsonx.ConstsGen.
Import ListNotations.
Local Open Scope N_scope.

Section FileRoundTrip.
Context {F : Type}.
Variable pf : list N -> option F.
Variable ff : F -> list N.
Variable is_print : N -> bool.
Hypothesis newline_not_printable : is_print 10 = false.
Hypothesis ff_json : forall f, is_json_number (ff f) = true.
Hypothesis ff_unsigned : forall f r, ff f <> 45 :: r.

(** jsonx.WriteFile(p, v) on the file system. *)
Definition write_value (f : fs) (p : nat) (v : pvalue) : fs :=
  write_file (wpolicy_of gen_writefile_opens) f p (print_doc is_print v).

Definition run_values (h : list (nat * pvalue)) (f : fs) : fs :=
  fold_left (fun f pv => write_value f (fst pv) (snd pv)) h f.

Lemma run_values_writes : forall h f,
  run_values h f
  = run_writes (wpolicy_of gen_writefile_opens) (map (fun pv => (fst pv, print_doc is_print (snd pv))) h) f.
Proof.
  induction h as [|[q v] h IH]; intros f; [reflexivity|].
  cbn [run_values fold_left map]. unfold run_writes. cbn [fold_left fst snd]. apply IH.
Qed.

Theorem file_history_roundtrip : forall h1 p v h2 f,
  wfpb v = true -> fokb pf v = true ->
  forallb (fun pv : nat * pvalue => negb (Nat.eqb p (fst pv))) h2 = true ->
  exists text out j',
    read_file (run_values (h1 ++ (p, v) :: h2) f) p = Some text /\
    text = print_doc is_print v /\
    unmarshal pf ff text = Ok (UOk out) /\
    json_parse out = Some j' /\ jrel pf ff (jv v) j'.
Proof.
  intros h1 p v h2 f Hw Hf Hn.
  destruct (roundtrip pf ff is_print newline_not_printable ff_json ff_unsigned v Hw Hf) as (out & j' & Hu & Hj & Hr).
  exists (print_doc is_print v), out, j'. repeat split; auto.
  rewrite run_values_writes, gen_wpolicy_replace, map_app. cbn [map fst snd].
  apply replace_after_history. rewrite forallb_forall in *. intros [q t] Hin.
  apply in_map_iff in Hin as ([q' v'] & E & Hin). injection E as <- <-. exact (Hn _ Hin).
Qed.

End FileRoundTrip.
