(** C09: plain JSON.  For every text that the RFC 8259 reference parser reads
    as [j] and that ToJSON accepts, the emitted JSON is read by the reference
    parser as a value equal to [j] (integers digit for digit, strings and keys
    rune for rune, member order and duplicates kept; a float literal [u] may
    be respelt [ff f] with [pf u = Some f]).

    Step A: every text the reference parser accepts is the rendering of a
    derivation tree [jt] that records the white space. *)
From Coq Require Import List NArith ZArith Bool Lia.
From Verif Require Import Lib.Utf8 Jsonx.Lex Jsonx.LexProofs Jsonx.Tok Jsonx.GoStr Jsonx.Num
  Jsonx.NumProofs Jsonx.Parse Jsonx.ParseProofs Jsonx.Json Jsonx.Encode Jsonx.Term
  Jsonx.JsonProofs Jsonx.StrAgree Jsonx.Print Jsonx.PrintProofs Jsonx.Roundtrip Jsonx.Balance.
Import ListNotations.
Local Open Scope N_scope.

Ltac norm_app := repeat (first [rewrite <- app_assoc | rewrite <- app_comm_cons]); cbn [app].

Definition all_ws (w : list N) : Prop := forallb is_ws w = true.

(** An array element: white space, value, white space. *)
Inductive jt :=
| TNull
| TBool (b : bool)
| TNum (t : list N)                 (* the whole literal, sign included *)
| TStr (body : list N)              (* after the opening quote, closing quote included *)
| TArr0 (w : list N)                (* "[" w "]" *)
| TArr (first : list N * jt * list N) (more : list (list N * jt * list N))
| TObj0 (w : list N)
| TObj (first : list N * list N * list N * list N * jt * list N)
       (more : list (list N * list N * list N * list N * jt * list N)).
       (* white space, key body, white space, ":" white space, value, white space *)

Definition str_val (body : list N) : list N :=
  match jstr_go JN body with Some (v, _) => v | None => [] end.

Fixpoint core (t : jt) : list N :=
  match t with
  | TNull => lit_null
  | TBool b => if b then lit_true else lit_false
  | TNum u => u
  | TStr body => 34 :: body
  | TArr0 w => 91 :: w ++ [93]
  | TArr f m =>
      let it := fun i : list N * jt * list N => let '(w1, v, w2) := i in w1 ++ core v ++ w2 in
      91 :: it f ++ flat_map (fun i => 44 :: it i) m ++ [93]
  | TObj0 w => 123 :: w ++ [125]
  | TObj f m =>
      let mt := fun i : list N * list N * list N * list N * jt * list N =>
                  let '(w1, k, w2, w3, v, w4) := i in
                  w1 ++ 34 :: k ++ w2 ++ 58 :: w3 ++ core v ++ w4 in
      123 :: mt f ++ flat_map (fun i => 44 :: mt i) m ++ [125]
  end.

Fixpoint jval (t : jt) : jvalue :=
  match t with
  | TNull => JNull
  | TBool b => JBool b
  | TNum u => JNum u
  | TStr body => JStr (str_val body)
  | TArr0 _ => JArr []
  | TArr f m => JArr (jval (snd (fst f)) :: map (fun i => jval (snd (fst i))) m)
  | TObj0 _ => JObj []
  | TObj f m =>
      let mv := fun i : list N * list N * list N * list N * jt * list N =>
                  let '(_, k, _, _, v, _) := i in (str_val k, jval v) in
      JObj (mv f :: map mv m)
  end.

Definition str_ok (body : list N) : Prop := exists v, jstr_go JN body = Some (v, []).

(** Well-formed trees: white space is white space, numbers are JSON numbers,
    string bodies are complete JSON strings. *)
Fixpoint wft (t : jt) : Prop :=
  match t with
  | TNull | TBool _ => True
  | TNum u => is_json_number u = true
  | TStr body => str_ok body
  | TArr0 w | TObj0 w => all_ws w
  | TArr f m =>
      let ok := fun i : list N * jt * list N =>
                  let '(w1, v, w2) := i in all_ws w1 /\ wft v /\ all_ws w2 in
      ok f /\ (fix all (l : list (list N * jt * list N)) : Prop :=
                 match l with [] => True | i :: r => ok i /\ all r end) m
  | TObj f m =>
      let ok := fun i : list N * list N * list N * list N * jt * list N =>
                  let '(w1, k, w2, w3, v, w4) := i in
                  all_ws w1 /\ str_ok k /\ all_ws w2 /\ all_ws w3 /\ wft v /\ all_ws w4 in
      ok f /\ (fix all (l : list (list N * list N * list N * list N * jt * list N)) : Prop :=
                 match l with [] => True | i :: r => ok i /\ all r end) m
  end.

(** ** Inversion of the reference parser *)

Lemma skip_ws_split s : exists w, all_ws w /\ s = w ++ skip_ws s /\
  match skip_ws s with [] => True | c :: _ => is_ws c = false end.
Proof.
  unfold skip_ws, all_ws. induction s as [|c s IH]; [exists []; repeat split|].
  cbn [drop_while]. destruct (is_ws c) eqn:E.
  - destruct IH as (w & Hw & Hs & Hh). exists (c :: w). cbn [forallb app]. rewrite E, Hw.
    repeat split; [now f_equal|exact Hh].
  - exists []. repeat split. exact E.
Qed.

Lemma jstr_go_prefix : forall s st v rest,
  jstr_go st s = Some (v, rest) -> exists body, s = body ++ rest /\ jstr_go st body = Some (v, []).
Proof.
  induction s as [|c s IH]; intros st v rest H; [discriminate|].
  cbn [jstr_go] in H. destruct (jstr_act st c) as [o st'|o|] eqn:Ea; [| |discriminate].
  - destruct (jstr_go st' s) as [[v' rest']|] eqn:E; [|discriminate]. injection H as <- <-.
    destruct (IH _ _ _ E) as (body & -> & Hb). exists (c :: body). split; [reflexivity|].
    cbn [jstr_go]. now rewrite Ea, Hb.
  - injection H as <- <-. exists [c]. split; [reflexivity|]. cbn [jstr_go]. now rewrite Ea.
Qed.

Lemma nscan_prefix : forall s st t rest,
  nscan st s = Some (t, rest) -> s = t ++ rest /\ nscan st t = Some (t, []).
Proof.
  induction s as [|c s IH]; intros st t rest H; cbn [nscan] in H.
  - destruct (naccept st) eqn:Ea; [|discriminate]. injection H as <- <-.
    split; [reflexivity|]. cbn. now rewrite Ea.
  - destruct (nstep st c) as [st'|] eqn:En.
    + destruct (nscan st' s) as [[t' r']|] eqn:E; [|discriminate]. injection H as <- <-.
      destruct (IH _ _ _ E) as [-> Ht]. split; [reflexivity|]. cbn [nscan]. now rewrite En, Ht.
    + destruct (naccept st) eqn:Ea; [|discriminate]. injection H as <- <-.
      split; [reflexivity|]. cbn. now rewrite Ea.
Qed.

Lemma lit_prefix_spec p s r : lit_prefix p s = Some r -> s = p ++ r.
Proof.
  unfold lit_prefix. revert s. induction p as [|x p IH]; intros s H.
  - now injection H as <-.
  - destruct s as [|y s]; [discriminate|]. destruct (N.eqb_spec x y) as [->|]; [|discriminate].
    cbn [app]. f_equal. now apply IH.
Qed.

Definition it_text (i : list N * jt * list N) : list N :=
  let '(w1, v, w2) := i in w1 ++ core v ++ w2.
Definition mt_text (i : list N * list N * list N * list N * jt * list N) : list N :=
  let '(w1, k, w2, w3, v, w4) := i in w1 ++ 34 :: k ++ w2 ++ 58 :: w3 ++ core v ++ w4.
Definition it_ok (i : list N * jt * list N) : Prop :=
  let '(w1, v, w2) := i in all_ws w1 /\ wft v /\ all_ws w2.
Definition mt_ok (i : list N * list N * list N * list N * jt * list N) : Prop :=
  let '(w1, k, w2, w3, v, w4) := i in
  all_ws w1 /\ str_ok k /\ all_ws w2 /\ all_ws w3 /\ wft v /\ all_ws w4.
Definition it_val (i : list N * jt * list N) : jvalue := jval (snd (fst i)).
Definition mt_val (i : list N * list N * list N * list N * jt * list N) : list N * jvalue :=
  let '(_, k, _, _, v, _) := i in (str_val k, jval v).

Lemma core_arr f m : core (TArr f m) = 91 :: it_text f ++ flat_map (fun i => 44 :: it_text i) m ++ [93].
Proof. destruct f as [[w1 v] w2]. reflexivity. Qed.
Lemma core_obj f m : core (TObj f m) = 123 :: mt_text f ++ flat_map (fun i => 44 :: mt_text i) m ++ [125].
Proof. destruct f as [[[[[w1 k] w2] w3] v] w4]. reflexivity. Qed.
Lemma jval_arr f m : jval (TArr f m) = JArr (it_val f :: map it_val m).
Proof. reflexivity. Qed.
Lemma jval_obj f m : jval (TObj f m) = JObj (mt_val f :: map mt_val m).
Proof. destruct f as [[[[[w1 k] w2] w3] v] w4]. reflexivity. Qed.
Lemma wft_arr f m : wft (TArr f m) <-> it_ok f /\ Forall it_ok m.
Proof.
  destruct f as [[w1 v] w2]. cbn [wft it_ok]. split; intros [Hf Hm]; (split; [exact Hf|]).
  - induction m as [|[[a b] c] m IH]; [constructor|]. destruct Hm as [Hi Hm]. constructor; auto.
  - induction Hm as [|[[a b] c] m Hi Hm IH]; [exact I|]. split; auto.
Qed.
Lemma wft_obj f m : wft (TObj f m) <-> mt_ok f /\ Forall mt_ok m.
Proof.
  destruct f as [[[[[w1 k] w2] w3] v] w4]. cbn [wft mt_ok]. split; intros [Hf Hm]; (split; [exact Hf|]).
  - induction m as [|[[[[[a b] c] d] e] g] m IH]; [constructor|]. destruct Hm as [Hi Hm]. constructor; auto.
  - induction Hm as [|[[[[[a b] c] d] e] g] m Hi Hm IH]; [exact I|]. split; auto.
Qed.

Lemma jparse_inv : forall fuel,
  (forall s j rest, jparse fuel s = Some (j, rest) ->
     exists w t, all_ws w /\ wft t /\ s = w ++ core t ++ rest /\ jval t = j) /\
  (forall s acc j rest, jmembers fuel s acc = Some (j, rest) ->
     exists f m, mt_ok f /\ Forall mt_ok m /\
       s = mt_text f ++ flat_map (fun i => 44 :: mt_text i) m ++ 125 :: rest /\
       j = JObj (acc ++ mt_val f :: map mt_val m)) /\
  (forall s acc j rest, jelems fuel s acc = Some (j, rest) ->
     exists f m, it_ok f /\ Forall it_ok m /\
       s = it_text f ++ flat_map (fun i => 44 :: it_text i) m ++ 93 :: rest /\
       j = JArr (acc ++ it_val f :: map it_val m)).
Proof.
  induction fuel as [|fuel (IH1 & IH2 & IH3)]; [repeat split; intros; discriminate|].
  split; [|split].
  - intros s j rest H. cbn [jparse] in H.
    destruct (skip_ws_split s) as (w & Hw & Hs & _).
    destruct (skip_ws s) as [|c r] eqn:Esk; [discriminate|].
    destruct (N.eqb_spec c 123) as [->|_].
    { destruct (skip_ws_split r) as (w2 & Hw2 & Hr & _).
      destruct (skip_ws r) as [|c2 r2] eqn:Esk2.
      - exfalso. destruct fuel as [|fuel']; [discriminate|]. cbn [jmembers] in H.
        rewrite Esk2 in H. discriminate.
      - destruct (N.eqb_spec c2 125) as [->|Hc2].
        + injection H as <- <-. exists w, (TObj0 w2). repeat split; auto.
          rewrite Hs. cbn [core app]. rewrite Hr, <- app_assoc. reflexivity.
        + assert (Hm : jmembers fuel r [] = Some (j, rest)).
          { destruct c2 as [|p]; [exact H|]. repeat (destruct p as [p|p|]; try exact H). contradiction. }
          destruct (IH2 _ _ _ _ Hm) as (f & m & Hf & Hmm & E & ->).
          exists w, (TObj f m). split; [exact Hw|]. split; [now apply wft_obj|]. split.
          * rewrite Hs, core_obj, E. cbn [app]. now rewrite <- !app_assoc.
          * now rewrite jval_obj. }
    destruct (N.eqb_spec c 91) as [->|_].
    { destruct (skip_ws_split r) as (w2 & Hw2 & Hr & _).
      destruct (skip_ws r) as [|c2 r2] eqn:Esk2.
      - exfalso. destruct fuel as [|fuel']; [discriminate|]. cbn [jelems] in H.
        destruct fuel' as [|f2]; [discriminate|]. cbn [jparse] in H. rewrite Esk2 in H. discriminate.
      - destruct (N.eqb_spec c2 93) as [->|Hc2].
        + injection H as <- <-. exists w, (TArr0 w2). repeat split; auto.
          rewrite Hs. cbn [core app]. rewrite Hr, <- app_assoc. reflexivity.
        + assert (Hm : jelems fuel r [] = Some (j, rest)).
          { destruct c2 as [|p]; [exact H|]. repeat (destruct p as [p|p|]; try exact H). contradiction. }
          destruct (IH3 _ _ _ _ Hm) as (f & m & Hf & Hmm & E & ->).
          exists w, (TArr f m). split; [exact Hw|]. split; [now apply wft_arr|]. split.
          * rewrite Hs, core_arr, E. cbn [app]. now rewrite <- !app_assoc.
          * now rewrite jval_arr. }
    destruct (N.eqb_spec c 34) as [->|_].
    { destruct (jstr_go JN r) as [[v rest']|] eqn:E; [|discriminate]. injection H as <- <-.
      destruct (jstr_go_prefix _ _ _ _ E) as (body & -> & Hb).
      exists w, (TStr body). split; [exact Hw|]. split; [now exists v|]. split.
      - now rewrite Hs.
      - cbn [jval]. unfold str_val. now rewrite Hb. }
    destruct (N.eqb_spec c 116) as [->|_].
    { destruct (lit_prefix [114; 117; 101] r) as [r'|] eqn:E; [|discriminate]. injection H as <- <-.
      apply lit_prefix_spec in E. subst r. exists w, (TBool true). repeat split; auto. }
    destruct (N.eqb_spec c 102) as [->|_].
    { destruct (lit_prefix [97; 108; 115; 101] r) as [r'|] eqn:E; [|discriminate]. injection H as <- <-.
      apply lit_prefix_spec in E. subst r. exists w, (TBool false). repeat split; auto. }
    destruct (N.eqb_spec c 110) as [->|_].
    { destruct (lit_prefix [117; 108; 108] r) as [r'|] eqn:E; [|discriminate]. injection H as <- <-.
      apply lit_prefix_spec in E. subst r. exists w, TNull. repeat split; auto. }
    destruct (scan_json_number (c :: r)) as [[t rest']|] eqn:E; [|discriminate]. injection H as <- <-.
    destruct (nscan_prefix _ _ _ _ E) as [Et Hn].
    exists w, (TNum t). split; [exact Hw|]. split.
    + cbn [wft]. unfold is_json_number, scan_json_number. now rewrite Hn.
    + split; [rewrite Hs, Et; reflexivity|reflexivity].
  - intros s acc j rest H. cbn [jmembers] in H.
    destruct (skip_ws_split s) as (w1 & Hw1 & Hs & _).
    destruct (skip_ws s) as [|c r]; [discriminate|].
    destruct (N.eqb_spec c 34) as [->|Hc].
    2:{ destruct c as [|p]; [discriminate|]. repeat (destruct p as [p|p|]; try discriminate). contradiction. }
    destruct (jstr_go JN r) as [[k r1]|] eqn:Ek; [|discriminate].
    destruct (jstr_go_prefix _ _ _ _ Ek) as (kb & -> & Hkb).
    destruct (skip_ws_split r1) as (w2 & Hw2 & Hr1 & _).
    destruct (skip_ws r1) as [|c2 r2]; [discriminate|].
    destruct (N.eqb_spec c2 58) as [->|Hc2].
    2:{ destruct c2 as [|p]; [discriminate|]. repeat (destruct p as [p|p|]; try discriminate). contradiction. }
    destruct (jparse fuel r2) as [[v r3]|] eqn:Ev; [|discriminate].
    destruct (IH1 _ _ _ Ev) as (w3 & t & Hw3 & Ht & Er2 & Hjv).
    destruct (skip_ws_split r3) as (w4 & Hw4 & Hr3 & _).
    assert (Hkv : str_val kb = k) by (unfold str_val; now rewrite Hkb). subst k v.
    destruct (skip_ws r3) as [|c4 r4]; [discriminate|].
    destruct (N.eqb_spec c4 44) as [->|Hc4].
    + destruct (IH2 _ _ _ _ H) as (f & m & Hf & Hm & E & ->).
      exists (w1, kb, w2, w3, t, w4), (f :: m). split; [cbn; repeat split; auto; eexists; exact Hkb|].
      split; [constructor; auto|]. split.
      * rewrite Hs, Hr1, Er2, Hr3, E. cbn [mt_text flat_map]. norm_app. reflexivity.
      * cbn [map mt_val]. now rewrite <- app_assoc.
    + destruct (N.eqb_spec c4 125) as [->|Hc5].
      * injection H as <- <-. exists (w1, kb, w2, w3, t, w4), []. split; [cbn; repeat split; auto; eexists; exact Hkb|].
        split; [constructor|]. split.
        -- rewrite Hs, Hr1, Er2, Hr3. cbn [mt_text flat_map]. norm_app. reflexivity.
        -- reflexivity.
      * destruct c4 as [|p]; [discriminate|]. repeat (destruct p as [p|p|]; try discriminate); contradiction.
  - intros s acc j rest H. cbn [jelems] in H.
    destruct (jparse fuel s) as [[v r1]|] eqn:Ev; [|discriminate].
    destruct (IH1 _ _ _ Ev) as (w1 & t & Hw1 & Ht & Es & Hjv). subst v.
    destruct (skip_ws_split r1) as (w2 & Hw2 & Hr1 & _).
    destruct (skip_ws r1) as [|c2 r2]; [discriminate|].
    destruct (N.eqb_spec c2 44) as [->|Hc2].
    + destruct (IH3 _ _ _ _ H) as (f & m & Hf & Hm & E & ->).
      exists (w1, t, w2), (f :: m). split; [cbn; auto|]. split; [constructor; auto|]. split.
      * rewrite Es, Hr1, E. cbn [it_text flat_map]. norm_app. reflexivity.
      * cbn [map]. now rewrite <- app_assoc.
    + destruct (N.eqb_spec c2 93) as [->|Hc3].
      * injection H as <- <-. exists (w1, t, w2), []. split; [cbn; auto|]. split; [constructor|]. split.
        -- rewrite Es, Hr1. cbn [it_text flat_map]. norm_app. reflexivity.
        -- reflexivity.
      * destruct c2 as [|p]; [discriminate|]. repeat (destruct p as [p|p|]; try discriminate); contradiction.
Qed.

(** ** Step B: the JSONx lexer on a plain JSON text *)

(** What may follow a value in a JSON text: nothing, white space, or one of
    [, ] }]. *)
Definition follow_ok (s : list N) : Prop :=
  match s with
  | [] => True
  | d :: _ => is_ws d = true \/ d = 44 \/ d = 93 \/ d = 125
  end.

Lemma follow_num_stop s : follow_ok s -> match s with [] => True | d :: _ => lex_num_stop d = true end.
Proof.
  destruct s as [|d r]; [auto|]. intros [H|[->|[->| ->]]]; try reflexivity.
  unfold is_ws in H. unfold lex_num_stop, is_digit, in_range.
  destruct (N.eqb_spec d 32) as [->|]; [reflexivity|]. destruct (N.eqb_spec d 9) as [->|]; [reflexivity|].
  destruct (N.eqb_spec d 10) as [->|]; [reflexivity|]. destruct (N.eqb_spec d 13) as [->|]; [reflexivity|].
  discriminate.
Qed.

Lemma follow_not_ident s : follow_ok s -> match s with [] => True | d :: _ => is_ident_char d = false end.
Proof.
  destruct s as [|d r]; [auto|]. intros [H|[->|[->| ->]]]; try reflexivity.
  unfold is_ws in H. 
  destruct (N.eqb_spec d 32) as [->|]; [reflexivity|]. destruct (N.eqb_spec d 9) as [->|]; [reflexivity|].
  destruct (N.eqb_spec d 10) as [->|]; [reflexivity|]. destruct (N.eqb_spec d 13) as [->|]; [reflexivity|].
  discriminate.
Qed.

Lemma span_ds' l s : ds l -> match s with [] => True | x :: _ => is_digit x = false end ->
  span is_digit (l ++ s) = (l, s).
Proof.
  intros Hl Hs. destruct s as [|x r]; [rewrite app_nil_r; now apply span_ds_nil|now apply span_ds].
Qed.


Lemma L_end ws0 : all_ws ws0 -> (forallb (fun c => negb (c =? 10)) ws0 = true) -> L ws0 [].
Proof.
  intros Hw Hn. exists (S 0). cbn [lex_all].
  assert (E : drop_while is_white ws0 = []).
  { unfold all_ws in Hw. induction ws0 as [|c w IH]; [reflexivity|].
    cbn [forallb] in *. apply andb_true_iff in Hw as [Hc Hw]. apply andb_true_iff in Hn as [Hc2 Hn].
    cbn [drop_while]. assert (is_white c = true).
    { unfold is_ws in Hc. unfold is_white. apply negb_true_iff in Hc2.
      destruct (N.eqb_spec c 32), (N.eqb_spec c 9), (N.eqb_spec c 13); try reflexivity.
      cbn in Hc. rewrite Hc2 in Hc. discriminate. }
    rewrite H. now apply IH. }
  now rewrite E.
Qed.

(** White space: one line-end token per line feed. *)
Definition wtoks (w : list N) : list (token * list ecode) :=
  flat_map (fun c => if c =? 10 then [tk TEndl [10]] else []) w.

Lemma L_ws w s l : all_ws w -> L s l -> L (w ++ s) (wtoks w ++ l).
Proof.
  unfold all_ws. induction w as [|c w IH]; intros Hw Hl; [exact Hl|].
  cbn [forallb] in Hw. apply andb_true_iff in Hw as [Hc Hw]. cbn [app wtoks flat_map].
  destruct (N.eqb_spec c 10) as [->|Hn].
  - cbn [app]. apply L_endl. now apply IH.
  - cbn [app]. apply L_white; [|now apply IH]. unfold is_ws in Hc. unfold is_white.
    destruct (N.eqb_spec c 32), (N.eqb_spec c 9), (N.eqb_spec c 13); try reflexivity.
    destruct (N.eqb_spec c 10); [contradiction|discriminate].
Qed.

Lemma L_ident_gen k s l :
  (exists c r, k = c :: r /\ is_ident_letter c = true /\ forallb is_ident_char r = true) ->
  match s with [] => True | d :: _ => is_ident_char d = false end -> L s l ->
  L (k ++ s) (tk TIdent k :: l).
Proof.
  intros (c & r & -> & Hc & Hr) Hs Hl. cbn [app].
  assert (Hspan : span is_ident_char (r ++ s) = (r, s)).
  { clear -Hr Hs. induction r as [|x r IH]; cbn [app].
    - destruct s as [|d s']; [reflexivity|]. cbn [span]. now rewrite Hs.
    - cbn [forallb] in Hr. apply andb_true_iff in Hr as [Hx Hr]. cbn [span]. now rewrite Hx, (IH Hr). }
  assert (Hw : is_white c = false /\ (c =? 10) = false /\ (c =? 34) = false /\ (c =? 96) = false /\
               is_digit c = false).
  { unfold is_ident_letter, is_letter, is_white, is_digit, in_range in *. lia. }
  destruct Hw as (H1 & H2 & H3 & H4 & H5).
  eapply L_tok; [exact H1| |exact Hl].
  cbn [lex_jsonx]. rewrite H1, H2, H3, H4, H5, Hc. cbn [lex_ident]. now rewrite Hc, Hspan.
Qed.

Lemma L_unsigned_gen u s l :
  nscan NNeg u = Some (u, []) ->
  match s with [] => True | d :: _ => lex_num_stop d = true end -> L s l ->
  L (u ++ s) (tk (if num_is_float u then TFloat else TInt) u :: l).
Proof.
  intros Hu Hs Hl. destruct (unsigned_json_number_parts u Hu) as (ip & fp & ep & -> & Hi & Hf & He).
  assert (Hlex : lex_number ((ip ++ fp ++ ep) ++ s)
                 = LTok (mkTok (if is_float_lit fp ep then TFloat else TInt) (ip ++ fp ++ ep)) [] s).
  { destruct s as [|d r].
    - rewrite app_nil_r. now apply lex_number_json_end.
    - rewrite <- !app_assoc. now apply lex_number_json. }
  rewrite (num_is_float_parts ip fp ep Hi Hf He).
  assert (Hhead : exists c r0, (ip ++ fp ++ ep) ++ s = c :: r0 /\ is_digit c = true).
  { destruct Hi as [->|(c & l0 & -> & Hc & _)]; eexists _, _; (split; [reflexivity|]); auto. }
  destruct Hhead as (c & r0 & E & Hc). rewrite E in *.
  eapply L_tok; [| |exact Hl].
  - unfold is_white, is_digit, in_range in *. lia.
  - cbn [lex_jsonx].
    assert (Hw : is_white c = false /\ (c =? 10) = false /\ (c =? 34) = false /\ (c =? 96) = false).
    { unfold is_white, is_digit, in_range in *. lia. }
    destruct Hw as (H1 & H2 & H3 & H4). rewrite H1, H2, H3, H4, Hc. exact Hlex.
Qed.

Lemma L_num_gen t s l :
  is_json_number t = true ->
  match s with [] => True | d :: _ => lex_num_stop d = true end -> L s l ->
  L (t ++ s) (num_toks t ++ l).
Proof.
  intros Ht Hs Hl. destruct (nscan_start_cases (fun _ => true) t Ht) as [(u & -> & Hu)|[Hn Hu]].
  - cbn [num_toks app]. apply L_op; [reflexivity|]. now apply L_unsigned_gen.
  - destruct t as [|c r]; [discriminate|].
    assert (Hc : c <> 45) by (intros ->; now apply (Hn r)).
    rewrite (num_toks_other c r Hc). cbn [app].
    change (c :: r ++ s) with ((c :: r) ++ s). now apply L_unsigned_gen.
Qed.

(** A JSON string literal is one string token of the JSONx lexer, the same
    runes (possibly with lexing errors: [\/], surrogate escapes). *)
Inductive ext_sync : jstate -> sstate -> Prop :=
| X_nn : ext_sync JN SNormal
| X_nd b m v : ext_sync JN (SDig 0 b m v)
| X_hn h : ext_sync (JHi h) SNormal
| X_hd h b m v : ext_sync (JHi h) (SDig 0 b m v)
| X_e : ext_sync JE SEsc
| X_he h : ext_sync (JHiE h) SEsc
| X_u k v hi m w : ext_sync (JU (S k) v hi) (SDig (S k) 16 m w).

Lemma jhex_digit_val c d : jhex c = Some d -> digit_val c = d /\ d < 16.
Proof.
  unfold jhex, digit_val, is_digit, in_range. intros H.
  destruct ((48 <=? c) && (c <=? 57)) eqn:E1; [injection H as <-; lia|].
  destruct ((97 <=? c) && (c <=? 102)) eqn:E2; [injection H as <-; lia|].
  destruct ((65 <=? c) && (c <=? 70)) eqn:E3; [injection H as <-; lia|discriminate].
Qed.

Lemma string_extent : forall body js ss v,
  ext_sync js ss -> jstr_go js body = Some (v, []) ->
  exists e, forall s, str_go 34 ss (body ++ s) = (body, s, e).
Proof.
  induction body as [|c r IH]; intros js ss v Hx Hj; [discriminate|].
  cbn [jstr_go] in Hj.
  assert (Hnormal : forall (jn : jact), (jn = jn_act c) ->
            forall w rest', (match jn with
                        | JFail => None
                        | JDone o => Some (o, r)
                        | JEmit o st' => cons_res o (jstr_go st' r)
                        end = Some (w, rest')) -> rest' = [] ->
            forall epre, exists e, forall s,
              (let '(e1, a) := normal_act 34 c in
               match a with
               | AConsume st' => let '(l, rs, e2) := str_go 34 st' (r ++ s) in (c :: l, rs, (epre ++ e1) ++ e2)
               | AStop true => ([c], r ++ s, epre ++ e1)
               | AStop false => ([], c :: r ++ s, epre ++ e1)
               end) = (c :: r, s, e)).
  { intros jn -> w rest' H Hr epre. unfold jn_act in H. unfold normal_act.
    destruct (N.eqb_spec c 34) as [->|H34].
    { cbn [N.eqb Pos.eqb]. injection H as _ Hr'. subst rest'. subst r. exists (epre ++ []). intros s. reflexivity. }
    destruct (N.eqb_spec c 92) as [->|H92].
    { cbn [N.eqb Pos.eqb]. destruct (jstr_go JE r) as [[v' r']|] eqn:E; [|discriminate].
      injection H as _ Hr'. subst r'. subst rest'. destruct (IH JE SEsc v' X_e E) as [e He].
      exists ((epre ++ []) ++ e). intros s. now rewrite He. }
    destruct (c <? 32) eqn:E32; [discriminate|].
    replace (c =? 10) with false by lia.
    destruct (jstr_go JN r) as [[v' r']|] eqn:E; [|discriminate].
    injection H as _ Hr'. subst r'. subst rest'. destruct (IH JN SNormal v' X_nn E) as [e He].
    exists ((epre ++ []) ++ e). intros s. now rewrite He. }
  destruct Hx.
  - (* JN / SNormal *)
    cbn [jstr_act] in Hj. destruct (Hnormal _ eq_refl _ _ Hj eq_refl []) as [e He].
    exists e. intros s. cbn [app str_go str_act]. specialize (He s).
    destruct (normal_act 34 c) as [e1 a]. cbn [app] in He. destruct a as [st'|[|]]; exact He.
  - (* JN / SDig 0 *)
    cbn [jstr_act] in Hj. destruct (Hnormal _ eq_refl _ _ Hj eq_refl (code_point_errs m v0)) as [e He].
    exists e. intros s. cbn [app str_go str_act dig_act]. specialize (He s).
    destruct (normal_act 34 c) as [e1 a]. destruct a as [st'|[|]]; exact He.
  - (* JHi / SNormal *)
    cbn [jstr_act] in Hj. destruct (N.eqb_spec c 92) as [->|H92].
    + destruct (jstr_go (JHiE h) r) as [[v' r']|] eqn:E; [|discriminate]. injection Hj as _ ->.
      destruct (IH _ SEsc v' (X_he h) E) as [e He]. exists ([] ++ e). intros s.
      cbn [app str_go str_act normal_act N.eqb Pos.eqb]. now rewrite He.
    +       destruct (jn_act c) as [o st'|o|] eqn:Ejn; cbn [prepend] in Hj; [| |discriminate].
      * destruct (jstr_go st' r) as [[v' r']|] eqn:E; [|discriminate]. injection Hj as _ ->.
        assert (Hj2 : cons_res o (jstr_go st' r) = Some (o ++ v', [])) by (now rewrite E).
        destruct (Hnormal _ eq_refl _ _ Hj2 eq_refl []) as [e He].
        exists e. intros s. cbn [app str_go str_act]. specialize (He s).
        destruct (normal_act 34 c) as [e1 a]. cbn [app] in He. destruct a as [st2|[|]]; exact He.
      * injection Hj as _ ->.
        assert (Hj2 : Some (o, @nil N) = Some (o, @nil N)) by reflexivity.
        destruct (Hnormal _ eq_refl _ _ Hj2 eq_refl []) as [e He].
        exists e. intros s. cbn [app str_go str_act]. specialize (He s).
        destruct (normal_act 34 c) as [e1 a]. cbn [app] in He. destruct a as [st2|[|]]; exact He.
  - (* JHi / SDig 0 *)
    cbn [jstr_act] in Hj. destruct (N.eqb_spec c 92) as [->|H92].
    + destruct (jstr_go (JHiE h) r) as [[v' r']|] eqn:E; [|discriminate]. injection Hj as _ ->.
      destruct (IH _ SEsc v' (X_he h) E) as [e He]. exists ((code_point_errs m v0 ++ []) ++ e). intros s.
      cbn [app str_go str_act dig_act normal_act N.eqb Pos.eqb]. now rewrite He.
    + destruct (jn_act c) as [o st'|o|] eqn:Ejn; cbn [prepend] in Hj; [| |discriminate].
      * destruct (jstr_go st' r) as [[v' r']|] eqn:E; [|discriminate]. injection Hj as _ ->.
        assert (Hj2 : cons_res o (jstr_go st' r) = Some (o ++ v', [])) by (now rewrite E).
        destruct (Hnormal _ eq_refl _ _ Hj2 eq_refl (code_point_errs m v0)) as [e He].
        exists e. intros s. cbn [app str_go str_act dig_act]. specialize (He s).
        destruct (normal_act 34 c) as [e1 a]. destruct a as [st2|[|]]; exact He.
      * injection Hj as _ ->.
        assert (Hj2 : Some (o, @nil N) = Some (o, @nil N)) by reflexivity.
        destruct (Hnormal _ eq_refl _ _ Hj2 eq_refl (code_point_errs m v0)) as [e He].
        exists e. intros s. cbn [app str_go str_act dig_act]. specialize (He s).
        destruct (normal_act 34 c) as [e1 a]. destruct a as [st2|[|]]; exact He.
  - (* JE / SEsc *)
    cbn [jstr_act] in Hj. unfold je_act in Hj.
    destruct (simple_json_escape c) as [b|] eqn:Ese.
    + destruct (jstr_go JN r) as [[v' r']|] eqn:E; [|discriminate]. injection Hj as _ ->.
      destruct (IH JN SNormal v' X_nn E) as [e He].
      (* the lexer consumes c and returns to SNormal, with or without an error *)
      assert (Hact : exists e1, esc_act 34 c = (e1, AConsume SNormal)).
      { unfold simple_json_escape in Ese. unfold esc_act, is_simple_escape. cbn [existsb].
        destruct (N.eqb_spec c 34) as [->|]; [eexists; reflexivity|].
        destruct (N.eqb_spec c 92) as [->|]; [eexists; reflexivity|].
        destruct (N.eqb_spec c 47) as [->|]; [eexists; reflexivity|].
        destruct (N.eqb_spec c 98) as [->|]; [eexists; reflexivity|].
        destruct (N.eqb_spec c 102) as [->|]; [eexists; reflexivity|].
        destruct (N.eqb_spec c 110) as [->|]; [eexists; reflexivity|].
        destruct (N.eqb_spec c 114) as [->|]; [eexists; reflexivity|].
        destruct (N.eqb_spec c 116) as [->|]; [eexists; reflexivity|]. discriminate. }
      destruct Hact as [e1 Hact]. exists (e1 ++ e). intros s.
      cbn [app str_go str_act]. now rewrite Hact, He.
    + destruct (N.eqb_spec c 117) as [->|]; [|discriminate].
      destruct (jstr_go (JU 4 0 None) r) as [[v' r']|] eqn:E; [|discriminate]. injection Hj as _ ->.
      destruct (IH _ (SDig 4 16 max_rune 0) v' (X_u 3 0 None max_rune 0) E) as [e He].
      exists ([] ++ e). intros s. cbn [app str_go str_act]. unfold esc_act.
      cbn [is_simple_escape existsb N.eqb Pos.eqb orb in_range N.leb N.compare Pos.compare Pos.compare_cont andb].
      now rewrite He.
  - (* JHiE / SEsc *)
    cbn [jstr_act] in Hj. destruct (N.eqb_spec c 117) as [->|H117].
    + destruct (jstr_go (JU 4 0 (Some h)) r) as [[v' r']|] eqn:E; [|discriminate]. injection Hj as _ ->.
      destruct (IH _ (SDig 4 16 max_rune 0) v' (X_u 3 0 (Some h) max_rune 0) E) as [e He].
      exists ([] ++ e). intros s. cbn [app str_go str_act]. unfold esc_act.
      cbn [is_simple_escape existsb N.eqb Pos.eqb orb in_range N.leb N.compare Pos.compare Pos.compare_cont andb].
      now rewrite He.
    + unfold je_act in Hj. destruct (simple_json_escape c) as [b|] eqn:Ese.
      2:{ destruct (N.eqb_spec c 117); [contradiction|discriminate]. }
      cbn [prepend] in Hj.
      destruct (jstr_go JN r) as [[v' r']|] eqn:E; [|discriminate]. injection Hj as _ ->.
      destruct (IH JN SNormal v' X_nn E) as [e He].
      assert (Hact : exists e1, esc_act 34 c = (e1, AConsume SNormal)).
      { unfold simple_json_escape in Ese. unfold esc_act, is_simple_escape. cbn [existsb].
        destruct (N.eqb_spec c 34) as [->|]; [eexists; reflexivity|].
        destruct (N.eqb_spec c 92) as [->|]; [eexists; reflexivity|].
        destruct (N.eqb_spec c 47) as [->|]; [eexists; reflexivity|].
        destruct (N.eqb_spec c 98) as [->|]; [eexists; reflexivity|].
        destruct (N.eqb_spec c 102) as [->|]; [eexists; reflexivity|].
        destruct (N.eqb_spec c 110) as [->|]; [eexists; reflexivity|].
        destruct (N.eqb_spec c 114) as [->|]; [eexists; reflexivity|].
        destruct (N.eqb_spec c 116) as [->|]; [eexists; reflexivity|]. discriminate. }
      destruct Hact as [e1 Hact]. exists (e1 ++ e). intros s.
      cbn [app str_go str_act]. now rewrite Hact, He.
  - (* in \uXXXX *)
    cbn [jstr_act] in Hj. destruct (jhex c) as [d|] eqn:Eh; [|discriminate].
    destruct (jhex_digit_val c d Eh) as [Hdv Hd16].
    assert (Hact : dig_act 34 (S k) 16 m w c = ([], AConsume (SDig k 16 m (w * 16 + d)))).
    { unfold dig_act. rewrite Hdv. now replace (16 <=? d) with false by lia. }
    destruct k as [|k'].
    + destruct (ju_final (v0 * 16 + d) hi) as [o st'] eqn:Ef.
      destruct (jstr_go st' r) as [[v' r']|] eqn:E; [|discriminate]. injection Hj as _ ->.
      assert (Hx' : ext_sync st' (SDig 0 16 m (w * 16 + d))).
      { unfold ju_final in Ef. destruct hi as [h|].
        - destruct (is_hi_surr h && is_lo_surr (v0 * 16 + d)); [injection Ef as _ <-; constructor|].
          destruct (is_surrogate (v0 * 16 + d)); injection Ef as _ <-; constructor.
        - destruct (is_surrogate (v0 * 16 + d)); injection Ef as _ <-; constructor. }
      destruct (IH _ _ v' Hx' E) as [e He]. exists ([] ++ e). intros s.
      cbn [app str_go str_act]. now rewrite Hact, He.
    + destruct (jstr_go (JU (S k') (v0 * 16 + d) hi) r) as [[v' r']|] eqn:E; [|discriminate].
      injection Hj as _ ->.
      destruct (IH _ _ v' (X_u k' (v0 * 16 + d) hi m (w * 16 + d)) E) as [e He].
      exists ([] ++ e). intros s. cbn [app str_go str_act]. now rewrite Hact, He.
Qed.

Definition str_errs (body : list N) : list ecode := snd (str_go 34 SNormal body).

Lemma L_jstring body s l : str_ok body -> L s l ->
  L (34 :: body ++ s) ((mkTok TString (34 :: body), str_errs body) :: l).
Proof.
  intros [v Hv] Hl. destruct (string_extent body JN SNormal v X_nn Hv) as [e He].
  assert (Ee : str_errs body = e).
  { unfold str_errs. specialize (He []). rewrite app_nil_r in He. now rewrite He. }
  eapply L_tok; [reflexivity| |exact Hl].
  cbn [lex_jsonx is_white N.eqb Pos.eqb orb lex_string]. now rewrite He, Ee.
Qed.

(** Induction on derivation trees. *)
Lemma jt_ind' (P : jt -> Prop) :
  P TNull -> (forall b, P (TBool b)) -> (forall u, P (TNum u)) -> (forall b, P (TStr b)) ->
  (forall w, P (TArr0 w)) ->
  (forall f m, P (snd (fst f)) -> Forall (fun i => P (snd (fst i))) m -> P (TArr f m)) ->
  (forall w, P (TObj0 w)) ->
  (forall f m, P (snd (fst f)) -> Forall (fun i => P (snd (fst i))) m -> P (TObj f m)) ->
  forall t, P t.
Proof.
  intros H1 H2 H3 H4 H5 H6 H7 H8. fix IH 1. intros t. destruct t.
  - exact H1. - apply H2. - apply H3. - apply H4. - apply H5.
  - apply H6; [apply IH|]. induction more as [|i m IHm]; constructor; [apply IH|exact IHm].
  - apply H7.
  - apply H8; [apply IH|]. induction more as [|i m IHm]; constructor; [apply IH|exact IHm].
Qed.

(** Raw tokens of a JSON text. *)
Fixpoint rtj (t : jt) : list (token * list ecode) :=
  match t with
  | TNull => [tk TIdent lit_null]
  | TBool b => [tk TIdent (if b then lit_true else lit_false)]
  | TNum u => num_toks u
  | TStr body => [(mkTok TString (34 :: body), str_errs body)]
  | TArr0 w => tk TOperator [91] :: wtoks w ++ [tk TOperator [93]]
  | TArr f m =>
      let it := fun i : list N * jt * list N =>
                  let '(w1, v, w2) := i in wtoks w1 ++ rtj v ++ wtoks w2 in
      tk TOperator [91] :: it f ++ flat_map (fun i => tk TOperator [44] :: it i) m
        ++ [tk TOperator [93]]
  | TObj0 w => tk TOperator [123] :: wtoks w ++ [tk TOperator [125]]
  | TObj f m =>
      let mt := fun i : list N * list N * list N * list N * jt * list N =>
                  let '(w1, k, w2, w3, v, w4) := i in
                  wtoks w1 ++ (mkTok TString (34 :: k), str_errs k) :: wtoks w2
                    ++ tk TOperator [58] :: wtoks w3 ++ rtj v ++ wtoks w4 in
      tk TOperator [123] :: mt f ++ flat_map (fun i => tk TOperator [44] :: mt i) m
        ++ [tk TOperator [125]]
  end.

Definition it_toks (i : list N * jt * list N) : list (token * list ecode) :=
  let '(w1, v, w2) := i in wtoks w1 ++ rtj v ++ wtoks w2.
Definition mt_toks (i : list N * list N * list N * list N * jt * list N) : list (token * list ecode) :=
  let '(w1, k, w2, w3, v, w4) := i in
  wtoks w1 ++ (mkTok TString (34 :: k), str_errs k) :: wtoks w2
    ++ tk TOperator [58] :: wtoks w3 ++ rtj v ++ wtoks w4.

Lemma rtj_arr f m : rtj (TArr f m) =
  tk TOperator [91] :: it_toks f ++ flat_map (fun i => tk TOperator [44] :: it_toks i) m ++ [tk TOperator [93]].
Proof. destruct f as [[w1 v] w2]. reflexivity. Qed.
Lemma rtj_obj f m : rtj (TObj f m) =
  tk TOperator [123] :: mt_toks f ++ flat_map (fun i => tk TOperator [44] :: mt_toks i) m ++ [tk TOperator [125]].
Proof. destruct f as [[[[[w1 k] w2] w3] v] w4]. reflexivity. Qed.

Lemma follow_ws_app w s : all_ws w -> follow_ok s -> follow_ok (w ++ s).
Proof.
  intros Hw Hs. destruct w as [|c w]; [exact Hs|]. cbn [app follow_ok]. left.
  unfold all_ws in Hw. cbn [forallb] in Hw. now apply andb_true_iff in Hw as [Hc _].
Qed.

Theorem lex_tree : forall t, wft t ->
  forall s l, follow_ok s -> L s l -> L (core t ++ s) (rtj t ++ l).
Proof.
  induction t as [|b|u|body|w|f m IHf IHm|w|f m IHf IHm] using jt_ind'; intros Hw s l Hs Hl.
  - apply (L_ident_gen lit_null s l); [|now apply follow_not_ident|exact Hl].
    eexists _, _. split; [reflexivity|]. split; reflexivity.
  - cbn [rtj app core]. destruct b.
    + apply (L_ident_gen lit_true s l); [|now apply follow_not_ident|exact Hl].
      eexists _, _. split; [reflexivity|]. split; reflexivity.
    + apply (L_ident_gen lit_false s l); [|now apply follow_not_ident|exact Hl].
      eexists _, _. split; [reflexivity|]. split; reflexivity.
  - cbn [rtj core wft] in *. apply L_num_gen; [exact Hw|now apply follow_num_stop|exact Hl].
  - cbn [rtj core wft app] in *. now apply L_jstring.
  - cbn [rtj core wft] in *. norm_app. apply L_op; [reflexivity|].
    apply L_ws; [exact Hw|]. apply L_op; [reflexivity|exact Hl].
  - (* array *)
    apply wft_arr in Hw as [Hf Hm]. rewrite core_arr, rtj_arr. norm_app.
    apply L_op; [reflexivity|].
    assert (Hitem : forall i, it_ok i ->
              (forall s l, wft (snd (fst i)) -> follow_ok s -> L s l ->
                           L (core (snd (fst i)) ++ s) (rtj (snd (fst i)) ++ l)) ->
              forall s l, (exists r, s = 44 :: r \/ s = 93 :: r) -> L s l ->
              L (it_text i ++ s) (it_toks i ++ l)).
    { intros [[w1 v] w2] (Hw1 & Hv & Hw2) IHv s0 l0 Hs0 Hl0. cbn [it_text it_toks fst snd] in *.
      norm_app. apply L_ws; [exact Hw1|]. apply IHv; [exact Hv| |].
      - apply follow_ws_app; [exact Hw2|]. destruct Hs0 as [r0 [->| ->]]; cbn; auto.
      - now apply L_ws. }
    assert (Hrest : forall s'' l'', (exists r, s'' = 44 :: r \/ s'' = 93 :: r) -> L s'' l'' ->
              L (flat_map (fun i => 44 :: it_text i) m ++ s'')
                (flat_map (fun i => tk TOperator [44] :: it_toks i) m ++ l'')).
    { clear Hf IHf. induction IHm as [|i m' Hi Hm' IHm']; intros s'' l'' Hs'' Hl''; [exact Hl''|].
      inversion Hm as [|? ? Hoi Hom]; subst. cbn [flat_map]. norm_app.
      apply L_op; [reflexivity|].
      apply Hitem; [exact Hoi|intros s0 l0 Hv0; now apply Hi| |].
      - destruct m' as [|i2 m2]; [exact Hs''|]. cbn [flat_map app]. eexists. left. reflexivity.
      - now apply IHm'. }
    apply Hitem; [exact Hf|intros s0 l0 Hv0; now apply IHf| |].
    + destruct m as [|i2 m2]; cbn [flat_map app]; eexists; [right|left]; reflexivity.
    + apply Hrest; [eexists; right; reflexivity|]. cbn [app]. apply L_op; [reflexivity|exact Hl].
  - cbn [rtj core wft] in *. norm_app. apply L_op; [reflexivity|].
    apply L_ws; [exact Hw|]. apply L_op; [reflexivity|exact Hl].
  - (* object *)
    apply wft_obj in Hw as [Hf Hm]. rewrite core_obj, rtj_obj. norm_app.
    apply L_op; [reflexivity|].
    assert (Hitem : forall i, mt_ok i ->
              (forall s l, wft (snd (fst i)) -> follow_ok s -> L s l ->
                           L (core (snd (fst i)) ++ s) (rtj (snd (fst i)) ++ l)) ->
              forall s l, (exists r, s = 44 :: r \/ s = 125 :: r) -> L s l ->
              L (mt_text i ++ s) (mt_toks i ++ l)).
    { intros [[[[[w1 k] w2] w3] v] w4] (Hw1 & Hk & Hw2 & Hw3 & Hv & Hw4) IHv s0 l0 Hs0 Hl0.
      cbn [mt_text mt_toks fst snd] in *. norm_app. apply L_ws; [exact Hw1|].
      apply L_jstring; [exact Hk|]. apply L_ws; [exact Hw2|]. apply L_op; [reflexivity|].
      apply L_ws; [exact Hw3|]. apply IHv; [exact Hv| |].
      - apply follow_ws_app; [exact Hw4|]. destruct Hs0 as [r0 [->| ->]]; cbn; auto.
      - now apply L_ws. }
    assert (Hrest : forall s'' l'', (exists r, s'' = 44 :: r \/ s'' = 125 :: r) -> L s'' l'' ->
              L (flat_map (fun i => 44 :: mt_text i) m ++ s'')
                (flat_map (fun i => tk TOperator [44] :: mt_toks i) m ++ l'')).
    { clear Hf IHf. induction IHm as [|i m' Hi Hm' IHm']; intros s'' l'' Hs'' Hl''; [exact Hl''|].
      inversion Hm as [|? ? Hoi Hom]; subst. cbn [flat_map]. norm_app.
      apply L_op; [reflexivity|].
      apply Hitem; [exact Hoi|intros s0 l0 Hv0; now apply Hi| |].
      - destruct m' as [|i2 m2]; [exact Hs''|]. cbn [flat_map app]. eexists. left. reflexivity.
      - now apply IHm'. }
    apply Hitem; [exact Hf|intros s0 l0 Hv0; now apply IHf| |].
    + destruct m as [|i2 m2]; cbn [flat_map app]; eexists; [right|left]; reflexivity.
    + apply Hrest; [eexists; right; reflexivity|]. cbn [app]. apply L_op; [reflexivity|exact Hl].
Qed.

(** ** Step C: the token filters, on (type, literal) pairs *)

Definition pair := (ttype * list N)%type.
Definition ptyl (p : ptok) : pair := (pty p, plit p).
Definition tyl (te : token * list ecode) : pair := (tty (fst te), tlit (fst te)).

Fixpoint semi2 (flag : bool) (l : list pair) : list pair :=
  match l with
  | [] => if flag then [(TSemi, [])] else []
  | t :: r =>
      match fst t with
      | TSemi => t :: semi2 false r
      | TOperator => t :: semi2 (list_N_eqb (snd t) [125] || list_N_eqb (snd t) [93]) r
      | TEndl => if flag then (TSemi, [10]) :: semi2 false r else semi2 flag r
      | TComment => t :: semi2 flag r
      | TEOF => t :: semi2 flag r
      | _ => t :: semi2 true r
      end
  end.

Definition kw2 (t : pair) : pair :=
  match fst t with
  | TIdent => if is_keyword (snd t) then (TKeyword, snd t) else t
  | _ => t
  end.

Lemma semi_ins_pairs fin : forall ps flag,
  map ptyl (semi_ins flag fin ps) = semi2 flag (map ptyl ps).
Proof.
  induction ps as [|t r IH]; intros flag; cbn [semi_ins map semi2].
  - destruct flag; reflexivity.
  - unfold ptyl at 2. cbn [fst snd]. unfold lit_is.
    destruct (pty t); cbn [map]; try (now rewrite IH).
    destruct flag; cbn [map]; now rewrite IH.
Qed.

Lemma keyword_pairs ps : map ptyl (map keyword_tok ps) = map kw2 (map ptyl ps).
Proof.
  induction ps as [|t r IH]; [reflexivity|]. cbn [map]. rewrite IH. f_equal.
  unfold keyword_tok, kw2, ptyl. cbn [fst snd]. destruct (pty t) eqn:E; cbn [pty plit]; rewrite ?E; try reflexivity.
  destruct (is_keyword (plit t)); cbn [pty plit]; rewrite ?E; reflexivity.
Qed.

Lemma with_cum_pairs : forall raw acc, map ptyl (fst (with_cum acc raw)) = map tyl raw.
Proof.
  induction raw as [|[t e] raw IH]; intros acc; [reflexivity|]. cbn [with_cum].
  specialize (IH (add_errs acc e)). destruct (with_cum (add_errs acc e) raw) as [ps fn].
  cbn [fst map] in *. now rewrite IH.
Qed.

Definition has_nl (w : list N) : bool := existsb (fun c => c =? 10) w.
Definition semis (w : list N) : list pair := if has_nl w then [(TSemi, [10])] else [].

Lemma semi2_ws_false w rest : semi2 false (map tyl (wtoks w) ++ rest) = semi2 false rest.
Proof.
  induction w as [|c w IH]; [reflexivity|]. cbn [wtoks flat_map]. fold (wtoks w).
  destruct (c =? 10); cbn [app map]; [|exact IH]. cbn [semi2 tyl tk fst tty]. exact IH.
Qed.

Lemma semi2_ws_true w c rest :
  semi2 true (map tyl (wtoks w) ++ (TOperator, [c]) :: rest)
  = semis w ++ semi2 true ((TOperator, [c]) :: rest).
Proof.
  unfold semis. induction w as [|x w IH]; [reflexivity|]. cbn [wtoks flat_map has_nl existsb]. fold (wtoks w) (has_nl w).
  destruct (x =? 10); cbn [app map orb].
  - cbn [semi2 tyl tk fst tty]. rewrite semi2_ws_false. reflexivity.
  - exact IH.
Qed.

(** The tokens the parser receives: separators where a line end follows a
    value or a key. *)
Fixpoint FT (t : jt) : list pair :=
  match t with
  | TNull => [(TKeyword, lit_null)]
  | TBool b => [(TKeyword, if b then lit_true else lit_false)]
  | TNum u => num_ft u
  | TStr body => [(TString, 34 :: body)]
  | TArr0 _ => [(TOperator, [91]); (TOperator, [93])]
  | TArr f m =>
      let it := fun i : list N * jt * list N => let '(_, v, w2) := i in FT v ++ semis w2 in
      (TOperator, [91]) :: it f ++ flat_map (fun i => (TOperator, [44]) :: it i) m ++ [(TOperator, [93])]
  | TObj0 _ => [(TOperator, [123]); (TOperator, [125])]
  | TObj f m =>
      let mt := fun i : list N * list N * list N * list N * jt * list N =>
                  let '(_, k, w2, _, v, w4) := i in
                  (TString, 34 :: k) :: semis w2 ++ (TOperator, [58]) :: FT v ++ semis w4 in
      (TOperator, [123]) :: mt f ++ flat_map (fun i => (TOperator, [44]) :: mt i) m ++ [(TOperator, [125])]
  end.

Definition it_ft (i : list N * jt * list N) : list pair :=
  let '(_, v, w2) := i in FT v ++ semis w2.
Definition mt_ft (i : list N * list N * list N * list N * jt * list N) : list pair :=
  let '(_, k, w2, _, v, w4) := i in
  (TString, 34 :: k) :: semis w2 ++ (TOperator, [58]) :: FT v ++ semis w4.
Lemma FT_arr f m : FT (TArr f m) =
  (TOperator, [91]) :: it_ft f ++ flat_map (fun i => (TOperator, [44]) :: it_ft i) m ++ [(TOperator, [93])].
Proof. destruct f as [[w1 v] w2]. reflexivity. Qed.
Lemma FT_obj f m : FT (TObj f m) =
  (TOperator, [123]) :: mt_ft f ++ flat_map (fun i => (TOperator, [44]) :: mt_ft i) m ++ [(TOperator, [125])].
Proof. destruct f as [[[[[w1 k] w2] w3] v] w4]. reflexivity. Qed.

Definition FC (raw : list (token * list ecode)) (out : list pair) : Prop :=
  forall flag rest, map kw2 (semi2 flag (map tyl raw ++ rest)) = out ++ map kw2 (semi2 true rest).

Lemma semi2_op fl c rest :
  semi2 fl ((TOperator, [c]) :: rest) = (TOperator, [c]) :: semi2 ((c =? 125) || (c =? 93)) rest.
Proof. cbn [semi2 fst snd list_N_eqb]. now rewrite !andb_true_r. Qed.

Lemma filter_tree : forall t, FC (rtj t) (FT t).
Proof.
  assert (Hclose : forall c rest, (c =? 125) || (c =? 93) = true -> forall fl,
            map kw2 (semi2 fl ((TOperator, [c]) :: rest)) = (TOperator, [c]) :: map kw2 (semi2 true rest)).
  { intros c rest Hc fl. rewrite semi2_op, Hc. reflexivity. }
  induction t as [|b|u|body|w|f m IHf IHm|w|f m IHf IHm] using jt_ind'; intros flag rest.
  - reflexivity.
  - destruct b; reflexivity.
  - cbn [rtj FT].
    assert (Hone : forall x fl, map kw2 (semi2 fl (map tyl [tk (if num_is_float x then TFloat else TInt) x] ++ rest))
              = [(if num_is_float x then TFloat else TInt, x)] ++ map kw2 (semi2 true rest)).
    { intros x fl. cbn [map app tyl tk fst tty tlit]. destruct (num_is_float x); reflexivity. }
    destruct u as [|c r]; [apply Hone|].
    destruct (N.eqb_spec c 45) as [->|Hc].
    + change (num_toks (45 :: r)) with [tk TOperator [45]; tk (if num_is_float r then TFloat else TInt) r].
      change (num_ft (45 :: r)) with [(TOperator, [45]); (if num_is_float r then TFloat else TInt, r)].
      change (map tyl [tk TOperator [45]; tk (if num_is_float r then TFloat else TInt) r] ++ rest)
        with ((TOperator, [45]) :: (map tyl [tk (if num_is_float r then TFloat else TInt) r] ++ rest)).
      rewrite semi2_op. change ((45 =? 125) || (45 =? 93)) with false.
      rewrite map_cons, Hone. reflexivity.
    + rewrite (num_toks_other c r Hc), (num_ft_other c r Hc). apply Hone.
  - reflexivity.
  - cbn [rtj FT]. change (map tyl (tk TOperator [91] :: wtoks w ++ [tk TOperator [93]]) ++ rest)
      with ((TOperator, [91]) :: (map tyl (wtoks w ++ [tk TOperator [93]]) ++ rest)).
    rewrite semi2_op. change ((91 =? 125) || (91 =? 93)) with false.
    rewrite map_app, <- app_assoc, semi2_ws_false. cbn [map app].
    change (tyl (tk TOperator [93])) with (TOperator, [93]).
    change (tyl (tk TOperator [125])) with (TOperator, [125]).
    change (kw2 (TOperator, [91])) with (TOperator, [91]).
    change (kw2 (TOperator, [123])) with (TOperator, [123]). reflexivity.
  - (* array *)
    rewrite rtj_arr, FT_arr.
    assert (Hitem : forall i, FC (rtj (snd (fst i))) (FT (snd (fst i))) ->
              forall c rest', map kw2 (semi2 false (map tyl (it_toks i) ++ (TOperator, [c]) :: rest'))
                = it_ft i ++ map kw2 (semi2 true ((TOperator, [c]) :: rest'))).
    { intros [[w1 v] w2] Hv c rest'. cbn [it_toks it_ft fst snd] in *.
      rewrite !map_app, <- !app_assoc, semi2_ws_false, (Hv false), semi2_ws_true, map_app.
      f_equal. f_equal. unfold semis. destruct (has_nl w2); reflexivity. }
    cbn [map app]. change (tyl (tk TOperator [91])) with (TOperator, [91]).
    rewrite semi2_op. change ((91 =? 125) || (91 =? 93)) with false.
    rewrite map_cons. cbn [app]. f_equal. rewrite !map_app, <- !app_assoc.
    assert (Hrest : forall fl,
              map kw2 (semi2 fl (map tyl (flat_map (fun i => tk TOperator [44] :: it_toks i) m)
                                 ++ map tyl [tk TOperator [93]] ++ rest))
              = flat_map (fun i => (TOperator, [44]) :: it_ft i) m ++ [(TOperator, [93])]
                  ++ map kw2 (semi2 true rest)).
    { clear IHf. induction IHm as [|i m' Hi Hm' IHm']; intros fl.
      - cbn [flat_map map app tyl tk fst tty tlit]. now apply Hclose.
      - cbn [flat_map map app]. change (tyl (tk TOperator [44])) with (TOperator, [44]).
        rewrite semi2_op. change ((44 =? 125) || (44 =? 93)) with false. rewrite map_cons. f_equal.
        rewrite map_app, <- !app_assoc.
        destruct m' as [|i2 m2].
        + cbn [flat_map map app tyl tk fst tty tlit]. rewrite (Hitem i Hi 93). f_equal; try reflexivity; now apply Hclose.
        + cbn [flat_map map app]. change (tyl (tk TOperator [44])) with (TOperator, [44]).
          rewrite (Hitem i Hi 44). f_equal. specialize (IHm' true).
          cbn [flat_map map app] in IHm'. change (tyl (tk TOperator [44])) with (TOperator, [44]) in IHm'.
          rewrite <- ?app_assoc in IHm'. rewrite <- ?app_assoc. exact IHm'. }
    destruct m as [|i2 m2].
    + cbn [flat_map map app tyl tk fst tty tlit]. rewrite (Hitem f IHf 93). f_equal; try reflexivity; now apply Hclose.
    + cbn [flat_map map app]. change (tyl (tk TOperator [44])) with (TOperator, [44]).
      rewrite (Hitem f IHf 44). f_equal. specialize (Hrest true).
      cbn [flat_map map app] in Hrest. change (tyl (tk TOperator [44])) with (TOperator, [44]) in Hrest.
      rewrite <- ?app_assoc in Hrest. rewrite <- ?app_assoc. exact Hrest.
  - cbn [rtj FT]. change (map tyl (tk TOperator [123] :: wtoks w ++ [tk TOperator [125]]) ++ rest)
      with ((TOperator, [123]) :: (map tyl (wtoks w ++ [tk TOperator [125]]) ++ rest)).
    rewrite semi2_op. change ((123 =? 125) || (123 =? 93)) with false.
    rewrite map_app, <- app_assoc, semi2_ws_false. cbn [map app].
    change (tyl (tk TOperator [93])) with (TOperator, [93]).
    change (tyl (tk TOperator [125])) with (TOperator, [125]).
    change (kw2 (TOperator, [91])) with (TOperator, [91]).
    change (kw2 (TOperator, [123])) with (TOperator, [123]). reflexivity.
  - (* object *)
    rewrite rtj_obj, FT_obj.
    assert (Hitem : forall i, FC (rtj (snd (fst i))) (FT (snd (fst i))) ->
              forall c rest', map kw2 (semi2 false (map tyl (mt_toks i) ++ (TOperator, [c]) :: rest'))
                = mt_ft i ++ map kw2 (semi2 true ((TOperator, [c]) :: rest'))).
    { intros [[[[[w1 k] w2] w3] v] w4] Hv c rest'. cbn [mt_toks mt_ft fst snd] in *.
      rewrite !map_app, <- !app_assoc, semi2_ws_false. cbn [map app].
      change (tyl (mkTok TString (34 :: k), str_errs k)) with (TString, 34 :: k).
      cbn [semi2 fst]. rewrite map_cons. change (kw2 (TString, 34 :: k)) with (TString, 34 :: k). f_equal.
      rewrite map_app, <- !app_assoc. cbn [map app]. change (tyl (tk TOperator [58])) with (TOperator, [58]).
      rewrite semi2_ws_true, map_app. rewrite <- app_assoc.
      f_equal; [unfold semis; destruct (has_nl w2); reflexivity|].
      rewrite semi2_op. change ((58 =? 125) || (58 =? 93)) with false. rewrite map_cons. f_equal.
      rewrite !map_app, <- !app_assoc, semi2_ws_false, (Hv false), semi2_ws_true, map_app.
      f_equal. f_equal. unfold semis. destruct (has_nl w4); reflexivity. }
    cbn [map app]. change (tyl (tk TOperator [123])) with (TOperator, [123]).
    rewrite semi2_op. change ((123 =? 125) || (123 =? 93)) with false.
    rewrite map_cons. cbn [app]. f_equal. rewrite !map_app, <- !app_assoc.
    assert (Hrest : forall fl,
              map kw2 (semi2 fl (map tyl (flat_map (fun i => tk TOperator [44] :: mt_toks i) m)
                                 ++ map tyl [tk TOperator [125]] ++ rest))
              = flat_map (fun i => (TOperator, [44]) :: mt_ft i) m ++ [(TOperator, [125])]
                  ++ map kw2 (semi2 true rest)).
    { clear IHf. induction IHm as [|i m' Hi Hm' IHm']; intros fl.
      - cbn [flat_map map app tyl tk fst tty tlit]. now apply Hclose.
      - cbn [flat_map map app]. change (tyl (tk TOperator [44])) with (TOperator, [44]).
        rewrite semi2_op. change ((44 =? 125) || (44 =? 93)) with false. rewrite map_cons. f_equal.
        rewrite map_app, <- !app_assoc.
        destruct m' as [|i2 m2].
        + cbn [flat_map map app tyl tk fst tty tlit]. rewrite (Hitem i Hi 125). f_equal; try reflexivity; now apply Hclose.
        + cbn [flat_map map app]. change (tyl (tk TOperator [44])) with (TOperator, [44]).
          rewrite (Hitem i Hi 44). f_equal. specialize (IHm' true).
          cbn [flat_map map app] in IHm'. change (tyl (tk TOperator [44])) with (TOperator, [44]) in IHm'.
          rewrite <- ?app_assoc in IHm'. rewrite <- ?app_assoc. exact IHm'. }
    destruct m as [|i2 m2].
    + cbn [flat_map map app tyl tk fst tty tlit]. rewrite (Hitem f IHf 125). f_equal; try reflexivity; now apply Hclose.
    + cbn [flat_map map app]. change (tyl (tk TOperator [44])) with (TOperator, [44]).
      rewrite (Hitem f IHf 44). f_equal. specialize (Hrest true).
      cbn [flat_map map app] in Hrest. change (tyl (tk TOperator [44])) with (TOperator, [44]) in Hrest.
      rewrite <- ?app_assoc in Hrest. rewrite <- ?app_assoc. exact Hrest.
Qed.

(** ** Step D: the parser on the tokens of a JSON text *)

Definition unq (lit : list N) : list N :=
  match go_unquote lit with Some bs => bs | None => [] end.

Section ParseJson.
Context {F : Type}.
Variable pf : list N -> option F.
Variable fin : list ecode.

Notation mk := (mkp []).
Notation st := (st_at fin).

Definition mem_ast (astj : jt -> @value F)
  (i : list N * list N * list N * list N * jt * list N) : okey * @value F :=
  let '(_, k, _, _, v, _) := i in (KStr (34 :: k) (unq (34 :: k)), astj v).

Fixpoint astj (t : jt) : @value F :=
  match t with
  | TNull => VNull
  | TBool b => VBool b
  | TNum u => num_ast pf u
  | TStr body => VStr (34 :: body) (unq (34 :: body))
  | TArr0 _ => VList []
  | TArr f m => VList (astj (snd (fst f)) :: map (fun i => astj (snd (fst i))) m)
  | TObj0 _ => VObject []
  | TObj f m =>
      let ma := fun i : list N * list N * list N * list N * jt * list N =>
                  let '(_, k, _, _, v, _) := i in (KStr (34 :: k) (unq (34 :: k)), astj v) in
      VObject (ma f :: map ma m)
  end.

Definition it_okj (okj : jt -> Prop) (i : list N * jt * list N) : Prop :=
  let '(_, v, w2) := i in okj v /\ has_nl w2 = false.
Definition mt_okj (okj : jt -> Prop) (i : list N * list N * list N * list N * jt * list N) : Prop :=
  let '(_, k, w2, _, v, w4) := i in
  go_unquote (34 :: k) <> None /\ has_nl w2 = false /\ okj v /\ has_nl w4 = false.

(** What an accepted text satisfies: no line end between a value (or key)
    and the "," ":" "]" "}" that follows; string literals that
    strconv.Unquote accepts; float literals that strconv.ParseFloat accepts. *)
Fixpoint okj (t : jt) : Prop :=
  match t with
  | TNull | TBool _ | TArr0 _ | TObj0 _ => True
  | TNum u => num_okb pf u = true
  | TStr body => go_unquote (34 :: body) <> None
  | TArr f m =>
      let ok := fun i : list N * jt * list N => let '(_, v, w2) := i in okj v /\ has_nl w2 = false in
      ok f /\ (fix all (l : list (list N * jt * list N)) : Prop :=
                 match l with [] => True | i :: r => ok i /\ all r end) m
  | TObj f m =>
      let ok := fun i : list N * list N * list N * list N * jt * list N =>
                  let '(_, k, w2, _, v, w4) := i in
                  go_unquote (34 :: k) <> None /\ has_nl w2 = false /\ okj v /\ has_nl w4 = false in
      ok f /\ (fix all (l : list (list N * list N * list N * list N * jt * list N)) : Prop :=
                 match l with [] => True | i :: r => ok i /\ all r end) m
  end.

Lemma okj_arr f m : okj (TArr f m) <-> it_okj okj f /\ Forall (it_okj okj) m.
Proof.
  destruct f as [[w1 v] w2]. cbn [okj it_okj]. split; intros [Hf Hm]; (split; [exact Hf|]).
  - induction m as [|[[a b] c] m IH]; [constructor|]. destruct Hm as [Hi Hm]. constructor; auto.
  - induction Hm as [|[[a b] c] m Hi Hm IH]; [exact I|]. split; auto.
Qed.
Lemma okj_obj f m : okj (TObj f m) <-> mt_okj okj f /\ Forall (mt_okj okj) m.
Proof.
  destruct f as [[[[[w1 k] w2] w3] v] w4]. cbn [okj mt_okj]. split; intros [Hf Hm]; (split; [exact Hf|]).
  - induction m as [|[[[[[a b] c] d] e] g] m IH]; [constructor|]. destruct Hm as [Hi Hm]. constructor; auto.
  - induction Hm as [|[[[[[a b] c] d] e] g] m Hi Hm IH]; [exact I|]. split; auto.
Qed.
Lemma astj_obj f m : astj (TObj f m) = VObject (mem_ast astj f :: map (mem_ast astj) m).
Proof. destruct f as [[[[[w1 k] w2] w3] v] w4]. reflexivity. Qed.

Lemma p_next_mkSt t ts : p_next (mkSt t ts fin [] false) = st ts.
Proof. destruct ts; reflexivity. Qed.

Lemma st_cons t ts : st (t :: ts) = mkSt t ts fin [] false.
Proof. reflexivity. Qed.

Lemma perrs_add_ne e s0 : perrs (p_add e s0) <> [].
Proof. apply add_err_nonempty. Qed.

(** The statement for one value. *)
Definition PJ (t : jt) : Prop :=
  forall rest f v st', parse_value pf f (st (map mk (FT t) ++ rest)) = Some (v, st') ->
  perrs st' = [] -> v = astj t /\ st' = st rest /\ okj t.

Lemma FT_head t : exists ty l r, FT t = (ty, l) :: r /\
  ttype_eqb ty TOperator && (list_N_eqb l [93] || list_N_eqb l [125]) = false /\
  ty <> TSemi.
Proof.
  destruct t as [|b|u|body|w|f m|w|f m].
  - eexists _, _, _. split; [reflexivity|]. split; [reflexivity|discriminate].
  - eexists _, _, _. split; [reflexivity|]. split; [reflexivity|discriminate].
  - cbn [FT]. destruct u as [|c r].
    + eexists _, _, _. split; [reflexivity|]. cbn. destruct (num_is_float []); split; (reflexivity || discriminate).
    + destruct (N.eqb_spec c 45) as [->|Hc].
      * eexists _, _, _. split; [reflexivity|]. split; [reflexivity|discriminate].
      * rewrite (num_ft_other c r Hc). eexists _, _, _. split; [reflexivity|].
        destruct (num_is_float (c :: r)); split; (reflexivity || discriminate).
  - eexists _, _, _. split; [reflexivity|]. split; [reflexivity|discriminate].
  - eexists _, _, _. split; [reflexivity|]. split; [reflexivity|discriminate].
  - rewrite FT_arr. eexists _, _, _. split; [reflexivity|]. split; [reflexivity|discriminate].
  - eexists _, _, _. split; [reflexivity|]. split; [reflexivity|discriminate].
  - rewrite FT_obj. eexists _, _, _. split; [reflexivity|]. split; [reflexivity|discriminate].
Qed.

(** After an element: a separator token if a line end followed the value. *)
Lemma after_item w2 c rest0 :
  (has_nl w2 = false /\ map mk (semis w2 ++ (TOperator, [c]) :: rest0) = mk (TOperator, [c]) :: map mk rest0) \/
  (has_nl w2 = true /\ map mk (semis w2 ++ (TOperator, [c]) :: rest0)
                       = mk (TSemi, [10]) :: mk (TOperator, [c]) :: map mk rest0).
Proof. unfold semis. destruct (has_nl w2); [right|left]; split; reflexivity. Qed.

Lemma see_semi ops ts : see_op ops (st (mk (TSemi, [10]) :: ts)) = false.
Proof. now rewrite see_op_at. Qed.

(** List entries, from the position of an element. *)
Lemma ple_inv : forall m, Forall (fun i => PJ (snd (fst i))) m ->
  forall i, PJ (snd (fst i)) ->
  forall acc rest f es st',
    parse_list_entries pf f
      (st (map mk (it_ft i ++ flat_map (fun j => (TOperator, [44]) :: it_ft j) m ++ [(TOperator, [93])]) ++ rest)) acc
    = Some (es, st') -> perrs st' = [] ->
    es = acc ++ astj (snd (fst i)) :: map (fun j => astj (snd (fst j))) m /\
    st' = st (mk (TOperator, [93]) :: rest) /\ it_okj okj i /\ Forall (it_okj okj) m.
Proof.
  induction 1 as [|i2 m Hi2 Hm IH]; intros [[w1 v] w2] Hv acc rest f es st' H He; cbn [fst snd it_ft] in *.
  - (* last element *)
    destruct f as [|f]; [discriminate|]. rewrite parse_list_entries_S in H. unfold ple_body in H.
    cbn [flat_map app] in H. rewrite <- !app_assoc, !map_app, <- !app_assoc in H.
    destruct (FT_head v) as (ty & l & r & Eft & Hnc & _). rewrite Eft in H. cbn [map app] in H.
    rewrite see_op_at in H.
    assert (Hns : ttype_eqb ty TOperator && existsb (list_N_eqb l) [[93]] = false).
    { cbn [existsb]. destruct (ttype_eqb ty TOperator); [|reflexivity]. cbn [andb] in *.
      apply orb_false_iff in Hnc as [Hnc _]. now rewrite Hnc. }
    rewrite Hns in H.
    match type of H with context [parse_value pf f (st (mk (ty, l) :: map mk r ++ ?X))] =>
      change (mk (ty, l) :: map mk r ++ X) with (map mk ((ty, l) :: r) ++ X) in H end.
    rewrite <- Eft in H.
    destruct (parse_value pf f _) as [[v1 st1]|] eqn:E1; [|discriminate].
    pose proof (parse_value_reach pf _ _ _ _ E1) as R1.
    set (st2 := if see_op [[44]] st1 then p_next st1
                else if negb (see_op [[93]] st1) then snd (expect_op [44] st1) else st1) in *.
    assert (R2 : reach st1 st2).
    { subst st2. destruct (see_op [[44]] st1); [apply reach_next|].
      destruct (negb _); [apply reach_expect_op|apply R_refl]. }
    assert (R3 : reach st2 st').
    { destruct (jail st2); [injection H as _ <-; apply R_refl|].
      exact (proj2 (proj2 (parse_all_reach pf f)) _ _ _ _ H). }
    assert (He1 : perrs st1 = []) by (eapply no_err_back; [eapply reach_trans; eauto|exact He]).
    destruct (Hv _ _ _ _ E1 He1) as (-> & -> & Hok).
    unfold semis in *. destruct (has_nl w2) eqn:Enl.
    + (* a separator token where "]" or "," is expected *)
      exfalso. cbn [map app] in *. subst st2. rewrite !see_semi in R3. cbn [negb] in R3.
      unfold expect_op in R3. change (jail (st (mk (TSemi, [10]) :: mk (TOperator, [93]) :: rest))) with false in R3.
      rewrite see_semi in R3. cbn [snd] in R3. exact (add_not_clean _ _ _ R3 He).
    + cbn [map app] in *. subst st2. rewrite !see_op_at in H.
      cbn [ttype_eqb existsb list_N_eqb N.eqb Pos.eqb andb orb negb] in H.
      change (jail (st (mk (TOperator, [93]) :: rest))) with false in H.
      destruct f as [|f]; [discriminate|]. rewrite parse_list_entries_S in H. unfold ple_body in H.
      rewrite see_op_at in H. cbn [ttype_eqb existsb list_N_eqb N.eqb Pos.eqb andb orb] in H.
      injection H as <- <-. repeat split; auto.
  - (* more elements follow *)
    destruct f as [|f]; [discriminate|]. rewrite parse_list_entries_S in H. unfold ple_body in H.
    cbn [flat_map] in H. rewrite <- !app_assoc, !map_app, <- !app_assoc in H.
    destruct (FT_head v) as (ty & l & r & Eft & Hnc & _). rewrite Eft in H. cbn [map app] in H.
    rewrite see_op_at in H.
    assert (Hns : ttype_eqb ty TOperator && existsb (list_N_eqb l) [[93]] = false).
    { cbn [existsb]. destruct (ttype_eqb ty TOperator); [|reflexivity]. cbn [andb] in *.
      apply orb_false_iff in Hnc as [Hnc _]. now rewrite Hnc. }
    rewrite Hns in H.
    match type of H with context [parse_value pf f (st (mk (ty, l) :: map mk r ++ ?X))] =>
      change (mk (ty, l) :: map mk r ++ X) with (map mk ((ty, l) :: r) ++ X) in H end.
    rewrite <- Eft in H.
    destruct (parse_value pf f _) as [[v1 st1]|] eqn:E1; [|discriminate].
    pose proof (parse_value_reach pf _ _ _ _ E1) as R1.
    set (st2 := if see_op [[44]] st1 then p_next st1
                else if negb (see_op [[93]] st1) then snd (expect_op [44] st1) else st1) in *.
    assert (R2 : reach st1 st2).
    { subst st2. destruct (see_op [[44]] st1); [apply reach_next|].
      destruct (negb _); [apply reach_expect_op|apply R_refl]. }
    assert (R3 : reach st2 st').
    { destruct (jail st2); [injection H as _ <-; apply R_refl|].
      exact (proj2 (proj2 (parse_all_reach pf f)) _ _ _ _ H). }
    assert (He1 : perrs st1 = []) by (eapply no_err_back; [eapply reach_trans; eauto|exact He]).
    destruct (Hv _ _ _ _ E1 He1) as (-> & -> & Hok).
    unfold semis in *. destruct (has_nl w2) eqn:Enl.
    + exfalso. cbn [map app] in *. subst st2. rewrite !see_semi in R3. cbn [negb] in R3.
      unfold expect_op in R3.
      match type of R3 with context [jail (st (mk (TSemi, [10]) :: ?X))] =>
        change (jail (st (mk (TSemi, [10]) :: X))) with false in R3 end.
      rewrite see_semi in R3. cbn [snd] in R3. exact (add_not_clean _ _ _ R3 He).
    + cbn [map app] in *. subst st2. rewrite !see_op_at in H.
      cbn [ttype_eqb existsb list_N_eqb N.eqb Pos.eqb andb orb negb] in H.
      rewrite p_next_st_at in H.
      match type of H with context [jail (st ?X)] =>
        assert (Hj : jail (st X) = false) by (destruct X; reflexivity); rewrite Hj in H end.
      specialize (IH i2 Hi2 (acc ++ [astj v]) rest f es st').
      rewrite !map_app, <- !app_assoc in IH. cbn [map app] in IH.
      destruct (IH H He) as (-> & -> & Hok2 & Hokm).
      split; [cbn [map]; rewrite <- ?app_assoc; reflexivity|]. split; [reflexivity|].
      split; [split; auto|constructor; auto].
Qed.

(** Object entries, from the position of a member. *)
Lemma poe_inv : forall m, Forall (fun i => PJ (snd (fst i))) m ->
  forall i, PJ (snd (fst i)) ->
  forall acc rest f es st',
    parse_object_entries pf f
      (st (map mk (mt_ft i ++ flat_map (fun j => (TOperator, [44]) :: mt_ft j) m ++ [(TOperator, [125])]) ++ rest)) acc
    = Some (es, st') -> perrs st' = [] ->
    es = acc ++ mem_ast astj i :: map (mem_ast astj) m /\
    st' = st (mk (TOperator, [125]) :: rest) /\ mt_okj okj i /\ Forall (mt_okj okj) m.
Proof.
  assert (Hstep : forall w1 k w2 w3 v w4 (Hv : PJ v) X acc f es st',
    (* X: what follows the member: "," ... or "}" ... *)
    parse_object_entries pf (S f)
      (st (map mk (mt_ft (w1, k, w2, w3, v, w4)) ++ X)) acc = Some (es, st') -> perrs st' = [] ->
    go_unquote (34 :: k) <> None /\ has_nl w2 = false /\ okj v /\
    exists st4, st4 = st (map mk (semis w4) ++ X) /\
      (let st5 := if see_op [[44]] st4 then p_next st4
                  else if negb (see_op [[125]] st4) then snd (expect_op [44] st4) else st4 in
       (if jail st5 then Some (acc ++ [mem_ast astj (w1, k, w2, w3, v, w4)], st5)
        else parse_object_entries pf f st5 (acc ++ [mem_ast astj (w1, k, w2, w3, v, w4)]))
       = Some (es, st'))).
  { intros w1 k w2 w3 v w4 Hv X acc f es st' H He.
    rewrite parse_object_entries_S in H. unfold poe_body in H.
    cbn [mt_ft] in H. cbn [map app] in H. rewrite see_op_at in H. cbn [ttype_eqb andb] in H.
    change (p_see TIdent (st (mk (TString, 34 :: k) :: map mk (semis w2 ++ (TOperator, [58]) :: FT v ++ semis w4) ++ X))
            || p_see TString (st (mk (TString, 34 :: k) :: map mk (semis w2 ++ (TOperator, [58]) :: FT v ++ semis w4) ++ X)))
      with true in H. cbn [negb] in H.
    rewrite p_next_st_at in H.
    change (cur (st (mk (TString, 34 :: k) :: map mk (semis w2 ++ (TOperator, [58]) :: FT v ++ semis w4) ++ X)))
      with (mk (TString, 34 :: k)) in H.
    cbn [pty mkp fst snd ttype_eqb plit] in H.
    set (s1 := st (map mk (semis w2 ++ (TOperator, [58]) :: FT v ++ semis w4) ++ X)) in *.
    unfold parse_string_value in H. cbn [plit mkp snd] in H.
    (* reachability of the final state from the state after the key *)
    assert (Hreach : forall s2 key,
              match parse_value pf f (snd (expect_op [58] s2)) with
              | None => None
              | Some (v0, st4) =>
                  let st5 := if see_op [[44]] st4 then p_next st4
                             else if negb (see_op [[125]] st4) then snd (expect_op [44] st4) else st4 in
                  let acc' := acc ++ [(key, v0)] in
                  if jail st5 then Some (acc', st5) else parse_object_entries pf f st5 acc'
              end = Some (es, st') -> reach s2 st').
    { intros s2 key H0.
      destruct (parse_value pf f (snd (expect_op [58] s2))) as [[v0 st4]|] eqn:E0; [|discriminate].
      eapply reach_trans; [apply reach_expect_op|].
      eapply reach_trans; [eapply parse_value_reach; exact E0|].
      cbv zeta in H0.
      set (st5 := if see_op [[44]] st4 then p_next st4
                  else if negb (see_op [[125]] st4) then snd (expect_op [44] st4) else st4) in *.
      assert (R5 : reach st4 st5).
      { subst st5. destruct (see_op [[44]] st4); [apply reach_next|].
        destruct (negb _); [apply reach_expect_op|apply R_refl]. }
      eapply reach_trans; [exact R5|].
      destruct (jail st5); [injection H0 as _ <-; apply R_refl|].
      exact (proj1 (proj2 (parse_all_reach pf f)) _ _ _ _ H0). }
    destruct (go_unquote (34 :: k)) as [bs|] eqn:Eu.
    2:{ exfalso. exact (add_not_clean _ _ _ (Hreach _ _ H) He). }
    assert (Hu : unq (34 :: k) = bs) by (unfold unq; now rewrite Eu).
    split; [discriminate|].
    subst s1. unfold semis in H at 1. unfold semis at 1. destruct (has_nl w2) eqn:En2.
    { exfalso. cbn [map app] in H.
      unfold expect_op at 1 in H.
      match type of H with context [jail (st (mk (TSemi, [10]) :: ?Y))] =>
        change (jail (st (mk (TSemi, [10]) :: Y))) with false in H end.
      rewrite see_semi in H. cbn [snd] in H.
      match type of H with context [parse_value pf f (p_add EExpectOp ?s0)] =>
        assert (R : reach (p_add EExpectOp s0) st') end.
      { destruct (parse_value pf f _) as [[v0 st4]|] eqn:E0; [|discriminate].
        eapply reach_trans; [eapply parse_value_reach; exact E0|].
        cbv zeta in H.
        set (st5 := if see_op [[44]] st4 then p_next st4
                    else if negb (see_op [[125]] st4) then snd (expect_op [44] st4) else st4) in *.
        assert (R5 : reach st4 st5).
        { subst st5. destruct (see_op [[44]] st4); [apply reach_next|].
          destruct (negb _); [apply reach_expect_op|apply R_refl]. }
        eapply reach_trans; [exact R5|].
        destruct (jail st5); [injection H as _ <-; apply R_refl|].
        exact (proj1 (proj2 (parse_all_reach pf f)) _ _ _ _ H). }
      exact (add_not_clean _ _ _ R He). }
    split; [reflexivity|]. cbn [map app] in H. rewrite expect_op_at in H. cbn [snd] in H.
    rewrite map_app, <- app_assoc in H.
    destruct (parse_value pf f _) as [[v0 st4]|] eqn:E0; [|discriminate].
    cbv zeta in H.
    set (st5 := if see_op [[44]] st4 then p_next st4
                else if negb (see_op [[125]] st4) then snd (expect_op [44] st4) else st4) in *.
    assert (R5 : reach st4 st5).
    { subst st5. destruct (see_op [[44]] st4); [apply reach_next|].
      destruct (negb _); [apply reach_expect_op|apply R_refl]. }
    assert (R6 : reach st5 st').
    { destruct (jail st5); [injection H as _ <-; apply R_refl|].
      exact (proj1 (proj2 (parse_all_reach pf f)) _ _ _ _ H). }
    assert (He4 : perrs st4 = []) by (eapply no_err_back; [eapply reach_trans; eauto|exact He]).
    destruct (Hv _ _ _ _ E0 He4) as (-> & -> & Hok).
    split; [exact Hok|]. eexists. split; [reflexivity|]. subst st5. cbn [mem_ast]. rewrite Hu. exact H. }
  induction 1 as [|i2 m Hi2 Hm IH]; intros [[[[[w1 k] w2] w3] v] w4] Hv acc rest f es st' H He; cbn [fst snd] in *.
  - (* last member *)
    destruct f as [|f]; [discriminate|].
    cbn [flat_map app] in H. rewrite map_app, <- app_assoc in H.
    destruct (Hstep w1 k w2 w3 v w4 Hv _ acc f es st' H He) as (Hk & Hn2 & Hok & st4 & -> & H5).
    unfold semis in H5. destruct (has_nl w4) eqn:En4.
    + exfalso. cbn [map app] in H5. rewrite !see_semi in H5. cbn [negb] in H5.
      unfold expect_op in H5.
      change (jail (st (mk (TSemi, [10]) :: mk (TOperator, [125]) :: rest))) with false in H5.
      rewrite see_semi in H5. cbn [snd jail p_add] in H5. injection H5 as _ <-.
      exact (perrs_add_ne _ _ He).
    + cbn [map app] in H5. rewrite !see_op_at in H5.
      cbn [ttype_eqb existsb list_N_eqb N.eqb Pos.eqb andb orb negb] in H5.
      change (jail (st (mk (TOperator, [125]) :: rest))) with false in H5.
      destruct f as [|f]; [discriminate|]. rewrite parse_object_entries_S in H5. unfold poe_body in H5.
      rewrite see_op_at in H5. cbn [ttype_eqb existsb list_N_eqb N.eqb Pos.eqb andb orb] in H5.
      injection H5 as <- <-. repeat split; auto.
  - (* more members follow *)
    destruct f as [|f]; [discriminate|].
    cbn [flat_map] in H. rewrite <- !app_assoc in H. rewrite map_app, <- app_assoc in H.
    destruct (Hstep w1 k w2 w3 v w4 Hv _ acc f es st' H He) as (Hk & Hn2 & Hok & st4 & -> & H5).
    unfold semis in H5. destruct (has_nl w4) eqn:En4.
    + exfalso. cbn [map app] in H5. rewrite !see_semi in H5. cbn [negb] in H5.
      unfold expect_op in H5.
      match type of H5 with context [jail (st (mk (TSemi, [10]) :: ?Y))] =>
        change (jail (st (mk (TSemi, [10]) :: Y))) with false in H5 end.
      rewrite see_semi in H5. cbn [snd jail p_add] in H5. injection H5 as _ <-.
      exact (perrs_add_ne _ _ He).
    + cbn [map app] in H5. rewrite !see_op_at in H5.
      cbn [ttype_eqb existsb list_N_eqb N.eqb Pos.eqb andb orb negb] in H5.
      rewrite p_next_st_at in H5.
      match type of H5 with context [jail (st ?Y)] =>
        assert (Hj : jail (st Y) = false) by (destruct Y; reflexivity); rewrite Hj in H5 end.
      specialize (IH i2 Hi2 (acc ++ [mem_ast astj (w1, k, w2, w3, v, w4)]) rest f es st').
      rewrite !map_app, <- !app_assoc in IH. cbn [map app] in IH.
      rewrite !map_app, <- !app_assoc in H5. cbn [map app] in H5.
      destruct (IH H5 He) as (-> & -> & Hok2 & Hokm).
      split; [cbn [map]; rewrite <- ?app_assoc; reflexivity|]. split; [reflexivity|].
      split; [cbn [mt_okj]; auto|constructor; auto].
Qed.

Lemma num_single_inv u rest f v st' :
  parse_value pf f (st (mk (if num_is_float u then TFloat else TInt, u) :: rest)) = Some (v, st') ->
  perrs st' = [] ->
  v = mk_num pf None u /\ st' = st rest /\
  (if num_is_float u then match pf u with Some _ => true | None => false end else true) = true.
Proof.
  intros H He. destruct f as [|f]; [discriminate|]. rewrite parse_value_S in H. unfold pv_body in H.
  rewrite st_cons in H. cbn [cur pty plit mkp fst snd] in H. unfold mk_num.
  destruct (num_is_float u).
  - unfold parse_float_value in H. cbn [plit mkp fst snd] in H. rewrite p_next_mkSt in H.
    destruct (pf u) as [x|].
    + injection H as <- <-. auto.
    + injection H as _ <-. exfalso. exact (perrs_add_ne _ _ He).
  - rewrite p_next_mkSt in H. injection H as <- <-. auto.
Qed.

Theorem parse_json_tree : forall t, PJ t.
Proof.
  induction t as [|b|u|body|w|fi m IHf IHm|w|fi m IHf IHm] using jt_ind'; intros rest f v st' H He.
  - destruct f as [|f]; [discriminate|]. rewrite parse_value_S in H. unfold pv_body in H.
    cbn [FT map app] in H. rewrite st_cons in H. cbn [cur pty plit mkp fst snd] in H.
    change (list_N_eqb lit_null lit_true) with false in H.
    change (list_N_eqb lit_null lit_false) with false in H.
    change (list_N_eqb lit_null lit_null) with true in H. cbv iota in H.
    rewrite p_next_mkSt in H. injection H as <- <-. repeat split.
  - destruct f as [|f]; [discriminate|]. rewrite parse_value_S in H. unfold pv_body in H.
    cbn [FT map app] in H. rewrite st_cons in H. cbn [cur pty plit mkp fst snd] in H.
    destruct b.
    + change (list_N_eqb lit_true lit_true) with true in H. cbv iota in H.
      rewrite p_next_mkSt in H. injection H as <- <-. repeat split.
    + change (list_N_eqb lit_false lit_true) with false in H.
      change (list_N_eqb lit_false lit_false) with true in H. cbv iota in H.
      rewrite p_next_mkSt in H. injection H as <- <-. repeat split.
  - (* number *)
    cbn [FT astj okj] in *. destruct u as [|c r].
    + cbn [num_ft map app] in H. destruct (num_single_inv [] rest f v st' H He) as (-> & -> & Hok).
      repeat split; try exact Hok.
    + destruct (N.eqb_spec c 45) as [->|Hc].
      * change (num_ft (45 :: r)) with [(TOperator, [45]); (if num_is_float r then TFloat else TInt, r)] in H.
        cbn [map app] in H.
        destruct f as [|f]; [discriminate|]. rewrite parse_value_S in H. unfold pv_body in H.
        rewrite st_cons in H. cbn [cur pty plit mkp fst snd] in H.
        change (lit_is (mk (TOperator, [45])) [43] || lit_is (mk (TOperator, [45])) [45]) with true in H.
        cbv iota in H. rewrite p_next_mkSt in H. rewrite st_cons in H. cbn [cur pty plit mkp fst snd] in H.
        cbn [num_ast]. unfold mk_num, num_okb.
        destruct (num_is_float r).
        -- unfold parse_float_value in H. cbn [plit mkp fst snd] in H. rewrite p_next_mkSt in H.
           destruct (pf r) as [x|].
           ++ injection H as <- <-. repeat split.
           ++ injection H as _ <-. exfalso. exact (perrs_add_ne _ _ He).
        -- rewrite p_next_mkSt in H. injection H as <- <-. repeat split.
      * rewrite (num_ft_other c r Hc) in H. cbn [map app] in H.
        destruct (num_single_inv (c :: r) rest f v st' H He) as (-> & -> & Hok).
        assert (E : num_ast pf (c :: r) = mk_num pf None (c :: r)).
        { unfold num_ast. destruct c as [|p]; [reflexivity|].
          repeat (destruct p as [p|p|]; try reflexivity). contradiction. }
        assert (E2 : num_okb pf (c :: r) = (if num_is_float (c :: r)
                                            then match pf (c :: r) with Some _ => true | None => false end
                                            else true)).
        { unfold num_okb. destruct c as [|p]; [reflexivity|].
          repeat (destruct p as [p|p|]; try reflexivity). contradiction. }
        rewrite E, E2. repeat split; try exact Hok.
  - (* string *)
    destruct f as [|f]; [discriminate|]. rewrite parse_value_S in H. unfold pv_body in H.
    cbn [FT map app] in H. rewrite st_cons in H. cbn [cur pty plit mkp fst snd] in H.
    unfold parse_string_value in H. cbn [plit mkp fst snd] in H. rewrite p_next_mkSt in H.
    cbn [astj okj]. unfold unq. destruct (go_unquote (34 :: body)) as [bs|].
    + injection H as <- <-. repeat split; discriminate.
    + injection H as _ <-. exfalso. exact (perrs_add_ne _ _ He).
  - (* [] *)
    destruct f as [|f]; [discriminate|]. rewrite parse_value_S in H. unfold pv_body in H.
    cbn [FT map app] in H. rewrite st_cons in H. cbn [cur pty plit mkp fst snd] in H.
    change (lit_is (mk (TOperator, [91])) [43] || lit_is (mk (TOperator, [91])) [45]) with false in H.
    change (lit_is (mk (TOperator, [91])) [123]) with false in H.
    change (lit_is (mk (TOperator, [91])) [91]) with true in H. cbv iota in H.
    rewrite p_next_mkSt in H.
    destruct f as [|f]; [discriminate|]. rewrite parse_list_entries_S in H. unfold ple_body in H.
    rewrite see_op_at in H. cbn [ttype_eqb existsb list_N_eqb N.eqb Pos.eqb andb orb] in H.
    rewrite expect_op_at in H. injection H as <- <-. repeat split.
  - (* array *)
    rewrite FT_arr in H. cbn [map app] in H.
    destruct f as [|f]; [discriminate|]. rewrite parse_value_S in H. unfold pv_body in H.
    rewrite st_cons in H. cbn [cur pty plit mkp fst snd] in H.
    change (lit_is (mk (TOperator, [91])) [43] || lit_is (mk (TOperator, [91])) [45]) with false in H.
    change (lit_is (mk (TOperator, [91])) [123]) with false in H.
    change (lit_is (mk (TOperator, [91])) [91]) with true in H. cbv iota in H.
    rewrite p_next_mkSt in H.
    destruct (parse_list_entries pf f _ []) as [[es st2]|] eqn:E; [|discriminate].
    injection H as <- <-.
    pose proof (proj2 (proj2 (parse_all_reach pf f)) _ _ _ _ E) as R.
    assert (He2 : perrs st2 = []) by (eapply no_err_back; [apply reach_expect_op|exact He]).
    destruct (ple_inv m IHm fi IHf [] rest f es st2 E He2) as (-> & -> & Hokf & Hokm).
    rewrite expect_op_at. cbn [snd app astj]. split; [reflexivity|]. split; [reflexivity|].
    apply okj_arr. auto.
  - (* {} *)
    destruct f as [|f]; [discriminate|]. rewrite parse_value_S in H. unfold pv_body in H.
    cbn [FT map app] in H. rewrite st_cons in H. cbn [cur pty plit mkp fst snd] in H.
    change (lit_is (mk (TOperator, [123])) [43] || lit_is (mk (TOperator, [123])) [45]) with false in H.
    change (lit_is (mk (TOperator, [123])) [123]) with true in H. cbv iota in H.
    rewrite p_next_mkSt in H.
    destruct f as [|f]; [discriminate|]. rewrite parse_object_entries_S in H. unfold poe_body in H.
    rewrite see_op_at in H. cbn [ttype_eqb existsb list_N_eqb N.eqb Pos.eqb andb orb] in H.
    rewrite expect_op_at in H. injection H as <- <-. repeat split.
  - (* object *)
    rewrite FT_obj in H. cbn [map app] in H.
    destruct f as [|f]; [discriminate|]. rewrite parse_value_S in H. unfold pv_body in H.
    rewrite st_cons in H. cbn [cur pty plit mkp fst snd] in H.
    change (lit_is (mk (TOperator, [123])) [43] || lit_is (mk (TOperator, [123])) [45]) with false in H.
    change (lit_is (mk (TOperator, [123])) [123]) with true in H. cbv iota in H.
    rewrite p_next_mkSt in H.
    destruct (parse_object_entries pf f _ []) as [[es st2]|] eqn:E; [|discriminate].
    injection H as <- <-.
    assert (He2 : perrs st2 = []) by (eapply no_err_back; [apply reach_expect_op|exact He]).
    destruct (poe_inv m IHm fi IHf [] rest f es st2 E He2) as (-> & -> & Hokf & Hokm).
    rewrite expect_op_at. cbn [snd app]. rewrite astj_obj. split; [reflexivity|]. split; [reflexivity|].
    apply okj_obj. auto.
Qed.

End ParseJson.

(** ** Step E: the lexer error lists play no part in parsing *)

Definition et (t : ptok) : ptok := mkp [] (ptyl t).
Definition erase (s : pstate) : pstate :=
  mkSt (et (cur s)) (map et (rest s)) [] (perrs s) (jail s).
Definition eres {A} (r : option (A * pstate)) : option (A * pstate) :=
  match r with Some (a, s) => Some (a, erase s) | None => None end.

Lemma erase_next s : erase (p_next s) = p_next (erase s).
Proof. unfold p_next, erase. destruct (rest s); reflexivity. Qed.
Lemma erase_add e s : erase (p_add e s) = p_add e (erase s).
Proof. reflexivity. Qed.
Lemma see_op_erase ops s : see_op ops (erase s) = see_op ops s.
Proof. reflexivity. Qed.
Lemma p_see_erase ty s : p_see ty (erase s) = p_see ty s.
Proof. reflexivity. Qed.
Lemma expect_op_erase op s : expect_op op (erase s) = (fst (expect_op op s), erase (snd (expect_op op s))).
Proof.
  unfold expect_op. change (jail (erase s)) with (jail s). destruct (jail s); [reflexivity|].
  rewrite see_op_erase. destruct (see_op [op] s); cbn [fst snd]; [now rewrite erase_next|reflexivity].
Qed.
Lemma p_expect_erase ty s : p_expect ty (erase s) = (fst (p_expect ty s), erase (snd (p_expect ty s))).
Proof.
  unfold p_expect. change (jail (erase s)) with (jail s). destruct (jail s); [reflexivity|].
  rewrite p_see_erase. destruct (p_see ty s); cbn [fst snd]; [now rewrite erase_next|reflexivity].
Qed.

Section Erase.
Context {F : Type}.
Variable pf : list N -> option F.

Lemma psv_erase t s : parse_string_value (et t) (erase s)
  = (fst (parse_string_value t s), erase (snd (parse_string_value t s))).
Proof. unfold parse_string_value. change (plit (et t)) with (plit t). destruct (go_unquote (plit t)); reflexivity. Qed.
Lemma pfv_erase t s : parse_float_value pf (et t) (erase s)
  = (fst (parse_float_value pf t s), erase (snd (parse_float_value pf t s))).
Proof. unfold parse_float_value. change (plit (et t)) with (plit t). destruct (pf (plit t)); reflexivity. Qed.

Lemma pil_erase f : forall s acc,
  @parse_ident_list F f (erase s) acc = eres (parse_ident_list f s acc).
Proof.
  induction f as [|f IH]; intros s acc; [reflexivity|]. cbn [parse_ident_list].
  rewrite p_expect_erase. change (cur (erase s)) with (et (cur s)). change (plit (et (cur s))) with (plit (cur s)).
  destruct (p_expect TIdent s) as [ok s1]. cbn [fst snd]. destruct (negb ok); [reflexivity|].
  rewrite see_op_erase. destruct (see_op [[46]] s1); [|reflexivity].
  now rewrite <- erase_next, IH.
Qed.

Lemma pv_body_erase
      (poe : pstate -> list (okey * value) -> option (list (okey * value) * pstate))
      (ple : pstate -> list value -> option (list value * pstate))
      (pil : pstate -> list (list N) -> option (@value F * pstate)) :
  (forall s a, poe (erase s) a = eres (poe s a)) ->
  (forall s a, ple (erase s) a = eres (ple s a)) ->
  (forall s a, pil (erase s) a = eres (pil s a)) ->
  forall s, pv_body pf poe ple pil (erase s) = eres (pv_body pf poe ple pil s).
Proof.
  intros H1 H2 H3 s. unfold pv_body.
  change (cur (erase s)) with (et (cur s)). change (pty (et (cur s))) with (pty (cur s)).
  change (plit (et (cur s))) with (plit (cur s)).
  change (lit_is (et (cur s))) with (lit_is (cur s)).
  destruct (pty (cur s)); try reflexivity.
  - rewrite <- erase_next.
    destruct (list_N_eqb _ lit_true); [reflexivity|]. destruct (list_N_eqb _ lit_false); [reflexivity|].
    destruct (list_N_eqb _ lit_null); reflexivity.
  - apply H3.
  - rewrite <- erase_next, psv_erase. destruct (parse_string_value (cur s) (p_next s)). reflexivity.
  - now rewrite <- erase_next.
  - rewrite <- erase_next, pfv_erase. destruct (parse_float_value pf (cur s) (p_next s)). reflexivity.
  - destruct (_ || _).
    + rewrite <- erase_next. change (cur (erase (p_next s))) with (et (cur (p_next s))).
      change (pty (et (cur (p_next s)))) with (pty (cur (p_next s))).
      change (plit (et (cur (p_next s)))) with (plit (cur (p_next s))).
      destruct (pty (cur (p_next s))); try reflexivity.
      * now rewrite <- erase_next.
      * rewrite <- erase_next, pfv_erase. destruct (parse_float_value pf _ _). reflexivity.
    + destruct (lit_is (cur s) [123]).
      { rewrite <- erase_next, H1. destruct (poe (p_next s) []) as [[es s2]|]; [|reflexivity].
        cbn [eres]. now rewrite expect_op_erase. }
      destruct (lit_is (cur s) [91]); [|reflexivity].
      rewrite <- erase_next, H2. destruct (ple (p_next s) []) as [[es s2]|]; [|reflexivity].
      cbn [eres]. now rewrite expect_op_erase.
Qed.

Lemma poe_body_erase (pv : pstate -> option (@value F * pstate))
      (poe : pstate -> list (okey * value) -> option (list (okey * value) * pstate)) :
  (forall s, pv (erase s) = eres (pv s)) ->
  (forall s a, poe (erase s) a = eres (poe s a)) ->
  forall s acc, poe_body pv poe (erase s) acc = eres (poe_body pv poe s acc).
Proof.
  intros H1 H2 s acc. unfold poe_body. rewrite see_op_erase. destruct (see_op [[125]] s); [reflexivity|].
  rewrite !p_see_erase. destruct (negb _); [reflexivity|].
  change (cur (erase s)) with (et (cur s)). change (pty (et (cur s))) with (pty (cur s)).
  change (plit (et (cur s))) with (plit (cur s)). rewrite <- erase_next.
  assert (Htail : forall (key : okey) s2,
    match pv (snd (expect_op [58] (erase s2))) with
    | None => None
    | Some (v, st4) =>
        let st5 := if see_op [[44]] st4 then p_next st4
                   else if negb (see_op [[125]] st4) then snd (expect_op [44] st4) else st4 in
        let acc' := acc ++ [(key, v)] in
        if jail st5 then Some (acc', st5) else poe st5 acc'
    end
    = eres (match pv (snd (expect_op [58] s2)) with
            | None => None
            | Some (v, st4) =>
                let st5 := if see_op [[44]] st4 then p_next st4
                           else if negb (see_op [[125]] st4) then snd (expect_op [44] st4) else st4 in
                let acc' := acc ++ [(key, v)] in
                if jail st5 then Some (acc', st5) else poe st5 acc'
            end)).
  { intros key s2. rewrite expect_op_erase. cbn [snd]. rewrite H1.
    destruct (pv (snd (expect_op [58] s2))) as [[v s4]|]; [|reflexivity]. cbn [eres]. cbv zeta.
    rewrite !see_op_erase.
    assert (E5 : (if see_op [[44]] s4 then p_next (erase s4)
                  else if negb (see_op [[125]] s4) then snd (expect_op [44] (erase s4)) else erase s4)
                 = erase (if see_op [[44]] s4 then p_next s4
                          else if negb (see_op [[125]] s4) then snd (expect_op [44] s4) else s4)).
    { destruct (see_op [[44]] s4); [now rewrite erase_next|].
      destruct (negb _); [now rewrite expect_op_erase|reflexivity]. }
    rewrite E5. set (s5 := if see_op [[44]] s4 then _ else _).
    change (jail (erase s5)) with (jail s5). destruct (jail s5); [reflexivity|]. apply H2. }
  destruct (ttype_eqb (pty (cur s)) TString).
  - rewrite psv_erase. destruct (parse_string_value (cur s) (p_next s)) as [bs s2]. cbn [fst snd].
    apply Htail.
  - apply Htail.
Qed.

Lemma ple_body_erase (pv : pstate -> option (@value F * pstate))
      (ple : pstate -> list value -> option (list value * pstate)) :
  (forall s, pv (erase s) = eres (pv s)) ->
  (forall s a, ple (erase s) a = eres (ple s a)) ->
  forall s acc, ple_body pv ple (erase s) acc = eres (ple_body pv ple s acc).
Proof.
  intros H1 H2 s acc. unfold ple_body. rewrite see_op_erase. destruct (see_op [[93]] s); [reflexivity|].
  rewrite H1. destruct (pv s) as [[v s1]|]; [|reflexivity]. cbn [eres].
  rewrite !see_op_erase.
  assert (E2 : (if see_op [[44]] s1 then p_next (erase s1)
                else if negb (see_op [[93]] s1) then snd (expect_op [44] (erase s1)) else erase s1)
               = erase (if see_op [[44]] s1 then p_next s1
                        else if negb (see_op [[93]] s1) then snd (expect_op [44] s1) else s1)).
  { destruct (see_op [[44]] s1); [now rewrite erase_next|].
    destruct (negb _); [now rewrite expect_op_erase|reflexivity]. }
  rewrite E2. set (s2 := if see_op [[44]] s1 then _ else _).
  change (jail (erase s2)) with (jail s2). destruct (jail s2); [reflexivity|]. apply H2.
Qed.

Lemma parse_all_erase f :
  (forall s, parse_value pf f (erase s) = eres (parse_value pf f s)) /\
  (forall s a, parse_object_entries pf f (erase s) a = eres (parse_object_entries pf f s a)) /\
  (forall s a, parse_list_entries pf f (erase s) a = eres (parse_list_entries pf f s a)).
Proof.
  induction f as [|f (IH1 & IH2 & IH3)]; [repeat split; reflexivity|].
  split; [|split].
  - intros s. rewrite !parse_value_S. apply pv_body_erase; auto. intros s0 a. apply pil_erase.
  - intros s a. rewrite !parse_object_entries_S. now apply poe_body_erase.
  - intros s a. rewrite !parse_list_entries_S. now apply ple_body_erase.
Qed.

End Erase.

(** ** The parser's stream for a JSON text, and the theorem *)

Definition nc2 (p : pair) : bool := negb (ttype_eqb (fst p) TComment).

Lemma filter_pairs l : map ptyl (filter not_comment l) = filter nc2 (map ptyl l).
Proof.
  induction l as [|t l IH]; [reflexivity|]. cbn [filter map]. unfold not_comment at 1, nc2 at 1.
  cbn [ptyl fst]. destruct (negb (ttype_eqb (pty t) TComment)); cbn [map]; now rewrite IH.
Qed.

Lemma sbody_pairs raw :
  map ptyl (sbody (parser_stream raw)) = filter nc2 (map kw2 (semi2 false (map tyl raw))).
Proof.
  unfold parser_stream, filtered. pose proof (with_cum_pairs raw []) as Hc.
  destruct (with_cum [] raw) as [ps fn]. cbn [fst] in Hc. cbn [sbody].
  now rewrite filter_pairs, keyword_pairs, semi_ins_pairs, Hc.
Qed.

Lemma semi2_ws_end w :
  semi2 true (map tyl (wtoks w)) = [(TSemi, if has_nl w then [10] else [])].
Proof.
  induction w as [|c w IH]; [reflexivity|]. cbn [wtoks flat_map has_nl existsb]. fold (wtoks w) (has_nl w).
  destruct (c =? 10); cbn [app map orb].
  - cbn [semi2 tyl tk fst tty]. pose proof (semi2_ws_false w []) as E. rewrite app_nil_r in E.
    now rewrite E.
  - exact IH.
Qed.

Lemma FT_nc : forall t, filter nc2 (FT t) = FT t.
Proof.
  assert (Hsem : forall w, filter nc2 (semis w) = semis w) by (intros w; unfold semis; destruct (has_nl w); reflexivity).
  induction t as [|b|u|body|w|f m IHf IHm|w|f m IHf IHm] using jt_ind'; try reflexivity.
  - cbn [FT]. destruct u as [|c r].
    + unfold num_ft. destruct (num_is_float []); reflexivity.
    + destruct (N.eqb_spec c 45) as [->|Hc].
      * change (num_ft (45 :: r)) with [(TOperator, [45]); (if num_is_float r then TFloat else TInt, r)].
        destruct (num_is_float r); reflexivity.
      * rewrite (num_ft_other c r Hc). destruct (num_is_float (c :: r)); reflexivity.
  - rewrite FT_arr. cbn [filter nc2 fst ttype_eqb negb].
    assert (Hi : forall i, filter nc2 (FT (snd (fst i))) = FT (snd (fst i)) -> filter nc2 (it_ft i) = it_ft i).
    { intros [[w1 v] w2] Hv. cbn [it_ft fst snd] in *. now rewrite filter_app, Hv, Hsem. }
    f_equal. rewrite !filter_app, (Hi f IHf). f_equal. f_equal.
    induction IHm as [|i m' Hi' Hm' IHm']; [reflexivity|]. cbn [flat_map]. rewrite filter_app.
    change (filter nc2 ((TOperator, [44]) :: it_ft i)) with ((TOperator, [44]) :: filter nc2 (it_ft i)).
    rewrite (Hi i Hi'), IHm'. reflexivity.
  - rewrite FT_obj. cbn [filter nc2 fst ttype_eqb negb].
    assert (Hi : forall i, filter nc2 (FT (snd (fst i))) = FT (snd (fst i)) -> filter nc2 (mt_ft i) = mt_ft i).
    { intros [[[[[w1 k] w2] w3] v] w4] Hv. cbn [mt_ft fst snd] in *.
      cbn [filter nc2 fst ttype_eqb negb]. f_equal. rewrite filter_app, Hsem. f_equal.
      cbn [filter nc2 fst ttype_eqb negb]. f_equal. now rewrite filter_app, Hv, Hsem. }
    f_equal. rewrite !filter_app, (Hi f IHf). f_equal. f_equal.
    induction IHm as [|i m' Hi' Hm' IHm']; [reflexivity|]. cbn [flat_map]. rewrite filter_app.
    change (filter nc2 ((TOperator, [44]) :: mt_ft i)) with ((TOperator, [44]) :: filter nc2 (mt_ft i)).
    rewrite (Hi i Hi'), IHm'. reflexivity.
Qed.

Lemma erase_init s : erase (p_init s) = st_at [] (map (mkp []) (map ptyl (sbody s))).
Proof.
  unfold p_init, p_next, erase. cbn [rest]. destruct (sbody s) as [|t r]; [reflexivity|].
  cbn [cur rest perrs jail fin st_at map]. f_equal. now rewrite map_map.
Qed.

(** The raw tokens of a JSON text. *)
Lemma json_text_tokens input j :
  json_parse input = Some j ->
  exists w t w', all_ws w /\ wft t /\ all_ws w' /\ input = w ++ core t ++ w' /\ jval t = j /\
    jsonx_raw_tokens input = Ok (wtoks w ++ rtj t ++ wtoks w').
Proof.
  unfold json_parse. destruct (jparse (S (length input)) input) as [[j0 rest]|] eqn:E; [|discriminate].
  destruct (skip_ws_split rest) as (w' & Hw' & Hr & _).
  destruct (skip_ws rest); [|discriminate]. intros H. injection H as <-. rewrite app_nil_r in Hr. subst rest.
  destruct (proj1 (jparse_inv _) _ _ _ E) as (w & t & Hw & Ht & Hi & Hj).
  exists w, t, w'. repeat split; auto. apply L_raw. rewrite Hi.
  apply L_ws; [exact Hw|]. apply lex_tree; [exact Ht| |].
  - destruct w' as [|c r]; [exact I|]. cbn. left. unfold all_ws in Hw'. cbn [forallb] in Hw'.
    now apply andb_true_iff in Hw' as [Hc _].
  - pose proof (L_ws w' [] [] Hw' L_nil) as H. now rewrite !app_nil_r in H.
Qed.

Section Final.
Context {F : Type}.
Variable pf : list N -> option F.
Variable ff : F -> list N.
Hypothesis ff_json : forall f, is_json_number (ff f) = true.
Hypothesis ff_unsigned : forall f r, ff f <> 45 :: r.

Lemma forallb_app_l {A} (p : A -> bool) a b : forallb p (a ++ b) = true -> forallb p a = true.
Proof. rewrite forallb_app. intros H. now apply andb_true_iff in H as [H _]. Qed.
Lemma forallb_app_r {A} (p : A -> bool) a b : forallb p (a ++ b) = true -> forallb p b = true.
Proof. rewrite forallb_app. intros H. now apply andb_true_iff in H as [_ H]. Qed.

Lemma str_denotes body : str_ok body -> go_unquote (34 :: body) <> None ->
  forallb valid_rune body = true -> utf8_decode (unq (34 :: body)) = str_val body.
Proof.
  intros [v Hv] Hu Hr. unfold unq, str_val. rewrite Hv.
  destruct (go_unquote (34 :: body)) as [bs|] eqn:E; [|contradiction].
  exact (plain_json_strings_agree body v bs Hr Hv E).
Qed.

(** The tree the parser builds denotes the value the reference parser read. *)
Theorem tree_denotes : forall t, wft t -> okj pf t -> forallb valid_rune (core t) = true ->
  jrel pf ff (jval t) (denote ff (astj pf t)).
Proof.
  induction t as [|b|u|body|w|f m IHf IHm|w|f m IHf IHm] using jt_ind'; intros Hw Hok Hv.
  - constructor.
  - constructor.
  - cbn [wft okj astj jval] in *.
    exact (proj2 (num_ast_ok pf ff (fun _ => true) u Hw Hok)).
  - cbn [wft okj astj jval denote core] in *. cbn [forallb] in Hv. apply andb_true_iff in Hv as [_ Hv].
    rewrite (str_denotes body Hw Hok Hv). constructor.
  - constructor. constructor.
  - (* array *)
    apply wft_arr in Hw as [Hwf Hwm]. apply okj_arr in Hok as [Hof Hom]. rewrite core_arr in Hv.
    cbn [forallb] in Hv. apply andb_true_iff in Hv as [_ Hv].
    assert (Hi : forall i, it_ok i -> it_okj (okj pf) i -> forallb valid_rune (it_text i) = true ->
              (wft (snd (fst i)) -> okj pf (snd (fst i)) -> forallb valid_rune (core (snd (fst i))) = true ->
               jrel pf ff (jval (snd (fst i))) (denote ff (astj pf (snd (fst i))))) ->
              jrel pf ff (it_val i) (denote ff (astj pf (snd (fst i))))).
    { intros [[w1 v] w2] (_ & Hwv & _) (Hov & _) Hvi IHv. cbn [it_text it_val fst snd] in *.
      apply IHv; auto. now apply forallb_app_r, forallb_app_l in Hvi. }
    rewrite jval_arr. cbn [astj denote map]. constructor. constructor.
    + apply Hi; auto. now apply forallb_app_l in Hv.
    + apply forallb_app_r, forallb_app_l in Hv. rewrite map_map.
      clear IHf Hwf Hof. induction IHm as [|i m' Hi' Hm' IHm']; [constructor|].
      inversion Hwm; inversion Hom; subst. cbn [flat_map forallb] in Hv.
      apply andb_true_iff in Hv as [_ Hv]. cbn [map]. constructor.
      * apply Hi; auto. now apply forallb_app_l in Hv.
      * apply IHm'; auto. now apply forallb_app_r in Hv.
  - constructor. constructor.
  - (* object *)
    apply wft_obj in Hw as [Hwf Hwm]. apply okj_obj in Hok as [Hof Hom]. rewrite core_obj in Hv.
    cbn [forallb] in Hv. apply andb_true_iff in Hv as [_ Hv].
    assert (Hi : forall i, mt_ok i -> mt_okj (okj pf) i -> forallb valid_rune (mt_text i) = true ->
              (wft (snd (fst i)) -> okj pf (snd (fst i)) -> forallb valid_rune (core (snd (fst i))) = true ->
               jrel pf ff (jval (snd (fst i))) (denote ff (astj pf (snd (fst i))))) ->
              fst (mt_val i) = fst (let '(k, x) := mem_ast (astj pf) i in (denote_key k, denote ff x)) /\
              jrel pf ff (snd (mt_val i)) (snd (let '(k, x) := mem_ast (astj pf) i in (denote_key k, denote ff x)))).
    { intros [[[[[w1 k] w2] w3] v] w4] (_ & Hk & _ & _ & Hwv & _) (Huk & _ & Hov & _) Hvi IHv.
      cbn [mt_text mt_val mem_ast fst snd denote_key] in *.
      apply forallb_app_r in Hvi. cbn [forallb] in Hvi. apply andb_true_iff in Hvi as [_ Hvi].
      split.
      - symmetry. apply str_denotes; auto. now apply forallb_app_l in Hvi.
      - apply IHv; auto. apply forallb_app_r, forallb_app_r in Hvi. cbn [forallb] in Hvi.
        apply andb_true_iff in Hvi as [_ Hvi]. now apply forallb_app_r, forallb_app_l in Hvi. }
    rewrite jval_obj, astj_obj. cbn [denote map]. constructor. constructor.
    + apply Hi; auto. now apply forallb_app_l in Hv.
    + apply forallb_app_r, forallb_app_l in Hv. rewrite map_map.
      clear IHf Hwf Hof. induction IHm as [|i m' Hi' Hm' IHm']; [constructor|].
      inversion Hwm; inversion Hom; subst. cbn [flat_map forallb] in Hv.
      apply andb_true_iff in Hv as [_ Hv]. cbn [map]. constructor.
      * apply Hi; auto. now apply forallb_app_l in Hv.
      * apply IHm'; auto. now apply forallb_app_r in Hv.
Qed.

(** Plain JSON: what ToJSON accepts it converts to the same value. *)
Theorem plain_json_same input j out errs :
  forallb valid_rune input = true ->
  json_parse input = Some j -> to_json pf ff input = Ok (Some out, errs) ->
  errs = [] /\ exists j', json_parse out = Some j' /\ jrel pf ff j j'.
Proof.
  intros Hvr Hj Ht.
  destruct (json_text_tokens input j Hj) as (w & t & w' & Hw & Hwt & Hw' & Hin & Hjv & Hraw).
  unfold to_json, jsonx_stream in Ht. rewrite Hraw in Ht.
  set (raw := wtoks w ++ rtj t ++ wtoks w') in *.
  destruct (to_json_stream pf ff (parser_stream raw)) as [r|] eqn:Es; [|discriminate].
  injection Ht as ->. unfold to_json_stream in Es.
  destruct (parse_value pf _ (p_init (parser_stream raw))) as [[v st1]|] eqn:Ep; [|discriminate].
  destruct (p_errs st1) eqn:Ee; [|discriminate]. unfold marshal_value in Es.
  destruct (encode_value ff v) as [o|] eqn:Eenc; [|discriminate]. injection Es as <- <-.
  split; [reflexivity|].
  (* the run, with the lexer error lists erased *)
  pose proof (proj1 (parse_all_erase pf (parse_fuel (p_init (parser_stream raw)))) (p_init (parser_stream raw))) as Her.
  rewrite Ep in Her. cbn [eres] in Her. rewrite erase_init, sbody_pairs in Her.
  assert (Epairs : filter nc2 (map kw2 (semi2 false (map tyl raw)))
                   = FT t ++ [(TSemi, if has_nl w' then [10] else [])]).
  { subst raw. rewrite !map_app, semi2_ws_false, (filter_tree t false (map tyl (wtoks w'))).
    rewrite semi2_ws_end. cbn [map kw2 fst]. rewrite filter_app, FT_nc. reflexivity. }
  rewrite Epairs, map_app in Her.
  assert (He1 : perrs (erase st1) = []).
  { cbn [erase perrs]. unfold p_errs in Ee. destruct (pcum (cur st1)); [exact Ee|discriminate]. }
  destruct (parse_json_tree pf [] t _ _ _ _ Her He1) as (-> & _ & Hok).
  exists (denote ff (astj pf t)). split.
  - exact (encode_json_parse ff ff_json ff_unsigned _ _ Eenc).
  - rewrite <- Hjv. apply tree_denotes; auto.
    rewrite Hin in Hvr. now apply forallb_app_r, forallb_app_l in Hvr.
Qed.

(** ... and what it takes for a plain JSON text to be accepted at all. *)
Theorem plain_json_accepted input j out errs :
  json_parse input = Some j -> to_json pf ff input = Ok (Some out, errs) ->
  exists w t w', input = w ++ core t ++ w' /\ jval t = j /\ okj pf t.
Proof.
  intros Hj Ht.
  destruct (json_text_tokens input j Hj) as (w & t & w' & Hw & Hwt & Hw' & Hin & Hjv & Hraw).
  unfold to_json, jsonx_stream in Ht. rewrite Hraw in Ht.
  set (raw := wtoks w ++ rtj t ++ wtoks w') in *.
  destruct (to_json_stream pf ff (parser_stream raw)) as [r|] eqn:Es; [|discriminate].
  injection Ht as ->. unfold to_json_stream in Es.
  destruct (parse_value pf _ (p_init (parser_stream raw))) as [[v st1]|] eqn:Ep; [|discriminate].
  destruct (p_errs st1) eqn:Ee; [|discriminate].
  pose proof (proj1 (parse_all_erase pf (parse_fuel (p_init (parser_stream raw)))) (p_init (parser_stream raw))) as Her.
  rewrite Ep in Her. cbn [eres] in Her. rewrite erase_init, sbody_pairs in Her.
  assert (Epairs : filter nc2 (map kw2 (semi2 false (map tyl raw)))
                   = FT t ++ [(TSemi, if has_nl w' then [10] else [])]).
  { subst raw. rewrite !map_app, semi2_ws_false, (filter_tree t false (map tyl (wtoks w'))).
    rewrite semi2_ws_end. cbn [map kw2 fst]. rewrite filter_app, FT_nc. reflexivity. }
  rewrite Epairs, map_app in Her.
  assert (He1 : perrs (erase st1) = []).
  { cbn [erase perrs]. unfold p_errs in Ee. destruct (pcum (cur st1)); [exact Ee|discriminate]. }
  destruct (parse_json_tree pf [] t _ _ _ _ Her He1) as (_ & _ & Hok).
  exists w, t, w'. auto.
Qed.

End Final.
