(** Model of jsonx/encode.go (encodeValue), to_json.go (ToJSON) and
    decoder.go (Decode, Unmarshal, DecodeSeries).

    [ff f] is json.Marshal of the float64 [f] (external, abstract).
    Output text is a list of runes. *)
From Coq Require Import List NArith Bool.
From Verif Require Import Lib.Utf8 Jsonx.Lex Jsonx.Tok Jsonx.GoStr Jsonx.Num
  Jsonx.Parse Jsonx.Json.
Import ListNotations.
Local Open Scope N_scope.

Section WithFloat.
Context {F : Type}.
Variable pf : list N -> option F.
Variable ff : F -> list N.

Definition sign_of (lead : option (list N)) : list N :=
  match lead with
  | Some l => if list_N_eqb l [45] then [45] else []
  | None => []
  end.

(** encodeJSON of a float64 value (0 on the error path). *)
Definition encode_float (f : option F) : list N :=
  match f with Some x => ff x | None => [48] end.

Definition encode_key (k : okey) : list N :=
  match k with
  | KIdent lit => json_quote (utf8_encode lit)
  | KStr _ bs => json_quote bs
  end.

Fixpoint join_opt (sep : list N) (l : list (option (list N))) : option (list N) :=
  match l with
  | [] => Some []
  | [x] => x
  | x :: r =>
      match x, join_opt sep r with
      | Some a, Some b => Some (a ++ sep ++ b)
      | _, _ => None
      end
  end.

Fixpoint encode_value (v : @value F) : option (list N) :=
  match v with
  | VNil => None
  | VNull => Some lit_null
  | VBool b => Some (if b then lit_true else lit_false)
  | VStr _ bs => Some (json_quote bs)
  | VInt lead lit => option_map (app (sign_of lead)) (int_json lit)
  | VFloat lead _ f => Some (sign_of lead ++ encode_float f)
  | VObject es =>
      option_map (fun body => 123 :: body ++ [125])
        (join_opt [44]
           (map (fun kv => let '(k, x) := kv in
                           option_map (fun t => encode_key k ++ 58 :: t) (encode_value x)) es))
  | VList es =>
      option_map (fun body => 91 :: body ++ [93])
        (join_opt [44] (map encode_value es))
  | VIdents ids =>
      option_map (fun body => 91 :: body ++ [93])
        (join_opt [44] (map (fun i => Some (json_quote (utf8_encode i))) ids))
  end.

(** marshalValueLexing *)
Definition marshal_value (v : @value F) : option (list N) * list ecode :=
  match encode_value v with
  | Some t => (Some t, [])
  | None => (None, [EEncode])
  end.

(** ** ToJSON *)

Definition to_json_stream (s : pstream) : option (option (list N) * list ecode) :=
  let st := p_init s in
  match parse_value pf (parse_fuel st) st with
  | None => None
  | Some (v, st1) =>
      match p_errs st1 with
      | [] => Some (marshal_value v)
      | errs => Some (None, errs)
      end
  end.

(** [Ok (Some text, [])] or [Ok (None, errs)]; [OutOfFuel]/[Panic] are
    excluded by Props/C08.v. *)
Definition to_json (input : list N) : outcome (option (list N) * list ecode) :=
  match jsonx_stream input with
  | Ok s => match to_json_stream s with Some r => Ok r | None => OutOfFuel end
  | Panic w => Panic w
  | OutOfFuel => OutOfFuel
  end.

(** ** Unmarshal (decoder.go unmarshalFile): what it returns. *)

Inductive ures :=
| UOk (json : list N)      (* nil error; the JSON text handed to json.Unmarshal *)
| UErr (first : ecode)     (* errs[0] of Decode *)
| UJsonErr (json : list N) (* json.Unmarshal rejected the emitted text *)
| UMore.                   (* "expect EOF, got more" *)

Definition unmarshal_stream (s : pstream) : option ures :=
  let st := p_init s in
  match parse_value pf (parse_fuel st) st with
  | None => None
  | Some (v, st1) =>
      match p_errs st1 with
      | e :: _ => Some (UErr e)
      | [] =>
          let st2 := if p_see TSemi st1 then p_next st1 else st1 in
          match marshal_value v with
          | (Some t, _) =>
              if json_valid t then
                if p_see TEOF st2 then
                  match p_errs st2 with
                  | [] => Some (UOk t)
                  | e :: _ => Some (UErr e)
                  end
                else Some UMore
              else Some (UJsonErr t)
          | (None, _) => Some (UErr EEncode)
          end
      end
  end.

Definition unmarshal (input : list N) : outcome ures :=
  match jsonx_stream input with
  | Ok s => match unmarshal_stream s with Some r => Ok r | None => OutOfFuel end
  | Panic w => Panic w
  | OutOfFuel => OutOfFuel
  end.

(** ** DecodeSeries.  The TypeMaker is the caller's: [tm name] is [None] for
    an unknown type, else [Some accepts] where [accepts json] says whether
    strict decoding (encoding/json with DisallowUnknownFields, trusted) of
    the entry's JSON into the value the TypeMaker made succeeds. *)

Definition series_entry (tm : list N -> option (list N -> bool))
           (acc : list ecode * list (list N * list N))
           (e : list N * @value F) : list ecode * list (list N * list N) :=
  let '(errs, res) := acc in
  let '(name, v) := e in
  match tm name with
  | None => (add_err errs EUnknownType, res)
  | Some accepts =>
      match encode_value v with
      | Some t =>
          if accepts t then (errs, res ++ [(name, t)])
          else (add_err errs EMarshalJSON, res)
      | None => (add_err (add_err errs EEncode) EMarshalJSON, res)
      end
  end.

Definition decode_series_stream (tm : list N -> option (list N -> bool)) (s : pstream)
  : option (option (list (list N * list N)) * list ecode) :=
  let st := p_init s in
  match parse_series pf (parse_fuel st) st [] with
  | None => None
  | Some (es, st1) =>
      match p_errs st1 with
      | [] =>
          let '(errs, res) := fold_left (series_entry tm) es ([], []) in
          match errs with
          | [] => Some (Some res, [])
          | _ => Some (None, errs)
          end
      | errs => Some (None, errs)
      end
  end.

Definition decode_series (tm : list N -> option (list N -> bool)) (input : list N)
  : outcome (option (list (list N * list N)) * list ecode) :=
  match jsonx_stream input with
  | Ok s => match decode_series_stream tm s with Some r => Ok r | None => OutOfFuel end
  | Panic w => Panic w
  | OutOfFuel => OutOfFuel
  end.

(** ** A Decoder used for several values: Decode, More, Decode, ...

    [decode_step] is one call of [Decoder.Decode] on the parser state the
    previous call left; [more] is [Decoder.More].  [decode_stream] is the
    caller's loop [for d.More() { if errs := d.Decode(&v); errs != nil
    { return } }], with fuel. *)

Inductive dres :=
| DOk (json : list N)          (* nil errors: the JSON text given to json.Unmarshal *)
| DErrs (errs : list ecode)    (* the error list Decode returned *)
| DJsonErr (json : list N).    (* json.Unmarshal rejected the text *)

Definition decode_step (st : pstate) : option (dres * pstate) :=
  match parse_value pf (parse_fuel st) st with
  | None => None
  | Some (v, st1) =>
      match p_errs st1 with
      | e :: l => Some (DErrs (e :: l), st1)
      | [] =>
          let st2 := if p_see TSemi st1 then p_next st1 else st1 in
          match marshal_value v with
          | (Some t, _) => if json_valid t then Some (DOk t, st2) else Some (DJsonErr t, st2)
          | (None, es) => Some (DErrs es, st2)
          end
      end
  end.

Definition more (st : pstate) : bool := negb (p_see TEOF st).

Fixpoint decode_stream (fuel : nat) (st : pstate) (acc : list (list N))
  : option (list (list N) * option dres) :=
  match fuel with
  | O => None
  | S f =>
      if more st then
        match decode_step st with
        | None => None
        | Some (DOk t, st') => decode_stream f st' (acc ++ [t])
        | Some (r, _) => Some (acc, Some r)
        end
      else Some (acc, None)
  end.

Definition stream_fuel (st : pstate) : nat := S (S (length (rest st))).

Definition decode_all (input : list N) : outcome (list (list N) * option dres) :=
  match jsonx_stream input with
  | Ok s => match decode_stream (stream_fuel (p_init s)) (p_init s) [] with
            | Some r => Ok r | None => OutOfFuel end
  | Panic w => Panic w
  | OutOfFuel => OutOfFuel
  end.

End WithFloat.

(** ** strtoken.Parse *)

Definition shell_parse (input : list N) : outcome (option (list (list N)) * list ecode) :=
  match shell_raw_tokens input with
  | Panic w => Panic w
  | OutOfFuel => OutOfFuel
  | Ok raw =>
      match all_lex_errs raw with
      | [] =>
          let step (acc : list (list N) * list ecode) (te : token * list ecode) :=
            let '(res, errs) := acc in
            match tty (fst te) with
            | TBare => (res ++ [utf8_encode (tlit (fst te))], errs)
            | TString =>
                match go_unquote (tlit (fst te)) with
                | Some bs => (res ++ [bs], errs)
                | None => (res, errs ++ [EShellInvalidStr])
                end
            | _ => acc
            end in
          let '(res, errs) := fold_left step raw ([], []) in
          match errs with
          | [] => Ok (Some res, [])
          | _ => Ok (None, errs)
          end
      | errs => Ok (None, errs)
      end
  end.
