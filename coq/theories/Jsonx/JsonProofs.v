(** C09: what the encoder writes is read back by the RFC 8259 reference
    parser as the value the syntax tree denotes. *)
From Coq Require Import List NArith ZArith Bool Lia.
From Coq Require Import ZifyN ZifyNat ZifyBool.
From Verif Require Import Lib.Utf8 Jsonx.Lex Jsonx.Tok Jsonx.GoStr Jsonx.Num Jsonx.NumProofs
  Jsonx.Parse Jsonx.Json Jsonx.Encode.
Import ListNotations.
Local Open Scope N_scope.

Ltac Zify.zify_post_hook ::= Z.div_mod_to_equations.

(** ** Strings: the reference parser reads [json_quote bs] as the string
    [bs] with every undecodable byte replaced by U+FFFD. *)

Definition cons_res (c : list N) (r : option (list N * list N)) : option (list N * list N) :=
  match r with Some (v, rest) => Some (c ++ v, rest) | None => None end.

Lemma jstr_go_cons st c s :
  jstr_go st (c :: s) =
  match jstr_act st c with
  | JFail => None
  | JDone o => Some (o, s)
  | JEmit o st' => cons_res o (jstr_go st' s)
  end.
Proof. cbn [jstr_go]. destruct (jstr_act st c); try reflexivity. Qed.

Lemma jhex_hex_digit d : d < 16 -> jhex (hex_digit d) = Some d.
Proof.
  intros H. unfold hex_digit, jhex, is_digit, in_range.
  destruct (N.ltb_spec d 10).
  - replace ((48 <=? 48 + d) && (48 + d <=? 57)) with true by lia. f_equal. lia.
  - replace ((48 <=? 87 + d) && (87 + d <=? 57)) with false by lia.
    replace ((97 <=? 87 + d) && (87 + d <=? 102)) with true by lia. f_equal. lia.
Qed.

(** \u followed by four hex digits of a code point that is not a surrogate. *)
Lemma jstr_u4 a b c d va vb vc vd s :
  jhex a = Some va -> jhex b = Some vb -> jhex c = Some vc -> jhex d = Some vd ->
  is_surrogate (((va * 16 + vb) * 16 + vc) * 16 + vd) = false ->
  jstr_go JN (92 :: 117 :: a :: b :: c :: d :: s)
  = cons_res [((va * 16 + vb) * 16 + vc) * 16 + vd] (jstr_go JN s).
Proof.
  intros Ha Hb Hc Hd Hs.
  rewrite jstr_go_cons. cbn [jstr_act jn_act N.eqb Pos.eqb].
  rewrite jstr_go_cons. cbn [jstr_act je_act simple_json_escape N.eqb Pos.eqb].
  rewrite jstr_go_cons. cbn [jstr_act]. rewrite Ha.
  rewrite jstr_go_cons. cbn [jstr_act]. rewrite Hb.
  rewrite jstr_go_cons. cbn [jstr_act]. rewrite Hc.
  rewrite jstr_go_cons. cbn [jstr_act]. rewrite Hd.
  cbn [ju_final]. replace (0 * 16 + va) with va by lia. rewrite Hs.
  destruct (jstr_go JN s) as [[v rest]|]; reflexivity.
Qed.

Lemma jstr_plain r s :
  (r =? 34) = false -> (r =? 92) = false -> (r <? 32) = false ->
  jstr_go JN (r :: s) = cons_res [r] (jstr_go JN s).
Proof.
  intros H1 H2 H3. rewrite jstr_go_cons. cbn [jstr_act]. unfold jn_act. now rewrite H1, H2, H3.
Qed.

Lemma jstr_simple e v s :
  simple_json_escape e = Some v ->
  jstr_go JN (92 :: e :: s) = cons_res [v] (jstr_go JN s).
Proof.
  intros H. rewrite jstr_go_cons. cbn [jstr_act jn_act N.eqb Pos.eqb].
  rewrite jstr_go_cons. cbn [jstr_act]. unfold je_act. rewrite H.
  destruct (jstr_go JN s) as [[w rest]|]; reflexivity.
Qed.

Lemma jstr_item o s :
  jstr_go JN (json_esc_item o ++ s) = cons_res [or_bad rune_error o] (jstr_go JN s).
Proof.
  destruct o as [r|]; cbn [json_esc_item or_bad].
  2:{ cbn [app]. rewrite (jstr_u4 102 102 102 100 15 15 15 13); reflexivity. }
  unfold json_esc_rune.
  destruct (N.ltb_spec r 128) as [Hr|Hr].
  - destruct ((r =? 92) || (r =? 34)) eqn:E1.
    { cbn [app]. apply jstr_simple. unfold simple_json_escape.
      destruct (N.eqb_spec r 34) as [->|]; [reflexivity|].
      destruct (N.eqb_spec r 92) as [->|]; [reflexivity|]. lia. }
    destruct (N.eqb_spec r 8) as [->|]; [cbn [app]; apply jstr_simple; reflexivity|].
    destruct (N.eqb_spec r 12) as [->|]; [cbn [app]; apply jstr_simple; reflexivity|].
    destruct (N.eqb_spec r 10) as [->|]; [cbn [app]; apply jstr_simple; reflexivity|].
    destruct (N.eqb_spec r 13) as [->|]; [cbn [app]; apply jstr_simple; reflexivity|].
    destruct (N.eqb_spec r 9) as [->|]; [cbn [app]; apply jstr_simple; reflexivity|].
    destruct ((r <? 32) || (r =? 60) || (r =? 62) || (r =? 38)) eqn:E2.
    + cbn [app].
      rewrite (jstr_u4 48 48 _ _ 0 0 (r / 16) (r mod 16)); try reflexivity.
      * f_equal. f_equal. lia.
      * apply jhex_hex_digit. lia.
      * apply jhex_hex_digit. lia.
      * unfold is_surrogate, in_range. lia.
    + cbn [app]. apply jstr_plain; lia.
  - destruct ((r =? 8232) || (r =? 8233)) eqn:E.
    + cbn [app].
      destruct (N.eqb_spec r 8232) as [->|];
        [rewrite (jstr_u4 50 48 50 56 2 0 2 8); reflexivity|].
      destruct (N.eqb_spec r 8233) as [->|];
        [rewrite (jstr_u4 50 48 50 57 2 0 2 9); reflexivity|].
      cbn in E. discriminate.
    + cbn [app]. apply jstr_plain; lia.
Qed.

Lemma jstr_items opts rest :
  jstr_go JN (flat_map json_esc_item opts ++ 34 :: rest)
  = Some (map (or_bad rune_error) opts, rest).
Proof.
  induction opts as [|o opts IH]; cbn [flat_map map app].
  - reflexivity.
  - rewrite <- app_assoc, jstr_item, IH. reflexivity.
Qed.

Theorem json_quote_read bs rest :
  exists body, json_quote bs ++ rest = 34 :: body /\
               jstr_go JN body = Some (utf8_decode bs, rest).
Proof.
  unfold json_quote. eexists. split.
  - cbn [app]. rewrite <- app_assoc. reflexivity.
  - cbn [app]. rewrite jstr_items. now rewrite utf8_decode_with_opt.
Qed.

(** ** Values *)

Fixpoint join (sep : list N) (l : list (list N)) : list N :=
  match l with
  | [] => []
  | [x] => x
  | x :: r => x ++ sep ++ join sep r
  end.

Lemma join_cons2 sep x y l : join sep (x :: y :: l) = x ++ sep ++ join sep (y :: l).
Proof. reflexivity. Qed.

Lemma join_opt_some sep : forall l b,
  join_opt sep l = Some b -> exists outs, l = map Some outs /\ b = join sep outs.
Proof.
  induction l as [|x l IH]; intros b H; cbn [join_opt] in H.
  - injection H as <-. now exists [].
  - destruct l as [|y l'].
    + destruct x as [a|]; [|discriminate]. injection H as <-. now exists [a].
    + destruct x as [a|]; [|discriminate].
      destruct (join_opt sep (y :: l')) as [b'|] eqn:E; [|discriminate].
      injection H as <-. destruct (IH b' eq_refl) as (outs & Hm & Hb).
      exists (a :: outs). split; [cbn [map]; now rewrite Hm|].
      destruct outs as [|o outs']; [discriminate|]. cbn [join]. now rewrite Hb.
Qed.

Lemma skip_ws_head c r : is_ws c = false -> skip_ws (c :: r) = c :: r.
Proof. intros H. unfold skip_ws. cbn [drop_while]. now rewrite H. Qed.

Definition delim_ok (rest : list N) : Prop :=
  match rest with [] => True | d :: _ => d = 44 \/ d = 93 \/ d = 125 end.

Lemma delim_num_stop rest : delim_ok rest ->
  match rest with [] => True | d :: _ => num_stop d = true end.
Proof. destruct rest as [|d r]; [auto|]. intros [->|[->| ->]]; reflexivity. Qed.

Lemma delim_skip_ws rest : delim_ok rest -> skip_ws rest = rest.
Proof.
  destruct rest as [|d r]; [reflexivity|]. intros H. apply skip_ws_head.
  destruct H as [->|[->| ->]]; reflexivity.
Qed.

Section WithFloat.
Context {F : Type}.
Variable ff : F -> list N.

(** What is assumed of json.Marshal on the float64 values that
    strconv.ParseFloat returns for UNSIGNED literals: it writes a JSON
    number, without a sign. *)
Hypothesis ff_json : forall f, is_json_number (ff f) = true.
Hypothesis ff_unsigned : forall f r, ff f <> 45 :: r.

Definition denote_key (k : okey) : list N :=
  match k with
  | KIdent lit => utf8_decode (utf8_encode lit)
  | KStr _ bs => utf8_decode bs
  end.

(** The JSON value a syntax tree denotes: a string is its unquoted Go string
    as JSON can carry it (undecodable bytes read as U+FFFD); an integer is
    the decimal spelling of the value of the Go literal, with its minus
    sign; a float is the float64 nearest to the literal as json.Marshal
    spells it; a bare key is its identifier; a dotted identifier list is the
    array of its identifiers. *)
Fixpoint denote (v : @value F) : jvalue :=
  match v with
  | VNil => JNull
  | VNull => JNull
  | VBool b => JBool b
  | VStr _ bs => JStr (utf8_decode bs)
  | VInt lead lit =>
      JNum (sign_of lead ++ match int_value lit with Some n => dec_string n | None => [] end)
  | VFloat lead _ f => JNum (sign_of lead ++ encode_float ff f)
  | VObject es => JObj (map (fun kv => let '(k, x) := kv in (denote_key k, denote x)) es)
  | VList es => JArr (map denote es)
  | VIdents ids => JArr (map (fun i => JStr (utf8_decode (utf8_encode i))) ids)
  end.

Lemma value_ind' (P : @value F -> Prop) :
  P VNil -> P VNull -> (forall b, P (VBool b)) -> (forall l bs, P (VStr l bs)) ->
  (forall lead lit, P (VInt lead lit)) -> (forall lead lit f, P (VFloat lead lit f)) ->
  (forall es, Forall (fun kv => P (snd kv)) es -> P (VObject es)) ->
  (forall es, Forall P es -> P (VList es)) ->
  (forall ids, P (VIdents ids)) ->
  forall v, P v.
Proof.
  intros H1 H2 H3 H4 H5 H6 H7 H8 H9.
  fix IH 1. intros v. destruct v.
  - exact H1. - exact H2. - apply H3. - apply H4. - apply H5. - apply H6.
  - apply H7. induction entries as [|[k x] es IHes]; constructor; [apply IH|exact IHes].
  - apply H8. induction entries as [|x es IHes]; constructor; [apply IH|exact IHes].
  - apply H9.
Qed.

(** [reads v o]: the reference parser reads the text [o], followed by any
    delimiter, as [denote v]. *)
Definition reads (j : jvalue) (o : list N) : Prop :=
  forall fuel rest, (length o <= fuel)%nat -> delim_ok rest ->
  jparse fuel (o ++ rest) = Some (j, rest).

Definition head_ok (o : list N) : Prop :=
  exists c r, o = c :: r /\ is_ws c = false /\ c <> 93 /\ c <> 125.

Lemma reads_number t : is_json_number t = true -> reads (JNum t) t /\ head_ok t.
Proof.
  intros H. destruct (json_number_head t H) as (c & r & -> & Hc). split.
  - intros fuel rest Hf Hd. destruct fuel as [|f]; [cbn in Hf; lia|].
    cbn [jparse app]. rewrite skip_ws_head by (destruct Hc as [->|Hc]; [reflexivity|unfold is_ws; lia]).
    replace (c =? 123) with false by lia. replace (c =? 91) with false by lia.
    replace (c =? 34) with false by lia. replace (c =? 116) with false by lia.
    replace (c =? 102) with false by lia. replace (c =? 110) with false by lia.
    change (c :: r ++ rest) with ((c :: r) ++ rest).
    now rewrite (json_number_delimited _ rest H (delim_num_stop rest Hd)).
  - exists c, r. split; [reflexivity|]. split; [|lia].
    destruct Hc as [->|Hc]; [reflexivity|unfold is_ws; lia].
Qed.

Lemma reads_string bs : reads (JStr (utf8_decode bs)) (json_quote bs) /\ head_ok (json_quote bs).
Proof.
  split.
  - intros fuel rest Hf Hd. destruct fuel as [|f]; [cbn in Hf; lia|].
    destruct (json_quote_read bs rest) as (body & E & Hb). rewrite E.
    cbn [jparse]. rewrite skip_ws_head by reflexivity. cbn [N.eqb Pos.eqb]. now rewrite Hb.
  - unfold json_quote. eexists _, _. split; [reflexivity|]. repeat split; discriminate.
Qed.

Lemma reads_lit j (o : list N) c r :
  o = c :: r -> is_ws c = false -> c <> 93 -> c <> 125 ->
  (forall f rest, jparse (S f) (c :: r ++ rest) = Some (j, rest)) ->
  reads j o /\ head_ok o.
Proof.
  intros -> Hw H1 H2 H. split.
  - intros fuel rest Hf _. destruct fuel as [|f]; [cbn in Hf; lia|]. apply H.
  - exists c, r. auto.
Qed.

(** Elements of an array. *)
Lemma jelems_ok : forall (js : list jvalue) (outs : list (list N)),
  Forall2 reads js outs -> outs <> [] ->
  forall f acc rest, (length (join [44%N] outs) < f)%nat ->
  jelems f (join [44] outs ++ 93 :: rest) acc = Some (JArr (acc ++ js), rest).
Proof.
  induction 1 as [|j o js outs Hr Hrs IH]; intros Hne f acc rest Hf; [contradiction|].
  destruct f as [|f]; [lia|]. cbn [jelems].
  destruct outs as [|o2 outs'].
  - inversion Hrs; subst. cbn [join] in *.
    rewrite (Hr f (93 :: rest)) by (cbn; try lia; auto).
    cbn [skip_ws drop_while is_ws N.eqb Pos.eqb orb]. reflexivity.
  - rewrite join_cons2 in *. rewrite <- !app_assoc. cbn [app].
    rewrite app_length in Hf. cbn [app length] in Hf.
    rewrite (Hr f (44 :: join [44] (o2 :: outs') ++ 93 :: rest)) by (cbn [delim_ok]; try lia; auto).
    cbn [skip_ws drop_while is_ws N.eqb Pos.eqb orb].
    rewrite IH by (try discriminate; lia). now rewrite <- app_assoc.
Qed.

(** Members of an object: [key ":" value]. *)
Lemma jmembers_ok : forall (ms : list (list N * jvalue)) (outs : list (list N)),
  Forall2 (fun m o => exists bs vo, o = json_quote bs ++ 58 :: vo /\
                                     fst m = utf8_decode bs /\ reads (snd m) vo) ms outs ->
  outs <> [] ->
  forall f acc rest, (length (join [44%N] outs) < f)%nat ->
  jmembers f (join [44] outs ++ 125 :: rest) acc = Some (JObj (acc ++ ms), rest).
Proof.
  induction 1 as [|[k j] o ms outs Hm Hms IH]; intros Hne f acc rest Hf; [contradiction|].
  destruct Hm as (bs & vo & -> & Hk & Hr). cbn [fst snd] in *. subst k.
  destruct f as [|f]; [lia|]. cbn [jmembers].
  assert (Hstep : forall tail, delim_ok tail -> (length vo <= f)%nat ->
            forall X,
            (match skip_ws tail with
             | 44 :: r4 => jmembers f r4 (acc ++ [(utf8_decode bs, j)])
             | 125 :: r4 => Some (JObj (acc ++ [(utf8_decode bs, j)]), r4)
             | _ => None end = X) ->
            match skip_ws ((json_quote bs ++ 58 :: vo) ++ tail) with
            | 34 :: r =>
                match jstr_go JN r with
                | None => None
                | Some (k, r1) =>
                    match skip_ws r1 with
                    | 58 :: r2 =>
                        match jparse f r2 with
                        | None => None
                        | Some (v, r3) =>
                            match skip_ws r3 with
                            | 44 :: r4 => jmembers f r4 (acc ++ [(k, v)])
                            | 125 :: r4 => Some (JObj (acc ++ [(k, v)]), r4)
                            | _ => None
                            end
                        end
                    | _ => None
                    end
                end
            | _ => None
            end = X).
  { intros tail Hd Hl X HX. rewrite <- app_assoc. cbn [app].
    destruct (json_quote_read bs (58 :: vo ++ tail)) as (body & E & Hb). rewrite E.
    rewrite skip_ws_head by reflexivity. rewrite Hb.
    rewrite skip_ws_head by reflexivity. rewrite (Hr f tail Hl Hd). exact HX. }
  destruct outs as [|o2 outs'].
  - inversion Hms; subst. cbn [join] in *.
    rewrite app_length in Hf. cbn [length] in Hf.
    apply Hstep; [cbn; auto|lia|].
    cbn [skip_ws drop_while is_ws N.eqb Pos.eqb orb]. reflexivity.
  - rewrite join_cons2 in *. rewrite <- !app_assoc. cbn [app].
    rewrite !app_length in Hf. cbn [app length] in Hf. rewrite ?app_length in Hf.
    change (json_quote bs ++ 58 :: vo ++ 44 :: join [44] (o2 :: outs') ++ 125 :: rest)
      with (json_quote bs ++ (58 :: vo) ++ 44 :: join [44] (o2 :: outs') ++ 125 :: rest).
    rewrite app_assoc.
    apply Hstep; [cbn; auto|lia|].
    cbn [skip_ws drop_while is_ws N.eqb Pos.eqb orb].
    rewrite IH by (try discriminate; lia). now rewrite <- app_assoc.
Qed.

Lemma join_head outs : outs <> [] -> Forall head_ok outs ->
  exists c r, join [44] outs = c :: r /\ is_ws c = false /\ c <> 93 /\ c <> 125.
Proof.
  intros Hne H. destruct outs as [|o outs']; [contradiction|].
  inversion H as [|? ? (c & r & -> & Hc) _]; subst.
  destruct outs'; cbn [join app]; eauto.
Qed.

Lemma reads_array js outs :
  Forall2 reads js outs -> Forall head_ok outs ->
  reads (JArr js) (91 :: join [44] outs ++ [93]) /\ head_ok (91 :: join [44] outs ++ [93]).
Proof.
  intros Hr Hh. split.
  2:{ eexists _, _. split; [reflexivity|]. repeat split; discriminate. }
  intros fuel rest Hf Hd. destruct fuel as [|f]; [cbn in Hf; lia|].
  cbn [jparse app]. rewrite skip_ws_head by reflexivity. cbn [N.eqb Pos.eqb].
  rewrite <- app_assoc. cbn [app].
  destruct outs as [|o outs'].
  - inversion Hr; subst. cbn [join app skip_ws drop_while is_ws N.eqb Pos.eqb orb]. reflexivity.
  - destruct (join_head (o :: outs') ltac:(discriminate) Hh) as (c & r & E & Hw & H93 & _).
    rewrite E. cbn [app]. rewrite skip_ws_head by exact Hw.
    destruct (N.eqb_spec c 93) as [->|_]; [contradiction|].
    assert (Hc : match c with 93 => true | _ => false end = false).
    { destruct c as [|p]; [reflexivity|]. repeat (destruct p as [p|p|]; try reflexivity). contradiction. }
    change (c :: r ++ 93 :: rest) with ((c :: r) ++ 93 :: rest). rewrite <- E.
    cbn [length] in Hf. rewrite app_length in Hf. cbn [length] in Hf.
    rewrite (jelems_ok js (o :: outs') Hr ltac:(discriminate) f [] rest) by lia.
    revert Hc. clear. intros Hc.
    destruct c as [|p]; [reflexivity|]. repeat (destruct p as [p|p|]; try reflexivity). discriminate.
Qed.

Lemma reads_object ms outs :
  Forall2 (fun m o => exists bs vo, o = json_quote bs ++ 58 :: vo /\
                                     fst m = utf8_decode bs /\ reads (snd m) vo) ms outs ->
  reads (JObj ms) (123 :: join [44] outs ++ [125]) /\ head_ok (123 :: join [44] outs ++ [125]).
Proof.
  intros Hr. split.
  2:{ eexists _, _. split; [reflexivity|]. repeat split; discriminate. }
  intros fuel rest Hf Hd. destruct fuel as [|f]; [cbn in Hf; lia|].
  cbn [jparse app]. rewrite skip_ws_head by reflexivity. cbn [N.eqb Pos.eqb].
  rewrite <- app_assoc. cbn [app].
  destruct outs as [|o outs'].
  - inversion Hr; subst. cbn [join app skip_ws drop_while is_ws N.eqb Pos.eqb orb]. reflexivity.
  - assert (E : exists r, join [44] (o :: outs') = 34 :: r).
    { inversion Hr as [|m ? ? ? (bs & vo & -> & _) _]; subst. unfold json_quote.
      destruct outs'; cbn [join app]; eauto. }
    destruct E as [r E]. rewrite E. cbn [app]. rewrite skip_ws_head by reflexivity.
    change (34 :: r ++ 125 :: rest) with ((34 :: r) ++ 125 :: rest). rewrite <- E.
    cbn [length] in Hf. rewrite app_length in Hf. cbn [length] in Hf.
    exact (jmembers_ok ms (o :: outs') Hr ltac:(discriminate) f [] rest ltac:(lia)).
Qed.

Lemma sign_cases lead : sign_of lead = [] \/ sign_of lead = [45].
Proof.
  unfold sign_of. destruct lead as [l|]; [|now left]. destruct (list_N_eqb l [45]); auto.
Qed.

Theorem encode_reads : forall v o,
  encode_value ff v = Some o -> reads (denote v) o /\ head_ok o.
Proof.
  induction v as [| |b|l bs|lead lit|lead lit f|es IH|es IH|ids] using value_ind';
    intros o H; cbn [encode_value] in H.
  - discriminate.
  - injection H as <-. eapply reads_lit; [reflexivity|reflexivity|discriminate|discriminate|].
    intros f rest. reflexivity.
  - injection H as <-. destruct b.
    + eapply reads_lit; [reflexivity|reflexivity|discriminate|discriminate|].
      intros f rest. reflexivity.
    + eapply reads_lit; [reflexivity|reflexivity|discriminate|discriminate|].
      intros f rest. reflexivity.
  - injection H as <-. apply reads_string.
  - unfold int_json in H. cbn [denote]. destruct (int_value lit) as [n|]; [|discriminate].
    cbn [option_map] in H. injection H as <-. apply reads_number.
    destruct (dec_string_json n) as [H1 H2].
    destruct (sign_cases lead) as [-> | ->]; [exact H1|exact H2].
  - injection H as <-. cbn [denote]. apply reads_number.
    assert (Hf : is_json_number (encode_float ff f) = true /\
                 forall r, encode_float ff f <> 45 :: r).
    { destruct f as [x|]; cbn [encode_float]; [split; [apply ff_json|apply ff_unsigned]|].
      split; [reflexivity|discriminate]. }
    destruct Hf as [Hf1 Hf2].
    destruct (sign_cases lead) as [-> | ->]; [exact Hf1|now apply json_number_neg].
  - (* object *)
    destruct (join_opt [44] _) as [body|] eqn:E; [|discriminate]. injection H as <-.
    destruct (join_opt_some _ _ _ E) as (outs & Hm & ->).
    cbn [denote]. apply reads_object.
    clear E. revert outs Hm. induction IH as [|[k x] es Hx Hes IHes]; intros outs Hm.
    + destruct outs; [constructor|discriminate].
    + destruct outs as [|o outs']; [discriminate|]. cbn [map] in Hm.
      injection Hm as Ho Hm'. cbn [snd] in Hx.
      destruct (encode_value ff x) as [t|] eqn:Ex; [|discriminate].
      cbn [option_map] in Ho. injection Ho as <-.
      constructor; [|apply IHes; exact Hm'].
      destruct (Hx t eq_refl) as [Hr _].
      destruct k as [lit|lit bs]; cbn [encode_key denote_key fst snd].
      * exists (utf8_encode lit), t. auto.
      * exists bs, t. auto.
  - (* list *)
    destruct (join_opt [44] _) as [body|] eqn:E; [|discriminate]. injection H as <-.
    destruct (join_opt_some _ _ _ E) as (outs & Hm & ->).
    cbn [denote].
    assert (H2 : Forall2 reads (map denote es) outs /\ Forall head_ok outs).
    { clear E. revert outs Hm. induction IH as [|x es Hx Hes IHes]; intros outs Hm.
      - destruct outs; [split; constructor|discriminate].
      - destruct outs as [|o outs']; [discriminate|]. cbn [map] in Hm.
        injection Hm as Ho Hm'. destruct (Hx o Ho) as [Hr Hh].
        destruct (IHes outs' Hm') as [IH1 IH2]. split; constructor; auto. }
    destruct H2 as [H2a H2b]. now apply reads_array.
  - (* identifier list *)
    destruct (join_opt [44] _) as [body|] eqn:E; [|discriminate]. injection H as <-.
    destruct (join_opt_some _ _ _ E) as (outs & Hm & ->).
    cbn [denote].
    assert (H2 : Forall2 reads (map (fun i => JStr (utf8_decode (utf8_encode i))) ids) outs /\
                 Forall head_ok outs).
    { clear E. revert outs Hm. induction ids as [|i ids IHi]; intros outs Hm.
      - destruct outs; [split; constructor|discriminate].
      - destruct outs as [|o outs']; [discriminate|]. cbn [map] in Hm.
        injection Hm as Ho Hm'. subst o.
        destruct (reads_string (utf8_encode i)) as [Hr Hh].
        destruct (IHi outs' Hm') as [IH1 IH2]. split; constructor; auto. }
    destruct H2 as [H2a H2b]. now apply reads_array.
Qed.

(** The emitted text is valid JSON and denotes the value of the tree. *)
Theorem encode_json_parse v o :
  encode_value ff v = Some o -> json_parse o = Some (denote v).
Proof.
  intros H. destruct (encode_reads v o H) as [Hr _].
  unfold json_parse. specialize (Hr (S (length o)) [] ltac:(lia) I).
  rewrite app_nil_r in Hr. now rewrite Hr.
Qed.

Variable pf : list N -> option F.

Theorem to_json_stream_valid s out errs :
  to_json_stream pf ff s = Some (Some out, errs) ->
  errs = [] /\ exists v, json_parse out = Some (denote v).
Proof.
  unfold to_json_stream. destruct (parse_value pf _ _) as [[v st1]|]; [|discriminate].
  destruct (p_errs st1); [|discriminate]. unfold marshal_value.
  destruct (encode_value ff v) as [t|] eqn:E; [|discriminate].
  intros H. injection H as <- <-. split; [reflexivity|]. exists v. now apply encode_json_parse.
Qed.

Theorem to_json_valid input out errs :
  to_json pf ff input = Ok (Some out, errs) ->
  errs = [] /\ exists v, json_parse out = Some (denote v).
Proof.
  unfold to_json. destruct (jsonx_stream input) as [s| |]; try discriminate.
  destruct (to_json_stream pf ff s) as [r|] eqn:E; [|discriminate].
  intros H. injection H as ->. eapply to_json_stream_valid; eauto.
Qed.

(** Unmarshal never hands json.Unmarshal a text it rejects. *)
Theorem unmarshal_stream_never_invalid s t :
  unmarshal_stream pf ff s <> Some (UJsonErr t).
Proof.
  unfold unmarshal_stream. destruct (parse_value pf _ _) as [[v st1]|]; [|discriminate].
  destruct (p_errs st1); [|discriminate]. unfold marshal_value.
  destruct (encode_value ff v) as [t'|] eqn:E; [|discriminate].
  unfold json_valid. rewrite (encode_json_parse v t' E).
  destruct (p_see TEOF _); [destruct (p_errs _)|]; discriminate.
Qed.

Theorem unmarshal_stream_ok s t :
  unmarshal_stream pf ff s = Some (UOk t) -> exists v, json_parse t = Some (denote v).
Proof.
  unfold unmarshal_stream. destruct (parse_value pf _ _) as [[v st1]|]; [|discriminate].
  destruct (p_errs st1); [|discriminate]. unfold marshal_value.
  destruct (encode_value ff v) as [t'|] eqn:E; [|discriminate].
  destruct (json_valid t'); [|discriminate].
  destruct (p_see TEOF _); [|discriminate]. destruct (p_errs _); [|discriminate].
  intros H. injection H as <-. exists v. now apply encode_json_parse.
Qed.

(** A Decoder used for several values: every value it hands out is valid
    JSON denoting the tree parsed for it, and json.Unmarshal is never given a
    text it rejects. *)
Theorem decode_step_valid st r st' :
  decode_step pf ff st = Some (r, st') ->
  match r with
  | DOk t => exists v, json_parse t = Some (denote v)
  | DJsonErr _ => False
  | DErrs es => es <> []
  end.
Proof.
  unfold decode_step. destruct (parse_value pf _ st) as [[v st1]|]; [|discriminate].
  destruct (p_errs st1); [|intros H; injection H as <- _; discriminate]. unfold marshal_value.
  destruct (encode_value ff v) as [t|] eqn:E.
  - unfold json_valid. rewrite (encode_json_parse v t E). intros H. injection H as <- _.
    exists v. now apply encode_json_parse.
  - intros H. injection H as <- _. discriminate.
Qed.

Theorem decode_stream_valid : forall fuel st acc vs fin,
  Forall (fun t => exists v, json_parse t = Some (denote v)) acc ->
  decode_stream pf ff fuel st acc = Some (vs, fin) ->
  Forall (fun t => exists v, json_parse t = Some (denote v)) vs /\
  match fin with Some (DJsonErr _) | Some (DOk _) => False | _ => True end.
Proof.
  induction fuel as [|f IH]; intros st acc vs fin Hacc H; [discriminate|]. cbn [decode_stream] in H.
  destruct (more st); [|injection H as <- <-; auto].
  destruct (decode_step pf ff st) as [[r st']|] eqn:E; [|discriminate].
  pose proof (decode_step_valid st r st' E) as Hr.
  destruct r as [t|e|t].
  - eapply IH; [|exact H]. apply Forall_app. split; [exact Hacc|]. constructor; [exact Hr|constructor].
  - injection H as <- <-. auto.
  - contradiction.
Qed.

(** DecodeSeries with any TypeMaker: every entry it returns carries valid
    JSON denoting the parsed entry, and the TypeMaker's decoder accepted it. *)
Theorem series_entries_valid tm es :
  forall errs res errs' res',
  Forall (fun nt => exists v acc, json_parse (snd nt) = Some (denote v) /\
                                  tm (fst nt) = Some acc /\ acc (snd nt) = true) res ->
  fold_left (series_entry ff tm) es (errs, res) = (errs', res') ->
  Forall (fun nt => exists v acc, json_parse (snd nt) = Some (denote v) /\
                                  tm (fst nt) = Some acc /\ acc (snd nt) = true) res'.
Proof.
  induction es as [|[name v] es IH]; intros errs res errs' res' Hres H; cbn [fold_left] in H.
  - injection H as _ <-. exact Hres.
  - unfold series_entry at 2 in H. destruct (tm name) as [acc|] eqn:Et; [|eapply IH; eauto].
    destruct (encode_value ff v) as [t|] eqn:E; [|eapply IH; eauto].
    destruct (acc t) eqn:Ea; [|eapply IH; eauto].
    eapply IH; [|exact H]. apply Forall_app. split; [exact Hres|]. constructor; [|constructor].
    exists v, acc. cbn [fst snd]. split; [now apply encode_json_parse|auto].
Qed.

Theorem decode_series_stream_valid tm s res errs :
  decode_series_stream pf ff tm s = Some (Some res, errs) ->
  errs = [] /\
  Forall (fun nt => exists v acc, json_parse (snd nt) = Some (denote v) /\
                                  tm (fst nt) = Some acc /\ acc (snd nt) = true) res.
Proof.
  unfold decode_series_stream. destruct (parse_series pf _ _ []) as [[es st1]|]; [|discriminate].
  destruct (p_errs st1); [|discriminate].
  destruct (fold_left (series_entry ff tm) es ([], [])) as [errs0 res0] eqn:E.
  destruct errs0; [|discriminate]. intros H. injection H as <- <-. split; [reflexivity|].
  eapply series_entries_valid; [|exact E]. constructor.
Qed.

Theorem decode_all_valid input vs fin :
  decode_all pf ff input = Ok (vs, fin) ->
  Forall (fun t => exists v, json_parse t = Some (denote v)) vs /\
  match fin with Some (DJsonErr _) | Some (DOk _) => False | _ => True end.
Proof.
  unfold decode_all. destruct (jsonx_stream input) as [s| |]; try discriminate.
  destruct (decode_stream pf ff _ _ []) as [[vs' fin']|] eqn:E; [|discriminate].
  intros H. injection H as <- <-. eapply decode_stream_valid; [|exact E]. constructor.
Qed.

Theorem decode_series_valid tm input res errs :
  decode_series pf ff tm input = Ok (Some res, errs) ->
  errs = [] /\
  Forall (fun nt => exists v acc, json_parse (snd nt) = Some (denote v) /\
                                  tm (fst nt) = Some acc /\ acc (snd nt) = true) res.
Proof.
  unfold decode_series. destruct (jsonx_stream input) as [s| |]; try discriminate.
  destruct (decode_series_stream pf ff tm s) as [r|] eqn:E; [|discriminate].
  intros H. injection H as ->. now apply (decode_series_stream_valid tm s).
Qed.

Lemma add_err_ne acc e : add_err acc e <> [].
Proof.
  unfold add_err. destruct (Nat.ltb (length acc) max_errs) eqn:E.
  - destruct acc; discriminate.
  - destruct acc; [discriminate|discriminate].
Qed.

(** All or nothing: a successful DecodeSeries has accepted every entry. *)
Lemma series_entries_all tm es :
  forall errs res res',
  fold_left (series_entry ff tm) es (errs, res) = ([], res') ->
  errs = [] /\ length res' = (length res + length es)%nat /\
  Forall (fun e => exists acc t, tm (fst e) = Some acc /\ encode_value ff (snd e) = Some t /\ acc t = true) es.
Proof.
  clear ff_json ff_unsigned.
  induction es as [|[name v] es IH]; intros errs res res' H; cbn [fold_left] in H.
  - injection H as -> ->. repeat split; [cbn; lia|constructor].
  - unfold series_entry at 2 in H.
    assert (Hne : forall l c r0 r1, fold_left (series_entry ff tm) es (add_err l c, r0) = ([], r1) -> False).
    { intros l c r0 r1 H0. apply IH in H0. destruct H0 as [H0 _]. now apply add_err_ne in H0. }
    destruct (tm name) as [acc|] eqn:Et; [|now apply Hne in H].
    destruct (encode_value ff v) as [t|] eqn:E; [|now apply Hne in H].
    destruct (acc t) eqn:Ea; [|now apply Hne in H].
    apply IH in H. destruct H as (-> & Hl & Hf). split; [reflexivity|]. split.
    + rewrite Hl, app_length. cbn. lia.
    + constructor; [|exact Hf]. exists acc, t. auto.
Qed.

Theorem decode_series_all_or_nothing tm s res :
  decode_series_stream pf ff tm s = Some (Some res, []) ->
  exists es st1, parse_series pf (parse_fuel (p_init s)) (p_init s) [] = Some (es, st1) /\
    p_errs st1 = [] /\ length res = length es /\
    Forall (fun e => exists acc t, tm (fst e) = Some acc /\ encode_value ff (snd e) = Some t /\ acc t = true) es.
Proof.
  unfold decode_series_stream. destruct (parse_series pf _ _ []) as [[es st1]|]; [|discriminate].
  destruct (p_errs st1) eqn:Ep; [|discriminate].
  destruct (fold_left (series_entry ff tm) es ([], [])) as [errs0 res0] eqn:E.
  destruct errs0; [|discriminate]. intros H. injection H as <-.
  apply series_entries_all in E. destruct E as (_ & Hl & Hf).
  exists es, st1. repeat split; auto.
Qed.

End WithFloat.

(** ** Leaves *)

(** Integers: the emitted text is a JSON number whose decimal value is
    exactly the value of the Go-style literal. *)
Theorem int_json_exact lit d :
  int_json lit = Some d ->
  exists n, int_value lit = Some n /\ digits_val 10 dec_digit 0 d = Some n /\
            is_json_number d = true /\ is_json_number (45 :: d) = true.
Proof.
  unfold int_json. destruct (int_value lit) as [n|]; [|discriminate].
  intros H. injection H as <-. exists n. split; [reflexivity|].
  split; [apply dec_string_value|apply dec_string_json].
Qed.

(** Identifiers are ASCII, so a bare key or a dotted identifier denotes
    exactly its runes. *)
Lemma ascii_roundtrip l : forallb (fun c => c <? 128) l = true ->
  utf8_decode (utf8_encode l) = l.
Proof.
  intros H. apply decode_encode. rewrite forallb_forall in *. intros c Hc.
  specialize (H c Hc). apply valid_rune_spec. lia.
Qed.

Lemma is_ident_char_ascii c : is_ident_char c = true -> (c <? 128) = true.
Proof. unfold is_ident_char, is_ident_letter, is_letter, is_digit, in_range. lia. Qed.

Theorem ident_token_ascii s t e rest :
  lex_ident s = LTok t e rest -> forallb (fun c => c <? 128) (tlit t) = true.
Proof.
  destruct s as [|c r]; [discriminate|]. cbn [lex_ident].
  destruct (is_ident_letter c) eqn:Ec; [|discriminate].
  destruct (span is_ident_char r) as [a b] eqn:Es. intros H. injection H as <- _ _.
  cbn [tlit forallb]. apply andb_true_iff. split.
  - apply is_ident_char_ascii. unfold is_ident_char. now rewrite Ec.
  - clear -Es. revert a b Es. induction r as [|x r IH]; intros a b Es; cbn [span] in Es.
    + injection Es as <- _. reflexivity.
    + destruct (is_ident_char x) eqn:Ex.
      * destruct (span is_ident_char r) as [a' b']. injection Es as <- _.
        cbn [forallb]. rewrite (is_ident_char_ascii x Ex). eapply IH; eauto.
      * injection Es as <- _. reflexivity.
Qed.
