(** One long-lived Decoder driven by an arbitrary sequence of calls
    (jsonx/decoder.go): [More], [Decode] and [DecodeSeries] in any order and
    any number of times, also after a call that returned errors.

    The parser state a call leaves is the state the next call starts from:
    the error list and its jail flag are never reset between calls (nothing
    in decoder.go calls BailOut), [Decode] returns as soon as [p.Errs()] is
    not empty, [DecodeSeries] runs [parseSeries] from the current token.
    [decode_step] (Jsonx/Encode.v) already is [Decode] on an arbitrary state;
    [decode_series_from] is [DecodeSeries] on an arbitrary state. *)
From Coq Require Import List NArith Bool.
From Verif Require Import Lib.Utf8 Jsonx.Lex Jsonx.Tok Jsonx.GoStr Jsonx.Num Jsonx.Parse
  Jsonx.Json Jsonx.Encode.
Import ListNotations.
Local Open Scope N_scope.

Section WithFloat.
Context {F : Type}.
Variable pf : list N -> option F.
Variable ff : F -> list N.

(** What DecodeSeries returns: the entries (type name, JSON text), or errors. *)
Definition series_res := (option (list (list N * list N)) * list ecode)%type.

Definition decode_series_from (tm : list N -> option (list N -> bool)) (st : pstate)
  : option (series_res * pstate) :=
  match parse_series pf (parse_fuel st) st [] with
  | None => None
  | Some (es, st1) =>
      match p_errs st1 with
      | [] =>
          let '(errs, res) := fold_left (series_entry ff tm) es ([], []) in
          match errs with
          | [] => Some ((Some res, []), st1)
          | _ => Some ((None, errs), st1)
          end
      | errs => Some ((None, errs), st1)
      end
  end.

Inductive sop := OpMore | OpDecode | OpSeries.

Inductive sres :=
| RMore (b : bool)
| RDec (r : dres)
| RSer (r : series_res).

(** The calls of the script, one after the other, on the state the previous
    call left.  [None] = a call ran out of fuel (excluded by
    Jsonx/ScriptProofs.v). *)
Fixpoint run_script (tm : list N -> option (list N -> bool)) (st : pstate) (ops : list sop)
  : option (list sres * pstate) :=
  match ops with
  | [] => Some ([], st)
  | OpMore :: r =>
      match run_script tm st r with
      | None => None
      | Some (l, st') => Some (RMore (more st) :: l, st')
      end
  | OpDecode :: r =>
      match decode_step pf ff st with
      | None => None
      | Some (d, st1) =>
          match run_script tm st1 r with
          | None => None
          | Some (l, st') => Some (RDec d :: l, st')
          end
      end
  | OpSeries :: r =>
      match decode_series_from tm st with
      | None => None
      | Some (s, st1) =>
          match run_script tm st1 r with
          | None => None
          | Some (l, st') => Some (RSer s :: l, st')
          end
      end
  end.

Definition script (tm : list N -> option (list N -> bool)) (input : list N) (ops : list sop)
  : outcome (list sres) :=
  match jsonx_stream input with
  | Ok s => match run_script tm (p_init s) ops with
            | Some (l, _) => Ok l
            | None => OutOfFuel
            end
  | Panic w => Panic w
  | OutOfFuel => OutOfFuel
  end.

End WithFloat.
