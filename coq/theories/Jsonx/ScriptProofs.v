(** One Decoder, any sequence of calls (Jsonx/Script.v): every call returns,
    whatever the calls before it returned; what each call hands to the caller
    is a value without errors or between 1 and 20 errors without a value; and
    DecodeSeries on a fresh Decoder is the entry point of Jsonx/Encode.v. *)
From Coq Require Import List NArith Bool Lia Arith.
From Verif Require Import Lib.Utf8 Jsonx.Lex Jsonx.Tok Jsonx.GoStr Jsonx.Num Jsonx.Parse
  Jsonx.Json Jsonx.Encode Jsonx.Script Jsonx.LexProofs Jsonx.ParseProofs Jsonx.Term Jsonx.Balance
  Jsonx.Seen.
Import ListNotations.

(** ** Lexing errors only accumulate.  [pcum t] is the lexer's error list
    when token [t] was handed to the parser; in the stream the tokenizer
    builds, once a token carries a non-empty list so do all later ones and
    the final list.  [lexmono] states it for a parser state and is kept by
    every parser step. *)

Definition lx (t : ptok) : Prop := pcum t <> [].

Fixpoint up (l : list ptok) (fin : list ecode) : Prop :=
  match l with
  | [] => True
  | t :: r => (lx t -> Forall lx r /\ fin <> []) /\ up r fin
  end.

Definition lexmono (st : pstate) : Prop :=
  (lx (cur st) -> Forall lx (rest st) /\ fin st <> []) /\ up (rest st) (fin st).

Lemma add_err_nonempty acc e : acc <> [] -> add_err acc e <> [].
Proof.
  unfold add_err. intros H. destruct (Nat.ltb _ _); [|exact H]. destruct acc; [contradiction|discriminate].
Qed.

Lemma add_errs_nonempty es : forall acc, acc <> [] -> add_errs acc es <> [].
Proof.
  unfold add_errs. induction es as [|e es IH]; intros acc H; cbn [fold_left]; [exact H|].
  apply IH. now apply add_err_nonempty.
Qed.

Lemma with_cum_up : forall raw acc,
  up (fst (with_cum acc raw)) (snd (with_cum acc raw)) /\
  (acc <> [] -> Forall lx (fst (with_cum acc raw)) /\ snd (with_cum acc raw) <> []).
Proof.
  induction raw as [|[t e] raw IH]; intros acc; cbn [with_cum].
  - cbn [fst snd up]. split; [exact I|]. intros H. split; [constructor|exact H].
  - specialize (IH (add_errs acc e)). destruct (with_cum (add_errs acc e) raw) as [ps fn].
    cbn [fst snd] in *. destruct IH as [Hu Hn]. split.
    + cbn [up]. split; [|exact Hu]. unfold lx at 1. cbn [pcum]. exact Hn.
    + intros Ha. pose proof (add_errs_nonempty e acc Ha) as Ha'. destruct (Hn Ha') as [Hf Hfin].
      split; [|exact Hfin]. constructor; [exact Ha'|exact Hf].
Qed.

Lemma semi_ins_lx fn : fn <> [] -> forall ts flag, Forall lx ts -> Forall lx (semi_ins flag fn ts).
Proof.
  intros Hf. induction ts as [|t r IH]; intros flag H; cbn [semi_ins].
  - destruct flag; [constructor; [exact Hf|constructor]|constructor].
  - inversion H as [|? ? Ht Hr]; subst.
    destruct (pty t); try (constructor; [exact Ht|apply IH; exact Hr]).
    destruct flag; [constructor; [exact Ht|]|]; apply IH; exact Hr.
Qed.

Lemma semi_ins_up fn : forall ts flag, up ts fn -> up (semi_ins flag fn ts) fn.
Proof.
  induction ts as [|t r IH]; intros flag H; cbn [semi_ins].
  - destruct flag; cbn [up]; [|exact I]. split; [|exact I]. unfold lx. cbn [pcum]. intros Hf. split; [constructor|exact Hf].
  - cbn [up] in H. destruct H as [Ht Hr].
    assert (Hk : forall fl, up (t :: semi_ins fl fn r) fn).
    { intros fl. cbn [up]. split; [|apply IH; exact Hr]. intros Hl. destruct (Ht Hl) as [Ha Hb].
      split; [|exact Hb]. now apply semi_ins_lx. }
    destruct (pty t); try apply Hk.
    destruct flag; [|apply IH; exact Hr].
    cbn [up]. split; [|apply IH; exact Hr]. unfold lx at 1. cbn [pcum]. intros Hl.
    destruct (Ht Hl) as [Ha Hb]. split; [|exact Hb]. now apply semi_ins_lx.
Qed.

Lemma keyword_tok_pcum t : pcum (keyword_tok t) = pcum t.
Proof. unfold keyword_tok. destruct (pty t); try reflexivity. destruct (is_keyword (plit t)); reflexivity. Qed.

Lemma map_keyword_lx l : Forall lx l -> Forall lx (map keyword_tok l).
Proof.
  induction 1; cbn [map]; constructor; auto. unfold lx. now rewrite keyword_tok_pcum.
Qed.

Lemma map_keyword_up fn : forall l, up l fn -> up (map keyword_tok l) fn.
Proof.
  induction l as [|t r IH]; cbn [map up]; [auto|]. intros [Ht Hr]. split; [|auto].
  unfold lx at 1. rewrite keyword_tok_pcum. intros Hl. destruct (Ht Hl) as [Ha Hb].
  split; [now apply map_keyword_lx|exact Hb].
Qed.

Lemma filter_lx (f : ptok -> bool) l : Forall lx l -> Forall lx (filter f l).
Proof. induction 1; cbn [filter]; [constructor|]. destruct (f x); [constructor|]; auto. Qed.

Lemma filter_up (f : ptok -> bool) fn : forall l, up l fn -> up (filter f l) fn.
Proof.
  induction l as [|t r IH]; cbn [filter up]; [auto|]. intros [Ht Hr].
  destruct (f t); [|auto]. cbn [up]. split; [|auto]. intros Hl. destruct (Ht Hl) as [Ha Hb].
  split; [now apply filter_lx|exact Hb].
Qed.

Lemma parser_stream_up raw : up (sbody (parser_stream raw)) (sfin (parser_stream raw)).
Proof.
  unfold parser_stream, filtered. pose proof (proj1 (with_cum_up raw [])) as Hu.
  destruct (with_cum [] raw) as [ps fn]. cbn [fst snd] in Hu. cbn [sbody sfin].
  apply filter_up, map_keyword_up, semi_ins_up, Hu.
Qed.

Lemma lexmono_next st : lexmono st -> lexmono (p_next st).
Proof.
  intros [Hc Hu]. unfold p_next. destruct (rest st) as [|t r]; unfold lexmono; cbn [cur rest fin].
  - split; [|exact I]. unfold lx. cbn [eof_tok pcum]. intros Hf. split; [constructor|exact Hf].
  - cbn [up] in Hu. exact Hu.
Qed.

Lemma lexmono_reach st st' : reach st st' -> lexmono st -> lexmono st'.
Proof.
  induction 1; intros Hm; auto; apply IHreach; first [now apply lexmono_next|exact Hm].
Qed.

Lemma p_init_lexmono s : up (sbody s) (sfin s) -> lexmono (p_init s).
Proof.
  intros Hu. unfold p_init. apply lexmono_next. unfold lexmono. cbn [cur rest fin]. split; [|exact Hu].
  unfold lx. cbn [eof_tok pcum]. intros C. now contradiction C.
Qed.

Lemma parser_init_lexmono raw : lexmono (p_init (parser_stream raw)).
Proof. apply p_init_lexmono, parser_stream_up. Qed.

(** Parser.Errs never becomes empty again. *)
Lemma p_errs_reach st st' : reach st st' -> lexmono st -> p_errs st <> [] -> p_errs st' <> [].
Proof.
  induction 1; intros Hm Hp; [exact Hp| | |].
  - apply IHreach; [now apply lexmono_next|].
    unfold p_errs in *. destruct (pcum (cur st)) as [|c l] eqn:Ec.
    + assert (Hq : perrs (p_next st) = perrs st) by (unfold p_next; destruct (rest st); reflexivity).
      destruct (pcum (cur (p_next st))); [now rewrite Hq|discriminate].
    + destruct Hm as [Hc _]. assert (Hl : lx (cur st)) by (unfold lx; rewrite Ec; discriminate).
      destruct (Hc Hl) as [Hr Hf]. unfold p_next. destruct (rest st) as [|t r]; cbn [cur].
      * cbn [eof_tok pcum]. destruct (fin st); [contradiction|discriminate].
      * inversion Hr as [|? ? Ht _]; subst. unfold lx in Ht. destruct (pcum t); [contradiction|discriminate].
  - apply IHreach; [exact Hm|]. unfold p_errs in *. cbn [p_add cur perrs].
    destruct (pcum (cur st)); [|discriminate]. unfold add_err. destruct (Nat.ltb _ _); [|exact Hp].
    destruct (perrs st); [contradiction|discriminate].
  - apply IHreach; [exact Hm|exact Hp].
Qed.

Section WithFloat.
Context {F : Type}.
Variable pf : list N -> option F.
Variable ff : F -> list N.

(** DecodeSeries on a new Decoder is [decode_series_stream]. *)
Lemma decode_series_stream_from tm s :
  decode_series_stream pf ff tm s = option_map fst (decode_series_from pf ff tm (p_init s)).
Proof.
  unfold decode_series_stream, decode_series_from.
  destruct (parse_series pf _ (p_init s) []) as [[es st1]|]; [|reflexivity].
  destruct (p_errs st1); [|reflexivity].
  destruct (fold_left (series_entry ff tm) es ([], [])) as [errs res]. destruct errs; reflexivity.
Qed.

(** Decode on a new Decoder, then More and the late look at the errors, is
    Unmarshal: Jsonx/Seen.v [unmarshal_is_decode_step]. *)

Theorem decode_series_from_total tm st : exists r, decode_series_from pf ff tm st = Some r.
Proof.
  unfold decode_series_from.
  destruct (parse_series_ok pf (parse_fuel st) st [] (parse_fuel_enough st)) as (es & st1 & E & _).
  rewrite E. destruct (p_errs st1); [|eexists; reflexivity].
  destruct (fold_left (series_entry ff tm) es ([], [])) as [errs res]. destruct errs; eexists; reflexivity.
Qed.

Lemma decode_series_from_reach tm st r st' :
  decode_series_from pf ff tm st = Some (r, st') -> reach st st'.
Proof.
  unfold decode_series_from.
  destruct (parse_series pf _ st []) as [[es st1]|] eqn:E; [|discriminate].
  pose proof (parse_series_reach pf _ _ _ _ _ E) as Hr.
  destruct (p_errs st1).
  - destruct (fold_left (series_entry ff tm) es ([], [])) as [errs res].
    destruct errs; intros H; injection H as _ <-; exact Hr.
  - intros H. injection H as _ <-. exact Hr.
Qed.

(** After DecodeSeries the parser is at the end of the input. *)
Lemma decode_series_from_at_eof tm st r st' :
  decode_series_from pf ff tm st = Some (r, st') -> more st' = false.
Proof.
  unfold decode_series_from.
  destruct (parse_series_ok pf (parse_fuel st) st [] (parse_fuel_enough st)) as (es & st1 & E & He).
  rewrite E. unfold more.
  destruct (p_errs st1).
  - destruct (fold_left (series_entry ff tm) es ([], [])) as [errs res].
    destruct errs; intros H; injection H as _ <-; now rewrite He.
  - intros H. injection H as _ <-. now rewrite He.
Qed.

Theorem decode_series_from_seen tm st r st' :
  capped st -> decode_series_from pf ff tm st = Some (r, st') -> capped st' /\ seen r.
Proof.
  intros Hc H. split; [exact (capped_reach _ _ (decode_series_from_reach tm _ _ _ H) Hc)|].
  unfold decode_series_from in H.
  destruct (parse_series pf _ st []) as [[es st1]|] eqn:E; [|discriminate].
  pose proof (p_errs_cap st1 (capped_reach _ _ (parse_series_reach pf _ _ _ _ _ E) Hc)) as Hcap.
  destruct (p_errs st1) eqn:Ep.
  - destruct (fold_left (series_entry ff tm) es ([], [])) as [errs0 res0] eqn:Ef.
    pose proof (series_entries_cap ff tm es _ _ _ _ cap_nil Ef) as Hc0.
    destruct errs0; injection H as <- _; (split; [|cbn [snd]]).
    + left. eexists. reflexivity.
    + apply cap_nil.
    + right. eexists _, _. reflexivity.
    + exact Hc0.
  - injection H as <- _. split; [right; eexists _, _; reflexivity|exact Hcap].
Qed.

(** ** Any sequence of calls *)

Theorem run_script_total tm ops : forall st,
  exists l st', run_script pf ff tm st ops = Some (l, st') /\ length l = length ops.
Proof.
  induction ops as [|op ops IH]; intros st; cbn [run_script].
  - eexists _, _. split; reflexivity.
  - destruct op.
    + destruct (IH st) as (l & st' & E & Hl). rewrite E. eexists _, _. split; [reflexivity|cbn; lia].
    + destruct (decode_step_total pf ff st) as [[d st1] E1]. rewrite E1.
      destruct (IH st1) as (l & st' & E & Hl). rewrite E. eexists _, _. split; [reflexivity|cbn; lia].
    + destruct (decode_series_from_total tm st) as [[s st1] E1]. rewrite E1.
      destruct (IH st1) as (l & st' & E & Hl). rewrite E. eexists _, _. split; [reflexivity|cbn; lia].
Qed.

Theorem script_total tm input ops :
  exists l, script pf ff tm input ops = Ok l /\ length l = length ops.
Proof.
  unfold script, jsonx_stream. destruct (jsonx_raw_tokens_total input) as [raw ->].
  destruct (run_script_total tm ops (p_init (parser_stream raw))) as (l & st' & E & Hl).
  rewrite E. exists l. split; [reflexivity|exact Hl].
Qed.

(** What the caller is handed by one call. *)
Definition sres_seen (r : sres) : Prop :=
  match r with
  | RMore _ => True
  | RDec (DErrs es) => es <> [] /\ cap_ok es
  | RDec _ => True
  | RSer s => seen s
  end.

Theorem run_script_seen tm ops : forall st l st',
  capped st -> run_script pf ff tm st ops = Some (l, st') -> Forall sres_seen l /\ capped st'.
Proof.
  induction ops as [|op ops IH]; intros st l st' Hc H; cbn [run_script] in H.
  - injection H as <- <-. split; [constructor|exact Hc].
  - destruct op.
    + destruct (run_script pf ff tm st ops) as [[l0 st0]|] eqn:E; [|discriminate].
      injection H as <- <-. destruct (IH _ _ _ Hc E) as [Ha Hb]. split; [constructor; [exact I|exact Ha]|exact Hb].
    + destruct (decode_step pf ff st) as [[d st1]|] eqn:E1; [|discriminate].
      destruct (decode_step_seen pf ff st d st1 Hc E1) as [Hc1 Hd].
      destruct (run_script pf ff tm st1 ops) as [[l0 st0]|] eqn:E; [|discriminate].
      injection H as <- <-. destruct (IH _ _ _ Hc1 E) as [Ha Hb]. split; [|exact Hb].
      constructor; [|exact Ha]. destruct d; cbn; auto.
    + destruct (decode_series_from pf ff tm st) as [[s st1]|] eqn:E1; [|discriminate].
      destruct (decode_series_from_seen tm st s st1 Hc E1) as [Hc1 Hs].
      destruct (run_script pf ff tm st1 ops) as [[l0 st0]|] eqn:E; [|discriminate].
      injection H as <- <-. destruct (IH _ _ _ Hc1 E) as [Ha Hb]. split; [|exact Hb].
      constructor; [exact Hs|exact Ha].
Qed.

Theorem script_seen tm input ops l :
  script pf ff tm input ops = Ok l -> Forall sres_seen l.
Proof.
  unfold script, jsonx_stream. destruct (jsonx_raw_tokens input) as [raw| |]; try discriminate.
  destruct (run_script pf ff tm (p_init (parser_stream raw)) ops) as [[l0 st0]|] eqn:E; [|discriminate].
  intros H. injection H as <-.
  exact (proj1 (run_script_seen tm ops _ _ _ (parser_init_capped raw) E)).
Qed.

Theorem script_total_seen tm input ops :
  exists l, script pf ff tm input ops = Ok l /\ length l = length ops /\ Forall sres_seen l.
Proof.
  destruct (script_total tm input ops) as (l & E & Hl). exists l. repeat split; auto.
  exact (script_seen tm input ops l E).
Qed.

(** ** Errors are sticky.  Nothing a Decoder does removes an error from the
    parser's list, so once a call has returned the parser's errors every
    later Decode returns errors too and every later DecodeSeries fails: a
    Decoder is not usable after a parse error.  (The encoder's own error - an
    integer literal such as 08 that has no value - is not recorded in the
    parser: the next call starts clean.) *)

Lemma decode_step_sticky st r st' :
  lexmono st -> p_errs st <> [] -> decode_step pf ff st = Some (r, st') ->
  lexmono st' /\ p_errs st' <> [] /\ exists es, r = DErrs es /\ es <> [].
Proof.
  intros Hm Hp H. pose proof (decode_step_reach pf ff _ _ _ H) as Hr.
  split; [exact (lexmono_reach _ _ Hr Hm)|]. split; [exact (p_errs_reach _ _ Hr Hm Hp)|].
  unfold decode_step in H.
  destruct (parse_value pf _ st) as [[v st1]|] eqn:E; [|discriminate].
  pose proof (p_errs_reach _ _ (parse_value_reach pf _ _ _ _ E) Hm Hp) as Hp1.
  destruct (p_errs st1) as [|e l] eqn:Ep; [contradiction|].
  injection H as <- _. eexists. split; [reflexivity|discriminate].
Qed.

Lemma decode_series_from_sticky tm st r st' :
  lexmono st -> p_errs st <> [] -> decode_series_from pf ff tm st = Some (r, st') ->
  lexmono st' /\ p_errs st' <> [] /\ exists e es, r = (None, e :: es).
Proof.
  intros Hm Hp H. pose proof (decode_series_from_reach tm _ _ _ H) as Hr.
  split; [exact (lexmono_reach _ _ Hr Hm)|]. split; [exact (p_errs_reach _ _ Hr Hm Hp)|].
  unfold decode_series_from in H.
  destruct (parse_series pf _ st []) as [[es st1]|] eqn:E; [|discriminate].
  pose proof (p_errs_reach _ _ (parse_series_reach pf _ _ _ _ _ E) Hm Hp) as Hp1.
  destruct (p_errs st1) as [|e l] eqn:Ep; [contradiction|].
  injection H as <- _. eexists _, _. reflexivity.
Qed.

Definition sres_failed (r : sres) : Prop :=
  match r with
  | RMore _ => True
  | RDec (DErrs es) => es <> []
  | RDec _ => False
  | RSer (None, _ :: _) => True
  | RSer _ => False
  end.

Theorem run_script_sticky tm ops : forall st l st',
  lexmono st -> p_errs st <> [] -> run_script pf ff tm st ops = Some (l, st') -> Forall sres_failed l.
Proof.
  induction ops as [|op ops IH]; intros st l st' Hm Hp H; cbn [run_script] in H.
  - injection H as <- _. constructor.
  - destruct op.
    + destruct (run_script pf ff tm st ops) as [[l0 st0]|] eqn:E; [|discriminate].
      injection H as <- _. constructor; [exact I|exact (IH _ _ _ Hm Hp E)].
    + destruct (decode_step pf ff st) as [[d st1]|] eqn:E1; [|discriminate].
      destruct (decode_step_sticky st d st1 Hm Hp E1) as (Hm1 & Hp1 & es & -> & Hes).
      destruct (run_script pf ff tm st1 ops) as [[l0 st0]|] eqn:E; [|discriminate].
      injection H as <- _. constructor; [exact Hes|exact (IH _ _ _ Hm1 Hp1 E)].
    + destruct (decode_series_from pf ff tm st) as [[s st1]|] eqn:E1; [|discriminate].
      destruct (decode_series_from_sticky tm st s st1 Hm Hp E1) as (Hm1 & Hp1 & e & es & ->).
      destruct (run_script pf ff tm st1 ops) as [[l0 st0]|] eqn:E; [|discriminate].
      injection H as <- _. constructor; [exact I|exact (IH _ _ _ Hm1 Hp1 E)].
Qed.

Lemma run_script_reach tm ops : forall st l st',
  run_script pf ff tm st ops = Some (l, st') -> reach st st'.
Proof.
  induction ops as [|op ops IH]; intros st l st' H; cbn [run_script] in H.
  - injection H as _ <-. apply R_refl.
  - destruct op.
    + destruct (run_script pf ff tm st ops) as [[l0 st0]|] eqn:E; [|discriminate].
      injection H as _ <-. eapply IH; exact E.
    + destruct (decode_step pf ff st) as [[d sa]|] eqn:Ed; [|discriminate].
      destruct (run_script pf ff tm sa ops) as [[l0 st0]|] eqn:E; [|discriminate].
      injection H as _ <-. eapply reach_trans; [exact (decode_step_reach pf ff _ _ _ Ed)|eapply IH; exact E].
    + destruct (decode_series_from pf ff tm st) as [[d sa]|] eqn:Ed; [|discriminate].
      destruct (run_script pf ff tm sa ops) as [[l0 st0]|] eqn:E; [|discriminate].
      injection H as _ <-. eapply reach_trans; [exact (decode_series_from_reach tm _ _ _ Ed)|eapply IH; exact E].
Qed.

(** On an input: once a call has returned the parser's errors (Decode with
    errors while [Parser.Errs] is not empty - every error but the encoder's
    own -, or a failed DecodeSeries whose parse had errors), no later call
    returns a value.  Stated on the split script: the calls [ops1] lead to a
    state whose error list is not empty; then all of [ops2] fail. *)
Theorem script_errors_sticky tm input ops1 ops2 raw l1 st1 l2 st2 :
  jsonx_raw_tokens input = Ok raw ->
  run_script pf ff tm (p_init (parser_stream raw)) ops1 = Some (l1, st1) ->
  p_errs st1 <> [] ->
  run_script pf ff tm st1 ops2 = Some (l2, st2) ->
  script pf ff tm input (ops1 ++ ops2) = Ok (l1 ++ l2) /\ Forall sres_failed l2.
Proof.
  intros Hraw H1 Hp H2. split.
  - unfold script, jsonx_stream. rewrite Hraw.
    assert (Happ : forall ops st l st', run_script pf ff tm st ops = Some (l, st') ->
              run_script pf ff tm st (ops ++ ops2) =
              match run_script pf ff tm st' ops2 with Some (l', s') => Some (l ++ l', s') | None => None end).
    { induction ops as [|op ops IH]; intros st l st' H; cbn [run_script app] in *.
      - injection H as <- <-. destruct (run_script pf ff tm st ops2) as [[l' s']|]; reflexivity.
      - destruct op.
        + destruct (run_script pf ff tm st ops) as [[l0 st0]|] eqn:E; [|discriminate].
          injection H as <- <-. rewrite (IH _ _ _ E).
          destruct (run_script pf ff tm st0 ops2) as [[l' s']|]; reflexivity.
        + destruct (decode_step pf ff st) as [[d sa]|]; [|discriminate].
          destruct (run_script pf ff tm sa ops) as [[l0 st0]|] eqn:E; [|discriminate].
          injection H as <- <-. rewrite (IH _ _ _ E).
          destruct (run_script pf ff tm st0 ops2) as [[l' s']|]; reflexivity.
        + destruct (decode_series_from pf ff tm st) as [[d sa]|]; [|discriminate].
          destruct (run_script pf ff tm sa ops) as [[l0 st0]|] eqn:E; [|discriminate].
          injection H as <- <-. rewrite (IH _ _ _ E).
          destruct (run_script pf ff tm st0 ops2) as [[l' s']|]; reflexivity. }
    rewrite (Happ _ _ _ _ H1), H2. reflexivity.
  - eapply run_script_sticky; [|exact Hp|exact H2].
    eapply lexmono_reach; [exact (run_script_reach tm _ _ _ _ H1)|apply parser_init_lexmono].
Qed.

End WithFloat.
