(** ReadFile is a function of the file's CURRENT bytes only.

    A file has content and a time stamp; the caller rewrites it (any content,
    any time stamp - a coarse clock, cp -p, a restore keep the old one) and
    reads it.  [F] is what the reader computes from bytes (unmarshalFile).
    The stateless reader - jsonx.ReadFile as it is: os.ReadFile, then
    unmarshalFile; the translator checks on every run that the readers
    mention no package-level variable and make no file-status call,
    [gen_reader_state = []] - returns [F] of the bytes on disk at the moment
    of the call, after any history.  A reader that keeps the last answer per
    file and reuses it while length and time stamp are unchanged does not. *)
From Coq Require Import List NArith Bool Arith.
Import ListNotations.

Section Read.
Variable R : Type.
Variable F : list N -> R.

Record file := mkFile { bytes : list N; mtime : nat }.

Inductive rev := EvWrite (f : file) | EvRead.

(** Stateless: the answers to the reads of a history. *)
Fixpoint stateless (cur : file) (h : list rev) : list R :=
  match h with
  | [] => []
  | EvWrite f :: r => stateless f r
  | EvRead :: r => F (bytes cur) :: stateless cur r
  end.

(** What every read should answer: [F] of the bytes on disk at that moment. *)
Fixpoint on_disk (cur : file) (h : list rev) : list (list N) :=
  match h with
  | [] => []
  | EvWrite f :: r => on_disk f r
  | EvRead :: r => bytes cur :: on_disk cur r
  end.

Theorem stateless_reads_current : forall h cur, stateless cur h = map F (on_disk cur h).
Proof.
  induction h as [|e h IH]; intros cur; [reflexivity|]. destruct e; cbn [stateless on_disk map]; [apply IH|].
  now rewrite IH.
Qed.

(** A cache keyed by (length, time stamp) of the file. *)
Fixpoint cached (cache : option (nat * nat * R)) (cur : file) (h : list rev) : list R :=
  match h with
  | [] => []
  | EvWrite f :: r => cached cache f r
  | EvRead :: r =>
      match cache with
      | Some (len, t, ans) =>
          if Nat.eqb len (length (bytes cur)) && Nat.eqb t (mtime cur) then ans :: cached cache cur r
          else F (bytes cur) :: cached (Some (length (bytes cur), mtime cur, F (bytes cur))) cur r
      | None => F (bytes cur) :: cached (Some (length (bytes cur), mtime cur, F (bytes cur))) cur r
      end
  end.

Theorem cached_refuted : forall c1 c2 t,
  length c1 = length c2 -> F c1 <> F c2 ->
  cached None (mkFile c1 t) [EvRead; EvWrite (mkFile c2 t); EvRead] = [F c1; F c1] /\
  stateless (mkFile c1 t) [EvRead; EvWrite (mkFile c2 t); EvRead] = [F c1; F c2] /\
  cached None (mkFile c1 t) [EvRead; EvWrite (mkFile c2 t); EvRead]
  <> stateless (mkFile c1 t) [EvRead; EvWrite (mkFile c2 t); EvRead].
Proof.
  intros c1 c2 t Hl Hne. cbn [cached stateless bytes mtime].
  rewrite <- Hl, !Nat.eqb_refl. cbn [andb]. repeat split. intros E. injection E as E. now apply Hne.
Qed.

End Read.
