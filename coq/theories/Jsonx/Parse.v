(** Model of lexing/parser.go (token cursor, error list with jail flag, Expect,
    SkipErrStmt) and of the jsonx recursive-descent parser
    (jsonx/parser.go, parse_value.go, parse_series.go).

    [strconv.ParseFloat] is external: [pf lit] is its result on a float token
    ([None] = error) over an abstract type [F] of float64 values.

    Recursion is by FUEL: every call of a parsing function passes [fuel - 1]
    to the calls it makes (loops are recursive calls).  [None] is "out of
    fuel"; Jsonx/ParseProofs.v shows it is never returned when
    [fuel >= parse_fuel st]. *)
From Coq Require Import List NArith Bool.
From Verif Require Import Lib.Utf8 Jsonx.Lex Jsonx.Tok Jsonx.GoStr.
Import ListNotations.
Local Open Scope N_scope.

(** ** lexing.Parser *)

Record pstate := mkSt {
  cur : ptok;             (* p.t *)
  rest : list ptok;       (* tokens the tokener has not returned yet *)
  fin : list ecode;       (* lexer error list at EOF *)
  perrs : list ecode;     (* p.errs *)
  jail : bool             (* p.errs.inJail *)
}.

Definition eof_tok (fin : list ecode) : ptok := mkP TEOF [] fin.

Definition p_next (st : pstate) : pstate :=
  match rest st with
  | [] => mkSt (eof_tok (fin st)) [] (fin st) (perrs st) (jail st)
  | t :: r => mkSt t r (fin st) (perrs st) (jail st)
  end.

(** NewParser: reads the first token. *)
Definition p_init (s : pstream) : pstate :=
  p_next (mkSt (eof_tok []) (sbody s) (sfin s) [] false).

Definition p_add (e : ecode) (st : pstate) : pstate :=
  mkSt (cur st) (rest st) (fin st) (add_err (perrs st) e) true.

Definition p_bail (st : pstate) : pstate :=
  mkSt (cur st) (rest st) (fin st) (perrs st) false.

Definition p_see (t : ttype) (st : pstate) : bool := ttype_eqb (pty (cur st)) t.

Definition see_op (ops : list (list N)) (st : pstate) : bool :=
  p_see TOperator st && existsb (lit_is (cur st)) ops.

(** Parser.Errs: the lexer's errors if it has any, else the parser's. *)
Definition p_errs (st : pstate) : list ecode :=
  match pcum (cur st) with
  | [] => perrs st
  | l => l
  end.

(** Parser.Expect: [(accepted?, state)]. *)
Definition p_expect (t : ttype) (st : pstate) : bool * pstate :=
  if jail st then (false, st)
  else if p_see t st then (true, p_next st)
  else (false, p_add EUnexpected st).

(** parser.expectOp *)
Definition expect_op (op : list N) (st : pstate) : bool * pstate :=
  if jail st then (false, st)
  else if see_op [op] st then (true, p_next st)
  else (false, p_add EExpectOp st).

(** Parser.SkipErrStmt(tokSemi), as repaired:
    [for !p.See(sep) && !p.See(EOF) { p.Next() }]. *)
Fixpoint skip_loop (c : ptok) (r : list ptok) (fin : list ecode) : ptok * list ptok :=
  if ttype_eqb (pty c) TSemi || ttype_eqb (pty c) TEOF then (c, r)
  else
    match r with
    | [] => (eof_tok fin, [])
    | t :: r' => skip_loop t r' fin
    end.

Definition skip_err_stmt (st : pstate) : bool * pstate :=
  if negb (jail st) then (false, st)
  else
    let '(c, r) := skip_loop (cur st) (rest st) (fin st) in
    let st1 := mkSt c r (fin st) (perrs st) (jail st) in
    let st2 := if p_see TSemi st1 then p_next st1 else st1 in
    (true, p_bail st2).

(** ** AST (jsonx/value.go).  Only what encodeValue reads is kept. *)

Section WithFloat.
Context {F : Type}.
Variable pf : list N -> option F.

(** A float token's value: [None] stands for the 0 that parseFloatValue
    returns together with an error. *)
Inductive okey :=
| KIdent (lit : list N)                  (* bare key: the identifier *)
| KStr (lit : list N) (bs : list N).     (* quoted key: its unquoted bytes ("" on error) *)

(** [basic] nodes are split by token type; a sign is only ever attached to
    an integer or a float (parseValue). *)
Inductive value :=
| VNil                                   (* Go nil: only on error paths *)
| VNull
| VBool (b : bool)
| VStr (lit : list N) (bs : list N)      (* string token; unquoted bytes ("" on error) *)
| VInt (lead : option (list N)) (lit : list N)
| VFloat (lead : option (list N)) (lit : list N) (f : option F)
| VObject (entries : list (okey * value))
| VList (entries : list value)
| VIdents (ids : list (list N)).

Definition parse_string_value (t : ptok) (st : pstate) : list N * pstate :=
  match go_unquote (plit t) with
  | Some bs => (bs, st)
  | None => ([], p_add EStringLit st)
  end.

Definition parse_float_value (t : ptok) (st : pstate) : option F * pstate :=
  match pf (plit t) with
  | Some f => (Some f, st)
  | None => (None, p_add EFloatLit st)
  end.

Definition lit_true := [116; 114; 117; 101].
Definition lit_false := [102; 97; 108; 115; 101].
Definition lit_null := [110; 117; 108; 108].

(** parseIdentList *)
Fixpoint parse_ident_list (fuel : nat) (st : pstate) (acc : list (list N))
  : option (value * pstate) :=
  match fuel with
  | O => None
  | S f =>
      let t := cur st in
      let '(ok, st1) := p_expect TIdent st in
      if negb ok then Some (VIdents acc, st1)
      else
        let acc' := acc ++ [plit t] in
        if see_op [[46]] st1 then parse_ident_list f (p_next st1) acc'
        else Some (VIdents acc', st1)
  end.

(** The bodies of parseValue, parseObjectEntries and parseListEntries, with
    the recursive calls as parameters (the functions below tie the knot on
    the fuel). *)

Definition pv_body
    (poe : pstate -> list (okey * value) -> option (list (okey * value) * pstate))
    (ple : pstate -> list value -> option (list value * pstate))
    (pil : pstate -> list (list N) -> option (value * pstate))
    (st : pstate) : option (value * pstate) :=
  let t := cur st in
  match pty t with
  | TKeyword =>
      let st1 := p_next st in
      if list_N_eqb (plit t) lit_true then Some (VBool true, st1)
      else if list_N_eqb (plit t) lit_false then Some (VBool false, st1)
      else if list_N_eqb (plit t) lit_null then Some (VNull, st1)
      else Some (VNil, p_add EUnexpectedKeyword st1)
  | TString =>
      let '(bs, st2) := parse_string_value t (p_next st) in
      Some (VStr (plit t) bs, st2)
  | TInt => Some (VInt None (plit t), p_next st)
  | TFloat =>
      let '(fv, st2) := parse_float_value t (p_next st) in
      Some (VFloat None (plit t) fv, st2)
  | TOperator =>
      if lit_is t [43] || lit_is t [45] then
        let st1 := p_next st in
        let n := cur st1 in
        match pty n with
        | TInt => Some (VInt (Some (plit t)) (plit n), p_next st1)
        | TFloat =>
            let '(fv, st2) := parse_float_value n (p_next st1) in
            Some (VFloat (Some (plit t)) (plit n) fv, st2)
        | _ => Some (VNil, p_add EExpectNumber st1)
        end
      else if lit_is t [123] then
        match poe (p_next st) [] with
        | None => None
        | Some (es, st2) => Some (VObject es, snd (expect_op [125] st2))
        end
      else if lit_is t [91] then
        match ple (p_next st) [] with
        | None => None
        | Some (es, st2) => Some (VList es, snd (expect_op [93] st2))
        end
      else Some (VNil, p_add EExpectOperand st)
  | TIdent => pil st []
  | _ => Some (VNil, p_add EExpectOperand st)
  end.

Definition poe_body
    (pv : pstate -> option (value * pstate))
    (poe : pstate -> list (okey * value) -> option (list (okey * value) * pstate))
    (st : pstate) (acc : list (okey * value)) : option (list (okey * value) * pstate) :=
  if see_op [[125]] st then Some (acc, st)
  else if negb (p_see TIdent st || p_see TString st)
  then Some (acc, p_add EExpectObjectEntry st)
  else
    let k := cur st in
    let st1 := p_next st in
    let '(key, st2) :=
      if ttype_eqb (pty k) TString
      then let '(bs, st2) := parse_string_value k st1 in (KStr (plit k) bs, st2)
      else (KIdent (plit k), st1) in
    let st3 := snd (expect_op [58] st2) in
    match pv st3 with
    | None => None
    | Some (v, st4) =>
        let st5 :=
          if see_op [[44]] st4 then p_next st4
          else if negb (see_op [[125]] st4) then snd (expect_op [44] st4)
          else st4 in
        let acc' := acc ++ [(key, v)] in
        if jail st5 then Some (acc', st5)
        else poe st5 acc'
    end.

Definition ple_body
    (pv : pstate -> option (value * pstate))
    (ple : pstate -> list value -> option (list value * pstate))
    (st : pstate) (acc : list value) : option (list value * pstate) :=
  if see_op [[93]] st then Some (acc, st)
  else
    match pv st with
    | None => None
    | Some (v, st1) =>
        let st2 :=
          if see_op [[44]] st1 then p_next st1
          else if negb (see_op [[93]] st1) then snd (expect_op [44] st1)
          else st1 in
        let acc' := acc ++ [v] in
        if jail st2 then Some (acc', st2)
        else ple st2 acc'
    end.

(* The recursive calls are passed eta-expanded so that call-by-value
   evaluation (vm_compute) only unfolds the calls that are made. *)
Fixpoint parse_value (fuel : nat) (st : pstate) {struct fuel} : option (value * pstate) :=
  match fuel with
  | O => None
  | S f => pv_body (fun s a => parse_object_entries f s a) (fun s a => parse_list_entries f s a)
                   (fun s a => parse_ident_list f s a) st
  end

with parse_object_entries (fuel : nat) (st : pstate) (acc : list (okey * value)) {struct fuel}
  : option (list (okey * value) * pstate) :=
  match fuel with
  | O => None
  | S f => poe_body (fun s => parse_value f s) (fun s a => parse_object_entries f s a) st acc
  end

with parse_list_entries (fuel : nat) (st : pstate) (acc : list value) {struct fuel}
  : option (list value * pstate) :=
  match fuel with
  | O => None
  | S f => ple_body (fun s => parse_value f s) (fun s a => parse_list_entries f s a) st acc
  end.

Lemma parse_value_S f st :
  parse_value (S f) st
  = pv_body (parse_object_entries f) (parse_list_entries f) (parse_ident_list f) st.
Proof. reflexivity. Qed.

Lemma parse_object_entries_S f st acc :
  parse_object_entries (S f) st acc
  = poe_body (parse_value f) (parse_object_entries f) st acc.
Proof. reflexivity. Qed.

Lemma parse_list_entries_S f st acc :
  parse_list_entries (S f) st acc
  = ple_body (parse_value f) (parse_list_entries f) st acc.
Proof. reflexivity. Qed.

(** parseTypeName *)
Definition parse_type_name (st : pstate) : option (list N) * pstate :=
  let t := cur st in
  match pty t with
  | TString =>
      let '(bs, st1) := parse_string_value t (p_next st) in
      (Some bs, st1)
  | TIdent => (Some (utf8_encode (plit t)), p_next st)
  | _ => (None, p_add EExpectTypeName st)
  end.

(** parseSeries: entries are (type name as bytes, value). *)
Fixpoint parse_series (fuel : nat) (st : pstate) (acc : list (list N * value))
  : option (list (list N * value) * pstate) :=
  match fuel with
  | O => None
  | S f =>
      if p_see TEOF st then Some (acc, st)
      else
        let '(name, st1) := parse_type_name st in
        match name with
        | None => parse_series f (snd (skip_err_stmt st1)) acc
        | Some nm =>
            match parse_value f st1 with
            | None => None
            | Some (v, st2) =>
                let '(skipped, st3) := skip_err_stmt st2 in
                if skipped then parse_series f st3 acc
                else
                  let st4 := snd (p_expect TSemi st3) in
                  parse_series f (snd (skip_err_stmt st4)) (acc ++ [(nm, v)])
            end
        end
  end.

(** Fuel that always suffices (Jsonx/ParseProofs.v). *)
Definition parse_fuel (st : pstate) : nat := 2 * length (rest st) + 8.

End WithFloat.

Arguments VNil {F}.
Arguments VNull {F}.
Arguments VBool {F} b.
Arguments VStr {F} lit bs.
Arguments VInt {F} lead lit.
Arguments VIdents {F} ids.
