(** Totality of the lexers: every lexer function consumes at least one rune
    and returns a token (never a panic) when called as [Lexer.Token] calls
    it, hence the token loop terminates on every input within
    [S (length input)] iterations. *)
From Coq Require Import List NArith Bool Lia Arith.
From Verif Require Import Lib.Utf8 Jsonx.Lex.
Import ListNotations.
Local Open Scope N_scope.

(** [takes f]: whenever [f] returns a token, the literal is a non-empty
    prefix of the input and the rest is what follows it. *)
Definition takes (r : lexres) (s : list N) : Prop :=
  match r with
  | LTok t _ rest => tlit t ++ rest = s /\ tlit t <> []
  | LPanic _ => True
  end.

Definition no_panic (r : lexres) : Prop :=
  match r with LTok _ _ _ => True | LPanic _ => False end.

Lemma span_app p s : fst (span p s) ++ snd (span p s) = s.
Proof.
  induction s as [|c r IH]; [reflexivity|]. cbn [span].
  destruct (p c); [|reflexivity].
  destruct (span p r) as [a b]. cbn [fst snd] in *. now rewrite <- IH.
Qed.

Lemma span_eq p s a b : span p s = (a, b) -> a ++ b = s.
Proof. intros H. pose proof (span_app p s) as E. now rewrite H in E. Qed.

Lemma drop_while_length p s : (length (drop_while p s) <= length s)%nat.
Proof. induction s as [|c r IH]; cbn; [lia|]. destruct (p c); cbn; lia. Qed.

Lemma drop_while_head p s c r : drop_while p s = c :: r -> p c = false.
Proof.
  induction s as [|x s IH]; cbn; [discriminate|].
  destruct (p x) eqn:E; [exact IH|]. intros H. injection H as <- <-. exact E.
Qed.

(** ** Numbers *)

Lemma lex_number_takes s : takes (lex_number s) s.
Proof.
  unfold lex_number. destruct s as [|start r]; [exact I|].
  destruct (negb (is_digit start)); [exact I|].
  set (hex := match r with
              | 120 :: r2 => if start =? 48 then Some r2 else None
              | _ => None end).
  assert (Hhex : match hex with Some r2 => r = 120 :: r2 | None => True end).
  { subst hex. destruct r as [|x r2]; [exact I|].
    destruct (N.eqb_spec x 120) as [->|Hx].
    - destruct (start =? 48); [reflexivity|exact I].
    - destruct x as [|p]; [exact I|].
      repeat (destruct p as [p|p|]; try exact I). contradiction. }
  destruct hex as [r2|].
  - destruct (span is_hex_digit r2) as [h r3] eqn:Eh. apply span_eq in Eh.
    cbn [takes tlit]. subst r. split; [|discriminate].
    cbn [app]. now rewrite <- Eh.
  - destruct (span is_digit r) as [d1 r1] eqn:E1. apply span_eq in E1.
    set (fr := match r1 with
               | 46 :: r1' => let '(d2, r2) := span is_digit r1' in (true, 46 :: d2, r2)
               | _ => (false, [], r1) end).
    assert (Hfr : snd (fst fr) ++ snd fr = r1).
    { subst fr. destruct r1 as [|x r1']; [reflexivity|].
      destruct (N.eqb_spec x 46) as [->|Hx].
      - destruct (span is_digit r1') as [d2 r2] eqn:E2. apply span_eq in E2.
        cbn [fst snd app]. now rewrite E2.
      - destruct x as [|p]; [reflexivity|].
        repeat (destruct p as [p|p|]; try reflexivity). contradiction. }
    destruct fr as [[fl1 frac] r2]. cbn [fst snd] in Hfr.
    set (ex := match r2 with
               | e :: r2' =>
                   if (e =? 101) || (e =? 69) then
                     let '(sg, r2'') :=
                       match r2' with
                       | c :: r2''' =>
                           if is_digit c || is_exp_sign c then ([c], r2''') else ([], r2')
                       | [] => ([], [])
                       end in
                     let '(d3, r3) := span is_digit r2'' in
                     (true, e :: sg ++ d3, r3)
                   else (false, [], r2)
               | [] => (false, [], [])
               end).
    assert (Hex : snd (fst ex) ++ snd ex = r2).
    { subst ex. destruct r2 as [|e r2']; [reflexivity|].
      destruct ((e =? 101) || (e =? 69)); [|reflexivity].
      set (sgp := match r2' with
                  | c :: r2''' =>
                      if is_digit c || is_exp_sign c then ([c], r2''') else ([], r2')
                  | [] => ([], []) end).
      assert (Hsg : fst sgp ++ snd sgp = r2').
      { subst sgp. destruct r2' as [|c r2''']; [reflexivity|].
        destruct (is_digit c || is_exp_sign c); reflexivity. }
      destruct sgp as [sg r2'']. cbn [fst snd] in Hsg.
      destruct (span is_digit r2'') as [d3 r3] eqn:E3. apply span_eq in E3.
      cbn [fst snd]. cbn [app]. rewrite <- app_assoc, E3, Hsg. reflexivity. }
    destruct ex as [[fl2 exl] r3]. cbn [fst snd] in Hex.
    cbn [takes tlit]. split; [|discriminate].
    cbn [app]. rewrite <- !app_assoc. now rewrite Hex, Hfr, E1.
Qed.

Lemma lex_number_no_panic c r : is_digit c = true -> no_panic (lex_number (c :: r)).
Proof.
  intros H. unfold lex_number. rewrite H. cbn [negb].
  destruct (match r with 120 :: r2 => if c =? 48 then Some r2 else None | _ => None end).
  - destruct (span is_hex_digit l). exact I.
  - destruct (span is_digit r) as [d1 r1].
    destruct (match r1 with
              | 46 :: r1' => let '(d2, r2) := span is_digit r1' in (true, 46 :: d2, r2)
              | _ => (false, [], r1) end) as [[fl1 frac] r2].
    repeat match goal with |- no_panic (match ?X with _ => _ end) => destruct X end.
    exact I.
Qed.

(** ** Identifiers *)

Lemma lex_ident_takes s : takes (lex_ident s) s.
Proof.
  destruct s as [|c r]; [exact I|]. cbn [lex_ident].
  destruct (is_ident_letter c); [|exact I].
  destruct (span is_ident_char r) as [a b] eqn:E. apply span_eq in E.
  cbn. split; [now rewrite E|discriminate].
Qed.

Lemma lex_ident_no_panic c r : is_ident_letter c = true -> no_panic (lex_ident (c :: r)).
Proof. intros H. cbn [lex_ident]. rewrite H. destruct (span is_ident_char r). exact I. Qed.

(** ** Strings *)

Lemma str_go_app q st s : fst (fst (str_go q st s)) ++ snd (fst (str_go q st s)) = s.
Proof.
  revert st. induction s as [|c r IH]; intros st; [reflexivity|].
  cbn [str_go]. destruct (str_act q st c) as [e a].
  destruct a as [st'|[|]].
  - specialize (IH st'). destruct (str_go q st' r) as [[l rest] e2].
    cbn [fst snd] in *. now rewrite <- IH.
  - reflexivity.
  - reflexivity.
Qed.

Lemma lex_string_takes q s : takes (lex_string q s) s.
Proof.
  destruct s as [|c r]; [exact I|]. cbn [lex_string].
  destruct (c =? q); [|exact I].
  pose proof (str_go_app q SNormal r) as H.
  destruct (str_go q SNormal r) as [[l rest] e]. cbn [fst snd] in H.
  cbn. split; [now rewrite H|discriminate].
Qed.

Lemma lex_string_no_panic q r : no_panic (lex_string q (q :: r)).
Proof.
  cbn [lex_string]. rewrite N.eqb_refl. destruct (str_go q SNormal r) as [[l rest] e]. exact I.
Qed.

Lemma raw_go_app s : fst (fst (raw_go s)) ++ snd (fst (raw_go s)) = s.
Proof.
  induction s as [|c r IH]; [reflexivity|]. cbn [raw_go].
  destruct (c =? 96); [reflexivity|].
  destruct (raw_go r) as [[l rest] e]. cbn [fst snd] in *. now rewrite <- IH.
Qed.

Lemma lex_raw_string_takes s : takes (lex_raw_string s) s.
Proof.
  destruct s as [|c r]; [exact I|]. unfold lex_raw_string.
  destruct (N.eqb_spec c 96) as [->|Hc].
  - pose proof (raw_go_app r) as H. destruct (raw_go r) as [[l rest] e].
    cbn [fst snd] in H. cbn. split; [now rewrite H|discriminate].
  - destruct c as [|p]; [exact I|].
    repeat (destruct p as [p|p|]; try exact I). contradiction.
Qed.

Lemma lex_raw_string_no_panic r : no_panic (lex_raw_string (96 :: r)).
Proof. cbn. destruct (raw_go r) as [[l rest] e]. exact I. Qed.

(** ** Comments *)

Lemma block_go_app star s :
  fst (fst (block_go star s)) ++ snd (fst (block_go star s)) = s.
Proof.
  revert star. induction s as [|c r IH]; intros star; [reflexivity|]. cbn [block_go].
  destruct (star && (c =? 47)); [reflexivity|].
  specialize (IH (c =? 42)). destruct (block_go (c =? 42) r) as [[l rest] e].
  cbn [fst snd] in *. now rewrite <- IH.
Qed.

(** ** lexJSONX *)

Lemma lex_jsonx_takes s : takes (lex_jsonx s) s.
Proof.
  destruct s as [|c r]; [exact I|]. cbn [lex_jsonx].
  destruct (is_white c); [exact I|].
  destruct (c =? 10) eqn:E10.
  { apply N.eqb_eq in E10. subst c. cbn. split; [reflexivity|discriminate]. }
  destruct (c =? 34); [apply lex_string_takes|].
  destruct (c =? 96); [apply lex_raw_string_takes|].
  destruct (is_digit c); [apply lex_number_takes|].
  destruct (is_ident_letter c); [apply lex_ident_takes|].
  destruct (is_op_rune c); [cbn; split; [reflexivity|discriminate]|].
  destruct (c =? 47) eqn:E47.
  { apply N.eqb_eq in E47. subst c.
    assert (Hop : takes (LTok (mkTok TOperator [47]) [] r) (47 :: r))
      by (cbn; split; [reflexivity|discriminate]).
    destruct r as [|x r']; [exact Hop|].
    destruct (N.eqb_spec x 47) as [->|H47].
    - cbn [lex_line_comment].
      destruct (span (fun x => negb (x =? 10)) r') as [a b] eqn:E. apply span_eq in E.
      cbn. split; [now rewrite E|discriminate].
    - destruct (N.eqb_spec x 42) as [->|H42].
      + cbn [lex_block_comment]. pose proof (block_go_app false r') as H.
        destruct (block_go false r') as [[l rest] e]. cbn [fst snd] in H.
        cbn. split; [now rewrite H|discriminate].
      + destruct x as [|p]; [exact Hop|].
        repeat (destruct p as [p|p|]; try exact Hop); contradiction. }
  destruct (N.eqb_spec c 59) as [->|]; cbn; (split; [reflexivity|discriminate]).
Qed.

Lemma lex_jsonx_no_panic c r : is_white c = false -> no_panic (lex_jsonx (c :: r)).
Proof.
  intros Hw. cbn [lex_jsonx]. rewrite Hw.
  destruct (c =? 10); [exact I|].
  destruct (c =? 34) eqn:E34.
  { apply N.eqb_eq in E34. subst c. apply lex_string_no_panic. }
  destruct (c =? 96) eqn:E96.
  { apply N.eqb_eq in E96. subst c. apply lex_raw_string_no_panic. }
  destruct (is_digit c) eqn:Ed; [now apply lex_number_no_panic|].
  destruct (is_ident_letter c) eqn:Ei; [now apply lex_ident_no_panic|].
  destruct (is_op_rune c); [exact I|].
  destruct (c =? 47).
  { destruct r as [|x r']; [exact I|].
    destruct (N.eqb_spec x 47) as [->|H47].
    - cbn [lex_line_comment]. destruct (span (fun x => negb (x =? 10)) r'). exact I.
    - destruct (N.eqb_spec x 42) as [->|H42].
      + cbn [lex_block_comment]. destruct (block_go false r') as [[l rest] e]. exact I.
      + destruct x as [|p]; [exact I|].
        repeat (destruct p as [p|p|]; try exact I); contradiction. }
  destruct (c =? 59); exact I.
Qed.

(** ** lexShell *)

Lemma lex_shell_takes s : takes (lex_shell s) s.
Proof.
  destruct s as [|c r]; [exact I|]. cbn [lex_shell].
  destruct (is_white c); [exact I|].
  destruct (c =? 34); [apply lex_string_takes|].
  destruct (is_bare_rune c) eqn:Eb.
  - cbn [lex_bare]. rewrite Eb. destruct (span is_bare_rune r) as [a b] eqn:E.
    apply span_eq in E. cbn. split; [now rewrite E|discriminate].
  - cbn. split; [reflexivity|discriminate].
Qed.

Lemma lex_shell_no_panic c r : is_white c = false -> no_panic (lex_shell (c :: r)).
Proof.
  intros Hw. cbn [lex_shell]. rewrite Hw.
  destruct (c =? 34) eqn:E34.
  { apply N.eqb_eq in E34. subst c. apply lex_string_no_panic. }
  destruct (is_bare_rune c) eqn:Eb; [|exact I].
  cbn [lex_bare]. rewrite Eb. destruct (span is_bare_rune r). exact I.
Qed.

(** ** The token loop *)

Definition good_lexf (lexf : list N -> lexres) (white : N -> bool) : Prop :=
  (forall s, takes (lexf s) s) /\
  (forall c r, white c = false -> no_panic (lexf (c :: r))).

Lemma lex_all_total lexf white :
  good_lexf lexf white ->
  forall fuel s, (length s < fuel)%nat -> exists l, lex_all lexf white fuel s = Ok l.
Proof.
  intros [Ht Hp] fuel. induction fuel as [|f IH]; intros s Hs; [lia|].
  cbn [lex_all]. pose proof (drop_while_length white s) as Hd.
  destruct (drop_while white s) as [|c r] eqn:Ed; [now exists []|].
  pose proof (drop_while_head _ _ _ _ Ed) as Hw.
  pose proof (Hp c r Hw) as Hnp. pose proof (Ht (c :: r)) as Htk.
  destruct (lexf (c :: r)) as [t e rest|w]; [|contradiction].
  cbn [takes] in Htk. destruct Htk as [Happ Hne].
  assert (Hlen : (length rest < f)%nat).
  { assert (length (tlit t ++ rest) = length (c :: r)) by now rewrite Happ.
    rewrite app_length in H. destruct (tlit t); [contradiction|]. cbn [length] in *. lia. }
  destruct (IH rest Hlen) as [l Hl]. rewrite Hl. now exists ((t, e) :: l).
Qed.

Lemma jsonx_good : good_lexf lex_jsonx is_white.
Proof. split; [exact lex_jsonx_takes|exact lex_jsonx_no_panic]. Qed.

Lemma shell_good : good_lexf lex_shell is_white.
Proof. split; [exact lex_shell_takes|exact lex_shell_no_panic]. Qed.

Theorem jsonx_raw_tokens_total s : exists l, jsonx_raw_tokens s = Ok l.
Proof. apply lex_all_total; [exact jsonx_good|unfold lex_fuel; lia]. Qed.

Theorem shell_raw_tokens_total s : exists l, shell_raw_tokens s = Ok l.
Proof. apply lex_all_total; [exact shell_good|unfold lex_fuel; lia]. Qed.

(** No rune is lost or invented: the literals of the tokens, with the white
    space skipped before each, spell the input. *)
Fixpoint spelled (white : N -> bool) (l : list (token * list ecode)) (s : list N) : Prop :=
  match l with
  | [] => drop_while white s = []
  | (t, _) :: l' =>
      exists rest, drop_while white s = tlit t ++ rest /\ tlit t <> [] /\ spelled white l' rest
  end.

Lemma lex_all_spelled lexf white :
  (forall s, takes (lexf s) s) ->
  forall fuel s l, lex_all lexf white fuel s = Ok l -> spelled white l s.
Proof.
  intros Ht fuel. induction fuel as [|f IH]; intros s l H; [discriminate|].
  cbn [lex_all] in H. destruct (drop_while white s) as [|c r] eqn:Ed.
  { injection H as <-. exact Ed. }
  pose proof (Ht (c :: r)) as Htk.
  destruct (lexf (c :: r)) as [t e rest|w]; [|discriminate].
  destruct (lex_all lexf white f rest) as [l'| |] eqn:El; try discriminate.
  injection H as <-. cbn [takes] in Htk. destruct Htk as [Happ Hne].
  cbn [spelled]. exists rest. rewrite Ed. repeat split; auto.
Qed.

(** ** Unterminated constructs are reported *)

(** A string token lexed without error ends with its closing quote. *)
Lemma str_go_closed q st s l rest :
  str_go q st s = (l, rest, []) -> exists l', l = l' ++ [q].
Proof.
  revert st l rest. induction s as [|c r IH]; intros st l rest H.
  - cbn in H. destruct st as [| |[|k] b m v]; try discriminate.
    cbn [str_end_errs] in H. destruct (code_point_errs m v); cbn [app] in H; discriminate.
  - cbn [str_go] in H. destruct (str_act q st c) as [e a] eqn:Ea.
    destruct a as [st'|[|]].
    + destruct (str_go q st' r) as [[l0 rest0] e2] eqn:Eg.
      injection H as <- <- He. apply app_eq_nil in He as [-> ->].
      destruct (IH _ _ _ Eg) as [l' ->]. now exists (c :: l').
    + injection H as <- <- ->. exists [].
      (* AStop true only arises from the closing quote *)
      assert (Hc : c = q).
      { clear -Ea. unfold str_act in Ea.
        assert (Hn : forall e a, normal_act q c = (e, a) -> a = AStop true -> c = q).
        { intros e a Hn Ha. unfold normal_act in Hn.
          destruct (c =? 10); [injection Hn as <- <-; discriminate|].
          destruct (N.eqb_spec c q); [assumption|].
          destruct (c =? 92); injection Hn as <- <-; discriminate. }
        assert (Hd : forall k b m v e a, dig_act q k b m v c = (e, a) -> a = AStop true -> c = q).
        { intros k b m v e a Hd Ha. unfold dig_act in Hd. destruct k.
          - destruct (normal_act q c) as [e2 a2] eqn:En. injection Hd as <- <-.
            eapply Hn; eauto.
          - destruct (b <=? digit_val c).
            + destruct (normal_act q c) as [e2 a2] eqn:En. injection Hd as <- <-.
              eapply Hn; eauto.
            + injection Hd as <- <-. discriminate. }
        destruct st as [| |k b m v].
        - eapply Hn; eauto.
        - unfold esc_act in Ea.
          destruct (is_simple_escape q c); [discriminate|].
          destruct (in_range 48 55 c); [eapply Hd; eauto|].
          destruct (c =? 120); [discriminate|].
          destruct (c =? 117); [discriminate|].
          destruct (c =? 85); [discriminate|].
          destruct (normal_act q c) as [e2 a2] eqn:En. discriminate.
        - eapply Hd; eauto. }
      now subst c.
    + injection H as <- <- ->. exfalso.
      (* AStop false always comes with the "unexpected endl" error *)
      clear -Ea. unfold str_act in Ea.
      assert (Hn : forall e, normal_act q c = (e, AStop false) -> e <> []).
      { intros e Hn. unfold normal_act in Hn.
        destruct (c =? 10); [injection Hn as <-; discriminate|].
        destruct (c =? q); [discriminate|]. destruct (c =? 92); discriminate. }
      assert (Hd : forall k b m v e, dig_act q k b m v c = (e, AStop false) -> e <> []).
      { intros k b m v e Hd. unfold dig_act in Hd. destruct k.
        - destruct (normal_act q c) as [e2 a2] eqn:En. injection Hd as <- ->.
          intros He. apply app_eq_nil in He as [_ ->]. now apply (Hn []).
        - destruct (b <=? digit_val c); [|discriminate].
          destruct (normal_act q c) as [e2 a2]. injection Hd as <- _. discriminate. }
      destruct st as [| |k b m v].
      * exact (Hn _ Ea eq_refl).
      * unfold esc_act in Ea.
        destruct (is_simple_escape q c); [discriminate|].
        destruct (in_range 48 55 c); [exact (Hd _ _ _ _ _ Ea eq_refl)|].
        destruct (c =? 120); [discriminate|]. destruct (c =? 117); [discriminate|].
        destruct (c =? 85); [discriminate|].
        destruct (normal_act q c) as [e2 a2]. discriminate.
      * exact (Hd _ _ _ _ _ Ea eq_refl).
Qed.

Lemma raw_go_closed s l rest : raw_go s = (l, rest, []) -> exists l', l = l' ++ [96].
Proof.
  revert l rest. induction s as [|c r IH]; intros l rest H; [discriminate|].
  cbn [raw_go] in H. destruct (N.eqb_spec c 96) as [->|Hc].
  - injection H as <- <-. now exists [].
  - destruct (raw_go r) as [[l0 rest0] e] eqn:Eg. injection H as <- <- ->.
    destruct (IH _ _ eq_refl) as [l' ->]. now exists (c :: l').
Qed.

Lemma block_go_closed star s l rest :
  block_go star s = (l, rest, []) -> exists l', l = l' ++ [47].
Proof.
  revert star l rest. induction s as [|c r IH]; intros star l rest H; [discriminate|].
  cbn [block_go] in H. destruct (star && (c =? 47)) eqn:E.
  - injection H as <- <-. apply andb_true_iff in E as [_ E]. apply N.eqb_eq in E.
    subst c. now exists [].
  - destruct (block_go (c =? 42) r) as [[l0 rest0] e] eqn:Eg. injection H as <- <- ->.
    destruct (IH _ _ _ Eg) as [l' ->]. now exists (c :: l').
Qed.

(** A string, raw string or block comment that reaches the end of the input
    without its terminator carries an error. *)
Theorem unterminated_string_reported q body :
  (forall l', fst (fst (str_go q SNormal body)) <> l' ++ [q]) ->
  snd (str_go q SNormal body) <> [].
Proof.
  intros H He. destruct (str_go q SNormal body) as [[l rest] e] eqn:E.
  cbn [fst snd] in *. subst e. destruct (str_go_closed _ _ _ _ _ E) as [l' ->].
  now apply (H l').
Qed.

Theorem unterminated_raw_string_reported body :
  (forall l', fst (fst (raw_go body)) <> l' ++ [96]) -> snd (raw_go body) <> [].
Proof.
  intros H He. destruct (raw_go body) as [[l rest] e] eqn:E.
  cbn [fst snd] in *. subst e. destruct (raw_go_closed _ _ _ E) as [l' ->].
  now apply (H l').
Qed.

Theorem unterminated_comment_reported body :
  (forall l', fst (fst (block_go false body)) <> l' ++ [47]) ->
  snd (block_go false body) <> [].
Proof.
  intros H He. destruct (block_go false body) as [[l rest] e] eqn:E.
  cbn [fst snd] in *. subst e. destruct (block_go_closed _ _ _ _ E) as [l' ->].
  now apply (H l').
Qed.

(** ** Token types: the lexer functions never make an EOF token (only
    [Lexer.Token] does, at the end of the input). *)

Definition not_eof_res (r : lexres) : Prop :=
  match r with LTok t _ _ => tty t <> TEOF | LPanic _ => True end.

Lemma lex_number_not_eof s : not_eof_res (lex_number s).
Proof.
  unfold lex_number. destruct s as [|c r]; [exact I|].
  destruct (negb (is_digit c)); [exact I|].
  destruct (match r with 120 :: r2 => if c =? 48 then Some r2 else None | _ => None end).
  - destruct (span is_hex_digit l). cbn. discriminate.
  - destruct (span is_digit r) as [d1 r1].
    destruct (match r1 with
              | 46 :: r1' => let '(d2, r2) := span is_digit r1' in (true, 46 :: d2, r2)
              | _ => (false, [], r1) end) as [[fl1 frac] r2].
    repeat match goal with |- not_eof_res (match ?X with _ => _ end) => destruct X end.
    cbn. destruct (fl1 || _); discriminate.
Qed.

Lemma lex_string_not_eof q s : not_eof_res (lex_string q s).
Proof.
  destruct s as [|c r]; [exact I|]. cbn [lex_string]. destruct (c =? q); [|exact I].
  destruct (str_go q SNormal r) as [[l rest] e]. cbn. discriminate.
Qed.

Lemma lex_jsonx_not_eof s : not_eof_res (lex_jsonx s).
Proof.
  destruct s as [|c r]; [exact I|]. cbn [lex_jsonx].
  destruct (is_white c); [exact I|].
  destruct (c =? 10); [cbn; discriminate|].
  destruct (c =? 34); [apply lex_string_not_eof|].
  destruct (c =? 96).
  { unfold lex_raw_string. destruct c as [|p]; [exact I|].
    repeat (destruct p as [p|p|]; try exact I).
    destruct (raw_go r) as [[l rest] e]. cbn. discriminate. }
  destruct (is_digit c); [apply lex_number_not_eof|].
  destruct (is_ident_letter c) eqn:Ei.
  { cbn [lex_ident]. rewrite Ei. destruct (span is_ident_char r). cbn. discriminate. }
  destruct (is_op_rune c); [cbn; discriminate|].
  destruct (c =? 47).
  { destruct r as [|x r']; [cbn; discriminate|].
    destruct (N.eqb_spec x 47) as [->|H47].
    - cbn [lex_line_comment]. destruct (span (fun x => negb (x =? 10)) r'). cbn. discriminate.
    - destruct (N.eqb_spec x 42) as [->|H42].
      + cbn [lex_block_comment]. destruct (block_go false r') as [[l rest] e]. cbn. discriminate.
      + destruct x as [|p]; [cbn; discriminate|].
        repeat (destruct p as [p|p|]; try (cbn; discriminate)); contradiction. }
  destruct (c =? 59); cbn; discriminate.
Qed.

Lemma lex_all_not_eof lexf white :
  (forall s, not_eof_res (lexf s)) ->
  forall fuel s l, lex_all lexf white fuel s = Ok l ->
  Forall (fun te => tty (fst te) <> TEOF) l.
Proof.
  intros Hl fuel. induction fuel as [|f IH]; intros s l H; [discriminate|].
  cbn [lex_all] in H. destruct (drop_while white s) as [|c r].
  { injection H as <-. constructor. }
  pose proof (Hl (c :: r)) as Hc.
  destruct (lexf (c :: r)) as [t e rest|w]; [|discriminate].
  destruct (lex_all lexf white f rest) as [l'| |] eqn:El; try discriminate.
  injection H as <-. constructor; [exact Hc|]. eapply IH; eauto.
Qed.
