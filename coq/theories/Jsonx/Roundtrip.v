(** C07: Unmarshal (Marshal v) is JSON-equal to v, for every value.

    Step 1 (this part): the text the printer writes is lexed into the token
    list [rt v], compositionally: a printed value followed by "," or a line
    end lexes to its tokens followed by the tokens of what follows. *)
From Coq Require Import List NArith ZArith Bool Lia.
From Verif Require Import Lib.Utf8 Jsonx.Lex Jsonx.LexProofs Jsonx.Tok Jsonx.GoStr Jsonx.Num
  Jsonx.NumProofs Jsonx.Parse Jsonx.ParseProofs Jsonx.Print Jsonx.PrintProofs.
Import ListNotations.
Local Open Scope N_scope.

(** ** Lexing as a relation (any sufficient fuel) *)

Definition L (s : list N) (l : list (token * list ecode)) : Prop :=
  exists f, lex_all lex_jsonx is_white f s = Ok l.

Lemma lex_all_mono lexf white : forall f s l,
  lex_all lexf white f s = Ok l -> forall f', (f <= f')%nat -> lex_all lexf white f' s = Ok l.
Proof.
  induction f as [|f IH]; intros s l H f' Hf; [discriminate|].
  destruct f' as [|f']; [lia|]. cbn [lex_all] in *.
  destruct (drop_while white s) as [|c r]; [exact H|].
  destruct (lexf (c :: r)) as [t e rest|w]; [|exact H].
  destruct (lex_all lexf white f rest) as [l'| |] eqn:E; try discriminate.
  rewrite (IH _ _ E f' ltac:(lia)). exact H.
Qed.

Lemma L_raw s l : L s l -> jsonx_raw_tokens s = Ok l.
Proof.
  intros [f H]. destruct (jsonx_raw_tokens_total s) as [l' H'].
  unfold jsonx_raw_tokens in *.
  pose proof (lex_all_mono _ _ _ _ _ H (max f (lex_fuel s)) ltac:(lia)) as H1.
  pose proof (lex_all_mono _ _ _ _ _ H' (max f (lex_fuel s)) ltac:(lia)) as H2.
  congruence.
Qed.

Lemma L_nil : L [] [].
Proof. exists 1%nat. reflexivity. Qed.

Lemma L_white c s l : is_white c = true -> L s l -> L (c :: s) l.
Proof.
  intros Hw [f H]. exists f. destruct f as [|f]; [discriminate|].
  cbn [lex_all drop_while] in *. now rewrite Hw.
Qed.

Lemma L_whites ws s l : forallb is_white ws = true -> L s l -> L (ws ++ s) l.
Proof.
  induction ws as [|c ws IH]; intros Hw H; [exact H|].
  cbn [forallb] in Hw. apply andb_true_iff in Hw as [Hc Hws].
  cbn [app]. apply L_white; auto.
Qed.

Lemma L_tok c r t e rest l :
  is_white c = false -> lex_jsonx (c :: r) = LTok t e rest -> L rest l ->
  L (c :: r) ((t, e) :: l).
Proof.
  intros Hw Hl [f H]. exists (S f). cbn [lex_all drop_while]. rewrite Hw, Hl, H. reflexivity.
Qed.

Definition tk (ty : ttype) (lit : list N) : token * list ecode := (mkTok ty lit, []).

Lemma L_op c s l : is_op_rune c = true -> L s l -> L (c :: s) (tk TOperator [c] :: l).
Proof.
  intros Hop H. eapply L_tok; [| |exact H].
  - unfold is_op_rune, op_runes in Hop. cbn [existsb] in Hop. unfold is_white.
    repeat (apply orb_true_iff in Hop as [Hop|Hop]; [apply N.eqb_eq in Hop; subst; reflexivity|]).
    discriminate.
  - assert (Hc : is_white c = false /\ (c =? 10) = false /\ (c =? 34) = false /\ (c =? 96) = false /\
                 is_digit c = false /\ is_ident_letter c = false).
    { unfold is_op_rune, op_runes in Hop. cbn [existsb] in Hop.
      repeat (apply orb_true_iff in Hop as [Hop|Hop];
              [apply N.eqb_eq in Hop; subst; repeat split; reflexivity|]).
      discriminate. }
    destruct Hc as (H1 & H2 & H3 & H4 & H5 & H6).
    cbn [lex_jsonx]. now rewrite H1, H2, H3, H4, H5, H6, Hop.
Qed.

Lemma L_endl s l : L s l -> L (10 :: s) (tk TEndl [10] :: l).
Proof. intros H. eapply L_tok; [reflexivity|reflexivity|exact H]. Qed.

(** ** The printer's input *)

Fixpoint wfpb (v : pvalue) : bool :=
  match v with
  | PNull | PBool _ => true
  | PNum t => is_json_number t
  | PStr s => forallb valid_rune s
  | PArr l => forallb wfpb l
  | PObj l => forallb (fun kv => forallb valid_rune (fst kv) && wfpb (snd kv)) l
  end.

Lemma pvalue_ind' (P : pvalue -> Prop) :
  P PNull -> (forall b, P (PBool b)) -> (forall t, P (PNum t)) -> (forall s, P (PStr s)) ->
  (forall l, Forall P l -> P (PArr l)) ->
  (forall l, Forall (fun kv => P (snd kv)) l -> P (PObj l)) ->
  forall v, P v.
Proof.
  intros H1 H2 H3 H4 H5 H6. fix IH 1. intros v. destruct v.
  - exact H1. - apply H2. - apply H3. - apply H4.
  - apply H5. induction l as [|x l IHl]; constructor; [apply IH|exact IHl].
  - apply H6. induction l as [|[k x] l IHl]; constructor; [apply IH|exact IHl].
Qed.

(** Sorting by key commutes with mapping the values. *)
Lemma insert_key_map {A B} (f : A -> B) k x (l : list (list N * A)) :
  insert_key (k, f x) (map (fun kv => (fst kv, f (snd kv))) l)
  = map (fun kv => (fst kv, f (snd kv))) (insert_key (k, x) l).
Proof.
  induction l as [|[k' x'] l IH]; cbn [insert_key map fst snd]; [reflexivity|].
  destruct (runes_ltb k' k); cbn [map fst snd]; [now rewrite IH|reflexivity].
Qed.

Lemma sort_keys_map {A B} (f : A -> B) (l : list (list N * A)) :
  sort_keys (map (fun kv => (fst kv, f (snd kv))) l)
  = map (fun kv => (fst kv, f (snd kv))) (sort_keys l).
Proof.
  unfold sort_keys. induction l as [|[k x] l IH]; cbn [map fold_right fst snd]; [reflexivity|].
  now rewrite IH, insert_key_map.
Qed.

Lemma Forall_insert_key {A} (P : list N * A -> Prop) k l :
  P k -> Forall P l -> Forall P (insert_key k l).
Proof.
  intros Hk. induction 1 as [|h t Hh Ht IH]; cbn [insert_key]; [now repeat constructor|].
  destruct (runes_ltb (fst h) (fst k)); constructor; auto.
Qed.

Lemma Forall_sort_keys {A} (P : list N * A -> Prop) l : Forall P l -> Forall P (sort_keys l).
Proof.
  unfold sort_keys. induction 1 as [|h t Hh Ht IH]; cbn [fold_right]; [constructor|].
  now apply Forall_insert_key.
Qed.

Lemma forallb_sort_keys {A} (p : list N * A -> bool) l :
  forallb p l = true -> forallb p (sort_keys l) = true.
Proof.
  rewrite !forallb_forall. intros H x Hx.
  assert (HF : Forall (fun y => p y = true) (sort_keys l)).
  { apply Forall_sort_keys. apply Forall_forall. exact H. }
  rewrite Forall_forall in HF. now apply HF.
Qed.

Section Printer.
Variable is_print : N -> bool.
Hypothesis newline_not_printable : is_print 10 = false.

(** print_value with the object case as a flat_map over the sorted members. *)
Lemma print_obj d l : l <> [] ->
  print_value is_print d (PObj l) =
  let bare := forallb (fun kv => is_ident_key (fst kv)) l in
  [123; 10]
    ++ flat_map (fun kv : list N * pvalue =>
                   indent (S d)
                     ++ (if bare then fst kv else go_quote is_print (fst kv))
                     ++ [58; 32] ++ print_value is_print (S d) (snd kv) ++ [44; 10])
         (sort_keys l)
    ++ indent d ++ [125].
Proof.
  intros Hne. destruct l as [|m l']; [contradiction|]. cbn [print_value]. cbv zeta.
  f_equal. f_equal.
  replace (map (fun kv : list N * pvalue => let '(k, x) := kv in (k, print_value is_print (S d) x)) (m :: l'))
    with (map (fun kv : list N * pvalue => (fst kv, print_value is_print (S d) (snd kv))) (m :: l'))
    by (apply map_ext; intros [k x]; reflexivity).
  rewrite (sort_keys_map (print_value is_print (S d))).
  generalize (sort_keys (m :: l')). intros sl.
  induction sl as [|[k x] sl IH]; cbn [map flat_map fst snd]; [reflexivity|]. now rewrite IH.
Qed.

(** ** Raw tokens of a printed value (line ends included) *)

Definition num_is_float (u : list N) : bool :=
  existsb (fun c => (c =? 46) || (c =? 101) || (c =? 69)) u.

Definition num_toks (t : list N) : list (token * list ecode) :=
  match t with
  | 45 :: u => [tk TOperator [45]; tk (if num_is_float u then TFloat else TInt) u]
  | u => [tk (if num_is_float u then TFloat else TInt) u]
  end.

Lemma num_toks_other c r : c <> 45 ->
  num_toks (c :: r) = [tk (if num_is_float (c :: r) then TFloat else TInt) (c :: r)].
Proof.
  intros Hc. unfold num_toks. destruct c as [|p]; [reflexivity|].
  repeat (destruct p as [p|p|]; try reflexivity). contradiction.
Qed.

Definition key_tok (bare : bool) (k : list N) : token * list ecode :=
  if bare then tk TIdent k else tk TString (go_quote is_print k).

Fixpoint rt (v : pvalue) : list (token * list ecode) :=
  match v with
  | PNull => [tk TIdent lit_null]
  | PBool b => [tk TIdent (if b then lit_true else lit_false)]
  | PNum t => num_toks t
  | PStr s => [tk TString (go_quote is_print s)]
  | PArr [] => [tk TOperator [91]; tk TOperator [93]]
  | PArr l =>
      tk TOperator [91] :: tk TEndl [10]
        :: flat_map (fun x => rt x ++ [tk TOperator [44]; tk TEndl [10]]) l
        ++ [tk TOperator [93]]
  | PObj [] => [tk TOperator [123]; tk TOperator [125]]
  | PObj l =>
      let bare := forallb (fun kv => is_ident_key (fst kv)) l in
      tk TOperator [123] :: tk TEndl [10]
        :: flat_map (fun kt : list N * list (token * list ecode) =>
                       key_tok bare (fst kt) :: tk TOperator [58] :: snd kt
                         ++ [tk TOperator [44]; tk TEndl [10]])
             (sort_keys (map (fun kv => let '(k, x) := kv in (k, rt x)) l))
        ++ [tk TOperator [125]]
  end.

Lemma rt_obj l : l <> [] ->
  rt (PObj l) =
  let bare := forallb (fun kv => is_ident_key (fst kv)) l in
  tk TOperator [123] :: tk TEndl [10]
    :: flat_map (fun kv : list N * pvalue =>
                   key_tok bare (fst kv) :: tk TOperator [58] :: rt (snd kv)
                     ++ [tk TOperator [44]; tk TEndl [10]])
         (sort_keys l)
    ++ [tk TOperator [125]].
Proof.
  intros Hne. destruct l as [|m l']; [contradiction|]. cbn [rt]. cbv zeta.
  f_equal. f_equal. f_equal.
  replace (map (fun kv : list N * pvalue => let '(k, x) := kv in (k, rt x)) (m :: l'))
    with (map (fun kv : list N * pvalue => (fst kv, rt (snd kv))) (m :: l'))
    by (apply map_ext; intros [k x]; reflexivity).
  rewrite (sort_keys_map rt).
  generalize (sort_keys (m :: l')). intros sl.
  induction sl as [|[k x] sl IH]; cbn [map flat_map fst snd]; [reflexivity|]. now rewrite IH.
Qed.

(** What may follow a printed value. *)
Definition delim_tail (s : list N) : Prop := exists r, s = 44 :: r \/ s = 10 :: r.

Lemma indent_white d : forallb is_white (indent d) = true.
Proof. induction d as [|d IH]; [reflexivity|]. cbn [indent app forallb]. exact IH. Qed.

Lemma lex_num_stop_delim s : delim_tail s -> exists d r, s = d :: r /\ lex_num_stop d = true.
Proof. intros [r [->| ->]]; eexists _, _; split; reflexivity. Qed.

Lemma num_is_float_parts ip fp ep :
  int_part ip -> frac_part fp -> exp_part ep ->
  num_is_float (ip ++ fp ++ ep) = is_float_lit fp ep.
Proof.
  intros Hi Hf He. unfold num_is_float. rewrite !existsb_app.
  assert (Hds : forall l, ds l -> existsb (fun c => (c =? 46) || (c =? 101) || (c =? 69)) l = false).
  { induction 1 as [|c l Hc Hl IH]; [reflexivity|]. cbn [existsb]. rewrite IH.
    unfold is_digit, in_range in Hc. destruct (N.eqb_spec c 46), (N.eqb_spec c 101), (N.eqb_spec c 69);
      try reflexivity; subst; discriminate. }
  assert (Hip : existsb (fun c => (c =? 46) || (c =? 101) || (c =? 69)) ip = false).
  { destruct Hi as [->|(c & l & -> & Hc & _ & Hl)]; [reflexivity|].
    apply (Hds (c :: l)). now constructor. }
  rewrite Hip. cbn [orb].
  destruct Hf as [->|(l & -> & _ & _)].
  - cbn [existsb orb]. destruct He as [->|(e & sg & l & -> & Hee & _)]; [reflexivity|].
    cbn [existsb is_float_lit]. destruct Hee as [->| ->]; reflexivity.
  - reflexivity.
Qed.

Lemma L_unsigned u s l :
  nscan NNeg u = Some (u, []) -> delim_tail s -> L s l ->
  L (u ++ s) (tk (if num_is_float u then TFloat else TInt) u :: l).
Proof.
  intros Hu Hs Hl. destruct (unsigned_json_number_parts u Hu) as (ip & fp & ep & -> & Hi & Hf & He).
  destruct (lex_num_stop_delim s Hs) as (d & r & -> & Hd).
  pose proof (lex_number_json ip fp ep d r Hi Hf He Hd) as Hlex.
  rewrite (num_is_float_parts ip fp ep Hi Hf He).
  assert (Hhead : exists c r0, ip ++ fp ++ ep ++ d :: r = c :: r0 /\ is_digit c = true).
  { destruct Hi as [->|(c & l0 & -> & Hc & _)]; eexists _, _; (split; [reflexivity|]); auto. }
  destruct Hhead as (c & r0 & E & Hc).
  replace ((ip ++ fp ++ ep) ++ d :: r) with (c :: r0) by (rewrite <- E, <- !app_assoc; reflexivity).
  eapply L_tok; [| |exact Hl].
  - unfold is_white, is_digit, in_range in *. lia.
  - cbn [lex_jsonx].
    assert (Hw : is_white c = false /\ (c =? 10) = false /\ (c =? 34) = false /\ (c =? 96) = false).
    { unfold is_white, is_digit, in_range in *. lia. }
    destruct Hw as (H1 & H2 & H3 & H4). rewrite H1, H2, H3, H4, Hc. rewrite <- E. exact Hlex.
Qed.

Lemma nscan_start_cases t : is_json_number t = true ->
  (exists u, t = 45 :: u /\ nscan NNeg u = Some (u, [])) \/
  ((forall u, t <> 45 :: u) /\ nscan NNeg t = Some (t, [])).
Proof.
  intros H. apply is_json_number_scan in H. unfold scan_json_number in H.
  destruct t as [|c r]; [discriminate|].
  destruct (N.eqb_spec c 45) as [->|Hc].
  - left. exists r. split; [reflexivity|]. rewrite nscan_minus in H.
    destruct (nscan NNeg r) as [[t' r']|]; [|discriminate]. now injection H as -> ->.
  - right. split; [intros u E; injection E as E _; contradiction|].
    cbn [nscan] in *. unfold nstep in *. now replace (c =? 45) with false in H by lia.
Qed.

Lemma L_num t s l :
  is_json_number t = true -> delim_tail s -> L s l -> L (t ++ s) (num_toks t ++ l).
Proof.
  intros Ht Hs Hl. destruct (nscan_start_cases t Ht) as [(u & -> & Hu)|[Hn Hu]].
  - cbn [num_toks app]. apply L_op; [reflexivity|]. now apply L_unsigned.
  - assert (E : num_toks t = [tk (if num_is_float t then TFloat else TInt) t]).
    { unfold num_toks. destruct t as [|c r]; [reflexivity|].
      destruct c as [|p]; [reflexivity|].
      repeat (destruct p as [p|p|]; try reflexivity). exfalso. now apply (Hn r). }
    rewrite E. cbn [app]. now apply L_unsigned.
Qed.

Lemma L_ident k s l :
  (exists c r, k = c :: r /\ is_ident_letter c = true /\ forallb is_ident_char r = true) ->
  (exists d r, s = d :: r /\ is_ident_char d = false) -> L s l ->
  L (k ++ s) (tk TIdent k :: l).
Proof.
  intros (c & r & -> & Hc & Hr) (d & r' & -> & Hd) Hl. cbn [app].
  assert (Hspan : span is_ident_char (r ++ d :: r') = (r, d :: r')).
  { clear -Hr Hd. induction r as [|x r IH]; cbn [app span]; [now rewrite Hd|].
    cbn [forallb] in Hr. apply andb_true_iff in Hr as [Hx Hr]. now rewrite Hx, (IH Hr). }
  assert (Hw : is_white c = false /\ (c =? 10) = false /\ (c =? 34) = false /\ (c =? 96) = false /\
               is_digit c = false).
  { unfold is_ident_letter, is_letter, is_white, is_digit, in_range in *. lia. }
  destruct Hw as (H1 & H2 & H3 & H4 & H5).
  eapply L_tok; [exact H1| |exact Hl].
  cbn [lex_jsonx]. rewrite H1, H2, H3, H4, H5, Hc. cbn [lex_ident]. now rewrite Hc, Hspan.
Qed.

Lemma L_string rs s l :
  forallb valid_rune rs = true -> L s l ->
  L (go_quote is_print rs ++ s) (tk TString (go_quote is_print rs) :: l).
Proof.
  intros Hv Hl. pose proof (go_quote_lexes is_print newline_not_printable rs s Hv) as H.
  unfold go_quote in *. cbn [app] in *. eapply L_tok; [reflexivity| |exact Hl].
  cbn [lex_jsonx is_white N.eqb Pos.eqb orb]. exact H.
Qed.

Lemma delim_not_ident s : delim_tail s -> exists d r, s = d :: r /\ is_ident_char d = false.
Proof. intros [r [->| ->]]; eexists _, _; split; reflexivity. Qed.

Lemma is_ident_key_shape k : is_ident_key k = true ->
  exists c r, k = c :: r /\ is_ident_letter c = true /\ forallb is_ident_char r = true.
Proof.
  unfold is_ident_key. destruct k as [|c r]; [discriminate|]. intros H.
  apply andb_true_iff in H as [H Hr]. apply andb_true_iff in H as [_ Hc].
  exists c, r. split; [reflexivity|]. split; [exact Hc|].
  rewrite forallb_forall in *. intros x Hx. specialize (Hr x Hx).
  unfold is_ident_char, is_ident_letter. exact Hr.
Qed.

(** Step 1: the printed text lexes to [rt v]. *)
Theorem print_lexes : forall v, wfpb v = true ->
  forall d s l, delim_tail s -> L s l -> L (print_value is_print d v ++ s) (rt v ++ l).
Proof.
  induction v as [|b|t|rs|vs IH|ms IH] using pvalue_ind'; intros Hw d s l Hs Hl.
  - cbn [print_value rt app]. apply (L_ident lit_null s l); [|now apply delim_not_ident|exact Hl].
    eexists _, _. split; [reflexivity|]. split; reflexivity.
  - cbn [rt app]. destruct b; cbn [print_value].
    + apply (L_ident lit_true s l); [|now apply delim_not_ident|exact Hl].
      eexists _, _. split; [reflexivity|]. split; reflexivity.
    + apply (L_ident lit_false s l); [|now apply delim_not_ident|exact Hl].
      eexists _, _. split; [reflexivity|]. split; reflexivity.
  - cbn [print_value rt wfpb] in *. now apply L_num.
  - cbn [print_value rt wfpb app] in *. now apply L_string.
  - (* array *)
    destruct vs as [|v0 vs'].
    { cbn [print_value rt app]. apply L_op; [reflexivity|]. apply L_op; [reflexivity|exact Hl]. }
    set (vs := v0 :: vs') in *.
    assert (Hp : print_value is_print d (PArr vs) =
                 [91; 10] ++ flat_map (fun x => indent (S d) ++ print_value is_print (S d) x ++ [44; 10]) vs
                   ++ indent d ++ [93]) by reflexivity.
    assert (Hr : rt (PArr vs) =
                 tk TOperator [91] :: tk TEndl [10]
                   :: flat_map (fun x => rt x ++ [tk TOperator [44]; tk TEndl [10]]) vs
                   ++ [tk TOperator [93]]) by reflexivity.
    rewrite Hp, Hr. clear Hp Hr. cbn [wfpb] in Hw. clearbody vs.
    cbn [app]. apply L_op; [reflexivity|]. apply L_endl.
    rewrite <- !app_assoc.
    assert (Hend : L (indent d ++ [93] ++ s) ([tk TOperator [93]] ++ l)).
    { apply L_whites; [apply indent_white|]. cbn [app]. apply L_op; [reflexivity|exact Hl]. }
    revert Hend. generalize (indent d ++ [93] ++ s) ([tk TOperator [93]] ++ l). intros s' l' Hend.
    induction IH as [|x xs Hx Hxs IHxs]; cbn [flat_map app]; [exact Hend|].
    cbn [forallb] in Hw. apply andb_true_iff in Hw as [Hwx Hwxs].
    rewrite <- !app_assoc. apply L_whites; [apply indent_white|].
    apply (Hx Hwx); [eexists; left; reflexivity|].
    cbn [app]. apply L_op; [reflexivity|]. apply L_endl. now apply IHxs.
  - (* object *)
    destruct ms as [|m0 ms'].
    { cbn [print_value rt app]. apply L_op; [reflexivity|]. apply L_op; [reflexivity|exact Hl]. }
    set (ms := m0 :: ms') in *.
    rewrite (print_obj d ms ltac:(discriminate)), (rt_obj ms ltac:(discriminate)). cbv zeta.
    set (bare := forallb (fun kv => is_ident_key (fst kv)) ms).
    assert (Hbare : bare = true -> Forall (fun kv : list N * pvalue => is_ident_key (fst kv) = true) (sort_keys ms)).
    { intros Hb. apply Forall_sort_keys. apply Forall_forall. subst bare.
      rewrite forallb_forall in Hb. exact Hb. }
    cbn [wfpb] in Hw. apply forallb_sort_keys in Hw. apply Forall_sort_keys in IH.
    clearbody bare. remember (sort_keys ms) as sm eqn:Esm. clear Esm.
    cbn [app]. apply L_op; [reflexivity|]. apply L_endl.
    rewrite <- !app_assoc.
    assert (Hend : L (indent d ++ [125] ++ s) ([tk TOperator [125]] ++ l)).
    { apply L_whites; [apply indent_white|]. cbn [app]. apply L_op; [reflexivity|exact Hl]. }
    revert Hend. generalize (indent d ++ [125] ++ s) ([tk TOperator [125]] ++ l). intros s' l' Hend.
    induction IH as [|[k x] xs Hx Hxs IHxs]; cbn [flat_map app]; [exact Hend|].
    cbn [forallb fst snd] in *. apply andb_true_iff in Hw as [Hwx Hwxs].
    apply andb_true_iff in Hwx as [Hk Hwx].
    rewrite <- !app_assoc. apply L_whites; [apply indent_white|].
    assert (Hval : L (print_value is_print (S d) x ++ [44; 10] ++ flat_map
                 (fun kv : list N * pvalue =>
                  indent (S d) ++ (if bare then fst kv else go_quote is_print (fst kv)) ++
                  [58; 32] ++ print_value is_print (S d) (snd kv) ++ [44; 10]) xs ++ s')
              (rt x ++ [tk TOperator [44]; tk TEndl [10]] ++ flat_map
                 (fun kv : list N * pvalue =>
                  key_tok bare (fst kv) :: tk TOperator [58] :: rt (snd kv) ++
                  [tk TOperator [44]; tk TEndl [10]]) xs ++ l')).
    { apply (Hx Hwx); [eexists; left; reflexivity|].
      cbn [app]. apply L_op; [reflexivity|]. apply L_endl.
      apply IHxs; [exact Hwxs|].
      intros Hb. specialize (Hbare Hb). now inversion Hbare. }
    assert (Hcolon : forall kk, L (kk ++ [58; 32] ++ print_value is_print (S d) x ++ [44; 10] ++ flat_map
                 (fun kv : list N * pvalue =>
                  indent (S d) ++ (if bare then fst kv else go_quote is_print (fst kv)) ++
                  [58; 32] ++ print_value is_print (S d) (snd kv) ++ [44; 10]) xs ++ s')
               (key_tok bare k :: tk TOperator [58] :: rt x ++ [tk TOperator [44]; tk TEndl [10]] ++ flat_map
                 (fun kv : list N * pvalue =>
                  key_tok bare (fst kv) :: tk TOperator [58] :: rt (snd kv) ++
                  [tk TOperator [44]; tk TEndl [10]]) xs ++ l') ->
             True) by auto.
    clear Hcolon.
    unfold key_tok in Hval |- *. destruct bare eqn:Eb.
    + specialize (Hbare eq_refl). inversion Hbare as [|? ? Hik _]; subst. cbn [fst] in Hik.
      apply (L_ident k); [now apply is_ident_key_shape|eexists _, _; split; reflexivity|].
      cbn [app]. apply L_op; [reflexivity|]. apply L_white; [reflexivity|].
      rewrite <- ?app_assoc. cbn [app] in Hval |- *. exact Hval.
    + apply L_string; [exact Hk|].
      cbn [app]. apply L_op; [reflexivity|]. apply L_white; [reflexivity|].
      rewrite <- ?app_assoc. cbn [app] in Hval |- *. exact Hval.
Qed.

End Printer.

(** ** Step 2: the token filters.  Line ends inside a printed value always
    follow "[", "{" or ",", so the semicolon inserter drops them; the value
    ends with a token after which a line end becomes a separator. *)

Definition pt (acc : list ecode) (te : token * list ecode) : ptok :=
  mkP (tty (fst te)) (tlit (fst te)) acc.

Definition mkp (acc : list ecode) (tl : ttype * list N) : ptok := mkP (fst tl) (snd tl) acc.

Section Filters.
Variable is_print : N -> bool.

Definition num_ft (t : list N) : list (ttype * list N) :=
  match t with
  | 45 :: u => [(TOperator, [45]); (if num_is_float u then TFloat else TInt, u)]
  | u => [(if num_is_float u then TFloat else TInt, u)]
  end.

Lemma num_ft_other c r : c <> 45 ->
  num_ft (c :: r) = [(if num_is_float (c :: r) then TFloat else TInt, c :: r)].
Proof.
  intros Hc. unfold num_ft. destruct c as [|p]; [reflexivity|].
  repeat (destruct p as [p|p|]; try reflexivity). contradiction.
Qed.

Definition key_ft (bare : bool) (k : list N) : ttype * list N :=
  if bare then (TIdent, k) else (TString, go_quote is_print k).

(** Tokens the parser receives for a printed value. *)
Fixpoint ft (v : pvalue) : list (ttype * list N) :=
  match v with
  | PNull => [(TKeyword, lit_null)]
  | PBool b => [(TKeyword, if b then lit_true else lit_false)]
  | PNum t => num_ft t
  | PStr s => [(TString, go_quote is_print s)]
  | PArr [] => [(TOperator, [91]); (TOperator, [93])]
  | PArr l =>
      (TOperator, [91]) :: flat_map (fun x => ft x ++ [(TOperator, [44])]) l
        ++ [(TOperator, [93])]
  | PObj [] => [(TOperator, [123]); (TOperator, [125])]
  | PObj l =>
      let bare := forallb (fun kv => is_ident_key (fst kv)) l in
      (TOperator, [123])
        :: flat_map (fun kt : list N * list (ttype * list N) =>
                       key_ft bare (fst kt) :: (TOperator, [58]) :: snd kt ++ [(TOperator, [44])])
             (sort_keys (map (fun kv => let '(k, x) := kv in (k, ft x)) l))
        ++ [(TOperator, [125])]
  end.

Lemma ft_obj l : l <> [] ->
  ft (PObj l) =
  let bare := forallb (fun kv => is_ident_key (fst kv)) l in
  (TOperator, [123])
    :: flat_map (fun kv : list N * pvalue =>
                   key_ft bare (fst kv) :: (TOperator, [58]) :: ft (snd kv) ++ [(TOperator, [44])])
         (sort_keys l)
    ++ [(TOperator, [125])].
Proof.
  intros Hne. destruct l as [|m l']; [contradiction|]. cbn [ft]. cbv zeta.
  f_equal. f_equal.
  replace (map (fun kv : list N * pvalue => let '(k, x) := kv in (k, ft x)) (m :: l'))
    with (map (fun kv : list N * pvalue => (fst kv, ft (snd kv))) (m :: l'))
    by (apply map_ext; intros [k x]; reflexivity).
  rewrite (sort_keys_map ft).
  generalize (sort_keys (m :: l')). intros sl.
  induction sl as [|[k x] sl IH]; cbn [map flat_map fst snd]; [reflexivity|]. now rewrite IH.
Qed.

Definition F2 (acc fin : list ecode) (raw : list (token * list ecode)) (out : list (ttype * list N)) : Prop :=
  forall flag rest,
    map keyword_tok (semi_ins flag fin (map (pt acc) raw ++ rest))
    = map (mkp acc) out ++ map keyword_tok (semi_ins true fin rest).

Lemma is_ident_key_not_keyword k : is_ident_key k = true -> is_keyword k = false.
Proof.
  unfold is_ident_key. destruct k as [|c r]; [discriminate|]. intros H.
  apply andb_true_iff in H as [H _]. apply andb_true_iff in H as [H _].
  now apply negb_true_iff in H.
Qed.

Lemma num_is_float_ty u : (if num_is_float u then TFloat else TInt) <> TSemi /\
  (if num_is_float u then TFloat else TInt) <> TOperator /\
  (if num_is_float u then TFloat else TInt) <> TEndl /\
  (if num_is_float u then TFloat else TInt) <> TComment /\
  (if num_is_float u then TFloat else TInt) <> TEOF /\
  (if num_is_float u then TFloat else TInt) <> TIdent.
Proof. destruct (num_is_float u); repeat split; discriminate. Qed.

Lemma semi_op c acc flag fin tl :
  semi_ins flag fin (mkP TOperator [c] acc :: tl)
  = mkP TOperator [c] acc :: semi_ins ((c =? 125) || (c =? 93)) fin tl.
Proof.
  cbn [semi_ins pty]. unfold lit_is. cbn [plit list_N_eqb]. now rewrite !andb_true_r.
Qed.

Lemma kw_op c acc : keyword_tok (mkP TOperator [c] acc) = mkP TOperator [c] acc.
Proof. reflexivity. Qed.

Lemma F2_filters acc fin : forall v, F2 acc fin (rt is_print v) (ft v).
Proof.
  assert (Hop : forall c raw out, (c =? 125) || (c =? 93) = false ->
            (forall rest, map keyword_tok (semi_ins false fin (map (pt acc) raw ++ rest))
                          = map (mkp acc) out ++ map keyword_tok (semi_ins true fin rest)) ->
            F2 acc fin (tk TOperator [c] :: raw) ((TOperator, [c]) :: out)).
  { intros c raw out Hc H flag rest.
    change (map (pt acc) (tk TOperator [c] :: raw) ++ rest)
      with (mkP TOperator [c] acc :: (map (pt acc) raw ++ rest)).
    rewrite semi_op, Hc. cbn [map]. rewrite kw_op, H. reflexivity. }
  assert (Hendl : forall raw rest,
            semi_ins false fin (map (pt acc) (tk TEndl [10] :: raw) ++ rest)
            = semi_ins false fin (map (pt acc) raw ++ rest)) by reflexivity.
  assert (Hclose : forall c flag rest, (c =? 125) || (c =? 93) = true ->
            map keyword_tok (semi_ins flag fin (map (pt acc) [tk TOperator [c]] ++ rest))
            = map (mkp acc) [(TOperator, [c])] ++ map keyword_tok (semi_ins true fin rest)).
  { intros c flag rest Hc.
    change (map (pt acc) [tk TOperator [c]] ++ rest) with (mkP TOperator [c] acc :: rest).
    rewrite semi_op, Hc. reflexivity. }
  assert (Hcomma : forall flag tl,
            map keyword_tok (semi_ins flag fin (mkP TOperator [44] acc :: mkP TEndl [10] acc :: tl))
            = mkP TOperator [44] acc :: map keyword_tok (semi_ins false fin tl)).
  { intros flag tl. rewrite semi_op. reflexivity. }
  induction v as [|b|t|rs|vs IH|ms IH] using pvalue_ind'; intros flag rest.
  - reflexivity.
  - destruct b; reflexivity.
  - cbn [rt ft].
    assert (Hone : forall u flag, map keyword_tok (semi_ins flag fin
                (map (pt acc) [tk (if num_is_float u then TFloat else TInt) u] ++ rest))
              = map (mkp acc) [(if num_is_float u then TFloat else TInt, u)]
                  ++ map keyword_tok (semi_ins true fin rest)).
    { intros u fl. cbn [map app pt tk fst snd tty tlit]. destruct (num_is_float u); reflexivity. }
    destruct t as [|c r]; [apply Hone|].
    destruct (N.eqb_spec c 45) as [->|Hc].
    + change (num_toks (45 :: r)) with [tk TOperator [45]; tk (if num_is_float r then TFloat else TInt) r].
      change (num_ft (45 :: r)) with [(TOperator, [45]); (if num_is_float r then TFloat else TInt, r)].
      change (map (pt acc) [tk TOperator [45]; tk (if num_is_float r then TFloat else TInt) r] ++ rest)
        with (mkP TOperator [45] acc :: (map (pt acc) [tk (if num_is_float r then TFloat else TInt) r] ++ rest)).
      rewrite semi_op. change ((45 =? 125) || (45 =? 93)) with false.
      rewrite map_cons, kw_op, Hone. reflexivity.
    + rewrite (num_toks_other c r Hc), (num_ft_other c r Hc). apply Hone.
  - reflexivity.
  - (* array *)
    destruct vs as [|v0 vs'].
    { cbn [rt ft]. apply (Hop 91 [tk TOperator [93]] [(TOperator, [93])]); [reflexivity|].
      intros r. now apply (Hclose 93). }
    set (vs := v0 :: vs') in *.
    change (rt is_print (PArr vs)) with
      (tk TOperator [91] :: tk TEndl [10]
         :: flat_map (fun x => rt is_print x ++ [tk TOperator [44]; tk TEndl [10]]) vs
         ++ [tk TOperator [93]]).
    change (ft (PArr vs)) with
      ((TOperator, [91]) :: flat_map (fun x => ft x ++ [(TOperator, [44])]) vs ++ [(TOperator, [93])]).
    clearbody vs. apply Hop; [reflexivity|]. intros r. rewrite Hendl.
    (* any flag works from here on *)
    generalize false. induction IH as [|x xs Hx Hxs IHxs]; intros fl; cbn [flat_map app].
    + now apply (Hclose 93).
    + rewrite !map_app, <- !app_assoc. rewrite (Hx fl). f_equal.
      change (map (pt acc) [tk TOperator [44]; tk TEndl [10]] ++
              map (pt acc) (flat_map (fun x0 => rt is_print x0 ++ [tk TOperator [44]; tk TEndl [10]]) xs)
              ++ map (pt acc) [tk TOperator [93]] ++ r)
        with (mkP TOperator [44] acc :: mkP TEndl [10] acc ::
              (map (pt acc) (flat_map (fun x0 => rt is_print x0 ++ [tk TOperator [44]; tk TEndl [10]]) xs)
              ++ map (pt acc) [tk TOperator [93]] ++ r)).
      rewrite Hcomma. cbn [map app]. f_equal.
      specialize (IHxs false). rewrite !map_app, <- !app_assoc in IHxs. exact IHxs.
  - (* object *)
    destruct ms as [|m0 ms'].
    { cbn [rt ft]. apply (Hop 123 [tk TOperator [125]] [(TOperator, [125])]); [reflexivity|].
      intros r. now apply (Hclose 125). }
    set (ms := m0 :: ms') in *.
    rewrite (rt_obj is_print ms ltac:(discriminate)), (ft_obj ms ltac:(discriminate)). cbv zeta.
    set (bare := forallb (fun kv => is_ident_key (fst kv)) ms).
    assert (Hbare : bare = true -> Forall (fun kv : list N * pvalue => is_ident_key (fst kv) = true) (sort_keys ms)).
    { intros Hb. apply Forall_sort_keys. apply Forall_forall. subst bare.
      rewrite forallb_forall in Hb. exact Hb. }
    apply Forall_sort_keys in IH.
    clearbody bare. remember (sort_keys ms) as sm eqn:Esm. clear Esm.
    apply Hop; [reflexivity|]. intros r. rewrite Hendl.
    generalize false. induction IH as [|[k x] xs Hx Hxs IHxs]; intros fl; cbn [flat_map app].
    + now apply (Hclose 125).
    + cbn [fst snd] in *.
      assert (Hk : forall tl, map keyword_tok (semi_ins fl fin (pt acc (key_tok is_print bare k) :: tl))
                  = mkp acc (key_ft bare k) :: map keyword_tok (semi_ins true fin tl)).
      { intros tl. unfold key_tok, key_ft. destruct bare.
        - cbn [semi_ins pt tk fst snd tty tlit pty map keyword_tok plit].
          specialize (Hbare eq_refl). inversion Hbare as [|? ? Hik _]; subst. cbn [fst] in Hik.
          now rewrite (is_ident_key_not_keyword k Hik).
        - reflexivity. }
      cbn [map app]. rewrite Hk. f_equal.
      change (pt acc (tk TOperator [58])) with (mkP TOperator [58] acc).
      rewrite semi_op. change ((58 =? 125) || (58 =? 93)) with false.
      rewrite map_cons, kw_op. cbn [mkp fst snd]. f_equal.
      rewrite !map_app, <- !app_assoc. rewrite (Hx false). f_equal.
      change (map (pt acc) [tk TOperator [44]; tk TEndl [10]] ++
              map (pt acc) (flat_map (fun kv : list N * pvalue =>
                 key_tok is_print bare (fst kv) :: tk TOperator [58] :: rt is_print (snd kv) ++
                 [tk TOperator [44]; tk TEndl [10]]) xs) ++ map (pt acc) [tk TOperator [125]] ++ r)
        with (mkP TOperator [44] acc :: mkP TEndl [10] acc ::
              (map (pt acc) (flat_map (fun kv : list N * pvalue =>
                 key_tok is_print bare (fst kv) :: tk TOperator [58] :: rt is_print (snd kv) ++
                 [tk TOperator [44]; tk TEndl [10]]) xs) ++ map (pt acc) [tk TOperator [125]] ++ r)).
      rewrite Hcomma. cbn [map app]. f_equal.
      assert (Hb' : bare = true -> Forall (fun kv : list N * pvalue => is_ident_key (fst kv) = true) xs).
      { intros Hb. specialize (Hbare Hb). now inversion Hbare. }
      specialize (IHxs Hb' false). rewrite !map_app, <- !app_assoc in IHxs. exact IHxs.
Qed.

End Filters.

(** ** Step 3: the parser on the tokens of a printed value *)

Lemma list_N_eqb_refl l : list_N_eqb l l = true.
Proof. induction l as [|x l IH]; [reflexivity|]. cbn. now rewrite N.eqb_refl, IH. Qed.

Section ParseBack.
Context {F : Type}.
Variable pf : list N -> option F.
Variable is_print : N -> bool.
Hypothesis newline_not_printable : is_print 10 = false.
Variable fin : list ecode.

Definition st_at (ts : list ptok) : pstate :=
  match ts with
  | [] => mkSt (eof_tok fin) [] fin [] false
  | t :: r => mkSt t r fin [] false
  end.

Lemma p_next_st_at t ts : p_next (st_at (t :: ts)) = st_at ts.
Proof. destruct ts; reflexivity. Qed.

Definition mk_num (lead : option (list N)) (u : list N) : @value F :=
  if num_is_float u then VFloat lead u (pf u) else VInt lead u.

Definition num_ast (t : list N) : @value F :=
  match t with
  | 45 :: u => mk_num (Some [45]) u
  | u => mk_num None u
  end.

Definition key_ast (bare : bool) (k : list N) : okey :=
  if bare then KIdent k else KStr (go_quote is_print k) (utf8_encode k).

(** The syntax tree the parser builds for a printed value. *)
Fixpoint ast (v : pvalue) : @value F :=
  match v with
  | PNull => VNull
  | PBool b => VBool b
  | PNum t => num_ast t
  | PStr s => VStr (go_quote is_print s) (utf8_encode s)
  | PArr l => VList (map ast l)
  | PObj l =>
      let bare := forallb (fun kv => is_ident_key (fst kv)) l in
      VObject (map (fun kt : list N * @value F => (key_ast bare (fst kt), snd kt))
                   (sort_keys (map (fun kv => let '(k, x) := kv in (k, ast x)) l)))
  end.

Lemma ast_obj l :
  ast (PObj l) =
  let bare := forallb (fun kv => is_ident_key (fst kv)) l in
  VObject (map (fun kv : list N * pvalue => (key_ast bare (fst kv), ast (snd kv))) (sort_keys l)).
Proof.
  cbn [ast]. cbv zeta. f_equal.
  replace (map (fun kv : list N * pvalue => let '(k, x) := kv in (k, ast x)) l)
    with (map (fun kv : list N * pvalue => (fst kv, ast (snd kv))) l)
    by (apply map_ext; intros [k x]; reflexivity).
  rewrite (sort_keys_map ast), map_map. reflexivity.
Qed.

(** Float literals of the value are within the range of strconv.ParseFloat. *)
Definition num_okb (t : list N) : bool :=
  let u := match t with 45 :: u => u | u => u end in
  if num_is_float u then match pf u with Some _ => true | None => false end else true.

Fixpoint fokb (v : pvalue) : bool :=
  match v with
  | PNum t => num_okb t
  | PArr l => forallb fokb l
  | PObj l => forallb (fun kv => fokb (snd kv)) l
  | _ => true
  end.

Notation mk := (mkp []).

Lemma see_op_at ops ty l ts :
  see_op ops (st_at (mk (ty, l) :: ts)) = ttype_eqb ty TOperator && existsb (list_N_eqb l) ops.
Proof.
  unfold see_op, p_see, st_at. reflexivity.
Qed.

Lemma expect_op_at op ts :
  expect_op op (st_at (mk (TOperator, op) :: ts)) = (true, st_at ts).
Proof.
  unfold expect_op. change (jail (st_at (mk (TOperator, op) :: ts))) with false. cbv iota.
  rewrite see_op_at. cbn [ttype_eqb existsb andb].
  rewrite list_N_eqb_refl. cbn [orb]. now rewrite p_next_st_at.
Qed.

Definition PV (st : pstate) (r : @value F * pstate) : Prop :=
  exists f, parse_value pf f st = Some r.

Definition not_close (tl : ttype * list N) : Prop :=
  ttype_eqb (fst tl) TOperator && (list_N_eqb (snd tl) [93] || list_N_eqb (snd tl) [125]) = false.

Lemma ft_head v : exists t r, ft is_print v = t :: r /\ not_close t.
Proof.
  destruct v as [|b|t|s|l|l].
  - eexists _, _. split; reflexivity.
  - eexists _, _. split; reflexivity.
  - cbn [ft]. destruct t as [|c r].
    + eexists _, _. split; [reflexivity|]. unfold not_close. cbn. destruct (num_is_float []); reflexivity.
    + destruct (N.eqb_spec c 45) as [->|Hc].
      * eexists _, _. split; reflexivity.
      * rewrite (num_ft_other c r Hc). eexists _, _. split; [reflexivity|].
        unfold not_close. cbn [fst snd]. destruct (num_is_float (c :: r)); reflexivity.
  - eexists _, _. split; reflexivity.
  - destruct l; eexists _, _; split; reflexivity.
  - destruct l as [|m l'].
    + eexists _, _. split; reflexivity.
    + rewrite (ft_obj is_print (m :: l') ltac:(discriminate)). eexists _, _. split; reflexivity.
Qed.

(** The statement for one value. *)
Definition P3 (v : pvalue) : Prop :=
  wfpb v = true -> fokb v = true ->
  forall rest, PV (st_at (map mk (ft is_print v) ++ rest)) (ast v, st_at rest).

Lemma pv_keyword lit rest (r : @value F) :
  (if list_N_eqb lit lit_true then Some (VBool true, st_at rest)
   else if list_N_eqb lit lit_false then Some (VBool false, st_at rest)
   else if list_N_eqb lit lit_null then Some (VNull, st_at rest)
   else Some (VNil, p_add EUnexpectedKeyword (st_at rest))) = Some (r, st_at rest) ->
  PV (st_at (mk (TKeyword, lit) :: rest)) (r, st_at rest).
Proof.
  intros H. exists 1%nat. rewrite parse_value_S. unfold pv_body.
  cbn [st_at cur mkp fst snd pty plit]. change (p_next (mkSt (mk (TKeyword, lit)) rest fin [] false))
    with (p_next (st_at (mk (TKeyword, lit) :: rest))). rewrite p_next_st_at. exact H.
Qed.

Lemma pv_number lead_tok u rest :
  (if num_is_float u then match pf u with Some _ => true | None => false end else true) = true ->
  PV (st_at (map mk (match lead_tok with
                     | true => [(TOperator, [45]); (if num_is_float u then TFloat else TInt, u)]
                     | false => [(if num_is_float u then TFloat else TInt, u)] end) ++ rest))
     (mk_num (if lead_tok then Some [45] else None) u, st_at rest).
Proof.
  intros Hok. exists 1%nat. rewrite parse_value_S. unfold pv_body, mk_num.
  destruct lead_tok.
  - cbn [map app st_at cur mkp fst snd pty plit].
    change (lit_is (mk (TOperator, [45])) [43] || lit_is (mk (TOperator, [45])) [45]) with true.
    cbv iota.
    change (p_next (mkSt (mk (TOperator, [45]))
              (mk (if num_is_float u then TFloat else TInt, u) :: rest) fin [] false))
      with (st_at (mk (if num_is_float u then TFloat else TInt, u) :: rest)).
    destruct (num_is_float u); cbn [st_at cur mkp fst snd pty plit].
    + unfold parse_float_value. cbn [plit mkp snd].
      destruct (pf u) as [f|]; [|discriminate].
      change (p_next (mkSt (mk (TFloat, u)) rest fin [] false)) with (p_next (st_at (mk (TFloat, u) :: rest))).
      now rewrite p_next_st_at.
    + change (p_next (mkSt (mk (TInt, u)) rest fin [] false)) with (p_next (st_at (mk (TInt, u) :: rest))).
      now rewrite p_next_st_at.
  - cbn [map app]. destruct (num_is_float u); cbn [st_at cur mkp fst snd pty plit].
    + unfold parse_float_value. cbn [plit mkp snd].
      destruct (pf u) as [f|]; [|discriminate].
      change (p_next (mkSt (mk (TFloat, u)) rest fin [] false)) with (p_next (st_at (mk (TFloat, u) :: rest))).
      now rewrite p_next_st_at.
    + change (p_next (mkSt (mk (TInt, u)) rest fin [] false)) with (p_next (st_at (mk (TInt, u) :: rest))).
      now rewrite p_next_st_at.
Qed.

Lemma pv_string rs rest : forallb valid_rune rs = true ->
  PV (st_at (mk (TString, go_quote is_print rs) :: rest))
     (VStr (go_quote is_print rs) (utf8_encode rs), st_at rest).
Proof.
  intros Hv. exists 1%nat. rewrite parse_value_S. unfold pv_body.
  cbn [st_at cur mkp fst snd pty plit]. unfold parse_string_value. cbn [plit mkp snd].
  rewrite (go_quote_unquotes is_print newline_not_printable rs Hv).
  change (p_next (mkSt (mk (TString, go_quote is_print rs)) rest fin [] false))
    with (p_next (st_at (mk (TString, go_quote is_print rs) :: rest))).
  now rewrite p_next_st_at.
Qed.

(** List entries. *)
Lemma ple_items : forall xs, Forall P3 xs ->
  forallb wfpb xs = true -> forallb fokb xs = true ->
  forall acc rest, exists f,
    parse_list_entries pf f
      (st_at (map mk (flat_map (fun x => ft is_print x ++ [(TOperator, [44])]) xs)
              ++ mk (TOperator, [93]) :: rest)) acc
    = Some (acc ++ map ast xs, st_at (mk (TOperator, [93]) :: rest)).
Proof.
  induction 1 as [|x xs Hx Hxs IH]; intros Hw Hf acc rest.
  - exists 1%nat. rewrite parse_list_entries_S. unfold ple_body. cbn [flat_map map app].
    rewrite see_op_at. cbn. now rewrite app_nil_r.
  - cbn [forallb] in Hw, Hf. apply andb_true_iff in Hw as [Hwx Hwxs]. apply andb_true_iff in Hf as [Hfx Hfxs].
    cbn [flat_map]. rewrite !map_app, <- !app_assoc. cbn [map app].
    set (tail := map mk (flat_map (fun x0 => ft is_print x0 ++ [(TOperator, [44])]) xs)
                 ++ mk (TOperator, [93]) :: rest).
    destruct (Hx Hwx Hfx (mk (TOperator, [44]) :: tail)) as [f1 E1].
    destruct (IH Hwxs Hfxs (acc ++ [ast x]) rest) as [f2 E2]. fold tail in E2.
    exists (S (max f1 f2)). rewrite parse_list_entries_S. unfold ple_body.
    destruct (ft_head x) as (t & r & Eft & Hnc). rewrite Eft. cbn [map app].
    destruct t as [ty l]. rewrite see_op_at.
    assert (Hns : ttype_eqb ty TOperator && existsb (list_N_eqb l) [[93]] = false).
    { unfold not_close in Hnc. cbn [fst snd existsb] in *.
      destruct (ttype_eqb ty TOperator); [|reflexivity]. cbn [andb] in *.
      apply orb_false_iff in Hnc as [Hnc _]. now rewrite Hnc. }
    rewrite Hns.
    change (mk (ty, l) :: map mk r ++ mk (TOperator, [44]) :: tail)
      with (map mk ((ty, l) :: r) ++ mk (TOperator, [44]) :: tail). rewrite <- Eft.
    rewrite (parse_value_mono pf f1 (max f1 f2) _ _ ltac:(lia) E1).
    rewrite see_op_at. cbn [ttype_eqb existsb list_N_eqb N.eqb Pos.eqb andb orb].
    rewrite p_next_st_at.
    assert (Hj : jail (st_at tail) = false) by (destruct tail; reflexivity). rewrite Hj.
    rewrite (parse_list_entries_mono pf f2 (max f1 f2) _ _ _ ltac:(lia) E2).
    now rewrite <- app_assoc.
Qed.

(** Object entries. *)
Lemma poe_items bare : forall xs,
  Forall (fun kv : list N * pvalue => P3 (snd kv)) xs ->
  forallb (fun kv : list N * pvalue => forallb valid_rune (fst kv) && wfpb (snd kv)) xs = true ->
  forallb (fun kv : list N * pvalue => fokb (snd kv)) xs = true ->
  forall acc rest, exists f,
    parse_object_entries pf f
      (st_at (map mk (flat_map (fun kv : list N * pvalue =>
                        key_ft is_print bare (fst kv) :: (TOperator, [58]) :: ft is_print (snd kv)
                          ++ [(TOperator, [44])]) xs)
              ++ mk (TOperator, [125]) :: rest)) acc
    = Some (acc ++ map (fun kv : list N * pvalue => (key_ast bare (fst kv), ast (snd kv))) xs,
            st_at (mk (TOperator, [125]) :: rest)).
Proof.
  induction 1 as [|[k x] xs Hx Hxs IH]; intros Hw Hf acc rest.
  - exists 1%nat. rewrite parse_object_entries_S. unfold poe_body. cbn [flat_map map app].
    rewrite see_op_at. cbn. now rewrite app_nil_r.
  - cbn [forallb fst snd] in *. apply andb_true_iff in Hw as [Hwx Hwxs].
    apply andb_true_iff in Hwx as [Hk Hwx]. apply andb_true_iff in Hf as [Hfx Hfxs].
    cbn [flat_map]. cbn [fst snd]. rewrite !map_app, <- !app_assoc. cbn [map app].
    rewrite map_app, <- app_assoc. cbn [map app].
    set (tail := map mk (flat_map (fun kv : list N * pvalue =>
                        key_ft is_print bare (fst kv) :: (TOperator, [58]) :: ft is_print (snd kv)
                          ++ [(TOperator, [44])]) xs)
                 ++ mk (TOperator, [125]) :: rest).
    destruct (Hx Hwx Hfx (mk (TOperator, [44]) :: tail)) as [f1 E1].
    destruct (IH Hwxs Hfxs (acc ++ [(key_ast bare k, ast x)]) rest) as [f2 E2]. fold tail in E2.
    exists (S (max f1 f2)). rewrite parse_object_entries_S. unfold poe_body.
    set (vt := map mk (ft is_print x) ++ mk (TOperator, [44]) :: tail) in *.
    assert (Hkey : exists kty klit,
              mk (key_ft is_print bare k) = mk (kty, klit) /\
              (kty = TIdent \/ kty = TString) /\
              (if ttype_eqb kty TString
               then let '(bs, st2) := parse_string_value (mk (kty, klit)) (st_at (mk (TOperator, [58]) :: vt))
                    in (KStr (plit (mk (kty, klit))) bs, st2)
               else (KIdent (plit (mk (kty, klit))), st_at (mk (TOperator, [58]) :: vt)))
              = (key_ast bare k, st_at (mk (TOperator, [58]) :: vt))).
    { unfold key_ft, key_ast. destruct bare.
      - exists TIdent, k. split; [reflexivity|]. split; [now left|reflexivity].
      - exists TString, (go_quote is_print k). split; [reflexivity|]. split; [now right|].
        cbn [ttype_eqb]. unfold parse_string_value. cbn [plit mkp snd].
        now rewrite (go_quote_unquotes is_print newline_not_printable k Hk). }
    destruct Hkey as (kty & klit & -> & Hkty & Hkv).
    rewrite see_op_at.
    assert (E0 : ttype_eqb kty TOperator = false) by (destruct Hkty as [->| ->]; reflexivity).
    rewrite E0. cbn [andb].
    assert (E1' : p_see TIdent (st_at (mk (kty, klit) :: mk (TOperator, [58]) :: vt))
                  || p_see TString (st_at (mk (kty, klit) :: mk (TOperator, [58]) :: vt)) = true).
    { unfold p_see. cbn [st_at cur mkp fst pty]. destruct Hkty as [->| ->]; reflexivity. }
    rewrite E1'. cbn [negb].
    rewrite p_next_st_at.
    change (cur (st_at (mk (kty, klit) :: mk (TOperator, [58]) :: vt))) with (mk (kty, klit)).
    change (pty (mk (kty, klit))) with kty.
    rewrite Hkv. rewrite expect_op_at. cbn [snd].
    subst vt. rewrite (parse_value_mono pf f1 (max f1 f2) _ _ ltac:(lia) E1).
    rewrite see_op_at. cbn [ttype_eqb existsb list_N_eqb N.eqb Pos.eqb andb orb].
    rewrite p_next_st_at.
    assert (Hj : jail (st_at tail) = false) by (destruct tail; reflexivity). rewrite Hj.
    rewrite (parse_object_entries_mono pf f2 (max f1 f2) _ _ _ ltac:(lia) E2).
    now rewrite <- app_assoc.
Qed.

Theorem parse_printed : forall v, P3 v.
Proof.
  induction v as [|b|t|rs|vs IH|ms IH] using pvalue_ind'; intros Hw Hf rest.
  - apply pv_keyword. reflexivity.
  - cbn [ft map app ast]. destruct b; apply pv_keyword; reflexivity.
  - cbn [ft ast wfpb fokb] in *. destruct t as [|c r].
    + exact (pv_number false [] rest Hf).
    + destruct (N.eqb_spec c 45) as [->|Hc].
      * exact (pv_number true r rest Hf).
      * rewrite (num_ft_other c r Hc).
        assert (E : num_ast (c :: r) = mk_num None (c :: r)).
        { unfold num_ast. destruct c as [|p]; [reflexivity|].
          repeat (destruct p as [p|p|]; try reflexivity). contradiction. }
        assert (Hf' : (if num_is_float (c :: r) then match pf (c :: r) with Some _ => true | None => false end
                       else true) = true).
        { unfold num_okb in Hf. destruct c as [|p]; [exact Hf|].
          repeat (destruct p as [p|p|]; try exact Hf). contradiction. }
        rewrite E. exact (pv_number false (c :: r) rest Hf').
  - cbn [ft map app ast wfpb] in *. now apply pv_string.
  - (* array *)
    cbn [wfpb fokb ast] in *.
    assert (Hft : ft is_print (PArr vs)
                  = (TOperator, [91]) :: flat_map (fun x => ft is_print x ++ [(TOperator, [44])]) vs
                      ++ [(TOperator, [93])]) by (destruct vs; reflexivity).
    rewrite Hft. cbn [map app]. rewrite map_app, <- app_assoc. cbn [map app].
    destruct (ple_items vs IH Hw Hf [] rest) as [f E].
    exists (S f). rewrite parse_value_S. unfold pv_body.
    cbn [st_at cur mkp fst snd pty].
    change (lit_is (mk (TOperator, [91])) [43] || lit_is (mk (TOperator, [91])) [45]) with false.
    change (lit_is (mk (TOperator, [91])) [123]) with false.
    change (lit_is (mk (TOperator, [91])) [91]) with true. cbv iota.
    match goal with |- context [p_next ?s] =>
      change (p_next s) with (p_next (st_at (mk (TOperator, [91]) ::
        (map mk (flat_map (fun x => ft is_print x ++ [(TOperator, [44])]) vs) ++ mk (TOperator, [93]) :: rest)))) end.
    rewrite p_next_st_at, E. now rewrite expect_op_at.
  - (* object *)
    cbn [wfpb fokb] in *. rewrite ast_obj. cbv zeta.
    assert (Hft : ft is_print (PObj ms)
                  = (TOperator, [123]) :: flat_map (fun kv : list N * pvalue =>
                        key_ft is_print (forallb (fun kv => is_ident_key (fst kv)) ms) (fst kv)
                          :: (TOperator, [58]) :: ft is_print (snd kv) ++ [(TOperator, [44])])
                      (sort_keys ms) ++ [(TOperator, [125])]).
    { destruct ms as [|m ms']; [reflexivity|]. apply (ft_obj is_print (m :: ms')). discriminate. }
    rewrite Hft. cbn [map app]. rewrite map_app, <- app_assoc. cbn [map app].
    destruct (poe_items (forallb (fun kv => is_ident_key (fst kv)) ms) (sort_keys ms)
                (Forall_sort_keys _ _ IH) (forallb_sort_keys _ _ Hw) (forallb_sort_keys _ _ Hf) [] rest)
      as [f E].
    exists (S f). rewrite parse_value_S. unfold pv_body.
    cbn [st_at cur mkp fst snd pty].
    change (lit_is (mk (TOperator, [123])) [43] || lit_is (mk (TOperator, [123])) [45]) with false.
    change (lit_is (mk (TOperator, [123])) [123]) with true. cbv iota.
    match goal with |- context [p_next ?s] =>
      change (p_next s) with (p_next (st_at (mk (TOperator, [123]) ::
        (map mk (flat_map (fun kv : list N * pvalue =>
                        key_ft is_print (forallb (fun kv => is_ident_key (fst kv)) ms) (fst kv)
                          :: (TOperator, [58]) :: ft is_print (snd kv) ++ [(TOperator, [44])])
                      (sort_keys ms)) ++ mk (TOperator, [125]) :: rest)))) end.
    rewrite p_next_st_at, E. now rewrite expect_op_at.
Qed.

End ParseBack.

(** ** Step 4: encoding the tree, and the whole round trip *)

From Verif Require Import Jsonx.Json Jsonx.Encode Jsonx.Term Jsonx.JsonProofs.

(** The JSON value of the printer's input. *)
Fixpoint jv (v : pvalue) : jvalue :=
  match v with
  | PNull => JNull
  | PBool b => JBool b
  | PNum t => JNum t
  | PStr s => JStr s
  | PArr l => JArr (map jv l)
  | PObj l => JObj (sort_keys (map (fun kv => let '(k, x) := kv in (k, jv x)) l))
  end.

Lemma jv_obj l : jv (PObj l) = JObj (map (fun kv : list N * pvalue => (fst kv, jv (snd kv))) (sort_keys l)).
Proof.
  cbn [jv]. f_equal.
  replace (map (fun kv : list N * pvalue => let '(k, x) := kv in (k, jv x)) l)
    with (map (fun kv : list N * pvalue => (fst kv, jv (snd kv))) l)
    by (apply map_ext; intros [k x]; reflexivity).
  apply (sort_keys_map jv).
Qed.

Section RoundTrip.
Context {F : Type}.
Variable pf : list N -> option F.
Variable ff : F -> list N.
Variable is_print : N -> bool.
Hypothesis newline_not_printable : is_print 10 = false.
Hypothesis ff_json : forall f, is_json_number (ff f) = true.
Hypothesis ff_unsigned : forall f r, ff f <> 45 :: r.

(** JSON equality up to the spelling of floats: a float literal [u] may come
    back as [ff f] where [f] is the float64 that [u] reads as. *)
Definition num_rel (a b : list N) : Prop :=
  a = b \/
  exists sg u f, (sg = [] \/ sg = [45]) /\ a = sg ++ u /\ pf u = Some f /\ b = sg ++ ff f.

Inductive jrel : jvalue -> jvalue -> Prop :=
| JR_null : jrel JNull JNull
| JR_bool b : jrel (JBool b) (JBool b)
| JR_num a b : num_rel a b -> jrel (JNum a) (JNum b)
| JR_str s : jrel (JStr s) (JStr s)
| JR_arr l l' : Forall2 jrel l l' -> jrel (JArr l) (JArr l')
| JR_obj l l' : Forall2 (fun m m' => fst m = fst m' /\ jrel (snd m) (snd m')) l l' ->
                jrel (JObj l) (JObj l').

Lemma join_opt_all sep : forall l : list (option (list N)),
  Forall (fun o => o <> None) l -> exists b, join_opt sep l = Some b.
Proof.
  induction l as [|x l IH]; intros H; [now exists []|].
  inversion H as [|? ? Hx Hl]; subst. destruct x as [a|]; [|contradiction].
  destruct (IH Hl) as [b Hb]. destruct l as [|y l'].
  - now exists a.
  - cbn [join_opt]. change (join_opt sep (y :: l')) with (join_opt sep (y :: l')) in Hb.
    cbn [join_opt] in Hb. rewrite Hb. eauto.
Qed.

Lemma mk_num_ok lead u :
  (lead = None \/ lead = Some [45]) ->
  nscan NNeg u = Some (u, []) ->
  (if num_is_float u then match pf u with Some _ => true | None => false end else true) = true ->
  encode_value ff (mk_num pf lead u) <> None /\
  jrel (JNum (sign_of lead ++ u)) (denote ff (mk_num pf lead u)).
Proof.
  intros Hlead Hu Hok. unfold mk_num.
  destruct (unsigned_json_number_parts u Hu) as (ip & fp & ep & Eu & Hi & Hf & He).
  pose proof (num_is_float_parts ip fp ep Hi Hf He) as Hfl. rewrite <- Eu in Hfl.
  destruct (num_is_float u) eqn:Enf.
  - destruct (pf u) as [f|] eqn:Ep; [|discriminate]. split; [cbn; discriminate|].
    cbn [denote encode_float]. constructor. right.
    exists (sign_of lead), u, f. repeat split; auto.
    destruct Hlead as [->| ->]; [now left|now right].
  - (* integer: fp = ep = [] and the literal is canonical *)
    assert (fp = [] /\ ep = []) as [-> ->].
    { symmetry in Hfl. unfold is_float_lit in Hfl. destruct fp; [destruct ep; [auto|discriminate]|discriminate]. }
    rewrite !app_nil_r in Eu. subst u.
    pose proof (int_json_canonical ip Hi) as Hc. unfold int_json in Hc.
    destruct (int_value ip) as [n|] eqn:Ev; [|discriminate]. cbn [option_map] in Hc.
    injection Hc as Hc. split.
    + cbn [encode_value]. unfold int_json. rewrite Ev. cbn. discriminate.
    + cbn [denote]. rewrite Ev, Hc. constructor. now left.
Qed.

Lemma num_ast_ok t : is_json_number t = true -> num_okb pf t = true ->
  encode_value ff (num_ast pf t) <> None /\ jrel (JNum t) (denote ff (num_ast pf t)).
Proof.
  intros Ht Hok. destruct (nscan_start_cases is_print t Ht) as [(u & -> & Hu)|[Hn Hu]].
  - cbn [num_ast]. apply (mk_num_ok (Some [45]) u); auto.
  - assert (E : num_ast pf t = mk_num pf None t).
    { unfold num_ast. destruct t as [|c r]; [reflexivity|].
      destruct c as [|p]; [reflexivity|].
      repeat (destruct p as [p|p|]; try reflexivity). exfalso. now apply (Hn r). }
    assert (Hok' : (if num_is_float t then match pf t with Some _ => true | None => false end
                    else true) = true).
    { unfold num_okb in Hok. destruct t as [|c r]; [exact Hok|].
      destruct c as [|p]; [exact Hok|].
      repeat (destruct p as [p|p|]; try exact Hok). exfalso. now apply (Hn r). }
    rewrite E. apply (mk_num_ok None t); auto.
Qed.

Lemma valid_runes_roundtrip rs : forallb valid_rune rs = true ->
  utf8_decode (utf8_encode rs) = rs.
Proof. apply decode_encode. Qed.

(** The tree of a printed value is encodable, and denotes the value. *)
Theorem ast_denotes : forall v, wfpb v = true -> fokb pf v = true ->
  encode_value ff (ast pf is_print v) <> None /\
  jrel (jv v) (denote ff (ast pf is_print v)).
Proof.
  induction v as [|b|t|rs|vs IH|ms IH] using pvalue_ind'; intros Hw Hf.
  - split; [cbn; discriminate|constructor].
  - split; [cbn; discriminate|constructor].
  - cbn [wfpb fokb ast jv] in *. now apply num_ast_ok.
  - cbn [wfpb ast jv denote] in *. split; [cbn; discriminate|].
    rewrite (valid_runes_roundtrip rs Hw). constructor.
  - (* array *)
    cbn [wfpb fokb ast jv denote encode_value] in *.
    assert (H : Forall (fun x => encode_value ff (ast pf is_print x) <> None /\
                                 jrel (jv x) (denote ff (ast pf is_print x))) vs).
    { clear -IH Hw Hf. induction IH as [|x xs Hx Hxs IHxs]; [constructor|].
      cbn [forallb] in *. apply andb_true_iff in Hw as [? ?]. apply andb_true_iff in Hf as [? ?].
      constructor; auto. }
    split.
    + destruct (join_opt_all [44] (map (encode_value ff) (map (ast pf is_print) vs))) as [b Hb].
      { rewrite map_map. apply Forall_map. eapply Forall_impl; [|exact H]. now intros x [Hx _]. }
      rewrite Hb. discriminate.
    + constructor. rewrite map_map. clear -H.
      induction H as [|x xs [_ Hx] Hxs IHxs]; cbn [map]; constructor; auto.
  - (* object *)
    cbn [wfpb fokb] in *. rewrite ast_obj, jv_obj. cbv zeta.
    set (bare := forallb (fun kv => is_ident_key (fst kv)) ms).
    apply forallb_sort_keys in Hw. apply forallb_sort_keys in Hf. apply Forall_sort_keys in IH.
    clearbody bare. remember (sort_keys ms) as sm eqn:Esm. clear Esm.
    assert (H : Forall (fun kv : list N * pvalue =>
                          forallb valid_rune (fst kv) = true /\
                          encode_value ff (ast pf is_print (snd kv)) <> None /\
                          jrel (jv (snd kv)) (denote ff (ast pf is_print (snd kv)))) sm).
    { clear -IH Hw Hf. induction IH as [|[k x] xs Hx Hxs IHxs]; [constructor|].
      cbn [forallb fst snd] in *. apply andb_true_iff in Hw as [Hk Hws]. apply andb_true_iff in Hk as [Hk Hwx].
      apply andb_true_iff in Hf as [Hfx Hfs]. constructor; [|now apply IHxs].
      cbn [fst snd]. destruct (Hx Hwx Hfx) as [A B]. auto. }
    cbn [encode_value denote]. split.
    + destruct (join_opt_all [44]
        (map (fun kv : okey * value => let '(k, x) := kv in
                option_map (fun t => encode_key k ++ 58 :: t) (encode_value ff x))
             (map (fun kv : list N * pvalue => (key_ast is_print bare (fst kv), ast pf is_print (snd kv))) sm)))
        as [b Hb].
      { rewrite map_map. apply Forall_map. eapply Forall_impl; [|exact H].
        intros [k x] (_ & Hx & _). cbn [fst snd] in *.
        destruct (encode_value ff (ast pf is_print x)); [discriminate|contradiction]. }
      rewrite Hb. discriminate.
    + constructor. rewrite map_map. clear -H.
      induction H as [|[k x] xs (Hk & _ & Hx) Hxs IHxs]; cbn [map]; constructor; auto.
      cbn [fst snd] in *. split; [|exact Hx].
      unfold key_ast. destruct bare; cbn [denote_key]; now rewrite (valid_runes_roundtrip k Hk).
Qed.

(** Tokens of a printed value carry no lexing error and are not comments. *)
Lemma with_cum_clean : forall raw rest acc,
  Forall (fun te : token * list ecode => snd te = []) raw ->
  with_cum acc (raw ++ rest)
  = (map (pt acc) raw ++ fst (with_cum acc rest), snd (with_cum acc rest)).
Proof.
  induction raw as [|[t e] raw IH]; intros rest acc H; cbn [app map].
  - now destruct (with_cum acc rest).
  - inversion H as [|? ? He Hr]; subst. cbn [snd] in He. subst e.
    cbn [with_cum]. change (add_errs acc []) with acc.
    rewrite (IH rest acc Hr). destruct (with_cum acc rest). reflexivity.
Qed.

Lemma rt_clean : forall v, Forall (fun te : token * list ecode => snd te = []) (rt is_print v).
Proof.
  induction v as [|b|t|rs|vs IH|ms IH] using pvalue_ind'.
  - repeat constructor.
  - repeat constructor.
  - cbn [rt]. unfold num_toks. destruct t as [|c r]; [repeat constructor|].
    destruct c as [|p]; [repeat constructor|].
    repeat (destruct p as [p|p|]; try (repeat constructor)).
  - repeat constructor.
  - destruct vs as [|v0 vs']; [repeat constructor|].
    change (rt is_print (PArr (v0 :: vs'))) with
      (tk TOperator [91] :: tk TEndl [10]
         :: flat_map (fun x => rt is_print x ++ [tk TOperator [44]; tk TEndl [10]]) (v0 :: vs')
         ++ [tk TOperator [93]]).
    constructor; [reflexivity|]. constructor; [reflexivity|]. apply Forall_app. split; [|repeat constructor].
    induction IH as [|x xs Hx Hxs IHxs]; [constructor|]. cbn [flat_map].
    apply Forall_app. split; [apply Forall_app; split; [exact Hx|repeat constructor]|exact IHxs].
  - destruct ms as [|m0 ms']; [repeat constructor|].
    rewrite (rt_obj is_print (m0 :: ms') ltac:(discriminate)). cbv zeta.
    apply Forall_sort_keys in IH. generalize dependent (sort_keys (m0 :: ms')). intros sm IH.
    constructor; [reflexivity|]. constructor; [reflexivity|]. apply Forall_app. split; [|repeat constructor].
    induction IH as [|[k x] xs Hx Hxs IHxs]; [constructor|]. cbn [flat_map fst snd] in *.
    constructor; [unfold key_tok; destruct (forallb _ _); reflexivity|].
    constructor; [reflexivity|].
    apply Forall_app. split; [apply Forall_app; split; [exact Hx|repeat constructor]|exact IHxs].
Qed.

Lemma ft_not_comment : forall v,
  Forall (fun tl : ttype * list N => fst tl <> TComment) (ft is_print v).
Proof.
  induction v as [|b|t|rs|vs IH|ms IH] using pvalue_ind'.
  - repeat constructor; discriminate.
  - repeat constructor; discriminate.
  - cbn [ft]. unfold num_ft. destruct t as [|c r].
    + constructor; [|constructor]. cbn [fst]. destruct (num_is_float []); discriminate.
    + destruct (N.eqb_spec c 45) as [->|Hc].
      * constructor; [discriminate|]. constructor; [|constructor]. cbn [fst]. destruct (num_is_float r); discriminate.
      * fold (num_ft (c :: r)). rewrite (num_ft_other c r Hc).
        constructor; [|constructor]. cbn [fst]. destruct (num_is_float (c :: r)); discriminate.
  - repeat constructor; discriminate.
  - destruct vs as [|v0 vs']; [repeat constructor; discriminate|].
    change (ft is_print (PArr (v0 :: vs'))) with
      ((TOperator, [91]) :: flat_map (fun x => ft is_print x ++ [(TOperator, [44])]) (v0 :: vs')
         ++ [(TOperator, [93])]).
    constructor; [discriminate|]. apply Forall_app. split; [|repeat constructor; discriminate].
    induction IH as [|x xs Hx Hxs IHxs]; [constructor|]. cbn [flat_map].
    apply Forall_app. split; [apply Forall_app; split; [exact Hx|repeat constructor; discriminate]|exact IHxs].
  - destruct ms as [|m0 ms']; [repeat constructor; discriminate|].
    rewrite (ft_obj is_print (m0 :: ms') ltac:(discriminate)). cbv zeta.
    apply Forall_sort_keys in IH. generalize dependent (sort_keys (m0 :: ms')). intros sm IH.
    constructor; [discriminate|]. apply Forall_app. split; [|repeat constructor; discriminate].
    induction IH as [|[k x] xs Hx Hxs IHxs]; [constructor|]. cbn [flat_map fst snd] in *.
    constructor; [unfold key_ft; match goal with |- fst (if ?b then _ else _) <> _ => destruct b end;
                  discriminate|].
    constructor; [discriminate|].
    apply Forall_app. split; [apply Forall_app; split; [exact Hx|repeat constructor; discriminate]|exact IHxs].
Qed.

Lemma filter_not_comment_mk l :
  Forall (fun tl : ttype * list N => fst tl <> TComment) l ->
  filter not_comment (map (mkp []) l) = map (mkp []) l.
Proof.
  induction 1 as [|[ty lit] l Hx Hl IH]; [reflexivity|]. cbn [map filter].
  unfold not_comment at 1. cbn [mkp pty fst snd] in *.
  destruct ty; try (cbn [ttype_eqb negb]; now rewrite IH); contradiction.
Qed.

(** The parser's token stream for a printed document. *)
Lemma printed_stream v : wfpb v = true ->
  jsonx_stream (print_doc is_print v)
  = Ok (mkS (map (mkp []) (ft is_print v) ++ [mkP TSemi [10] []]) []).
Proof.
  intros Hw. unfold jsonx_stream, print_doc.
  assert (HL : L (print_value is_print 0 v ++ [10]) (rt is_print v ++ [tk TEndl [10]])).
  { apply (print_lexes is_print newline_not_printable v Hw 0 [10] [tk TEndl [10]]).
    - eexists. right. reflexivity.
    - apply L_endl, L_nil. }
  rewrite (L_raw _ _ HL). f_equal. unfold parser_stream, filtered.
  rewrite (with_cum_clean (rt is_print v) [tk TEndl [10]] [] (rt_clean v)).
  change (with_cum [] [tk TEndl [10]]) with ([mkP TEndl [10] []], @nil ecode). cbn [fst snd].
  rewrite (F2_filters is_print [] [] v false [mkP TEndl [10] []]).
  cbn [semi_ins pty map keyword_tok pcum]. rewrite filter_app.
  rewrite (filter_not_comment_mk _ (ft_not_comment v)). reflexivity.
Qed.

Theorem roundtrip v :
  wfpb v = true -> fokb pf v = true ->
  exists out j',
    unmarshal pf ff (print_doc is_print v) = Ok (UOk out) /\
    json_parse out = Some j' /\ jrel (jv v) j'.
Proof.
  intros Hw Hf. destruct (ast_denotes v Hw Hf) as [Henc Hrel].
  destruct (encode_value ff (ast pf is_print v)) as [out|] eqn:Eenc; [|contradiction].
  pose proof (encode_json_parse ff ff_json ff_unsigned _ _ Eenc) as Hjp.
  exists out, (denote ff (ast pf is_print v)). split; [|split; [exact Hjp|exact Hrel]].
  unfold unmarshal. rewrite (printed_stream v Hw). unfold unmarshal_stream.
  set (s := mkS (map (mkp []) (ft is_print v) ++ [mkP TSemi [10] []]) []).
  assert (Hinit : p_init s = st_at [] (map (mkp []) (ft is_print v) ++ [mkP TSemi [10] []])).
  { unfold p_init, s. cbn [sbody sfin].
    destruct (ft_head is_print v) as (t & r & -> & _). reflexivity. }
  rewrite Hinit.
  destruct (parse_printed pf is_print newline_not_printable [] v Hw Hf [mkP TSemi [10] []]) as [f E].
  set (st := st_at [] (map (mkp []) (ft is_print v) ++ [mkP TSemi [10] []])) in *.
  destruct (parse_value_fuel_suffices pf st) as (v' & st' & E').
  assert (Eq : parse_value pf (parse_fuel st) st = Some (ast pf is_print v, st_at [] [mkP TSemi [10] []])).
  { pose proof (parse_value_mono pf f (max f (parse_fuel st)) _ _ (Nat.le_max_l _ _) E) as M1.
    pose proof (parse_value_mono pf (parse_fuel st) (max f (parse_fuel st)) _ _ (Nat.le_max_r _ _) E') as M2.
    congruence. }
  rewrite Eq. cbn [st_at p_errs cur pcum perrs]. unfold marshal_value. rewrite Eenc.
  unfold json_valid. rewrite Hjp. reflexivity.
Qed.

(** ** Exactness.  A number literal is canonical when [ff] writes for the
    float [pf] reads from it the literal itself (true of what json.Marshal
    writes: the shortest spelling is a fixed point).  A value all of whose
    number literals are canonical comes back as exactly the same tree:
    nothing at all is respelt.  This is what makes comparing the decoded Go
    value with the original one by reflect.DeepEqual sound whenever
    encoding/json's own round trip is the identity. *)
Definition canon_num (t : list N) : Prop :=
  forall sg u f, (sg = [] \/ sg = [45]) -> t = sg ++ u -> pf u = Some f -> ff f = u.

Inductive all_nums (P : list N -> Prop) : pvalue -> Prop :=
| AN_null : all_nums P PNull
| AN_bool b : all_nums P (PBool b)
| AN_num t : P t -> all_nums P (PNum t)
| AN_str s : all_nums P (PStr s)
| AN_arr l : Forall (all_nums P) l -> all_nums P (PArr l)
| AN_obj l : Forall (fun kv => all_nums P (snd kv)) l -> all_nums P (PObj l).

Lemma jrel_exact : forall v, all_nums canon_num v -> forall j, jrel (jv v) j -> j = jv v.
Proof.
  induction v as [|b|t|rs|vs IH|ms IH] using pvalue_ind'; intros Hc j Hj.
  - inversion Hj; reflexivity.
  - inversion Hj; reflexivity.
  - cbn [jv] in *. inversion Hj as [| |a b0 Hn| | |]; subst. inversion Hc as [| |t' Ht| | |]; subst.
    destruct Hn as [->|(sg & u & f & Hsg & -> & Hp & ->)]; [reflexivity|].
    now rewrite (Ht sg u f Hsg eq_refl Hp).
  - inversion Hj; reflexivity.
  - cbn [jv] in *. inversion Hj as [| | | |l l' HF|]; subst. f_equal.
    inversion Hc as [| | | |l Hl|]; subst. clear Hj Hc.
    revert l' HF. induction IH as [|x xs Hx Hxs IHxs]; intros l' HF; cbn [map] in HF.
    + inversion HF. reflexivity.
    + inversion HF as [|? y ? ys Hxy Hrest]; subst. inversion Hl as [|? ? Hcx Hcs]; subst.
      cbn [map]. f_equal; [now apply Hx|now apply IHxs].
  - rewrite jv_obj in *. inversion Hj as [| | | | |l l' HF]; subst. f_equal.
    inversion Hc as [| | | | |l Hl]; subst. clear Hj Hc.
    apply Forall_sort_keys in IH. apply Forall_sort_keys in Hl.
    remember (sort_keys ms) as sm eqn:Esm. clear Esm ms.
    revert l' HF. induction IH as [|[k x] xs Hx Hxs IHxs]; intros l' HF; cbn [map] in HF.
    + inversion HF. reflexivity.
    + inversion HF as [|? [k' y] ? ys [Hk Hxy] Hrest]; subst. inversion Hl as [|? ? Hcx Hcs]; subst.
      cbn [map fst snd] in *. subst k'. f_equal; [f_equal; now apply Hx|now apply IHxs].
Qed.

Lemma all_nums_global : (forall u f, pf u = Some f -> ff f = u) -> forall v, all_nums canon_num v.
Proof.
  intros H. induction v as [|b|t|rs|vs IH|ms IH] using pvalue_ind'; constructor; auto.
  intros sg u f _ _ Hp. now apply H.
Qed.

Theorem roundtrip_exact v :
  wfpb v = true -> fokb pf v = true -> all_nums canon_num v ->
  exists out, unmarshal pf ff (print_doc is_print v) = Ok (UOk out) /\ json_parse out = Some (jv v).
Proof.
  intros Hw Hf Hc. destruct (roundtrip v Hw Hf) as (out & j' & Hu & Hp & Hr).
  exists out. split; [exact Hu|]. now rewrite Hp, (jrel_exact v Hc j' Hr).
Qed.

(** Any reader of the JSON text that does not depend on how a float is
    spelt reads, after the round trip, what it reads from the original. *)
Theorem roundtrip_decoder {A} (dec : jvalue -> A) v :
  (forall a b, jrel a b -> dec a = dec b) ->
  wfpb v = true -> fokb pf v = true ->
  exists out j', unmarshal pf ff (print_doc is_print v) = Ok (UOk out) /\
    json_parse out = Some j' /\ dec j' = dec (jv v).
Proof.
  intros Hd Hw Hf. destruct (roundtrip v Hw Hf) as (out & j' & Hu & Hp & Hr).
  exists out, j'. repeat split; auto. symmetry. now apply Hd.
Qed.

End RoundTrip.

Lemma list_N_eqb_true a : forall b, list_N_eqb a b = true -> a = b.
Proof.
  induction a as [|x a IH]; intros [|y b] H; try discriminate; [reflexivity|].
  cbn in H. apply andb_true_iff in H as [H1 H2]. apply N.eqb_eq in H1. subst. f_equal. auto.
Qed.

