(** Model of jsonx/print.go (Fprint / Marshal) with fmtutil.Printer's
    indentation.

    [Fprint] first passes the value through json.Marshal and decodes it back
    (numbers kept as json.Number), so the printer's input is a tree of
    [pvalue]: numbers are JSON number literals as json.Marshal writes them,
    strings are valid rune lists, objects are Go maps (distinct keys; the
    printer sorts them with sort.Strings, which on valid UTF-8 is the
    lexicographic order of the rune lists). *)
From Coq Require Import List NArith Bool.
From Verif Require Import Lib.Utf8 Jsonx.Lex Jsonx.Tok Jsonx.GoStr.
Import ListNotations.
Local Open Scope N_scope.

Inductive pvalue :=
| PNull
| PBool (b : bool)
| PNum (text : list N)
| PStr (s : list N)
| PArr (l : list pvalue)
| PObj (l : list (list N * pvalue)).

(** isIdent of print.go *)
Definition is_ident_key (s : list N) : bool :=
  match s with
  | [] => false
  | c :: r =>
      negb (is_keyword s) &&
      ((c =? 95) || is_letter c) &&
      forallb (fun x => (x =? 95) || is_letter x || is_digit x) r
  end.

Fixpoint runes_ltb (a b : list N) : bool :=
  match a, b with
  | [], [] => false
  | [], _ :: _ => true
  | _ :: _, [] => false
  | x :: a', y :: b' => if x <? y then true else if y <? x then false else runes_ltb a' b'
  end.

Fixpoint insert_key {A} (k : list N * A) (l : list (list N * A)) : list (list N * A) :=
  match l with
  | [] => [k]
  | h :: t => if runes_ltb (fst h) (fst k) then h :: insert_key k t else k :: l
  end.

Definition sort_keys {A} (l : list (list N * A)) : list (list N * A) :=
  fold_right insert_key [] l.

Fixpoint indent (d : nat) : list N :=
  match d with O => [] | S d' => [32; 32; 32; 32] ++ indent d' end.

Section Printer.
Variable is_print : N -> bool.

Fixpoint print_value (d : nat) (v : pvalue) : list N :=
  match v with
  | PNull => [110; 117; 108; 108]
  | PBool true => [116; 114; 117; 101]
  | PBool false => [102; 97; 108; 115; 101]
  | PNum t => t
  | PStr s => go_quote is_print s
  | PArr [] => [91; 93]
  | PArr l =>
      [91; 10]
        ++ flat_map (fun x => indent (S d) ++ print_value (S d) x ++ [44; 10]) l
        ++ indent d ++ [93]
  | PObj [] => [123; 125]
  | PObj l =>
      let bare := forallb (fun kv => is_ident_key (fst kv)) l in
      [123; 10]
        ++ flat_map (fun kt : list N * list N =>
                       indent (S d)
                         ++ (if bare then fst kt else go_quote is_print (fst kt))
                         ++ [58; 32] ++ snd kt ++ [44; 10])
             (sort_keys (map (fun kv => let '(k, x) := kv in (k, print_value (S d) x)) l))
        ++ indent d ++ [125]
  end.

(** Fprint: the value and a final newline. *)
Definition print_doc (v : pvalue) : list N := print_value 0 v ++ [10].

End Printer.
