(** The token filters between the jsonx lexer and its parser
    (jsonx/lex.go [tokener], jsonx/semi_inserter.go, lexing/keyworder.go,
    lexing/recorder.go, lexing/remover.go) as transformers of token lists.

    The Go chain is lazy: the parser pulls one token at a time, and
    [Parser.Errs] reports the lexer errors accumulated SO FAR.  A parser token
    therefore carries [pcum], the content of the lexer's error list at the
    moment the token was handed to the parser. *)
From Coq Require Import List NArith Bool.
From Verif Require Import Lib.Utf8 Jsonx.Lex.
Import ListNotations.
Local Open Scope N_scope.

Record ptok := mkP { pty : ttype; plit : list N; pcum : list ecode }.

(** Lexer tokens with the running (capped) error list. *)
Fixpoint with_cum (acc : list ecode) (l : list (token * list ecode))
  : list ptok * list ecode :=
  match l with
  | [] => ([], acc)
  | (t, e) :: r =>
      let acc' := add_errs acc e in
      let '(ps, fin) := with_cum acc' r in
      (mkP (tty t) (tlit t) acc' :: ps, fin)
  end.

Definition lit_is (t : ptok) (l : list N) : bool := list_N_eqb (plit t) l.

(** semiInserter.Token.  [fin] is the lexer's error list when it returns EOF.
    The result does not include the final EOF token. *)
Fixpoint semi_ins (flag : bool) (fin : list ecode) (ts : list ptok) : list ptok :=
  match ts with
  | [] => if flag then [mkP TSemi [] fin] else []
  | t :: r =>
      match pty t with
      | TSemi => t :: semi_ins false fin r
      | TOperator => t :: semi_ins (lit_is t [125] || lit_is t [93]) fin r
      | TEndl =>
          if flag then mkP TSemi [10] (pcum t) :: semi_ins false fin r
          else semi_ins flag fin r
      | TComment => t :: semi_ins flag fin r
      | TEOF => t :: semi_ins flag fin r   (* not produced before the end *)
      | _ => t :: semi_ins true fin r
      end
  end.

(** Keyworder with the keyword set of jsonx/lex.go. *)
Definition keywords : list (list N) :=
  [ [116; 114; 117; 101];          (* true *)
    [102; 97; 108; 115; 101];      (* false *)
    [110; 117; 108; 108] ].        (* null *)

Definition is_keyword (l : list N) : bool := existsb (list_N_eqb l) keywords.

Definition keyword_tok (t : ptok) : ptok :=
  match pty t with
  | TIdent => if is_keyword (plit t) then mkP TKeyword (plit t) (pcum t) else t
  | _ => t
  end.

(** Comment remover. *)
Definition not_comment (t : ptok) : bool := negb (ttype_eqb (pty t) TComment).

(** What [lexing.Tokens(tokener(..))] returns, without the final EOF. *)
Definition filtered (raw : list (token * list ecode)) : list ptok * list ecode :=
  let '(ps, fin) := with_cum [] raw in
  (map keyword_tok (semi_ins false fin ps), fin).

(** The parser's token source: comments removed. *)
Record pstream := mkS { sbody : list ptok; sfin : list ecode }.

Definition parser_stream (raw : list (token * list ecode)) : pstream :=
  let '(ts, fin) := filtered raw in mkS (filter not_comment ts) fin.

Definition jsonx_stream (input : list N) : outcome pstream :=
  match jsonx_raw_tokens input with
  | Ok raw => Ok (parser_stream raw)
  | Panic w => Panic w
  | OutOfFuel => OutOfFuel
  end.
