(** Who owns the bytes an entry point returns (jsonx.Marshal, jsonx.ToJSON and
    the helpers they return through).

    Memory is a heap of numbered buffers.  An entry point computes [F input]
    and hands back a buffer holding it; where that buffer comes from is the
    [policy]: [Fresh] - a buffer nobody has seen before (new(bytes.Buffer) in
    the call) - or [Pooled] - a buffer the implementation keeps and uses for
    every call (a package-level buffer, a sync.Pool on one goroutine).  The
    caller may, between calls, write into any result it was handed (it owns
    them): [EWrite k c] overwrites the result of its k-th call.

    [spec] is value semantics: results are independent values, each changed
    only by its owner.  With fresh buffers the heap IS value semantics, for
    every history of calls and writes ([fresh_is_spec]); in particular what
    the caller reads from the result of a call is [F] of that call's input
    until the caller itself overwrites it, whatever was called or written
    before and after ([fresh_result_stable]).  With a pooled buffer it is not
    ([pooled_refuted]).

    The policy of the code is read from the source on every run:
    gen/jsonx_own.go extracts, for every function with a []byte result, where
    the returned slice comes from, and every package-level variable that is or
    holds a buffer; [policy_of] maps that to [Fresh] exactly when
    [results_fresh] (Jsonx/GenTypes.v) holds. *)
From Coq Require Import String List NArith Bool Arith Lia.
From Verif Require Import Jsonx.GenTypes.
Import ListNotations.

Inductive policy := Fresh | Pooled.

Definition policy_of (t : list (string * list rorigin)) (vars : list (string * string)) : policy :=
  if results_fresh t vars then Fresh else Pooled.

Section Own.
Variable F : list N -> list N.

Record world := mkW { hp : nat -> list N; nxt : nat; res : list nat }.

Definition upd (h : nat -> list N) (b : nat) (c : list N) : nat -> list N :=
  fun x => if Nat.eqb x b then c else h x.

Definition w0 : world := mkW (fun _ => []) 0 [].

Inductive event :=
| ECall (input : list N)              (* the caller calls the entry point *)
| EWrite (k : nat) (c : list N).       (* the caller overwrites the result of its k-th call (from 0) *)

Definition alloc (p : policy) (w : world) : nat :=
  match p with Fresh => nxt w | Pooled => 0 end.

Definition step (p : policy) (w : world) (e : event) : world :=
  match e with
  | ECall i => let b := alloc p w in mkW (upd (hp w) b (F i)) (S (nxt w)) (res w ++ [b])
  | EWrite k c =>
      match nth_error (res w) k with
      | Some b => mkW (upd (hp w) b c) (nxt w) (res w)
      | None => w
      end
  end.

Definition run (p : policy) (h : list event) : world := fold_left (step p) h w0.

(** What the caller reads from the result of its k-th call. *)
Definition read (w : world) (k : nat) : option (list N) := option_map (hp w) (nth_error (res w) k).

(** Value semantics. *)
Fixpoint set_nth {A} (k : nat) (c : A) (l : list A) : list A :=
  match l, k with
  | [], _ => []
  | _ :: r, O => c :: r
  | x :: r, S k' => x :: set_nth k' c r
  end.

Definition spec_step (vals : list (list N)) (e : event) : list (list N) :=
  match e with
  | ECall i => vals ++ [F i]
  | EWrite k c => set_nth k c vals
  end.

Definition spec (h : list event) : list (list N) := fold_left spec_step h [].

(** ** Fresh buffers *)

Definition inv (w : world) (vals : list (list N)) : Prop :=
  nxt w = length vals /\ res w = seq 0 (length vals) /\
  forall k, k < length vals -> Some (hp w k) = nth_error vals k.

Lemma set_nth_length {A} (c : A) : forall l k, length (set_nth k c l) = length l.
Proof. induction l as [|x l IH]; intros [|k]; cbn; auto. Qed.

Lemma nth_error_set_nth {A} (c : A) : forall l k j,
  nth_error (set_nth k c l) j =
  if Nat.eqb j k then (if Nat.ltb k (length l) then Some c else nth_error l j) else nth_error l j.
Proof.
  induction l as [|x l IH]; intros k j; cbn [set_nth].
  - cbn [length]. replace (Nat.ltb k 0) with false by (symmetry; apply Nat.ltb_ge; lia).
    destruct k; destruct (Nat.eqb j _); reflexivity.
  - destruct k as [|k]; destruct j as [|j]; cbn [set_nth nth_error Nat.eqb length]; try reflexivity.
    rewrite IH. change (Nat.ltb (S k) (S (length l))) with (Nat.ltb k (length l)). reflexivity.
Qed.

Lemma nth_error_seq0 n k : k < n -> nth_error (seq 0 n) k = Some k.
Proof.
  intros H. rewrite (nth_error_nth' _ 0) by (rewrite seq_length; exact H).
  now rewrite seq_nth.
Qed.

Lemma inv_step w vals e : inv w vals -> inv (step Fresh w e) (spec_step vals e).
Proof.
  intros (Hn & Hr & Hh). destruct e as [i|k c]; cbn [step spec_step alloc].
  - unfold inv. cbn [nxt res hp]. rewrite app_length. cbn [length]. repeat split.
    + lia.
    + rewrite Hr, Hn. replace (length vals + 1) with (S (length vals)) by lia.
      now rewrite seq_S.
    + intros k Hk. unfold upd. destruct (Nat.eqb_spec k (nxt w)) as [->|Hne].
      * rewrite Hn, nth_error_app2 by lia. now rewrite Nat.sub_diag.
      * rewrite nth_error_app1 by lia. apply Hh. lia.
  - destruct (nth_error (res w) k) as [b|] eqn:E.
    + assert (Hk : k < length vals).
      { assert (Hs : nth_error (res w) k <> None) by congruence.
        apply nth_error_Some in Hs. now rewrite Hr, seq_length in Hs. }
      assert (b = k) by (rewrite Hr, (nth_error_seq0 _ _ Hk) in E; congruence). subst b.
      unfold inv. cbn [nxt res hp]. rewrite set_nth_length. repeat split; auto.
      intros j Hj. rewrite nth_error_set_nth. unfold upd.
      destruct (Nat.eqb_spec j k) as [->|Hne].
      * apply Nat.ltb_lt in Hk. now rewrite Hk.
      * now apply Hh.
    + assert (Hk : length vals <= k).
      { apply nth_error_None in E. now rewrite Hr, seq_length in E. }
      unfold inv. rewrite set_nth_length. repeat split; auto.
      intros j Hj. rewrite nth_error_set_nth.
      destruct (Nat.eqb_spec j k) as [->|Hne]; [lia|]. now apply Hh.
Qed.

Lemma inv_run : forall h w vals, inv w vals ->
  inv (fold_left (step Fresh) h w) (fold_left spec_step h vals).
Proof.
  induction h as [|e h IH]; intros w vals H; cbn [fold_left]; [exact H|].
  apply IH. now apply inv_step.
Qed.

(** With fresh buffers, after ANY history of calls and caller writes, what
    the caller reads from each result is what value semantics says. *)
Theorem fresh_is_spec : forall h k, read (run Fresh h) k = nth_error (spec h) k.
Proof.
  intros h k. assert (H0 : inv w0 []).
  { unfold inv, w0. cbn. repeat split; auto. intros j Hj. lia. }
  destruct (inv_run h w0 [] H0) as (Hn & Hr & Hh). fold (run Fresh h) in *. fold (spec h) in *.
  unfold read. rewrite Hr.
  destruct (Nat.lt_ge_cases k (length (spec h))) as [Hk|Hk].
  - rewrite (nth_error_seq0 _ _ Hk). cbn [option_map]. now apply Hh.
  - replace (nth_error (seq 0 (length (spec h))) k) with (@None nat)
      by (symmetry; apply nth_error_None; now rewrite seq_length).
    cbn [option_map]. symmetry. now apply nth_error_None.
Qed.

(** The number of calls of a history. *)
Definition ncalls (h : list event) : nat :=
  length (filter (fun e => match e with ECall _ => true | _ => false end) h).

Lemma spec_step_length vals e :
  length (spec_step vals e) = length vals + match e with ECall _ => 1 | _ => 0 end.
Proof.
  destruct e; cbn [spec_step]; [rewrite app_length; reflexivity|rewrite set_nth_length; lia].
Qed.

Lemma spec_fold_length : forall h vals,
  length (fold_left spec_step h vals) = length vals + ncalls h.
Proof.
  induction h as [|e h IH]; intros vals; cbn [fold_left]; [unfold ncalls; cbn; lia|].
  rewrite IH, spec_step_length. unfold ncalls. destruct e; cbn [filter length]; lia.
Qed.

Definition writes_to (k : nat) (e : event) : bool :=
  match e with EWrite j _ => Nat.eqb j k | _ => false end.

Lemma spec_keeps : forall h vals k v,
  nth_error vals k = Some v -> forallb (fun e => negb (writes_to k e)) h = true ->
  nth_error (fold_left spec_step h vals) k = Some v.
Proof.
  induction h as [|e h IH]; intros vals k v Hv Hw; cbn [fold_left]; [exact Hv|].
  cbn [forallb] in Hw. apply andb_true_iff in Hw as [He Hh]. apply IH; [|exact Hh].
  destruct e as [i|j c]; cbn [spec_step].
  - rewrite nth_error_app1; [exact Hv|]. apply nth_error_Some. congruence.
  - cbn [writes_to] in He. rewrite nth_error_set_nth.
    destruct (Nat.eqb_spec k j) as [->|Hne]; [rewrite Nat.eqb_refl in He; discriminate|exact Hv].
Qed.

(** The result of a call is [F] of that call's input and nothing else: after
    any history [h1], a call with input [i], and any later history [h2] in
    which the caller does not overwrite that very result, the caller reads
    [F i] from it - whatever [h1] and [h2] call and write. *)
Theorem fresh_result_stable : forall h1 i h2,
  forallb (fun e => negb (writes_to (ncalls h1) e)) h2 = true ->
  read (run Fresh (h1 ++ ECall i :: h2)) (ncalls h1) = Some (F i).
Proof.
  intros h1 i h2 Hw. rewrite fresh_is_spec. unfold spec. rewrite fold_left_app. cbn [fold_left].
  apply spec_keeps; [|exact Hw]. cbn [spec_step].
  pose proof (spec_fold_length h1 []) as Hl. cbn [length] in Hl.
  rewrite nth_error_app2 by lia. rewrite Hl. cbn. now rewrite Nat.sub_diag.
Qed.

(** ** A pooled buffer: the second call overwrites what the first caller
    still holds. *)
Theorem pooled_refuted : forall a b, F a <> F b ->
  read (run Pooled [ECall a; ECall b]) 0 = Some (F b) /\
  nth_error (spec [ECall a; ECall b]) 0 = Some (F a) /\
  read (run Pooled [ECall a; ECall b]) 0 <> nth_error (spec [ECall a; ECall b]) 0.
Proof.
  intros a b H. cbn. repeat split. intros E. injection E as E. now apply H.
Qed.

End Own.
