(** Models of the standard-library string functions the jsonx code calls:
    [strconv.Unquote] (on string tokens), [json.Marshal] of a Go string
    (encodeJSON), and [strconv.Quote] (the printer).

    A token literal is a list of runes (its Go string is their UTF-8
    encoding, always valid because the lexer writes runes it decoded).  The
    value of a Go string is a list of BYTES: "\xff" and octal escapes produce
    single bytes that need not be valid UTF-8. *)
From Coq Require Import List NArith Bool.
From Verif Require Import Lib.Utf8 Jsonx.Lex.
Import ListNotations.
Local Open Scope N_scope.

(** ** strconv.Unquote *)

Inductive ukind := KX | KU.   (* \x: one byte;  \u, \U: a code point *)

Inductive ustate :=
| UNormal
| UEsc
| UHex (k : nat) (kind : ukind) (v : N)   (* k digits still to read, k >= 1 *)
| UOct (k : nat) (v : N).

Definition unhex (c : N) : option N :=
  if is_digit c then Some (c - 48)
  else if in_range 97 102 c then Some (c - 87)
  else if in_range 65 70 c then Some (c - 55)
  else None.

Definition hex_final (kind : ukind) (v : N) : option (list N) :=
  match kind with
  | KX => Some [v]
  | KU => if valid_rune v then Some (encode_rune v) else None
  end.

Definition simple_escape_val (c : N) : option N :=
  if c =? 97 then Some 7 else if c =? 98 then Some 8 else if c =? 102 then Some 12
  else if c =? 110 then Some 10 else if c =? 114 then Some 13 else if c =? 116 then Some 9
  else if c =? 118 then Some 11 else if c =? 92 then Some 92 else if c =? 34 then Some 34
  else None.

(** Double-quoted form, after the opening quote. *)
Fixpoint unq_go (st : ustate) (s : list N) : option (list N) :=
  match s with
  | [] => None
  | c :: r =>
      match st with
      | UNormal =>
          if c =? 34 then match r with [] => Some [] | _ => None end
          else if c =? 10 then None
          else if c =? 92 then unq_go UEsc r
          else option_map (app (encode_rune c)) (unq_go UNormal r)
      | UEsc =>
          match simple_escape_val c with
          | Some b => option_map (cons b) (unq_go UNormal r)
          | None =>
              if c =? 120 then unq_go (UHex 2 KX 0) r
              else if c =? 117 then unq_go (UHex 4 KU 0) r
              else if c =? 85 then unq_go (UHex 8 KU 0) r
              else if in_range 48 55 c then unq_go (UOct 2 (c - 48)) r
              else None
          end
      | UHex k kind v =>
          match unhex c with
          | None => None
          | Some d =>
              let v' := v * 16 + d in
              match k with
              | S (S k') => unq_go (UHex (S k') kind v') r
              | _ =>
                  match hex_final kind v' with
                  | Some bs => option_map (app bs) (unq_go UNormal r)
                  | None => None
                  end
              end
          end
      | UOct k v =>
          if in_range 48 55 c then
            let v' := v * 8 + (c - 48) in
            match k with
            | S (S k') => unq_go (UOct (S k') v') r
            | _ => if 255 <? v' then None else option_map (cons v') (unq_go UNormal r)
            end
          else None
      end
  end.

(** Raw form, after the opening back quote: the first back quote must be the
    last rune; carriage returns are dropped. *)
Fixpoint unq_raw (s : list N) : option (list N) :=
  match s with
  | [] => None
  | c :: r =>
      if c =? 96 then match r with [] => Some [] | _ => None end
      else
        match unq_raw r with
        | Some bs => Some (if c =? 13 then bs else encode_rune c ++ bs)
        | None => None
        end
  end.

(** [go_unquote lit]: bytes of the string value, [None] for ErrSyntax.
    (Single-quoted literals are not produced by the jsonx/strtoken lexers;
    they are rejected here as by a two-rune minimum plus quote check.) *)
Definition go_unquote (lit : list N) : option (list N) :=
  match lit with
  | 34 :: body => unq_go UNormal body
  | 96 :: body => unq_raw body
  | _ => None
  end.

(** ** json.Marshal of a string (encoding/json appendString, escapeHTML) *)

Definition hex_digit (d : N) : N := if d <? 10 then 48 + d else 87 + d.

Definition json_esc_rune (r : N) : list N :=
  if r <? 128 then
    if (r =? 92) || (r =? 34) then [92; r]
    else if r =? 8 then [92; 98]
    else if r =? 12 then [92; 102]
    else if r =? 10 then [92; 110]
    else if r =? 13 then [92; 114]
    else if r =? 9 then [92; 116]
    else if (r <? 32) || (r =? 60) || (r =? 62) || (r =? 38) then
      [92; 117; 48; 48; hex_digit (r / 16); hex_digit (r mod 16)]
    else [r]
  else if (r =? 8232) || (r =? 8233) then [92; 117; 50; 48; 50; hex_digit (r mod 16)]
  else [r].

(** An undecodable byte is written as the escape \ufffd; a genuine U+FFFD
    in the string is copied. *)
Definition json_esc_item (o : option N) : list N :=
  match o with
  | Some r => json_esc_rune r
  | None => [92; 117; 102; 102; 102; 100]
  end.

(** Output as runes (the bytes json.Marshal writes are their UTF-8 encoding). *)
Definition json_quote (bs : list N) : list N :=
  34 :: flat_map json_esc_item (utf8_decode_opt bs) ++ [34].

(** ** strconv.Quote (the printer's strings and quoted keys).
    [is_print] is unicode.IsPrint, kept abstract. *)

(** [k] lower-case hexadecimal digits of [v], most significant first. *)
Fixpoint hex_n (k : nat) (v : N) : list N :=
  match k with
  | O => []
  | S k' => hex_n k' (v / 16) ++ [hex_digit (v mod 16)]
  end.

Definition go_quote_rune (is_print : N -> bool) (r : N) : list N :=
  if (r =? 34) || (r =? 92) then [92; r]
  else if is_print r then [r]
  else if r =? 7 then [92; 97]
  else if r =? 8 then [92; 98]
  else if r =? 12 then [92; 102]
  else if r =? 10 then [92; 110]
  else if r =? 13 then [92; 114]
  else if r =? 9 then [92; 116]
  else if r =? 11 then [92; 118]
  else if (r <? 32) || (r =? 127) then 92 :: 120 :: hex_n 2 r
  else if negb (valid_rune r) then 92 :: 117 :: hex_n 4 rune_error
  else if r <? 65536 then 92 :: 117 :: hex_n 4 r
  else 92 :: 85 :: hex_n 8 r.

(** On a string of valid runes (the printer only sees strings that went
    through encoding/json, hence valid UTF-8). *)
Definition go_quote (is_print : N -> bool) (rs : list N) : list N :=
  34 :: flat_map (go_quote_rune is_print) rs ++ [34].
