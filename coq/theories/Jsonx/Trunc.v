(** "Input that ends in the middle of a construct is rejected", end to end:
    read off the token list of the WHOLE input.  A string token whose literal
    does not end with its closing quote, a raw string token not ending with
    its back quote, a block comment token not ending with "*/" - wherever it
    stands, in particular at the end of a truncated input - makes Unmarshal
    and DecodeSeries fail; and strtoken.Parse fails on every input with a
    lexing error (an unterminated quote in particular).  Also: the theorems
    of C08 restated for byte strings (Go's UTF-8 decoding first). *)
From Coq Require Import List NArith Bool Lia Arith.
From Verif Require Import Lib.Utf8 Jsonx.Lex Jsonx.Tok Jsonx.GoStr Jsonx.Num Jsonx.Parse
  Jsonx.Json Jsonx.Encode Jsonx.LexProofs Jsonx.ParseProofs Jsonx.Term Jsonx.Balance Jsonx.Script
  Jsonx.ScriptProofs.
Import ListNotations.
Local Open Scope N_scope.

(** Every token of the list came out of one call of the lexer function. *)
Lemma lex_all_origin lexf white : forall fuel s toks t e,
  lex_all lexf white fuel s = Ok toks -> In (t, e) toks ->
  exists s' rest, s' <> [] /\ lexf s' = LTok t e rest.
Proof.
  induction fuel as [|f IH]; intros s toks t e H Hin; [discriminate|]. cbn [lex_all] in H.
  destruct (drop_while white s) as [|c r] eqn:Ed; [injection H as <-; contradiction|].
  destruct (lexf (c :: r)) as [t0 e0 rest|w] eqn:El; [|discriminate].
  destruct (lex_all lexf white f rest) as [l| |] eqn:Er; try discriminate.
  injection H as <-. destruct Hin as [Heq|Hin].
  - injection Heq as -> ->. exists (c :: r), rest. split; [discriminate|exact El].
  - eapply IH; eauto.
Qed.

Definition num_res (r : lexres) : Prop :=
  match r with LTok t _ _ => tty t = TInt \/ tty t = TFloat | LPanic _ => True end.

Lemma lex_number_num s : num_res (lex_number s).
Proof.
  unfold lex_number. destruct s as [|c r]; [exact I|].
  destruct (negb (is_digit c)); [exact I|].
  destruct (match r with 120 :: r2 => if c =? 48 then Some r2 else None | _ => None end).
  - destruct (span is_hex_digit l). cbn. now left.
  - destruct (span is_digit r) as [d1 r1].
    destruct (match r1 with
              | 46 :: r1' => let '(d2, r2) := span is_digit r1' in (true, 46 :: d2, r2)
              | _ => (false, [], r1) end) as [[fl1 frac] r2].
    repeat match goal with |- num_res (match ?X with _ => _ end) => destruct X end.
    cbn. destruct (fl1 || _); auto.
Qed.

(** A token of type string with a double quote first is what [lex_string]
    made of the input at that point; with a back quote, [lex_raw_string]; a
    comment starting with "/*", [lex_block_comment]. *)
Definition origin_tok (t : token) (e : list ecode) : Prop :=
  (tty t = TString -> forall l, tlit t = 34 :: l ->
     exists body rest, str_go 34 SNormal body = (l, rest, e)) /\
  (tty t = TString -> forall l, tlit t = 96 :: l ->
     exists body rest, raw_go body = (l, rest, e)) /\
  (tty t = TComment -> forall l, tlit t = 47 :: 42 :: l ->
     exists body rest, block_go false body = (l, rest, e)).

Definition origin_res (r : lexres) : Prop :=
  match r with LTok t e _ => origin_tok t e | LPanic _ => True end.

Lemma origin_other ty lit e :
  ty <> TString -> ty <> TComment -> origin_tok (mkTok ty lit) e.
Proof. intros H1 H2. repeat split; cbn [tty]; intros Ht; congruence. Qed.

Lemma lex_jsonx_origin s : origin_res (lex_jsonx s).
Proof.
  destruct s as [|c r]; [exact I|]. cbn [lex_jsonx].
  destruct (is_white c); [exact I|].
  destruct (c =? 10); [cbn; apply origin_other; discriminate|].
  destruct (N.eqb_spec c 34) as [->|H34].
  { cbn [lex_string]. rewrite N.eqb_refl.
    destruct (str_go 34 SNormal r) as [[l0 rest0] e0] eqn:Es. cbn.
    repeat split; cbn [tty tlit]; intros Ht l Hl; try discriminate.
    injection Hl as <-. eauto. }
  destruct (N.eqb_spec c 96) as [->|H96].
  { change (lex_raw_string (96 :: r))
      with (let '(l, rest, e) := raw_go r in LTok (mkTok TString (96 :: l)) e rest).
    destruct (raw_go r) as [[l0 rest0] e0] eqn:Es. cbn.
    repeat split; cbn [tty tlit]; intros Ht l Hl; try discriminate.
    injection Hl as <-. eauto. }
  destruct (is_digit c).
  { pose proof (lex_number_num (c :: r)) as Hn. destruct (lex_number (c :: r)) as [t e rest|w]; [|exact I].
    cbn in *. destruct t as [ty lit]. cbn [tty] in Hn. apply origin_other; destruct Hn; congruence. }
  destruct (is_ident_letter c) eqn:Ei.
  { cbn [lex_ident]. rewrite Ei. destruct (span is_ident_char r). cbn. apply origin_other; discriminate. }
  destruct (is_op_rune c); [cbn; apply origin_other; discriminate|].
  destruct (c =? 47).
  { destruct r as [|x r']; [cbn; apply origin_other; discriminate|].
    destruct (N.eqb_spec x 47) as [->|H47].
    - cbn [lex_line_comment]. destruct (span (fun x => negb (x =? 10)) r') as [sa sb]. cbn.
      repeat split; cbn [tty tlit]; intros Ht l1 Hl; discriminate.
    - destruct (N.eqb_spec x 42) as [->|H42].
      + cbn [lex_block_comment]. destruct (block_go false r') as [[l0 rest0] e0] eqn:Es. cbn.
        repeat split; cbn [tty tlit]; intros Ht l Hl; try discriminate.
        injection Hl as <-. eauto.
      + destruct x as [|p]; [cbn; apply origin_other; discriminate|].
        repeat (destruct p as [p|p|]; try (cbn; apply origin_other; discriminate)); contradiction. }
  destruct (c =? 59); cbn; apply origin_other; discriminate.
Qed.

Lemma jsonx_token_origin input raw t e :
  jsonx_raw_tokens input = Ok raw -> In (t, e) raw -> origin_tok t e.
Proof.
  intros Hraw Hin. destruct (lex_all_origin _ _ _ _ _ _ _ Hraw Hin) as (s' & rest & _ & Hl).
  pose proof (lex_jsonx_origin s') as Ho. now rewrite Hl in Ho.
Qed.

Section WithFloat.
Context {F : Type}.
Variable pf : list N -> option F.
Variable ff : F -> list N.

(** A lexing error is what the unterminated constructs produce. *)
Lemma unterminated_token_has_error input raw t e :
  jsonx_raw_tokens input = Ok raw -> In (t, e) raw ->
  (tty t = TString /\ exists l, tlit t = 34 :: l /\ forall l', l <> l' ++ [34]) \/
  (tty t = TString /\ exists l, tlit t = 96 :: l /\ forall l', l <> l' ++ [96]) \/
  (tty t = TComment /\ exists l, tlit t = 47 :: 42 :: l /\ forall l', l <> l' ++ [47]) ->
  e <> [].
Proof.
  intros Hraw Hin Hc. destruct (jsonx_token_origin _ _ _ _ Hraw Hin) as (H1 & H2 & H3).
  destruct Hc as [(Ht & l & Hl & Hn)|[(Ht & l & Hl & Hn)|(Ht & l & Hl & Hn)]].
  - destruct (H1 Ht l Hl) as (body & rest & Es).
    pose proof (unterminated_string_reported 34 body) as Hu. rewrite Es in Hu. cbn [fst snd] in Hu. auto.
  - destruct (H2 Ht l Hl) as (body & rest & Es).
    pose proof (unterminated_raw_string_reported body) as Hu. rewrite Es in Hu. cbn [fst snd] in Hu. auto.
  - destruct (H3 Ht l Hl) as (body & rest & Es).
    pose proof (unterminated_comment_reported body) as Hu. rewrite Es in Hu. cbn [fst snd] in Hu. auto.
Qed.

Theorem truncated_rejected_unmarshal input raw t e txt :
  jsonx_raw_tokens input = Ok raw -> In (t, e) raw ->
  (tty t = TString /\ exists l, tlit t = 34 :: l /\ forall l', l <> l' ++ [34]) \/
  (tty t = TString /\ exists l, tlit t = 96 :: l /\ forall l', l <> l' ++ [96]) \/
  (tty t = TComment /\ exists l, tlit t = 47 :: 42 :: l /\ forall l', l <> l' ++ [47]) ->
  unmarshal pf ff input <> Ok (UOk txt).
Proof.
  intros Hraw Hin Hc. eapply lex_error_rejected_unmarshal; eauto.
  eapply unterminated_token_has_error; eauto.
Qed.

Theorem truncated_rejected_series tm input raw t e res :
  jsonx_raw_tokens input = Ok raw -> In (t, e) raw ->
  (tty t = TString /\ exists l, tlit t = 34 :: l /\ forall l', l <> l' ++ [34]) \/
  (tty t = TString /\ exists l, tlit t = 96 :: l /\ forall l', l <> l' ++ [96]) \/
  (tty t = TComment /\ exists l, tlit t = 47 :: 42 :: l /\ forall l', l <> l' ++ [47]) ->
  decode_series pf ff tm input <> Ok (Some res, []).
Proof.
  intros Hraw Hin Hc. eapply lex_error_rejected_series; eauto.
  eapply unterminated_token_has_error; eauto.
Qed.

(** For every BYTE string (Go reads runes: undecodable bytes become U+FFFD),
    each entry point returns - a value without errors, or errors. *)
Theorem every_byte_string (bytes : list N) tm ops :
  (exists r, to_json pf ff (utf8_decode bytes) = Ok r /\ value_or_error r) /\
  (exists r, unmarshal pf ff (utf8_decode bytes) = Ok r) /\
  (exists r, decode_series pf ff tm (utf8_decode bytes) = Ok r /\ value_or_error r) /\
  (exists l, script pf ff tm (utf8_decode bytes) ops = Ok l /\ length l = length ops /\ Forall sres_seen l) /\
  (exists r, shell_parse (utf8_decode bytes) = Ok r /\ value_or_error r).
Proof.
  repeat split.
  - apply to_json_total.
  - apply unmarshal_total.
  - apply decode_series_total.
  - apply script_total_seen.
  - apply shell_parse_total.
Qed.

End WithFloat.

(** strtoken.Parse: a lexing error in any token (an unterminated quote, a bad
    escape, an illegal character) makes the call fail with the lexer's
    errors. *)
Theorem shell_lex_error_rejected input raw t e :
  shell_raw_tokens input = Ok raw -> In (t, e) raw -> e <> [] ->
  exists e0 es, shell_parse input = Ok (None, e0 :: es).
Proof.
  intros Hraw Hin He. unfold shell_parse. rewrite Hraw.
  pose proof (all_lex_errs_nonempty raw t e Hin He) as Hn.
  destruct (all_lex_errs raw) as [|e0 es]; [contradiction|]. eauto.
Qed.

Theorem shell_unterminated_quote_rejected input raw t e l :
  shell_raw_tokens input = Ok raw -> In (t, e) raw ->
  tty t = TString -> tlit t = 34 :: l -> (forall l', l <> l' ++ [34]) ->
  exists e0 es, shell_parse input = Ok (None, e0 :: es).
Proof.
  intros Hraw Hin Ht Hl Hn. eapply shell_lex_error_rejected; eauto.
  destruct (lex_all_origin _ _ _ _ _ _ _ Hraw Hin) as (s' & rest & Hne & Hlx).
  destruct s' as [|c r]; [contradiction|]. unfold lex_shell in Hlx.
  destruct (is_white c); [discriminate|].
  destruct (N.eqb_spec c 34) as [->|H34].
  - unfold lex_string in Hlx. rewrite N.eqb_refl in Hlx.
    destruct (str_go 34 SNormal r) as [[l0 rest0] e0] eqn:Es. injection Hlx as <- <- _.
    cbn [tlit] in Hl. injection Hl as <-.
    pose proof (unterminated_string_reported 34 r) as Hu. rewrite Es in Hu. cbn [fst snd] in Hu. auto.
  - destruct (is_bare_rune c) eqn:Hb.
    + unfold lex_bare in Hlx. rewrite Hb in Hlx. destruct (span is_bare_rune r).
      injection Hlx as <- _ _. discriminate.
    + injection Hlx as <- _ _. discriminate.
Qed.
