(** C08, truncated input: a document in which a bracket is left open (or
    closed once too often) is rejected by Unmarshal and by DecodeSeries.

    [bal l] is the number of "{" / "[" tokens of [l] minus the number of "}" /
    "]" tokens.  Whenever the parser returns without having recorded an error
    the tokens it consumed have balance 0. *)
From Coq Require Import List NArith ZArith Bool Lia.
From Verif Require Import Lib.Utf8 Jsonx.Lex Jsonx.Tok Jsonx.GoStr Jsonx.Num Jsonx.Parse
  Jsonx.Json Jsonx.Encode Jsonx.LexProofs Jsonx.ParseProofs Jsonx.Term.
Import ListNotations.
Local Open Scope Z_scope.

Definition tok_bal (t : ptok) : Z :=
  if ttype_eqb (pty t) TOperator then
    if lit_is t [123%N] || lit_is t [91%N] then 1
    else if lit_is t [125%N] || lit_is t [93%N] then -1 else 0
  else 0.

Definition bal (l : list ptok) : Z := fold_right (fun t a => tok_bal t + a) 0 l.

Lemma bal_app a b : bal (a ++ b) = bal a + bal b.
Proof.
  induction a as [|t a IH]; [reflexivity|]. cbn [app]. unfold bal in *. cbn [fold_right].
  rewrite IH. lia.
Qed.

Lemma bal_cons t l : bal (t :: l) = tok_bal t + bal l.
Proof. reflexivity. Qed.

(** The tokens not yet consumed (nothing once the cursor is the final EOF). *)
Definition pending (st : pstate) : list ptok :=
  if is_eof (cur st) then [] else cur st :: rest st.

Lemma pending_next st : wf st -> is_eof (cur st) = false ->
  pending st = cur st :: pending (p_next st).
Proof.
  intros [Hr _] He. unfold pending. rewrite He. f_equal. unfold p_next.
  destruct (rest st) as [|t r]; cbn [cur rest]; [reflexivity|].
  inversion Hr as [|? ? Ht _]; subst. now rewrite Ht.
Qed.

(** [good st]: well-formed, and the error state implies a recorded error. *)
Definition good (st : pstate) : Prop := wf st /\ (jail st = true -> perrs st <> []).

Lemma add_err_nonempty acc e : add_err acc e <> [].
Proof.
  unfold add_err. destruct (Nat.ltb (length acc) max_errs) eqn:E.
  - destruct acc; discriminate.
  - destruct acc; [discriminate|discriminate].
Qed.

Lemma good_reach st st' : reach st st' -> good st -> good st'.
Proof.
  intros Hr [Hw Hj]. split; [eapply wf_reach; eauto|].
  clear Hw. induction Hr as [st|st st' Hr IH|e st st' Hr IH|st st' Hr IH]; [exact Hj| | |]; apply IH.
  - rewrite jail_next. intros Hjt. specialize (Hj Hjt). unfold p_next. now destruct (rest st).
  - intros _. apply add_err_nonempty.
  - intros H. discriminate.
Qed.

Lemma no_err_back st st' : reach st st' -> perrs st' = [] -> perrs st = [].
Proof.
  intros Hr He. destruct (perrs st) eqn:E; [reflexivity|]. exfalso.
  apply (perrs_reach _ _ Hr); [rewrite E; discriminate|exact He].
Qed.

Lemma good_clean st : good st -> perrs st = [] -> jail st = false.
Proof. intros [_ Hj] He. destruct (jail st); [exfalso; now apply Hj|reflexivity]. Qed.

Lemma add_not_clean e st st' : reach (p_add e st) st' -> perrs st' <> [].
Proof. intros Hr. apply (perrs_reach _ _ Hr). apply add_err_nonempty. Qed.

Lemma list_N_eqb_eq a b : list_N_eqb a b = true -> a = b.
Proof.
  revert b. induction a as [|x a IH]; intros [|y b] H; try discriminate; [reflexivity|].
  cbn in H. apply andb_true_iff in H as [H1 H2]. apply N.eqb_eq in H1. subst. f_equal. auto.
Qed.

Lemma tok_bal_not_op t : ttype_eqb (pty t) TOperator = false -> tok_bal t = 0.
Proof. intros H. unfold tok_bal. now rewrite H. Qed.

Lemma tok_bal_lit t l v :
  pty t = TOperator -> lit_is t l = true ->
  (if list_N_eqb l [123%N] || list_N_eqb l [91%N] then 1
   else if list_N_eqb l [125%N] || list_N_eqb l [93%N] then -1 else 0) = v ->
  tok_bal t = v.
Proof.
  intros Hp Hl Hv. unfold tok_bal, lit_is in *. rewrite Hp. cbn [ttype_eqb].
  apply list_N_eqb_eq in Hl. now rewrite Hl.
Qed.

Lemma see_op_bal op st v : see_op [op] st = true ->
  (if list_N_eqb op [123%N] || list_N_eqb op [91%N] then 1
   else if list_N_eqb op [125%N] || list_N_eqb op [93%N] then -1 else 0) = v ->
  tok_bal (cur st) = v.
Proof.
  unfold see_op, p_see. intros H Hv. apply andb_true_iff in H as [H1 H2].
  apply ttype_eqb_eq in H1. cbn [existsb] in H2. rewrite orb_false_r in H2.
  eapply tok_bal_lit; eauto.
Qed.

Section WithFloat.
Context {F : Type}.
Variable pf : list N -> option F.
Variable ff : F -> list N.

(** Consuming the current (non-EOF) token. *)
Lemma consume st : good st -> is_eof (cur st) = false ->
  pending st = [cur st] ++ pending (p_next st).
Proof. intros [Hw _] He. now rewrite (pending_next st Hw He). Qed.

Definition C (st st' : pstate) : Prop :=
  exists c, pending st = c ++ pending st' /\ bal c = 0.

Lemma C_refl st : C st st.
Proof. exists []. split; reflexivity. Qed.

Lemma C_trans a b c : C a b -> C b c -> C a c.
Proof.
  intros (x & Hx & Bx) (y & Hy & By). exists (x ++ y). split.
  - now rewrite Hx, Hy, app_assoc.
  - rewrite bal_app. lia.
Qed.

Lemma C_next st : good st -> is_eof (cur st) = false -> tok_bal (cur st) = 0 -> C st (p_next st).
Proof.
  intros Hg He Hb. exists [cur st]. split; [now apply consume|]. cbn. lia.
Qed.

Lemma psv_clean t st st' : snd (parse_string_value t st) = st' -> perrs st' = [] -> st' = st.
Proof.
  unfold parse_string_value. destruct (go_unquote (plit t)); cbn [snd]; intros <- H; [reflexivity|].
  exfalso. revert H. apply (add_not_clean EStringLit st). apply R_refl.
Qed.

Lemma pfv_clean t st st' : snd (parse_float_value pf t st) = st' -> perrs st' = [] -> st' = st.
Proof.
  unfold parse_float_value. destruct (pf (plit t)); cbn [snd]; intros <- H; [reflexivity|].
  exfalso. revert H. apply (add_not_clean EFloatLit st). apply R_refl.
Qed.

Lemma expect_op_clean op st : good st -> perrs (snd (expect_op op st)) = [] ->
  see_op [op] st = true /\ snd (expect_op op st) = p_next st.
Proof.
  intros Hg He. unfold expect_op in *. destruct (jail st) eqn:Ej.
  - cbn [snd] in He. rewrite (good_clean st Hg He) in Ej. discriminate.
  - destruct (see_op [op] st); [auto|]. cbn [snd] in He. exfalso. revert He.
    apply (add_not_clean EExpectOp st). apply R_refl.
Qed.

Lemma ident_list_C f : forall st acc v st',
  @parse_ident_list F f st acc = Some (v, st') -> good st -> perrs st' = [] -> C st st'.
Proof.
  induction f as [|f IH]; intros st acc v st' H Hg He; [discriminate|].
  cbn [parse_ident_list] in H. unfold p_expect in H.
  destruct (jail st) eqn:Ej.
  { cbn [negb] in H. injection H as _ <-. apply C_refl. }
  destruct (p_see TIdent st) eqn:Es.
  2:{ cbn [negb] in H. injection H as _ <-. exfalso. revert He.
      apply (add_not_clean EUnexpected st). apply R_refl. }
  cbn [negb] in H.
  assert (Hne : is_eof (cur st) = false) by (apply (see_not_eof _ _ Es); discriminate).
  assert (Hb : tok_bal (cur st) = 0).
  { apply tok_bal_not_op. unfold p_see in Es. apply ttype_eqb_eq in Es. now rewrite Es. }
  pose proof (C_next st Hg Hne Hb) as C1.
  assert (Hg1 : good (p_next st)) by (eapply good_reach; [apply reach_next|exact Hg]).
  destruct (see_op [[46%N]] (p_next st)) eqn:Ed.
  - assert (Hne2 : is_eof (cur (p_next st)) = false) by (apply (see_op_not_eof _ _ Ed)).
    assert (Hb2 : tok_bal (cur (p_next st)) = 0) by (eapply see_op_bal; [exact Ed|reflexivity]).
    pose proof (C_next _ Hg1 Hne2 Hb2) as C2.
    assert (Hg2 : good (p_next (p_next st))) by (eapply good_reach; [apply reach_next|exact Hg1]).
    eapply C_trans; [exact C1|]. eapply C_trans; [exact C2|]. eapply IH; eauto.
  - injection H as _ <-. exact C1.
Qed.

Lemma parse_all_C f :
  (forall st v st', parse_value pf f st = Some (v, st') -> good st -> perrs st' = [] -> C st st') /\
  (forall st acc es st', parse_object_entries pf f st acc = Some (es, st') -> good st ->
     perrs st' = [] -> C st st' /\ see_op [[125%N]] st' = true) /\
  (forall st acc es st', parse_list_entries pf f st acc = Some (es, st') -> good st ->
     perrs st' = [] -> C st st' /\ see_op [[93%N]] st' = true).
Proof.
  induction f as [|f (IH1 & IH2 & IH3)]; [repeat split; intros; discriminate|].
  assert (Hsimple : forall st, good st -> ttype_eqb (pty (cur st)) TOperator = false ->
            is_eof (cur st) = false -> C st (p_next st)).
  { intros st Hg Hop Hne. apply C_next; auto. now apply tok_bal_not_op. }
  split; [|split].
  - intros st v st' H Hg He. rewrite parse_value_S in H. unfold pv_body in H.
    destruct (pty (cur st)) eqn:Ety.
    + (* keyword *)
      assert (Hne : is_eof (cur st) = false) by (apply (pty_not_eof _ _ Ety); discriminate).
      assert (Hop : ttype_eqb (pty (cur st)) TOperator = false) by now rewrite Ety.
      destruct (list_N_eqb _ lit_true); [injection H as _ <-; auto|].
      destruct (list_N_eqb _ lit_false); [injection H as _ <-; auto|].
      destruct (list_N_eqb _ lit_null); injection H as _ <-; [auto|].
      exfalso. revert He. apply (add_not_clean EUnexpectedKeyword (p_next st)). apply R_refl.
    + eapply ident_list_C; eauto.
    + (* string *)
      assert (Hne : is_eof (cur st) = false) by (apply (pty_not_eof _ _ Ety); discriminate).
      assert (Hop : ttype_eqb (pty (cur st)) TOperator = false) by now rewrite Ety.
      destruct (parse_string_value (cur st) (p_next st)) as [bs st2] eqn:Ep. injection H as _ <-.
      rewrite (psv_clean (cur st) (p_next st) st2 ltac:(now rewrite Ep) He). auto.
    + (* int *)
      assert (Hne : is_eof (cur st) = false) by (apply (pty_not_eof _ _ Ety); discriminate).
      assert (Hop : ttype_eqb (pty (cur st)) TOperator = false) by now rewrite Ety.
      injection H as _ <-. auto.
    + (* float *)
      assert (Hne : is_eof (cur st) = false) by (apply (pty_not_eof _ _ Ety); discriminate).
      assert (Hop : ttype_eqb (pty (cur st)) TOperator = false) by now rewrite Ety.
      destruct (parse_float_value pf (cur st) (p_next st)) as [fv st2] eqn:Ep. injection H as _ <-.
      rewrite (pfv_clean (cur st) (p_next st) st2 ltac:(now rewrite Ep) He). auto.
    + (* operator *)
      assert (Hne : is_eof (cur st) = false) by (apply (pty_not_eof _ _ Ety); discriminate).
      assert (Hg1 : good (p_next st)) by (eapply good_reach; [apply reach_next|exact Hg]).
      destruct (lit_is (cur st) [43%N] || lit_is (cur st) [45%N]) eqn:Esg.
      { assert (Hb : tok_bal (cur st) = 0).
        { apply orb_true_iff in Esg as [E|E]; eapply tok_bal_lit; eauto. }
        pose proof (C_next st Hg Hne Hb) as C1.
        destruct (pty (cur (p_next st))) eqn:Ety2;
          try (injection H as _ <-; exfalso; revert He;
               apply (add_not_clean EExpectNumber (p_next st)); apply R_refl).
        - assert (Hne2 : is_eof (cur (p_next st)) = false) by (apply (pty_not_eof _ _ Ety2); discriminate).
          injection H as _ <-. eapply C_trans; [exact C1|]. apply Hsimple; auto. now rewrite Ety2.
        - assert (Hne2 : is_eof (cur (p_next st)) = false) by (apply (pty_not_eof _ _ Ety2); discriminate).
          destruct (parse_float_value pf (cur (p_next st)) (p_next (p_next st))) as [fv st2] eqn:Ep.
          injection H as _ <-.
          rewrite (pfv_clean _ _ st2 ltac:(now rewrite Ep) He).
          eapply C_trans; [exact C1|]. apply Hsimple; auto. now rewrite Ety2. }
      destruct (lit_is (cur st) [123%N]) eqn:Eob.
      { destruct (parse_object_entries pf f (p_next st) []) as [[es st2]|] eqn:E; [|discriminate].
        injection H as _ <-.
        pose proof (proj1 (proj2 (parse_all_reach pf f)) _ _ _ _ E) as Hr2.
        assert (Hg2 : good st2) by (eapply good_reach; eauto).
        destruct (expect_op_clean [125%N] st2 Hg2 He) as [Hsee Heq].
        assert (He2 : perrs st2 = []).
        { eapply no_err_back; [apply reach_expect_op|exact He]. }
        destruct (IH2 _ _ _ _ E Hg1 He2) as [(c & Hc & Bc) _].
        rewrite Heq.
        exists ([cur st] ++ c ++ [cur st2]). split.
        - rewrite (consume st Hg Hne), Hc, (consume st2 Hg2 (see_op_not_eof _ _ Hsee)).
          now rewrite <- !app_assoc.
        - rewrite !bal_app. cbn [bal fold_right].
          rewrite (tok_bal_lit (cur st) [123%N] 1 Ety Eob eq_refl).
          rewrite (see_op_bal [125%N] st2 (-1) Hsee eq_refl). lia. }
      destruct (lit_is (cur st) [91%N]) eqn:Eol.
      { destruct (parse_list_entries pf f (p_next st) []) as [[es st2]|] eqn:E; [|discriminate].
        injection H as _ <-.
        pose proof (proj2 (proj2 (parse_all_reach pf f)) _ _ _ _ E) as Hr2.
        assert (Hg2 : good st2) by (eapply good_reach; eauto).
        destruct (expect_op_clean [93%N] st2 Hg2 He) as [Hsee Heq].
        assert (He2 : perrs st2 = []).
        { eapply no_err_back; [apply reach_expect_op|exact He]. }
        destruct (IH3 _ _ _ _ E Hg1 He2) as [(c & Hc & Bc) _].
        rewrite Heq.
        exists ([cur st] ++ c ++ [cur st2]). split.
        - rewrite (consume st Hg Hne), Hc, (consume st2 Hg2 (see_op_not_eof _ _ Hsee)).
          now rewrite <- !app_assoc.
        - rewrite !bal_app. cbn [bal fold_right].
          rewrite (tok_bal_lit (cur st) [91%N] 1 Ety Eol eq_refl).
          rewrite (see_op_bal [93%N] st2 (-1) Hsee eq_refl). lia. }
      injection H as _ <-. exfalso. revert He. apply (add_not_clean EExpectOperand st). apply R_refl.
    + injection H as _ <-. exfalso. revert He. apply (add_not_clean EExpectOperand st). apply R_refl.
    + injection H as _ <-. exfalso. revert He. apply (add_not_clean EExpectOperand st). apply R_refl.
    + injection H as _ <-. exfalso. revert He. apply (add_not_clean EExpectOperand st). apply R_refl.
    + injection H as _ <-. exfalso. revert He. apply (add_not_clean EExpectOperand st). apply R_refl.
    + injection H as _ <-. exfalso. revert He. apply (add_not_clean EExpectOperand st). apply R_refl.
    + injection H as _ <-. exfalso. revert He. apply (add_not_clean EExpectOperand st). apply R_refl.
  - (* object entries *)
    intros st acc es st' H Hg He. rewrite parse_object_entries_S in H. unfold poe_body in H.
    destruct (see_op [[125%N]] st) eqn:Ecl; [injection H as _ <-; split; [apply C_refl|exact Ecl]|].
    destruct (p_see TIdent st || p_see TString st) eqn:Ek; cbn [negb] in H.
    2:{ injection H as _ <-. exfalso. revert He.
        apply (add_not_clean EExpectObjectEntry st). apply R_refl. }
    assert (Hne : is_eof (cur st) = false).
    { apply orb_true_iff in Ek as [Ek|Ek]; apply (see_not_eof _ _ Ek); discriminate. }
    assert (Hop : ttype_eqb (pty (cur st)) TOperator = false).
    { unfold p_see in Ek. apply orb_true_iff in Ek as [Ek|Ek]; apply ttype_eqb_eq in Ek; now rewrite Ek. }
    assert (Hg1 : good (p_next st)) by (eapply good_reach; [apply reach_next|exact Hg]).
    set (kvst := if ttype_eqb (pty (cur st)) TString
                 then let '(bs, st2) := parse_string_value (cur st) (p_next st) in
                      (KStr (plit (cur st)) bs, st2)
                 else (KIdent (plit (cur st)), p_next st)) in *.
    assert (Hk : reach (p_next st) (snd kvst) /\ (perrs (snd kvst) = [] -> snd kvst = p_next st)).
    { subst kvst. destruct (ttype_eqb _ _); [|split; [apply R_refl|auto]].
      pose proof (reach_psv (cur st) (p_next st)) as Hr.
      pose proof (psv_clean (cur st) (p_next st)) as Hc.
      destruct (parse_string_value (cur st) (p_next st)) as [bs st2]. cbn [snd] in *.
      split; [exact Hr|]. intros E. now apply Hc. }
    destruct kvst as [kv st2]. cbn [snd] in Hk. destruct Hk as [Hr2 Hc2].
    destruct (parse_value pf f (snd (expect_op [58%N] st2))) as [[v st4]|] eqn:E; [|discriminate].
    pose proof (parse_value_reach pf _ _ _ _ E) as Hr4.
    set (st5 := if see_op [[44%N]] st4 then p_next st4
                else if negb (see_op [[125%N]] st4) then snd (expect_op [44%N] st4) else st4) in *.
    assert (Hr5 : reach st4 st5).
    { subst st5. destruct (see_op [[44%N]] st4); [apply reach_next|].
      destruct (negb _); [apply reach_expect_op|apply R_refl]. }
    assert (Hr5' : reach st5 st').
    { destruct (jail st5); [injection H as _ <-; apply R_refl|].
      exact (proj1 (proj2 (parse_all_reach pf f)) _ _ _ _ H). }
    assert (He5 : perrs st5 = []) by (eapply no_err_back; eauto).
    assert (He4 : perrs st4 = []) by (eapply no_err_back; eauto).
    assert (He3 : perrs (snd (expect_op [58%N] st2)) = []) by (eapply no_err_back; eauto).
    assert (He2 : perrs st2 = []) by (eapply no_err_back; [apply reach_expect_op|exact He3]).
    specialize (Hc2 He2). subst st2.
    destruct (expect_op_clean [58%N] (p_next st) Hg1 He3) as [Hcolon Heq3].
    rewrite Heq3 in *.
    assert (Hg3 : good (p_next (p_next st))) by (eapply good_reach; [apply reach_next|exact Hg1]).
    assert (Hg4 : good st4) by (eapply good_reach; eauto).
    assert (Hg5 : good st5) by (eapply good_reach; eauto).
    pose proof (IH1 _ _ _ E Hg3 He4) as C34.
    assert (C01 : C st (p_next st)) by (apply C_next; auto; now apply tok_bal_not_op).
    assert (C13 : C (p_next st) (p_next (p_next st))).
    { apply C_next; [exact Hg1|exact (see_op_not_eof _ _ Hcolon)|].
      eapply see_op_bal; [exact Hcolon|reflexivity]. }
    assert (C45 : C st4 st5).
    { subst st5. destruct (see_op [[44%N]] st4) eqn:Ecm.
      - apply C_next; [exact Hg4|exact (see_op_not_eof _ _ Ecm)|].
        eapply see_op_bal; [exact Ecm|reflexivity].
      - destruct (see_op [[125%N]] st4) eqn:Ecl4; cbn [negb] in *; [apply C_refl|].
        destruct (expect_op_clean [44%N] st4 Hg4 He5) as [Hs _]. congruence. }
    assert (C05 : C st st5).
    { eapply C_trans; [exact C01|]. eapply C_trans; [exact C13|]. eapply C_trans; eauto. }
    rewrite (good_clean st5 Hg5 He5) in H.
    destruct (IH2 _ _ _ _ H Hg5 He) as [C5 Hsee]. split; [eapply C_trans; eauto|exact Hsee].
  - (* list entries *)
    intros st acc es st' H Hg He. rewrite parse_list_entries_S in H. unfold ple_body in H.
    destruct (see_op [[93%N]] st) eqn:Ecl; [injection H as _ <-; split; [apply C_refl|exact Ecl]|].
    destruct (parse_value pf f st) as [[v st1]|] eqn:E; [|discriminate].
    pose proof (parse_value_reach pf _ _ _ _ E) as Hr1.
    set (st2 := if see_op [[44%N]] st1 then p_next st1
                else if negb (see_op [[93%N]] st1) then snd (expect_op [44%N] st1) else st1) in *.
    assert (Hr2 : reach st1 st2).
    { subst st2. destruct (see_op [[44%N]] st1); [apply reach_next|].
      destruct (negb _); [apply reach_expect_op|apply R_refl]. }
    assert (Hr2' : reach st2 st').
    { destruct (jail st2); [injection H as _ <-; apply R_refl|].
      exact (proj2 (proj2 (parse_all_reach pf f)) _ _ _ _ H). }
    assert (He2 : perrs st2 = []) by (eapply no_err_back; eauto).
    assert (He1 : perrs st1 = []) by (eapply no_err_back; eauto).
    assert (Hg1 : good st1) by (eapply good_reach; eauto).
    assert (Hg2 : good st2) by (eapply good_reach; eauto).
    pose proof (IH1 _ _ _ E Hg He1) as C01.
    assert (C12 : C st1 st2).
    { subst st2. destruct (see_op [[44%N]] st1) eqn:Ecm.
      - apply C_next; [exact Hg1|exact (see_op_not_eof _ _ Ecm)|].
        eapply see_op_bal; [exact Ecm|reflexivity].
      - destruct (see_op [[93%N]] st1) eqn:Ecl1; cbn [negb] in *; [apply C_refl|].
        destruct (expect_op_clean [44%N] st1 Hg1 He2) as [Hs _]. congruence. }
    rewrite (good_clean st2 Hg2 He2) in H.
    destruct (IH3 _ _ _ _ H Hg2 He) as [C2 Hsee].
    split; [eapply C_trans; [exact C01|]; eapply C_trans; eauto|exact Hsee].
Qed.

Lemma p_init_good s : Forall (fun t => is_eof t = false) (sbody s) -> good (p_init s).
Proof.
  intros H. split; [apply (p_init_wf s H)|]. unfold p_init, p_next. cbn [rest].
  destruct (sbody s); cbn [jail]; discriminate.
Qed.

Lemma pending_init s : Forall (fun t => is_eof t = false) (sbody s) -> pending (p_init s) = sbody s.
Proof.
  intros H. unfold pending, p_init, p_next. cbn [rest]. destruct (sbody s) as [|t r]; cbn [cur rest].
  - reflexivity.
  - inversion H as [|? ? Ht _]; subst. now rewrite Ht.
Qed.

(** Unmarshal accepts only documents whose brackets balance. *)
Theorem unmarshal_stream_ok_balanced s t :
  Forall (fun t => is_eof t = false) (sbody s) ->
  unmarshal_stream pf ff s = Some (UOk t) -> bal (sbody s) = 0.
Proof.
  intros Hb H. unfold unmarshal_stream in H.
  pose proof (p_init_good s Hb) as Hg.
  destruct (parse_value pf _ (p_init s)) as [[v st1]|] eqn:E; [|discriminate].
  pose proof (parse_value_reach pf _ _ _ _ E) as Hr.
  destruct (p_errs st1) eqn:Ep; [|discriminate].
  destruct (marshal_value ff v) as [[t'|] es]; [|discriminate].
  destruct (json_valid t'); [|discriminate].
  assert (He1 : perrs st1 = []).
  { unfold p_errs in Ep. destruct (pcum (cur st1)); [exact Ep|discriminate]. }
  assert (Hg1 : good st1) by (eapply good_reach; eauto).
  destruct (proj1 (parse_all_C _) _ _ _ E Hg He1) as (c & Hc & Bc).
  rewrite (pending_init s Hb) in Hc.
  set (st2 := if p_see TSemi st1 then p_next st1 else st1) in *.
  destruct (p_see TEOF st2) eqn:Ee; [|discriminate].
  assert (C12 : C st1 st2).
  { subst st2. destruct (p_see TSemi st1) eqn:Es; [|apply C_refl].
    apply C_next; [exact Hg1|apply (see_not_eof _ _ Es); discriminate|].
    apply tok_bal_not_op. unfold p_see in Es. apply ttype_eqb_eq in Es. now rewrite Es. }
  destruct C12 as (c2 & Hc2 & Bc2).
  assert (Hp2 : pending st2 = []).
  { unfold pending, is_eof. unfold p_see in Ee. now rewrite Ee. }
  rewrite Hc, Hc2, Hp2, app_nil_r, bal_app. lia.
Qed.

Lemma skip_clean st : good st -> perrs st = [] -> skip_err_stmt st = (false, st).
Proof. intros Hg He. unfold skip_err_stmt. now rewrite (good_clean st Hg He). Qed.

Lemma parse_series_C f : forall st acc es st',
  parse_series pf f st acc = Some (es, st') -> good st -> perrs st' = [] ->
  C st st' /\ p_see TEOF st' = true.
Proof.
  induction f as [|f IH]; intros st acc es st' H Hg He; [discriminate|].
  cbn [parse_series] in H. destruct (p_see TEOF st) eqn:Ee.
  { injection H as _ <-. split; [apply C_refl|exact Ee]. }
  assert (Hne : is_eof (cur st) = false) by exact Ee.
  pose proof (parse_type_name_reach st) as Hrn.
  unfold parse_type_name in H, Hrn.
  assert (Hg1 : good (p_next st)) by (eapply good_reach; [apply reach_next|exact Hg]).
  destruct (pty (cur st)) eqn:Ety;
    try (exfalso; revert He; cbn [snd] in *;
         apply (add_not_clean EExpectTypeName st);
         eapply reach_trans; [apply reach_skip|]; eapply parse_series_reach; exact H).
  - (* identifier *)
    assert (C01 : C st (p_next st)).
    { apply C_next; auto. apply tok_bal_not_op. now rewrite Ety. }
    destruct (parse_value pf f (p_next st)) as [[v st2]|] eqn:E; [|discriminate].
    pose proof (parse_value_reach pf _ _ _ _ E) as Hr2.
    assert (Hg2 : good st2) by (eapply good_reach; eauto).
    assert (Hrest : reach st2 st').
    { destruct (skip_err_stmt st2) as [sk st3] eqn:Es.
      pose proof (reach_skip st2) as R3. rewrite Es in R3. cbn [snd] in R3.
      destruct sk.
      - eapply reach_trans; [exact R3|]. eapply parse_series_reach; exact H.
      - eapply reach_trans; [exact R3|].
        eapply reach_trans; [apply (reach_p_expect TSemi)|].
        eapply reach_trans; [apply reach_skip|]. eapply parse_series_reach; exact H. }
    assert (He2 : perrs st2 = []) by (eapply no_err_back; eauto).
    pose proof (proj1 (parse_all_C f) _ _ _ E Hg1 He2) as C12.
    rewrite (skip_clean st2 Hg2 He2) in H.
    assert (Hr4 : reach (snd (p_expect TSemi st2)) st').
    { eapply reach_trans; [apply reach_skip|]. eapply parse_series_reach; exact H. }
    assert (He4 : perrs (snd (p_expect TSemi st2)) = []) by (eapply no_err_back; eauto).
    assert (Hsemi : p_see TSemi st2 = true /\ snd (p_expect TSemi st2) = p_next st2).
    { unfold p_expect in *. rewrite (good_clean st2 Hg2 He2) in *.
      destruct (p_see TSemi st2); [auto|]. cbn [snd] in He4. exfalso. revert He4.
      apply (add_not_clean EUnexpected st2). apply R_refl. }
    destruct Hsemi as [Hs Heq]. rewrite Heq in *.
    assert (Hg4 : good (p_next st2)) by (eapply good_reach; [apply reach_next|exact Hg2]).
    rewrite (skip_clean _ Hg4 He4) in H. cbn [snd] in H.
    destruct (IH _ _ _ _ H Hg4 He) as [C4 Hend].
    assert (C24 : C st2 (p_next st2)).
    { apply C_next; [exact Hg2|apply (see_not_eof _ _ Hs); discriminate|].
      apply tok_bal_not_op. unfold p_see in Hs. apply ttype_eqb_eq in Hs. now rewrite Hs. }
    split; [|exact Hend].
    eapply C_trans; [exact C01|]. eapply C_trans; [exact C12|]. eapply C_trans; eauto.
  - (* string *)
    assert (C01 : C st (p_next st)).
    { apply C_next; auto. apply tok_bal_not_op. now rewrite Ety. }
    pose proof (reach_psv (cur st) (p_next st)) as Hrs.
    pose proof (psv_clean (cur st) (p_next st)) as Hcs.
    destruct (parse_string_value (cur st) (p_next st)) as [bs st1]. cbn [snd] in *.
    destruct (parse_value pf f st1) as [[v st2]|] eqn:E; [|discriminate].
    pose proof (parse_value_reach pf _ _ _ _ E) as Hr2.
    assert (Hgs : good st1) by (eapply good_reach; eauto).
    assert (Hg2 : good st2) by (eapply good_reach; eauto).
    assert (Hrest : reach st2 st').
    { destruct (skip_err_stmt st2) as [sk st3] eqn:Es.
      pose proof (reach_skip st2) as R3. rewrite Es in R3. cbn [snd] in R3.
      destruct sk.
      - eapply reach_trans; [exact R3|]. eapply parse_series_reach; exact H.
      - eapply reach_trans; [exact R3|].
        eapply reach_trans; [apply (reach_p_expect TSemi)|].
        eapply reach_trans; [apply reach_skip|]. eapply parse_series_reach; exact H. }
    assert (He2 : perrs st2 = []) by (eapply no_err_back; eauto).
    assert (He1 : perrs st1 = []) by (eapply no_err_back; eauto).
    specialize (Hcs st1 eq_refl He1). subst st1.
    pose proof (proj1 (parse_all_C f) _ _ _ E Hg1 He2) as C12.
    rewrite (skip_clean st2 Hg2 He2) in H.
    assert (Hr4 : reach (snd (p_expect TSemi st2)) st').
    { eapply reach_trans; [apply reach_skip|]. eapply parse_series_reach; exact H. }
    assert (He4 : perrs (snd (p_expect TSemi st2)) = []) by (eapply no_err_back; eauto).
    assert (Hsemi : p_see TSemi st2 = true /\ snd (p_expect TSemi st2) = p_next st2).
    { unfold p_expect in *. rewrite (good_clean st2 Hg2 He2) in *.
      destruct (p_see TSemi st2); [auto|]. cbn [snd] in He4. exfalso. revert He4.
      apply (add_not_clean EUnexpected st2). apply R_refl. }
    destruct Hsemi as [Hs Heq]. rewrite Heq in *.
    assert (Hg4 : good (p_next st2)) by (eapply good_reach; [apply reach_next|exact Hg2]).
    rewrite (skip_clean _ Hg4 He4) in H. cbn [snd] in H.
    destruct (IH _ _ _ _ H Hg4 He) as [C4 Hend].
    assert (C24 : C st2 (p_next st2)).
    { apply C_next; [exact Hg2|apply (see_not_eof _ _ Hs); discriminate|].
      apply tok_bal_not_op. unfold p_see in Hs. apply ttype_eqb_eq in Hs. now rewrite Hs. }
    split; [|exact Hend].
    eapply C_trans; [exact C01|]. eapply C_trans; [exact C12|]. eapply C_trans; eauto.
Qed.

(** DecodeSeries accepts only files whose brackets balance. *)
Theorem decode_series_stream_ok_balanced tm s res :
  Forall (fun t => is_eof t = false) (sbody s) ->
  decode_series_stream pf ff tm s = Some (Some res, []) -> bal (sbody s) = 0.
Proof.
  intros Hb H. unfold decode_series_stream in H.
  pose proof (p_init_good s Hb) as Hg.
  destruct (parse_series pf _ (p_init s) []) as [[es st1]|] eqn:E; [|discriminate].
  destruct (p_errs st1) eqn:Ep; [|discriminate].
  assert (He1 : perrs st1 = []).
  { unfold p_errs in Ep. destruct (pcum (cur st1)); [exact Ep|discriminate]. }
  destruct (parse_series_C _ _ _ _ _ E Hg He1) as [(c & Hc & Bc) Hend].
  rewrite (pending_init s Hb) in Hc.
  assert (Hp : pending st1 = []).
  { unfold pending, is_eof. unfold p_see in Hend. now rewrite Hend. }
  now rewrite Hc, Hp, app_nil_r.
Qed.

(** ** A Decoder used for several values *)

Theorem decode_step_total st : exists r, decode_step pf ff st = Some r.
Proof.
  unfold decode_step. destruct (parse_value_fuel_suffices pf st) as (v & st1 & E). rewrite E.
  destruct (p_errs st1); [|eauto]. destruct (marshal_value ff v) as [[t|] es]; [|eauto].
  destruct (json_valid t); eauto.
Qed.

Lemma decode_step_reach st r st' : decode_step pf ff st = Some (r, st') -> reach st st'.
Proof.
  unfold decode_step. destruct (parse_value pf _ st) as [[v st1]|] eqn:E; [|discriminate].
  pose proof (parse_value_reach pf _ _ _ _ E) as R.
  assert (R2 : reach st (if p_see TSemi st1 then p_next st1 else st1)).
  { destruct (p_see TSemi st1); [eapply reach_trans; [exact R|apply reach_next]|exact R]. }
  destruct (p_errs st1); [|intros H; injection H as _ <-; exact R].
  destruct (marshal_value ff v) as [[t|] es]; [destruct (json_valid t)|]; intros H; injection H as _ <-; exact R2.
Qed.

(** A successful Decode consumes at least one token. *)
Theorem decode_step_progress st t st' :
  good st -> decode_step pf ff st = Some (DOk t, st') -> (msr st' < msr st)%nat.
Proof.
  intros Hg H. unfold decode_step in H.
  destruct (parse_value pf _ st) as [[v st1]|] eqn:E; [|discriminate].
  destruct (parse_value_ok pf (parse_fuel st) st) as (v' & st1' & E' & _ & Hq).
  { pose proof (parse_fuel_enough st). lia. }
  rewrite E in E'. injection E' as <- <-.
  pose proof (parse_value_reach pf _ _ _ _ E) as R.
  destruct (p_errs st1) eqn:Ep; [|discriminate].
  assert (He : perrs st1 = []) by (unfold p_errs in Ep; destruct (pcum (cur st1)); [exact Ep|discriminate]).
  assert (Hj : jail st1 = false) by (apply good_clean; [eapply good_reach; eauto|exact He]).
  specialize (Hq Hj).
  destruct (marshal_value ff v) as [[t'|] es]; [|discriminate].
  destruct (json_valid t'); [|discriminate]. injection H as _ <-.
  destruct (p_see TSemi st1); [pose proof (msr_next_le st1); lia|exact Hq].
Qed.

Theorem decode_stream_total : forall fuel st acc,
  good st -> (msr st < fuel)%nat -> exists r, decode_stream pf ff fuel st acc = Some r.
Proof.
  induction fuel as [|f IH]; intros st acc Hg Hf; [lia|]. cbn [decode_stream].
  destruct (more st); [|eauto].
  destruct (decode_step_total st) as [[r st'] E]. rewrite E.
  destruct r as [t|e|t]; eauto.
  apply IH; [eapply good_reach; [eapply decode_step_reach; exact E|exact Hg]|].
  pose proof (decode_step_progress st t st' Hg E). lia.
Qed.

Theorem decode_all_total input : exists r, decode_all pf ff input = Ok r.
Proof.
  unfold decode_all, jsonx_stream. destruct (jsonx_raw_tokens input) as [raw| |] eqn:Er.
  - destruct (parser_stream_spec raw (raw_not_eof _ _ Er)) as [Hb _].
    destruct (decode_stream_total (stream_fuel (p_init (parser_stream raw))) (p_init (parser_stream raw)) []
                (p_init_good _ Hb)) as [r ->]; [|eauto].
    unfold stream_fuel, msr. destruct (is_eof _); lia.
  - destruct (jsonx_raw_tokens_total input) as [l E]. congruence.
  - destruct (jsonx_raw_tokens_total input) as [l E]. congruence.
Qed.

(** On inputs. *)
Theorem unmarshal_ok_balanced input t :
  unmarshal pf ff input = Ok (UOk t) ->
  exists raw, jsonx_raw_tokens input = Ok raw /\ bal (sbody (parser_stream raw)) = 0.
Proof.
  unfold unmarshal, jsonx_stream. destruct (jsonx_raw_tokens input) as [raw| |] eqn:Er; try discriminate.
  destruct (unmarshal_stream pf ff (parser_stream raw)) as [r|] eqn:E; [|discriminate].
  intros H. injection H as ->. exists raw. split; [reflexivity|].
  eapply unmarshal_stream_ok_balanced; [|exact E].
  apply (parser_stream_spec raw (raw_not_eof _ _ Er)).
Qed.

Theorem decode_series_ok_balanced tm input res :
  decode_series pf ff tm input = Ok (Some res, []) ->
  exists raw, jsonx_raw_tokens input = Ok raw /\ bal (sbody (parser_stream raw)) = 0.
Proof.
  unfold decode_series, jsonx_stream. destruct (jsonx_raw_tokens input) as [raw| |] eqn:Er; try discriminate.
  destruct (decode_series_stream pf ff tm (parser_stream raw)) as [r|] eqn:E; [|discriminate].
  intros H. injection H as ->. exists raw. split; [reflexivity|].
  eapply decode_series_stream_ok_balanced; [|exact E].
  apply (parser_stream_spec raw (raw_not_eof _ _ Er)).
Qed.

End WithFloat.
