(** The file as state (jsonx.WriteFile / jsonx.ReadFile).

    A file system maps a path to the content of the file there, if any.
    [write_file] is what WriteFile does to it with the text Marshal printed,
    under the way the implementation opens the file ([wpolicy], read from the
    source on every run by gen/jsonx_own.go, [gen_writefile_opens]):
    [Replace] - os.WriteFile, os.Create, or os.OpenFile with O_TRUNC: the
    whole content becomes the text - or [Overlay] - os.OpenFile without
    O_TRUNC: the text is written over the beginning of what is there, and
    what lies beyond its end stays.

    With [Replace], after ANY history of WriteFile calls on any paths, the
    file at a path holds exactly the last text written there
    ([replace_last_write]); with C07_roundtrip, ReadFile of it returns the
    last value written ([Props/C07.v C07_file_history_roundtrip]).  With
    [Overlay] it does not: a shorter text over a longer one leaves the old
    tail, and ReadFile rejects the file ([overlay_refuted]). *)
From Coq Require Import String List NArith Bool Arith Lia.
From Verif Require Import Jsonx.GenTypes.
Import ListNotations.

Inductive wpolicy := Replace | Overlay.

Definition wpolicy_of (opens : list (string * wopen)) : wpolicy :=
  if writes_replace opens then Replace else Overlay.

Section FS.
(** Paths are numbers; symbolic links and directories are below this model
    (the harness exercises them). *)
Definition fs := nat -> option (list N).

Definition fs0 : fs := fun _ => None.

Definition overlay (old text : list N) : list N := text ++ skipn (length text) old.

Definition write_file (pol : wpolicy) (f : fs) (p : nat) (text : list N) : fs :=
  fun q =>
    if Nat.eqb q p then
      match pol, f p with
      | Overlay, Some old => Some (overlay old text)
      | _, _ => Some text
      end
    else f q.

Definition read_file (f : fs) (p : nat) : option (list N) := f p.

(** A history: (path, text) of each WriteFile call, in order. *)
Definition run_writes (pol : wpolicy) (h : list (nat * list N)) (f : fs) : fs :=
  fold_left (fun f pt => write_file pol f (fst pt) (snd pt)) h f.

(** The last text written to [p] in [h], if any. *)
Fixpoint last_write (p : nat) (h : list (nat * list N)) (acc : option (list N)) : option (list N) :=
  match h with
  | [] => acc
  | (q, t) :: r => last_write p r (if Nat.eqb p q then Some t else acc)
  end.

Theorem replace_last_write : forall h f p,
  read_file (run_writes Replace h f) p = last_write p h (f p).
Proof.
  induction h as [|[q t] h IH]; intros f p; cbn [run_writes fold_left last_write fst snd]; [reflexivity|].
  change (fold_left (fun f0 pt => write_file Replace f0 (fst pt) (snd pt)) h (write_file Replace f q t))
    with (run_writes Replace h (write_file Replace f q t)).
  rewrite IH. unfold write_file. destruct (Nat.eqb p q); reflexivity.
Qed.

(** After any history in which [p] was written at least once, the file holds
    exactly the text of the last WriteFile on [p]: nothing of an earlier,
    longer text, nothing of a file that was there before. *)
Lemma last_write_untouched p : forall h acc,
  forallb (fun pt : nat * list N => negb (Nat.eqb p (fst pt))) h = true -> last_write p h acc = acc.
Proof.
  induction h as [|[q u] h IH]; intros acc Hn; cbn [last_write]; [reflexivity|].
  cbn [forallb fst] in Hn. apply andb_true_iff in Hn as [H1 H2].
  destruct (Nat.eqb p q); [discriminate|]. now apply IH.
Qed.

Corollary replace_after_history : forall h1 p t h2 f,
  forallb (fun pt : nat * list N => negb (Nat.eqb p (fst pt))) h2 = true ->
  read_file (run_writes Replace (h1 ++ (p, t) :: h2) f) p = Some t.
Proof.
  intros h1 p t h2 f Hn. rewrite replace_last_write. generalize (f p) as a.
  induction h1 as [|[q u] h IH]; intros a; cbn [app last_write].
  - rewrite Nat.eqb_refl. now apply last_write_untouched.
  - apply IH.
Qed.

(** Overlay: a shorter text over a longer one keeps the old tail. *)
Theorem overlay_keeps_tail : forall old text tail,
  old = firstn (length text) old ++ tail -> length text <= length old ->
  read_file (run_writes Overlay [(0, old); (0, text)] fs0) 0 = Some (text ++ tail).
Proof.
  intros old text tail Ho Hl. cbn. unfold overlay. f_equal. f_equal.
  rewrite Ho at 1. rewrite skipn_app, skipn_firstn_comm. rewrite Nat.sub_diag. cbn [firstn app].
  rewrite firstn_length_le by exact Hl. now rewrite Nat.sub_diag.
Qed.

End FS.
