(** No token length limit.  The lexer model has no bound on the length of a
    token anywhere (every helper recurses on the remaining input), and the
    theorems of C07 / C08 quantify over ALL rune lists; stated explicitly: a
    string of ANY length n, printed by the printer, is lexed back as one
    token, the whole literal, without error, and unquotes to the string -
    accepting depends on the grammar only, never on how long a token is.  A
    scanner that reports an error once a token reaches some length [max]
    cannot have that property ([bounded_scanner_refuted]): the printer has no
    such bound. *)
From Coq Require Import List NArith Bool Arith Lia.
From Verif Require Import Lib.Utf8 Jsonx.Lex Jsonx.Tok Jsonx.GoStr Jsonx.Print Jsonx.PrintProofs.
Import ListNotations.
Local Open Scope N_scope.

Lemma go_quote_rune_nonempty is_print r : go_quote_rune is_print r <> [].
Proof.
  unfold go_quote_rune.
  repeat match goal with |- (if ?c then _ else _) <> [] => destruct c end; discriminate.
Qed.

Lemma flat_map_quote_length is_print : forall rs,
  (length rs <= length (flat_map (go_quote_rune is_print) rs))%nat.
Proof.
  induction rs as [|r rs IH]; cbn [flat_map length]; [lia|]. rewrite app_length.
  pose proof (go_quote_rune_nonempty is_print r) as Hn.
  destruct (go_quote_rune is_print r); [contradiction|]. cbn [length]. lia.
Qed.

Lemma go_quote_length is_print rs : (length rs + 2 <= length (go_quote is_print rs))%nat.
Proof.
  unfold go_quote. cbn [length]. rewrite app_length. cbn [length].
  pose proof (flat_map_quote_length is_print rs). lia.
Qed.

Section NoLimit.
Variable is_print : N -> bool.
Hypothesis newline_not_printable : is_print 10 = false.

Theorem no_token_length_limit : forall (n : nat) rs rest,
  length rs = n -> forallb valid_rune rs = true ->
  lex_string 34 (go_quote is_print rs ++ rest) = LTok (mkTok TString (go_quote is_print rs)) [] rest /\
  go_unquote (go_quote is_print rs) = Some (utf8_encode rs) /\
  (n + 2 <= length (go_quote is_print rs))%nat.
Proof.
  intros n rs rest Hn Hv. split; [now apply go_quote_lexes|]. split; [now apply go_quote_unquotes|].
  rewrite <- Hn. apply go_quote_length.
Qed.

(** A scanner with a bound: the token is made, but an error is reported once
    its literal has [max] runes or more (lexing/lex_scanner.go with a
    maxTokenSize: next() returns an error, the lexer ends the token there and
    the reader's error replaces the error list). *)
Definition bounded (max : nat) (r : lexres) : lexres :=
  match r with
  | LTok t e rest => if Nat.leb max (length (tlit t)) then LTok t (e ++ [EUnexpectedEOF]) rest else r
  | _ => r
  end.

Theorem bounded_scanner_refuted : forall max : nat,
  exists rs, forallb valid_rune rs = true /\ length rs = max /\
    bounded max (lex_string 34 (go_quote is_print rs))
    <> LTok (mkTok TString (go_quote is_print rs)) [] [].
Proof.
  intros max. exists (repeat 97 max).
  assert (Hv : forallb valid_rune (repeat 97 max) = true).
  { induction max as [|m IH]; [reflexivity|]. cbn [repeat forallb]. now rewrite IH. }
  split; [exact Hv|]. split; [apply repeat_length|].
  pose proof (go_quote_lexes is_print newline_not_printable (repeat 97 max) [] Hv) as Hl.
  rewrite app_nil_r in Hl. rewrite Hl. unfold bounded. cbn [tlit].
  pose proof (go_quote_length is_print (repeat 97 max)) as Hlen. rewrite repeat_length in Hlen.
  replace (Nat.leb max (length (go_quote is_print (repeat 97 max)))) with true
    by (symmetry; apply Nat.leb_le; lia).
  cbn [app]. intros H. discriminate.
Qed.

End NoLimit.
