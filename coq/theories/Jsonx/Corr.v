(** Correspondence evaluator for the jsonx model (C07, C08, C09): the harness
    records what the real code returned on an input; [check_case] runs the
    model on the same input inside Coq and compares.

    Float instance: a float64 is represented by the text json.Marshal prints
    for it, so [ff] is the identity and [pf] is a lookup in the table of
    ([strconv.ParseFloat] then [json.Marshal]) results that the harness
    computed with the real library for every float token of the input. *)
From Coq Require Import List NArith Bool.
From Verif Require Import Lib.Utf8 Jsonx.Lex Jsonx.Pos Jsonx.Tok Jsonx.GoStr Jsonx.Num
  Jsonx.Parse Jsonx.Json Jsonx.Encode Jsonx.Script Jsonx.Print Jsonx.FileModel.
Import ListNotations.
Local Open Scope N_scope.

Definition ftable := list (list N * option (list N)).

Fixpoint flookup (t : ftable) (lit : list N) : option (list N) :=
  match t with
  | [] => None
  | (l, r) :: t' => if list_N_eqb l lit then r else flookup t' lit
  end.

Definition tyN (t : ttype) : N :=
  match t with
  | TKeyword => 0 | TIdent => 1 | TString => 2 | TInt => 3 | TFloat => 4
  | TOperator => 5 | TSemi => 6 | TEndl => 7 | TEOF => 8 | TComment => 9
  | TIllegal => 10 | TBare => 11
  end.

Definition codes (l : list ecode) : list N := map ecode_N l.

Fixpoint list_eqb {A} (eq : A -> A -> bool) (a b : list A) : bool :=
  match a, b with
  | [], [] => true
  | x :: a', y :: b' => eq x y && list_eqb eq a' b'
  | _, _ => false
  end.

Definition tok_eqb (a b : N * list N) : bool :=
  (fst a =? fst b) && list_N_eqb (snd a) (snd b).

Definition opt_eqb {A} (eq : A -> A -> bool) (a b : option A) : bool :=
  match a, b with
  | None, None => true
  | Some x, Some y => eq x y
  | _, _ => false
  end.

Definition pair_eqb (a b : list N * list N) : bool :=
  list_N_eqb (fst a) (fst b) && list_N_eqb (snd a) (snd b).

(** Observed result of Unmarshal. *)
Inductive uobs :=
| OOk (json : list N)
| OErr (first : N)
| OJsonErr
| OMore.

(** Observed result of one call on a long-lived Decoder (op "script"). *)
Inductive sobs :=
| SOMore (b : bool)
| SODec (val : option (list N)) (fin : N) (errs : list N)   (* fin: 0 value, 1 errors, 2 json.Unmarshal error *)
| SOSer (out : option (list (list N * list N))) (errs : list N).

(** Generic JSON-like value the printer is given (what json.Unmarshal with
    UseNumber produced from json.Marshal(v)). *)

Inductive ccase :=
| CUtf8 (input : list N) (runes : list N)
| CRaw (input : list N) (toks : list (N * list N)) (errs : list N)
| CRawPos (input : list N) (poss : list (N * N)) (eofp : N * N) (eposs : list (N * N))
| CFiltered (input : list N) (toks : list (N * list N)) (errs : list N)
| CPTokens (input : list N) (toks : list (N * list N)) (errs : list N)
| CToJson (input : list N) (ft : ftable) (out : option (list N)) (errs : list N)
| CUnmarshal (input : list N) (ft : ftable) (obs : uobs)
| CSeries (input : list N) (ft : ftable) (known : list (list N))
          (rejects : list (list N * list N))
          (out : option (list (list N * list N))) (errs : list N)
| CStream (input : list N) (ft : ftable) (vals : list (list N)) (fin : N) (errs : list N)
| CScript (input : list N) (ft : ftable) (known : list (list N)) (ops : list N) (obs : list sobs)
| CFileHist (nonprint : list N) (steps : list (pvalue * list N))
| CShell (input : list N) (out : option (list (list N))) (errs : list N)
| CUnquote (lit : list N) (out : option (list N))
| CJsonQuote (bs : list N) (out : list N)
| CJsonParse (text : list N) (out : option jvalue)
| CIntLit (lit : list N) (out : option (list N))
| CGoQuote (rs : list N) (nonprint : list N) (out : list N)
| CPrint (v : pvalue) (nonprint : list N) (out : list N).

Definition raw_toks (l : list (token * list ecode)) : list (N * list N) :=
  map (fun te => (tyN (tty (fst te)), tlit (fst te))) l ++ [(tyN TEOF, [])].

Definition p_toks (l : list ptok) : list (N * list N) :=
  map (fun t => (tyN (pty t), plit t)) l ++ [(tyN TEOF, [])].

Definition pair_eqb_N (a b : N * N) : bool := (fst a =? fst b) && (snd a =? snd b).

Definition sop_of (n : N) : sop :=
  if n =? 0 then OpMore else if n =? 1 then OpDecode else OpSeries.

Definition sres_eqb (r : sres) (o : sobs) : bool :=
  match r, o with
  | RMore b, SOMore b' => Bool.eqb b b'
  | RDec (DOk t), SODec (Some t') f _ => list_N_eqb t t' && (f =? 0)
  | RDec (DErrs e), SODec None f errs => (f =? 1) && list_N_eqb (codes e) errs
  | RDec (DJsonErr _), SODec None f _ => f =? 2
  | RSer (o1, e), SOSer o2 errs => opt_eqb (list_eqb pair_eqb) o1 o2 && list_N_eqb (codes e) errs
  | _, _ => false
  end.

Fixpoint list_eqb2 {A B} (eq : A -> B -> bool) (a : list A) (b : list B) : bool :=
  match a, b with
  | [], [] => true
  | x :: a', y :: b' => eq x y && list_eqb2 eq a' b'
  | _, _ => false
  end.

Definition check_case (c : ccase) : bool :=
  match c with
  | CUtf8 input runes => list_N_eqb (utf8_decode input) runes
  | CRaw input toks errs =>
      match jsonx_raw_tokens (utf8_decode input) with
      | Ok raw => list_eqb tok_eqb (raw_toks raw) toks
                  && list_N_eqb (codes (all_lex_errs raw)) errs
      | _ => false
      end
  | CRawPos input poss eofp eposs =>
      let rs := utf8_decode input in
      match jsonx_raw_tokens rs with
      | Ok raw =>
          let ps := tok_positions is_white start_pos raw rs in
          list_eqb pair_eqb_N ps poss && pair_eqb_N (eof_pos rs) eofp
          && list_eqb pair_eqb_N (err_positions raw ps) eposs
      | _ => false
      end
  | CFiltered input toks errs =>
      match jsonx_raw_tokens (utf8_decode input) with
      | Ok raw => let '(ts, fin) := filtered raw in
                  list_eqb tok_eqb (p_toks ts) toks && list_N_eqb (codes fin) errs
      | _ => false
      end
  | CPTokens input toks errs =>
      match jsonx_stream (utf8_decode input) with
      | Ok s => list_eqb tok_eqb (p_toks (sbody s)) toks
                && list_N_eqb (codes (sfin s)) errs
      | _ => false
      end
  | CToJson input ft out errs =>
      match to_json (flookup ft) (fun t => t) (utf8_decode input) with
      | Ok (o, e) => opt_eqb list_N_eqb o out && list_N_eqb (codes e) errs
      | _ => false
      end
  | CUnmarshal input ft obs =>
      match unmarshal (flookup ft) (fun t => t) (utf8_decode input), obs with
      | Ok (UOk t), OOk t' => list_N_eqb t t'
      | Ok (UErr e), OErr n => ecode_N e =? n
      | Ok (UJsonErr _), OJsonErr => true
      | Ok UMore, OMore => true
      | _, _ => false
      end
  | CSeries input ft known rejects out errs =>
      match decode_series (flookup ft) (fun t => t)
              (fun n => if existsb (list_N_eqb n) known
                        then Some (fun t => negb (existsb (pair_eqb (n, t)) rejects))
                        else None)
              (utf8_decode input) with
      | Ok (o, e) => opt_eqb (list_eqb pair_eqb) o out && list_N_eqb (codes e) errs
      | _ => false
      end
  | CStream input ft vals fin errs =>
      (* fin: 0 = More() became false; 1 = Decode returned errors; 2 = json.Unmarshal failed *)
      match decode_all (flookup ft) (fun t => t) (utf8_decode input) with
      | Ok (vs, None) => list_eqb list_N_eqb vs vals && (fin =? 0)
      | Ok (vs, Some (DErrs e)) => list_eqb list_N_eqb vs vals && (fin =? 1) && list_N_eqb (codes e) errs
      | Ok (vs, Some (DJsonErr _)) => list_eqb list_N_eqb vs vals && (fin =? 2)
      | _ => false
      end
  | CScript input ft known ops obs =>
      match script (flookup ft) (fun t => t)
              (fun n => if existsb (list_N_eqb n) known then Some (fun _ => true) else None)
              (utf8_decode input) (map sop_of ops) with
      | Ok l => list_eqb2 sres_eqb l obs
      | _ => false
      end
  | CFileHist nonprint steps =>
      (* WriteFile again and again on one path: after each call the file is what the printer prints *)
      let isp := fun r => negb (existsb (N.eqb r) nonprint) in
      (fix go (f : fs) (l : list (pvalue * list N)) : bool :=
         match l with
         | [] => true
         | (v, out) :: r =>
             let f' := write_file Replace f 0 (print_doc isp v) in
             opt_eqb list_N_eqb (read_file f' 0%nat) (Some out) && go f' r
         end) fs0 steps
  | CShell input out errs =>
      match shell_parse (utf8_decode input) with
      | Ok (o, e) => opt_eqb (list_eqb list_N_eqb) o out && list_N_eqb (codes e) errs
      | _ => false
      end
  | CUnquote lit out => opt_eqb list_N_eqb (go_unquote (utf8_decode lit)) out
  | CJsonQuote bs out => list_N_eqb (json_quote bs) out
  | CJsonParse text out => opt_eqb jvalue_eqb (json_parse (utf8_decode text)) out
  | CIntLit lit out => opt_eqb list_N_eqb (int_json lit) out
  | CGoQuote rs nonprint out =>
      list_N_eqb (go_quote (fun r => negb (existsb (N.eqb r) nonprint)) (utf8_decode rs)) out
  | CPrint v nonprint out =>
      list_N_eqb (print_doc (fun r => negb (existsb (N.eqb r) nonprint)) v) out
  end.

Fixpoint mismatches_from (i : nat) (cs : list ccase) : list nat :=
  match cs with
  | [] => []
  | c :: r => if check_case c then mismatches_from (S i) r
              else i :: mismatches_from (S i) r
  end.

Definition mismatches (cs : list ccase) : list nat := mismatches_from 0 cs.
