(** The documented JSONx syntax, at the level of the tokens the parser reads,
    with EVERY surface choice: bare or quoted keys, a trailing comma or none
    after the last element of a list or object, a sign (+ or -) before an
    integer or float literal, any string literal Go can unquote (raw or
    escaped), dotted identifier lists, any nesting.

    [doc] is a document with its surface choices, [toks] the tokens it is
    written with, [ast_of] the syntax tree it is meant to be.  The parser
    reads the tokens of every well-formed document as exactly that tree,
    without recording an error and stopping right after the document
    ([grammar_complete]); so ToJSON accepts it and emits JSON that the
    reference parser reads as the tree's denotation - keys by their name,
    trailing commas ignored, "+" dropped and "-" kept, integers by Go's
    literal rules, an identifier list as an array of strings
    ([grammar_to_json]).  White space, comments and line ends are below this
    level: the lexer theorems (tokens spell the input, comments removed) and
    the separator inserter. *)
From Coq Require Import List NArith Bool Lia Arith.
From Verif Require Import Lib.Utf8 Jsonx.Lex Jsonx.Tok Jsonx.GoStr Jsonx.Num Jsonx.Parse
  Jsonx.ParseProofs Jsonx.Json Jsonx.Encode Jsonx.Roundtrip Jsonx.JsonProofs Jsonx.Term.
Import ListNotations.
Local Open Scope N_scope.

Notation tl := (ttype * list N)%type.

Inductive dkey := DKBare (id : list N) | DKQuoted (lit : list N).

Inductive doc :=
| DNull
| DBool (b : bool)
| DStr (lit : list N)
| DInt (sign : option (list N)) (lit : list N)
| DFloat (sign : option (list N)) (lit : list N)
| DList (items : list doc) (trailing : bool)
| DObj (members : list (dkey * doc)) (trailing : bool)
| DIdents (first : list N) (more : list (list N)).

Definition comma : tl := (TOperator, [44]).

(** Elements separated by commas; after the last one a comma only if
    [trailing]. *)
Definition seps {A} (f : A -> list tl) : list A -> bool -> list tl :=
  fix go (l : list A) (trailing : bool) : list tl :=
    match l with
    | [] => []
    | x :: r =>
        f x ++ (match r with [] => if trailing then [comma] else [] | _ => [comma] end) ++ go r trailing
    end.

Definition sign_toks (s : option (list N)) : list tl :=
  match s with Some l => [(TOperator, l)] | None => [] end.

Definition key_tok (k : dkey) : tl :=
  match k with DKBare id => (TIdent, id) | DKQuoted lit => (TString, lit) end.

Fixpoint toks (d : doc) : list tl :=
  match d with
  | DNull => [(TKeyword, lit_null)]
  | DBool b => [(TKeyword, if b then lit_true else lit_false)]
  | DStr lit => [(TString, lit)]
  | DInt s lit => sign_toks s ++ [(TInt, lit)]
  | DFloat s lit => sign_toks s ++ [(TFloat, lit)]
  | DList items tr => (TOperator, [91]) :: seps toks items tr ++ [(TOperator, [93])]
  | DObj ms tr =>
      (TOperator, [123])
        :: seps (fun m : dkey * doc => key_tok (fst m) :: (TOperator, [58]) :: toks (snd m)) ms tr
        ++ [(TOperator, [125])]
  | DIdents a more => (TIdent, a) :: flat_map (fun i => [(TOperator, [46]); (TIdent, i)]) more
  end.

Definition str_bs (lit : list N) : list N :=
  match go_unquote lit with Some bs => bs | None => [] end.

Definition key_ast_of (k : dkey) : okey :=
  match k with DKBare id => KIdent id | DKQuoted lit => KStr lit (str_bs lit) end.

Definition sign_ok (s : option (list N)) : bool :=
  match s with None => true | Some l => list_N_eqb l [43] || list_N_eqb l [45] end.

Section Grammar.
Context {F : Type}.
Variable pf : list N -> option F.
Variable fin : list ecode.

Notation mk := (mkp []).
Notation st_at := (st_at fin).

Fixpoint ast_of (d : doc) : @value F :=
  match d with
  | DNull => VNull
  | DBool b => VBool b
  | DStr lit => VStr lit (str_bs lit)
  | DInt s lit => VInt s lit
  | DFloat s lit => VFloat s lit (pf lit)
  | DList items _ => VList (map ast_of items)
  | DObj ms _ => VObject (map (fun m : dkey * doc => (key_ast_of (fst m), ast_of (snd m))) ms)
  | DIdents a more => VIdents (a :: more)
  end.

(** Well-formed: string literals (values and quoted keys) are Go literals,
    float literals are in ParseFloat's range, a sign is + or -, a trailing
    comma needs an element before it. *)
Definition key_ok (k : dkey) : bool :=
  match k with DKBare _ => true | DKQuoted lit => match go_unquote lit with Some _ => true | None => false end end.

Fixpoint okb (d : doc) : bool :=
  match d with
  | DNull | DBool _ | DIdents _ _ => true
  | DStr lit => match go_unquote lit with Some _ => true | None => false end
  | DInt s _ => sign_ok s
  | DFloat s lit => sign_ok s && match pf lit with Some _ => true | None => false end
  | DList items tr => forallb okb items && (negb tr || negb (match items with [] => true | _ => false end))
  | DObj ms tr =>
      forallb (fun m : dkey * doc => key_ok (fst m) && okb (snd m)) ms
      && (negb tr || negb (match ms with [] => true | _ => false end))
  end.

(** An identifier list goes on while a "." follows. *)
Definition is_dot (t : ptok) : bool := ttype_eqb (pty t) TOperator && list_N_eqb (plit t) [46].

Definition nodot (d : doc) (rest : list ptok) : Prop :=
  match d, rest with
  | DIdents _ _, t :: _ => is_dot t = false
  | _, _ => True
  end.

Definition P (d : doc) : Prop :=
  okb d = true -> forall rest, nodot d rest ->
  PV pf (st_at (map mk (toks d) ++ rest)) (ast_of d, st_at rest).

(** Induction over documents with the elements of lists and objects. *)
Fixpoint doc_ind' (Q : doc -> Prop)
  (Hn : Q DNull) (Hb : forall b, Q (DBool b)) (Hs : forall lit, Q (DStr lit))
  (Hi : forall s lit, Q (DInt s lit)) (Hf : forall s lit, Q (DFloat s lit))
  (Hl : forall items tr, Forall Q items -> Q (DList items tr))
  (Ho : forall ms tr, Forall (fun m : dkey * doc => Q (snd m)) ms -> Q (DObj ms tr))
  (Hd : forall a more, Q (DIdents a more)) (d : doc) {struct d} : Q d :=
  match d with
  | DNull => Hn
  | DBool b => Hb b
  | DStr lit => Hs lit
  | DInt s lit => Hi s lit
  | DFloat s lit => Hf s lit
  | DList items tr =>
      Hl items tr ((fix go (l : list doc) : Forall Q l :=
                      match l with
                      | [] => Forall_nil _
                      | x :: r => Forall_cons x (doc_ind' Q Hn Hb Hs Hi Hf Hl Ho Hd x) (go r)
                      end) items)
  | DObj ms tr =>
      Ho ms tr ((fix go (l : list (dkey * doc)) : Forall (fun m : dkey * doc => Q (snd m)) l :=
                   match l with
                   | [] => Forall_nil _
                   | x :: r => Forall_cons x (doc_ind' Q Hn Hb Hs Hi Hf Hl Ho Hd (snd x)) (go r)
                   end) ms)
  | DIdents a more => Hd a more
  end.

(** The first token of a document is not a closing bracket. *)
Definition not_close (t : tl) : Prop :=
  ttype_eqb (fst t) TOperator && (list_N_eqb (snd t) [93] || list_N_eqb (snd t) [125]) = false.

Lemma sign_not_close l : list_N_eqb l [43] || list_N_eqb l [45] = true -> not_close (TOperator, l).
Proof.
  intros H. unfold not_close. cbn [fst snd ttype_eqb andb].
  apply orb_true_iff in H as [E|E]; apply list_N_eqb_true in E; subst l; reflexivity.
Qed.

Lemma toks_head d : okb d = true -> exists t r, toks d = t :: r /\ not_close t.
Proof.
  intros Hok. destruct d as [|b|lit|s lit|s lit|items tr|ms tr|a more]; cbn [toks];
    try (eexists _, _; split; reflexivity).
  - destruct s as [l|]; cbn [sign_toks app]; [|eexists _, _; split; reflexivity].
    cbn [okb sign_ok] in Hok. eexists _, _. split; [reflexivity|]. now apply sign_not_close.
  - destruct s as [l|]; cbn [sign_toks app]; [|eexists _, _; split; reflexivity].
    cbn [okb sign_ok] in Hok. apply andb_true_iff in Hok as [Hok _].
    eexists _, _. split; [reflexivity|]. now apply sign_not_close.
Qed.

Lemma not_close_see t ts ops :
  not_close t -> (forall o, In o ops -> o = [93] \/ o = [125]) ->
  see_op ops (st_at (mk t :: ts)) = false.
Proof.
  intros Hn Ho. destruct t as [ty l]. rewrite see_op_at. unfold not_close in Hn. cbn [fst snd] in Hn.
  destruct (ttype_eqb ty TOperator); [|reflexivity]. cbn [andb] in *.
  apply orb_false_iff in Hn as [H1 H2].
  induction ops as [|o ops IH]; [reflexivity|]. cbn [existsb].
  destruct (Ho o (or_introl eq_refl)) as [->| ->]; [rewrite H1|rewrite H2]; cbn [orb];
    apply IH; intros o' Hin; apply Ho; now right.
Qed.

Lemma jail_st_at ts : jail (st_at ts) = false.
Proof. destruct ts; reflexivity. Qed.

(** ** Scalars *)

Lemma pv_str lit rest : match go_unquote lit with Some _ => true | None => false end = true ->
  PV pf (st_at (mk (TString, lit) :: rest)) (VStr lit (str_bs lit), st_at rest).
Proof.
  intros H. exists 1%nat. rewrite parse_value_S. unfold pv_body.
  cbn [Roundtrip.st_at cur mkp fst snd pty plit]. unfold parse_string_value, str_bs. cbn [plit mkp snd].
  destruct (go_unquote lit); [|discriminate].
  change (p_next (mkSt (mk (TString, lit)) rest fin [] false)) with (p_next (st_at (mk (TString, lit) :: rest))).
  now rewrite p_next_st_at.
Qed.

Lemma pv_signed (isf : bool) s lit rest :
  sign_ok s = true -> (isf = true -> exists f, pf lit = Some f) ->
  PV pf (st_at (map mk (sign_toks s ++ [(if isf then TFloat else TInt, lit)]) ++ rest))
     ((if isf then VFloat s lit (pf lit) else VInt s lit), st_at rest).
Proof.
  intros Hs Hf. exists 1%nat. rewrite parse_value_S. unfold pv_body.
  destruct s as [l|]; cbn [sign_toks app map].
  - cbn [Roundtrip.st_at cur mkp fst snd pty plit].
    cbn [sign_ok] in Hs.
    assert (Hl : lit_is (mk (TOperator, l)) [43] || lit_is (mk (TOperator, l)) [45] = true) by exact Hs.
    rewrite Hl.
    change (p_next (mkSt (mk (TOperator, l)) (mk (if isf then TFloat else TInt, lit) :: rest) fin [] false))
      with (p_next (st_at (mk (TOperator, l) :: mk (if isf then TFloat else TInt, lit) :: rest))).
    rewrite p_next_st_at. destruct isf; cbn [Roundtrip.st_at cur mkp fst snd pty plit].
    + unfold parse_float_value. cbn [plit mkp snd]. destruct (Hf eq_refl) as [f ->].
      change (p_next (mkSt (mk (TFloat, lit)) rest fin [] false)) with (p_next (st_at (mk (TFloat, lit) :: rest))).
      now rewrite p_next_st_at.
    + change (p_next (mkSt (mk (TInt, lit)) rest fin [] false)) with (p_next (st_at (mk (TInt, lit) :: rest))).
      now rewrite p_next_st_at.
  - destruct isf; cbn [Roundtrip.st_at cur mkp fst snd pty plit].
    + unfold parse_float_value. cbn [plit mkp snd]. destruct (Hf eq_refl) as [f ->].
      change (p_next (mkSt (mk (TFloat, lit)) rest fin [] false)) with (p_next (st_at (mk (TFloat, lit) :: rest))).
      now rewrite p_next_st_at.
    + change (p_next (mkSt (mk (TInt, lit)) rest fin [] false)) with (p_next (st_at (mk (TInt, lit) :: rest))).
      now rewrite p_next_st_at.
Qed.

(** Identifier lists. *)
Lemma pil_more : forall more a acc rest,
  (match rest with t :: _ => is_dot t = false | [] => True end) ->
  exists f, @parse_ident_list F f
    (st_at (mk (TIdent, a) :: map mk (flat_map (fun i => [(TOperator, [46]); (TIdent, i)]) more) ++ rest)) acc
  = Some (@VIdents F (acc ++ a :: more), st_at rest).
Proof.
  induction more as [|i more IH]; intros a acc rest Hr.
  - exists 1%nat. cbn [parse_ident_list flat_map map app]. unfold p_expect.
    rewrite jail_st_at. unfold p_see. cbn [Roundtrip.st_at cur mkp fst snd pty ttype_eqb].
    change (p_next (mkSt (mk (TIdent, a)) rest fin [] false)) with (p_next (st_at (mk (TIdent, a) :: rest))).
    rewrite p_next_st_at. cbn [negb plit mkp snd].
    assert (Hs : see_op [[46]] (st_at rest) = false).
    { destruct rest as [|t r]; [reflexivity|]. unfold see_op, p_see. cbn [Roundtrip.st_at cur existsb].
      unfold is_dot, lit_is in *. rewrite orb_false_r. exact Hr. }
    rewrite Hs. reflexivity.
  - destruct (IH i (acc ++ [a]) rest Hr) as [f E]. exists (S f).
    cbn [parse_ident_list flat_map map app]. unfold p_expect.
    rewrite jail_st_at. unfold p_see. cbn [Roundtrip.st_at cur mkp fst snd pty ttype_eqb].
    match goal with |- context [p_next (mkSt ?c ?r fin [] false)] =>
      change (p_next (mkSt c r fin [] false)) with (p_next (st_at (c :: r))) end.
    rewrite p_next_st_at. cbn [negb plit mkp snd].
    rewrite see_op_at. cbn [ttype_eqb existsb list_N_eqb N.eqb Pos.eqb andb orb].
    rewrite p_next_st_at. rewrite E. now rewrite <- app_assoc.
Qed.

(** ** Lists *)
Lemma ple_seps : forall xs, Forall P xs -> forallb okb xs = true ->
  forall tr acc rest, exists f,
    parse_list_entries pf f
      (st_at (map mk (seps toks xs tr) ++ mk (TOperator, [93]) :: rest)) acc
    = Some (acc ++ map ast_of xs, st_at (mk (TOperator, [93]) :: rest)).
Proof.
  induction 1 as [|x xs Hx Hxs IH]; intros Hok tr acc rest.
  - exists 1%nat. rewrite parse_list_entries_S. unfold ple_body. cbn [seps map app].
    rewrite see_op_at. cbn. now rewrite app_nil_r.
  - cbn [forallb] in Hok. apply andb_true_iff in Hok as [Hokx Hokxs].
    change (seps toks (x :: xs) tr)
      with (toks x ++ (match xs with [] => if tr then [comma] else [] | _ => [comma] end) ++ seps toks xs tr).
    rewrite !map_app, <- !app_assoc.
    set (tail := map mk (seps toks xs tr) ++ mk (TOperator, [93]) :: rest).
    set (sep := match xs with [] => if tr then [comma] else [] | _ => [comma] end).
    destruct (IH Hokxs tr (acc ++ [ast_of x]) rest) as [f2 E2]. fold tail in E2.
    assert (Hnd : nodot x (map mk sep ++ tail)).
    { unfold nodot. destruct x; try exact I. subst sep tail.
      destruct xs as [|y ys]; [destruct tr|]; cbn [map app seps]; try reflexivity. }
    destruct (Hx Hokx (map mk sep ++ tail) Hnd) as [f1 E1].
    exists (S (max f1 f2)). rewrite parse_list_entries_S. unfold ple_body.
    destruct (toks_head x Hokx) as (t & r & Et & Hnc). rewrite Et. cbn [map app].
    rewrite (not_close_see t _ [[93]] Hnc) by (intros o [<-|[]]; now left).
    change (mk t :: map mk r ++ map mk sep ++ tail) with (map mk (t :: r) ++ map mk sep ++ tail).
    rewrite <- Et. rewrite (parse_value_mono pf f1 (max f1 f2) _ _ ltac:(lia) E1).
    assert (Hsep : sep = [comma] \/ (sep = [] /\ xs = [])).
    { subst sep. destruct xs; [destruct tr|]; auto. }
    destruct Hsep as [-> | [-> ->]].
    + cbn [map app]. unfold comma. rewrite see_op_at.
      cbn [ttype_eqb existsb list_N_eqb N.eqb Pos.eqb andb orb].
      rewrite p_next_st_at, jail_st_at.
      rewrite (parse_list_entries_mono pf f2 (max f1 f2) _ _ _ ltac:(lia) E2).
      now rewrite <- app_assoc.
    + cbn [map app]. subst tail. cbn [seps map app] in *. rewrite see_op_at.
      cbn [ttype_eqb existsb list_N_eqb N.eqb Pos.eqb andb orb negb].
      rewrite see_op_at. cbn [ttype_eqb existsb list_N_eqb N.eqb Pos.eqb andb orb negb].
      rewrite jail_st_at.
      rewrite (parse_list_entries_mono pf f2 (max f1 f2) _ _ _ ltac:(lia) E2).
      now rewrite <- app_assoc.
Qed.

(** ** Objects *)
Definition mtoks (m : dkey * doc) : list tl := key_tok (fst m) :: (TOperator, [58]) :: toks (snd m).

Lemma poe_seps : forall xs, Forall (fun m : dkey * doc => P (snd m)) xs ->
  forallb (fun m : dkey * doc => key_ok (fst m) && okb (snd m)) xs = true ->
  forall tr acc rest, exists f,
    parse_object_entries pf f
      (st_at (map mk (seps mtoks xs tr) ++ mk (TOperator, [125]) :: rest)) acc
    = Some (acc ++ map (fun m : dkey * doc => (key_ast_of (fst m), ast_of (snd m))) xs,
            st_at (mk (TOperator, [125]) :: rest)).
Proof.
  induction 1 as [|[k x] xs Hx Hxs IH]; intros Hok tr acc rest.
  - exists 1%nat. rewrite parse_object_entries_S. unfold poe_body. cbn [seps map app].
    rewrite see_op_at. cbn. now rewrite app_nil_r.
  - cbn [forallb fst snd] in *. apply andb_true_iff in Hok as [Hokx Hokxs].
    apply andb_true_iff in Hokx as [Hk Hokx].
    change (seps mtoks ((k, x) :: xs) tr)
      with (mtoks (k, x) ++ (match xs with [] => if tr then [comma] else [] | _ => [comma] end) ++ seps mtoks xs tr).
    set (tail := map mk (seps mtoks xs tr) ++ mk (TOperator, [125]) :: rest).
    set (sep := match xs with [] => if tr then [comma] else [] | _ => [comma] end).
    assert (Hshape : map mk (mtoks (k, x) ++ sep ++ seps mtoks xs tr) ++ mk (TOperator, [125]) :: rest
                     = mk (key_tok k) :: mk (TOperator, [58]) :: (map mk (toks x) ++ map mk sep ++ tail)).
    { unfold mtoks at 1. cbn [fst snd app map]. subst tail. rewrite !map_app, <- !app_assoc. reflexivity. }
    rewrite Hshape. clear Hshape.
    destruct (IH Hokxs tr (acc ++ [(key_ast_of k, ast_of x)]) rest) as [f2 E2]. fold tail in E2.
    assert (Hnd : nodot x (map mk sep ++ tail)).
    { unfold nodot. destruct x; try exact I. subst sep tail.
      destruct xs as [|y ys]; [destruct tr|]; cbn [map app seps]; try reflexivity. }
    destruct (Hx Hokx (map mk sep ++ tail) Hnd) as [f1 E1].
    exists (S (max f1 f2)). rewrite parse_object_entries_S. unfold poe_body.
    set (vt := map mk (toks x) ++ map mk sep ++ tail) in *.
    assert (Hkey : exists kty klit,
              mk (key_tok k) = mk (kty, klit) /\
              (kty = TIdent \/ kty = TString) /\
              (if ttype_eqb kty TString
               then let '(bs, st2) := parse_string_value (mk (kty, klit)) (st_at (mk (TOperator, [58]) :: vt))
                    in (KStr (plit (mk (kty, klit))) bs, st2)
               else (KIdent (plit (mk (kty, klit))), st_at (mk (TOperator, [58]) :: vt)))
              = (key_ast_of k, st_at (mk (TOperator, [58]) :: vt))).
    { destruct k as [id|lit]; cbn [key_tok key_ast_of].
      - exists TIdent, id. split; [reflexivity|]. split; [now left|reflexivity].
      - exists TString, lit. split; [reflexivity|]. split; [now right|].
        cbn [ttype_eqb]. unfold parse_string_value, str_bs. cbn [plit mkp snd].
        cbn [key_ok] in Hk. destruct (go_unquote lit); [reflexivity|discriminate]. }
    destruct Hkey as (kty & klit & -> & Hkty & Hkv).
    rewrite see_op_at.
    assert (E0 : ttype_eqb kty TOperator = false) by (destruct Hkty as [->| ->]; reflexivity).
    rewrite E0. cbn [andb].
    assert (E1' : p_see TIdent (st_at (mk (kty, klit) :: mk (TOperator, [58]) :: vt))
                  || p_see TString (st_at (mk (kty, klit) :: mk (TOperator, [58]) :: vt)) = true).
    { unfold p_see. cbn [Roundtrip.st_at cur mkp fst pty]. destruct Hkty as [->| ->]; reflexivity. }
    rewrite E1'. cbn [negb].
    rewrite p_next_st_at.
    change (cur (st_at (mk (kty, klit) :: mk (TOperator, [58]) :: vt))) with (mk (kty, klit)).
    change (pty (mk (kty, klit))) with kty.
    rewrite Hkv. rewrite expect_op_at. cbn [snd].
    subst vt. rewrite (parse_value_mono pf f1 (max f1 f2) _ _ ltac:(lia) E1).
    assert (Hsep : sep = [comma] \/ (sep = [] /\ xs = [])).
    { subst sep. destruct xs; [destruct tr|]; auto. }
    destruct Hsep as [-> | [-> ->]].
    + cbn [map app]. unfold comma. rewrite see_op_at.
      cbn [ttype_eqb existsb list_N_eqb N.eqb Pos.eqb andb orb].
      rewrite p_next_st_at, jail_st_at.
      rewrite (parse_object_entries_mono pf f2 (max f1 f2) _ _ _ ltac:(lia) E2).
      now rewrite <- app_assoc.
    + cbn [map app]. subst tail. cbn [seps map app] in *. rewrite see_op_at.
      cbn [ttype_eqb existsb list_N_eqb N.eqb Pos.eqb andb orb negb].
      rewrite see_op_at. cbn [ttype_eqb existsb list_N_eqb N.eqb Pos.eqb andb orb negb].
      rewrite jail_st_at.
      rewrite (parse_object_entries_mono pf f2 (max f1 f2) _ _ _ ltac:(lia) E2).
      now rewrite <- app_assoc.
Qed.

(** ** Every well-formed document parses to its tree, without an error, and
    the parser stops right after it. *)
Theorem grammar_complete : forall d, P d.
Proof.
  induction d as [|b|lit|s lit|s lit|items tr IH|ms tr IH|a more] using doc_ind'; intros Hok rest Hnd.
  - apply pv_keyword. reflexivity.
  - cbn [toks map app ast_of]. destruct b; apply pv_keyword; reflexivity.
  - cbn [toks map app ast_of okb] in *. now apply pv_str.
  - cbn [toks ast_of okb] in *. exact (pv_signed false s lit rest Hok ltac:(discriminate)).
  - cbn [toks ast_of okb] in *. apply andb_true_iff in Hok as [Hs Hf].
    apply (pv_signed true s lit rest Hs). intros _. destruct (pf lit); [eauto|discriminate].
  - cbn [toks ast_of okb] in *. apply andb_true_iff in Hok as [Hok _].
    cbn [map app]. rewrite map_app, <- app_assoc. cbn [map app].
    destruct (ple_seps items IH Hok tr [] rest) as [f E].
    exists (S f). rewrite parse_value_S. unfold pv_body.
    cbn [Roundtrip.st_at cur mkp fst snd pty].
    change (lit_is (mk (TOperator, [91])) [43] || lit_is (mk (TOperator, [91])) [45]) with false.
    change (lit_is (mk (TOperator, [91])) [123]) with false.
    change (lit_is (mk (TOperator, [91])) [91]) with true. cbv iota.
    match goal with |- context [p_next ?s] =>
      change (p_next s) with (p_next (st_at (mk (TOperator, [91]) ::
        (map mk (seps toks items tr) ++ mk (TOperator, [93]) :: rest)))) end.
    rewrite p_next_st_at, E. now rewrite expect_op_at.
  - cbn [toks ast_of okb] in *. apply andb_true_iff in Hok as [Hok _].
    cbn [map app]. rewrite map_app, <- app_assoc. cbn [map app].
    destruct (poe_seps ms IH Hok tr [] rest) as [f E].
    exists (S f). rewrite parse_value_S. unfold pv_body.
    cbn [Roundtrip.st_at cur mkp fst snd pty].
    change (lit_is (mk (TOperator, [123])) [43] || lit_is (mk (TOperator, [123])) [45]) with false.
    change (lit_is (mk (TOperator, [123])) [123]) with true. cbv iota.
    match goal with |- context [p_next ?s] =>
      change (p_next s) with (p_next (st_at (mk (TOperator, [123]) ::
        (map mk (seps mtoks ms tr) ++ mk (TOperator, [125]) :: rest)))) end.
    rewrite p_next_st_at, E. now rewrite expect_op_at.
  - cbn [toks ast_of map app].
    assert (Hr : match rest with t :: _ => is_dot t = false | [] => True end).
    { unfold nodot in Hnd. destruct rest; [exact I|exact Hnd]. }
    destruct (pil_more more a [] rest Hr) as [f E].
    exists (S f). rewrite parse_value_S. unfold pv_body.
    cbn [Roundtrip.st_at cur mkp fst snd pty]. exact E.
Qed.

End Grammar.

(** ** What the document means, and that ToJSON emits it *)
Section Meaning.
Context {F : Type}.
Variable pf : list N -> option F.
Variable ff : F -> list N.
Hypothesis ff_json : forall f, is_json_number (ff f) = true.
Hypothesis ff_unsigned : forall f r, ff f <> 45 :: r.

Definition key_name (k : dkey) : list N :=
  match k with
  | DKBare id => utf8_decode (utf8_encode id)
  | DKQuoted lit => utf8_decode (str_bs lit)
  end.

(** The documented value: a string is its Go literal unquoted (as JSON can
    carry it), an integer the value of the Go-style literal in decimal with
    its minus sign (a plus sign is dropped), a float what json.Marshal writes
    for the float64 the literal reads as, a key its name whether bare or
    quoted, a trailing comma nothing, a dotted list the array of its names. *)
Fixpoint doc_value (d : doc) : jvalue :=
  match d with
  | DNull => JNull
  | DBool b => JBool b
  | DStr lit => JStr (utf8_decode (str_bs lit))
  | DInt s lit => JNum (sign_of s ++ match int_value lit with Some n => dec_string n | None => [] end)
  | DFloat s lit => JNum (sign_of s ++ encode_float ff (pf lit))
  | DList items _ => JArr (map doc_value items)
  | DObj ms _ => JObj (map (fun m : dkey * doc => (key_name (fst m), doc_value (snd m))) ms)
  | DIdents a more => JArr (map (fun i => JStr (utf8_decode (utf8_encode i))) (a :: more))
  end.

Lemma denote_ast_of : forall d, denote ff (ast_of pf d) = doc_value d.
Proof.
  induction d as [|b|lit|s lit|s lit|items tr IH|ms tr IH|a more] using doc_ind'; cbn [ast_of denote doc_value];
    try reflexivity.
  - f_equal. rewrite map_map. induction IH as [|x xs Hx Hxs IHxs]; cbn [map]; [reflexivity|]. now rewrite Hx, IHxs.
  - f_equal. rewrite map_map. induction IH as [|[k x] xs Hx Hxs IHxs]; cbn [map]; [reflexivity|].
    cbn [fst snd] in *. rewrite Hx, IHxs. destruct k; reflexivity.
Qed.

(** Integer literals have a value (08 and 0x do not). *)
Fixpoint ints_okb (d : doc) : bool :=
  match d with
  | DInt _ lit => match int_json lit with Some _ => true | None => false end
  | DList items _ => forallb ints_okb items
  | DObj ms _ => forallb (fun m : dkey * doc => ints_okb (snd m)) ms
  | _ => true
  end.

Lemma encode_ast_of : forall d, ints_okb d = true -> encode_value ff (ast_of pf d) <> None.
Proof.
  induction d as [|b|lit|s lit|s lit|items tr IH|ms tr IH|a more] using doc_ind'; intros Hi;
    cbn [ast_of encode_value ints_okb] in *; try discriminate.
  - destruct (int_json lit); [discriminate|discriminate].
  - destruct (join_opt_all [44] (map (encode_value ff) (map (ast_of pf) items))) as [b Hb].
    { rewrite map_map. apply Forall_map. clear -IH Hi.
      induction IH as [|x xs Hx Hxs IHxs]; [constructor|]. cbn [forallb] in Hi.
      apply andb_true_iff in Hi as [H1 H2]. constructor; auto. }
    rewrite Hb. discriminate.
  - destruct (join_opt_all [44]
      (map (fun kv : okey * value => let '(k, x) := kv in
              option_map (fun t => encode_key k ++ 58 :: t) (encode_value ff x))
           (map (fun m : dkey * doc => (key_ast_of (fst m), ast_of pf (snd m))) ms))) as [b Hb].
    { rewrite map_map. apply Forall_map. clear -IH Hi.
      induction IH as [|[k x] xs Hx Hxs IHxs]; [constructor|]. cbn [forallb fst snd] in *.
      apply andb_true_iff in Hi as [H1 H2]. constructor; auto.
      specialize (Hx H1). cbn [fst snd]. destruct (encode_value ff (ast_of pf x)); [|now contradiction Hx].
      cbn [option_map]. discriminate. }
    rewrite Hb. discriminate.
  - destruct (join_opt_all [44] (map (fun i => Some (json_quote (utf8_encode i))) (a :: more))) as [b Hb].
    { apply Forall_map. apply Forall_forall. intros; discriminate. }
    rewrite Hb. discriminate.
Qed.

Lemma nodot_nil d : nodot d [].
Proof. destruct d; exact I. Qed.

(** ToJSON on the tokens of a well-formed document: accepted, no error, and
    the emitted text is read by the reference JSON parser as the documented
    value. *)
Theorem grammar_to_json d :
  okb pf d = true -> ints_okb d = true ->
  exists out, to_json_stream pf ff (mkS (map (mkp []) (toks d)) []) = Some (Some out, []) /\
              json_parse out = Some (doc_value d).
Proof.
  intros Hok Hi. unfold to_json_stream.
  assert (Hinit : p_init (mkS (map (mkp []) (toks d)) []) = st_at [] (map (mkp []) (toks d))).
  { unfold p_init, p_next. cbn [sbody sfin rest fin perrs jail]. destruct (map (mkp []) (toks d)); reflexivity. }
  rewrite Hinit. set (st := st_at [] (map (mkp []) (toks d))).
  destruct (grammar_complete pf [] d Hok [] (nodot_nil d)) as [f E]. rewrite app_nil_r in E. fold st in E.
  destruct (parse_value_fuel_suffices pf st) as (v' & st' & E').
  assert (Eq : parse_value pf (parse_fuel st) st = Some (ast_of pf d, st_at [] [])).
  { pose proof (parse_value_mono pf f (max f (parse_fuel st)) _ _ (Nat.le_max_l _ _) E) as M1.
    pose proof (parse_value_mono pf (parse_fuel st) (max f (parse_fuel st)) _ _ (Nat.le_max_r _ _) E') as M2.
    congruence. }
  rewrite Eq. change (p_errs (st_at [] [])) with (@nil ecode).
  unfold marshal_value. destruct (encode_value ff (ast_of pf d)) as [out|] eqn:Ee.
  - exists out. split; [reflexivity|]. rewrite <- denote_ast_of. now apply encode_json_parse.
  - exfalso. now apply (encode_ast_of d Hi).
Qed.

End Meaning.
