(** The recovery loop of Parser.SkipErrStmt as it was before the repair
    (lexing/parser.go: [for !p.See(sep) || p.See(EOF) { p.Next() }]), with
    fuel: once the current token is EOF no amount of fuel lets it return.
    This is the defect behind DecodeSeries("x {") never returning; the
    repaired loop is [Parse.skip_loop], structurally recursive. *)
From Coq Require Import List NArith Bool.
From Verif Require Import Lib.Utf8 Jsonx.Lex Jsonx.Tok Jsonx.Parse.
From Coq Require Import Lia Arith.
Import ListNotations.

Fixpoint legacy_skip_loop (fuel : nat) (c : ptok) (r : list ptok) (fin : list ecode)
  : option (ptok * list ptok) :=
  match fuel with
  | O => None
  | S f =>
      if negb (ttype_eqb (pty c) TSemi) || ttype_eqb (pty c) TEOF then
        match r with
        | [] => legacy_skip_loop f (eof_tok fin) [] fin
        | t :: r' => legacy_skip_loop f t r' fin
        end
      else Some (c, r)
  end.

Theorem legacy_skip_stuck_at_eof : forall fuel fin,
  legacy_skip_loop fuel (eof_tok fin) [] fin = None.
Proof. induction fuel as [|f IH]; intros fin; [reflexivity|]. cbn. apply IH. Qed.

(** ... and from any state whose remaining tokens contain no separator. *)
Theorem legacy_skip_refuted : forall fuel r c fin,
  ttype_eqb (pty c) TSemi = false ->
  forallb (fun t => negb (ttype_eqb (pty t) TSemi)) r = true ->
  legacy_skip_loop fuel c r fin = None.
Proof.
  induction fuel as [|f IH]; intros r c fin Hc Hr; [reflexivity|].
  cbn [legacy_skip_loop]. rewrite Hc. cbn [negb orb].
  destruct r as [|t r'].
  - apply legacy_skip_stuck_at_eof.
  - cbn [forallb] in Hr. apply andb_true_iff in Hr as [Ht Hr'].
    apply IH; [now apply negb_true_iff in Ht|exact Hr'].
Qed.


(** ** An [ErrorList.Add] that checks the cap before setting the jail flag

    [p_add_capfirst] is Add with the early return of a full list in front of
    [inJail = true]: a full list drops the error and the parser does not
    enter error state.  [series_badname_loop] is the path of parseSeries for
    an entry that does not start with a type name (parseTypeName reports the
    error, [SkipErrStmt], [continue]) with that Add.  With a full error list
    and a current token that is neither a type name nor EOF it never returns:
    SkipErrStmt is a no-op outside error state, so the same token is looked at
    again.  This is why the termination theorems need "every Add jails"
    (Jsonx/ParseProofs.v [recovery_after_add_progress]), and why
    Jsonx/ConstsGen.v [gen_add_sets_jail_before_cap_return] checks the
    statement order of the current source. *)

Definition p_add_capfirst (e : ecode) (st : pstate) : pstate :=
  if Nat.ltb (length (perrs st)) max_errs then p_add e st else st.

Fixpoint series_badname_loop (fuel : nat) (st : pstate) : option pstate :=
  match fuel with
  | O => None
  | S f =>
      if p_see TEOF st then Some st
      else
        match pty (cur st) with
        | TString | TIdent => Some st          (* a type name: leaves this path *)
        | _ => series_badname_loop f (snd (skip_err_stmt (p_add_capfirst EExpectTypeName st)))
        end
  end.

Theorem capfirst_add_spins : forall fuel st,
  max_errs <= length (perrs st) -> jail st = false ->
  p_see TEOF st = false -> pty (cur st) <> TString -> pty (cur st) <> TIdent ->
  series_badname_loop fuel st = None.
Proof.
  induction fuel as [|f IH]; intros st Hfull Hj He Hs Hi; [reflexivity|].
  cbn [series_badname_loop]. rewrite He.
  assert (Hsame : snd (skip_err_stmt (p_add_capfirst EExpectTypeName st)) = st).
  { unfold p_add_capfirst. destruct (Nat.ltb_spec (length (perrs st)) max_errs); [lia|].
    unfold skip_err_stmt. now rewrite Hj. }
  rewrite Hsame.
  destruct (pty (cur st)) eqn:E; try (apply IH; auto; rewrite E; discriminate); contradiction.
Qed.

(** With the real Add the same path returns (any fuel above the number of
    tokens): shown for all states by [ParseProofs.parse_series_ok]. *)
