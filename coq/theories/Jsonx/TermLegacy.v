(** The recovery loop of Parser.SkipErrStmt as it was before the repair
    (lexing/parser.go: [for !p.See(sep) || p.See(EOF) { p.Next() }]), with
    fuel: once the current token is EOF no amount of fuel lets it return.
    This is the defect behind DecodeSeries("x {") never returning; the
    repaired loop is [Parse.skip_loop], structurally recursive. *)
From Coq Require Import List NArith Bool.
From Verif Require Import Lib.Utf8 Jsonx.Lex Jsonx.Tok Jsonx.Parse.
Import ListNotations.

Fixpoint legacy_skip_loop (fuel : nat) (c : ptok) (r : list ptok) (fin : list ecode)
  : option (ptok * list ptok) :=
  match fuel with
  | O => None
  | S f =>
      if negb (ttype_eqb (pty c) TSemi) || ttype_eqb (pty c) TEOF then
        match r with
        | [] => legacy_skip_loop f (eof_tok fin) [] fin
        | t :: r' => legacy_skip_loop f t r' fin
        end
      else Some (c, r)
  end.

Theorem legacy_skip_stuck_at_eof : forall fuel fin,
  legacy_skip_loop fuel (eof_tok fin) [] fin = None.
Proof. induction fuel as [|f IH]; intros fin; [reflexivity|]. cbn. apply IH. Qed.

(** ... and from any state whose remaining tokens contain no separator. *)
Theorem legacy_skip_refuted : forall fuel r c fin,
  ttype_eqb (pty c) TSemi = false ->
  forallb (fun t => negb (ttype_eqb (pty t) TSemi)) r = true ->
  legacy_skip_loop fuel c r fin = None.
Proof.
  induction fuel as [|f IH]; intros r c fin Hc Hr; [reflexivity|].
  cbn [legacy_skip_loop]. rewrite Hc. cbn [negb orb].
  destruct r as [|t r'].
  - apply legacy_skip_stuck_at_eof.
  - cbn [forallb] in Hr. apply andb_true_iff in Hr as [Ht Hr'].
    apply IH; [now apply negb_true_iff in Ht|exact Hr'].
Qed.
