(** Candidate inputs for the counterexample search of the lexing code
    refinement (Jsonx/CodeRefine.v, C08), and the observation both sides are
    compared on.  Requires only the generated file and the model.

    The generated lexer functions (Gen/CodeLexing.v) take and return the
    state of the abstract lexer (runes not yet consumed, scanning buffer,
    reported errors; Lib/GoLib.v) over runes in [Z]; the model (Jsonx/Lex.v)
    maps the runes not yet consumed (in [N]) to literal, errors and rest. *)
From Coq Require Import String.
From Coq Require Import List NArith ZArith Bool.
From Verif Require Import Lib.Path Lib.GoLib Jsonx.Lex Gen.CodeLexing.
Import ListNotations.
Local Open Scope Z_scope.

(** ** What is observed of one lexer call *)
Inductive lexobs :=
| OTok (ty : Z) (lit : list Z) (errs : list ecode) (rest : list Z)
| OPanic (site : N)
| OFuel.

(** Error sites by code and, where the code is empty, by message. *)
Definition ecode_of (e : go_err) : ecode :=
  match e with
  | GoErr c m =>
      if String.eqb c "lexing.unexpectedEOF" then EUnexpectedEOF
      else if String.eqb c "lexing.unexpectedEndl" then EUnexpectedEndl
      else if String.eqb c "lexing.unknownESC" then EUnknownEsc
      else if String.eqb c "" && String.eqb m "escape not terminated" then EEscNotTerm
      else if String.eqb c "" && String.eqb m "illegal escape char %#U" then EIllegalEscChar
      else if String.eqb c "" && String.eqb m "invalid unicode code point" then EInvalidCodePoint
      else EEncode   (* not an error of the lexing model *)
  end.

(** The model's numbering of the panic sites (Jsonx/Lex.v). *)
Definition panic_site (why : string) : N :=
  if String.eqb why "not starting with a number" then 1
  else if String.eqb why "ident must start with letter or _" then 2
  else if String.eqb why "incorrect string start" then 3
  else if String.eqb why "incorrect raw string start" then 4
  else if String.eqb why "scanning on closed rune scanner" then 7
  else if String.eqb why "needs to buffer a '/' for lex comment" then 8
  else 99%N.

Definition lex_result := go_res ((Z * list Z) * list Z * list Z * list go_err).

Definition obs_of_gen (r : lex_result) : lexobs :=
  match r with
  | GoOk (ty, lit, inp, _, errs) => OTok ty lit (map ecode_of errs) inp
  | GoPanic w => OPanic (panic_site w)
  | GoOutOfFuel => OFuel
  end.

(** Token types as the numbers the callers pass (the model's [ttype] for
    them): Comment is lexing's own constant; the others are parameters. *)
Definition obs_of_model (ty : ttype -> Z) (l : lexres) : lexobs :=
  match l with
  | LTok t e rest => OTok (ty (tty t)) (map Z.of_N (tlit t)) e (map Z.of_N rest)
  | LPanic n => OPanic n
  end.

Definition ty_code (t : ttype) : Z :=
  match t with
  | TComment => -2 | TIllegal => -3 | TEOF => -1
  | TString => 11 | TInt => 12 | TFloat => 13 | TIdent => 14
  | _ => 10
  end.

Definition ecode_eqb (a b : ecode) : bool := (ecode_N a =? ecode_N b)%N.

Definition lexobs_eqb (a b : lexobs) : bool :=
  match a, b with
  | OTok t l e r, OTok t' l' e' r' =>
      (t =? t') && list_eqb Z.eqb l l' && list_eqb ecode_eqb e e' && list_eqb Z.eqb r r'
  | OPanic n, OPanic n' => (n =? n')%N
  | OFuel, OFuel => true
  | _, _ => false
  end.

Definition zs (s : list N) : list Z := map Z.of_N s.

(** ** Candidates: every rune string of length <= 4 over
    star, slash, double quote, backslash, newline, 1, dot, e, plus, minus (11111 strings), put behind the prefix the
    function is entered with. *)
Definition alpha : list N := [42; 47; 34; 92; 10; 49; 46; 101; 43; 45]%N.
Definition cand_strs : list (list N) := strs_upto alpha 4.
(** Shorter strings over an alphabet that also has 0, x, a, u, backquote, 7,
    E, carriage return and a rune above the ASCII range. *)
Definition alpha2 : list N := [42; 47; 34; 92; 10; 49; 46; 101; 43; 45; 48; 120; 97; 117; 96; 55; 233; 69; 13]%N.
Definition cand_strs2 : list (list N) := strs_upto alpha2 3.

Definition cex_lexLineComment :=
  cex_search lexobs_eqb
    (fun s => obs_of_gen (gen_lexing_lexLineComment (zs s) [47] []))
    (fun s => obs_of_model ty_code (lex_line_comment s))
    (map (fun w => 47%N :: w) (cand_strs ++ cand_strs2) ++ [[]]).

Definition cex_lexBlockComment :=
  cex_search lexobs_eqb
    (fun s => obs_of_gen (gen_lexing_lexBlockComment (zs s) [47] []))
    (fun s => obs_of_model ty_code (lex_block_comment s))
    (map (fun w => 42%N :: w) (cand_strs ++ cand_strs2) ++ [[]]).

Definition cex_LexRawString :=
  cex_search lexobs_eqb
    (fun s => obs_of_gen (gen_lexing_LexRawString (zs s) [] [] 11))
    (fun s => obs_of_model ty_code (lex_raw_string s))
    (map (fun w => 96%N :: w) cand_strs2 ++ cand_strs2).

Definition cex_LexIdent :=
  cex_search lexobs_eqb
    (fun s => obs_of_gen (gen_lexing_LexIdent (zs s) [] [] 14))
    (fun s => obs_of_model ty_code (lex_ident s))
    (map (fun w => 97%N :: w) cand_strs2 ++ map (fun w => 95%N :: w) cand_strs2 ++ cand_strs2).

Definition cex_LexNumber :=
  cex_search lexobs_eqb
    (fun s => obs_of_gen (gen_lexing_LexNumber (zs s) [] [] 12 13))
    (fun s => obs_of_model ty_code (lex_number s))
    (map (fun w => 49%N :: w) cand_strs ++ map (fun w => 48%N :: w) cand_strs2 ++ cand_strs2).

(** Escapes at the edges of the code-point checks: \uD7FF \uD800 \uDFFF \uE000
    \U0010FFFF \U00110000 \377 \400 \xff \x7g \u12 (hex digits as runes). *)
Definition cand_escapes : list (list N) :=
  [[117; 68; 55; 70; 70]; [117; 68; 56; 48; 48]; [117; 68; 70; 70; 70]; [117; 69; 48; 48; 48];
   [85; 48; 48; 49; 48; 70; 70; 70; 70]; [85; 48; 48; 49; 49; 48; 48; 48; 48];
   [51; 55; 55]; [52; 48; 48]; [120; 102; 102]; [120; 55; 103]; [117; 49; 50]; [85; 102; 102; 102; 102; 102; 102; 102; 102]]%N.

Definition cex_LexString :=
  cex_search lexobs_eqb
    (fun s => obs_of_gen (gen_lexing_LexString (zs s) [] [] 11 34))
    (fun s => obs_of_model ty_code (lex_string 34 s))
    (map (fun w => 34%N :: w) cand_strs ++ map (fun w => 34%N :: 92%N :: w) cand_strs2 ++ cand_strs2
     ++ map (fun w => (34 :: 92 :: w ++ [34])%N) cand_escapes).

(** ** ErrorList.Add *)
Definition cand_errs (n : nat) : list go_err := repeat (GoErr "c" "m") n.
Definition cex_ErrorList_Add :=
  cex_search (fun a b : go_res (list go_err * bool) =>
                match a, b with
                | GoOk (l, j), GoOk (l', j') => (go_len l =? go_len l') && Bool.eqb j j'
                | GoPanic _, GoPanic _ => true
                | _, _ => false
                end)
    (fun x => gen_lexing_ErrorList_Add (cand_errs (fst x)) 20 (snd x) false (GoErr "c" "m"))
    (fun x => GoOk (cand_errs (if Nat.ltb (fst x) max_errs then S (fst x) else fst x), true))
    (pairs [0; 1; 18; 19; 20; 21; 40]%nat [false; true]).
