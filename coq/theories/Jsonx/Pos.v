(** Token and lexing-error positions (lexing/rune_scanner.go,
    lex_scanner.go): line and column, in runes, of the first rune of the
    token.  The first rune of the input is at (1, 1); the rune after a line
    feed is at (line + 1, 1).  A lexing error carries the position of the
    token it was found in.  The EOF token carries the position of the last
    rune read - (1, 0) for the empty input.

    The positions are a function of the token literals and the input alone
    ([tok_positions]); [tok_positions_spec] says that they are the positions
    of the tokens' first runes in the input text, [tok_positions_increase]
    that they grow strictly from token to token. *)
From Coq Require Import List NArith Bool Lia Sorted Arith PeanoNat.
From Verif Require Import Lib.Utf8 Jsonx.Lex Jsonx.LexProofs.
Import ListNotations.
Local Open Scope N_scope.

Definition pos := (N * N)%type.

(** Position of the rune after [r], which stands at [p]. *)
Definition adv (p : pos) (r : N) : pos :=
  if r =? 10 then (fst p + 1, 1) else (fst p, snd p + 1).

Definition adv_all (p : pos) (rs : list N) : pos := fold_left adv rs p.

Fixpoint take_while (f : N -> bool) (s : list N) : list N :=
  match s with
  | c :: r => if f c then c :: take_while f r else []
  | [] => []
  end.

Lemma take_drop f s : s = take_while f s ++ drop_while f s.
Proof.
  induction s as [|c r IH]; [reflexivity|]. cbn [take_while drop_while].
  destruct (f c); [cbn [app]; now f_equal|reflexivity].
Qed.

Fixpoint tok_positions (white : N -> bool) (p : pos) (l : list (token * list ecode)) (s : list N)
  : list pos :=
  match l with
  | [] => []
  | te :: l' =>
      let p1 := adv_all p (take_while white s) in
      let lit := tlit (fst te) in
      p1 :: tok_positions white (adv_all p1 lit) l' (skipn (length lit) (drop_while white s))
  end.

Definition start_pos : pos := (1, 1).

Definition eof_pos (s : list N) : pos :=
  match s with
  | [] => (1, 0)
  | _ => adv_all start_pos (removelast s)
  end.

(** The positions of the lexer's error list: each error has the position of
    its token; the list keeps the first [max_errs]. *)
Definition err_positions (l : list (token * list ecode)) (ps : list pos) : list pos :=
  firstn max_errs (flat_map (fun tp => map (fun _ => snd tp) (snd (fst tp))) (combine l ps)).

Lemma adv_all_app p a b : adv_all p (a ++ b) = adv_all (adv_all p a) b.
Proof. apply fold_left_app. Qed.

Lemma Forall2_imp {A B} (P Q : A -> B -> Prop) l l' :
  (forall a b, P a b -> Q a b) -> Forall2 P l l' -> Forall2 Q l l'.
Proof. intros H. induction 1; constructor; auto. Qed.

Theorem tok_positions_spec white : forall l s p0,
  spelled white l s ->
  Forall2 (fun te p => exists pre rest, s = pre ++ tlit (fst te) ++ rest /\ p = adv_all p0 pre)
          l (tok_positions white p0 l s).
Proof.
  induction l as [|[t e] l IH]; intros s p0 H; cbn [tok_positions]; [constructor|].
  cbn [spelled] in H. destruct H as (rest & Hd & Hne & Hs). cbn [fst].
  assert (Hsk : skipn (length (tlit t)) (drop_while white s) = rest).
  { rewrite Hd. rewrite skipn_app, skipn_all, Nat.sub_diag. reflexivity. }
  rewrite Hsk. constructor.
  - exists (take_while white s), rest. cbn [fst]. split; [|reflexivity].
    rewrite <- Hd. apply take_drop.
  - specialize (IH rest (adv_all (adv_all p0 (take_while white s)) (tlit t)) Hs).
    eapply Forall2_imp; [|exact IH]. intros te p (pre & rest' & E & Ep).
    exists (take_while white s ++ tlit t ++ pre), rest'. split.
    + rewrite (take_drop white s) at 1. rewrite Hd, E. now rewrite <- !app_assoc.
    + now rewrite Ep, !adv_all_app.
Qed.

Definition pos_lt (p q : pos) : Prop := fst p < fst q \/ (fst p = fst q /\ snd p < snd q).
Definition pos_le (p q : pos) : Prop := p = q \/ pos_lt p q.

Lemma pos_lt_trans p q r : pos_lt p q -> pos_lt q r -> pos_lt p r.
Proof. unfold pos_lt. lia. Qed.

Lemma adv_lt p r : pos_lt p (adv p r).
Proof. unfold adv, pos_lt. destruct (r =? 10); cbn [fst snd]; lia. Qed.

Lemma adv_all_le : forall rs p, pos_le p (adv_all p rs).
Proof.
  induction rs as [|r rs IH]; intros p; [now left|]. cbn [adv_all fold_left].
  right. destruct (IH (adv p r)) as [E|L].
  - unfold adv_all in E. rewrite <- E. apply adv_lt.
  - eapply pos_lt_trans; [apply adv_lt|exact L].
Qed.

Lemma adv_all_lt rs p : rs <> [] -> pos_lt p (adv_all p rs).
Proof.
  destruct rs as [|r rs]; [congruence|]. intros _. cbn [adv_all fold_left].
  destruct (adv_all_le rs (adv p r)) as [E|L].
  - unfold adv_all in E. rewrite <- E. apply adv_lt.
  - eapply pos_lt_trans; [apply adv_lt|exact L].
Qed.

Theorem tok_positions_increase white : forall l s p0,
  spelled white l s -> Sorted pos_lt (tok_positions white p0 l s).
Proof.
  induction l as [|[t e] l IH]; intros s p0 H; cbn [tok_positions]; [constructor|].
  cbn [spelled] in H. destruct H as (rest & Hd & Hne & Hs). cbn [fst].
  assert (Hsk : skipn (length (tlit t)) (drop_while white s) = rest).
  { rewrite Hd. rewrite skipn_app, skipn_all, Nat.sub_diag. reflexivity. }
  rewrite Hsk. constructor; [now apply IH|].
  destruct l as [|[t' e'] l']; cbn [tok_positions]; constructor.
  set (p1 := adv_all p0 (take_while white s)).
  pose proof (adv_all_lt (tlit t) p1 Hne) as L1.
  destruct (adv_all_le (take_while white rest) (adv_all p1 (tlit t))) as [E|L2].
  - rewrite <- E. exact L1.
  - eapply pos_lt_trans; eauto.
Qed.

(** On inputs. *)
Theorem jsonx_token_positions input toks :
  jsonx_raw_tokens input = Ok toks ->
  let ps := tok_positions is_white start_pos toks input in
  Forall2 (fun te p => exists pre rest, input = pre ++ tlit (fst te) ++ rest /\ p = adv_all start_pos pre)
          toks ps /\ Sorted pos_lt ps.
Proof.
  intros H. pose proof (lex_all_spelled lex_jsonx is_white lex_jsonx_takes _ input _ H) as Hs.
  split; [now apply tok_positions_spec|now apply tok_positions_increase].
Qed.
