(** package lexing as it is written NOW (Gen/CodeLexing.v, translated by
    gen/gotrans.go on every run) against the model Jsonx/Lex.v.

    [ErrorList.Add] (receiver fields as state), the rune classes, and the
    lexer functions [lexLineComment], [lexBlockComment], [LexRawString],
    [LexIdent], [LexNumber], [lexEscape] / [LexString]: each Go loop is a
    Fixpoint on explicit fuel over the state of the abstract lexer (runes not
    yet consumed, scanning buffer, reported errors; [x.Next()] on an ended
    lexer is the Go panic).  For ALL inputs the generated function observes
    what the model's token-level function computes (literal, errors in order,
    remaining runes, the panic site); in particular it never runs out of the
    fuel it is given.  Candidates for the counterexample search and the
    observation [lexobs]: CodeCands.v. *)
From Coq Require Import String.
From Coq Require Import List NArith ZArith Bool Lia.
From Coq Require Import ZifyN ZifyNat ZifyBool.
From Verif Require Import Lib.Path Lib.Utf8 Lib.GoLib Jsonx.Lex Jsonx.LexProofs Jsonx.Parse Jsonx.ParseProofs
  Gen.CodeLexing Jsonx.CodeCands.
Import ListNotations.
Local Open Scope Z_scope.

(** ErrorList.Add *)
Lemma gen_ErrorList_Add_is_model : forall (errs : list go_err) (jail : bool) (e : go_err),
  gen_lexing_ErrorList_Add errs 20 jail false e =
  GoOk (if Nat.ltb (length errs) max_errs then errs ++ [e] else errs, true).
Proof.
  intros. unfold gen_lexing_ErrorList_Add, max_errs, go_len.
  destruct (Nat.ltb_spec (length errs) 20); go_cases; go_leaf.
Qed.

Lemma code_add_sets_jail_even_at_cap : forall (errs : list go_err) (max : Z) (jail : bool) (e : go_err),
  exists errs', gen_lexing_ErrorList_Add errs max jail false e = GoOk (errs', true) /\
                (go_len errs >= max -> errs' = errs).
Proof.
  intros. unfold gen_lexing_ErrorList_Add. go_cases; eexists; (split; [reflexivity|]); go_arith; intros; try reflexivity; lia.
Qed.

Lemma zs_cons c r : zs (c :: r) = Z.of_N c :: zs r.
Proof. reflexivity. Qed.
Lemma zs_nil : zs [] = [].
Proof. reflexivity. Qed.
(** Comparisons of a rune that came from [N] with a literal, as comparisons in [N]
    (the model's). *)
Lemma Zc_eqb a p : (Z.of_N a =? Z.pos p) = (a =? N.pos p)%N. Proof. lia. Qed.
Lemma Zc_leb a p : (Z.of_N a <=? Z.pos p) = (a <=? N.pos p)%N. Proof. lia. Qed.
Lemma Zc_ltb a p : (Z.of_N a <? Z.pos p) = (a <? N.pos p)%N. Proof. lia. Qed.
Lemma Zc_geb a p : (Z.of_N a >=? Z.pos p) = (N.pos p <=? a)%N. Proof. lia. Qed.
Lemma Zc_gtb a p : (Z.of_N a >? Z.pos p) = (N.pos p <? a)%N. Proof. lia. Qed.
Lemma Zc_leb' a p : (Z.pos p <=? Z.of_N a) = (N.pos p <=? a)%N. Proof. lia. Qed.
Lemma Zc_ltb' a p : (Z.pos p <? Z.of_N a) = (N.pos p <? a)%N. Proof. lia. Qed.
Lemma Zc_eqb' a p : (Z.pos p =? Z.of_N a) = (N.pos p =? a)%N. Proof. lia. Qed.
Lemma Zc_eqb_N a b : (Z.of_N a =? Z.of_N b) = (a =? b)%N. Proof. lia. Qed.

Lemma ended_nil : lexer_Ended (zs []) = true. Proof. reflexivity. Qed.
Lemma rune_nil : lexer_Rune (zs []) = 0. Proof. reflexivity. Qed.
Lemma tl_nil : tl (zs []) = zs []. Proof. reflexivity. Qed.

Ltac lex_simpl :=
  rewrite ?zs_cons; cbn [lexer_Ended lexer_Rune tl hd]; rewrite ?ended_nil, ?rune_nil, ?tl_nil;
  cbn [lexer_Ended lexer_Rune tl hd];
  rewrite ?Zc_eqb, ?Zc_leb, ?Zc_ltb, ?Zc_geb, ?Zc_gtb, ?Zc_leb', ?Zc_ltb', ?Zc_eqb', ?Zc_eqb_N.

(** line comment *)
Lemma line_loop : forall (r : list N) (fuel : nat) (c : N) (buf : list Z) (errs : list go_err),
  (length r < fuel)%nat ->
  obs_of_gen (gen_lexing_lexLineComment_loop1 fuel buf errs (Z.of_N c :: zs r)) =
  let '(a, b) := span (fun x => negb (x =? 10)%N) r in
  OTok (-2) (buf ++ Z.of_N c :: zs a) (map ecode_of errs) (zs b).
Proof.
  induction r as [|c2 r IH]; intros fuel c buf errs Hf; (destruct fuel as [|fuel]; [cbn in Hf; lia|]);
    cbn [gen_lexing_lexLineComment_loop1 span]; lex_simpl.
  - cbn [orb obs_of_gen]. reflexivity.
  - cbn [length] in Hf.
    specialize (IH fuel c2 (buf ++ [Z.of_N c]) errs ltac:(lia)). lex_simpl.
    destruct (N.eqb_spec c2 10) as [->|Hne]; cbn [negb].
    + cbn. reflexivity.
    + replace (Z.of_N c2 =? 10) with false by lia. cbn [orb].
      rewrite IH. destruct (span _ r) as [a b]. rewrite <- app_assoc. reflexivity.
Qed.

Lemma gen_lexLineComment_is_model : forall s : list N,
  obs_of_gen (gen_lexing_lexLineComment (zs s) [47] []) = obs_of_model ty_code (lex_line_comment s).
Proof.
  intros [|c r]; [reflexivity|]. unfold gen_lexing_lexLineComment, lex_line_comment. rewrite zs_cons.
  rewrite line_loop by (unfold zs; cbn [length]; rewrite map_length; lia).
  destruct (span _ r) as [a b]. reflexivity.
Qed.

(** One iteration of a lifted loop against one step of the model's
    recursion: split on all conditions of both sides; a leaf is an exit (both
    sides computed), a recursive call (induction hypothesis, then the model's
    recursive result is destructed) or contradictory. *)
Ltac destruct_lets :=
  repeat match goal with
         | |- context [match ?x with pair _ _ => _ end] => destruct x
         end.

Ltac loop_leaf IH :=
  try (rewrite IH by (cbn [length] in *; lia));
  repeat match goal with H : _ = (_, _) |- _ => rewrite H end;
  destruct_lets; cbn [obs_of_gen obs_of_model tty tlit];
  rewrite <- ?app_assoc, ?app_nil_r, ?map_app; cbn [app map];
  go_leaf.

(** block comment *)
Lemma block_loop : forall (r : list N) (fuel : nat) (star : bool) (c : N) (buf : list Z) (errs : list go_err),
  (length r < fuel)%nat ->
  obs_of_gen (gen_lexing_lexBlockComment_loop1 fuel star buf errs (Z.of_N c :: zs r)) =
  let '(l, rest, e) := block_go star r in
  OTok (-2) (buf ++ Z.of_N c :: zs l) (map ecode_of errs ++ e) (zs rest).
Proof.
  induction r as [|c2 r IH]; intros fuel star c buf errs Hf; (destruct fuel as [|fuel]; [cbn in Hf; lia|]);
    cbn [gen_lexing_lexBlockComment_loop1 block_go]; lex_simpl; go_cases; loop_leaf IH.
Qed.

Lemma gen_lexBlockComment_is_model : forall s : list N,
  obs_of_gen (gen_lexing_lexBlockComment (zs s) [47] []) = obs_of_model ty_code (lex_block_comment s).
Proof.
  intros [|c r]; [reflexivity|]. unfold gen_lexing_lexBlockComment, lex_block_comment. rewrite zs_cons.
  cbv zeta. rewrite block_loop by (unfold zs; cbn [length]; rewrite map_length; lia).
  destruct_lets. reflexivity.
Qed.

Lemma zs_length s : length (zs s) = length s.
Proof. unfold zs. apply map_length. Qed.

(** raw string: the loop looks at the current rune before consuming it *)
Lemma raw_loop : forall (s : list N) (fuel : nat) (t : Z) (buf : list Z) (errs : list go_err),
  (length s < fuel)%nat ->
  obs_of_gen (gen_lexing_LexRawString_loop1 fuel t buf errs (zs s)) =
  let '(l, rest, e) := raw_go s in
  OTok t (buf ++ zs l) (map ecode_of errs ++ e) (zs rest).
Proof.
  induction s as [|c r IH]; intros fuel t buf errs Hf; (destruct fuel as [|fuel]; [cbn in Hf; lia|]);
    cbn [gen_lexing_LexRawString_loop1 raw_go]; lex_simpl; go_cases; loop_leaf IH.
Qed.

Lemma gen_LexRawString_is_model : forall (s : list N) (t : Z),
  obs_of_gen (gen_lexing_LexRawString (zs s) [] [] t) =
  obs_of_model (fun _ => t) (lex_raw_string s).
Proof.
  intros s t. unfold gen_lexing_LexRawString, lex_raw_string.
  destruct s as [|c r]; [reflexivity|]. lex_simpl.
  destruct (N.eqb_spec c 96) as [->|Hne].
  - cbn [negb app]. rewrite raw_loop by (rewrite zs_length; lia). destruct_lets. reflexivity.
  - cbn [negb obs_of_gen panic_site String.eqb Ascii.eqb Bool.eqb].
    destruct c as [|p]; [reflexivity|]. repeat (destruct p as [p|p|]; try reflexivity); congruence.
Qed.

(** rune classes *)
Ltac rune_class :=
  intros; autounfold with gencode; unfold is_white_or_endl, is_white, is_ident_char, is_ident_letter, is_hex_digit, is_letter, is_digit,
    Lib.Utf8.in_range; go_solve.

Lemma gen_IsDigit_is_model c : gen_lexing_IsDigit (Z.of_N c) = is_digit c.
Proof. rune_class. Qed.
Lemma gen_IsLetter_is_model c : gen_lexing_IsLetter (Z.of_N c) = is_letter c.
Proof. rune_class. Qed.
Lemma gen_IsHexDigit_is_model c : gen_lexing_IsHexDigit (Z.of_N c) = is_hex_digit c.
Proof. rune_class. Qed.
Lemma gen_IsIdentLetter_is_model c : gen_lexing_IsIdentLetter (Z.of_N c) = is_ident_letter c.
Proof. rune_class. Qed.
Lemma gen_IsWhite_is_model c : gen_lexing_IsWhite (Z.of_N c) = is_white c.
Proof. rune_class. Qed.
Lemma gen_IsWhiteOrEndl_is_model c : gen_lexing_IsWhiteOrEndl (Z.of_N c) = is_white_or_endl c.
Proof. rune_class. Qed.
Lemma gen_IsDigit_0 : gen_lexing_IsDigit 0 = false. Proof. reflexivity. Qed.
Lemma gen_IsHexDigit_0 : gen_lexing_IsHexDigit 0 = false. Proof. reflexivity. Qed.
Lemma gen_IsIdentLetter_0 : gen_lexing_IsIdentLetter 0 = false. Proof. reflexivity. Qed.

Ltac rune_simpl :=
  rewrite ?gen_IsDigit_is_model, ?gen_IsLetter_is_model, ?gen_IsHexDigit_is_model, ?gen_IsIdentLetter_is_model,
    ?gen_IsDigit_0, ?gen_IsHexDigit_0, ?gen_IsIdentLetter_0.

(** ident *)
Lemma ident_loop : forall (r : list N) (fuel : nat) (t : Z) (c : N) (buf : list Z) (errs : list go_err),
  (length r < fuel)%nat ->
  obs_of_gen (gen_lexing_LexIdent_loop1 fuel t buf errs (Z.of_N c :: zs r)) =
  let '(a, b) := span is_ident_char r in
  OTok t (buf ++ Z.of_N c :: zs a) (map ecode_of errs) (zs b).
Proof.
  induction r as [|c2 r IH]; intros fuel t c buf errs Hf; (destruct fuel as [|fuel]; [cbn in Hf; lia|]);
    cbn [gen_lexing_LexIdent_loop1 span]; lex_simpl; rune_simpl;
    try destruct (span is_ident_char r) as [a b] eqn:Esp; unfold is_ident_char; go_cases; loop_leaf IH.
Qed.

Lemma gen_LexIdent_is_model : forall (s : list N) (t : Z),
  obs_of_gen (gen_lexing_LexIdent (zs s) [] [] t) = obs_of_model (fun _ => t) (lex_ident s).
Proof.
  intros s t. unfold gen_lexing_LexIdent, lex_ident.
  destruct s as [|c r]; [reflexivity|]. lex_simpl; rune_simpl.
  destruct (is_ident_letter c); cbn [negb]; [|reflexivity].
  cbn [app]. rewrite ident_loop by (cbn [length]; rewrite zs_length; lia). destruct_lets. reflexivity.
Qed.

(** number: the stages of [lex_number] after the first digit, as functions *)
Definition exp_part (r2 : list N) : bool * list N * list N :=
  match r2 with
  | e :: r2' =>
      if (e =? 101)%N || (e =? 69)%N then
        let '(sg, r2'') :=
          match r2' with
          | c :: r2''' => if is_digit c || is_exp_sign c then ([c], r2''') else ([], r2')
          | [] => ([], [])
          end in
        let '(d3, r3) := span is_digit r2'' in
        (true, e :: sg ++ d3, r3)
      else (false, [], r2)
  | [] => (false, [], [])
  end.

Lemma exp_part_cons e ra :
  exp_part (e :: ra) =
  if (e =? 101)%N || (e =? 69)%N then
    let '(sg, rb) :=
      match ra with
      | c :: rc => if is_digit c || ((c =? 45)%N || ((c =? 43)%N || false)) then ([c], rc) else ([], ra)
      | [] => ([], [])
      end in
    let '(d3, r3) := span is_digit rb in
    (true, e :: sg ++ d3, r3)
  else (false, [], e :: ra).
Proof. reflexivity. Qed.
Lemma exp_part_nil : exp_part [] = (false, [], []).
Proof. reflexivity. Qed.

Definition frac_part (r1 : list N) : bool * list N * list N :=
  match r1 with
  | 46%N :: r1' => let '(d2, r2) := span is_digit r1' in (true, 46%N :: d2, r2)
  | _ => (false, [], r1)
  end.

Definition num_ty (ti tf : Z) (fl : bool) : Z := if fl then tf else ti.

Lemma exp_digits_loop : forall (s : list N) (fuel : nat) (fl : bool) (tf ti : Z) (buf : list Z) (errs : list go_err),
  (length s < fuel)%nat ->
  obs_of_gen (gen_lexing_LexNumber_loop2 fuel fl tf ti buf errs (zs s)) =
  let '(d3, r3) := span is_digit s in
  OTok (num_ty ti tf fl) (buf ++ zs d3) (map ecode_of errs) (zs r3).
Proof.
  induction s as [|c s IH]; intros fuel fl tf ti buf errs Hf; (destruct fuel as [|fuel]; [cbn in Hf; lia|]);
    cbn [gen_lexing_LexNumber_loop2 span]; lex_simpl; rune_simpl; unfold num_ty; go_cases; loop_leaf IH.
Qed.

Ltac fuel_ok := rewrite ?zs_length; cbn [length tl] in *; lia.

Lemma frac_digits_loop : forall (s : list N) (fuel : nat) (fl : bool) (tf ti : Z) (buf : list Z) (errs : list go_err),
  (length s < fuel)%nat ->
  obs_of_gen (gen_lexing_LexNumber_loop3 fuel fl tf ti buf errs (zs s)) =
  let '(d2, r2) := span is_digit s in
  let '(fl2, ex, r3) := exp_part r2 in
  OTok (num_ty ti tf (fl || fl2)) (buf ++ zs d2 ++ zs ex) (map ecode_of errs) (zs r3).
Proof.
  induction s as [|c s IH]; intros fuel fl tf ti buf errs Hf; (destruct fuel as [|fuel]; [cbn in Hf; lia|]);
    cbn [gen_lexing_LexNumber_loop3 span exp_part]; lex_simpl; rune_simpl.
  - cbn [Z.eqb orb obs_of_gen]. unfold num_ty. rewrite orb_false_r. cbn [zs map app]. rewrite app_nil_r. go_cases; reflexivity.
  - destruct (is_digit c) eqn:Ed.
    + rewrite IH by fuel_ok. destruct_lets. rewrite <- app_assoc. reflexivity.
    + clear IH.
      destruct s as [|c2 s2]; rewrite ?exp_part_cons, ?exp_part_nil; cbn beta iota zeta; lex_simpl; rune_simpl; rewrite <- ?zs_cons;
        unfold num_ty; go_cases; rewrite ?exp_digits_loop by fuel_ok; unfold num_ty;
        destruct_lets; cbn [obs_of_gen]; rewrite <- ?app_assoc, ?app_nil_r, ?orb_true_r, ?orb_false_r;
        cbn [app zs map]; go_leaf.
Qed.

Lemma frac_part_if c r :
  frac_part (c :: r) = if (c =? 46)%N then (let '(d2, r2) := span is_digit r in (true, 46%N :: d2, r2)) else (false, [], c :: r).
Proof.
  destruct (N.eqb_spec c 46) as [->|H]; [reflexivity|].
  unfold frac_part. destruct c as [|p]; [reflexivity|].
  do 6 (destruct p as [p|p|]; try reflexivity). congruence.
Qed.
Lemma frac_part_nil : frac_part [] = (false, [], []).
Proof. reflexivity. Qed.

Ltac num_exit :=
  rewrite ?frac_part_if, ?frac_part_nil, ?exp_part_cons, ?exp_part_nil; cbn beta iota zeta; lex_simpl; rune_simpl;
  rewrite <- ?zs_cons; unfold num_ty; go_cases;
  rewrite ?exp_part_cons, ?exp_part_nil; cbn beta iota zeta; go_cases;
  rewrite ?exp_digits_loop, ?frac_digits_loop by fuel_ok; unfold num_ty;
  destruct_lets; cbn [obs_of_gen]; rewrite <- ?app_assoc, ?app_nil_r, ?orb_true_r, ?orb_false_r;
  subst; unfold zs in *; cbn [app map]; rewrite <- ?app_assoc, ?app_nil_r, ?map_app; cbn [app map orb]; go_leaf.

Lemma int_digits_loop : forall (s : list N) (fuel : nat) (fl : bool) (tf ti : Z) (buf : list Z) (errs : list go_err),
  (length s < fuel)%nat ->
  obs_of_gen (gen_lexing_LexNumber_loop4 fuel fl tf ti buf errs (zs s)) =
  let '(d1, r1) := span is_digit s in
  let '(fl1, frac, r2) := frac_part r1 in
  let '(fl2, ex, r3) := exp_part r2 in
  OTok (num_ty ti tf (fl || fl1 || fl2)) (buf ++ zs d1 ++ zs frac ++ zs ex) (map ecode_of errs) (zs r3).
Proof.
  induction s as [|c s IH]; intros fuel fl tf ti buf errs Hf; (destruct fuel as [|fuel]; [cbn in Hf; lia|]);
    cbn [gen_lexing_LexNumber_loop4 span]; lex_simpl; rune_simpl.
  - cbn [Z.eqb orb obs_of_gen frac_part exp_part]. unfold num_ty. rewrite !orb_false_r. cbn [zs map app]. rewrite app_nil_r.
    go_cases; reflexivity.
  - destruct (is_digit c) eqn:Ed.
    + rewrite IH by fuel_ok. destruct_lets. rewrite <- app_assoc. reflexivity.
    + clear IH. destruct s as [|c2 s2]; [num_exit|].
      destruct s2 as [|c3 s3]; num_exit.
Qed.

Lemma hex_digits_loop : forall (s : list N) (fuel : nat) (fl : bool) (tf ti : Z) (buf : list Z) (errs : list go_err),
  (length s < fuel)%nat ->
  obs_of_gen (gen_lexing_LexNumber_loop1 fuel fl tf ti buf errs (zs s)) =
  let '(h, r3) := span is_hex_digit s in
  OTok (num_ty ti tf fl) (buf ++ zs h) (map ecode_of errs) (zs r3).
Proof.
  induction s as [|c s IH]; intros fuel fl tf ti buf errs Hf; (destruct fuel as [|fuel]; [cbn in Hf; lia|]);
    cbn [gen_lexing_LexNumber_loop1 span]; lex_simpl; rune_simpl; unfold num_ty; go_cases; loop_leaf IH.
Qed.

(** The hex prefix test of [lex_number] as a condition. *)
Lemma hex_prefix_if (start : N) (r : list N) :
  match r with
  | 120%N :: r2 => if (start =? 48)%N then Some r2 else None
  | _ => None
  end = match r with c :: r2 => if (start =? 48)%N && (c =? 120)%N then Some r2 else None | [] => None end.
Proof.
  destruct r as [|c r2]; [reflexivity|].
  destruct (N.eqb_spec c 120) as [->|H]; [now rewrite andb_true_r|].
  rewrite andb_false_r. destruct c as [|p]; [reflexivity|].
  do 7 (destruct p as [p|p|]; try reflexivity). congruence.
Qed.

Lemma gen_LexNumber_is_model : forall (s : list N) (ti tf : Z),
  obs_of_gen (gen_lexing_LexNumber (zs s) [] [] ti tf) =
  obs_of_model (fun t => match t with TFloat => tf | _ => ti end) (lex_number s).
Proof.
  intros s ti tf. unfold gen_lexing_LexNumber, lex_number.
  destruct s as [|start r]; [reflexivity|]. cbv zeta. lex_simpl; rune_simpl.
  destruct (is_digit start) eqn:Ed; cbn [negb]; [|reflexivity].
  rewrite hex_prefix_if.
  destruct r as [|c r2]; lex_simpl; rune_simpl.
  - rewrite andb_false_r. rewrite int_digits_loop by fuel_ok. cbn. unfold num_ty. reflexivity.
  - cbn [app]. rewrite <- ?zs_cons.
    destruct ((start =? 48)%N && (c =? 120)%N) eqn:Eh.
    + rewrite hex_digits_loop by fuel_ok. destruct_lets.
      apply andb_true_iff in Eh. destruct Eh as [E1 E2]. apply N.eqb_eq in E1, E2. subst.
      cbn [obs_of_gen obs_of_model tty tlit num_ty app zs map]. reflexivity.
    + rewrite int_digits_loop by fuel_ok.
      fold (frac_part). destruct (span is_digit (c :: r2)) as [d1 r1].
      change (match r1 with
              | 46%N :: r1' => let '(d2, r2) := span is_digit r1' in (true, 46%N :: d2, r2)
              | _ => (false, [], r1)
              end) with (frac_part r1).
      destruct (frac_part r1) as [[fl1 frac] rr2].
      match goal with |- context [match rr2 with e :: _ => _ | [] => _ end] => idtac end.
      change (match rr2 with
              | [] => (false, [], [])
              | e :: r2' => _
              end) with (exp_part rr2).
      destruct (exp_part rr2) as [[fl2 ex] r3].
      cbn [obs_of_gen obs_of_model tty tlit orb app map]. unfold num_ty, zs. rewrite ?map_app.
      destruct fl1, fl2; reflexivity.
Qed.

(** * lexEscape / LexString *)

(** What [lexEscape] consumes: the prefix, the rest, the errors. *)
Fixpoint dig_run (k : nat) (base max v : N) (s : list N) : list N * list N * list ecode :=
  match k with
  | O => ([], s, code_point_errs max v)
  | S k' =>
      match s with
      | [] => ([], [], [EEscNotTerm])
      | c :: r =>
          let d := digit_val c in
          if (base <=? d)%N then ([], s, [EIllegalEscChar])
          else let '(p, s', e) := dig_run k' base max (v * base + d) r in (c :: p, s', e)
      end
  end.

Definition esc_run (q : N) (s : list N) : list N * list N * list ecode :=
  match s with
  | [] => ([], [], [EEscNotTerm])
  | c :: r =>
      if is_simple_escape q c then ([c], r, [])
      else if in_range 48 55 c then dig_run 3 8 255 0 s
      else if (c =? 120)%N then let '(p, s', e) := dig_run 2 16 255 0 r in (c :: p, s', e)
      else if (c =? 117)%N then let '(p, s', e) := dig_run 4 16 max_rune 0 r in (c :: p, s', e)
      else if (c =? 85)%N then let '(p, s', e) := dig_run 8 16 max_rune 0 r in (c :: p, s', e)
      else ([], s, [EUnknownEsc])
  end.

(** The model's string machine, from an escape state, is: run the escape,
    then go on in the normal state. *)
Lemma str_go_dig q : forall k base max v s,
  str_go q (SDig k base max v) s =
  let '(p, s', e) := dig_run k base max v s in
  let '(l, rest, e2) := str_go q SNormal s' in (p ++ l, rest, e ++ e2)%list.
Proof.
  induction k as [|k IH]; intros base max v s.
  - destruct s as [|c r]; cbn [dig_run str_go str_end_errs str_act dig_act app].
    + reflexivity.
    + destruct (normal_act q c) as [e2 a]. destruct a as [st'|[|]].
      * destruct (str_go q st' r) as [[l rest] e3]. now rewrite app_assoc.
      * reflexivity.
      * reflexivity.
  - destruct s as [|c r]; cbn [dig_run str_go str_end_errs str_act dig_act app]; [reflexivity|].
    destruct (base <=? digit_val c)%N.
    + cbn [str_go str_act app]. destruct (normal_act q c) as [e2 a]. destruct a as [st'|[|]].
      * destruct (str_go q st' r) as [[l rest] e3]. reflexivity.
      * reflexivity.
      * reflexivity.
    + rewrite IH. destruct (dig_run k base max _ r) as [[p s'] e].
      destruct (str_go q SNormal s') as [[l rest] e2]. reflexivity.
Qed.

Lemma str_go_esc q s :
  str_go q SEsc s =
  let '(p, s', e) := esc_run q s in
  let '(l, rest, e2) := str_go q SNormal s' in (p ++ l, rest, e ++ e2)%list.
Proof.
  destruct s as [|c r]; cbn [esc_run str_go str_end_errs str_act app]; [reflexivity|]. unfold esc_act.
  destruct (is_simple_escape q c).
  - destruct (str_go q SNormal r) as [[l rest] e2]. reflexivity.
  - destruct (in_range 48 55 c).
    + pose proof (str_go_dig q 3 8 255 0 (c :: r)) as H. cbn [str_go str_act] in H. exact H.
    + destruct (c =? 120)%N; [|destruct (c =? 117)%N; [|destruct (c =? 85)%N]].
      * rewrite str_go_dig. destruct (dig_run _ _ _ _ r) as [[p s'] e].
        destruct (str_go q SNormal s') as [[l rest] e2]. reflexivity.
      * rewrite str_go_dig. destruct (dig_run _ _ _ _ r) as [[p s'] e].
        destruct (str_go q SNormal s') as [[l rest] e2]. reflexivity.
      * rewrite str_go_dig. destruct (dig_run _ _ _ _ r) as [[p s'] e].
        destruct (str_go q SNormal s') as [[l rest] e2]. reflexivity.
      * cbn [str_go str_act app]. destruct (normal_act q c) as [e2 a]. destruct a as [st'|[|]].
        -- destruct (str_go q st' r) as [[l rest] e3]. reflexivity.
        -- reflexivity.
        -- reflexivity.
Qed.

(** The generated side. *)
Lemma gen_digitVal_is_model c : gen_lexing_digitVal (Z.of_N c) = Z.of_N (digit_val c).
Proof.
  unfold gen_lexing_digitVal, digit_val, is_digit, in_range, wrap_i64, wrap_i32, two63z, two64z.
  rewrite ?Zc_leb, ?Zc_leb'. go_cases; go_arith; lia.
Qed.

Lemma esc_loop : forall (k : nat) (s : list N) (fuel : nat) (i n : Z) (base max v : N) (buf : list Z) (errs : list go_err),
  n - i = Z.of_nat k -> 0 <= i -> n <= 16 -> (2 <= base <= 16)%N -> ((v + 1) * base ^ N.of_nat k <= 4294967296)%N ->
  (k < fuel)%nat ->
  let '(p, s', e) := dig_run k base max v s in
  exists (b : bool) (EE : list go_err),
    gen_lexing_lexEscape_loop1 fuel i (Z.of_N base) (Z.of_N max) n (Z.of_N v) buf errs (zs s)
    = GoOk (b, zs s', buf ++ zs p, errs ++ EE) /\ map ecode_of EE = e.
Proof.
  induction k as [|k IH]; intros s fuel i n base max v buf errs Hk Hi Hn Hb Hv Hf;
    (destruct fuel as [|fuel]; [lia|]); cbn [dig_run gen_lexing_lexEscape_loop1].
  - replace (i <? n) with false by lia. unfold code_point_errs, in_range.
    rewrite app_nil_r.
    rewrite Z.gtb_ltb. replace (Z.of_N max <? Z.of_N v) with (max <? v)%N by lia.
    replace ((55296 <=? Z.of_N v) && (Z.of_N v <? 57344)) with ((55296 <=? v)%N && (v <=? 57343)%N) by lia.
    destruct ((max <? v)%N || (55296 <=? v)%N && (v <=? 57343)%N).
    + eexists _, [_]. split; reflexivity.
    + exists true, []. rewrite app_nil_r. split; reflexivity.
  - replace (i <? n) with true by lia.
    destruct s as [|c r]; lex_simpl.
    + eexists _, [_]. cbn [zs map app]. rewrite app_nil_r. split; reflexivity.
    + rewrite gen_digitVal_is_model.
      assert (Hd : (digit_val c <= 16)%N).
      { unfold digit_val, is_digit, in_range. go_cases; go_arith; lia. }
      assert (Hw : wrap_u32 (Z.of_N (digit_val c)) = Z.of_N (digit_val c))
        by (unfold wrap_u32; apply Z.mod_small; lia).
      rewrite Hw.
      rewrite Z.geb_leb. replace (Z.of_N base <=? Z.of_N (digit_val c)) with (base <=? digit_val c)%N by lia.
      destruct (N.leb_spec base (digit_val c)) as [Hge|Hlt].
      * eexists _, [_]. cbn [zs map app]. rewrite app_nil_r. split; reflexivity.
      * assert (Hpow : (N.of_nat (S k) = N.succ (N.of_nat k))%N) by lia.
        rewrite Hpow, N.pow_succ_r' in Hv.
        assert (Hv2 : ((v * base + digit_val c + 1) * base ^ N.of_nat k <= 4294967296)%N) by nia.
        assert (Hpos : (1 <= base ^ N.of_nat k)%N).
        { pose proof (N.pow_nonzero base (N.of_nat k) ltac:(lia)). lia. }
        assert (Hsmall : (v * base + digit_val c < 4294967296)%N) by nia.
        assert (Hsmall1 : (v * base < 4294967296)%N) by nia.
        unfold wrap_u32 at 2. rewrite <- N2Z.inj_mul, Z.mod_small by lia.
        unfold wrap_u32. rewrite <- N2Z.inj_add, Z.mod_small by lia.
        rewrite (wrap_i64_small (i + 1)) by (unfold is_i64, two63z; lia).
        specialize (IH r fuel (i + 1) n base max (v * base + digit_val c)%N (buf ++ [Z.of_N c]) errs
                       ltac:(lia) ltac:(lia) Hn Hb Hv2 ltac:(lia)).
        destruct (dig_run k base max (v * base + digit_val c) r) as [[p s'] e].
        destruct IH as (b & EE & E1 & E2). exists b, EE. rewrite E1. split; [|exact E2].
        rewrite <- app_assoc. reflexivity.
Qed.

Lemma simple_escape_34 c :
  ((c =? 97) || (c =? 98) || (c =? 102) || (c =? 110) || (c =? 114) || (c =? 116) || (c =? 118) || (c =? 92)
   || (c =? 34))%N = is_simple_escape 34 c.
Proof. unfold is_simple_escape. cbn [existsb]. rewrite orb_false_r. rewrite !orb_assoc. reflexivity. Qed.

Lemma octal_digit c :
  ((c =? 48) || (c =? 49) || (c =? 50) || (c =? 51) || (c =? 52) || (c =? 53) || (c =? 54) || (c =? 55))%N
  = in_range 48 55 c.
Proof. unfold in_range. lia. Qed.

Lemma gen_lexEscape_run : forall (s : list N) (buf : list Z) (errs : list go_err),
  let '(p, s', e) := esc_run 34 s in
  exists (b : bool) (EE : list go_err),
    gen_lexing_lexEscape (zs s) buf errs 34 = GoOk (b, zs s', buf ++ zs p, errs ++ EE) /\ map ecode_of EE = e.
Proof.
  intros s buf errs. unfold gen_lexing_lexEscape, esc_run. cbv zeta.
  destruct s as [|c r]; lex_simpl.
  - eexists _, [_]. cbn [zs map app]. rewrite app_nil_r. split; reflexivity.
  - rewrite simple_escape_34, octal_digit.
    destruct (is_simple_escape 34 c).
    { exists true, []. rewrite !app_nil_r. split; reflexivity. }
    destruct (in_range 48 55 c).
    { rewrite <- zs_cons.
      pose proof (esc_loop 3 (c :: r) (S (length (zs (c :: r))) + S (S (Z.to_nat (3 - 0)))) 0 3 8 255 0 buf errs
                    eq_refl ltac:(lia) ltac:(lia) ltac:(lia) ltac:(cbn; lia) ltac:(lia)) as H.
      exact H. }
    destruct (c =? 120)%N.
    { pose proof (esc_loop 2 r (S (length (zs r)) + S (S (Z.to_nat (2 - 0)))) 0 2 16 255 0 (buf ++ [Z.of_N c]) errs
                    eq_refl ltac:(lia) ltac:(lia) ltac:(lia) ltac:(cbn; lia) ltac:(lia)) as H.
      destruct (dig_run 2 16 255 0 r) as [[p s'] e]. destruct H as (b & EE & E1 & E2).
      exists b, EE. split; [|exact E2]. etransitivity; [exact E1|]. rewrite <- app_assoc. reflexivity. }
    destruct (c =? 117)%N.
    { pose proof (esc_loop 4 r (S (length (zs r)) + S (S (Z.to_nat (4 - 0)))) 0 4 16 max_rune 0 (buf ++ [Z.of_N c]) errs
                    eq_refl ltac:(lia) ltac:(lia) ltac:(lia) ltac:(cbn; lia) ltac:(lia)) as H.
      destruct (dig_run 4 16 max_rune 0 r) as [[p s'] e]. destruct H as (b & EE & E1 & E2).
      exists b, EE. split; [|exact E2]. etransitivity; [exact E1|]. rewrite <- app_assoc. reflexivity. }
    destruct (c =? 85)%N.
    { pose proof (esc_loop 8 r (S (length (zs r)) + S (S (Z.to_nat (8 - 0)))) 0 8 16 max_rune 0 (buf ++ [Z.of_N c]) errs
                    eq_refl ltac:(lia) ltac:(lia) ltac:(lia) ltac:(cbn; lia) ltac:(lia)) as H.
      destruct (dig_run 8 16 max_rune 0 r) as [[p s'] e]. destruct H as (b & EE & E1 & E2).
      exists b, EE. split; [|exact E2]. etransitivity; [exact E1|]. rewrite <- app_assoc. reflexivity. }
    eexists _, [_]. cbn [zs map app]. rewrite app_nil_r. split; reflexivity.
Qed.

Lemma dig_run_len : forall k base max v s,
  let '(p, s', e) := dig_run k base max v s in (length s' <= length s)%nat.
Proof.
  induction k as [|k IH]; intros base max v s; cbn [dig_run]; [lia|].
  destruct s as [|c r]; [cbn; lia|].
  destruct (base <=? digit_val c)%N; [lia|].
  specialize (IH base max (v * base + digit_val c)%N r).
  destruct (dig_run k base max _ r) as [[p s'] e]. cbn [length]. lia.
Qed.

Lemma esc_run_len q s : let '(p, s', e) := esc_run q s in (length s' <= length s)%nat.
Proof.
  unfold esc_run. destruct s as [|c r]; [cbn; lia|].
  destruct (is_simple_escape q c); [cbn; lia|].
  destruct (in_range 48 55 c); [apply (dig_run_len 3 8 255 0 (c :: r))|].
  destruct (c =? 120)%N; [|destruct (c =? 117)%N; [|destruct (c =? 85)%N; [|lia]]].
  - pose proof (dig_run_len 2 16 255 0 r). destruct (dig_run 2 16 255 0 r) as [[p s'] e]. cbn [length]. lia.
  - pose proof (dig_run_len 4 16 max_rune 0 r). destruct (dig_run 4 16 max_rune 0 r) as [[p s'] e]. cbn [length]. lia.
  - pose proof (dig_run_len 8 16 max_rune 0 r). destruct (dig_run 8 16 max_rune 0 r) as [[p s'] e]. cbn [length]. lia.
Qed.

Lemma string_loop : forall (fuel : nat) (s : list N) (n t : Z) (buf : list Z) (errs : list go_err),
  (length s < fuel)%nat ->
  obs_of_gen (gen_lexing_LexString_loop1 fuel n 34 t buf errs (zs s)) =
  let '(l, rest, e) := str_go 34 SNormal s in
  OTok t (buf ++ zs l) (map ecode_of errs ++ e) (zs rest).
Proof.
  induction fuel as [|fuel IH]; intros s n t buf errs Hf; [lia|].
  cbn [gen_lexing_LexString_loop1].
  replace (34 =? 39) with false by reflexivity. cbn [andb].
  destruct s as [|c r]; lex_simpl.
  - cbn [str_go str_end_errs obs_of_gen zs map]. rewrite map_app, app_nil_r. reflexivity.
  - cbn [str_go str_act]. unfold normal_act.
    pose proof (str_go_esc 34 r) as HS.
    pose proof (gen_lexEscape_run r (buf ++ [Z.of_N c]) errs) as HE.
    pose proof (esc_run_len 34 r) as HL.
    destruct (esc_run 34 r) as [[p s'] e].
    destruct HE as (b & EE & E1 & E2).
    pose proof (IH s' (wrap_i64 (n + 1)) t ((buf ++ [Z.of_N c]) ++ zs p) (errs ++ EE) ltac:(cbn [length] in Hf; lia)) as IH1.
    pose proof (IH r (wrap_i64 (n + 1)) t (buf ++ [Z.of_N c]) errs ltac:(cbn [length] in Hf; lia)) as IH2.
    destruct (c =? 10)%N eqn:E10, (c =? 34)%N eqn:E34, (c =? 92)%N eqn:E92; cbn beta iota zeta;
      go_arith; try (exfalso; lia);
      rewrite ?E1; cbn [go_bind]; rewrite ?IH1, ?IH2, ?HS;
      destruct_lets; cbn [obs_of_gen]; subst;
      rewrite <- ?app_assoc, ?map_app, ?app_nil_r; unfold zs; rewrite ?map_cons, ?map_app; cbn [app map];
      rewrite <- ?app_assoc; reflexivity.
Qed.

Lemma gen_LexString_is_model : forall (s : list N) (t : Z),
  obs_of_gen (gen_lexing_LexString (zs s) [] [] t 34) = obs_of_model (fun _ => t) (lex_string 34 s).
Proof.
  intros s t. unfold gen_lexing_LexString, lex_string. cbn [Z.eqb orb negb]. cbv zeta.
  destruct s as [|c r]; lex_simpl; [reflexivity|].
  destruct (c =? 34)%N; cbn [negb]; [|reflexivity].
  cbn [app Pos.eqb orb negb]. rewrite string_loop by fuel_ok.
  destruct (str_go 34 SNormal r) as [[l rest] e]. reflexivity.
Qed.

(** * Read over the code *)

(** [ErrorList.Add] is the parser model's error step [p_add] (errors as any
    injective image [f] of the model's codes): the list keeps at most 20, the
    jail flag is set on EVERY call. *)
Lemma code_add_is_p_add : forall (f : ecode -> go_err) (e : ecode) (st : pstate),
  gen_lexing_ErrorList_Add (map f (perrs st)) 20 (jail st) false (f e)
  = GoOk (map f (perrs (p_add e st)), jail (p_add e st)).
Proof.
  intros. rewrite gen_ErrorList_Add_is_model. unfold p_add, add_err. cbn [perrs jail].
  rewrite map_length. destruct (Nat.ltb _ _); [rewrite map_app|]; reflexivity.
Qed.

(** A generated lexer never runs out of the fuel it is given, and does not
    panic when entered on the rune its caller has seen. *)
Definition is_tok (o : lexobs) : Prop := match o with OTok _ _ _ _ => True | _ => False end.

Lemma code_lexers_total : forall (s : list N) (t ti tf : Z),
  is_tok (obs_of_gen (gen_lexing_lexLineComment (zs (47%N :: s)) [47] [])) /\
  is_tok (obs_of_gen (gen_lexing_lexBlockComment (zs (42%N :: s)) [47] [])) /\
  is_tok (obs_of_gen (gen_lexing_LexRawString (zs (96%N :: s)) [] [] t)) /\
  is_tok (obs_of_gen (gen_lexing_LexString (zs (34%N :: s)) [] [] t 34)) /\
  (forall c, is_digit c = true -> is_tok (obs_of_gen (gen_lexing_LexNumber (zs (c :: s)) [] [] ti tf))) /\
  (forall c, is_ident_letter c = true -> is_tok (obs_of_gen (gen_lexing_LexIdent (zs (c :: s)) [] [] t))).
Proof.
  intros s t ti tf.
  rewrite gen_lexLineComment_is_model, gen_lexBlockComment_is_model, gen_LexRawString_is_model, gen_LexString_is_model.
  repeat split.
  - cbn [lex_line_comment]. destruct (span _ s). exact I.
  - cbn [lex_block_comment]. destruct (block_go false s) as [[? ?] ?]. exact I.
  - cbn [lex_raw_string]. destruct (raw_go s) as [[? ?] ?]. exact I.
  - cbn [lex_string]. rewrite N.eqb_refl. destruct (str_go 34 SNormal s) as [[? ?] ?]. exact I.
  - intros c Hc. rewrite gen_LexNumber_is_model. pose proof (lex_number_no_panic c s Hc) as H.
    destruct (lex_number (c :: s)); [exact I|contradiction].
  - intros c Hc. rewrite gen_LexIdent_is_model. cbn [lex_ident]. rewrite Hc. destruct (span _ s). exact I.
Qed.

(** A block comment, string or raw string that is not closed is reported. *)
Definition obs_errs (o : lexobs) : list ecode := match o with OTok _ _ e _ => e | _ => [] end.

Lemma code_unterminated_comment_reported : forall body,
  (forall l', fst (fst (block_go false body)) <> l' ++ [47%N])%list ->
  obs_errs (obs_of_gen (gen_lexing_lexBlockComment (zs (42%N :: body)) [47] [])) <> [].
Proof.
  intros body H. rewrite gen_lexBlockComment_is_model. cbn [lex_block_comment].
  pose proof (unterminated_comment_reported body H) as U.
  destruct (block_go false body) as [[l rest] e]. exact U.
Qed.

Lemma code_unterminated_string_reported : forall body t,
  (forall l', fst (fst (str_go 34 SNormal body)) <> l' ++ [34%N])%list ->
  obs_errs (obs_of_gen (gen_lexing_LexString (zs (34%N :: body)) [] [] t 34)) <> [].
Proof.
  intros body t H. rewrite gen_LexString_is_model. cbn [lex_string]. rewrite N.eqb_refl.
  pose proof (unterminated_string_reported 34 body H) as U.
  destruct (str_go 34 SNormal body) as [[l rest] e]. exact U.
Qed.

Lemma cex_lexing_none :
  cex_lexBlockComment = [] /\ cex_lexLineComment = [] /\ cex_ErrorList_Add = [].
Proof. vm_compute. repeat split. Qed.
