(** Termination of the jsonx parser: with fuel [2 * tokens + 8] no parsing
    function runs out of fuel.  The measure is the number of tokens not yet
    consumed ([msr]); every loop iteration that continues has consumed a
    token, and the error-recovery loop of SkipErrStmt stops at EOF. *)
From Coq Require Import List NArith Bool Lia Arith.
From Verif Require Import Lib.Utf8 Jsonx.Lex Jsonx.Tok Jsonx.GoStr Jsonx.Parse.
Import ListNotations.

Definition is_eof (t : ptok) : bool := ttype_eqb (pty t) TEOF.

Definition msr (st : pstate) : nat :=
  length (rest st) + (if is_eof (cur st) then 0 else 1).

Lemma msr_next_le st : msr (p_next st) <= msr st.
Proof.
  unfold msr, p_next. destruct (rest st) as [|t r]; cbn [rest cur length].
  - cbn. destruct (is_eof (cur st)); lia.
  - destruct (is_eof t), (is_eof (cur st)); lia.
Qed.

Lemma msr_next_lt st : is_eof (cur st) = false -> msr (p_next st) < msr st.
Proof.
  intros H. unfold msr, p_next. rewrite H. destruct (rest st) as [|t r]; cbn [rest cur length].
  - cbn. lia.
  - destruct (is_eof t); lia.
Qed.

Lemma msr_add e st : msr (p_add e st) = msr st.
Proof. reflexivity. Qed.

Lemma jail_next st : jail (p_next st) = jail st.
Proof. unfold p_next. destruct (rest st); reflexivity. Qed.

Lemma jail_add e st : jail (p_add e st) = true.
Proof. reflexivity. Qed.

Lemma see_not_eof t st : p_see t st = true -> t <> TEOF -> is_eof (cur st) = false.
Proof.
  unfold p_see, is_eof. intros H Ht. apply ttype_eqb_eq in H.
  destruct (ttype_eqb (pty (cur st)) TEOF) eqn:E; [|reflexivity].
  apply ttype_eqb_eq in E. congruence.
Qed.

Lemma see_op_not_eof ops st : see_op ops st = true -> is_eof (cur st) = false.
Proof.
  unfold see_op. intros H. apply andb_true_iff in H as [H _].
  apply (see_not_eof _ _ H). discriminate.
Qed.

Lemma pty_not_eof st t : pty (cur st) = t -> t <> TEOF -> is_eof (cur st) = false.
Proof.
  intros H Ht. unfold is_eof. rewrite H. destruct t; try reflexivity. contradiction.
Qed.

(** [Q st st']: the parser moved from [st] to [st'] without going back, and
    if it is not in error state it consumed at least one token. *)
Definition Q (st st' : pstate) : Prop :=
  msr st' <= msr st /\ (jail st' = false -> msr st' < msr st).

Lemma expect_op_le op st : msr (snd (expect_op op st)) <= msr st.
Proof.
  unfold expect_op. destruct (jail st); [cbn; lia|].
  destruct (see_op [op] st); cbn [snd]; [apply msr_next_le|rewrite msr_add; lia].
Qed.

Lemma expect_op_jail op st : jail (snd (expect_op op st)) = false -> jail st = false.
Proof.
  unfold expect_op. destruct (jail st) eqn:E; [cbn; congruence|]. reflexivity.
Qed.

Lemma p_expect_le t st : msr (snd (p_expect t st)) <= msr st.
Proof.
  unfold p_expect. destruct (jail st); [cbn; lia|].
  destruct (p_see t st); cbn [snd]; [apply msr_next_le|rewrite msr_add; lia].
Qed.

Section WithFloat.
Context {F : Type}.
Variable pf : list N -> option F.

Lemma psv_msr t st : msr (snd (parse_string_value t st)) = msr st.
Proof. unfold parse_string_value. destruct (go_unquote (plit t)); reflexivity. Qed.

Lemma pfv_msr t st : msr (snd (parse_float_value pf t st)) = msr st.
Proof. unfold parse_float_value. destruct (pf (plit t)); reflexivity. Qed.

Lemma psv_jail t st : jail (snd (parse_string_value t st)) = false -> jail st = false.
Proof. unfold parse_string_value. destruct (go_unquote (plit t)); cbn; congruence. Qed.

(** ** parseIdentList *)

Lemma parse_ident_list_ok f : forall st acc,
  msr st + 1 <= f ->
  exists v st', @parse_ident_list F f st acc = Some (v, st') /\ Q st st'.
Proof.
  induction f as [|f IH]; intros st acc Hf; [lia|].
  cbn [parse_ident_list]. unfold p_expect.
  destruct (jail st) eqn:Ej.
  { cbn [negb]. eexists _, _. split; [reflexivity|]. split; [lia|congruence]. }
  destruct (p_see TIdent st) eqn:Es.
  2:{ cbn [negb]. eexists _, _. split; [reflexivity|]. split; [rewrite msr_add; lia|].
      rewrite jail_add. discriminate. }
  cbn [negb].
  assert (Hlt : msr (p_next st) < msr st)
    by (apply msr_next_lt, (see_not_eof _ _ Es); discriminate).
  destruct (see_op [[46%N]] (p_next st)) eqn:Ed.
  - assert (Hlt2 : msr (p_next (p_next st)) < msr (p_next st))
      by (apply msr_next_lt, (see_op_not_eof _ _ Ed)).
    destruct (IH (p_next (p_next st)) (acc ++ [plit (cur st)]) ltac:(lia))
      as (v & st' & E & Hq1 & Hq2).
    exists v, st'. split; [exact E|]. split; lia.
  - eexists _, _. split; [reflexivity|]. split; lia.
Qed.

(** ** parseValue, parseObjectEntries, parseListEntries *)

Definition P1 (f : nat) : Prop := forall st,
  2 * msr st + 2 <= f ->
  exists v st', parse_value pf f st = Some (v, st') /\ Q st st'.

Definition P2 (f : nat) : Prop := forall st acc,
  2 * msr st + 3 <= f ->
  exists es st', parse_object_entries pf f st acc = Some (es, st') /\ msr st' <= msr st.

Definition P3 (f : nat) : Prop := forall st acc,
  2 * msr st + 3 <= f ->
  exists es st', parse_list_entries pf f st acc = Some (es, st') /\ msr st' <= msr st.

Lemma Q_consumed st st' : is_eof (cur st) = false -> msr st' <= msr (p_next st) -> Q st st'.
Proof. intros H Hle. pose proof (msr_next_lt st H). split; lia. Qed.

Lemma Q_error e st : Q st (p_add e st).
Proof. split; [rewrite msr_add; lia|rewrite jail_add; discriminate]. Qed.

Lemma parse_all f : P1 f /\ P2 f /\ P3 f.
Proof.
  induction f as [|f (IH1 & IH2 & IH3)].
  { repeat split; intros st; intros; lia. }
  split; [|split].
  - (* parse_value *)
    intros st Hf. rewrite parse_value_S. unfold pv_body.
    destruct (pty (cur st)) eqn:Ety.
    + (* keyword *)
      assert (Hne : is_eof (cur st) = false) by (apply (pty_not_eof _ _ Ety); discriminate).
      destruct (list_N_eqb (plit (cur st)) lit_true).
      { eexists _, _. split; [reflexivity|]. apply Q_consumed; [exact Hne|lia]. }
      destruct (list_N_eqb (plit (cur st)) lit_false).
      { eexists _, _. split; [reflexivity|]. apply Q_consumed; [exact Hne|lia]. }
      destruct (list_N_eqb (plit (cur st)) lit_null).
      { eexists _, _. split; [reflexivity|]. apply Q_consumed; [exact Hne|lia]. }
      eexists _, _. split; [reflexivity|]. apply Q_consumed; [exact Hne|rewrite msr_add; lia].
    + (* ident *)
      destruct (parse_ident_list_ok f st [] ltac:(lia)) as (v & st' & E & HQ).
      exists v, st'. split; [exact E|exact HQ].
    + (* string *)
      assert (Hne : is_eof (cur st) = false) by (apply (pty_not_eof _ _ Ety); discriminate).
      pose proof (psv_msr (cur st) (p_next st)) as Hm.
      destruct (parse_string_value (cur st) (p_next st)) as [bv st2]. cbn [snd] in Hm.
      eexists _, _. split; [reflexivity|]. apply Q_consumed; [exact Hne|lia].
    + (* int *)
      assert (Hne : is_eof (cur st) = false) by (apply (pty_not_eof _ _ Ety); discriminate).
      eexists _, _. split; [reflexivity|]. apply Q_consumed; [exact Hne|lia].
    + (* float *)
      assert (Hne : is_eof (cur st) = false) by (apply (pty_not_eof _ _ Ety); discriminate).
      pose proof (pfv_msr (cur st) (p_next st)) as Hm.
      destruct (parse_float_value pf (cur st) (p_next st)) as [bv st2]. cbn [snd] in Hm.
      eexists _, _. split; [reflexivity|]. apply Q_consumed; [exact Hne|lia].
    + (* operator *)
      assert (Hne : is_eof (cur st) = false) by (apply (pty_not_eof _ _ Ety); discriminate).
      pose proof (msr_next_lt st Hne) as Hlt.
      destruct (lit_is (cur st) [43%N] || lit_is (cur st) [45%N]).
      { destruct (pty (cur (p_next st))) eqn:Ety2;
          try (eexists _, _; split; [reflexivity|];
               apply Q_consumed; [exact Hne|rewrite ?msr_add; lia]).
        - eexists _, _. split; [reflexivity|].
          apply Q_consumed; [exact Hne|apply msr_next_le].
        - pose proof (pfv_msr (cur (p_next st)) (p_next (p_next st))) as Hm.
          destruct (parse_float_value pf (cur (p_next st)) (p_next (p_next st))) as [bv st2].
          cbn [snd] in Hm. eexists _, _. split; [reflexivity|].
          apply Q_consumed; [exact Hne|]. pose proof (msr_next_le (p_next st)). lia. }
      destruct (lit_is (cur st) [123%N]).
      { destruct (IH2 (p_next st) [] ltac:(lia)) as (es & st2 & E & Hle). rewrite E.
        eexists _, _. split; [reflexivity|].
        apply Q_consumed; [exact Hne|]. pose proof (expect_op_le [125%N] st2). lia. }
      destruct (lit_is (cur st) [91%N]).
      { destruct (IH3 (p_next st) [] ltac:(lia)) as (es & st2 & E & Hle). rewrite E.
        eexists _, _. split; [reflexivity|].
        apply Q_consumed; [exact Hne|]. pose proof (expect_op_le [93%N] st2). lia. }
      eexists _, _. split; [reflexivity|]. apply Q_error.
    + eexists _, _. split; [reflexivity|]. apply Q_error.
    + eexists _, _. split; [reflexivity|]. apply Q_error.
    + eexists _, _. split; [reflexivity|]. apply Q_error.
    + eexists _, _. split; [reflexivity|]. apply Q_error.
    + eexists _, _. split; [reflexivity|]. apply Q_error.
    + eexists _, _. split; [reflexivity|]. apply Q_error.
  - (* parse_object_entries *)
    intros st acc Hf. rewrite parse_object_entries_S. unfold poe_body.
    destruct (see_op [[125%N]] st); [eexists _, _; split; [reflexivity|lia]|].
    destruct (p_see TIdent st || p_see TString st) eqn:Ek; cbn [negb].
    2:{ eexists _, _. split; [reflexivity|rewrite msr_add; lia]. }
    assert (Hne : is_eof (cur st) = false).
    { apply orb_true_iff in Ek as [Ek|Ek]; apply (see_not_eof _ _ Ek); discriminate. }
    pose proof (msr_next_lt st Hne) as Hlt.
    set (kvst := if ttype_eqb (pty (cur st)) TString
                 then let '(bs, st2) := parse_string_value (cur st) (p_next st) in
                      (KStr (plit (cur st)) bs, st2)
                 else (KIdent (plit (cur st)), p_next st)).
    assert (Hk : msr (snd kvst) = msr (p_next st)).
    { subst kvst. destruct (ttype_eqb (pty (cur st)) TString); [|reflexivity].
      pose proof (psv_msr (cur st) (p_next st)) as Hm.
      destruct (parse_string_value (cur st) (p_next st)). exact Hm. }
    destruct kvst as [kv st2]. cbn [snd] in Hk.
    pose proof (expect_op_le [58%N] st2) as Hc.
    destruct (IH1 (snd (expect_op [58%N] st2)) ltac:(lia)) as (v & st4 & E & Hq & _).
    rewrite E.
    set (st5 := if see_op [[44%N]] st4 then p_next st4
                else if negb (see_op [[125%N]] st4) then snd (expect_op [44%N] st4) else st4).
    assert (H5 : msr st5 <= msr st4).
    { subst st5. destruct (see_op [[44%N]] st4); [apply msr_next_le|].
      destruct (negb (see_op [[125%N]] st4)); [apply expect_op_le|lia]. }
    destruct (jail st5); [eexists _, _; split; [reflexivity|lia]|].
    destruct (IH2 st5 (acc ++ [(kv, v)]) ltac:(lia))
      as (es & st' & E2 & Hle).
    exists es, st'. split; [exact E2|lia].
  - (* parse_list_entries *)
    intros st acc Hf. rewrite parse_list_entries_S. unfold ple_body.
    destruct (see_op [[93%N]] st); [eexists _, _; split; [reflexivity|lia]|].
    destruct (IH1 st ltac:(lia)) as (v & st1 & E & Hq1 & Hq2). rewrite E.
    set (st2 := if see_op [[44%N]] st1 then p_next st1
                else if negb (see_op [[93%N]] st1) then snd (expect_op [44%N] st1) else st1).
    assert (H2 : msr st2 <= msr st1 /\ (jail st2 = false -> jail st1 = false)).
    { subst st2. destruct (see_op [[44%N]] st1).
      - split; [apply msr_next_le|now rewrite jail_next].
      - destruct (negb (see_op [[93%N]] st1)).
        + split; [apply expect_op_le|apply expect_op_jail].
        + split; [lia|auto]. }
    destruct H2 as [H2a H2b].
    destruct (jail st2) eqn:Ej; [eexists _, _; split; [reflexivity|lia]|].
    specialize (Hq2 (H2b eq_refl)).
    destruct (IH3 st2 (acc ++ [v]) ltac:(lia)) as (es & st' & E2 & Hle).
    exists es, st'. split; [exact E2|lia].
Qed.

Lemma parse_value_ok f st :
  2 * msr st + 2 <= f -> exists v st', parse_value pf f st = Some (v, st') /\ Q st st'.
Proof. apply (proj1 (parse_all f)). Qed.

(** ** SkipErrStmt *)

Definition m2 (c : ptok) (r : list ptok) : nat := length r + (if is_eof c then 0 else 1).

Lemma skip_loop_spec fin : forall r c c' r',
  skip_loop c r fin = (c', r') ->
  m2 c' r' <= m2 c r /\
  (ttype_eqb (pty c) TSemi || ttype_eqb (pty c) TEOF = false -> m2 c' r' < m2 c r).
Proof.
  induction r as [|t r IH]; intros c c' r' H; cbn [skip_loop] in H.
  - destruct (ttype_eqb (pty c) TSemi || ttype_eqb (pty c) TEOF) eqn:E.
    + injection H as <- <-. split; [lia|discriminate].
    + injection H as <- <-. apply orb_false_iff in E as [_ E].
      unfold m2, is_eof. rewrite E. cbn. split; [lia|intros _; lia].
  - destruct (ttype_eqb (pty c) TSemi || ttype_eqb (pty c) TEOF) eqn:E.
    + injection H as <- <-. split; [lia|discriminate].
    + destruct (IH _ _ _ H) as [Hle _]. apply orb_false_iff in E as [_ E].
      unfold m2, is_eof in *. rewrite E. cbn [length].
      destruct (ttype_eqb (pty t) TEOF); split; try intros _; lia.
Qed.

Lemma skip_err_stmt_spec st :
  let '(b, st') := skip_err_stmt st in
  msr st' <= msr st /\
  (jail st = true -> b = true /\ (is_eof (cur st) = false -> msr st' < msr st)) /\
  (jail st = false -> b = false /\ st' = st).
Proof.
  unfold skip_err_stmt. destruct (jail st) eqn:Ej; cbn [negb].
  2:{ split; [lia|]. split; [discriminate|auto]. }
  destruct (skip_loop (cur st) (rest st) (fin st)) as [c r] eqn:El.
  destruct (skip_loop_spec _ _ _ _ _ El) as [Hle Hlt].
  set (st1 := mkSt c r (fin st) (perrs st) true).
  assert (H1 : msr st1 = m2 c r) by reflexivity.
  assert (H0 : msr st = m2 (cur st) (rest st)) by reflexivity.
  assert (Hfin : msr (p_bail (if p_see TSemi st1 then p_next st1 else st1)) <= msr st1 /\
                 (p_see TSemi st1 = true ->
                  msr (p_bail (if p_see TSemi st1 then p_next st1 else st1)) < msr st1)).
  { destruct (p_see TSemi st1) eqn:Es.
    - assert (is_eof (cur st1) = false) by (apply (see_not_eof _ _ Es); discriminate).
      pose proof (msr_next_lt st1 H). unfold p_bail, msr in *. cbn [rest cur] in *. split; [lia|intros _; lia].
    - split; [unfold p_bail, msr; cbn [rest cur]; lia|discriminate]. }
  destruct Hfin as [Hf1 Hf2].
  split; [lia|]. split; [|discriminate].
  intros _. split; [reflexivity|]. intros Hne.
  destruct (ttype_eqb (pty (cur st)) TSemi || ttype_eqb (pty (cur st)) TEOF) eqn:E.
  - (* the current token is the separator: it is consumed *)
    assert (Hs : ttype_eqb (pty (cur st)) TSemi = true).
    { apply orb_true_iff in E as [E|E]; [exact E|]. unfold is_eof in Hne. congruence. }
    assert (c = cur st /\ r = rest st) as [-> ->].
    { destruct (rest st) as [|t r0]; cbn [skip_loop] in El; rewrite E in El;
        injection El as <- <-; auto. }
    assert (p_see TSemi st1 = true) by exact Hs.
    specialize (Hf2 H). lia.
  - specialize (Hlt eq_refl). lia.
Qed.

(** ** parseSeries *)

Lemma parse_type_name_le st :
  let '(nm, st1) := parse_type_name st in
  msr st1 <= msr st /\
  (nm <> None -> is_eof (cur st) = false -> msr st1 < msr st) /\
  (nm = None -> st1 = p_add EExpectTypeName st).
Proof.
  unfold parse_type_name. destruct (pty (cur st)) eqn:Ety;
    try (split; [rewrite msr_add; lia|split; [congruence|reflexivity]]).
  - (* ident *)
    pose proof (msr_next_le st). split; [lia|]. split; [|discriminate].
    intros _ Hne. now apply msr_next_lt.
  - (* string *)
    pose proof (psv_msr (cur st) (p_next st)) as Hm.
    destruct (parse_string_value (cur st) (p_next st)) as [bv st1]. cbn [snd] in Hm.
    pose proof (msr_next_le st). split; [lia|]. split; [|discriminate].
    intros _ Hne. pose proof (msr_next_lt st Hne). lia.
Qed.

Lemma parse_series_ok f : forall st acc,
  2 * msr st + 3 <= f ->
  exists es st', parse_series pf f st acc = Some (es, st') /\ p_see TEOF st' = true.
Proof.
  induction f as [|f IH]; intros st acc Hf; [lia|].
  cbn [parse_series]. destruct (p_see TEOF st) eqn:Ee; [eexists _, _; split; [reflexivity|exact Ee]|].
  assert (Hne : is_eof (cur st) = false) by exact Ee.
  pose proof (parse_type_name_le st) as Hn.
  destruct (parse_type_name st) as [[nm|] st1]; destruct Hn as (Hn1 & Hn2 & Hn3).
  - specialize (Hn2 ltac:(discriminate) Hne).
    destruct (parse_value_ok f st1 ltac:(lia)) as (v & st2 & E & Hq & _). rewrite E.
    pose proof (skip_err_stmt_spec st2) as Hs.
    destruct (skip_err_stmt st2) as [skipped st3]. destruct Hs as (Hs1 & Hs2 & Hs3).
    destruct skipped.
    + apply IH. lia.
    + pose proof (p_expect_le TSemi st3) as He.
      pose proof (skip_err_stmt_spec (snd (p_expect TSemi st3))) as Hs'.
      destruct (skip_err_stmt (snd (p_expect TSemi st3))) as [b st5]. destruct Hs' as (Hs1' & _).
      cbn [snd]. apply IH. lia.
  - specialize (Hn3 eq_refl). subst st1.
    pose proof (skip_err_stmt_spec (p_add EExpectTypeName st)) as Hs.
    destruct (skip_err_stmt (p_add EExpectTypeName st)) as [b st2]. destruct Hs as (Hs1 & Hs2 & _).
    destruct (Hs2 eq_refl) as [_ Hlt]. cbn [snd].
    specialize (Hlt Hne). rewrite msr_add in *. apply IH. lia.
Qed.

End WithFloat.

(** ** More fuel never changes a result *)

Section Mono.
Context {F : Type}.
Variable pf : list N -> option F.

Lemma parse_ident_list_mono f : forall st acc r,
  @parse_ident_list F f st acc = Some r -> @parse_ident_list F (S f) st acc = Some r.
Proof.
  induction f as [|f IH]; intros st acc r H; [discriminate|].
  cbn [parse_ident_list] in *. destruct (p_expect TIdent st) as [ok st1].
  destruct (negb ok); [exact H|]. destruct (see_op [[46%N]] st1); [|exact H]. now apply IH.
Qed.

Lemma pv_body_mono (poe poe' : pstate -> list (okey * value) -> option (list (okey * value) * pstate))
      (ple ple' : pstate -> list value -> option (list value * pstate))
      (pil pil' : pstate -> list (list N) -> option (@value F * pstate)) :
  (forall s a r, poe s a = Some r -> poe' s a = Some r) ->
  (forall s a r, ple s a = Some r -> ple' s a = Some r) ->
  (forall s a r, pil s a = Some r -> pil' s a = Some r) ->
  forall st r, pv_body pf poe ple pil st = Some r -> pv_body pf poe' ple' pil' st = Some r.
Proof.
  intros H1 H2 H3 st r H. unfold pv_body in *.
  destruct (pty (cur st)); try exact H.
  - now apply H3.
  - destruct (_ || _); [exact H|].
    destruct (lit_is (cur st) [123%N]).
    { destruct (poe (p_next st) []) as [[es st2]|] eqn:E; [|discriminate].
      now rewrite (H1 _ _ _ E). }
    destruct (lit_is (cur st) [91%N]); [|exact H].
    destruct (ple (p_next st) []) as [[es st2]|] eqn:E; [|discriminate].
    now rewrite (H2 _ _ _ E).
Qed.

Lemma poe_body_mono (pv pv' : pstate -> option (@value F * pstate))
      (poe poe' : pstate -> list (okey * value) -> option (list (okey * value) * pstate)) :
  (forall s r, pv s = Some r -> pv' s = Some r) ->
  (forall s a r, poe s a = Some r -> poe' s a = Some r) ->
  forall st acc r, poe_body pv poe st acc = Some r -> poe_body pv' poe' st acc = Some r.
Proof.
  intros H1 H2 st acc r H. unfold poe_body in *.
  destruct (see_op [[125%N]] st); [exact H|]. destruct (negb _); [exact H|].
  destruct (if ttype_eqb (pty (cur st)) TString then _ else _) as [key st2].
  destruct (pv (snd (expect_op [58%N] st2))) as [[v st4]|] eqn:E; [|discriminate].
  rewrite (H1 _ _ E). destruct (jail _); [exact H|]. now apply H2.
Qed.

Lemma ple_body_mono (pv pv' : pstate -> option (@value F * pstate))
      (ple ple' : pstate -> list value -> option (list value * pstate)) :
  (forall s r, pv s = Some r -> pv' s = Some r) ->
  (forall s a r, ple s a = Some r -> ple' s a = Some r) ->
  forall st acc r, ple_body pv ple st acc = Some r -> ple_body pv' ple' st acc = Some r.
Proof.
  intros H1 H2 st acc r H. unfold ple_body in *.
  destruct (see_op [[93%N]] st); [exact H|].
  destruct (pv st) as [[v st1]|] eqn:E; [|discriminate].
  rewrite (H1 _ _ E). destruct (jail _); [exact H|]. now apply H2.
Qed.

Lemma parse_all_mono f :
  (forall st r, parse_value pf f st = Some r -> parse_value pf (S f) st = Some r) /\
  (forall st acc r, parse_object_entries pf f st acc = Some r ->
                    parse_object_entries pf (S f) st acc = Some r) /\
  (forall st acc r, parse_list_entries pf f st acc = Some r ->
                    parse_list_entries pf (S f) st acc = Some r).
Proof.
  induction f as [|f (IH1 & IH2 & IH3)]; [repeat split; intros; discriminate|].
  split; [|split].
  - intros st r H. rewrite parse_value_S in *.
    eapply pv_body_mono; [exact IH2|exact IH3|apply parse_ident_list_mono|exact H].
  - intros st acc r H. rewrite parse_object_entries_S in *.
    eapply poe_body_mono; [exact IH1|exact IH2|exact H].
  - intros st acc r H. rewrite parse_list_entries_S in *.
    eapply ple_body_mono; [exact IH1|exact IH3|exact H].
Qed.

Lemma parse_value_mono f f' st r :
  f <= f' -> parse_value pf f st = Some r -> parse_value pf f' st = Some r.
Proof.
  induction 1 as [|f' Hle IH]; intros H; [exact H|].
  apply (proj1 (parse_all_mono f')). now apply IH.
Qed.

Lemma parse_object_entries_mono f f' st acc r :
  f <= f' -> parse_object_entries pf f st acc = Some r -> parse_object_entries pf f' st acc = Some r.
Proof.
  induction 1 as [|f' Hle IH]; intros H; [exact H|].
  apply (proj1 (proj2 (parse_all_mono f'))). now apply IH.
Qed.

Lemma parse_list_entries_mono f f' st acc r :
  f <= f' -> parse_list_entries pf f st acc = Some r -> parse_list_entries pf f' st acc = Some r.
Proof.
  induction 1 as [|f' Hle IH]; intros H; [exact H|].
  apply (proj2 (proj2 (parse_all_mono f'))). now apply IH.
Qed.

End Mono.

(** ** The error list: cap and jail flag (lexing/error_list.go Add)

    [p_add] models [ErrorList.Add]: the jail flag is set FIRST, on every call;
    the error itself is kept only while fewer than [max_errs] are recorded.
    The termination proofs above use nothing else of [p_add] than
    [jail_add] (every Add jails) and [msr_add] (Add consumes nothing): the
    recovery of parseSeries ([SkipErrStmt] after a failed parseTypeName) and
    the [if p.InError() break] exits of the entry loops make progress because
    of the flag, also when the list is already full. *)

Lemma p_add_always_jails e st : jail (p_add e st) = true.
Proof. reflexivity. Qed.

Lemma p_add_full_drops e st :
  max_errs <= length (perrs st) -> perrs (p_add e st) = perrs st /\ jail (p_add e st) = true.
Proof.
  intros H. split; [|reflexivity]. cbn [p_add perrs]. unfold add_err.
  destruct (Nat.ltb_spec (length (perrs st)) max_errs); [lia|reflexivity].
Qed.

Lemma p_add_keeps_below_cap e st :
  length (perrs st) < max_errs -> perrs (p_add e st) = perrs st ++ [e].
Proof.
  intros H. cbn [p_add perrs]. unfold add_err.
  destruct (Nat.ltb_spec (length (perrs st)) max_errs); [reflexivity|lia].
Qed.

Lemma perrs_capped e st : length (perrs st) <= max_errs -> length (perrs (p_add e st)) <= max_errs.
Proof.
  intros H. cbn [p_add perrs]. unfold add_err.
  destruct (Nat.ltb_spec (length (perrs st)) max_errs); [rewrite app_length; cbn; lia|exact H].
Qed.

(** The step the series loop takes after a failed type name: whatever the
    error list holds, it consumes at least one token.  (This is the fact
    [parse_series_ok] rests on; it fails for an Add that returns before
    setting the flag when the list is full, see Jsonx/TermLegacy.v.) *)
Lemma recovery_after_add_progress e st :
  is_eof (cur st) = false -> msr (snd (skip_err_stmt (p_add e st))) < msr st.
Proof.
  intros Hne. pose proof (skip_err_stmt_spec (p_add e st)) as Hs.
  destruct (skip_err_stmt (p_add e st)) as [b st2]. destruct Hs as (_ & Hs2 & _).
  destruct (Hs2 (p_add_always_jails e st)) as [_ Hlt]. cbn [snd].
  specialize (Hlt Hne). now rewrite msr_add in Hlt.
Qed.
