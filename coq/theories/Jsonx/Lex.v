(** Model of package lexing (lexer.go, lex_scanner.go, rune_scanner.go,
    number.go, string.go, comment.go, ident.go, runes.go, white.go) and of
    the lexer functions built on it: jsonx/lex.go [lexJSONX] and
    strtoken/{parse,lex_bare}.go [lexShell].

    The input of every function is the list of runes not yet consumed; the
    head of the list is the lexer's current rune ([x.Rune()]), the empty list
    is [x.Ended()].  [x.Next()] moves to the tail.  A function returns the
    literal it buffered, the errors it appended to the lexer's error list, and
    the remaining runes.  Positions (file, line, column) are not modelled.

    Every Go [panic] reachable from these functions is a [LPanic] result:
      1 "not starting with a number"      (LexNumber)
      2 "ident must start with letter or _" (LexIdent)
      3 "incorrect string start"          (LexString)
      4 "incorrect raw string start"      (LexRawString)
      5 "incorrect token start"           (lexJSONX / lexShell on white space)
      6 "not starting with a bare rune"   (lexBare)
      7 "scanning on closed rune scanner" (Next() after the input ended)
      8 "needs to buffer a '/' for lex comment" (LexComment) *)
From Coq Require Import List NArith Bool.
From Verif Require Import Lib.Utf8.
Import ListNotations.
Local Open Scope N_scope.

(** ** Runes (lexing/runes.go, white.go, ident.go) *)

Definition is_letter (r : N) : bool := in_range 97 122 r || in_range 65 90 r.
Definition is_digit (r : N) : bool := in_range 48 57 r.
Definition is_hex_digit (r : N) : bool :=
  is_digit r || in_range 97 102 r || in_range 65 70 r.
Definition is_ident_letter (r : N) : bool := (r =? 95) || is_letter r.
Definition is_ident_char (r : N) : bool := is_ident_letter r || is_digit r.
Definition is_white (r : N) : bool := (r =? 32) || (r =? 9) || (r =? 13).
Definition is_white_or_endl (r : N) : bool := is_white r || (r =? 10).

(** ** Tokens *)

Inductive ttype :=
| TKeyword | TIdent | TString | TInt | TFloat | TOperator | TSemi | TEndl
| TEOF | TComment | TIllegal
| TBare.   (* strtoken: bare = 0, str = 1 is TString *)

Definition ttype_eqb (a b : ttype) : bool :=
  match a, b with
  | TKeyword, TKeyword | TIdent, TIdent | TString, TString | TInt, TInt
  | TFloat, TFloat | TOperator, TOperator | TSemi, TSemi | TEndl, TEndl
  | TEOF, TEOF | TComment, TComment | TIllegal, TIllegal | TBare, TBare => true
  | _, _ => false
  end.

Lemma ttype_eqb_eq a b : ttype_eqb a b = true <-> a = b.
Proof. destruct a, b; cbn; split; intros H; try reflexivity; discriminate. Qed.

(** Error sites, identified by error code and, where the code is empty, by
    the message. *)
Inductive ecode :=
| EEscNotTerm        (* "escape not terminated" *)
| EUnknownEsc        (* lexing.unknownESC *)
| EIllegalEscChar    (* "illegal escape char" *)
| EInvalidCodePoint  (* "invalid unicode code point" *)
| EUnexpectedEOF     (* lexing.unexpectedEOF: string, raw string, block comment *)
| EUnexpectedEndl    (* lexing.unexpectedEndl *)
| EIllegalChar       (* jsonx.illegalChar *)
| EShellIllegalChar  (* strtoken "illegal char" *)
| EShellInvalidStr   (* shellarg.invalidStr *)
| EUnexpected        (* lexing.unexpected (Parser.Expect) *)
| EExpectOp          (* jsonx.expectOp *)
| EStringLit         (* jsonx.stringLit *)
| EFloatLit          (* jsonx.floatLit *)
| EExpectObjectEntry (* jsonx.expectObjectEntry *)
| EUnexpectedKeyword (* jsonx.unexpectedKeyword *)
| EExpectNumber      (* jsonx.expectNumber *)
| EExpectOperand     (* jsonx.expectOperand *)
| EExpectTypeName    (* jsonx.expectTypeName *)
| EUnknownType       (* jsonx.unknownType *)
| EMarshalJSON       (* jsonx.marshalJSON *)
| EEncode.           (* error returned by encodeValue (no code, no position) *)

Definition ecode_N (e : ecode) : N :=
  match e with
  | EEscNotTerm => 1 | EUnknownEsc => 2 | EIllegalEscChar => 3
  | EInvalidCodePoint => 4 | EUnexpectedEOF => 5 | EUnexpectedEndl => 6
  | EIllegalChar => 7 | EShellIllegalChar => 8 | EShellInvalidStr => 9
  | EUnexpected => 10 | EExpectOp => 11 | EStringLit => 12 | EFloatLit => 13
  | EExpectObjectEntry => 14 | EUnexpectedKeyword => 15 | EExpectNumber => 16
  | EExpectOperand => 17 | EExpectTypeName => 18 | EUnknownType => 19
  | EMarshalJSON => 20 | EEncode => 21
  end.

Record token := mkTok { tty : ttype; tlit : list N }.

Inductive lexres :=
| LTok (t : token) (errs : list ecode) (rest : list N)
| LPanic (site : N).

(** ErrorList.Add with Max = 20 (lexing/error_list.go). *)
Definition max_errs : nat := 20.
Definition add_err (acc : list ecode) (e : ecode) : list ecode :=
  if Nat.ltb (length acc) max_errs then acc ++ [e] else acc.
Definition add_errs (acc es : list ecode) : list ecode := fold_left add_err es acc.

(** ** Helpers *)

Fixpoint span (p : N -> bool) (s : list N) : list N * list N :=
  match s with
  | c :: r => if p c then let '(a, b) := span p r in (c :: a, b) else ([], s)
  | [] => ([], [])
  end.

Fixpoint drop_while (p : N -> bool) (s : list N) : list N :=
  match s with
  | c :: r => if p c then drop_while p r else s
  | [] => []
  end.

Fixpoint list_N_eqb (a b : list N) : bool :=
  match a, b with
  | [], [] => true
  | x :: a', y :: b' => (x =? y) && list_N_eqb a' b'
  | _, _ => false
  end.

(** ** LexNumber (lexing/number.go).  [exp_signs] is the set of runes accepted
    as the sign of an exponent. *)

Definition exp_signs : list N := [45; 43].   (* '-' '+' *)
Definition is_exp_sign (r : N) : bool := existsb (N.eqb r) exp_signs.

Definition lex_number (s : list N) : lexres :=
  match s with
  | [] => LPanic 1
  | start :: r =>
      if negb (is_digit start) then LPanic 1
      else
        let hex :=
          match r with
          | 120 :: r2 => if start =? 48 then Some r2 else None
          | _ => None
          end in
        match hex with
        | Some r2 =>
            let '(h, r3) := span is_hex_digit r2 in
            LTok (mkTok TInt (start :: 120 :: h)) [] r3
        | None =>
            let '(d1, r1) := span is_digit r in
            let '(fl1, frac, r2) :=
              match r1 with
              | 46 :: r1' => let '(d2, r2) := span is_digit r1' in (true, 46 :: d2, r2)
              | _ => (false, [], r1)
              end in
            let '(fl2, ex, r3) :=
              match r2 with
              | e :: r2' =>
                  if (e =? 101) || (e =? 69) then
                    let '(sg, r2'') :=
                      match r2' with
                      | c :: r2''' =>
                          if is_digit c || is_exp_sign c then ([c], r2''') else ([], r2')
                      | [] => ([], [])
                      end in
                    let '(d3, r3) := span is_digit r2'' in
                    (true, e :: sg ++ d3, r3)
                  else (false, [], r2)
              | [] => (false, [], [])
              end in
            LTok (mkTok (if fl1 || fl2 then TFloat else TInt)
                        (start :: d1 ++ frac ++ ex)) [] r3
        end
  end.

(** ** LexIdent (lexing/ident.go) *)

Definition lex_ident (s : list N) : lexres :=
  match s with
  | c :: r =>
      if is_ident_letter c then
        let '(a, b) := span is_ident_char r in LTok (mkTok TIdent (c :: a)) [] b
      else LPanic 2
  | [] => LPanic 2
  end.

(** ** LexString / lexEscape (lexing/string.go), for the quote [q].

    The Go loop is modelled as a machine that looks at one rune at a time.
    [SEsc] is the state right after a backslash was consumed; [SDig k b m v]
    is inside the digit loop of [lexEscape] with [k] digits to go.  An escape
    error leaves the offending rune unconsumed and the string loop then treats
    it as an ordinary rune, which is what [normal_act] is re-applied for.
    The character-literal check ([q = '\'' && n != 1]) is not modelled: no
    caller in jsonx or strtoken uses a single quote. *)

Inductive sstate := SNormal | SEsc | SDig (k : nat) (base max v : N).

Inductive sact := AConsume (st' : sstate) | AStop (consume : bool).

Definition digit_val (r : N) : N :=
  if is_digit r then r - 48
  else if in_range 97 102 r then r - 87
  else if in_range 65 70 r then r - 55
  else 16.

Definition normal_act (q c : N) : list ecode * sact :=
  if c =? 10 then ([EUnexpectedEndl], AStop false)
  else if c =? q then ([], AStop true)
  else if c =? 92 then ([], AConsume SEsc)
  else ([], AConsume SNormal).

Definition code_point_errs (max v : N) : list ecode :=
  if (max <? v) || in_range 55296 57343 v then [EInvalidCodePoint] else [].

Definition dig_act (q : N) (k : nat) (base max v c : N) : list ecode * sact :=
  match k with
  | O => let '(e2, a) := normal_act q c in (code_point_errs max v ++ e2, a)
  | S k' =>
      let d := digit_val c in
      if base <=? d then let '(e2, a) := normal_act q c in (EIllegalEscChar :: e2, a)
      else ([], AConsume (SDig k' base max (v * base + d)))
  end.

Definition is_simple_escape (q c : N) : bool :=
  existsb (N.eqb c) [97; 98; 102; 110; 114; 116; 118; 92] || (c =? q).

Definition esc_act (q c : N) : list ecode * sact :=
  if is_simple_escape q c then ([], AConsume SNormal)
  else if in_range 48 55 c then dig_act q 3 8 255 0 c
  else if c =? 120 then ([], AConsume (SDig 2 16 255 0))
  else if c =? 117 then ([], AConsume (SDig 4 16 max_rune 0))
  else if c =? 85 then ([], AConsume (SDig 8 16 max_rune 0))
  else let '(e2, a) := normal_act q c in (EUnknownEsc :: e2, a).

Definition str_act (q : N) (st : sstate) (c : N) : list ecode * sact :=
  match st with
  | SNormal => normal_act q c
  | SEsc => esc_act q c
  | SDig k b m v => dig_act q k b m v c
  end.

Definition str_end_errs (st : sstate) : list ecode :=
  match st with
  | SNormal => [EUnexpectedEOF]
  | SEsc => [EEscNotTerm; EUnexpectedEOF]
  | SDig O _ m v => code_point_errs m v ++ [EUnexpectedEOF]
  | SDig (S _) _ _ _ => [EEscNotTerm; EUnexpectedEOF]
  end.

Fixpoint str_go (q : N) (st : sstate) (s : list N) : list N * list N * list ecode :=
  match s with
  | [] => ([], [], str_end_errs st)
  | c :: r =>
      let '(e, a) := str_act q st c in
      match a with
      | AConsume st' => let '(l, rest, e2) := str_go q st' r in (c :: l, rest, e ++ e2)
      | AStop true => ([c], r, e)
      | AStop false => ([], s, e)
      end
  end.

Definition lex_string (q : N) (s : list N) : lexres :=
  match s with
  | c :: r =>
      if c =? q then
        let '(l, rest, e) := str_go q SNormal r in LTok (mkTok TString (c :: l)) e rest
      else LPanic 3
  | [] => LPanic 3
  end.

(** ** LexRawString *)

Fixpoint raw_go (s : list N) : list N * list N * list ecode :=
  match s with
  | [] => ([], [], [EUnexpectedEOF])
  | c :: r =>
      if c =? 96 then ([c], r, [])
      else let '(l, rest, e) := raw_go r in (c :: l, rest, e)
  end.

Definition lex_raw_string (s : list N) : lexres :=
  match s with
  | 96 :: r => let '(l, rest, e) := raw_go r in LTok (mkTok TString (96 :: l)) e rest
  | _ => LPanic 4
  end.

(** ** Comments (lexing/comment.go), entered with "/" buffered and the
    current rune being the second "/" or the "*". *)

Definition lex_line_comment (s : list N) : lexres :=
  (* for { x.Next(); if x.Ended() || x.Rune() == '\n' { break } } *)
  match s with
  | [] => LPanic 7
  | c :: r =>
      let '(a, b) := span (fun x => negb (x =? 10)) r in
      LTok (mkTok TComment (47 :: c :: a)) [] b
  end.

(** [block_go star s]: [s] starts at the lexer's current rune, not yet
    pushed into the buffer; the next loop iteration's [Next] consumes it. *)
Fixpoint block_go (star : bool) (s : list N) : list N * list N * list ecode :=
  match s with
  | [] => ([], [], [EUnexpectedEOF])
  | c :: r =>
      if star && (c =? 47) then ([c], r, [])
      else let '(l, rest, e) := block_go (c =? 42) r in (c :: l, rest, e)
  end.

Definition lex_block_comment (s : list N) : lexres :=
  match s with
  | [] => LPanic 7
  | c :: r =>
      let '(l, rest, e) := block_go false r in
      LTok (mkTok TComment (47 :: c :: l)) e rest
  end.

(** ** lexJSONX (jsonx/lex.go) *)

Definition op_runes : list N := [123; 125; 91; 93; 44; 58; 43; 45; 46].
    (* { } [ ] , : + - . *)
Definition is_op_rune (r : N) : bool := existsb (N.eqb r) op_runes.

Definition lex_jsonx (s : list N) : lexres :=
  match s with
  | [] => LPanic 7
  | c :: r =>
      if is_white c then LPanic 5
      else if c =? 10 then LTok (mkTok TEndl [10]) [] r
      else if c =? 34 then lex_string 34 s
      else if c =? 96 then lex_raw_string s
      else if is_digit c then lex_number s
      else if is_ident_letter c then lex_ident s
      else (* x.Next(); lexOperator(x, r) *)
        if is_op_rune c then LTok (mkTok TOperator [c]) [] r
        else if c =? 47 then
          match r with
          | 47 :: _ => lex_line_comment r
          | 42 :: _ => lex_block_comment r
          | _ => LTok (mkTok TOperator [47]) [] r
          end
        else if c =? 59 then LTok (mkTok TSemi [59]) [] r
        else LTok (mkTok TIllegal [c]) [EIllegalChar] r
  end.

(** ** lexShell (strtoken/parse.go, lex_bare.go) *)

Definition is_bare_rune (r : N) : bool := negb ((r =? 32) || (r =? 10) || (r =? 13)).

Definition lex_bare (s : list N) : lexres :=
  match s with
  | c :: r =>
      if is_bare_rune c then
        let '(a, b) := span is_bare_rune r in LTok (mkTok TBare (c :: a)) [] b
      else LPanic 6
  | [] => LPanic 6
  end.

Definition lex_shell (s : list N) : lexres :=
  match s with
  | [] => LPanic 7
  | c :: r =>
      if is_white c then LPanic 5
      else if c =? 34 then lex_string 34 s
      else if is_bare_rune c then lex_bare s
      else LTok (mkTok TIllegal [c]) [EShellIllegalChar] r
  end.

(** ** Lexer.Token and the token loop ([lexing.Tokens], [TokenAll]).

    [lex_all lexf white fuel s]: every token up to, not including, the final
    EOF token, each with the errors reported while lexing it. *)

Inductive outcome (A : Type) :=
| Ok (a : A)
| Panic (site : N)
| OutOfFuel.
Arguments Ok {A} a.
Arguments Panic {A} site.
Arguments OutOfFuel {A}.

Fixpoint lex_all (lexf : list N -> lexres) (white : N -> bool) (fuel : nat)
         (s : list N) : outcome (list (token * list ecode)) :=
  match fuel with
  | O => OutOfFuel
  | S f =>
      match drop_while white s with
      | [] => Ok []
      | s' =>
          match lexf s' with
          | LPanic w => Panic w
          | LTok t e rest =>
              match lex_all lexf white f rest with
              | Ok l => Ok ((t, e) :: l)
              | Panic w => Panic w
              | OutOfFuel => OutOfFuel
              end
          end
      end
  end.

Definition lex_fuel (s : list N) : nat := S (length s).

Definition jsonx_raw_tokens (s : list N) : outcome (list (token * list ecode)) :=
  lex_all lex_jsonx is_white (lex_fuel s) s.

Definition shell_raw_tokens (s : list N) : outcome (list (token * list ecode)) :=
  lex_all lex_shell is_white (lex_fuel s) s.

(** Lexer.Errs() once every token has been pulled. *)
Definition all_lex_errs (l : list (token * list ecode)) : list ecode :=
  fold_left (fun acc te => add_errs acc (snd te)) l [].
