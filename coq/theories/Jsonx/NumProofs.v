(** Integer literals are emitted as decimal JSON numbers of exactly the same
    value; a JSON number followed by a delimiter is scanned as that number. *)
From Coq Require Import List NArith ZArith Bool Lia.
From Coq Require Import ZifyN ZifyNat ZifyBool.
From Verif Require Import Lib.Utf8 Jsonx.Lex Jsonx.LexProofs Jsonx.Num.
Import ListNotations.
Local Open Scope N_scope.

Ltac Zify.zify_post_hook ::= Z.div_mod_to_equations.

(** Little-endian value of a digit string. *)
Fixpoint le_val (l : list N) : N :=
  match l with
  | [] => 0
  | c :: r => (c - 48) + 10 * le_val r
  end.

Definition all_digits (l : list N) : Prop := Forall (fun c => 48 <= c <= 57) l.

Lemma is_digit_spec c : is_digit c = true <-> 48 <= c <= 57.
Proof. unfold is_digit, in_range. lia. Qed.

Lemma dec_rev_S f n :
  dec_rev (S f) n = if n <? 10 then [48 + n] else (48 + n mod 10) :: dec_rev f (n / 10).
Proof. reflexivity. Qed.

Lemma dec_rev_spec : forall f n,
  n < 2 ^ N.of_nat f ->
  let l := dec_rev (S f) n in
  le_val l = n /\ all_digits l /\ l <> [] /\
  (forall d, last l d = 48 -> n = 0) /\ (n = 0 -> l = [48]).
Proof.
  induction f as [|f IH]; intros n Hn.
  - change (2 ^ N.of_nat 0) with 1 in Hn. assert (n = 0) by lia. subst. cbn.
    repeat split; try lia; try discriminate. constructor; [lia|constructor].
  - cbv zeta. rewrite (dec_rev_S (S f)). destruct (N.ltb_spec n 10) as [H10|H10].
    + cbn [le_val]. repeat split.
      * lia.
      * constructor; [lia|constructor].
      * discriminate.
      * intros d. cbn [last]. lia.
      * intros ->. reflexivity.
    + assert (Hq : n / 10 < 2 ^ N.of_nat f).
      { replace (N.of_nat (S f)) with (N.succ (N.of_nat f)) in Hn by lia.
        rewrite N.pow_succ_r in Hn by lia.
        assert (n / 10 <= n / 2) by (apply N.div_le_compat_l; lia).
        assert (n / 2 < 2 ^ N.of_nat f) by (apply N.div_lt_upper_bound; lia). lia. }
      destruct (IH (n / 10) Hq) as (Hv & Hd & Hne & Hl & Hz).
      cbv zeta in Hv, Hd, Hne, Hl, Hz.
      cbn [le_val]. repeat split.
      * rewrite Hv. lia.
      * constructor; [lia|exact Hd].
      * discriminate.
      * intros d Hlast.
        assert (E : last ((48 + n mod 10) :: dec_rev (S f) (n / 10)) d
                    = last (dec_rev (S f) (n / 10)) d).
        { destruct (dec_rev (S f) (n / 10)); [contradiction|reflexivity]. }
        rewrite E in Hlast. specialize (Hl d Hlast). lia.
      * lia.
Qed.

Lemma log2_fuel n : n < 2 ^ N.of_nat (S (N.to_nat (N.log2 n))).
Proof.
  replace (N.of_nat (S (N.to_nat (N.log2 n)))) with (N.succ (N.log2 n)) by lia.
  destruct (N.eq_dec n 0) as [->|Hn]; [cbn; lia|].
  apply N.log2_spec. lia.
Qed.

Lemma digits_val_app base dv : forall a acc c,
  digits_val base dv acc (a ++ [c]) =
  match digits_val base dv acc a with
  | Some v => match dv c with
              | Some d => if d <? base then Some (v * base + d) else None
              | None => None
              end
  | None => None
  end.
Proof.
  induction a as [|x a IH]; intros acc c; cbn [app digits_val].
  - destruct (dv c) as [d|]; [|reflexivity]. destruct (d <? base); reflexivity.
  - destruct (dv x) as [d|]; [|reflexivity]. destruct (d <? base); [apply IH|reflexivity].
Qed.

Lemma digits_val_rev l : all_digits l ->
  digits_val 10 dec_digit 0 (rev l) = Some (le_val l).
Proof.
  induction l as [|c r IH]; intros H; [reflexivity|].
  inversion H as [|? ? Hc Hr]; subst. cbn [rev le_val].
  rewrite digits_val_app, (IH Hr). unfold dec_digit.
  replace (is_digit c) with true by (symmetry; now apply is_digit_spec).
  replace (c - 48 <? 10) with true by lia. f_equal. lia.
Qed.

(** The decimal text denotes exactly [n]. *)
Theorem dec_string_value n : digits_val 10 dec_digit 0 (dec_string n) = Some n.
Proof.
  unfold dec_string. destruct (dec_rev_spec _ n (log2_fuel n)) as (Hv & Hd & _).
  rewrite digits_val_rev by exact Hd. now rewrite Hv.
Qed.

Lemma all_digits_rev l : all_digits l -> all_digits (rev l).
Proof. unfold all_digits. intros H. apply Forall_rev. exact H. Qed.

(** Shape: digits only, not empty, no leading zero except "0" itself. *)
Lemma dec_string_shape n :
  exists c r, dec_string n = c :: r /\ all_digits (c :: r) /\ (c = 48 -> r = []).
Proof.
  unfold dec_string. destruct (dec_rev_spec _ n (log2_fuel n)) as (Hv & Hd & Hne & Hl & Hz).
  set (l := dec_rev (S (S (N.to_nat (N.log2 n)))) n) in *.
  destruct (rev l) as [|c r] eqn:E.
  { exfalso. apply Hne. apply (f_equal (@rev N)) in E. now rewrite rev_involutive in E. }
  exists c, r. split; [reflexivity|]. split; [rewrite <- E; now apply all_digits_rev|].
  intros ->.
  assert (Hlast : last l 0 = 48).
  { apply (f_equal (@rev N)) in E. rewrite rev_involutive in E. rewrite E. cbn [rev].
    now rewrite last_last. }
  specialize (Hl 0 Hlast). specialize (Hz Hl). rewrite Hz in E. cbn in E. now injection E as <-.
Qed.

(** ** Scanning *)

Lemma nscan_digits st : (forall c, 48 <= c <= 57 -> nstep st c = Some st) ->
  naccept st = true ->
  forall l, all_digits l -> nscan st l = Some (l, []).
Proof.
  intros Hs Ha. induction l as [|c r IH]; intros H; cbn [nscan]; [now rewrite Ha|].
  inversion H as [|? ? Hc Hr]; subst. rewrite (Hs c Hc), (IH Hr). reflexivity.
Qed.

Lemma nstep_digit_int c : 48 <= c <= 57 -> nstep NInt c = Some NInt.
Proof. intros H. unfold nstep. now replace (is_digit c) with true by (symmetry; apply is_digit_spec; lia). Qed.

Lemma unsigned_decimal_scan st c r :
  (st = NStart \/ st = NNeg) -> all_digits (c :: r) -> (c = 48 -> r = []) ->
  nscan st (c :: r) = Some (c :: r, []).
Proof.
  intros Hst H H0. inversion H as [|? ? Hc Hr]; subst. cbn [nscan].
  destruct (N.eqb_spec c 48) as [->|Hne].
  - rewrite (H0 eq_refl). destruct Hst as [->| ->]; reflexivity.
  - assert (E : nstep st c = Some NInt).
    { destruct Hst as [->| ->]; unfold nstep;
        replace (c =? 45) with false by lia; replace (c =? 48) with false by lia;
        now replace (is_digit c) with true by (symmetry; apply is_digit_spec; lia). }
    rewrite E, (nscan_digits NInt nstep_digit_int eq_refl r Hr). reflexivity.
Qed.

Lemma nscan_minus s :
  nscan NStart (45 :: s)
  = match nscan NNeg s with Some (t, rest) => Some (45 :: t, rest) | None => None end.
Proof. reflexivity. Qed.

Theorem dec_string_json n :
  is_json_number (dec_string n) = true /\ is_json_number (45 :: dec_string n) = true.
Proof.
  destruct (dec_string_shape n) as (c & r & -> & Hd & H0).
  unfold is_json_number, scan_json_number. split.
  - now rewrite (unsigned_decimal_scan NStart c r (or_introl eq_refl) Hd H0).
  - rewrite nscan_minus.
    now rewrite (unsigned_decimal_scan NNeg c r (or_intror eq_refl) Hd H0).
Qed.

(** A scanned number followed by a rune no state has a transition on. *)
Definition num_stop (d : N) : bool :=
  negb (is_digit d || (d =? 46) || (d =? 101) || (d =? 69) || (d =? 43) || (d =? 45)).

Lemma num_stop_nstep d st : num_stop d = true -> nstep st d = None.
Proof.
  unfold num_stop. intros H. apply negb_true_iff in H.
  repeat (apply orb_false_iff in H; destruct H as [H ?]).
  assert (H48 : (d =? 48) = false) by (unfold is_digit, in_range in H; lia).
  unfold nstep. rewrite H, H0, H1, H2, H3, H4, H48. destruct st; reflexivity.
Qed.

Lemma nscan_extend : forall t st,
  nscan st t = Some (t, []) ->
  forall rest, match rest with [] => True | d :: _ => num_stop d = true end ->
  nscan st (t ++ rest) = Some (t, rest).
Proof.
  induction t as [|c t IH]; intros st H rest Hr.
  - cbn [nscan] in H. cbn [app]. destruct (naccept st) eqn:Ea; [|discriminate].
    destruct rest as [|d rest']; cbn [nscan]; [now rewrite Ea|].
    now rewrite (num_stop_nstep d st Hr), Ea.
  - cbn [nscan app] in *. destruct (nstep st c) as [st'|].
    + destruct (nscan st' t) as [[t' rest']|] eqn:E; [|discriminate].
      injection H as -> ->. now rewrite (IH st' E rest Hr).
    + destruct (naccept st); [|discriminate]. injection H as H. discriminate.
Qed.

Lemma is_json_number_scan t :
  is_json_number t = true -> scan_json_number t = Some (t, []).
Proof.
  unfold is_json_number. destruct (scan_json_number t) as [[t' [|x r]]|] eqn:E; try discriminate.
  intros _. f_equal. f_equal.
  (* nscan returns a prefix: with an empty rest it is the whole input *)
  assert (Hp : forall s st t' rest, nscan st s = Some (t', rest) -> s = t' ++ rest).
  { induction s as [|c s IH]; intros st t0 rest H; cbn [nscan] in H.
    - destruct (naccept st); [injection H as <- <-; reflexivity|discriminate].
    - destruct (nstep st c) as [st'|].
      + destruct (nscan st' s) as [[t1 r1]|] eqn:E1; [|discriminate].
        injection H as <- <-. cbn [app]. f_equal. eapply IH; eauto.
      + destruct (naccept st); [injection H as <- <-; reflexivity|discriminate]. }
  specialize (Hp _ _ _ _ E). now rewrite app_nil_r in Hp.
Qed.

Theorem json_number_delimited t rest :
  is_json_number t = true ->
  match rest with [] => True | d :: _ => num_stop d = true end ->
  scan_json_number (t ++ rest) = Some (t, rest).
Proof.
  intros H Hr. apply nscan_extend; [exact (is_json_number_scan t H)|exact Hr].
Qed.

(** The first rune of a JSON number is '-' or a digit. *)
Lemma json_number_head t : is_json_number t = true ->
  exists c r, t = c :: r /\ (c = 45 \/ 48 <= c <= 57).
Proof.
  intros H. apply is_json_number_scan in H. unfold scan_json_number in H.
  destruct t as [|c r]; [discriminate|]. exists c, r. split; [reflexivity|].
  cbn [nscan] in H. unfold nstep in H.
  destruct (N.eqb_spec c 45); [now left|right].
  destruct (N.eqb_spec c 48); [lia|].
  destruct (is_digit c) eqn:Ed; [now apply is_digit_spec|discriminate].
Qed.

(** An unsigned number can take a sign. *)
Lemma json_number_neg t : is_json_number t = true ->
  (forall r, t <> 45 :: r) -> is_json_number (45 :: t) = true.
Proof.
  intros H Hn. pose proof (is_json_number_scan t H) as Hs.
  unfold is_json_number, scan_json_number in *. rewrite nscan_minus.
  destruct t as [|c r]; [discriminate|].
  assert (Hc : c <> 45) by (intros ->; now apply (Hn r)).
  assert (E : nscan NNeg (c :: r) = nscan NStart (c :: r)).
  { cbn [nscan]. unfold nstep. now replace (c =? 45) with false by lia. }
  now rewrite E, Hs.
Qed.
