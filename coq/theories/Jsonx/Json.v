(** RFC 8259 JSON: values and a reference parser over runes (the text after
    UTF-8 decoding).  This is the "standard JSON parser" of C07/C09; it is
    compared with encoding/json on every run (json.Valid and a token-level
    decode with UseNumber).

    Numbers are kept as their literal text; strings are rune lists, with
    [\uXXXX] escapes decoded as encoding/json does (a surrogate that is not
    part of a valid pair reads as U+FFFD); members keep their order and
    duplicates. *)
From Coq Require Import List NArith Bool.
From Verif Require Import Lib.Utf8 Jsonx.Lex Jsonx.Num.
Import ListNotations.
Local Open Scope N_scope.

Inductive jvalue :=
| JNull
| JBool (b : bool)
| JNum (text : list N)
| JStr (s : list N)
| JArr (l : list jvalue)
| JObj (l : list (list N * jvalue)).

Definition is_ws (c : N) : bool := (c =? 32) || (c =? 9) || (c =? 10) || (c =? 13).
Definition skip_ws (s : list N) : list N := drop_while is_ws s.

(** ** Strings *)

Inductive jstate :=
| JN                                   (* ordinary *)
| JE                                   (* after a backslash *)
| JU (k : nat) (v : N) (hi : option N) (* in the 4 hex digits of \u *)
| JHi (hi : N)                         (* after \uXXXX that was a surrogate *)
| JHiE (hi : N).                       (* ... and a backslash *)

Definition jhex (c : N) : option N :=
  if is_digit c then Some (c - 48)
  else if in_range 97 102 c then Some (c - 87)
  else if in_range 65 70 c then Some (c - 55)
  else None.

Definition simple_json_escape (c : N) : option N :=
  if c =? 34 then Some 34 else if c =? 92 then Some 92 else if c =? 47 then Some 47
  else if c =? 98 then Some 8 else if c =? 102 then Some 12 else if c =? 110 then Some 10
  else if c =? 114 then Some 13 else if c =? 116 then Some 9 else None.

Definition is_hi_surr (v : N) : bool := in_range 55296 56319 v.
Definition is_lo_surr (v : N) : bool := in_range 56320 57343 v.

(** What a completed \uXXXX contributes: runes to emit and the next state. *)
Definition ju_final (v : N) (hi : option N) : list N * jstate :=
  match hi with
  | None => if is_surrogate v then ([], JHi v) else ([v], JN)
  | Some h =>
      if is_hi_surr h && is_lo_surr v
      then ([65536 + (h - 55296) * 1024 + (v - 56320)], JN)
      else if is_surrogate v then ([rune_error], JHi v)
      else ([rune_error; v], JN)
  end.

Inductive jact :=
| JEmit (out : list N) (st' : jstate)   (* consume the rune *)
| JDone (out : list N)                  (* the closing quote *)
| JFail.

Definition jn_act (c : N) : jact :=
  if c =? 34 then JDone []
  else if c =? 92 then JEmit [] JE
  else if c <? 32 then JFail
  else JEmit [c] JN.

Definition je_act (c : N) : jact :=
  match simple_json_escape c with
  | Some b => JEmit [b] JN
  | None => if c =? 117 then JEmit [] (JU 4 0 None) else JFail
  end.

Definition prepend (pre : list N) (a : jact) : jact :=
  match a with
  | JEmit o st => JEmit (pre ++ o) st
  | JDone o => JDone (pre ++ o)
  | JFail => JFail
  end.

Definition jstr_act (st : jstate) (c : N) : jact :=
  match st with
  | JN => jn_act c
  | JE => je_act c
  | JU k v hi =>
      match jhex c with
      | None => JFail
      | Some d =>
          let v' := v * 16 + d in
          match k with
          | S (S k') => JEmit [] (JU (S k') v' hi)
          | _ => let '(o, st') := ju_final v' hi in JEmit o st'
          end
      end
  | JHi h => if c =? 92 then JEmit [] (JHiE h) else prepend [rune_error] (jn_act c)
  | JHiE h =>
      if c =? 117 then JEmit [] (JU 4 0 (Some h)) else prepend [rune_error] (je_act c)
  end.

Fixpoint jstr_go (st : jstate) (s : list N) : option (list N * list N) :=
  match s with
  | [] => None
  | c :: r =>
      match jstr_act st c with
      | JFail => None
      | JDone o => Some (o, r)
      | JEmit o st' =>
          match jstr_go st' r with
          | Some (v, rest) => Some (o ++ v, rest)
          | None => None
          end
      end
  end.

(** ** Values *)

Definition lit_prefix (p s : list N) : option (list N) :=
  (fix go (p s : list N) : option (list N) :=
     match p with
     | [] => Some s
     | x :: p' => match s with
                  | y :: s' => if x =? y then go p' s' else None
                  | [] => None
                  end
     end) p s.

Fixpoint jparse (fuel : nat) (s : list N) : option (jvalue * list N) :=
  match fuel with
  | O => None
  | S f =>
      match skip_ws s with
      | [] => None
      | c :: r =>
          if c =? 123 then
            match skip_ws r with
            | 125 :: r' => Some (JObj [], r')
            | _ => jmembers f r []
            end
          else if c =? 91 then
            match skip_ws r with
            | 93 :: r' => Some (JArr [], r')
            | _ => jelems f r []
            end
          else if c =? 34 then
            match jstr_go JN r with
            | Some (v, rest) => Some (JStr v, rest)
            | None => None
            end
          else if c =? 116 then
            option_map (fun rest => (JBool true, rest)) (lit_prefix [114; 117; 101] r)
          else if c =? 102 then
            option_map (fun rest => (JBool false, rest)) (lit_prefix [97; 108; 115; 101] r)
          else if c =? 110 then
            option_map (fun rest => (JNull, rest)) (lit_prefix [117; 108; 108] r)
          else
            match scan_json_number (c :: r) with
            | Some (t, rest) => Some (JNum t, rest)
            | None => None
            end
      end
  end

with jmembers (fuel : nat) (s : list N) (acc : list (list N * jvalue))
  : option (jvalue * list N) :=
  match fuel with
  | O => None
  | S f =>
      match skip_ws s with
      | 34 :: r =>
          match jstr_go JN r with
          | None => None
          | Some (k, r1) =>
              match skip_ws r1 with
              | 58 :: r2 =>
                  match jparse f r2 with
                  | None => None
                  | Some (v, r3) =>
                      match skip_ws r3 with
                      | 44 :: r4 => jmembers f r4 (acc ++ [(k, v)])
                      | 125 :: r4 => Some (JObj (acc ++ [(k, v)]), r4)
                      | _ => None
                      end
                  end
              | _ => None
              end
          end
      | _ => None
      end
  end

with jelems (fuel : nat) (s : list N) (acc : list jvalue) : option (jvalue * list N) :=
  match fuel with
  | O => None
  | S f =>
      match jparse f s with
      | None => None
      | Some (v, r1) =>
          match skip_ws r1 with
          | 44 :: r2 => jelems f r2 (acc ++ [v])
          | 93 :: r2 => Some (JArr (acc ++ [v]), r2)
          | _ => None
          end
      end
  end.

(** A complete JSON text. *)
Definition json_parse (s : list N) : option jvalue :=
  match jparse (S (length s)) s with
  | Some (v, rest) => match skip_ws rest with [] => Some v | _ => None end
  | None => None
  end.

Definition json_valid (s : list N) : bool :=
  match json_parse s with Some _ => true | None => false end.

(** Structural equality (numbers by text). *)
Fixpoint jvalue_eqb (a b : jvalue) : bool :=
  match a, b with
  | JNull, JNull => true
  | JBool x, JBool y => Bool.eqb x y
  | JNum x, JNum y => list_N_eqb x y
  | JStr x, JStr y => list_N_eqb x y
  | JArr x, JArr y =>
      (fix go (x y : list jvalue) : bool :=
         match x, y with
         | [], [] => true
         | a :: x', b :: y' => jvalue_eqb a b && go x' y'
         | _, _ => false
         end) x y
  | JObj x, JObj y =>
      (fix go (x y : list (list N * jvalue)) : bool :=
         match x, y with
         | [], [] => true
         | (k, a) :: x', (k', b) :: y' => list_N_eqb k k' && jvalue_eqb a b && go x' y'
         | _, _ => false
         end) x y
  | _, _ => false
  end.
