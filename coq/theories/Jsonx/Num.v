(** Number literals: the value of an integer token (Go literal rules as
    implemented by big.Int.SetString(lit, 0) on the lexemes the lexer can
    produce), decimal printing (big.Int.String), and the RFC 8259 number
    grammar. *)
From Coq Require Import List NArith Bool Decimal DecimalN.
From Verif Require Import Lib.Utf8 Jsonx.Lex.
Import ListNotations.
Local Open Scope N_scope.

(** ** Value of digit strings *)

Fixpoint digits_val (base : N) (dv : N -> option N) (acc : N) (s : list N) : option N :=
  match s with
  | [] => Some acc
  | c :: r =>
      match dv c with
      | Some d => if d <? base then digits_val base dv (acc * base + d) r else None
      | None => None
      end
  end.

Definition dec_digit (c : N) : option N := if is_digit c then Some (c - 48) else None.

Definition hex_digit_val (c : N) : option N :=
  if is_digit c then Some (c - 48)
  else if in_range 97 102 c then Some (c - 87)
  else if in_range 65 70 c then Some (c - 55)
  else None.

(** Value of an integer token: "0x" H+ is hexadecimal, "0" D+ is octal, D+
    otherwise decimal; "0x" alone and octal literals with a digit 8 or 9 have
    no value. *)
Definition int_value (lit : list N) : option N :=
  match lit with
  | 48 :: 120 :: h =>
      match h with [] => None | _ => digits_val 16 hex_digit_val 0 h end
  | 48 :: (_ :: _) as d => digits_val 8 dec_digit 0 d
  | [] => None
  | d => digits_val 10 dec_digit 0 d
  end.

(** ** Decimal printing *)

Fixpoint uint_codes (u : Decimal.uint) : list N :=
  match u with
  | Nil => []
  | D0 u => 48 :: uint_codes u | D1 u => 49 :: uint_codes u
  | D2 u => 50 :: uint_codes u | D3 u => 51 :: uint_codes u
  | D4 u => 52 :: uint_codes u | D5 u => 53 :: uint_codes u
  | D6 u => 54 :: uint_codes u | D7 u => 55 :: uint_codes u
  | D8 u => 56 :: uint_codes u | D9 u => 57 :: uint_codes u
  end.

Definition dec_string (n : N) : list N := uint_codes (N.to_uint n).

(** What encodeBasic writes for an integer token (without the sign). *)
Definition int_json (lit : list N) : option (list N) :=
  option_map dec_string (int_value lit).

(** ** RFC 8259 number grammar:
    [ minus ] int [ frac ] [ exp ],  int = "0" / digit1-9 *DIGIT *)

Definition scan_digits (s : list N) : list N * list N := span is_digit s.

(** Longest prefix of [s] that is a JSON number; [None] if none. *)
Definition scan_json_number (s : list N) : option (list N * list N) :=
  let '(sg, s1) := match s with 45 :: r => ([45], r) | _ => ([], s) end in
  match s1 with
  | [] => None
  | c :: r =>
      if negb (is_digit c) then None
      else
        let '(ip, s2) :=
          if c =? 48 then ([48], r)
          else let '(d, s2) := scan_digits r in (c :: d, s2) in
        let fr :=
          match s2 with
          | 46 :: r2 =>
              let '(d, s3) := scan_digits r2 in
              match d with [] => None | _ => Some (46 :: d, s3) end
          | _ => Some ([], s2)
          end in
        match fr with
        | None => None
        | Some (fp, s3) =>
            let ex :=
              match s3 with
              | e :: r3 =>
                  if (e =? 101) || (e =? 69) then
                    let '(esg, r4) :=
                      match r3 with
                      | x :: r3' => if (x =? 43) || (x =? 45) then ([x], r3') else ([], r3)
                      | [] => ([], [])
                      end in
                    let '(d, s4) := scan_digits r4 in
                    match d with [] => None | _ => Some (e :: esg ++ d, s4) end
                  else Some ([], s3)
              | [] => Some ([], [])
              end in
            match ex with
            | None => None
            | Some (ep, s4) => Some (sg ++ ip ++ fp ++ ep, s4)
            end
        end
  end.

Definition is_json_number (t : list N) : bool :=
  match scan_json_number t with
  | Some (_, []) => true
  | _ => false
  end.
