(** Number literals: the value of an integer token (Go literal rules as
    implemented by big.Int.SetString(lit, 0) on the lexemes the lexer can
    produce), decimal printing (big.Int.String), and the RFC 8259 number
    grammar. *)
From Coq Require Import List NArith Bool.
From Verif Require Import Lib.Utf8 Jsonx.Lex.
Import ListNotations.
Local Open Scope N_scope.

(** ** Value of digit strings *)

Fixpoint digits_val (base : N) (dv : N -> option N) (acc : N) (s : list N) : option N :=
  match s with
  | [] => Some acc
  | c :: r =>
      match dv c with
      | Some d => if d <? base then digits_val base dv (acc * base + d) r else None
      | None => None
      end
  end.

Definition dec_digit (c : N) : option N := if is_digit c then Some (c - 48) else None.

Definition hex_digit_val (c : N) : option N :=
  if is_digit c then Some (c - 48)
  else if in_range 97 102 c then Some (c - 87)
  else if in_range 65 70 c then Some (c - 55)
  else None.

(** Value of an integer token: "0x" H+ is hexadecimal, "0" D+ is octal, D+
    otherwise decimal; "0x" alone and octal literals with a digit 8 or 9 have
    no value. *)
Definition int_value (lit : list N) : option N :=
  match lit with
  | 48 :: 120 :: h =>
      match h with [] => None | _ => digits_val 16 hex_digit_val 0 h end
  | 48 :: (_ :: _) as d => digits_val 8 dec_digit 0 d
  | [] => None
  | d => digits_val 10 dec_digit 0 d
  end.

(** ** Decimal printing ((big.Int).String): least significant digit first,
    then reversed.  The fuel is the number of bits of [n], never less than its
    number of decimal digits (Jsonx/NumProofs.v). *)

Fixpoint dec_rev (fuel : nat) (n : N) : list N :=
  match fuel with
  | O => []
  | S f => if n <? 10 then [48 + n] else (48 + n mod 10) :: dec_rev f (n / 10)
  end.

Definition dec_string (n : N) : list N :=
  rev (dec_rev (S (S (N.to_nat (N.log2 n)))) n).

(** What encodeBasic writes for an integer token (without the sign). *)
Definition int_json (lit : list N) : option (list N) :=
  option_map dec_string (int_value lit).

(** ** RFC 8259 number grammar
    [ minus ] int [ frac ] [ exp ],  int = "0" / digit1-9 *DIGIT,
    as the scanner of encoding/json recognises it: a machine that consumes
    runes while a transition exists. *)

Inductive nstate := NStart | NNeg | NZero | NInt | NDot | NFrac | NE | NESign | NExp.

Definition nstep (st : nstate) (c : N) : option nstate :=
  let digit := is_digit c in
  let e := (c =? 101) || (c =? 69) in
  match st with
  | NStart => if c =? 45 then Some NNeg else if c =? 48 then Some NZero
              else if digit then Some NInt else None
  | NNeg => if c =? 48 then Some NZero else if digit then Some NInt else None
  | NZero => if c =? 46 then Some NDot else if e then Some NE else None
  | NInt => if digit then Some NInt else if c =? 46 then Some NDot
            else if e then Some NE else None
  | NDot => if digit then Some NFrac else None
  | NFrac => if digit then Some NFrac else if e then Some NE else None
  | NE => if (c =? 43) || (c =? 45) then Some NESign else if digit then Some NExp else None
  | NESign => if digit then Some NExp else None
  | NExp => if digit then Some NExp else None
  end.

Definition naccept (st : nstate) : bool :=
  match st with NZero | NInt | NFrac | NExp => true | _ => false end.

Fixpoint nscan (st : nstate) (s : list N) : option (list N * list N) :=
  match s with
  | [] => if naccept st then Some ([], []) else None
  | c :: r =>
      match nstep st c with
      | Some st' =>
          match nscan st' r with
          | Some (t, rest) => Some (c :: t, rest)
          | None => None
          end
      | None => if naccept st then Some ([], s) else None
      end
  end.

(** The number at the head of [s], and what follows it. *)
Definition scan_json_number (s : list N) : option (list N * list N) := nscan NStart s.

Definition is_json_number (t : list N) : bool :=
  match scan_json_number t with
  | Some (_, []) => true
  | _ => false
  end.
