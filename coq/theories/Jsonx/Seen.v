(** What the caller of an entry point SEES of the error handling.

    - the error list returned is never empty and never longer than the cap
      of lexing.ErrorList (20), whatever the number of errors in the input;
    - a result is returned only if no error was ever recorded: no call of
      ErrorList.Add happened on the way to the parser state the entry point
      ends in, and the lexer's list was empty up to the token it stopped at.

    [capped st]: every error list of the parser state - the parser's own, the
    lexer's list as it stood at each token, and the final lexer list - has at
    most [max_errs] elements. *)
From Coq Require Import List NArith Bool Lia Arith.
From Verif Require Import Lib.Utf8 Jsonx.Lex Jsonx.Tok Jsonx.GoStr Jsonx.Num Jsonx.Parse
  Jsonx.Json Jsonx.Encode Jsonx.LexProofs Jsonx.ParseProofs Jsonx.Term Jsonx.Balance.
Import ListNotations.

Definition cap_ok (l : list ecode) : Prop := length l <= max_errs.

Lemma cap_nil : cap_ok []. Proof. unfold cap_ok, max_errs. cbn. lia. Qed.

Lemma add_err_cap acc e : cap_ok acc -> cap_ok (add_err acc e).
Proof.
  unfold cap_ok, add_err. intros H. destruct (Nat.ltb_spec (length acc) max_errs); [|exact H].
  rewrite app_length. cbn. lia.
Qed.

Lemma add_errs_cap es : forall acc, cap_ok acc -> cap_ok (add_errs acc es).
Proof.
  unfold add_errs. induction es as [|e es IH]; intros acc H; cbn [fold_left]; [exact H|].
  apply IH. now apply add_err_cap.
Qed.

Definition tok_cap (t : ptok) : Prop := cap_ok (pcum t).

Definition capped (st : pstate) : Prop :=
  cap_ok (perrs st) /\ tok_cap (cur st) /\ Forall tok_cap (rest st) /\ cap_ok (fin st).

Lemma capped_reach st st' : reach st st' -> capped st -> capped st'.
Proof.
  induction 1; intros Hc; auto; apply IHreach; destruct Hc as (Hp & Hcur & Hr & Hf).
  - unfold p_next. destruct (rest st) as [|t r]; cbn [rest cur fin perrs]; unfold capped; cbn [rest cur fin perrs].
    + repeat split; auto.
    + inversion Hr; subst. repeat split; auto.
  - unfold p_add, capped. cbn [rest cur fin perrs]. repeat split; auto. now apply add_err_cap.
Qed.

Lemma p_errs_cap st : capped st -> cap_ok (p_errs st).
Proof.
  intros (Hp & Hc & _). unfold p_errs. unfold tok_cap in Hc.
  destruct (pcum (cur st)); [exact Hp|exact Hc].
Qed.

Lemma with_cum_cap : forall raw acc, cap_ok acc ->
  Forall tok_cap (fst (with_cum acc raw)) /\ cap_ok (snd (with_cum acc raw)).
Proof.
  induction raw as [|[t e] raw IH]; intros acc H; cbn [with_cum].
  - split; [constructor|exact H].
  - specialize (IH (add_errs acc e) (add_errs_cap e acc H)).
    destruct (with_cum (add_errs acc e) raw) as [ps fn]. cbn [fst snd] in *.
    destruct IH as [Ha Hb]. split; [|exact Hb]. constructor; [|exact Ha].
    unfold tok_cap. cbn [pcum]. now apply add_errs_cap.
Qed.

Lemma semi_ins_cap fn : cap_ok fn -> forall ts flag,
  Forall tok_cap ts -> Forall tok_cap (semi_ins flag fn ts).
Proof.
  intros Hf. induction ts as [|t r IH]; intros flag H; cbn [semi_ins].
  - destruct flag; [constructor; [exact Hf|constructor]|constructor].
  - inversion H as [|? ? Ht Hr]; subst.
    destruct (pty t) eqn:E; try (constructor; [exact Ht|apply IH; exact Hr]).
    destruct flag; [constructor; [exact Ht|]|]; apply IH; exact Hr.
Qed.

Lemma parser_stream_cap raw :
  Forall tok_cap (sbody (parser_stream raw)) /\ cap_ok (sfin (parser_stream raw)).
Proof.
  unfold parser_stream, filtered. destruct (with_cum_cap raw [] cap_nil) as [Ha Hb].
  destruct (with_cum [] raw) as [ps fn]. cbn [fst snd] in *. cbn [sbody sfin]. split; [|exact Hb].
  assert (Hk : Forall tok_cap (map keyword_tok (semi_ins false fn ps))).
  { apply Forall_map. eapply Forall_impl; [|apply (semi_ins_cap fn Hb ps false Ha)].
    intros t Ht. unfold keyword_tok. destruct (pty t); try exact Ht.
    destruct (is_keyword (plit t)); exact Ht. }
  clear -Hk. induction Hk; cbn [filter]; [constructor|].
  destruct (not_comment x); [constructor|]; auto.
Qed.

Lemma p_init_capped s : Forall tok_cap (sbody s) -> cap_ok (sfin s) -> capped (p_init s).
Proof.
  intros Hb Hf. unfold p_init, p_next. cbn [rest fin perrs jail].
  destruct (sbody s) as [|t r]; unfold capped; cbn [rest cur fin perrs].
  - repeat split; auto using cap_nil.
  - inversion Hb; subst. repeat split; auto using cap_nil.
Qed.

Lemma parser_init_capped raw : capped (p_init (parser_stream raw)).
Proof. destruct (parser_stream_cap raw). now apply p_init_capped. Qed.

(** No ErrorList.Add on the way to [b]. *)
Definition no_add_before (b : pstate) : Prop := forall e st, ~ reach (p_add e st) b.

Lemma p_errs_nil_perrs st : p_errs st = [] -> perrs st = [] /\ pcum (cur st) = [].
Proof. unfold p_errs. destruct (pcum (cur st)); [auto|discriminate]. Qed.

Lemma clean_no_add st : p_errs st = [] -> no_add_before st.
Proof.
  intros H e st0 Hr. apply p_errs_nil_perrs in H as [H _]. now apply (add_not_clean _ _ _ Hr).
Qed.

(** A result together with the list the caller gets: a value and no error,
    or no value and between 1 and [max_errs] errors. *)
Definition seen {A} (r : option A * list ecode) : Prop :=
  value_or_error r /\ cap_ok (snd r).

Section WithFloat.
Context {F : Type}.
Variable pf : list N -> option F.
Variable ff : F -> list N.

(** ** ToJSON *)

Theorem to_json_stream_seen s r :
  capped (p_init s) -> to_json_stream pf ff s = Some r -> seen r.
Proof.
  intros Hc H. split.
  { destruct (to_json_stream_total pf ff s) as (r' & E & Hv). congruence. }
  unfold to_json_stream in H.
  destruct (parse_value pf _ (p_init s)) as [[v st1]|] eqn:E; [|discriminate].
  pose proof (p_errs_cap st1 (capped_reach _ _ (parse_value_reach pf _ _ _ _ E) Hc)) as Hcap.
  destruct (p_errs st1) eqn:Ep.
  - injection H as <-. unfold marshal_value. destruct (encode_value ff v); cbn [snd]; unfold cap_ok, max_errs; cbn; lia.
  - injection H as <-. exact Hcap.
Qed.

Theorem to_json_seen input r : to_json pf ff input = Ok r -> seen r.
Proof.
  unfold to_json, jsonx_stream. destruct (jsonx_raw_tokens input) as [raw| |]; try discriminate.
  destruct (to_json_stream pf ff (parser_stream raw)) as [r'|] eqn:E; [|discriminate].
  intros H. injection H as <-. eapply to_json_stream_seen; [apply parser_init_capped|exact E].
Qed.

Theorem to_json_stream_accept_clean s out errs :
  to_json_stream pf ff s = Some (Some out, errs) ->
  exists v st1, parse_value pf (parse_fuel (p_init s)) (p_init s) = Some (v, st1) /\
    p_errs st1 = [] /\ no_add_before st1.
Proof.
  unfold to_json_stream. destruct (parse_value pf _ (p_init s)) as [[v st1]|] eqn:E; [|discriminate].
  destruct (p_errs st1) eqn:Ep; [|discriminate]. intros _.
  exists v, st1. repeat split; auto. now apply clean_no_add.
Qed.

(** ** Decode (one call), and Unmarshal as one Decode followed by More and
    the late look at the lexer's errors *)

Theorem decode_step_seen st r st' :
  capped st -> decode_step pf ff st = Some (r, st') ->
  capped st' /\
  match r with
  | DErrs es => es <> [] /\ cap_ok es
  | _ => True
  end.
Proof.
  intros Hc H. split; [exact (capped_reach _ _ (decode_step_reach pf ff _ _ _ H) Hc)|].
  unfold decode_step in H.
  destruct (parse_value pf _ st) as [[v st1]|] eqn:E; [|discriminate].
  pose proof (p_errs_cap st1 (capped_reach _ _ (parse_value_reach pf _ _ _ _ E) Hc)) as Hcap.
  destruct (p_errs st1) eqn:Ep.
  - unfold marshal_value in H. destruct (encode_value ff v).
    + destruct (json_valid l); injection H as <- _; auto.
    + injection H as <- _. split; [discriminate|unfold cap_ok, max_errs; cbn; lia].
  - injection H as <- _. split; [discriminate|exact Hcap].
Qed.

Theorem decode_step_accept_clean st t st' :
  decode_step pf ff st = Some (DOk t, st') ->
  exists v st1, parse_value pf (parse_fuel st) st = Some (v, st1) /\
    p_errs st1 = [] /\ no_add_before st1 /\ perrs st' = [] /\ no_add_before st'.
Proof.
  unfold decode_step. destruct (parse_value pf _ st) as [[v st1]|] eqn:E; [|discriminate].
  destruct (p_errs st1) eqn:Ep; [|discriminate].
  destruct (marshal_value ff v) as [[t'|] es]; [|discriminate].
  destruct (json_valid t'); [|discriminate]. intros H. injection H as _ <-.
  pose proof (proj1 (p_errs_nil_perrs _ Ep)) as Hp.
  assert (Hp2 : perrs (if p_see TSemi st1 then p_next st1 else st1) = []).
  { destruct (p_see TSemi st1); [unfold p_next; destruct (rest st1); exact Hp|exact Hp]. }
  exists v, st1. repeat split; auto using clean_no_add.
  intros e st0 Hr. now apply (add_not_clean _ _ _ Hr).
Qed.

Theorem unmarshal_is_decode_step s r :
  unmarshal_stream pf ff s = Some r ->
  exists d st', decode_step pf ff (p_init s) = Some (d, st') /\
    match d with
    | DErrs (e :: _) => r = UErr e
    | DErrs [] => False
    | DJsonErr t => r = UJsonErr t
    | DOk t => r = if more st' then UMore else
                   match p_errs st' with [] => UOk t | e :: _ => UErr e end
    end.
Proof.
  unfold unmarshal_stream, decode_step, more.
  destruct (parse_value pf _ (p_init s)) as [[v st1]|]; [|discriminate].
  destruct (p_errs st1) as [|e l].
  - unfold marshal_value. destruct (encode_value ff v) as [t|].
    + destruct (json_valid t).
      * intros H. eexists _, _. split; [reflexivity|]. cbn beta iota.
        destruct (p_see TEOF _); cbn [negb]; [|congruence].
        destruct (p_errs _); congruence.
      * intros H. eexists _, _. split; [reflexivity|]. congruence.
    + intros H. eexists _, _. split; [reflexivity|]. congruence.
  - intros H. eexists _, _. split; [reflexivity|]. congruence.
Qed.

Theorem unmarshal_stream_accept_clean s t :
  unmarshal_stream pf ff s = Some (UOk t) ->
  exists st', decode_step pf ff (p_init s) = Some (DOk t, st') /\
    more st' = false /\ p_errs st' = [] /\ no_add_before st'.
Proof.
  intros H. destruct (unmarshal_is_decode_step s _ H) as (d & st' & E & Hd).
  destruct d as [t'|[|e l]|t']; try contradiction; try discriminate.
  destruct (more st') eqn:Em; [discriminate|].
  destruct (p_errs st') eqn:Ep; [|discriminate]. injection Hd as <-.
  exists st'. repeat split; auto. now apply clean_no_add.
Qed.

(** ** DecodeSeries *)

Lemma series_entries_cap tm es : forall errs res errs' res',
  cap_ok errs -> fold_left (series_entry ff tm) es (errs, res) = (errs', res') -> cap_ok errs'.
Proof.
  induction es as [|[name v] es IH]; intros errs res errs' res' Hc H; cbn [fold_left] in H.
  - injection H as <- _. exact Hc.
  - unfold series_entry at 2 in H.
    destruct (tm name) as [acc|]; [|eapply IH; [|exact H]; now apply add_err_cap].
    destruct (encode_value ff v) as [t|]; [|eapply IH; [|exact H]; now repeat apply add_err_cap].
    destruct (acc t); [eapply IH; [|exact H]; exact Hc|eapply IH; [|exact H]; now apply add_err_cap].
Qed.

Theorem decode_series_stream_seen tm s r :
  capped (p_init s) -> decode_series_stream pf ff tm s = Some r -> seen r.
Proof.
  intros Hc H. split.
  { destruct (decode_series_stream_total pf ff tm s) as (r' & E & Hv). congruence. }
  unfold decode_series_stream in H.
  destruct (parse_series pf _ (p_init s) []) as [[es st1]|] eqn:E; [|discriminate].
  pose proof (p_errs_cap st1 (capped_reach _ _ (parse_series_reach pf _ _ _ _ _ E) Hc)) as Hcap.
  destruct (p_errs st1) eqn:Ep.
  - destruct (fold_left (series_entry ff tm) es ([], [])) as [errs0 res0] eqn:Ef.
    pose proof (series_entries_cap tm es _ _ _ _ cap_nil Ef) as Hc0.
    destruct errs0; injection H as <-; cbn [snd]; [apply cap_nil|exact Hc0].
  - injection H as <-. exact Hcap.
Qed.

Theorem decode_series_seen tm input r : decode_series pf ff tm input = Ok r -> seen r.
Proof.
  unfold decode_series, jsonx_stream. destruct (jsonx_raw_tokens input) as [raw| |]; try discriminate.
  destruct (decode_series_stream pf ff tm (parser_stream raw)) as [r'|] eqn:E; [|discriminate].
  intros H. injection H as <-. eapply decode_series_stream_seen; [apply parser_init_capped|exact E].
Qed.

Theorem decode_series_stream_accept_clean tm s res errs :
  decode_series_stream pf ff tm s = Some (Some res, errs) ->
  exists es st1, parse_series pf (parse_fuel (p_init s)) (p_init s) [] = Some (es, st1) /\
    p_errs st1 = [] /\ no_add_before st1 /\
    fold_left (series_entry ff tm) es ([], []) = ([], res).
Proof.
  unfold decode_series_stream. destruct (parse_series pf _ (p_init s) []) as [[es st1]|] eqn:E; [|discriminate].
  destruct (p_errs st1) eqn:Ep; [|discriminate].
  destruct (fold_left (series_entry ff tm) es ([], [])) as [errs0 res0] eqn:Ef.
  destruct errs0; [|discriminate]. intros H. injection H as <- _.
  exists es, st1. repeat split; auto. now apply clean_no_add.
Qed.

(** ** The Decoder loop on an input *)

Lemma decode_stream_seen : forall fuel st acc vs es,
  capped st -> decode_stream pf ff fuel st acc = Some (vs, Some (DErrs es)) ->
  es <> [] /\ cap_ok es.
Proof.
  induction fuel as [|f IH]; intros st acc vs es Hc H; [discriminate|]. cbn [decode_stream] in H.
  destruct (more st); [|discriminate].
  destruct (decode_step pf ff st) as [[r st']|] eqn:E; [|discriminate].
  destruct (decode_step_seen st r st' Hc E) as [Hc' Hr].
  destruct r as [t|e|t].
  - eapply IH; [exact Hc'|exact H].
  - assert (e = es) by congruence. subst. exact Hr.
  - discriminate.
Qed.

Theorem decode_all_seen input vs es :
  decode_all pf ff input = Ok (vs, Some (DErrs es)) -> es <> [] /\ cap_ok es.
Proof.
  unfold decode_all, jsonx_stream. destruct (jsonx_raw_tokens input) as [raw| |]; try discriminate.
  destruct (decode_stream pf ff _ _ []) as [[vs' fin']|] eqn:E; [|discriminate].
  intros H. assert (vs' = vs /\ fin' = Some (DErrs es)) as [-> ->] by (split; congruence).
  eapply decode_stream_seen; [apply parser_init_capped|exact E].
Qed.

End WithFloat.

(** ** strtoken.Parse: the lexer's list is capped; the list of strings that
    strconv.Unquote rejects is a plain slice (strtoken/parse.go), one error
    per string token at most. *)

Lemma all_lex_errs_cap raw : cap_ok (all_lex_errs raw).
Proof.
  unfold all_lex_errs. assert (H : forall acc, cap_ok acc ->
    cap_ok (fold_left (fun a (te : token * list ecode) => add_errs a (snd te)) raw acc)).
  { induction raw as [|te raw IH]; intros acc Hc; cbn [fold_left]; [exact Hc|].
    apply IH. now apply add_errs_cap. }
  apply H, cap_nil.
Qed.

Theorem shell_parse_seen input r :
  shell_parse input = Ok r ->
  value_or_error r /\
  exists raw, shell_raw_tokens input = Ok raw /\
    (all_lex_errs raw <> [] -> snd r = all_lex_errs raw /\ cap_ok (snd r)) /\
    (all_lex_errs raw = [] -> length (snd r) <= length raw).
Proof.
  intros H. split.
  { destruct (shell_parse_total input) as (r' & E & Hv). congruence. }
  unfold shell_parse in H. destruct (shell_raw_tokens input) as [raw| |]; try discriminate.
  exists raw. split; [reflexivity|]. destruct (all_lex_errs raw) as [|e es] eqn:El.
  - split; [intros C; now contradiction C|]. intros _.
    match type of H with context [fold_left ?f raw ?a] =>
      assert (Hl : forall l acc, length (snd (fold_left f l acc)) <= length (snd acc) + length l) end.
    { induction l as [|te l IH]; intros acc; cbn [fold_left length]; [lia|].
      etransitivity; [apply IH|]. destruct acc as [res errs].
      destruct (tty (fst te)); cbn [snd]; try lia.
      destruct (go_unquote (tlit (fst te))); cbn [snd]; [lia|rewrite app_length; cbn; lia]. }
    specialize (Hl raw ([], [])). cbn [snd length] in Hl.
    match type of H with context [fold_left ?f raw ?a] => destruct (fold_left f raw a) as [res errs] end.
    cbn [snd] in Hl. destruct errs; injection H as <-; cbn [snd length] in *; lia.
  - injection H as <-. cbn [snd]. split; [|discriminate]. intros _. split; [reflexivity|].
    rewrite <- El. apply all_lex_errs_cap.
Qed.
