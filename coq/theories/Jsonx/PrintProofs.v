(** C07, token level: every number literal, quoted string and key that the
    printer can write is lexed back as exactly one token covering the whole
    literal, and that token is re-encoded to the JSON the value has. *)
From Coq Require Import List NArith ZArith Bool Lia.
From Coq Require Import ZifyN ZifyNat ZifyBool.
From Verif Require Import Lib.Utf8 Jsonx.Lex Jsonx.LexProofs Jsonx.Tok Jsonx.GoStr Jsonx.Num
  Jsonx.NumProofs Jsonx.Print.
Import ListNotations.
Local Open Scope N_scope.

Ltac Zify.zify_post_hook ::= Z.div_mod_to_equations.

(** ** Numbers *)

Definition ds (l : list N) : Prop := Forall (fun c => is_digit c = true) l.

Lemma span_ds l x r : ds l -> is_digit x = false ->
  span is_digit (l ++ x :: r) = (l, x :: r).
Proof.
  induction 1 as [|c l Hc Hl IH]; intros Hx; cbn [app span].
  - now rewrite Hx.
  - rewrite Hc, (IH Hx). reflexivity.
Qed.

Lemma span_ds_nil l : ds l -> span is_digit l = (l, []).
Proof. induction 1 as [|c l Hc Hl IH]; cbn [span]; [reflexivity|]. now rewrite Hc, IH. Qed.

(** The unsigned JSON number grammar, in parts. *)
Definition int_part (ip : list N) : Prop :=
  ip = [48] \/ exists c l, ip = c :: l /\ is_digit c = true /\ c <> 48 /\ ds l.
Definition frac_part (fp : list N) : Prop :=
  fp = [] \/ exists l, fp = 46 :: l /\ l <> [] /\ ds l.
Definition exp_part (ep : list N) : Prop :=
  ep = [] \/ exists e sg l, ep = e :: sg ++ l /\ (e = 101 \/ e = 69) /\
                            (sg = [] \/ sg = [43] \/ sg = [45]) /\ l <> [] /\ ds l.

Definition ujn (u : list N) : Prop :=
  exists ip fp ep, u = ip ++ fp ++ ep /\ int_part ip /\ frac_part fp /\ exp_part ep.

(** The scanner of the reference JSON parser accepts exactly this grammar. *)
Lemma nscan_exp : forall s t, nscan NExp s = Some (t, []) -> s = t /\ ds t.
Proof.
  induction s as [|c s IH]; intros t H; cbn [nscan] in H.
  - injection H as <-. split; [reflexivity|constructor].
  - unfold nstep in H. destruct (is_digit c) eqn:Ec; [|discriminate].
    destruct (nscan NExp s) as [[t' r']|] eqn:E; [|discriminate]. injection H as <- ->.
    destruct (IH t' eq_refl) as [-> Hd]. split; [reflexivity|]. now constructor.
Qed.

Lemma nscan_e s t : nscan NE s = Some (t, []) ->
  s = t /\ exists sg l, t = sg ++ l /\ (sg = [] \/ sg = [43] \/ sg = [45]) /\ l <> [] /\ ds l.
Proof.
  destruct s as [|c s]; [discriminate|]. cbn [nscan]. unfold nstep.
  destruct ((c =? 43) || (c =? 45)) eqn:Es.
  - destruct (nscan NESign s) as [[t' r']|] eqn:E; [|discriminate]. intros H. injection H as <- ->.
    destruct s as [|c2 s2]; [discriminate|]. cbn [nscan] in E. unfold nstep in E.
    destruct (is_digit c2) eqn:Ec2; [|discriminate].
    destruct (nscan NExp s2) as [[t2 r2]|] eqn:E2; [|discriminate]. injection E as <- ->.
    destruct (nscan_exp _ _ E2) as [-> Hd]. split; [reflexivity|].
    exists [c], (c2 :: t2). split; [reflexivity|]. split.
    + destruct (N.eqb_spec c 43) as [->|]; [auto|]. destruct (N.eqb_spec c 45) as [->|]; [auto|].
      discriminate.
    + split; [discriminate|now constructor].
  - destruct (is_digit c) eqn:Ec; [|discriminate].
    destruct (nscan NExp s) as [[t' r']|] eqn:E; [|discriminate]. intros H. injection H as <- ->.
    destruct (nscan_exp _ _ E) as [-> Hd]. split; [reflexivity|].
    exists [], (c :: t'). split; [reflexivity|]. split; [auto|]. split; [discriminate|now constructor].
Qed.

Definition is_e (c : N) : bool := (c =? 101) || (c =? 69).

Lemma nscan_frac : forall s t, nscan NFrac s = Some (t, []) ->
  s = t /\ exists l ep, t = l ++ ep /\ ds l /\ exp_part ep.
Proof.
  induction s as [|c s IH]; intros t H; cbn [nscan] in H.
  - injection H as <-. split; [reflexivity|]. exists [], []. repeat split; [constructor|now left].
  - unfold nstep in H. fold (is_e c) in H. destruct (is_digit c) eqn:Ec.
    + destruct (nscan NFrac s) as [[t' r']|] eqn:E; [|discriminate]. injection H as <- ->.
      destruct (IH t' eq_refl) as [-> (l & ep & -> & Hl & He)]. split; [reflexivity|].
      exists (c :: l), ep. split; [reflexivity|]. split; [now constructor|exact He].
    + destruct (is_e c) eqn:Ee; [|discriminate].
      destruct (nscan NE s) as [[t' r']|] eqn:E; [|discriminate]. injection H as <- ->.
      destruct (nscan_e _ _ E) as [-> (sg & l & -> & Hsg & Hne & Hl)]. split; [reflexivity|].
      exists [], (c :: sg ++ l). split; [reflexivity|]. split; [constructor|]. right.
      exists c, sg, l. repeat split; auto. unfold is_e in Ee.
      destruct (N.eqb_spec c 101); [auto|]. destruct (N.eqb_spec c 69); [auto|]. discriminate.
Qed.

(** After the integer part. *)
Lemma nscan_tail s t :
  (* from NZero, or from NInt with no digit following *)
  match s with
  | [] => True
  | c :: _ => is_digit c = false
  end ->
  (nscan NZero s = Some (t, []) \/ nscan NInt s = Some (t, [])) ->
  s = t /\ exists fp ep, t = fp ++ ep /\ frac_part fp /\ exp_part ep.
Proof.
  intros Hd H.
  assert (H' : nscan NZero s = Some (t, [])).
  { destruct H as [H|H]; [exact H|]. destruct s as [|c s']; [exact H|].
    cbn [nscan] in *. unfold nstep in *. now rewrite Hd in H. }
  clear H. destruct s as [|c s].
  - cbn in H'. injection H' as <-. split; [reflexivity|]. exists [], []. repeat split; now left.
  - cbn [nscan] in H'. unfold nstep in H'. fold (is_e c) in H'.
    destruct (N.eqb_spec c 46) as [->|Hc].
    + destruct (nscan NDot s) as [[t' r']|] eqn:E; [|discriminate]. injection H' as <- ->.
      destruct s as [|c2 s2]; [discriminate|]. cbn [nscan] in E. unfold nstep in E.
      destruct (is_digit c2) eqn:Ec2; [|discriminate].
      destruct (nscan NFrac s2) as [[t2 r2]|] eqn:E2; [|discriminate]. injection E as <- ->.
      destruct (nscan_frac _ _ E2) as [-> (l & ep & -> & Hl & He)]. split; [reflexivity|].
      exists (46 :: c2 :: l), ep. split; [reflexivity|]. split; [|exact He].
      right. exists (c2 :: l). repeat split; [discriminate|now constructor].
    + destruct (is_e c) eqn:Ee; [|discriminate].
      destruct (nscan NE s) as [[t' r']|] eqn:E; [|discriminate]. injection H' as <- ->.
      destruct (nscan_e _ _ E) as [-> (sg & l & -> & Hsg & Hne & Hl)]. split; [reflexivity|].
      exists [], (c :: sg ++ l). split; [reflexivity|]. split; [now left|]. right.
      exists c, sg, l. repeat split; auto. unfold is_e in Ee.
      destruct (N.eqb_spec c 101); [auto|]. destruct (N.eqb_spec c 69); [auto|]. discriminate.
Qed.

Lemma nscan_int_digits : forall s t, nscan NInt s = Some (t, []) ->
  exists l s', s = l ++ s' /\ ds l /\
    match s' with [] => True | c :: _ => is_digit c = false end /\
    exists t', t = l ++ t' /\ nscan NInt s' = Some (t', []).
Proof.
  induction s as [|c s IH]; intros t H.
  - exists [], []. repeat split; [constructor|]. exists t. split; [reflexivity|exact H].
  - destruct (is_digit c) eqn:Ec.
    + cbn [nscan] in H. unfold nstep in H. rewrite Ec in H.
      destruct (nscan NInt s) as [[t' r']|] eqn:E; [|discriminate]. injection H as <- ->.
      destruct (IH t' eq_refl) as (l & s' & -> & Hl & Hs' & t2 & -> & H2).
      exists (c :: l), s'. repeat split; [now constructor|exact Hs'|].
      exists t2. split; [reflexivity|exact H2].
    + exists [], (c :: s). repeat split; [constructor|exact Ec|].
      exists t. split; [reflexivity|exact H].
Qed.

Theorem unsigned_json_number_parts u :
  nscan NNeg u = Some (u, []) -> ujn u.
Proof.
  intros H. destruct u as [|c r]; [discriminate|]. cbn [nscan] in H. unfold nstep in H.
  destruct (N.eqb_spec c 48) as [->|Hc].
  - destruct (nscan NZero r) as [[t' r']|] eqn:E; [|discriminate].
    injection H as Ht Hr. subst t' r'.
    (* "0" cannot be followed by a digit *)
    assert (Hd : match r with [] => True | c :: _ => is_digit c = false end).
    { destruct r as [|c t2]; [exact I|]. cbn [nscan] in E. unfold nstep in E.
      destruct (is_digit c) eqn:Ec; [|reflexivity]. exfalso.
      assert (c <> 46 /\ is_e c = false) as [H1 H2].
      { unfold is_digit, in_range, is_e in *. lia. }
      fold (is_e c) in E. rewrite H2 in E. destruct (N.eqb_spec c 46); [contradiction|discriminate]. }
    destruct (nscan_tail r r Hd (or_introl E)) as [_ (fp & ep & -> & Hf & He)].
    exists [48], fp, ep. repeat split; auto. now left.
  - destruct (is_digit c) eqn:Ec; [|discriminate].
    destruct (nscan NInt r) as [[t' r']|] eqn:E; [|discriminate].
    injection H as Ht Hr. subst t' r'.
    destruct (nscan_int_digits _ _ E) as (l & s' & -> & Hl & Hs' & t2 & Ht & H2).
    apply app_inv_head in Ht. subst t2.
    destruct (nscan_tail s' s' Hs' (or_intror H2)) as [_ (fp & ep & -> & Hf & He)].
    exists (c :: l), fp, ep. split; [reflexivity|]. repeat split; auto.
    right. exists c, l. auto.
Qed.

(** A rune after which the number lexer stops, whatever precedes. *)
Definition lex_num_stop (d : N) : bool :=
  negb (is_digit d || (d =? 46) || (d =? 101) || (d =? 69) || (d =? 120)).

Definition is_float_lit (fp ep : list N) : bool :=
  match fp, ep with [], [] => false | _, _ => true end.

Lemma is_digit_false_dot : is_digit 46 = false. Proof. reflexivity. Qed.

Theorem lex_number_json ip fp ep d rest :
  int_part ip -> frac_part fp -> exp_part ep -> lex_num_stop d = true ->
  lex_number (ip ++ fp ++ ep ++ d :: rest)
  = LTok (mkTok (if is_float_lit fp ep then TFloat else TInt) (ip ++ fp ++ ep)) [] (d :: rest).
Proof.
  intros Hi Hf He Hd.
  unfold lex_num_stop in Hd. apply negb_true_iff in Hd.
  repeat (apply orb_false_iff in Hd; destruct Hd as [Hd ?]).
  rename Hd into Hdd, H2 into Hd46, H1 into Hd101, H0 into Hd69, H into Hd120.
  (* the head of what follows the integer part is not a digit *)
  set (tail := fp ++ ep ++ d :: rest).
  assert (Htail : exists x r, tail = x :: r /\ is_digit x = false /\ x <> 120).
  { subst tail. destruct Hf as [->|(l & -> & _ & _)].
    - destruct He as [->|(e & sg & l & -> & Hee & _)].
      + exists d, rest. repeat split; auto. intros ->. discriminate.
      + exists e, ((sg ++ l) ++ d :: rest). split; [reflexivity|].
        destruct Hee as [->| ->]; split; (reflexivity || discriminate).
    - eexists 46, _. split; [reflexivity|]. split; [reflexivity|discriminate]. }
  destruct Htail as (x & r & Etail & Hx & Hx120).
  (* frac *)
  assert (Hfrac : forall r1, r1 = tail ->
    (match r1 with
     | 46 :: r1' => let '(d2, r2) := span is_digit r1' in (true, 46 :: d2, r2)
     | _ => (false, [], r1) end)
    = (match fp with [] => false | _ => true end, fp, ep ++ d :: rest)).
  { intros r1 ->. subst tail. destruct Hf as [->|(l & -> & Hne & Hl)].
    - cbn [app]. destruct He as [->|(e & sg & l & -> & Hee & _)].
      + cbn [app]. destruct d as [|p]; [reflexivity|].
        destruct (N.eqb_spec (N.pos p) 46) as [E|Hne]; [discriminate|].
        repeat (destruct p as [p|p|]; try reflexivity). contradiction.
      + cbn [app]. destruct Hee as [->| ->]; reflexivity.
    - cbn [app].
      assert (Hs : span is_digit (l ++ ep ++ d :: rest) = (l, ep ++ d :: rest)).
      { destruct He as [->|(e & sg & l3 & -> & Hee & _)].
        - cbn [app]. now apply span_ds.
        - cbn [app]. apply span_ds; [exact Hl|]. destruct Hee as [->| ->]; reflexivity. }
      rewrite Hs. destruct l; [contradiction|reflexivity]. }
  (* exponent *)
  assert (Hexp : forall r2, r2 = ep ++ d :: rest ->
    (match r2 with
     | e :: r2' =>
         if (e =? 101) || (e =? 69) then
           let '(sg, r2'') :=
             match r2' with
             | c :: r2''' => if is_digit c || is_exp_sign c then ([c], r2''') else ([], r2')
             | [] => ([], [])
             end in
           let '(d3, r3) := span is_digit r2'' in (true, e :: sg ++ d3, r3)
         else (false, [], r2)
     | [] => (false, [], [])
     end)
    = (match ep with [] => false | _ => true end, ep, d :: rest)).
  { intros r2 ->. destruct He as [->|(e & sg & l & -> & Hee & Hsg & Hne & Hl)].
    - cbn [app]. now rewrite Hd101, Hd69.
    - cbn [app]. replace ((e =? 101) || (e =? 69)) with true
        by (destruct Hee as [->| ->]; reflexivity).
      destruct l as [|c l']; [contradiction|]. inversion Hl as [|? ? Hc Hl']; subst.
      destruct Hsg as [->|[->| ->]]; cbn [app].
      + rewrite Hc. cbn [orb]. rewrite (span_ds l' d rest Hl' Hdd). reflexivity.
      + cbn [is_digit in_range N.leb N.compare Pos.compare Pos.compare_cont andb orb is_exp_sign exp_signs existsb N.eqb Pos.eqb].
        change (c :: l' ++ d :: rest) with ((c :: l') ++ d :: rest).
        rewrite (span_ds (c :: l') d rest Hl Hdd). reflexivity.
      + cbn [is_digit in_range N.leb N.compare Pos.compare Pos.compare_cont andb orb is_exp_sign exp_signs existsb N.eqb Pos.eqb].
        change (c :: l' ++ d :: rest) with ((c :: l') ++ d :: rest).
        rewrite (span_ds (c :: l') d rest Hl Hdd). reflexivity. }
  change (ip ++ fp ++ ep ++ d :: rest) with (ip ++ tail).
  assert (Hft := Hfrac tail eq_refl). clear Hfrac.
  assert (Hs0 : span is_digit tail = ([], tail)) by (rewrite Etail; cbn [span]; now rewrite Hx).
  assert (Hsl : forall l, ds l -> span is_digit (l ++ tail) = (l, tail))
    by (intros l Hl; rewrite Etail; now apply span_ds).
  assert (Hnohex : forall b : bool,
            match tail with 120 :: r2 => if b then Some r2 else None | _ => None end = None).
  { intros b. rewrite Etail. destruct x as [|p]; [reflexivity|].
    repeat (destruct p as [p|p|]; try reflexivity). contradiction. }
  clearbody tail. unfold lex_number.
  destruct Hi as [->|(c & l & -> & Hc & Hc48 & Hl)].
  - (* "0" *)
    cbn [app is_digit in_range N.leb N.compare Pos.compare Pos.compare_cont andb negb].
    rewrite Hnohex, Hs0. cbv beta iota zeta. rewrite Hft. cbv beta iota zeta.
    rewrite (Hexp _ eq_refl). cbv beta iota zeta.
    cbn [app]. f_equal. f_equal;
      try (unfold is_float_lit; destruct fp, ep; reflexivity); try (now rewrite app_nil_r).
  - cbn [app]. rewrite Hc. cbn [negb].
    assert (Hnohex2 : match l ++ tail with 120 :: r2 => if c =? 48 then Some r2 else None | _ => None end = None).
    { destruct (N.eqb_spec c 48); [contradiction|]. destruct (l ++ tail) as [|y ?]; [reflexivity|].
      destruct y as [|p]; [reflexivity|]. repeat (destruct p as [p|p|]; try reflexivity). }
    rewrite Hnohex2, (Hsl l Hl). cbv beta iota zeta. rewrite Hft. cbv beta iota zeta.
    rewrite (Hexp _ eq_refl). cbv beta iota zeta.
    f_equal. f_equal;
      try (unfold is_float_lit; destruct fp, ep; reflexivity); try (now rewrite <- !app_assoc).
Qed.

(** The same at the end of the input. *)
Theorem lex_number_json_end ip fp ep :
  int_part ip -> frac_part fp -> exp_part ep ->
  lex_number (ip ++ fp ++ ep)
  = LTok (mkTok (if is_float_lit fp ep then TFloat else TInt) (ip ++ fp ++ ep)) [] [].
Proof.
  intros Hi Hf He.
  set (tail := fp ++ ep).
  assert (Htail : match tail with [] => True | x :: _ => is_digit x = false /\ x <> 120 end).
  { subst tail. destruct Hf as [->|(l & -> & _ & _)].
    - destruct He as [->|(e & sg & l & -> & Hee & _)]; [exact I|].
      cbn [app]. destruct Hee as [->| ->]; split; (reflexivity || discriminate).
    - cbn [app]. split; [reflexivity|discriminate]. }
  assert (Hft :
    (match tail with
     | 46 :: r1' => let '(d2, r2) := span is_digit r1' in (true, 46 :: d2, r2)
     | _ => (false, [], tail) end)
    = (match fp with [] => false | _ => true end, fp, ep)).
  { subst tail. destruct Hf as [->|(l & -> & Hne & Hl)].
    - cbn [app]. destruct He as [->|(e & sg & l & -> & Hee & _)]; [reflexivity|].
      destruct Hee as [->| ->]; reflexivity.
    - cbn [app].
      assert (Hs : span is_digit (l ++ ep) = (l, ep)).
      { destruct He as [->|(e & sg & l3 & -> & Hee & _)].
        - rewrite app_nil_r. now apply span_ds_nil.
        - apply span_ds; [exact Hl|]. destruct Hee as [->| ->]; reflexivity. }
      rewrite Hs. destruct l; [contradiction|reflexivity]. }
  assert (Hexp :
    (match ep with
     | e :: r2' =>
         if (e =? 101) || (e =? 69) then
           let '(sg, r2'') :=
             match r2' with
             | c :: r2''' => if is_digit c || is_exp_sign c then ([c], r2''') else ([], r2')
             | [] => ([], [])
             end in
           let '(d3, r3) := span is_digit r2'' in (true, e :: sg ++ d3, r3)
         else (false, [], ep)
     | [] => (false, [], [])
     end)
    = (match ep with [] => false | _ => true end, ep, [])).
  { destruct He as [->|(e & sg & l & -> & Hee & Hsg & Hne & Hl)]; [reflexivity|].
    replace ((e =? 101) || (e =? 69)) with true by (destruct Hee as [->| ->]; reflexivity).
    destruct l as [|c l']; [contradiction|]. inversion Hl as [|? ? Hc Hl']; subst.
    destruct Hsg as [->|[->| ->]]; cbn [app].
    - rewrite Hc. cbn [orb]. rewrite (span_ds_nil l' Hl'). reflexivity.
    - cbn [is_digit in_range N.leb N.compare Pos.compare Pos.compare_cont andb orb is_exp_sign exp_signs existsb N.eqb Pos.eqb].
      rewrite (span_ds_nil (c :: l') Hl). reflexivity.
    - cbn [is_digit in_range N.leb N.compare Pos.compare Pos.compare_cont andb orb is_exp_sign exp_signs existsb N.eqb Pos.eqb].
      rewrite (span_ds_nil (c :: l') Hl). reflexivity. }
  assert (Hs0 : span is_digit tail = ([], tail)).
  { destruct tail as [|x r]; [reflexivity|]. cbn [span]. now rewrite (proj1 Htail). }
  assert (Hsl : forall l, ds l -> span is_digit (l ++ tail) = (l, tail)).
  { intros l Hl. destruct tail as [|x r]; [rewrite app_nil_r; now apply span_ds_nil|].
    apply span_ds; [exact Hl|exact (proj1 Htail)]. }
  assert (Hnohex : forall b : bool,
            match tail with 120 :: r2 => if b then Some r2 else None | _ => None end = None).
  { intros b. destruct tail as [|x r]; [reflexivity|]. destruct Htail as [_ Hx].
    destruct x as [|p]; [reflexivity|]. repeat (destruct p as [p|p|]; try reflexivity). contradiction. }
  assert (Etl : tail = fp ++ ep) by reflexivity.
  change (lex_number (ip ++ fp ++ ep)) with (lex_number (ip ++ tail)). clearbody tail. unfold lex_number.
  destruct Hi as [->|(c & l & -> & Hc & Hc48 & Hl)].
  - cbn [app is_digit in_range N.leb N.compare Pos.compare Pos.compare_cont andb negb].
    rewrite Hnohex, Hs0. cbv beta iota zeta. rewrite Hft. cbv beta iota zeta.
    rewrite Hexp. cbv beta iota zeta.
    cbn [app]. f_equal. f_equal;
      try (unfold is_float_lit; destruct fp, ep; reflexivity); try (now rewrite Etl).
  - cbn [app]. rewrite Hc. cbn [negb].
    assert (Hnohex2 : match l ++ tail with 120 :: r2 => if c =? 48 then Some r2 else None | _ => None end = None).
    { destruct (N.eqb_spec c 48); [contradiction|]. destruct (l ++ tail) as [|y ?]; [reflexivity|].
      destruct y as [|p]; [reflexivity|]. repeat (destruct p as [p|p|]; try reflexivity). }
    rewrite Hnohex2, (Hsl l Hl). cbv beta iota zeta. rewrite Hft. cbv beta iota zeta.
    rewrite Hexp. cbv beta iota zeta.
    f_equal. f_equal;
      try (unfold is_float_lit; destruct fp, ep; reflexivity); try (rewrite Etl; now rewrite <- ?app_assoc).
Qed.

(** ** A canonical decimal integer is re-emitted digit for digit *)

Definition canon_le (m : list N) : Prop :=
  all_digits m /\ m <> [] /\ (last m 0 = 48 -> m = [48]).

Lemma le_val_lower : forall m, all_digits m -> m <> [] -> last m 0 <> 48 ->
  2 ^ N.of_nat (length m - 1) <= le_val m.
Proof.
  induction m as [|c m IH]; intros Hd Hne Hl; [contradiction|].
  inversion Hd as [|? ? Hc Hm]; subst. destruct m as [|c2 m'].
  - cbn in *. lia.
  - assert (Hl' : last (c2 :: m') 0 <> 48) by exact Hl.
    specialize (IH Hm ltac:(discriminate) Hl').
    cbn [le_val length] in *. replace (S (S (length m')) - 1)%nat with (S (length m')) by lia.
    replace (S (length m') - 1)%nat with (length m') in IH by lia.
    replace (N.of_nat (S (length m'))) with (N.succ (N.of_nat (length m'))) by lia.
    rewrite N.pow_succ_r by lia. lia.
Qed.

Lemma dec_rev_canon : forall m f, canon_le m -> (length m <= f)%nat ->
  dec_rev f (le_val m) = m.
Proof.
  induction m as [|c m IH]; intros f (Hd & Hne & Hl) Hf; [contradiction|].
  inversion Hd as [|? ? Hc Hm]; subst. destruct f as [|f]; [cbn in Hf; lia|].
  rewrite dec_rev_S. destruct m as [|c2 m'].
  - cbn [le_val]. replace (c - 48 + 10 * 0 <? 10) with true by lia. f_equal. lia.
  - assert (Hl' : last (c2 :: m') 0 <> 48).
    { intros E. specialize (Hl E). discriminate. }
    pose proof (le_val_lower (c2 :: m') Hm ltac:(discriminate) Hl') as Hlow.
    assert (1 <= le_val (c2 :: m')).
    { assert (2 ^ N.of_nat (length (c2 :: m') - 1) <> 0) by (apply N.pow_nonzero; lia). lia. }
    set (v := le_val (c2 :: m')) in *.
    change (le_val (c :: c2 :: m')) with (c - 48 + 10 * v).
    replace (c - 48 + 10 * v <? 10) with false by lia.
    replace ((c - 48 + 10 * v) mod 10) with (c - 48) by lia.
    replace ((c - 48 + 10 * v) / 10) with v by lia.
    subst v. rewrite IH.
    + f_equal. lia.
    + split; [exact Hm|]. split; [discriminate|]. intros E. contradiction.
    + cbn [length] in *. lia.
Qed.

Lemma canon_le_rev ip : int_part ip -> canon_le (rev ip).
Proof.
  intros [->|(c & l & -> & Hc & Hc48 & Hl)].
  - split; [|split]; [constructor; [lia|constructor]|discriminate|reflexivity].
  - assert (Hall : all_digits (c :: l)).
    { constructor; [now apply is_digit_spec|]. eapply Forall_impl; [|exact Hl].
      intros x Hx. now apply is_digit_spec. }
    split; [now apply all_digits_rev|]. split.
    + intros E. apply (f_equal (@rev N)) in E. rewrite rev_involutive in E. discriminate.
    + cbn [rev]. rewrite last_last. intros E. contradiction.
Qed.

Lemma int_value_decimal c l : c <> 48 ->
  int_value (c :: l) = digits_val 10 dec_digit 0 (c :: l).
Proof.
  intros Hc. unfold int_value. destruct c as [|p]; [reflexivity|].
  repeat (destruct p as [p|p|]; try reflexivity). contradiction.
Qed.

Theorem int_json_canonical ip : int_part ip -> int_json ip = Some ip.
Proof.
  intros Hi. pose proof (canon_le_rev ip Hi) as Hc.
  assert (Hv : int_value ip = Some (le_val (rev ip))).
  { destruct Hc as (Hd & _).
    destruct Hi as [->|(c & l & -> & Hcd & Hc48 & Hl)].
    - reflexivity.
    - rewrite (int_value_decimal c l Hc48).
      pose proof (digits_val_rev (rev (c :: l)) Hd) as E. now rewrite rev_involutive in E. }
  unfold int_json. rewrite Hv. cbn [option_map]. f_equal. unfold dec_string.
  rewrite dec_rev_canon; [apply rev_involutive|exact Hc|].
  (* fuel: the number of digits is at most the number of bits plus one *)
  destruct Hc as (Hd & Hne & Hl).
  destruct (N.eq_dec (last (rev ip) 0) 48) as [E|E].
  - rewrite (Hl E). cbn. lia.
  - pose proof (le_val_lower (rev ip) Hd Hne E) as Hlow.
    set (n := le_val (rev ip)) in *. set (k := length (rev ip)) in *.
    assert (N.of_nat (k - 1) <= N.log2 n).
    { apply N.log2_le_pow2; [|exact Hlow].
      assert (0 < 2 ^ N.of_nat (k - 1)) by (apply N.neq_0_lt_0, N.pow_nonzero; lia). lia. }
    lia.
Qed.

(** ** Strings: [strconv.Quote] output is one string token, lexed without
    error, and [strconv.Unquote] gives the string back. *)

Lemma digit_val_hex d : d < 16 -> digit_val (hex_digit d) = d.
Proof.
  intros H. unfold hex_digit, digit_val, is_digit, in_range.
  destruct (N.ltb_spec d 10).
  - replace ((48 <=? 48 + d) && (48 + d <=? 57)) with true by lia. lia.
  - replace ((48 <=? 87 + d) && (87 + d <=? 57)) with false by lia.
    replace ((97 <=? 87 + d) && (87 + d <=? 102)) with true by lia. lia.
Qed.

Lemma unhex_hex d : d < 16 -> unhex (hex_digit d) = Some d.
Proof.
  intros H. unfold hex_digit, unhex, is_digit, in_range.
  destruct (N.ltb_spec d 10).
  - replace ((48 <=? 48 + d) && (48 + d <=? 57)) with true by lia. f_equal. lia.
  - replace ((48 <=? 87 + d) && (87 + d <=? 57)) with false by lia.
    replace ((97 <=? 87 + d) && (87 + d <=? 102)) with true by lia. f_equal. lia.
Qed.

Definition pre3 (p : list N) (x : list N * list N * list ecode) : list N * list N * list ecode :=
  let '(l, rest, e) := x in (p ++ l, rest, e).

Lemma str_go_consume q st c st' s :
  str_act q st c = ([], AConsume st') -> str_go q st (c :: s) = pre3 [c] (str_go q st' s).
Proof. intros H. cbn [str_go]. rewrite H. destruct (str_go q st' s) as [[l rest] e]. reflexivity. Qed.

Lemma pre3_pre3 a b x : pre3 a (pre3 b x) = pre3 (a ++ b) x.
Proof. destruct x as [[l rest] e]. cbn. now rewrite app_assoc. Qed.

(** A completed escape whose code point is fine continues like SNormal. *)
Lemma str_go_dig0 q b m v s : code_point_errs m v = [] ->
  str_go q (SDig 0 b m v) s = str_go q SNormal s.
Proof.
  intros H. destruct s as [|c r]; cbn [str_go str_end_errs str_act dig_act]; rewrite H; [reflexivity|].
  destruct (normal_act q c) as [e a]. reflexivity.
Qed.

(** Running over [k] hexadecimal digits. *)
Lemma str_go_hex q m : forall k v acc s, v < 16 ^ N.of_nat k ->
  str_go q (SDig k 16 m acc) (hex_n k v ++ s)
  = pre3 (hex_n k v) (str_go q (SDig 0 16 m (acc * 16 ^ N.of_nat k + v)) s).
Proof.
  (* generalised: the digits of v are consumed left to right *)
  assert (G : forall k j v acc s, v < 16 ^ N.of_nat k ->
    str_go q (SDig (k + j) 16 m acc) (hex_n k v ++ s)
    = pre3 (hex_n k v) (str_go q (SDig j 16 m (acc * 16 ^ N.of_nat k + v)) s)).
  { induction k as [|k IH]; intros j v acc s Hv.
    - cbn [hex_n app Nat.add]. change (16 ^ N.of_nat 0) with 1 in *.
      replace (acc * 1 + v) with acc by lia. destruct (str_go _ _ s) as [[l r] e]. reflexivity.
    - cbn [hex_n]. rewrite <- app_assoc. cbn [app].
      replace (S k + j)%nat with (k + S j)%nat by lia.
      replace (N.of_nat (S k)) with (N.succ (N.of_nat k)) in * by lia.
      rewrite N.pow_succ_r in * by lia.
      rewrite IH by (apply N.div_lt_upper_bound; lia).
      rewrite (str_go_consume q _ _ (SDig j 16 m ((acc * 16 ^ N.of_nat k + v / 16) * 16 + v mod 16))).
      + rewrite pre3_pre3. f_equal. f_equal. f_equal. lia.
      + cbn [str_act dig_act]. rewrite digit_val_hex by (apply N.mod_lt; lia).
        replace (16 <=? v mod 16) with false by lia. reflexivity. }
  intros k v acc s Hv. specialize (G k 0%nat v acc s Hv). now rewrite Nat.add_0_r in G.
Qed.

Section Strings.
Variable is_print : N -> bool.
Hypothesis newline_not_printable : is_print 10 = false.

Lemma lex_piece r s : valid_rune r = true ->
  str_go 34 SNormal (go_quote_rune is_print r ++ s)
  = pre3 (go_quote_rune is_print r) (str_go 34 SNormal s).
Proof.
  intros Hv. apply valid_rune_spec in Hv. unfold go_quote_rune.
  assert (Hesc : forall x, is_simple_escape 34 x = true ->
            str_go 34 SNormal ([92; x] ++ s) = pre3 [92; x] (str_go 34 SNormal s)).
  { intros x Hx. cbn [app]. rewrite (str_go_consume 34 SNormal 92 SEsc) by reflexivity.
    rewrite (str_go_consume 34 SEsc x SNormal) by (cbn [str_act]; unfold esc_act; now rewrite Hx).
    now rewrite pre3_pre3. }
  destruct ((r =? 34) || (r =? 92)) eqn:E1.
  { apply Hesc. destruct (N.eqb_spec r 34) as [->|]; [reflexivity|].
    destruct (N.eqb_spec r 92) as [->|]; [reflexivity|discriminate]. }
  destruct (is_print r) eqn:Ep.
  { cbn [app]. apply str_go_consume. cbn [str_act]. unfold normal_act.
    destruct (N.eqb_spec r 10) as [->|]; [congruence|].
    replace (r =? 34) with false by lia. now replace (r =? 92) with false by lia. }
  destruct (N.eqb_spec r 7) as [->|]; [now apply Hesc|].
  destruct (N.eqb_spec r 8) as [->|]; [now apply Hesc|].
  destruct (N.eqb_spec r 12) as [->|]; [now apply Hesc|].
  destruct (N.eqb_spec r 10) as [->|]; [now apply Hesc|].
  destruct (N.eqb_spec r 13) as [->|]; [now apply Hesc|].
  destruct (N.eqb_spec r 9) as [->|]; [now apply Hesc|].
  destruct (N.eqb_spec r 11) as [->|]; [now apply Hesc|].
  assert (Hhex : forall x k m, (x = 120 /\ k = 2%nat /\ m = 255) \/
                               (x = 117 /\ k = 4%nat /\ m = max_rune) \/
                               (x = 85 /\ k = 8%nat /\ m = max_rune) ->
            r < 16 ^ N.of_nat k -> code_point_errs m r = [] ->
            str_go 34 SNormal ((92 :: x :: hex_n k r) ++ s)
            = pre3 (92 :: x :: hex_n k r) (str_go 34 SNormal s)).
  { intros x k m Hx Hr Hcp. cbn [app].
    rewrite (str_go_consume 34 SNormal 92 SEsc) by reflexivity.
    rewrite (str_go_consume 34 SEsc x (SDig k 16 m 0)).
    2:{ cbn [str_act]. unfold esc_act.
        destruct Hx as [(-> & -> & ->)|[(-> & -> & ->)|(-> & -> & ->)]]; reflexivity. }
    rewrite str_go_hex by exact Hr. rewrite str_go_dig0 by (now rewrite N.mul_0_l, N.add_0_l).
    rewrite !pre3_pre3. reflexivity. }
  destruct ((r <? 32) || (r =? 127)) eqn:E2.
  { apply (Hhex 120 2%nat 255); [auto|change (16 ^ N.of_nat 2) with 256; lia|].
    unfold code_point_errs, in_range. now replace ((255 <? r) || (55296 <=? r) && (r <=? 57343)) with false by lia. }
  replace (valid_rune r) with true by (symmetry; now apply valid_rune_spec). cbn [negb].
  assert (Hcp : code_point_errs max_rune r = []).
  { unfold code_point_errs, in_range, max_rune.
    now replace ((1114111 <? r) || (55296 <=? r) && (r <=? 57343)) with false by lia. }
  destruct (N.ltb_spec r 65536).
  - apply (Hhex 117 4%nat max_rune); [auto|change (16 ^ N.of_nat 4) with 65536; lia|exact Hcp].
  - apply (Hhex 85 8%nat max_rune); [auto|change (16 ^ N.of_nat 8) with 4294967296; lia|exact Hcp].
Qed.

Theorem go_quote_lexes rs rest :
  forallb valid_rune rs = true ->
  lex_string 34 (go_quote is_print rs ++ rest)
  = LTok (mkTok TString (go_quote is_print rs)) [] rest.
Proof.
  intros Hv. unfold go_quote. cbn [app lex_string N.eqb Pos.eqb].
  assert (H : str_go 34 SNormal ((flat_map (go_quote_rune is_print) rs ++ [34]) ++ rest)
              = (flat_map (go_quote_rune is_print) rs ++ [34], rest, [])).
  { induction rs as [|r rs IH]; cbn [flat_map app].
    - reflexivity.
    - cbn [forallb] in Hv. apply andb_true_iff in Hv as [Hr Hrs].
      rewrite <- !app_assoc. rewrite (lex_piece r _ Hr).
      specialize (IH Hrs). rewrite <- app_assoc in IH. rewrite IH. reflexivity. }
  now rewrite H.
Qed.

(** *** Unquote *)

Lemma unq_hex_run kind : forall k j v acc s, v < 16 ^ N.of_nat k ->
  unq_go (UHex (k + S j) kind acc) (hex_n k v ++ s)
  = unq_go (UHex (S j) kind (acc * 16 ^ N.of_nat k + v)) s.
Proof.
  induction k as [|k IH]; intros j v acc s Hv.
  - cbn [hex_n app Nat.add]. change (16 ^ N.of_nat 0) with 1 in *.
    now replace (acc * 1 + v) with acc by lia.
  - cbn [hex_n]. rewrite <- app_assoc. cbn [app].
    replace (S k + S j)%nat with (k + S (S j))%nat by lia.
    replace (N.of_nat (S k)) with (N.succ (N.of_nat k)) in * by lia.
    rewrite N.pow_succ_r in * by lia.
    rewrite IH by (apply N.div_lt_upper_bound; lia).
    cbn [unq_go]. rewrite unhex_hex by (apply N.mod_lt; lia).
    f_equal. f_equal. lia.
Qed.

Lemma unq_hex kind k v s : v < 16 ^ N.of_nat (S k) ->
  unq_go (UHex (S k) kind 0) (hex_n (S k) v ++ s)
  = match hex_final kind v with
    | Some bs => option_map (app bs) (unq_go UNormal s)
    | None => None
    end.
Proof.
  intros Hv. cbn [hex_n]. rewrite <- app_assoc. cbn [app].
  replace (N.of_nat (S k)) with (N.succ (N.of_nat k)) in * by lia.
  rewrite N.pow_succ_r in * by lia.
  replace (S k) with (k + 1)%nat at 1 by lia.
  rewrite unq_hex_run by (apply N.div_lt_upper_bound; lia).
  cbn [unq_go]. rewrite unhex_hex by (apply N.mod_lt; lia).
  replace ((0 * 16 ^ N.of_nat k + v / 16) * 16 + v mod 16) with v by lia. reflexivity.
Qed.

Lemma unq_piece r s : valid_rune r = true ->
  unq_go UNormal (go_quote_rune is_print r ++ s)
  = option_map (app (encode_rune r)) (unq_go UNormal s).
Proof.
  intros Hv0. pose proof Hv0 as Hv. apply valid_rune_spec in Hv. unfold go_quote_rune.
  assert (Hesc : forall x b, simple_escape_val x = Some b -> encode_rune r = [b] ->
            unq_go UNormal ([92; x] ++ s) = option_map (app (encode_rune r)) (unq_go UNormal s)).
  { intros x b Hx Hb. cbn [app unq_go N.eqb Pos.eqb]. rewrite Hx, Hb. reflexivity. }
  destruct ((r =? 34) || (r =? 92)) eqn:E1.
  { destruct (N.eqb_spec r 34) as [->|]; [now apply (Hesc 34 34)|].
    destruct (N.eqb_spec r 92) as [->|]; [now apply (Hesc 92 92)|discriminate]. }
  destruct (is_print r) eqn:Ep.
  { cbn [app unq_go]. replace (r =? 34) with false by lia.
    destruct (N.eqb_spec r 10) as [->|]; [congruence|]. now replace (r =? 92) with false by lia. }
  destruct (N.eqb_spec r 7) as [->|]; [now apply (Hesc 97 7)|].
  destruct (N.eqb_spec r 8) as [->|]; [now apply (Hesc 98 8)|].
  destruct (N.eqb_spec r 12) as [->|]; [now apply (Hesc 102 12)|].
  destruct (N.eqb_spec r 10) as [->|]; [now apply (Hesc 110 10)|].
  destruct (N.eqb_spec r 13) as [->|]; [now apply (Hesc 114 13)|].
  destruct (N.eqb_spec r 9) as [->|]; [now apply (Hesc 116 9)|].
  destruct (N.eqb_spec r 11) as [->|]; [now apply (Hesc 118 11)|].
  destruct ((r <? 32) || (r =? 127)) eqn:E2.
  { cbn [app]. change (92 :: 120 :: hex_n 2 r ++ s) with (92 :: 120 :: (hex_n 2 r ++ s)).
    cbn [unq_go N.eqb Pos.eqb simple_escape_val].
    rewrite (unq_hex KX 1 r s) by (change (16 ^ N.of_nat 2) with 256; lia).
    cbn [hex_final]. rewrite enc_1 by lia. reflexivity. }
  rewrite Hv0. cbn [negb].
  destruct (N.ltb_spec r 65536).
  - cbn [app]. cbn [unq_go N.eqb Pos.eqb simple_escape_val].
    rewrite (unq_hex KU 3 r s) by (change (16 ^ N.of_nat 4) with 65536; lia).
    cbn [hex_final]. now rewrite Hv0.
  - cbn [app]. cbn [unq_go N.eqb Pos.eqb simple_escape_val].
    rewrite (unq_hex KU 7 r s) by (change (16 ^ N.of_nat 8) with 4294967296; lia).
    cbn [hex_final]. now rewrite Hv0.
Qed.

Theorem go_quote_unquotes rs :
  forallb valid_rune rs = true ->
  go_unquote (go_quote is_print rs) = Some (utf8_encode rs).
Proof.
  intros Hv. unfold go_quote, go_unquote.
  induction rs as [|r rs IH]; cbn [flat_map app].
  - reflexivity.
  - cbn [forallb] in Hv. apply andb_true_iff in Hv as [Hr Hrs].
    rewrite <- app_assoc, (unq_piece r _ Hr), (IH Hrs). reflexivity.
Qed.

End Strings.

(** Every unsigned JSON number, followed by a rune that cannot continue a
    number, is lexed as exactly one number token covering the whole literal. *)
Theorem json_number_lexes u d rest :
  nscan NNeg u = Some (u, []) -> lex_num_stop d = true ->
  exists ty, lex_number (u ++ d :: rest) = LTok (mkTok ty u) [] (d :: rest) /\
             (ty = TInt \/ ty = TFloat).
Proof.
  intros Hu Hd. destruct (unsigned_json_number_parts u Hu) as (ip & fp & ep & -> & Hi & Hf & He).
  exists (if is_float_lit fp ep then TFloat else TInt). split.
  - rewrite <- !app_assoc. now apply lex_number_json.
  - destruct (is_float_lit fp ep); auto.
Qed.
