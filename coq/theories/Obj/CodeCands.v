(** Candidate inputs for the counterexample search of the objects code
    refinement (Obj/CodeRefine.v).  Requires only the generated file and the
    model. *)
From Coq Require Import List NArith ZArith Bool.
From Verif Require Import Lib.Bytes Lib.Path Lib.GoLib Obj.Base Gen.CodeObj.
Import ListNotations.
Local Open Scope N_scope.

Definition set_nth (i : nat) (c : N) (l : list N) : list N := firstn i l ++ c :: skipn (S i) l.

(** 64 letters with one character replaced by the neighbours of the two
    ranges, an upper-case letter, NUL, a UTF-8 lead byte, a continuation byte
    and 0xFF, at the first, a middle and the last position; lengths 0, 63, 65;
    digits only; a 64-byte string holding a two-byte rune. *)
Definition cands_isValidKey : list (list N) :=
  let base := repeat 97 64 in
  [base; repeat 48 64; repeat 122 64; repeat 57 64; []; repeat 97 63; repeat 97 65; repeat 97 62 ++ [195; 169];
   repeat 97 61 ++ [226; 130; 172]; repeat 97 128]
  ++ flat_map (fun i => map (fun c => set_nth i c base) [96; 123; 47; 58; 65; 90; 0; 195; 169; 128; 255; 32])
       [0; 31; 63]%nat.

Definition cex_isValidKey :=
  cex_search Bool.eqb gen_objects_isValidKey (valid_key std_key_len std_key_ranges) cands_isValidKey.

(** ** hashutil.CheckReader.Read

    What the underlying reader returned ([rstat]) as a Go error, and the
    outcome of [Read] as the model's [cstat]: the two refusals are told apart
    by their message, io.EOF is the sentinel value, anything else is the
    underlying reader's own error, passed through. *)
From Coq Require Import String.
From Verif Require Import Obj.CheckReader.

Definition err_of_rstat (st : rstat) : go_error :=
  match st with
  | RNil => None
  | REof => Some (GoErr "var" "io.EOF")
  | RFail _ => Some (GoErr "reader" "the underlying reader's own error")
  end.

Definition cstat_of (st : rstat) (e : go_error) : cstat :=
  match e with
  | None => CNil
  | Some (GoErr k m) =>
      if String.eqb k "var" && String.eqb m "io.EOF" then CEof
      else if String.eqb m "got %d bytes, want %d" then CBadLen
      else if String.eqb m "got sha256 %x, want hash %x" then CBadHash
      else match st with RFail c => CFail c | _ => CFail 0 end
  end.

Definition cstat_tag (c : cstat) : N :=
  match c with CNil => 0 | CEof => 1 | CFail e => 10 + e | CBadLen => 2 | CBadHash => 3 end.

(** One call of the generated [Read] on reader state [r], when the underlying
    reader put [n] bytes into [buf] and returned [st]: (status, r.n, r.h). *)
Definition run_Read (D : bytes -> bytes) (r : cr) (buf : bytes) (n : Z) (st : rstat) : Z * cstat * Z * bytes :=
  let '(n', e, rn, rh) :=
    gen_hashutil_CheckReader_Read D (n, err_of_rstat st) buf (cr_n r) (cr_acc r) (cr_wantlen r) (cr_want r) in
  (n', cstat_of st e, rn, rh).

Definition model_Read (D : bytes -> bytes) (r : cr) (buf : bytes) (n : Z) (st : rstat) : Z * cstat * Z * bytes :=
  let '((c, cs), r1) := cr_read D r (firstn (Z.to_nat n) buf, st) in
  (Z.of_nat (List.length c), cs, cr_n r1, cr_acc r1).

Definition read_res_eqb (a b : Z * cstat * Z * bytes) : bool :=
  let '(n1, c1, m1, h1) := a in let '(n2, c2, m2, h2) := b in
  (n1 =? n2)%Z && (cstat_tag c1 =? cstat_tag c2) && (m1 =? m2)%Z && str_eqb h1 h2.

(** Stand-in digest for the search: length and last byte. *)
Definition cand_D (b : bytes) : bytes := [N.of_nat (List.length b); last b 0].

Definition cand_crs : list cr :=
  flat_map (fun n => flat_map (fun wl => flat_map (fun acc =>
    [mkCr n acc (cand_D (acc ++ [7])) wl; mkCr n acc (cand_D acc) wl; mkCr n acc [9; 9] wl])
    [[]; [5]]) [-1; 0; 1; 2; 3]%Z) [0; 1; 2; 9223372036854775807]%Z.

Definition cands_Read : list (cr * (Z * rstat)) :=
  pairs cand_crs (pairs [0; 1; 2]%Z [RNil; REof; RFail 4]).

Definition cex_CheckReader_Read :=
  cex_search read_res_eqb
    (fun x => run_Read cand_D (fst x) [7; 8] (fst (snd x)) (snd (snd x)))
    (fun x => model_Read cand_D (fst x) [7; 8] (fst (snd x)) (snd (snd x))) cands_Read.
