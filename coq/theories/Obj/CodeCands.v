(** Candidate inputs for the counterexample search of the objects code
    refinement (Obj/CodeRefine.v).  Requires only the generated file and the
    model. *)
From Coq Require Import List NArith ZArith Bool.
From Verif Require Import Lib.Bytes Lib.Path Lib.GoLib Obj.Base Gen.CodeObj.
Import ListNotations.
Local Open Scope N_scope.

Definition set_nth (i : nat) (c : N) (l : list N) : list N := firstn i l ++ c :: skipn (S i) l.

(** 64 letters with one character replaced by the neighbours of the two
    ranges, an upper-case letter, NUL, a UTF-8 lead byte, a continuation byte
    and 0xFF, at the first, a middle and the last position; lengths 0, 63, 65;
    digits only; a 64-byte string holding a two-byte rune. *)
Definition cands_isValidKey : list (list N) :=
  let base := repeat 97 64 in
  [base; repeat 48 64; repeat 122 64; repeat 57 64; []; repeat 97 63; repeat 97 65; repeat 97 62 ++ [195; 169];
   repeat 97 61 ++ [226; 130; 172]; repeat 97 128]
  ++ flat_map (fun i => map (fun c => set_nth i c base) [96; 123; 47; 58; 65; 90; 0; 195; 169; 128; 255; 32])
       [0; 31; 63]%nat.

Definition cex_isValidKey :=
  cex_search Bool.eqb gen_objects_isValidKey (valid_key std_key_len std_key_ranges) cands_isValidKey.
