(** C18 — correspondence evaluators: run the models on what the harness fed
    to the implementation and compare with what it observed.  The models are
    instantiated with the skeletons, key syntax and copy flags regenerated
    from /repo (Gen/ObjSkel.v), and with SHA-256 given as a table computed
    by Go for exactly the byte strings the model hashes. *)
From Coq Require Import List NArith ZArith Bool String.
From Verif Require Import Lib.Bytes Obj.Base Obj.CheckReader Obj.Store Obj.Mem Gen.ObjSkel.
Import ListNotations.
Local Open Scope N_scope.

Fixpoint repN (b : N) (n : nat) : bytes :=
  match n with O => [] | S n' => b :: repN b n' end.
Definition rep (b n : N) : bytes := repN b (N.to_nat n).

(** Text of a key / hex text of a byte string, as written in the case files. *)
Fixpoint kx (s : string) : list N :=
  match s with
  | EmptyString => []
  | String a r => N.of_nat (Ascii.nat_of_ascii a) :: kx r
  end.

Definition hx (s : string) : bytes :=
  match hex_decode (kx s) with Some b => b | None => [] end.

(** SHA-256 as a finite table (content, 32-byte digest). *)
Definition dtab := list (bytes * bytes).

Fixpoint Dtab (tab : dtab) (c : bytes) : bytes :=
  match tab with
  | [] => []
  | (x, d) :: r => if bytes_eqb c x then d else Dtab r c
  end.

(** ** Observations *)

Inductive fobs :=
| FoKey (k : key)
| FoErrIn (e : N)          (* the input reader's own error came back *)
| FoErrOs                  (* an error of the file system *)
| FoPanic
| FoErrOther
| FoFound (c : bytes)
| FoNotFound
| FoBool (b : bool)
| FoUnit.

Definition fobs_eqb (a b : fobs) : bool :=
  match a, b with
  | FoKey x, FoKey y => bytes_eqb x y
  | FoErrIn x, FoErrIn y => x =? y
  | FoErrOs, FoErrOs | FoPanic, FoPanic | FoErrOther, FoErrOther
  | FoNotFound, FoNotFound | FoUnit, FoUnit => true
  | FoFound x, FoFound y => bytes_eqb x y
  | FoBool x, FoBool y => Bool.eqb x y
  | _, _ => false
  end.

Fixpoint all2 {A B} (f : A -> B -> bool) (a : list A) (b : list B) : bool :=
  match a, b with
  | [], [] => true
  | x :: a', y :: b' => f x y && all2 f a' b'
  | _, _ => false
  end.

Definition mem_key (k : key) (l : list key) : bool := existsb (bytes_eqb k) l.

Definition keyset_eqb (a b : list key) : bool :=
  (List.length a =? List.length b)%nat && forallb (fun k => mem_key k b) a && forallb (fun k => mem_key k a) b.

Fixpoint remove_first (c : bytes) (l : list bytes) : option (list bytes) :=
  match l with
  | [] => None
  | x :: r => if bytes_eqb c x then Some r
              else match remove_first c r with Some r' => Some (x :: r') | None => None end
  end.

Fixpoint multiset_eqb (a b : list bytes) : bool :=
  match a with
  | [] => match b with [] => true | _ => false end
  | x :: a' => match remove_first x b with Some b' => multiset_eqb a' b' | None => false end
  end.

(** ** fs store, sequential histories *)

Section WithTab.
Variable tab : dtab.

Notation step := (tstep (Dtab tab) true gen_fs_commit gen_key_len gen_key_ranges).

Definition fault_here (faultat : option sk) (t : thr) : bool :=
  match faultat, cont t with
  | Some x, y :: _ => sk_eqb x y
  | _, _ => false
  end.

Fixpoint run_thread_f (faultat : option sk) (fuel : nat) (st : fsst) (tid : nat) (t : thr)
  : fsst * thr :=
  match fuel with
  | O => (st, t)
  | S f =>
      match step (fault_here faultat t) st tid t with
      | Some (st', t') => run_thread_f faultat f st' tid t'
      | None => (st, t)
      end
  end.

Definition obs_of_res (r : option cres) : fobs :=
  match r with
  | Some (ROk k) => FoKey k
  | Some (RErr (EInput e)) => FoErrIn e
  | Some (RErr _) => FoErrOs
  | Some RPanic => FoPanic
  | None => FoErrOther
  end.

Inductive fop :=
| FCreate (s : script)
| FCreateFault (s : script) (at_stmt : sk)
| FOpen (k : key)
| FHas (k : key).

Definition fs_do (st : fsst) (op : fop) : fsst * fobs :=
  match op with
  | FCreate s =>
      let '(st', t') := run_thread_f None (create_fuel s) st 0%nat (new_thr gen_fs_create s) in
      (st', obs_of_res (res t'))
  | FCreateFault s x =>
      let '(st', t') := run_thread_f (Some x) (create_fuel s) st 0%nat (new_thr gen_fs_create s) in
      (st', obs_of_res (res t'))
  | FOpen k =>
      (st, match fs_open gen_key_len gen_key_ranges st k with
           | OFound c => FoFound c | ONotFound => FoNotFound end)
  | FHas k => (st, FoBool (fs_has gen_key_len gen_key_ranges st k))
  end.

Fixpoint fs_hist (st : fsst) (ops : list fop) : fsst * list fobs :=
  match ops with
  | [] => (st, [])
  | op :: r =>
      let '(st1, x) := fs_do st op in
      let '(st2, xs) := fs_hist st1 r in (st2, x :: xs)
  end.

Definition check_fs_hist (ops : list fop) (obs : list fobs) (keys : list key) (ntmp : N) : bool :=
  let '(st, xs) := fs_hist (mkFs [] [] None) ops in
  all2 fobs_eqb xs obs &&
  keyset_eqb (map fst (objs st)) keys &&
  (N.of_nat (List.length (tmp st)) =? ntmp) &&
  match lock st with None => true | Some _ => false end.

(** ** fs store, forced interleavings

    The harness holds every input reader at each [Read] call and releases
    one call at a time, following the schedule.  A schedule entry for a
    thread not yet started starts it (it runs up to its first [Read]); an
    entry for a thread waiting in [Read] lets that call return (the thread
    then runs on until its next [Read], or to the end of [Create]). *)

(** [excl = false]: the threads work through several store objects on the same
    directory, so that Lock excludes nobody *)
Notation sstep excl := (sys_step (Dtab tab) excl gen_fs_commit gen_key_len gen_key_ranges).

Definition head_is_tee (t : thr) : bool :=
  match cont t with SkTeeHash :: _ => true | _ => false end.
Definition thr_done (t : thr) : bool :=
  match cont t with [] => true | _ => false end.

Fixpoint settle (excl : bool) (fuel : nat) (s : sys) (tid : nat) : sys :=
  match fuel with
  | O => s
  | S f =>
      match nth_error (sthr s) tid with
      | Some t => if head_is_tee t || thr_done t then s
                  else settle excl f (sstep excl s (tid, false)) tid
      | None => s
      end
  end.

Definition advance (excl : bool) (s : sys) (tid : nat) : sys :=
  match nth_error (sthr s) tid with
  | Some t => settle excl 24 (if head_is_tee t then sstep excl s (tid, false) else s) tid
  | None => s
  end.

Definition snap := (list key * list bytes * list (key * fobs))%type.

Definition check_snap (s : sys) (sn : snap) : bool :=
  let '(keys, tmps, probes) := sn in
  keyset_eqb (map fst (objs (sfs s))) keys &&
  multiset_eqb (map snd (tmp (sfs s))) tmps &&
  forallb (fun p =>
     fobs_eqb (match fs_open gen_key_len gen_key_ranges (sfs s) (fst p) with
               | OFound c => FoFound c | ONotFound => FoNotFound end) (snd p)) probes.

Fixpoint check_sched_steps (excl : bool) (s : sys) (steps : list (nat * snap)) : bool * sys :=
  match steps with
  | [] => (true, s)
  | (tid, sn) :: r =>
      let s' := advance excl s tid in
      if check_snap s' sn then check_sched_steps excl s' r else (false, s')
  end.

Definition check_sched (two : bool) (scripts : list script) (steps : list (nat * snap)) (results : list fobs) : bool :=
  let '(ok, s) := check_sched_steps (negb two) (init_sys gen_fs_create [] scripts) steps in
  ok && all2 fobs_eqb (map (fun t => obs_of_res (res t)) (sthr s)) results.

(** ** fs store, free-running goroutines: results and final directory are
    those of running the calls one after the other (StoreProofs:
    provenance + stability make the final key set schedule-independent);
    every concurrent Open must have returned not-found or bytes that hash to
    the key asked for. *)

Fixpoint seq_all (st : fsst) (tid : nat) (scripts : list script) : fsst * list fobs :=
  match scripts with
  | [] => (st, [])
  | s :: r =>
      let '(st1, t1) := run_thread_f None (create_fuel s) st tid (new_thr gen_fs_create s) in
      let '(st2, xs) := seq_all st1 (S tid) r in
      (st2, obs_of_res (res t1) :: xs)
  end.

Definition check_free (scripts : list script) (results : list fobs) (keys : list key) (ntmp : N)
           (opens : list (key * fobs)) : bool :=
  let '(st, xs) := seq_all (mkFs [] [] None) 0 scripts in
  all2 fobs_eqb xs results &&
  keyset_eqb (map fst (objs st)) keys &&
  (ntmp =? 0) &&
  forallb (fun p =>
     match snd p with
     | FoNotFound => true
     | FoFound c => bytes_eqb (hex_encode (Dtab tab c)) (fst p) && mem_key (fst p) (map fst (objs st))
     | _ => false
     end) opens.

(** ** mem / mapped stores: histories over client-held slices.  The harness
    names slices by the order in which the client obtained them. *)

Inductive hop :=
| HAlloc (bs : bytes)
| HMutate (h : nat) (bs : bytes)
| HPut (h : nat)
| HCreate (s : script)
| HGet (k : key)
| HOpen (k : key)
| HHas (k : key)
| HpCreate (s : script)
| HpOpen (k : key)
| HpHas (k : key)
(** the mapped store over a user-supplied Store that misbehaves for this call *)
| HuCreate (s : script) (sh : ushape)
| HuOpen (k : key) (sh : ushape)
| HuHas (k : key) (sh : ushape).

Notation mstep := (mem_step (Dtab tab) gen_mem_put_copies gen_mem_get_copies).
Notation ustep := (mem_ustep (Dtab tab) gen_mem_put_copies gen_mem_get_copies).

Definition obs_of_mres (r : mres) : fobs :=
  match r with
  | MRKey k => FoKey k
  | MRErr e => FoErrIn e
  | MRSlice _ c => FoFound c
  | MRBytes c => FoFound c
  | MRNotFound => FoNotFound
  | MRBool b => FoBool b
  | MRBad => FoErrOther
  end.

Definition mem_do (st : memst) (hs : list nat) (op : hop) : memst * list nat * fobs :=
  match op with
  | HAlloc bs =>
      match mstep st (MAlloc bs) with
      | (st', MRSlice id _) => (st', hs ++ [id], FoUnit)
      | (st', _) => (st', hs, FoErrOther)
      end
  | HMutate h bs =>
      match nth_error hs h with
      | Some id => match mstep st (MMutate id bs) with
                   | (st', MRSlice _ _) => (st', hs, FoUnit)
                   | (st', _) => (st', hs, FoErrOther)
                   end
      | None => (st, hs, FoErrOther)
      end
  | HPut h =>
      match nth_error hs h with
      | Some id => let '(st', r) := mstep st (MPut id) in (st', hs, obs_of_mres r)
      | None => (st, hs, FoErrOther)
      end
  | HCreate s => let '(st', r) := mstep st (MCreate s) in (st', hs, obs_of_mres r)
  | HGet k =>
      match mstep st (MGet k) with
      | (st', MRSlice id c) => (st', hs ++ [id], FoFound c)
      | (st', r) => (st', hs, obs_of_mres r)
      end
  | HOpen k => let '(st', r) := mstep st (MOpen k) in (st', hs, obs_of_mres r)
  | HHas k => let '(st', r) := mstep st (MHas k) in (st', hs, obs_of_mres r)
  | HpCreate s => let '(st', r) := mstep st (MpCreate s) in (st', hs, obs_of_mres r)
  | HpOpen k => let '(st', r) := mstep st (MpOpen k) in (st', hs, obs_of_mres r)
  | HpHas k => let '(st', r) := mstep st (MpHas k) in (st', hs, obs_of_mres r)
  | HuCreate s sh => let '(st', r) := ustep st sh (MpCreate s) in (st', hs, obs_of_mres r)
  | HuOpen k sh => let '(st', r) := ustep st sh (MpOpen k) in (st', hs, obs_of_mres r)
  | HuHas k sh => let '(st', r) := ustep st sh (MpHas k) in (st', hs, obs_of_mres r)
  end.

Fixpoint mem_hist (st : memst) (hs : list nat) (ops : list hop) : list fobs :=
  match ops with
  | [] => []
  | op :: r => let '(st', hs', x) := mem_do st hs op in x :: mem_hist st' hs' r
  end.

Definition check_mem_hist (ops : list hop) (obs : list fobs) : bool :=
  all2 fobs_eqb (mem_hist mem_empty [] ops) obs.

(** ** hashutil.Hash / HashStr / HashFile (of a file holding [c]) and
    HashReader over a script: the hex of the digest of everything delivered,
    or the reader's own error. *)

Inductive xop := XBytes (c : bytes) | XReader (s : script) | XOsErr.

Definition hash_obs (op : xop) : fobs :=
  match op with
  | XBytes c => FoKey (hex_encode (Dtab tab c))
  | XReader s =>
      match drain s with
      | (c, REof) => FoKey (hex_encode (Dtab tab c))
      | (_, RFail e) => FoErrIn e
      | (_, RNil) => FoErrOther
      end
  | XOsErr => FoErrOs
  end.

Definition check_hash (ops : list xop) (obs : list fobs) : bool :=
  all2 fobs_eqb (map hash_obs ops) obs.

(** ** CheckReader *)

Definition cstat_code (c : cstat) : N :=
  match c with
  | CNil => 0 | CEof => 1 | CBadLen => 2 | CBadHash => 3 | CFail e => 100 + e
  end.

Definition trace_eqb (a : list (bytes * cstat)) (b : list (bytes * N)) : bool :=
  all2 (fun x y => bytes_eqb (fst x) (fst y) && (cstat_code (snd x) =? snd y)) a b.

Definition check_cr (want : bytes) (n : Z) (s : script) (trace : list (bytes * N)) : bool :=
  trace_eqb (cr_trace (Dtab tab) (new_cr want n) s) trace.

Definition check_newcr (h : list N) (n : Z) (code : N) (s : script) (trace : list (bytes * N)) : bool :=
  match new_check_reader h n with
  | NewOk r => (code =? 0) && trace_eqb (cr_trace (Dtab tab) r s) trace
  | NewBadScheme => code =? 1
  | NewBadHex => code =? 2
  | NewBadSize => code =? 3
  end.

End WithTab.

Inductive ccase :=
| CFsHist (tab : dtab) (ops : list fop) (obs : list fobs) (keys : list key) (ntmp : N)
| CSched (tab : dtab) (two : bool) (scripts : list script) (steps : list (nat * snap)) (results : list fobs)
| CFree (tab : dtab) (scripts : list script) (results : list fobs) (keys : list key) (ntmp : N)
        (opens : list (key * fobs))
| CMemHist (tab : dtab) (ops : list hop) (obs : list fobs)
| CCr (tab : dtab) (want : bytes) (n : Z) (s : script) (trace : list (bytes * N))
| CNewCr (tab : dtab) (h : list N) (n : Z) (code : N) (s : script) (trace : list (bytes * N))
| CHash (tab : dtab) (ops : list xop) (obs : list fobs).

Definition check_case (c : ccase) : bool :=
  match c with
  | CFsHist tab ops obs keys ntmp => check_fs_hist tab ops obs keys ntmp
  | CSched tab two scripts steps results => check_sched tab two scripts steps results
  | CFree tab scripts results keys ntmp opens => check_free tab scripts results keys ntmp opens
  | CMemHist tab ops obs => check_mem_hist tab ops obs
  | CCr tab want n s trace => check_cr tab want n s trace
  | CNewCr tab h n code s trace => check_newcr tab h n code s trace
  | CHash tab ops obs => check_hash tab ops obs
  end.

Fixpoint mismatches_from (i : nat) (cs : list ccase) : list nat :=
  match cs with
  | [] => []
  | c :: r => if check_case c then mismatches_from (S i) r
              else i :: mismatches_from (S i) r
  end.

Definition mismatches (cs : list ccase) : list nat := mismatches_from 0 cs.
