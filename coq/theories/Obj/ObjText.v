(** C18 — reading correspondence cases from text.

    Elaborating literals is what dominates the cost of handing data to Coq
    (about 0.1 ms per character of a string literal or per element of a
    list of [N]); a literal of a primitive 63-bit integer costs about the
    same but can carry twelve characters of a 32-symbol alphabet.  So a
    shard of cases is written in a minimal S-expression syntax, packed into
    a list of primitive integers, and decoded by the Gallina functions below
    (under vm_compute).  Primitive integers are used here only; no theorem
    depends on them.

      number   decimal digits
      bytes    'x' followed by hex digits
      list     '(' items separated by blanks ')'

    A text that does not decode makes the whole evaluation return [None]. *)
From Coq Require Import List NArith ZArith Bool String Ascii Uint63.
From Verif Require Import Lib.Bytes Obj.Base Obj.CheckReader Obj.Store Obj.Mem Obj.ObjCorr.
Import ListNotations.
Local Open Scope N_scope.

Inductive sx := SNum (n : N) | SHex (b : bytes) | SList (l : list sx).

Inductive tok := TNone | TNum (n : N) | THex (racc : list N) (half : option N).

Record pst := mkPst { stack : list (list sx); cur : tok }.

Definition flush (st : pst) : option pst :=
  match cur st, stack st with
  | TNone, _ => Some st
  | TNum n, top :: rest => Some (mkPst ((SNum n :: top) :: rest) TNone)
  | THex racc None, top :: rest => Some (mkPst ((SHex (rev' racc) :: top) :: rest) TNone)
  | _, _ => None
  end.

Definition hexval (c : N) : option N :=
  if (48 <=? c) && (c <=? 57) then Some (c - 48)
  else if (97 <=? c) && (c <=? 102) then Some (c - 87)
  else None.

Definition feed (st : pst) (c : N) : option pst :=
  if (c =? 32) || (c =? 10) then flush st
  else if c =? 40 then                                   (* '(' *)
    match flush st with
    | Some st' => Some (mkPst ([] :: stack st') TNone)
    | None => None
    end
  else if c =? 41 then                                   (* ')' *)
    match flush st with
    | Some st' =>
        match stack st' with
        | top :: next :: rest => Some (mkPst ((SList (rev' top) :: next) :: rest) TNone)
        | _ => None
        end
    | None => None
    end
  else
    match cur st with
    | TNone =>
        if c =? 120 then Some (mkPst (stack st) (THex [] None))          (* 'x' *)
        else if (48 <=? c) && (c <=? 57) then Some (mkPst (stack st) (TNum (c - 48)))
        else None
    | TNum n =>
        if (48 <=? c) && (c <=? 57) then Some (mkPst (stack st) (TNum (10 * n + (c - 48))))
        else None
    | THex racc half =>
        match hexval c, half with
        | Some v, None => Some (mkPst (stack st) (THex racc (Some v)))
        | Some v, Some h => Some (mkPst (stack st) (THex (16 * h + v :: racc) None))
        | None, _ => None
        end
    end.

Fixpoint parse_go (s : string) (st : pst) : option pst :=
  match s with
  | EmptyString => flush st
  | String a r =>
      match feed st (N_of_ascii a) with
      | Some st' => parse_go r st'
      | None => None
      end
  end.

(** the items of the text, as one list *)
Definition parse_sx (s : string) : option (list sx) :=
  match parse_go s (mkPst [[]] TNone) with
  | Some (mkPst [top] TNone) => Some (rev' top)
  | _ => None
  end.

(** ** Decoders *)

Notation "x <- e ;; f" := (match e with Some x => f | None => None end)
  (at level 61, e at next level, right associativity).

Fixpoint map_opt {A B} (f : A -> option B) (l : list A) : option (list B) :=
  match l with
  | [] => Some []
  | a :: r => b <- f a ;; bs <- map_opt f r ;; Some (b :: bs)
  end.

Definition d_num (x : sx) : option N := match x with SNum n => Some n | _ => None end.
Definition d_nat (x : sx) : option nat := match x with SNum n => Some (N.to_nat n) | _ => None end.
Definition d_list (x : sx) : option (list sx) := match x with SList l => Some l | _ => None end.

(** generated streams shared with the harness: byte i of stream [seed] is
    (b0 + i * step) mod 256 with b0 = seed mod 256 and step = the next eight
    bits of the seed, made odd.  (Cheap to evaluate; the stores and the
    reader never look inside the bytes.) *)
Definition gen_b0 (seed : N) : N := N.land seed 255.
Definition gen_step (seed : N) : N := N.lor (N.land (N.shiftr seed 8) 255) 1.

Fixpoint gen_run (b step : N) (n : nat) : bytes :=
  match n with
  | O => []
  | S n' => b :: gen_run (let y := b + step in if y <? 256 then y else y - 256) step n'
  end.

Definition gen_from (seed off : N) (n : nat) : bytes :=
  gen_run (N.land (gen_b0 seed + N.land off 255 * gen_step seed) 255) (gen_step seed) n.

Definition d_seg (x : sx) : option bytes :=
  match x with
  | SHex b => Some b
  | SList [SNum 0; SNum b; SNum n] => Some (rep b n)
  | SList [SNum 1; SNum seed; SNum off; SNum n] => Some (gen_from seed off (N.to_nat n))
  | _ => None
  end.

Definition d_bytes (x : sx) : option bytes :=
  l <- d_list x ;; segs <- map_opt d_seg l ;; Some (List.concat segs).

Definition d_stat (st e : N) : option rstat :=
  match st with
  | 0 => Some RNil
  | 1 => Some REof
  | 2 => Some (RFail e)
  | _ => None
  end.

(** a script: (content d1 d2 ...) where d is the number of bytes a call
    returned (status nil), or (n st e); the calls must use up the content *)
Definition take (k : nat) (content : bytes) : option (bytes * bytes) :=
  let c := firstn k content in
  if (List.length c =? k)%nat then Some (c, skipn k content) else None.

Fixpoint split_chunks (content : bytes) (descs : list sx) : option script :=
  match descs with
  | [] => match content with [] => Some [] | _ => None end
  | d :: r =>
      match d with
      | SNum n =>
          cr <- take (N.to_nat n) content ;;
          rest <- split_chunks (snd cr) r ;; Some ((fst cr, RNil) :: rest)
      | SList [SNum n; SNum st; SNum e] =>
          cr <- take (N.to_nat n) content ;; s <- d_stat st e ;;
          rest <- split_chunks (snd cr) r ;; Some ((fst cr, s) :: rest)
      | _ => None
      end
  end.

Definition d_script (x : sx) : option script :=
  match x with
  | SList [] => Some []
  | SList (b :: descs) => content <- d_bytes b ;; split_chunks content descs
  | _ => None
  end.

Definition d_tab (x : sx) : option dtab :=
  l <- d_list x ;;
  map_opt (fun e => match e with
                    | SList [c; SHex d] => cb <- d_bytes c ;; Some (cb, d)
                    | _ => None
                    end) l.

(** a key: its text as bytes, or the key of the i-th row of the digest table *)
Definition d_key (tab : dtab) (x : sx) : option key :=
  match x with
  | SHex b => Some b
  | SList [SNum i] =>
      match nth_error tab (N.to_nat i) with
      | Some (_, d) => Some (hex_encode d)
      | None => None
      end
  | _ => None
  end.

Definition d_obs (tab : dtab) (x : sx) : option fobs :=
  match x with
  | SList [SNum 0; k] => kk <- d_key tab k ;; Some (FoKey kk)
  | SList [SNum 1; SNum e] => Some (FoErrIn e)
  | SList [SNum 2] => Some FoErrOs
  | SList [SNum 3] => Some FoPanic
  | SList [SNum 4] => Some FoErrOther
  | SList [SNum 5; b] => c <- d_bytes b ;; Some (FoFound c)
  | SList [SNum 6] => Some FoNotFound
  | SList [SNum 7; SNum b] => Some (FoBool (negb (b =? 0)))
  | SList [SNum 8] => Some FoUnit
  | _ => None
  end.

Definition d_fop (tab : dtab) (x : sx) : option fop :=
  match x with
  | SList [SNum 0; s] => sc <- d_script s ;; Some (FCreate sc)
  | SList [SNum 1; s; SNum f] =>
      sc <- d_script s ;;
      Some (FCreateFault sc (if f =? 0 then SkCreateTemp else if f =? 1 then CkRemoveOrRename else SkTeeHash))
  | SList [SNum 2; k] => kk <- d_key tab k ;; Some (FOpen kk)
  | SList [SNum 3; k] => kk <- d_key tab k ;; Some (FHas kk)
  | _ => None
  end.

Definition d_ushape (sh e : N) : ushape :=
  if sh =? 0 then UPlain else if sh =? 1 then UErr e else UBoth e.

Definition d_hop (tab : dtab) (x : sx) : option hop :=
  match x with
  | SList [SNum 0; b] => c <- d_bytes b ;; Some (HAlloc c)
  | SList [SNum 1; h; b] => hh <- d_nat h ;; c <- d_bytes b ;; Some (HMutate hh c)
  | SList [SNum 2; h] => hh <- d_nat h ;; Some (HPut hh)
  | SList [SNum 3; s] => sc <- d_script s ;; Some (HCreate sc)
  | SList [SNum 4; k] => kk <- d_key tab k ;; Some (HGet kk)
  | SList [SNum 5; k] => kk <- d_key tab k ;; Some (HOpen kk)
  | SList [SNum 6; k] => kk <- d_key tab k ;; Some (HHas kk)
  | SList [SNum 7; s] => sc <- d_script s ;; Some (HpCreate sc)
  | SList [SNum 8; k] => kk <- d_key tab k ;; Some (HpOpen kk)
  | SList [SNum 9; k] => kk <- d_key tab k ;; Some (HpHas kk)
  | SList [SNum 10; s; SNum sh; SNum e] => sc <- d_script s ;; Some (HuCreate sc (d_ushape sh e))
  | SList [SNum 11; k; SNum sh; SNum e] => kk <- d_key tab k ;; Some (HuOpen kk (d_ushape sh e))
  | SList [SNum 12; k; SNum sh; SNum e] => kk <- d_key tab k ;; Some (HuHas kk (d_ushape sh e))
  | _ => None
  end.

Definition d_xop (x : sx) : option xop :=
  match x with
  | SList [SNum 0; b] => c <- d_bytes b ;; Some (XBytes c)
  | SList [SNum 2; s] => sc <- d_script s ;; Some (XReader sc)
  | SList [SNum 4] => Some XOsErr
  | _ => None
  end.

Definition d_listof {A} (f : sx -> option A) (x : sx) : option (list A) :=
  l <- d_list x ;; map_opt f l.

Definition d_probe (tab : dtab) (x : sx) : option (key * fobs) :=
  match x with
  | SList [k; o] => kk <- d_key tab k ;; oo <- d_obs tab o ;; Some (kk, oo)
  | _ => None
  end.

Definition d_step (tab : dtab) (x : sx) : option (nat * snap) :=
  match x with
  | SList [t; ks; tmps; probes] =>
      tt <- d_nat t ;; kk <- d_listof (d_key tab) ks ;; tm <- d_listof d_bytes tmps ;;
      pp <- d_listof (d_probe tab) probes ;; Some (tt, (kk, tm, pp))
  | _ => None
  end.

(** a trace: (content t1 t2 ...), t = n (code 0) or (n code) *)
Fixpoint split_trace (content : bytes) (descs : list sx) : option (list (bytes * N)) :=
  match descs with
  | [] => match content with [] => Some [] | _ => None end
  | d :: r =>
      match d with
      | SNum n =>
          cr <- take (N.to_nat n) content ;;
          rest <- split_trace (snd cr) r ;; Some ((fst cr, 0) :: rest)
      | SList [SNum n; SNum c] =>
          cr <- take (N.to_nat n) content ;;
          rest <- split_trace (snd cr) r ;; Some ((fst cr, c) :: rest)
      | _ => None
      end
  end.

Definition d_trace (x : sx) : option (list (bytes * N)) :=
  match x with
  | SList [] => Some []
  | SList (b :: descs) => content <- d_bytes b ;; split_trace content descs
  | _ => None
  end.

Definition d_Z (sign abs : N) : Z := if sign =? 0 then Z.of_N abs else (- Z.of_N abs)%Z.

Definition d_case (x : sx) : option ccase :=
  match x with
  | SList [SNum 0; t; ops; obs; keys; SNum ntmp] =>
      tab <- d_tab t ;; oo <- d_listof (d_fop tab) ops ;; bb <- d_listof (d_obs tab) obs ;;
      kk <- d_listof (d_key tab) keys ;; Some (CFsHist tab oo bb kk ntmp)
  | SList [SNum 1; t; scripts; steps; results; SNum two] =>
      tab <- d_tab t ;; ss <- d_listof d_script scripts ;; st <- d_listof (d_step tab) steps ;;
      rr <- d_listof (d_obs tab) results ;; Some (CSched tab (negb (two =? 0)) ss st rr)
  | SList [SNum 2; t; scripts; results; keys; SNum ntmp; opens] =>
      tab <- d_tab t ;; ss <- d_listof d_script scripts ;; rr <- d_listof (d_obs tab) results ;;
      kk <- d_listof (d_key tab) keys ;; pp <- d_listof (d_probe tab) opens ;;
      Some (CFree tab ss rr kk ntmp pp)
  | SList [SNum 3; t; ops; obs] =>
      tab <- d_tab t ;; oo <- d_listof (d_hop tab) ops ;; bb <- d_listof (d_obs tab) obs ;;
      Some (CMemHist tab oo bb)
  | SList [SNum 4; t; SHex want; SNum sg; SNum ab; s; tr] =>
      tab <- d_tab t ;; sc <- d_script s ;; tt <- d_trace tr ;;
      Some (CCr tab want (d_Z sg ab) sc tt)
  | SList [SNum 5; t; SHex h; SNum sg; SNum ab; SNum code; s; tr] =>
      tab <- d_tab t ;; sc <- d_script s ;; tt <- d_trace tr ;;
      Some (CNewCr tab h (d_Z sg ab) code sc tt)
  | SList [SNum 6; t; ops; obs] =>
      tab <- d_tab t ;; oo <- d_listof d_xop ops ;; bb <- d_listof (d_obs tab) obs ;;
      Some (CHash tab oo bb)
  | _ => None
  end.

Definition parse_cases (s : string) : option (list ccase) :=
  l <- parse_sx s ;; map_opt d_case l.

(** ** Packed text: twelve 5-bit symbols per integer, least significant
    first; symbols 0-15 are the hex digits, 16 'x', 17 '(', 18 ')', 19 ' ',
    31 padding (ends the integer). *)

(** character code of a symbol; [None] for the padding symbol ([Uint63.to_Z]
    walks all 63 bits, so the small table is spelled out) *)
Definition sym_char (s : int) : option N :=
  if (s =? 0)%uint63 then Some 48 else
  if (s =? 1)%uint63 then Some 49 else
  if (s =? 2)%uint63 then Some 50 else
  if (s =? 3)%uint63 then Some 51 else
  if (s =? 4)%uint63 then Some 52 else
  if (s =? 5)%uint63 then Some 53 else
  if (s =? 6)%uint63 then Some 54 else
  if (s =? 7)%uint63 then Some 55 else
  if (s =? 8)%uint63 then Some 56 else
  if (s =? 9)%uint63 then Some 57 else
  if (s =? 10)%uint63 then Some 97 else
  if (s =? 11)%uint63 then Some 98 else
  if (s =? 12)%uint63 then Some 99 else
  if (s =? 13)%uint63 then Some 100 else
  if (s =? 14)%uint63 then Some 101 else
  if (s =? 15)%uint63 then Some 102 else
  if (s =? 16)%uint63 then Some 120 else
  if (s =? 17)%uint63 then Some 40 else
  if (s =? 18)%uint63 then Some 41 else
  if (s =? 19)%uint63 then Some 32 else
  None.

Fixpoint feed_syms (k : nat) (x : int) (st : pst) : option pst :=
  match k with
  | O => Some st
  | S k' =>
      match sym_char (Uint63.land x 31) with
      | None => Some st
      | Some c =>
          match feed st c with
          | Some st' => feed_syms k' (Uint63.lsr x 5) st'
          | None => None
          end
      end
  end.

Fixpoint parse_ints (l : list int) (st : pst) : option pst :=
  match l with
  | [] => flush st
  | x :: r =>
      match feed_syms 12 x st with
      | Some st' => parse_ints r st'
      | None => None
      end
  end.

Definition parse_cases_ints (l : list int) : option (list ccase) :=
  match parse_ints l (mkPst [[]] TNone) with
  | Some (mkPst [top] TNone) => map_opt d_case (rev' top)
  | _ => None
  end.

(** Number of cases decoded, and the indices of those on which model and
    implementation disagree; [None] if the text does not decode. *)
Definition mismatches_ints (l : list int) : option (nat * list nat) :=
  cs <- parse_cases_ints l ;; Some (List.length cs, mismatches cs).

Definition mismatches_text (t : string) : option (list nat) :=
  cs <- parse_cases t ;; Some (mismatches cs).

Example parse_demo :
  parse_sx "(1 x0aff (0 7 3) ()) 12" =
  Some [SList [SNum 1; SHex [10; 255]; SList [SNum 0; SNum 7; SNum 3]; SList []]; SNum 12].
Proof. vm_compute. auto. Qed.

Example gen_demo : gen_from 773 2 4 = [11; 14; 17; 20] /\ gen_from 65535 255 3 = [0; 255; 254].
Proof. vm_compute. auto. Qed.
