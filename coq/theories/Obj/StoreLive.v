(** C18 — progress of the file-system store: every step of a [Create] call
    uses up a bounded budget, from every reachable state all calls can be
    driven to completion, and without failing system calls a call whose
    input ends cleanly returns its key. *)
From Coq Require Import List NArith ZArith Bool Lia.
From Verif Require Import Lib.Bytes Obj.Base Obj.Store Obj.StoreProofs.
Import ListNotations.

Section Live.
Variable D : bytes -> bytes.

Notation HK := (Hk D).
Notation vkey := (valid_key std_key_len std_key_ranges).
Notation step := (tstep D true fs_commit_skel std_key_len std_key_ranges).
Notation sstep := (sys_step D true fs_commit_skel std_key_len std_key_ranges).
Notation runs objs0 inputs sched :=
  (run D true fs_commit_skel std_key_len std_key_ranges (init_sys fs_create_skel objs0 inputs) sched).

(** ** A budget that every step uses up *)

Ltac fin := intros HS; first [discriminate HS | injection HS as <- <-; cbn; lia].

Definition sk_weight (s : sk) : nat := match s with SkCommit => 6 | _ => 1 end.

Definition mu (t : thr) : nat := length (inp t) + list_sum (map sk_weight (cont t)).

Lemma step_decreases fault st tid t st' t' :
  step fault st tid t = Some (st', t') -> mu t' < mu t.
Proof.
  unfold tstep, mu. destruct t as [c f ar ud i a k h r cm]. cbn [cont tf armed udefer inp acc tk thas res committed].
  destruct c as [|s rest]; [discriminate|].
  destruct s; cbn [map list_sum sk_weight]; unfold finish, set_cont;
    cbn [cont tf armed udefer inp acc tk thas res committed].
  all: intros HS;
    repeat match type of HS with
           | context [match ?x with _ => _ end] => destruct x
           end;
    first [discriminate HS | injection HS as <- <-; cbn; lia].
Qed.

Definition work (s : sys) : nat := list_sum (map mu (sthr s)).

Lemma list_sum_upd (l : list thr) n t t' :
  nth_error l n = Some t -> mu t' < mu t ->
  list_sum (map mu (upd_nth n t' l)) < list_sum (map mu l).
Proof.
  revert n; induction l as [|x l IH]; intros [|n]; cbn [nth_error upd_nth map list_sum fold_right]; try discriminate.
  - intros [= ->] H. lia.
  - intros Hn H. specialize (IH n Hn H). unfold list_sum in *. lia.
Qed.

(** A schedule entry either does nothing or uses up budget. *)
Lemma sys_step_work s e : sstep s e = s \/ work (sstep s e) < work s.
Proof.
  destruct e as [tid fault]. unfold sys_step. cbn [fst snd].
  destruct (nth_error (sthr s) tid) as [t|] eqn:Et; [|now left].
  destruct (step fault (sfs s) tid t) as [[st' t']|] eqn:Es; [|now left].
  right. unfold work. cbn [sthr]. eapply list_sum_upd; eauto. eapply step_decreases; eauto.
Qed.

Lemma init_work objs0 inputs :
  work (init_sys fs_create_skel objs0 inputs) = list_sum (map (fun s => length s + 13) inputs).
Proof.
  unfold work, init_sys. cbn [sthr]. rewrite map_map.
  f_equal. all: try (apply map_ext; intros s; unfold mu, new_thr; cbn; lia).
Qed.

(** The budget never grows: at most [sum (|script| + 13)] effective steps in
    any schedule whatsoever. *)
Theorem fs_work_bounded objs0 inputs sched :
  work (runs objs0 inputs sched) <= list_sum (map (fun s => length s + 13) inputs).
Proof.
  rewrite <- (init_work objs0 inputs). unfold run.
  generalize (init_sys fs_create_skel objs0 inputs) as s.
  induction sched as [|e r IH]; intros s; [cbn; lia|].
  cbn [fold_left]. specialize (IH (sstep s e)).
  destruct (sys_step_work s e) as [E|E]; [rewrite E in *; exact IH|lia].
Qed.

(** ** From every reachable state, all calls can complete *)

Definition all_doneb (s : sys) : bool :=
  forallb (fun t => match res t with Some _ => true | None => false end) (sthr s).

Lemma all_doneb_spec s : all_doneb s = true <-> all_done s.
Proof.
  unfold all_doneb, all_done. rewrite forallb_forall. split; intros H t Ht; specialize (H t Ht).
  - destruct (res t); [discriminate|discriminate].
  - destruct (res t); [reflexivity|congruence].
Qed.

Lemma run_app s a b :
  run D true fs_commit_skel std_key_len std_key_ranges s (a ++ b) =
  run D true fs_commit_skel std_key_len std_key_ranges
      (run D true fs_commit_skel std_key_len std_key_ranges s a) b.
Proof. unfold run. apply fold_left_app. Qed.

Theorem fs_can_always_finish : forall objs0 inputs sched,
  wf_objs D objs0 ->
  exists more, all_done (runs objs0 inputs (sched ++ more)).
Proof.
  intros objs0 inputs sched Hwf.
  remember (work (runs objs0 inputs sched)) as n eqn:En.
  revert sched En. induction n as [n IH] using lt_wf_ind. intros sched En.
  destruct (all_doneb (runs objs0 inputs sched)) eqn:Ed.
  - exists []. rewrite app_nil_r. now apply all_doneb_spec.
  - assert (Hnd : ~ all_done (runs objs0 inputs sched)).
    { intros H. apply all_doneb_spec in H. congruence. }
    destruct (fs_no_deadlock D objs0 inputs sched Hwf Hnd) as (tid & t & Ht & Hs).
    set (s := runs objs0 inputs sched) in *.
    assert (Hdec : work (sstep s (tid, false)) < work s).
    { unfold sys_step. cbn [fst snd]. rewrite Ht.
      destruct (step false (sfs s) tid t) as [[st' t']|] eqn:Es; [|congruence].
      unfold work. cbn [sthr]. eapply list_sum_upd; eauto. eapply step_decreases; eauto. }
    assert (Er : runs objs0 inputs (sched ++ [(tid, false)]) = sstep s (tid, false)).
    { rewrite run_app. reflexivity. }
    destruct (IH (work (sstep s (tid, false))) ltac:(lia) (sched ++ [(tid, false)])) as [more Hm].
    { now rewrite Er. }
    exists ((tid, false) :: more). now rewrite <- app_assoc in Hm.
Qed.

(** ** Without failing system calls, the only errors are the input's own *)

Definition good_res (r : cres) : Prop :=
  match r with RErr e => exists x, e = EInput x | _ => True end.

Lemma step_nofault_res st tid s0 t st' t' r :
  linv D st tid s0 t -> step false st tid t = Some (st', t') ->
  res t' = Some r -> good_res r.
Proof.
  intros HL.
  destruct HL as [Htmp Hlock | Htmp Hlock | i a Htmp Hlock Hdr | c i a Hc Htmp Hlock Hdr
                 | i a Htmp Hlock Hdr | i a Htmp Hlock Hdr | i a Htmp Hlock Hdr
                 | i a b cm Htmp Hlock Hdr Hhas Hcm | i a b cm Htmp Hlock Hdr Hhas Hcm
                 | i a b cm Htmp Hlock Hdr Hhas Hcm | i a b cm Htmp Hlock Hdr Hhas Hcm
                 | f ar i a k h r0 Htmp Hlock Hnok Hpan Hinp];
    unfold tstep, finish, set_cont;
    cbn [cont tf armed udefer inp acc tk thas res committed fs_commit_skel app].
  - intros [= <- <-]. discriminate.
  - intros [= <- <-]. discriminate.
  - destruct i as [|[chunk stt] more]; [intros [= <- <-]; discriminate|].
    replace (match chunk with [] => false | _ :: _ => false end) with false by (destruct chunk; reflexivity).
    destruct stt; intros [= <- <-]; cbn [res]; try discriminate.
    intros [= <-]. cbn. eauto.
  - destruct Hc as [-> | [-> | [-> | ->]]].
    + intros [= <- <-]. discriminate.
    + destruct (vkey (HK a)); intros [= <- <-]; cbn [res]; try discriminate.
      intros [= <-]. exact I.
    + intros [= <- <-]. discriminate.
    + destruct (lock st); [discriminate|]. intros [= <- <-]. discriminate.
  - intros [= <- <-]. discriminate.
  - intros [= <- <-]. discriminate.
  - destruct (has_key (HK a) st).
    + intros [= <- <-]. discriminate.
    + rewrite Htmp. intros [= <- <-]. discriminate.
  - intros [= <- <-]. discriminate.
  - intros [= <- <-]. discriminate.
  - intros [= <- <-]. cbn [res]. intros [= <-]. exact I.
  - discriminate.
  - discriminate.
Qed.

Definition fault_free (sched : list (nat * bool)) : Prop := Forall (fun e => snd e = false) sched.

Lemma nofault_inv objs0 inputs sched :
  wf_objs D objs0 -> fault_free sched ->
  forall tid t r, nth_error (sthr (runs objs0 inputs sched)) tid = Some t ->
                  res t = Some r -> good_res r.
Proof.
  intros Hwf Hff. induction sched as [|e sched IH] using rev_ind.
  - intros tid t r Ht Hr. cbn in Ht. rewrite nth_error_map in Ht.
    destruct (nth_error inputs tid); [|discriminate]. injection Ht as <-. discriminate.
  - apply Forall_app in Hff. destruct Hff as [Hff He]. specialize (IH Hff).
    inversion He as [|? ? Hef _]; subst. destruct e as [j fault]. cbn in Hef. subst fault.
    rewrite run_app. cbn [run fold_left].
    pose proof (inv_run D objs0 inputs sched Hwf) as I.
    set (s := runs objs0 inputs sched) in *.
    unfold sys_step. cbn [fst snd].
    destruct (nth_error (sthr s) j) as [tj|] eqn:Ej; [|exact IH].
    destruct (step false (sfs s) j tj) as [[st' t']|] eqn:Es; [|exact IH].
    intros tid t r Ht Hr. cbn [sthr] in Ht.
    destruct (Nat.eq_dec tid j) as [->|Hne].
    + rewrite (nth_error_upd_same _ _ _ _ Ej) in Ht. injection Ht as <-.
      assert (Hlt : j < length (sthr s)) by (apply nth_error_Some; congruence).
      destruct (nth_error inputs j) as [s0|] eqn:Ei.
      2:{ apply nth_error_None in Ei. rewrite <- (inv_len _ _ _ _ I) in Ei. lia. }
      eapply step_nofault_res; eauto. eapply (inv_thr _ _ _ _ I); eauto.
    + rewrite nth_error_upd_other in Ht by auto. eauto.
Qed.

(** No spurious failure: in a schedule without failing system calls, a call
    that has returned and whose input ended cleanly with content [c] returned
    the key of [c] (given a hash that yields 32 bytes). *)
Theorem fs_clean_input_returns_key : forall objs0 inputs sched tid t s0 c r,
  (forall x, is_bytes (D x) /\ length (D x) = 32) ->
  wf_objs D objs0 -> fault_free sched ->
  nth_error (sthr (runs objs0 inputs sched)) tid = Some t ->
  nth_error inputs tid = Some s0 ->
  drain s0 = (c, REof) ->
  res t = Some r ->
  r = ROk (HK c) /\ lookup_key (HK c) (objs (sfs (runs objs0 inputs sched))) <> None.
Proof.
  intros objs0 inputs sched tid t s0 c r HD Hwf Hff Ht Hs Hd Hr.
  pose proof (nofault_inv objs0 inputs sched Hwf Hff tid t r Ht Hr) as Hg.
  pose proof (fs_create_result D _ _ _ _ _ _ _ Hwf Ht Hs Hr) as (_ & _ & Hm).
  destruct r as [k|e|].
  - destruct Hm as (H1 & H2 & c' & H3 & _). rewrite Hd in H1. injection H1 as E.
    rewrite <- E in H2. subst k. split; [reflexivity|]. congruence.
  - exfalso. destruct Hg as [x ->]. destruct Hm as (_ & Hm). specialize (Hm x eq_refl).
    rewrite Hd in Hm. discriminate.
  - exfalso. eapply (fs_no_panic D); eauto.
Qed.

(** ** The final directory does not depend on the schedule

    Once every call has returned, the keys present are exactly the initial
    ones and those returned by successful calls (this is what lets the
    harness compare a free-running execution with a sequential one). *)

Lemma In_lookup_key {A} k (a : A) l : In (k, a) l -> lookup_key k l <> None.
Proof.
  induction l as [|[k' a'] r IH]; [intros []|].
  intros [E|Hin]; cbn.
  - injection E as -> ->. now rewrite bytes_eqb_refl.
  - destruct (bytes_eqb k k'); [discriminate|auto].
Qed.

Theorem fs_final_keys : forall objs0 inputs sched k,
  wf_objs D objs0 ->
  all_done (runs objs0 inputs sched) ->
  (lookup_key k (objs (sfs (runs objs0 inputs sched))) <> None <->
   lookup_key k objs0 <> None \/
   exists tid t, nth_error (sthr (runs objs0 inputs sched)) tid = Some t /\ res t = Some (ROk k)).
Proof.
  intros objs0 inputs sched k Hwf Hdone. split.
  - intros Hl. destruct (lookup_key k (objs (sfs (runs objs0 inputs sched)))) as [c|] eqn:El; [|congruence].
    destruct (fs_objects_provenance D _ _ _ _ _ Hwf El) as [Hin|(tid & t & s0 & Ht & _ & _ & _ & _ & Hr)].
    + left. eapply In_lookup_key; eauto.
    + right. exists tid, t. split; [assumption|].
      destruct (res t) as [r|] eqn:Er.
      * now rewrite (Hr r eq_refl).
      * exfalso. apply (Hdone t); [eapply nth_error_In; eauto|assumption].
  - intros [Hl|(tid & t & Ht & Hr)].
    + destruct (lookup_key k objs0) as [c|] eqn:El; [|congruence].
      pose proof (fs_objects_stable D objs0 inputs [] sched k c Hwf) as Hs.
      cbn [app] in Hs. rewrite Hs; [discriminate|exact El].
    + assert (Hlt : tid < length (sthr (runs objs0 inputs sched))) by (apply nth_error_Some; congruence).
      pose proof (inv_run D objs0 inputs sched Hwf) as I.
      destruct (nth_error inputs tid) as [s0|] eqn:Ei.
      2:{ apply nth_error_None in Ei. rewrite <- (inv_len _ _ _ _ I) in Ei. lia. }
      destruct (fs_create_result D _ _ _ _ _ _ _ Hwf Ht Ei Hr) as (_ & _ & _ & _ & c & Hc & _).
      congruence.
Qed.

(** a decidable sufficient condition for the hypothesis on the initial directory *)
Definition wf_objsb (o : list (key * bytes)) : bool :=
  forallb (fun kc => bytes_eqb (HK (snd kc)) (fst kc)) o.

Lemma wf_objsb_sound o : wf_objsb o = true -> wf_objs D o.
Proof.
  unfold wf_objsb, wf_objs. rewrite forallb_forall. intros H k c Hl.
  apply lookup_key_In in Hl. specialize (H _ Hl). cbn in H. now apply bytes_eqb_eq.
Qed.

End Live.
