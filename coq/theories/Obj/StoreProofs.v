(** C18 — the file-system object store under any number of concurrent
    [Create] calls, any interleaving and any pattern of failing system calls
    and failing input readers: invariant proof over the skeleton of
    [fsObjects.Create] / [commit]. *)
From Coq Require Import List NArith ZArith Bool Lia.
From Verif Require Import Lib.Bytes Obj.Base Obj.Store.
Import ListNotations.

Section Proofs.
Variable D : bytes -> bytes.

Notation HK := (Hk D).
Notation vkey := (valid_key std_key_len std_key_ranges).
Notation step := (tstep D true fs_commit_skel std_key_len std_key_ranges).

(** Control points of one Create call: the suffixes of the skeleton, with
    commit's body spliced in at the call. *)
Notation c0 := [SkCreateTemp; SkDeferCleanup; SkTeeHash; SkCloseTemp; SkCheckKey; SkCommit; SkDisarm; SkReturnKey].
Notation c1 := [SkDeferCleanup; SkTeeHash; SkCloseTemp; SkCheckKey; SkCommit; SkDisarm; SkReturnKey].
Notation c2 := [SkTeeHash; SkCloseTemp; SkCheckKey; SkCommit; SkDisarm; SkReturnKey].
Notation c3 := [SkCloseTemp; SkCheckKey; SkCommit; SkDisarm; SkReturnKey].
Notation c4 := [SkCheckKey; SkCommit; SkDisarm; SkReturnKey].
Notation c5 := [SkCommit; SkDisarm; SkReturnKey].
Notation c6 := [CkLock; CkDeferUnlock; CkStat; CkRemoveOrRename; CkEnd; SkDisarm; SkReturnKey].
Notation c7 := [CkDeferUnlock; CkStat; CkRemoveOrRename; CkEnd; SkDisarm; SkReturnKey].
Notation c8 := [CkStat; CkRemoveOrRename; CkEnd; SkDisarm; SkReturnKey].
Notation c9 := [CkRemoveOrRename; CkEnd; SkDisarm; SkReturnKey].
Notation c10 := [CkEnd; SkDisarm; SkReturnKey].
Notation c11 := [SkDisarm; SkReturnKey].
Notation c12 := [SkReturnKey].

Lemma c0_is_skel : c0 = fs_create_skel.
Proof. reflexivity. Qed.

(** ** Per-thread invariant: what is true of thread [tid], whose input
    reader follows script [s0], at each control point. *)
Inductive linv (st : fsst) (tid : nat) (s0 : script) : thr -> Prop :=
| L0 :
    lookup_nat tid (tmp st) = None -> lock st <> Some tid ->
    linv st tid s0 (mkThr c0 None false false s0 [] None None None false)
| L1 :
    lookup_nat tid (tmp st) = Some [] -> lock st <> Some tid ->
    linv st tid s0 (mkThr c1 (Some tid) false false s0 [] None None None false)
| L2 : forall i a,
    lookup_nat tid (tmp st) = Some a -> lock st <> Some tid ->
    drain s0 = (a ++ fst (drain i), snd (drain i)) ->
    linv st tid s0 (mkThr c2 (Some tid) true false i a None None None false)
| L3 : forall c i a,
    c = c3 \/ c = c4 \/ c = c5 \/ c = c6 ->
    lookup_nat tid (tmp st) = Some a -> lock st <> Some tid ->
    drain s0 = (a, REof) ->
    linv st tid s0 (mkThr c (Some tid) true false i a (Some (HK a)) None None false)
| L7 : forall i a,
    lookup_nat tid (tmp st) = Some a -> lock st = Some tid ->
    drain s0 = (a, REof) ->
    linv st tid s0 (mkThr c7 (Some tid) true false i a (Some (HK a)) None None false)
| L8 : forall i a,
    lookup_nat tid (tmp st) = Some a -> lock st = Some tid ->
    drain s0 = (a, REof) ->
    linv st tid s0 (mkThr c8 (Some tid) true true i a (Some (HK a)) None None false)
| L9 : forall i a,
    lookup_nat tid (tmp st) = Some a -> lock st = Some tid ->
    drain s0 = (a, REof) ->
    linv st tid s0 (mkThr c9 (Some tid) true true i a (Some (HK a))
                          (Some (has_key (HK a) st)) None false)
| L10 : forall i a b cm,
    lookup_nat tid (tmp st) = None -> lock st = Some tid ->
    drain s0 = (a, REof) ->
    has_key (HK a) st = true ->
    (cm = true -> lookup_key (HK a) (objs st) = Some a) ->
    linv st tid s0 (mkThr c10 (Some tid) true true i a (Some (HK a)) (Some b) None cm)
| L11 : forall i a b cm,
    lookup_nat tid (tmp st) = None -> lock st <> Some tid ->
    drain s0 = (a, REof) ->
    has_key (HK a) st = true ->
    (cm = true -> lookup_key (HK a) (objs st) = Some a) ->
    linv st tid s0 (mkThr c11 (Some tid) true false i a (Some (HK a)) (Some b) None cm)
| L12 : forall i a b cm,
    lookup_nat tid (tmp st) = None -> lock st <> Some tid ->
    drain s0 = (a, REof) ->
    has_key (HK a) st = true ->
    (cm = true -> lookup_key (HK a) (objs st) = Some a) ->
    linv st tid s0 (mkThr c12 None true false i a (Some (HK a)) (Some b) None cm)
| LOk : forall i a b cm,
    lookup_nat tid (tmp st) = None -> lock st <> Some tid ->
    drain s0 = (a, REof) ->
    has_key (HK a) st = true ->
    (cm = true -> lookup_key (HK a) (objs st) = Some a) ->
    linv st tid s0 (mkThr [] None true false i a (Some (HK a)) (Some b) (Some (ROk (HK a))) cm)
| LErr : forall f ar i a k h r,
    lookup_nat tid (tmp st) = None -> lock st <> Some tid ->
    (forall k', r <> ROk k') ->
    (r = RPanic -> exists x, vkey (HK x) = false) ->
    (forall e, r = RErr (EInput e) -> snd (drain s0) = RFail e) ->
    linv st tid s0 (mkThr [] f ar false i a k h (Some r) false).

(** What one step of thread [tid] can do to the shared state. *)
Record effect (tid : nat) (st st' : fsst) : Prop := mkEffect {
  eff_tmp : forall j, j <> tid -> lookup_nat j (tmp st') = lookup_nat j (tmp st);
  eff_objs : objs st' = objs st \/
             (lock st = Some tid /\
              exists k c, objs st' = (k, c) :: objs st /\
                          lookup_key k (objs st) = None /\ HK c = k);
  eff_lock : lock st' = lock st \/
             (lock st = None /\ lock st' = Some tid) \/
             (lock st = Some tid /\ lock st' = None)
}.

Lemma effect_refl tid st : effect tid st st.
Proof. constructor; auto. Qed.

Ltac stepsimp :=
  unfold tstep in *; unfold finish, set_cont, set_lock, rm_tmp in *;
  cbn [cont tf armed udefer inp acc tk thas res committed
       fs_commit_skel app objs tmp lock] in *.

Ltac eff :=
  constructor; unfold set_lock, rm_tmp; cbn [objs tmp lock];
  [ intros ? ?; rewrite ?Nat.eqb_refl;
    rewrite ?lookup_set_nat_other, ?lookup_remove_nat_other by auto; auto
  | auto | auto ].

Ltac inj :=
  match goal with
  | Hs : Some (_, _) = Some (_, _) |- _ => injection Hs as <- <-
  end.

Definition step_post (st : fsst) (t : thr) (st' : fsst) (t' : thr) : Prop :=
  (committed t = true -> committed t' = true /\ tk t' = tk t /\ acc t' = acc t) /\
  (objs st' = objs st \/
   (committed t' = true /\ tk t' = Some (HK (acc t')) /\
    objs st' = (HK (acc t'), acc t') :: objs st)).

Lemma has_key_false k st : has_key k st = false -> lookup_key k (objs st) = None.
Proof. unfold has_key. destruct (lookup_key k (objs st)); [discriminate|reflexivity]. Qed.

Lemma has_key_cons_same k c o t l : has_key k (mkFs ((k, c) :: o) t l) = true.
Proof. unfold has_key. cbn [objs]. now rewrite lookup_key_cons_same. Qed.

(** The step of a thread preserves its own invariant, and its effect on the
    shared state is of the permitted kind. *)
Lemma lookup_remove_set_same {A} k (a : A) l : lookup_nat k (remove_nat k (set_nat k a l)) = None.
Proof. apply lookup_remove_nat_same. Qed.

Ltac tmpnone :=
  first [ apply lookup_remove_nat_same
        | apply lookup_remove_set_same
        | rewrite ?Nat.eqb_refl; apply lookup_remove_nat_same ].

Ltac done_eff_refl := split; [|split; [apply effect_refl|cbn; split; [try discriminate; auto|auto]]].
Ltac done_eff := split; [|split; [eff|cbn; split; [try discriminate; auto|auto]]].

Lemma step_self fault st tid s0 t st' t' :
  linv st tid s0 t -> step fault st tid t = Some (st', t') ->
  linv st' tid s0 t' /\ effect tid st st' /\ step_post st t st' t'.
Proof.
  intros HL. unfold step_post.
  destruct HL as [Htmp Hlock | Htmp Hlock | i a Htmp Hlock Hdr | c i a Hc Htmp Hlock Hdr
                 | i a Htmp Hlock Hdr | i a Htmp Hlock Hdr | i a Htmp Hlock Hdr
                 | i a b cm Htmp Hlock Hdr Hhas Hcm | i a b cm Htmp Hlock Hdr Hhas Hcm
                 | i a b cm Htmp Hlock Hdr Hhas Hcm | i a b cm Htmp Hlock Hdr Hhas Hcm
                 | f ar i a k h r Htmp Hlock Hnok Hpan Hinp];
    intros HS; stepsimp.
  - (* c0: createTemp *)
    destruct fault; inj.
    + done_eff_refl. apply LErr; auto; discriminate.
    + done_eff. apply L1; cbn [tmp lock]; auto. apply lookup_set_nat_same.
  - (* c1: defer *)
    inj. done_eff_refl. apply L2; auto. cbn. now destruct (drain s0).
  - (* c2: tee / hash *)
    destruct i as [|[chunk stt] more].
    + inj. done_eff_refl. apply L3; auto. cbn in Hdr. now rewrite app_nil_r in Hdr.
    + rewrite Htmp in HS.
      assert (Hd : drain s0 = ((a ++ chunk) ++ fst (drain (match stt with RNil => more | _ => [] end)),
                               match stt with RNil => snd (drain more) | _ => stt end)).
      { rewrite Hdr. destruct stt; cbn [drain fst snd].
        - destruct (drain more). cbn [fst snd]. now rewrite app_assoc.
        - now rewrite app_nil_r.
        - now rewrite app_nil_r. }
      destruct chunk as [|b chunk].
      * (* (0, status) *)
        destruct stt; inj.
        -- done_eff_refl. apply L2; rewrite ?app_nil_r; auto.
           rewrite app_nil_r in Hd. exact Hd.
        -- done_eff_refl. apply L3; rewrite ?app_nil_r; auto.
           rewrite !app_nil_r in Hd. exact Hd.
        -- done_eff. apply LErr; cbn [tmp lock]; auto; try discriminate.
           ++ tmpnone.
           ++ intros e0 [= ->]. now rewrite Hd.
      * (* (n>0, status) *)
        destruct fault; [inj|].
        -- done_eff. apply LErr; cbn [tmp lock]; auto; try discriminate.
           tmpnone.
        -- destruct stt; inj.
           ++ done_eff. apply L2; cbn [tmp lock]; auto. apply lookup_set_nat_same.
           ++ done_eff. apply L3; cbn [tmp lock]; auto; try apply lookup_set_nat_same.
              all: try (now rewrite app_nil_r in Hd).
           ++ done_eff. apply LErr; cbn [tmp lock]; auto; try discriminate.
              ** tmpnone.
              ** intros e0 [= ->]. now rewrite Hd.
  - (* c3..c6 *)
    destruct Hc as [-> | [-> | [-> | ->]]]; stepsimp.
    + (* close *)
      destruct fault; inj.
      * done_eff. apply LErr; cbn [tmp lock]; auto; try discriminate.
        tmpnone.
      * done_eff_refl. apply L3; auto.
    + (* isValidKey *)
      destruct (vkey (HK a)) eqn:Ev; inj.
      * done_eff_refl. apply L3; auto.
      * done_eff. apply LErr; cbn [tmp lock]; auto; try discriminate.
        -- tmpnone.
        -- intros _. now exists a.
    + (* call commit *)
      inj. done_eff_refl. apply L3; auto.
    + (* Lock *)
      destruct (lock st) eqn:El; [discriminate|]. inj.
      done_eff. apply L7; cbn [tmp lock]; auto.
  - (* c7: defer Unlock *)
    inj. done_eff_refl. apply L8; auto.
  - (* c8: stat *)
    destruct fault; inj.
    + done_eff. apply LErr; cbn [tmp lock]; auto; try discriminate.
      tmpnone.
    + done_eff_refl. apply L9; auto.
  - (* c9: remove or rename *)
    destruct (has_key (HK a) st) eqn:Eh.
    + destruct fault; inj.
      * done_eff. apply LErr; cbn [tmp lock]; auto; try discriminate.
        tmpnone.
      * done_eff. apply L10; cbn [tmp lock objs]; auto; try discriminate.
        tmpnone.
    + destruct fault; [inj|].
      * done_eff. apply LErr; cbn [tmp lock]; auto; try discriminate.
        tmpnone.
      * rewrite Htmp in HS. inj.
        split; [|split].
        -- apply L10; cbn [tmp lock objs]; auto.
           ++ tmpnone.
           ++ apply has_key_cons_same.
           ++ intros _. apply lookup_key_cons_same.
        -- constructor; cbn [objs tmp lock]; auto.
           ++ intros j Hj. now apply lookup_remove_nat_other.
           ++ right. split; [assumption|]. exists (HK a), a.
              repeat split; auto. now apply has_key_false.
        -- cbn. split; [discriminate|]. right. auto.
  - (* c10: commit returns, deferred Unlock *)
    inj. done_eff. apply L11; cbn [tmp lock objs]; auto; discriminate.
  - (* c11: f = nil *)
    inj. done_eff_refl. apply L12; auto.
  - (* c12: return k, nil *)
    inj. done_eff_refl. apply LOk; auto.
  - discriminate.
  - discriminate.
Qed.

Lemma has_key_objs_eq k st st' : objs st' = objs st -> has_key k st' = has_key k st.
Proof. unfold has_key. now intros ->. Qed.

Lemma lookup_key_extend k st st' tid c :
  effect tid st st' -> lookup_key k (objs st) = Some c -> lookup_key k (objs st') = Some c.
Proof.
  intros [_ [E|(_ & k' & c' & E & Hn & _)] _] Hl; rewrite E; [assumption|].
  rewrite lookup_key_cons_other; [assumption|]. intros ->. congruence.
Qed.

Lemma has_key_extend k st st' tid :
  effect tid st st' -> has_key k st = true -> has_key k st' = true.
Proof.
  unfold has_key. intros He. destruct (lookup_key k (objs st)) eqn:E; [|discriminate].
  now rewrite (lookup_key_extend _ _ _ _ _ He E).
Qed.

(** Steps of other threads preserve a thread's invariant. *)
Lemma linv_frame st st' tid j s0 t :
  linv st j s0 t -> effect tid st st' -> j <> tid -> linv st' j s0 t.
Proof.
  intros HL He Hj.
  assert (Ht : lookup_nat j (tmp st') = lookup_nat j (tmp st)) by (apply He; auto).
  assert (Hnl : lock st <> Some j -> lock st' <> Some j).
  { intros Hn. destruct (eff_lock _ _ _ He) as [E|[[_ E]|[_ E]]]; rewrite E; congruence. }
  assert (Hl : lock st = Some j -> lock st' = Some j).
  { intros Hn. destruct (eff_lock _ _ _ He) as [E|[[E _]|[E _]]]; congruence. }
  assert (Hobjs : lock st = Some j -> objs st' = objs st).
  { intros Hn. destruct (eff_objs _ _ _ He) as [E|[E _]]; congruence. }
  destruct HL as [Htmp Hlock | Htmp Hlock | i a Htmp Hlock Hdr | c i a Hc Htmp Hlock Hdr
                 | i a Htmp Hlock Hdr | i a Htmp Hlock Hdr | i a Htmp Hlock Hdr
                 | i a b cm Htmp Hlock Hdr Hhas Hcm | i a b cm Htmp Hlock Hdr Hhas Hcm
                 | i a b cm Htmp Hlock Hdr Hhas Hcm | i a b cm Htmp Hlock Hdr Hhas Hcm
                 | f ar i a k h r Htmp Hlock Hnok Hpan Hinp].
  - apply L0; auto. congruence.
  - apply L1; auto. congruence.
  - apply L2; auto. congruence.
  - apply L3; auto. congruence.
  - apply L7; auto. congruence.
  - apply L8; auto. congruence.
  - rewrite <- (has_key_objs_eq (HK a) st st') by auto. apply L9; auto. congruence.
  - apply L10; auto; try congruence.
    + eapply has_key_extend; eauto.
    + intros Hc. eapply lookup_key_extend; eauto.
  - apply L11; auto; try congruence.
    + eapply has_key_extend; eauto.
    + intros Hc. eapply lookup_key_extend; eauto.
  - apply L12; auto; try congruence.
    + eapply has_key_extend; eauto.
    + intros Hc. eapply lookup_key_extend; eauto.
  - apply LOk; auto; try congruence.
    + eapply has_key_extend; eauto.
    + intros Hc. eapply lookup_key_extend; eauto.
  - apply LErr; auto. congruence.
Qed.

(** ** System invariant *)

Definition wf_objs (o : list (key * bytes)) : Prop :=
  forall k c, lookup_key k o = Some c -> HK c = k.

Record inv (objs0 : list (key * bytes)) (inputs : list script) (s : sys) : Prop := mkInv {
  inv_len : length (sthr s) = length inputs;
  inv_wf : wf_objs (objs (sfs s));
  inv_thr : forall tid t s0,
      nth_error (sthr s) tid = Some t -> nth_error inputs tid = Some s0 ->
      linv (sfs s) tid s0 t;
  inv_tmp : forall j, lookup_nat j (tmp (sfs s)) <> None -> (j < length (sthr s))%nat;
  inv_lock : forall j, lock (sfs s) = Some j -> (j < length (sthr s))%nat;
  inv_prov : forall k c, In (k, c) (objs (sfs s)) ->
      In (k, c) objs0 \/
      exists tid t, nth_error (sthr s) tid = Some t /\
                    committed t = true /\ tk t = Some k /\ acc t = c
}.

Lemma nth_error_upd_same {A} n (a : A) l x :
  nth_error l n = Some x -> nth_error (upd_nth n a l) n = Some a.
Proof.
  revert n; induction l as [|y l IH]; intros [|n]; cbn; try discriminate; auto.
Qed.

Lemma nth_error_upd_other {A} n m (a : A) l :
  n <> m -> nth_error (upd_nth n a l) m = nth_error l m.
Proof.
  revert n m; induction l as [|y l IH]; intros [|n] [|m] Hn; cbn; auto; try congruence.
Qed.

Lemma upd_nth_length {A} n (a : A) l : length (upd_nth n a l) = length l.
Proof. revert n; induction l as [|y l IH]; intros [|n]; cbn; auto. Qed.

Lemma inv_init objs0 inputs :
  wf_objs objs0 -> inv objs0 inputs (init_sys fs_create_skel objs0 inputs).
Proof.
  intros Hwf. constructor; cbn [init_sys sfs sthr objs tmp lock].
  - apply map_length.
  - exact Hwf.
  - intros tid t s0 Ht Hs. rewrite nth_error_map, Hs in Ht. cbn in Ht.
    injection Ht as <-. unfold new_thr. apply L0; cbn; [reflexivity|discriminate].
  - intros j Hj. now cbn in Hj.
  - discriminate.
  - intros k c Hin. now left.
Qed.

Lemma inv_step objs0 inputs s e :
  inv objs0 inputs s -> inv objs0 inputs (sys_step D true fs_commit_skel std_key_len std_key_ranges s e).
Proof.
  intros I. destruct e as [tid fault]. unfold sys_step. cbn [fst snd].
  destruct (nth_error (sthr s) tid) as [t|] eqn:Et; [|exact I].
  destruct (step fault (sfs s) tid t) as [[st' t']|] eqn:Es; [|exact I].
  assert (Hlt : (tid < length (sthr s))%nat) by (apply nth_error_Some; congruence).
  destruct (nth_error inputs tid) as [s0|] eqn:Ei.
  2:{ apply nth_error_None in Ei. rewrite <- (inv_len _ _ _ I) in Ei. lia. }
  destruct (step_self _ _ _ _ _ _ _ (inv_thr _ _ _ I _ _ _ Et Ei) Es) as (HL & He & Hc & Ho).
  constructor; cbn [sfs sthr].
  - rewrite upd_nth_length. apply I.
  - intros k c Hl. destruct (eff_objs _ _ _ He) as [E|(_ & k' & c' & E & Hn & Hh)];
      rewrite E in Hl.
    + now apply (inv_wf _ _ _ I).
    + cbn in Hl. destruct (bytes_eqb k k') eqn:Ek.
      * apply bytes_eqb_eq in Ek. injection Hl as <-. congruence.
      * now apply (inv_wf _ _ _ I).
  - intros j tj sj Hj Hsj. destruct (Nat.eq_dec j tid) as [->|Hne].
    + rewrite (nth_error_upd_same _ _ _ _ Et) in Hj. injection Hj as <-.
      rewrite Ei in Hsj. injection Hsj as <-. exact HL.
    + rewrite nth_error_upd_other in Hj by auto.
      eapply linv_frame; eauto. eapply (inv_thr _ _ _ I); eauto.
  - intros j Hj. rewrite upd_nth_length. destruct (Nat.eq_dec j tid) as [->|Hne]; [assumption|].
    apply (inv_tmp _ _ _ I). now rewrite <- (eff_tmp _ _ _ He j Hne).
  - intros j Hj. rewrite upd_nth_length.
    destruct (eff_lock _ _ _ He) as [E|[[_ E]|[_ E]]]; rewrite E in Hj.
    + now apply (inv_lock _ _ _ I).
    + now injection Hj as <-.
    + discriminate.
  - intros k c Hin.
    assert (Hold : In (k, c) (objs (sfs s)) ->
                   In (k, c) objs0 \/
                   exists tid0 t0, nth_error (upd_nth tid t' (sthr s)) tid0 = Some t0 /\
                                   committed t0 = true /\ tk t0 = Some k /\ acc t0 = c).
    { intros Hin'. destruct (inv_prov _ _ _ I _ _ Hin') as [Hi|(j & tj & Hj & Hcm & Hk & Ha)];
        [now left|right].
      destruct (Nat.eq_dec j tid) as [->|Hne].
      - exists tid, t'. rewrite (nth_error_upd_same _ _ _ _ Et).
        rewrite Et in Hj. injection Hj as <-.
        destruct (Hc Hcm) as (C1 & C2 & C3). repeat split; congruence.
      - exists j, tj. rewrite nth_error_upd_other by auto. auto. }
    destruct Ho as [E|(C1 & C2 & E)]; rewrite E in Hin; [now apply Hold|].
    destruct Hin as [Heq|Hin]; [|now apply Hold].
    injection Heq as <- <-. right. exists tid, t'.
    rewrite (nth_error_upd_same _ _ _ _ Et). auto.
Qed.

Theorem inv_run objs0 inputs sched :
  wf_objs objs0 ->
  inv objs0 inputs
      (run D true fs_commit_skel std_key_len std_key_ranges
           (init_sys fs_create_skel objs0 inputs) sched).
Proof.
  intros Hwf. unfold run.
  assert (G : forall s, inv objs0 inputs s ->
                        inv objs0 inputs
                            (fold_left (sys_step D true fs_commit_skel std_key_len std_key_ranges) sched s)).
  { induction sched as [|e r IH]; intros s I; [exact I|]. cbn. apply IH. now apply inv_step. }
  apply G. now apply inv_init.
Qed.

(** ** Consequences *)

Notation runs objs0 inputs sched :=
  (run D true fs_commit_skel std_key_len std_key_ranges (init_sys fs_create_skel objs0 inputs) sched).

(** Every object file holds bytes that hash to its name. *)
Theorem fs_objects_well_keyed : forall objs0 inputs sched k c,
  wf_objs objs0 ->
  lookup_key k (objs (sfs (runs objs0 inputs sched))) = Some c -> HK c = k.
Proof. intros. eapply inv_wf; [apply inv_run|]; eauto. Qed.

Theorem fs_open_sound : forall objs0 inputs sched k,
  wf_objs objs0 ->
  match fs_open std_key_len std_key_ranges (sfs (runs objs0 inputs sched)) k with
  | OFound c => HK c = k /\ vkey k = true
  | ONotFound => True
  end.
Proof.
  intros objs0 inputs sched k Hwf. unfold fs_open.
  destruct (vkey k) eqn:Ev; [|exact I].
  destruct (lookup_key k _) eqn:El; [|exact I].
  split; [|reflexivity]. eapply fs_objects_well_keyed; eauto.
Qed.

Lemma linv_done st tid s0 t r :
  linv st tid s0 t -> res t = Some r ->
  lookup_nat tid (tmp st) = None /\ lock st <> Some tid /\
  match r with
  | ROk k => drain s0 = (acc t, REof) /\ k = HK (acc t) /\ has_key k st = true
  | RErr e => committed t = false /\ (forall x, e = EInput x -> snd (drain s0) = RFail x)
  | RPanic => committed t = false /\ exists x, vkey (HK x) = false
  end.
Proof.
  intros HL.
  destruct HL as [Htmp Hlock | Htmp Hlock | i a Htmp Hlock Hdr | c i a Hc Htmp Hlock Hdr
                 | i a Htmp Hlock Hdr | i a Htmp Hlock Hdr | i a Htmp Hlock Hdr
                 | i a b cm Htmp Hlock Hdr Hhas Hcm | i a b cm Htmp Hlock Hdr Hhas Hcm
                 | i a b cm Htmp Hlock Hdr Hhas Hcm | i a b cm Htmp Hlock Hdr Hhas Hcm
                 | f ar i a k h r0 Htmp Hlock Hnok Hpan Hinp];
    cbn [res acc committed]; intros Hr; try discriminate; injection Hr as <-.
  - auto.
  - split; [assumption|split; [assumption|]].
    destruct r0.
    + exfalso. eapply Hnok; eauto.
    + split; [reflexivity|]. intros x ->. auto.
    + split; [reflexivity|]. auto.
Qed.

Lemma linv_committed st tid s0 t :
  linv st tid s0 t -> committed t = true ->
  drain s0 = (acc t, REof) /\ tk t = Some (HK (acc t)) /\
  (forall r, res t = Some r -> r = ROk (HK (acc t))).
Proof.
  intros HL.
  destruct HL as [Htmp Hlock | Htmp Hlock | i a Htmp Hlock Hdr | c i a Hc Htmp Hlock Hdr
                 | i a Htmp Hlock Hdr | i a Htmp Hlock Hdr | i a Htmp Hlock Hdr
                 | i a b cm Htmp Hlock Hdr Hhas Hcm | i a b cm Htmp Hlock Hdr Hhas Hcm
                 | i a b cm Htmp Hlock Hdr Hhas Hcm | i a b cm Htmp Hlock Hdr Hhas Hcm
                 | f ar i a k h r0 Htmp Hlock Hnok Hpan Hinp];
    cbn [res acc committed tk]; intros Hc'; try discriminate;
    (split; [assumption|split; [reflexivity|]]); intros r Hr; try discriminate.
  now injection Hr as <-.
Qed.

(** What a returned Create call means. *)
Theorem fs_create_result : forall objs0 inputs sched tid t s0 r,
  wf_objs objs0 ->
  nth_error (sthr (runs objs0 inputs sched)) tid = Some t ->
  nth_error inputs tid = Some s0 ->
  res t = Some r ->
  lookup_nat tid (tmp (sfs (runs objs0 inputs sched))) = None /\
  lock (sfs (runs objs0 inputs sched)) <> Some tid /\
  match r with
  | ROk k =>
      drain s0 = (acc t, REof) /\ k = HK (acc t) /\
      exists c, lookup_key k (objs (sfs (runs objs0 inputs sched))) = Some c /\ HK c = k
  | RErr e =>
      committed t = false /\
      (forall x, e = EInput x -> snd (drain s0) = RFail x)
  | RPanic => committed t = false /\ exists x, vkey (HK x) = false
  end.
Proof.
  intros objs0 inputs sched tid t s0 r Hwf Ht Hs Hr.
  pose proof (inv_run objs0 inputs sched Hwf) as I.
  pose proof (inv_thr _ _ _ I _ _ _ Ht Hs) as HL.
  destruct (linv_done _ _ _ _ _ HL Hr) as (A & B & C).
  split; [assumption|split; [assumption|]].
  destruct r; auto.
  destruct C as (C1 & C2 & C3). repeat split; auto.
  unfold has_key in C3. destruct (lookup_key k _) eqn:El; [|discriminate].
  eexists; split; [reflexivity|]. eapply inv_wf; eauto.
Qed.

(** An input reader that fails can only produce an error. *)
Theorem fs_input_failure_is_error : forall objs0 inputs sched tid t s0 r e,
  wf_objs objs0 ->
  nth_error (sthr (runs objs0 inputs sched)) tid = Some t ->
  nth_error inputs tid = Some s0 ->
  res t = Some r -> snd (drain s0) = RFail e ->
  (forall k, r <> ROk k) /\ committed t = false.
Proof.
  intros objs0 inputs sched tid t s0 r e Hwf Ht Hs Hr Hd.
  destruct (fs_create_result _ _ _ _ _ _ _ Hwf Ht Hs Hr) as (_ & _ & Hm).
  destruct r.
  - destruct Hm as (Hm & _). rewrite Hm in Hd. discriminate.
  - split; [discriminate|apply Hm].
  - split; [discriminate|apply Hm].
Qed.

(** Once every call has returned, tmp/ is empty and the lock is free. *)
Theorem fs_no_temp_left : forall objs0 inputs sched,
  wf_objs objs0 ->
  all_done (runs objs0 inputs sched) ->
  tmp (sfs (runs objs0 inputs sched)) = [] /\ lock (sfs (runs objs0 inputs sched)) = None.
Proof.
  intros objs0 inputs sched Hwf Hdone.
  pose proof (inv_run objs0 inputs sched Hwf) as I.
  set (s := runs objs0 inputs sched) in *.
  assert (Hthr : forall j, (j < length (sthr s))%nat ->
                           lookup_nat j (tmp (sfs s)) = None /\ lock (sfs s) <> Some j).
  { intros j Hj.
    destruct (nth_error (sthr s) j) as [t|] eqn:Et; [|apply nth_error_None in Et; lia].
    destruct (nth_error inputs j) as [s0|] eqn:Ei.
    2:{ apply nth_error_None in Ei. rewrite <- (inv_len _ _ _ I) in Ei. lia. }
    destruct (res t) as [r|] eqn:Er.
    - destruct (fs_create_result _ _ _ _ _ _ _ Hwf Et Ei Er) as (A & B & _). auto.
    - exfalso. apply (Hdone t); [eapply nth_error_In; eauto|assumption]. }
  split.
  - apply lookup_nat_all_none. intros j.
    destruct (lookup_nat j (tmp (sfs s))) eqn:El; [|reflexivity].
    assert (Hj : (j < length (sthr s))%nat) by (apply (inv_tmp _ _ _ I); congruence).
    destruct (Hthr j Hj) as [A _]. congruence.
  - destruct (lock (sfs s)) as [j|] eqn:El; [|reflexivity].
    destruct (Hthr j (inv_lock _ _ _ I j El)) as [_ B]. congruence.
Qed.

(** Every temp file belongs to a call that has not returned yet. *)
Theorem fs_temp_has_live_owner : forall objs0 inputs sched j c,
  wf_objs objs0 ->
  lookup_nat j (tmp (sfs (runs objs0 inputs sched))) = Some c ->
  exists t, nth_error (sthr (runs objs0 inputs sched)) j = Some t /\ res t = None.
Proof.
  intros objs0 inputs sched j c Hwf Hl.
  pose proof (inv_run objs0 inputs sched Hwf) as I.
  set (s := runs objs0 inputs sched) in *.
  assert (Hj : (j < length (sthr s))%nat) by (apply (inv_tmp _ _ _ I); congruence).
  destruct (nth_error (sthr s) j) as [t|] eqn:Et; [|apply nth_error_None in Et; lia].
  exists t. split; [reflexivity|].
  destruct (nth_error inputs j) as [s0|] eqn:Ei.
  2:{ apply nth_error_None in Ei. rewrite <- (inv_len _ _ _ I) in Ei. lia. }
  destruct (res t) as [r|] eqn:Er; [|reflexivity].
  destruct (fs_create_result _ _ _ _ _ _ _ Hwf Et Ei Er) as (A & _). subst s. congruence.
Qed.

(** Where objects come from: each is an initial one or the complete input of
    a call that committed (and such a call returns its key, see below). *)
Theorem fs_objects_provenance : forall objs0 inputs sched k c,
  wf_objs objs0 ->
  lookup_key k (objs (sfs (runs objs0 inputs sched))) = Some c ->
  In (k, c) objs0 \/
  exists tid t s0, nth_error (sthr (runs objs0 inputs sched)) tid = Some t /\
                   nth_error inputs tid = Some s0 /\
                   committed t = true /\ drain s0 = (c, REof) /\ k = HK c /\
                   (forall r, res t = Some r -> r = ROk k).
Proof.
  intros objs0 inputs sched k c Hwf Hl.
  pose proof (inv_run objs0 inputs sched Hwf) as I.
  destruct (inv_prov _ _ _ I _ _ (lookup_key_In _ _ _ Hl)) as [Hi|(tid & t & Ht & Hc & Hk & Ha)];
    [now left|right].
  set (s := runs objs0 inputs sched) in *.
  assert (Hj : (tid < length (sthr s))%nat) by (apply nth_error_Some; congruence).
  destruct (nth_error inputs tid) as [s0|] eqn:Ei.
  2:{ apply nth_error_None in Ei. rewrite <- (inv_len _ _ _ I) in Ei. lia. }
  pose proof (inv_thr _ _ _ I _ _ _ Ht Ei) as HL.
  destruct (linv_committed _ _ _ _ HL Hc) as (C1 & C2 & C3).
  assert (Ek : k = HK c) by congruence.
  exists tid, t, s0. subst c. repeat split; auto.
  intros r Hr. rewrite Ek. auto.
Qed.

(** Objects are never changed or removed by later steps. *)
Theorem fs_objects_stable : forall objs0 inputs sched more k c,
  wf_objs objs0 ->
  lookup_key k (objs (sfs (runs objs0 inputs sched))) = Some c ->
  lookup_key k (objs (sfs (runs objs0 inputs (sched ++ more)))) = Some c.
Proof.
  intros objs0 inputs sched more k c Hwf. unfold run. rewrite fold_left_app.
  pose proof (inv_run objs0 inputs sched Hwf) as I. unfold run in I.
  set (s := fold_left _ sched _) in *. clearbody s.
  revert s I. induction more as [|e more IH]; intros s I Hl; [exact Hl|].
  cbn [fold_left]. apply IH; [now apply inv_step|].
  destruct e as [tid fault]. unfold sys_step. cbn [fst snd].
  destruct (nth_error (sthr s) tid) as [t|] eqn:Et; [|exact Hl].
  destruct (step fault (sfs s) tid t) as [[st' t']|] eqn:Es; [|exact Hl].
  assert (Hlt : (tid < length (sthr s))%nat) by (apply nth_error_Some; congruence).
  destruct (nth_error inputs tid) as [s0|] eqn:Ei.
  2:{ apply nth_error_None in Ei. rewrite <- (inv_len _ _ _ I) in Ei. lia. }
  destruct (step_self _ _ _ _ _ _ _ (inv_thr _ _ _ I _ _ _ Et Ei) Es) as (_ & He & _).
  cbn [sfs]. eapply lookup_key_extend; eauto.
Qed.

Lemma linv_enabled st tid s0 t :
  linv st tid s0 t -> res t = None ->
  lock st = None \/ lock st = Some tid ->
  step false st tid t <> None.
Proof.
  intros HL.
  destruct HL as [Htmp Hlock | Htmp Hlock | i a Htmp Hlock Hdr | c i a Hc Htmp Hlock Hdr
                 | i a Htmp Hlock Hdr | i a Htmp Hlock Hdr | i a Htmp Hlock Hdr
                 | i a b cm Htmp Hlock Hdr Hhas Hcm | i a b cm Htmp Hlock Hdr Hhas Hcm
                 | i a b cm Htmp Hlock Hdr Hhas Hcm | i a b cm Htmp Hlock Hdr Hhas Hcm
                 | f ar i a k h r0 Htmp Hlock Hnok Hpan Hinp];
    cbn [res]; intros Hr Hl; try discriminate; stepsimp; try discriminate.
  - destruct i as [|[chunk stt] more]; [discriminate|].
    rewrite Htmp. destruct chunk; destruct stt; discriminate.
  - destruct Hc as [-> | [-> | [-> | ->]]]; stepsimp; try discriminate.
    + destruct (vkey (HK a)); discriminate.
    + destruct Hl as [Hl|Hl]; [rewrite Hl; discriminate|congruence].
  - destruct (has_key (HK a) st); [discriminate|]. rewrite Htmp. discriminate.
Qed.

(** No deadlock: while some call has not returned, some thread can move. *)
Theorem fs_no_deadlock : forall objs0 inputs sched,
  wf_objs objs0 ->
  ~ all_done (runs objs0 inputs sched) ->
  exists tid t, nth_error (sthr (runs objs0 inputs sched)) tid = Some t /\
                step false (sfs (runs objs0 inputs sched)) tid t <> None.
Proof.
  intros objs0 inputs sched Hwf Hnd.
  pose proof (inv_run objs0 inputs sched Hwf) as I.
  set (s := runs objs0 inputs sched) in *.
  assert (Hinp : forall j t, nth_error (sthr s) j = Some t -> exists s0, nth_error inputs j = Some s0).
  { intros j t Hj. destruct (nth_error inputs j) as [s0|] eqn:Ei; [eauto|].
    apply nth_error_None in Ei. rewrite <- (inv_len _ _ _ I) in Ei.
    assert ((j < length (sthr s))%nat) by (apply nth_error_Some; congruence). lia. }
  destruct (lock (sfs s)) as [h|] eqn:El.
  - (* the holder can move *)
    pose proof (inv_lock _ _ _ I h El) as Hh.
    destruct (nth_error (sthr s) h) as [t|] eqn:Et; [|apply nth_error_None in Et; lia].
    destruct (Hinp h t Et) as [s0 Ei].
    exists h, t. split; [exact Et|].
    pose proof (inv_thr _ _ _ I _ _ _ Et Ei) as HL.
    apply (linv_enabled _ _ _ _ HL); [|now right].
    destruct (res t) as [r|] eqn:Er; [|reflexivity].
    destruct (linv_done _ _ _ _ _ HL Er) as (_ & B & _). congruence.
  - (* lock free: any unfinished thread can move *)
    assert (Hex : exists t, In t (sthr s) /\ res t = None).
    { clear -Hnd. unfold all_done in Hnd.
      induction (sthr s) as [|t l IH].
      - exfalso. apply Hnd. intros t [].
      - destruct (res t) eqn:Er.
        + destruct IH as (t' & Hin & Hr).
          * intros Hall. apply Hnd. intros t' [<-|Hin]; [congruence|auto].
          * exists t'. split; [now right|assumption].
        + exists t. split; [now left|assumption]. }
    destruct Hex as (t & Hin & Hr).
    destruct (In_nth_error _ _ Hin) as [j Hj].
    destruct (Hinp j t Hj) as [s0 Ei].
    exists j, t. split; [assumption|].
    pose proof (inv_thr _ _ _ I _ _ _ Hj Ei) as HL.
    apply (linv_enabled _ _ _ _ HL Hr). now left.
Qed.

(** With a hash that yields 32 bytes, [Create] never panics. *)
Theorem fs_no_panic : forall objs0 inputs sched tid t,
  (forall x, is_bytes (D x) /\ length (D x) = 32%nat) ->
  wf_objs objs0 ->
  nth_error (sthr (runs objs0 inputs sched)) tid = Some t ->
  res t <> Some RPanic.
Proof.
  intros objs0 inputs sched tid t HD Hwf Ht Hr.
  pose proof (inv_run objs0 inputs sched Hwf) as I.
  set (s := runs objs0 inputs sched) in *.
  assert (Hj : (tid < length (sthr s))%nat) by (apply nth_error_Some; congruence).
  destruct (nth_error inputs tid) as [s0|] eqn:Ei.
  2:{ apply nth_error_None in Ei. rewrite <- (inv_len _ _ _ I) in Ei. lia. }
  destruct (fs_create_result _ _ _ _ _ _ _ Hwf Ht Ei Hr) as (_ & _ & _ & x & Hx).
  destruct (HD x) as [Hb Hl]. unfold Hk in Hx. rewrite hex_key_valid in Hx by assumption.
  discriminate.
Qed.

End Proofs.
